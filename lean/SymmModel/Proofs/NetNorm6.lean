/-
  SymmModel.Proofs.NetNorm6 — network form of the norm (property C10), continuation part 6:
  `conj_tensordot` with a flip set sparing further bond legs `y` of the second tensor:
  `braOf a xa · braOf b (xb ++ y)` is observationally `braOf (a·b) (images of y)`
  (copies of `bra_pair_sign`, `gradedContract_bra`, `conj_tensordot` of NormNet3–5 with the sign of
  the target replaced, `dangOdd_result` in place of `dualOdd_result`).
-/
import SymmModel.Proofs.NetNorm5
namespace SymmModel.NormNet
open SymmModel SymmModel.Lazy SymmModel.Norm SymmModel.TdotP SymmModel.GradedP SymmModel.RoutesP
open SymmModel.AssocP
open SymmModel.KoszulP (sgn tri sgn_add sgn_congr sgn_cases sgn_eq_pow tri_eq)
set_option linter.unusedSectionVars false

section adm
variable {R : Type} [AddMonoid R] [Mul R] [Neg R] [Conj R]

/-- bra tensors with ANY flip sets satisfy the weak guard along the same bond -/
theorem braOf_admW' {a b : Arr R} {xa xb : List Nat} (h : AdmW a b xa xb) (Xa Xb : List Nat) :
    AdmW (braOf a Xa) (braOf b Xb) xa xb := by
  obtain ⟨ha, hb, hfa, hfb, hsym, hc, hnA, hnB, hA, hB⟩ := h
  refine ⟨braOf_valid a Xa ha hfa, braOf_valid b Xb hb hfb, braOf_fermi a Xa hfa,
    braOf_fermi b Xb hfb, ?_, ?_, hnA, hnB, ?_, ?_⟩
  · rw [(braOf_frame a Xa).1, (braOf_frame b Xb).1, hsym]
  · rw [commonB_iff] at hc ⊢
    refine ⟨hc.1, fun j hj => ?_⟩
    obtain ⟨h1, h2⟩ := hc.2 j hj
    have hj' : j < xb.length := hc.1 ▸ hj
    have m1 : xa.getD j 0 ∈ xa := by
      rw [List.getD_eq_getElem?_getD, List.getElem?_eq_getElem hj]; exact List.getElem_mem hj
    have m2 : xb.getD j 0 ∈ xb := by
      rw [List.getD_eq_getElem?_getD, List.getElem?_eq_getElem hj']; exact List.getElem_mem hj'
    rw [(braOf_frame a Xa).2.2.1, (braOf_frame b Xb).2.2.1,
      getD_map_conj _ _ (hA _ m1), getD_map_conj _ _ (hB _ m2), Index.conj_cm, Index.conj_cm,
      Lazy.Index.conj_dual, Lazy.Index.conj_dual]
    exact ⟨h1, by rw [h2]⟩
  · intro i hi; rw [braOf_ndim]; exact hA i hi
  · intro i hi; rw [braOf_ndim]; exact hB i hi

/-- **the sign identity of one aligned stored sector pair, bond legs `y` spared** -/
theorem bra_pair_sign' {a b K : Arr R} {xa xb y : List Nat} (h : AdmW a b xa xb)
    (hM : Mid b.ndim xb y) (S : List Sector)
    (hKs : K.sym = a.sym)
    (hKi : K.indices = dropUnused (without a.indices xa ++ without b.indices xb) S)
    (hKp : K.parity = xor a.parity b.parity)
    (hKl : (K.oddpos.length % 2 == 1) = K.parity)
    {sa sb : Sector} (hsa : sa ∈ a.sectors) (hsb : sb ∈ b.sectors)
    (hal : permuted sb xb = permuted sa xa)
    (ph ph' : Int) (hph' : ph' = ph * sgB (a.parity && b.parity)) :
    ph' * (gradedSign (braOf a xa) (braOf b (xb ++ y)) xa xb sa sb
        * (braSign a xa sa * braSign b (xb ++ y) sb))
      = braSign K (AssocP.axesAB a.ndim b.ndim xa xb y)
            (permuted sa (freeAxes a.ndim xa) ++ permuted sb (freeAxes b.ndim xb))
          * (ph * gradedSign a b xa xb sa sb) := by
  obtain ⟨ha, hb, hfa, hfb, hsym, hc, hnA, hnB, hA, hB⟩ := h
  have hla : sa.length = a.ndim := SecLen.of_valid ha sa hsa
  have hlb : sb.length = b.ndim := SecLen.of_valid hb sb hsb
  have hva := SecValid.of_valid ha sa hsa
  have hvb := SecValid.of_valid hb sb hsb
  have hlabA := (NormOk.of_valid ha hfa).labels
  have hlabB := (NormOk.of_valid hb hfb).labels
  have hkB : oddN b.sym (permuted sb xb) = oddN a.sym (permuted sa xa) := by rw [hal, hsym]
  have hpA : ((oddN a.sym (permuted sa (freeAxes a.ndim xa)) + oddN a.sym (permuted sa xa)) % 2 == 1)
      = a.parity := by
    rw [← oddN_split a.sym sa hla hnA hA, ← oddN_parities]
    exact odd_count_sector hla hva
  have hpB : ((oddN a.sym (permuted sb (freeAxes b.ndim xb)) + oddN a.sym (permuted sa xa)) % 2 == 1)
      = b.parity := by
    rw [← hkB, hsym, ← oddN_split b.sym sb hlb hnB hB, ← oddN_parities]
    exact odd_count_sector hlb hvb
  have e_g := gradedSign_sgn a b xa xb sa sb
  have e_gb : gradedSign (braOf a xa) (braOf b (xb ++ y)) xa xb sa sb
      = koszul (a.parities sa) (some (freeAxes a.ndim xa ++ xa))
        * koszul (b.parities sb) (some (xb ++ freeAxes b.ndim xb))
        * sgn (tri (oddContracted a xa sa)) * sgn (ketOdd (braOf a xa) xa sa) := by
    rw [gradedSign_sgn, braOf_parities, braOf_parities, braOf_ndim, braOf_ndim]
    have : oddContracted (braOf a xa) xa sa = oddContracted a xa sa := by
      unfold oddContracted; rw [(braOf_frame a xa).1]
    rw [this]
  have e_a := braSign_eq a xa sa hlabA
  have e_b := braSign_eq b (xb ++ y) sb hlabB
  rw [oddN_split a.sym sa hla hnA hA] at e_a
  rw [oddN_split b.sym sb hlb hnB hB, hkB, ← hsym] at e_b
  have e_K : braSign K (AssocP.axesAB a.ndim b.ndim xa xb y)
        (permuted sa (freeAxes a.ndim xa) ++ permuted sb (freeAxes b.ndim xb))
      = sgB (xor a.parity b.parity) * (sgn (dangOdd a xa sa + dangOdd b (xb ++ y) sb)
          * sgn (tri (oddN a.sym (permuted sa (freeAxes a.ndim xa))
              + oddN a.sym (permuted sb (freeAxes b.ndim xb))))) := by
    rw [braSign_eq K _ _ hKl, hKp, dangOdd_result a b K xa xb y S hKs hsym hKi hM sa sb hla hlb,
      hKs, oddN_append]
    exact Int.mul_left_comm _ _ _
  rw [e_gb, e_g, e_a, e_b, e_K]
  exact sign_algebra _ _ _ _ _ _ _ _ _ _ _ _ _ hpA hpB (ketOdd_bra a xa sa hA hla) hph'

end adm

/-! ## the graded contraction of the bra tensors -/
section contract
variable {R : Type} [AddMonoid R] [Mul R] [Neg R] [Conj R] [NetLaws R]

theorem contractPair_bra' (a b : Arr R) (Xa Xb xa xb oL oR : List Nat) (p : Sector × Sector)
    (ha : SignOk a) (hb : SignOk b) :
    contractPair (braOf a Xa) (braOf b Xb) xa xb oL oR p
      = sgnI (braSign a Xa p.1 * braSign b Xb p.2) (Conj.conj (contractPair a b xa xb oL oR p)) := by
  unfold contractPair contractTerm
  rw [(braOf_frame a Xa).2.2.1, blockShapeD_map_conj, braOf_ndim, braOf_ndim, conj_sum, ← sum_sgnI]
  congr 1
  apply List.map_congr_left
  intro k _
  rw [braOf_elem a Xa ha, braOf_elem b Xb hb,
    sgnI_mul_sgnI (braSign_pm _ _ _) (braSign_pm _ _ _), NetLaws.conj_mul]

/-- the graded contraction of the bra pair (bond legs `y` of `b` spared) is the `braOf` value of the
    graded contraction of the ket pair -/
theorem gradedContract_bra' {a b K : Arr R} {xa xb y : List Nat} (h : AdmW a b xa xb)
    (hM : Mid b.ndim xb y) (S : List Sector)
    (hKs : K.sym = a.sym)
    (hKi : K.indices = dropUnused (without a.indices xa ++ without b.indices xb) S)
    (hKp : K.parity = xor a.parity b.parity)
    (hKl : (K.oddpos.length % 2 == 1) = K.parity)
    (ph ph' : Int) (hph : ph = 1 ∨ ph = -1) (hph' : ph' = ph * sgB (a.parity && b.parity))
    (s : Sector) (oL oR : List Nat) :
    sgnI ph' (gradedContract (braOf a xa) (braOf b (xb ++ y)) xa xb s oL oR)
      = sgnI (braSign K (AssocP.axesAB a.ndim b.ndim xa xb y) s)
          (Conj.conj (sgnI ph (gradedContract a b xa xb s oL oR))) := by
  have hSa : SignOk a := SignOk.of_valid h.va h.fa
  have hSb : SignOk b := SignOk.of_valid h.vb h.fb
  have hph'pm : ph' = 1 ∨ ph' = -1 := by
    rw [hph']; exact mul_pm hph (by unfold sgB; split <;> simp)
  unfold gradedContract
  have hsp : storedPairs (braOf a xa) (braOf b (xb ++ y)) (freeAxes (braOf a xa).ndim xa) xa xb
        (freeAxes (braOf b (xb ++ y)).ndim xb) s
      = storedPairs a b (freeAxes a.ndim xa) xa xb (freeAxes b.ndim xb) s := by
    unfold storedPairs
    rw [braOf_sectors, braOf_sectors, braOf_ndim, braOf_ndim]
  rw [hsp, conj_sgnI, conj_sum]
  have L : sgnI ph' (((storedPairs a b (freeAxes a.ndim xa) xa xb (freeAxes b.ndim xb) s).map (fun p =>
        sgnI (gradedSign (braOf a xa) (braOf b (xb ++ y)) xa xb p.1 p.2)
          (contractPair (braOf a xa) (braOf b (xb ++ y)) xa xb oL oR p))).sum)
      = ((storedPairs a b (freeAxes a.ndim xa) xa xb (freeAxes b.ndim xb) s).map (fun p =>
        sgnI (ph' * (gradedSign (braOf a xa) (braOf b (xb ++ y)) xa xb p.1 p.2
            * (braSign a xa p.1 * braSign b (xb ++ y) p.2)))
          (Conj.conj (contractPair a b xa xb oL oR p)))).sum := by
    rw [← sgnI_sum]
    congr 1
    apply List.map_congr_left
    intro p _
    rw [contractPair_bra' a b xa (xb ++ y) xa xb oL oR p hSa hSb,
      sgnI_comp (gradedSign_pm _ _ _ _ _ _) (mul_pm (braSign_pm _ _ _) (braSign_pm _ _ _)),
      sgnI_comp hph'pm (mul_pm (gradedSign_pm _ _ _ _ _ _)
        (mul_pm (braSign_pm _ _ _) (braSign_pm _ _ _)))]
  have Rr : sgnI (braSign K (AssocP.axesAB a.ndim b.ndim xa xb y) s) (sgnI ph
        (((storedPairs a b (freeAxes a.ndim xa) xa xb (freeAxes b.ndim xb) s).map (fun p =>
          Conj.conj (sgnI (gradedSign a b xa xb p.1 p.2) (contractPair a b xa xb oL oR p)))).sum))
      = ((storedPairs a b (freeAxes a.ndim xa) xa xb (freeAxes b.ndim xb) s).map (fun p =>
        sgnI (braSign K (AssocP.axesAB a.ndim b.ndim xa xb y) s
            * (ph * gradedSign a b xa xb p.1 p.2))
          (Conj.conj (contractPair a b xa xb oL oR p)))).sum := by
    rw [← sgnI_sum, ← sgnI_sum]
    congr 1
    apply List.map_congr_left
    intro p _
    rw [conj_sgnI, sgnI_comp hph (gradedSign_pm _ _ _ _ _ _),
      sgnI_comp (braSign_pm _ _ _) (mul_pm hph (gradedSign_pm _ _ _ _ _ _))]
  rw [L, Rr]
  congr 1
  apply List.map_congr_left
  rintro ⟨sa, sb⟩ hp
  obtain ⟨h1, h2, h3, h4⟩ := mem_storedPairs.mp hp
  subst h4
  rw [bra_pair_sign' h hM S hKs hKi hKp hKl h1 h2 h3 ph ph' hph']

end contract

section main
variable {R : Type} [AddMonoid R] [Mul R] [Neg R] [Conj R] [NetLaws R]

/-- **`conj` is a homomorphism of the contraction, further bond legs spared, weak guard.**
    `a`, `b` valid fermionic, contractible along `xa`/`xb` under the WEAK guard (`AdmW`: matched legs
    opposite, charge tables agreeing on common charges — what intermediate results with pruned tables
    satisfy), sorted distinct ket labels; `y` legs of `b` disjoint from `xb` (bonds to a third tensor).
    The bra tensors `braOf a xa`, `braOf b (xb ++ y)` (each: `conj()`, then `phase_flip` of its DANGLING
    bra-like legs) contract to an array observationally equal to `braOf K y'`, `K = a·b`, `y'` the
    images of `y` in `K`: `conj()` of `K` with the dangling bra-like legs flipped. -/
theorem conj_tensordot_spared_w (a b : Arr R) (xa xb y : List Nat) (W : AdmW a b xa xb)
    (hM : Mid b.ndim xb y)
    (hoA : KetLabels a.oddpos) (hoB : KetLabels b.oddpos)
    (hd : (a.oddpos ++ b.oddpos).Pairwise (fun x y => x.1 ≠ y.1)) :
    ∃ K Kb, a.tensordotF b (.pair (xa.map Int.ofNat) (xb.map Int.ofNat)) .blockwise = .ok K
      ∧ (braOf a xa).tensordotF (braOf b (xb ++ y)) (.pair (xa.map Int.ofNat) (xb.map Int.ofNat))
          .blockwise = .ok Kb
      ∧ ObsEq Kb (braOf K (AssocP.axesAB a.ndim b.ndim xa xb y))
      ∧ K.validB = true ∧ K.fermi = true ∧ Kb.validB = true ∧ Kb.fermi = true
      ∧ (∀ x ∈ K.oddpos, x.2 = false)
      ∧ K.oddpos.Pairwise (fun x y => oddLt x y = true)
      ∧ K.oddpos.Pairwise (fun x y => x.1 ≠ y.1)
      ∧ InterW a b xa xb K ∧ K.oddpos.Perm (a.oddpos ++ b.oddpos) := by
  have h := W
  have ha := W.va
  have hb := W.vb
  have hfa := W.fa
  have hfb := W.fb
  have hB := braOf_admW' h xa (xb ++ y)
  have hlabA := (NormOk.of_valid ha hfa).labels
  have hlabB := (NormOk.of_valid hb hfb).labels
  obtain ⟨out, ph, m1, m2, hph, hk, hs, hdl⟩ :=
    merge_bra_gen a.parity a.oddpos b.oddpos hoA hoB hd hlabA
  obtain ⟨out', hperm, _, m1'⟩ := OddposP.mergeOddpos_spec a.parity a.oddpos b.oddpos hd
  have hout : out' = out := by
    rw [m1] at m1'; exact (Prod.mk.inj (Except.ok.inj m1')).1.symm
  rw [hout] at hperm
  rw [hlabB] at m2
  have eK := tensordotF_eq_core_w a b xa xb h
  rw [m1] at eK
  have eKb := tensordotF_eq_core_w (braOf a xa) (braOf b (xb ++ y)) xa xb hB
  rw [braOf_parity, (braOf_frame a xa).2.2.2.2.1, (braOf_frame b (xb ++ y)).2.2.2.2.1, m2] at eKb
  have F := coreT_frame_w a b xa xb h
  have Fb := coreT_frame_w (braOf a xa) (braOf b (xb ++ y)) xa xb hB
  generalize coreT a b xa xb = T at eK F
  generalize coreT (braOf a xa) (braOf b (xb ++ y)) xa xb = Tb at eKb Fb
  have eK' : a.tensordotF b (.pair (xa.map Int.ofNat) (xb.map Int.ofNat)) .blockwise
      = .ok (finish T (out, ph)) := eK
  have eKb' : (braOf a xa).tensordotF (braOf b (xb ++ y))
      (.pair (xa.map Int.ofNat) (xb.map Int.ofNat))
      .blockwise = .ok (finish Tb (Arr.oddposDag out, ph * sgB (a.parity && b.parity))) := eKb
  have hSTb : SignOk Tb := ⟨by rw [Fb.sectors]; exact nodup_eraseDups _, by
    rw [Fb.phases]; exact PhOk.nil⟩
  have hST : SignOk T := ⟨by rw [F.sectors]; exact nodup_eraseDups _, by
    rw [F.phases]; exact PhOk.nil⟩
  have hKe : ∀ s o, (finish T (out, ph)).elem s o = sgnI ph (T.elem s o) :=
    fun s o => finish_elem T (out, ph) hST s o
  have hKbe : ∀ s o, (finish Tb (Arr.oddposDag out, ph * sgB (a.parity && b.parity))).elem s o
      = sgnI (ph * sgB (a.parity && b.parity)) (Tb.elem s o) :=
    fun s o => finish_elem Tb _ hSTb s o
  obtain ⟨k1, k2, k3, k4, k5, k6⟩ := finish_frame T (out, ph)
  obtain ⟨b1, b2, b3, b4, b5, b6⟩ :=
    finish_frame Tb (Arr.oddposDag out, ph * sgB (a.parity && b.parity))
  generalize finish T (out, ph) = K at eK' k1 k2 k3 k4 k5 k6 hKe
  generalize finish Tb (Arr.oddposDag out, ph * sgB (a.parity && b.parity)) = Kb
    at eKb' b1 b2 b3 b4 b5 b6 hKbe
  have hKv : K.validB = true := (ValidP.validB_iff K).mpr
    (ValidP.tensordotF_valid_of_opposite .blockwise (ValidP.tdotASpec_all .blockwise) a b K xa xb
      ((ValidP.validB_iff a).mp ha) ((ValidP.validB_iff b).mp hb) hfa hfb h.sym
      (Assoc3P.opposite_of_commonB h.con) h.nA h.nB h.ltA h.ltB eK')
  have hKf : K.fermi = true := by rw [k2, F.fermi, hfa]
  have hKbv : Kb.validB = true := (ValidP.validB_iff Kb).mpr
    (ValidP.tensordotF_valid_of_opposite .blockwise (ValidP.tdotASpec_all .blockwise) _ _ Kb xa xb
      ((ValidP.validB_iff _).mp hB.va) ((ValidP.validB_iff _).mp hB.vb) hB.fa hB.fb hB.sym
      (Assoc3P.opposite_of_commonB hB.con) hB.nA hB.nB hB.ltA hB.ltB eKb')
  have hKbf : Kb.fermi = true := by rw [b2, Fb.fermi, hB.fa]
  have hKs : K.sym = a.sym := by rw [k1, F.sym]
  have hKi : K.indices = dropUnused (without a.indices xa ++ without b.indices xb) T.sectors := by
    rw [k3, F.indices]
  refine ⟨K, Kb, eK', eKb', ?_, hKv, hKf, hKbv, hKbf, by rw [k6]; exact hk, by rw [k6]; exact hs,
    by rw [k6]; exact hdl, ⟨hKv, hKf, hKs, by rw [hKi]; exact dropUnused_sizeLe _ _⟩,
    by rw [k6]; exact hperm⟩
  have hsec : Tb.sectors = T.sectors := by
    rw [Fb.sectors, F.sectors, braOf_sectors, braOf_sectors, braOf_ndim, braOf_ndim]
  have hwi : without (braOf a xa).indices xa ++ without (braOf b (xb ++ y)).indices xb
      = (without a.indices xa ++ without b.indices xb).map Index.conj := by
    rw [(braOf_frame a xa).2.2.1, (braOf_frame b (xb ++ y)).2.2.1, without_map, without_map,
      List.map_append]
  have hKp : K.parity = xor a.parity b.parity := by
    unfold Arr.parity
    rw [k1, k4, F.sym, F.charge, ValidP.parity_combine_pair', h.sym]
  have hKl := (NormOk.of_valid hKv hKf).labels
  have hSK : SignOk K := SignOk.of_valid hKv hKf
  obtain ⟨c1, c2, c3, c4, c5, c6⟩ := braOf_frame K (AssocP.axesAB a.ndim b.ndim xa xb y)
  apply obsEq_of_inBox
  · rw [b1, Fb.sym, (braOf_frame a xa).1, c1, hKs]
  · rw [b2, Fb.fermi, (braOf_frame a xa).2.1, c2, k2, F.fermi]
  · rw [b3, Fb.indices, hsec, hwi, dropUnused_conj, c3, hKi]
  · rw [b4, Fb.charge, (braOf_frame a xa).1, (braOf_frame a xa).2.2.2.1,
      (braOf_frame b (xb ++ y)).2.2.2.1, c4, k1, k4, F.sym, F.charge, sign_combine_pair, h.sym]
  · rw [b6, c5, k6]
  · have e1 : skel Kb = skel Tb := by unfold skel; rw [b5]
    have e2 : skel K = skel T := by unfold skel; rw [k5]
    rw [e1, c6, e2, skel_of_frame Fb, skel_of_frame F, hsec, hwi]
    apply List.map_congr_left
    intro s _
    rw [blockShapeD_map_conj]
  · show Kb.sectors.Nodup
    have : Kb.sectors = Tb.sectors := by unfold Arr.sectors; rw [b5]
    rw [this]; exact hSTb.sectors
  · intro p hp; rw [b5] at hp; exact Fb.wf p hp
  · exact (Full.of_valid (braOf_valid K _ hKv hKf) (braOf_fermi K _ hKf)).wf
  · intro p hp off hoff
    rw [b5] at hp
    have hshape := Fb.shape p hp
    rw [hwi, blockShapeD_map_conj] at hshape
    have hkey : p.1 ∈ tdKeys a.sectors b.sectors (freeAxes a.ndim xa) xa xb (freeAxes b.ndim xb) := by
      have : p.1 ∈ Tb.sectors := List.mem_map.mpr ⟨p, hp, rfl⟩
      rw [hsec, F.sectors] at this
      exact List.mem_eraseDups.mp this
    have hlen := key_shape_length (Arr.shapesOk_of_validB ha) (Arr.shapesOk_of_validB hb) hkey
    rw [hshape] at hoff
    have hol : off.length = (freeAxes a.ndim xa).length + (freeAxes b.ndim xb).length := by
      rw [Lazy.inBox_length hoff, hlen]
    have hsplit : off = off.take (freeAxes a.ndim xa).length ++ off.drop (freeAxes a.ndim xa).length :=
      (List.take_append_drop _ _).symm
    have htl : (off.take (freeAxes a.ndim xa).length).length = (freeAxes a.ndim xa).length := by
      rw [List.length_take]; omega
    rw [hKbe, braOf_elem K _ hSK, hKe, hsplit,
      Fb.elem p.1 _ _ (by rw [braOf_ndim]; exact htl)
        (by rw [← hsplit, hwi, blockShapeD_map_conj]; exact hoff),
      F.elem p.1 _ _ htl (by rw [← hsplit]; exact hoff)]
    exact gradedContract_bra' h hM T.sectors hKs hKi hKp hKl ph _ hph rfl p.1 _ _

/-- the same under the strong guard `tdotAdmissibleB` (the form of `conj_tensordot`) -/
theorem conj_tensordot_spared (a b : Arr R) (xa xb y : List Nat)
    (ha : a.validB = true) (hb : b.validB = true) (hfa : a.fermi = true) (hfb : b.fermi = true)
    (hadm : ValidP.tdotAdmissibleB a b xa xb = true) (hM : Mid b.ndim xb y)
    (hoA : KetLabels a.oddpos) (hoB : KetLabels b.oddpos)
    (hd : (a.oddpos ++ b.oddpos).Pairwise (fun x y => x.1 ≠ y.1)) :
    ∃ K Kb, a.tensordotF b (.pair (xa.map Int.ofNat) (xb.map Int.ofNat)) .blockwise = .ok K
      ∧ (braOf a xa).tensordotF (braOf b (xb ++ y)) (.pair (xa.map Int.ofNat) (xb.map Int.ofNat))
          .blockwise = .ok Kb
      ∧ ObsEq Kb (braOf K (AssocP.axesAB a.ndim b.ndim xa xb y))
      ∧ K.validB = true ∧ K.fermi = true ∧ Kb.validB = true ∧ Kb.fermi = true
      ∧ (∀ x ∈ K.oddpos, x.2 = false)
      ∧ K.oddpos.Pairwise (fun x y => oddLt x y = true)
      ∧ K.oddpos.Pairwise (fun x y => x.1 ≠ y.1) := by
  obtain ⟨K, Kb, h1, h2, h3, h4, h5, h6, h7, h8, h9, h10, _, _⟩ :=
    conj_tensordot_spared_w a b xa xb y (AdmW.ofAdm (Adm.of ha hb hfa hfb hadm)) hM hoA hoB hd
  exact ⟨K, Kb, h1, h2, h3, h4, h5, h6, h7, h8, h9, h10⟩

end main

end SymmModel.NormNet
