/-
  SymmModel.Proofs.NormNet20 — network form of the norm (property C10), part 20:
  the six bracketings B1, B2, S1–S4 with EVERY call in its own mode (blockwise / fused / auto).
-/
import SymmModel.Proofs.NormNet19
namespace SymmModel.NormNet
open SymmModel SymmModel.Lazy SymmModel.Norm SymmModel.TdotP SymmModel.GradedP SymmModel.RoutesP
open SymmModel.AssocP
set_option linter.unusedSectionVars false

section final
variable {R : Type} [AddCommMonoid R] [Mul R] [Neg R] [Conj R] [NetLaws R] [AssocLaws R]

/-- the six bracketings of the norm network with the two halves computed in modes `mK`, `mKb` and the
    `i`-th of the remaining ten calls in mode `md i` -/
def Bracketings6M (a b : Arr R) (xa xb : List Nat) (mK mKb : TdotMode) (md : Nat → TdotMode) : Prop :=
  ∃ K Km Kbm, a.tensordotF b (.pair (xa.map Int.ofNat) (xb.map Int.ofNat)) .blockwise = .ok K
    ∧ a.tensordotF b (.pair (xa.map Int.ofNat) (xb.map Int.ofNat)) mK = .ok Km
    ∧ (braOf a xa).tensordotF (braOf b xb) (.pair (xa.map Int.ofNat) (xb.map Int.ofNat)) mKb = .ok Kbm
    -- B1, B2
    ∧ (∃ r, Kbm.tensordotF Km (allAxes K.ndim) (md 0) = .ok r
        ∧ r.ndim = 0 ∧ r.oddpos = [] ∧ r.elem [] [] = normSq K)
    ∧ (∃ r, Km.tensordotF Kbm (allAxes K.ndim) (md 1) = .ok r
        ∧ r.ndim = 0 ∧ r.oddpos = [] ∧ r.elem [] [] = normSq' K)
    -- S1  ((ā·b̄)·a)·b
    ∧ (∃ T c, Kbm.tensordotF a (.pair ((List.range (freeAxes a.ndim xa).length).map Int.ofNat)
          ((freeAxes a.ndim xa).map Int.ofNat)) (md 2) = .ok T
      ∧ T.tensordotF b (.pair ((axesTW a.ndim b.ndim xa xb).map Int.ofNat)
          ((freeAxes b.ndim xb ++ xb).map Int.ofNat)) (md 3) = .ok c
      ∧ c.ndim = 0 ∧ c.oddpos = [] ∧ c.elem [] [] = normSq K)
    -- S2  ā·(b̄·(a·b))
    ∧ (∃ T c, (braOf b xb).tensordotF Km (.pair ((freeAxes b.ndim xb).map Int.ofNat)
          (((List.range (freeAxes b.ndim xb).length).map ((freeAxes a.ndim xa).length + ·)).map
            Int.ofNat)) (md 4) = .ok T
      ∧ (braOf a xa).tensordotF T (.pair ((xa ++ freeAxes a.ndim xa).map Int.ofNat)
          ((axesTWr a.ndim b.ndim xa xb).map Int.ofNat)) (md 5) = .ok c
      ∧ c.ndim = 0 ∧ c.oddpos = [] ∧ c.elem [] [] = normSq K)
    -- S3  ((a·b)·ā)·b̄
    ∧ (∃ T c, Km.tensordotF (braOf a xa) (.pair ((List.range (freeAxes a.ndim xa).length).map Int.ofNat)
          ((freeAxes a.ndim xa).map Int.ofNat)) (md 6) = .ok T
      ∧ T.tensordotF (braOf b xb) (.pair ((axesTW a.ndim b.ndim xa xb).map Int.ofNat)
          ((freeAxes b.ndim xb ++ xb).map Int.ofNat)) (md 7) = .ok c
      ∧ c.ndim = 0 ∧ c.oddpos = [] ∧ c.elem [] [] = normSq' K)
    -- S4  a·(b·(ā·b̄))
    ∧ (∃ T c, b.tensordotF Kbm (.pair ((freeAxes b.ndim xb).map Int.ofNat)
          (((List.range (freeAxes b.ndim xb).length).map ((freeAxes a.ndim xa).length + ·)).map
            Int.ofNat)) (md 8) = .ok T
      ∧ a.tensordotF T (.pair ((xa ++ freeAxes a.ndim xa).map Int.ofNat)
          ((axesTWr a.ndim b.ndim xa xb).map Int.ofNat)) (md 9) = .ok c
      ∧ c.ndim = 0 ∧ c.oddpos = [] ∧ c.elem [] [] = normSq' K)

theorem network_norm_bracketings6M (a b : Arr R) (xa xb : List Nat)
    (ha : a.validB = true) (hb : b.validB = true) (hfa : a.fermi = true) (hfb : b.fermi = true)
    (hadm : ValidP.tdotAdmissibleB a b xa xb = true)
    (hoA : KetLabels a.oddpos) (hoB : KetLabels b.oddpos)
    (hd : (a.oddpos ++ b.oddpos).Pairwise (fun x y => x.1 ≠ y.1))
    (hlab : netLabelsB a.parity b.parity a.oddpos b.oddpos = true)
    (mK mKb : TdotMode) (md : Nat → TdotMode) : Bracketings6M a b xa xb mK mKb md := by
  have hz1 : ∀ x : R, 0 * x = 0 := AssocLaws.zero_mul
  have hz2 : ∀ x : R, x * 0 = 0 := AssocLaws.mul_zero
  obtain ⟨K, Kb, r0, r0', S⟩ := net_setup_gen a b xa xb ha hb hfa hfb hadm hoA hoB hd hlab
  obtain ⟨K', Km, Kbm, r, r', eK', e1, e2, _, _, e3, q1, q2, q3, e4, q4, q5, q6⟩ :=
    network_norm_halves_any_mode hz1 hz2 a b xa xb ha hb hfa hfb hadm hoA hoB hd mK mKb (md 0) (md 1)
  obtain rfl : K' = K := by rw [S.eK] at eK'; exact (Except.ok.inj eK').symm
  have h := Adm.of ha hb hfa hfb hadm
  have hB := braOf_adm h
  obtain ⟨Km', e1', pK, IKm, IK, oK, cK⟩ := call_any2 hz1 hz2 a b xa xb (AdmW.ofAdm h) mK K' S.eK
  obtain rfl : Km' = Km := by rw [e1] at e1'; exact (Except.ok.inj e1').symm
  obtain ⟨Kbm', e2', pKb, IKbm, IKb, oKb, cKb⟩ :=
    call_any2 hz1 hz2 (braOf a xa) (braOf b xb) xa xb (AdmW.ofAdm hB) mKb Kb S.eKb
  obtain rfl : Kbm' = Kbm := by rw [e2] at e2'; exact (Except.ok.inj e2').symm
  have hwi : without (braOf a xa).indices xa ++ without (braOf b xb).indices xb
      = (without a.indices xa ++ without b.indices xb).map Index.conj := by
    rw [(braOf_frame a xa).2.2.1, (braOf_frame b xb).2.2.1, without_map, without_map,
      List.map_append]
  have H1 : HalfPair Kb Kbm' a b xa xb :=
    ⟨pKb, S.Kbv, IKbm.valid, S.Kbf, IKbm.fermi, S.Kbs, IKbm.sym.trans (braOf_frame a xa).1, oKb, cKb,
      by have := IKb.frame; rwa [hwi] at this, by have := IKbm.frame; rwa [hwi] at this⟩
  have H2 : HalfPair K' Km' (braOf a xa) (braOf b xb) xa xb :=
    ⟨pK, S.Kv, IKm.valid, S.Kf, IKm.fermi, S.Ks.trans (braOf_frame a xa).1.symm,
      IKm.sym.trans (braOf_frame a xa).1.symm, oK, cK,
      by rw [hwi, Lazy.Index.map_conj_conj]; exact IK.frame,
      by rw [hwi, Lazy.Index.map_conj_conj]; exact IKm.frame⟩
  obtain ⟨⟨T1, c1, a1, a2, a3, a4, a5⟩, ⟨T2, c2, b1, b2, b3, b4, b5⟩, ⟨T3, c3, d1, d2, d3, d4, d5⟩,
    ⟨T4, c4, f1, f2, f3, f4, f5⟩⟩ := sequential_of_setup ha hb hfa hfb hadm S
  refine ⟨K', Km', Kbm', S.eK, e1, e2, ⟨r, e3, q1, q2, q3⟩, ⟨r', e4, q4, q5, q6⟩, ?_, ?_, ?_, ?_⟩
  · obtain ⟨Tm, cm, g1, g2, g3, g4, g5⟩ := tw_left_any hz1 hz2 a b Kb Kbm' T1 c1 xa xb ha hb hfa hfb
      hadm H1 a1 a2 a3 (md 2) (md 3)
    exact ⟨Tm, cm, g1, g2, g3, g4.trans a4, g5.trans a5⟩
  · obtain ⟨Tm, cm, g1, g2, g3, g4, g5⟩ := tw_right_any hz1 hz2 (braOf a xa) (braOf b xb) K' Km' T2 c2
      xa xb hB.va hB.vb hB.fa hB.fb (admB_of_adm hB) H2
      (by simpa only [braOf_ndim] using b1) (by simpa only [braOf_ndim] using b2) b3 (md 4) (md 5)
    simp only [braOf_ndim] at g1 g2
    exact ⟨Tm, cm, g1, g2, g3, g4.trans b4, g5.trans b5⟩
  · obtain ⟨Tm, cm, g1, g2, g3, g4, g5⟩ := tw_left_any hz1 hz2 (braOf a xa) (braOf b xb) K' Km' T3 c3
      xa xb hB.va hB.vb hB.fa hB.fb (admB_of_adm hB) H2
      (by simpa only [braOf_ndim] using d1) (by simpa only [braOf_ndim] using d2) d3 (md 6) (md 7)
    simp only [braOf_ndim] at g1 g2
    exact ⟨Tm, cm, g1, g2, g3, g4.trans d4, g5.trans d5⟩
  · obtain ⟨Tm, cm, g1, g2, g3, g4, g5⟩ := tw_right_any hz1 hz2 a b Kb Kbm' T4 c4 xa xb ha hb hfa hfb
      hadm H1 f1 f2 f3 (md 8) (md 9)
    exact ⟨Tm, cm, g1, g2, g3, g4.trans f4, g5.trans f5⟩

end final

end SymmModel.NormNet
