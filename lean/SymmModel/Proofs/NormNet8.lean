/-
  SymmModel.Proofs.NormNet8 — network form of the norm (property C10), part 8:
  a fully contracted triangle (S7 of C04 for scalars), the fields of a contraction result, and the
  label routes of the norm network with at most one ket label per tensor.
-/
import SymmModel.Proofs.NormNet7
import SymmModel.Props.C04d
namespace SymmModel.NormNet
open SymmModel SymmModel.Lazy SymmModel.Norm SymmModel.TdotP SymmModel.GradedP SymmModel.RoutesP
open SymmModel.AssocP
set_option linter.unusedSectionVars false

/-! ## a fully contracted triangle -/
section tri
variable {R : Type} [AddCommMonoid R] [Mul R] [Neg R] [SignRing R] [AssocLaws R]

/-- S7 for three operands whose legs are ALL contracted: both routes succeed and give rank-0
    results with the same labels and the same value -/
theorem assoc_scalar (A B C : Arr R) (xa1 xa3 xb1 xb2 xc2 xc3 : List Nat)
    (hA : A.validB = true) (hB : B.validB = true) (hC : C.validB = true)
    (hfA : A.fermi = true) (hfB : B.fermi = true) (hfC : C.fermi = true)
    (h1 : ValidP.tdotAdmissibleB A B xa1 xb1 = true) (h2 : ValidP.tdotAdmissibleB B C xb2 xc2 = true)
    (h3 : ValidP.contractibleB A C xa3 xc3 = true)
    (hnA : (xa1 ++ xa3).Nodup) (hnB : (xb1 ++ xb2).Nodup) (hnC : (xc2 ++ xc3).Nodup)
    (hltA : ∀ i ∈ xa3, i < A.ndim) (hltC : ∀ i ∈ xc3, i < C.ndim)
    (hL : Assoc2P.LabelRoutes A.parity B.parity A.oddpos B.oddpos C.oddpos)
    (fA : freeAxes A.ndim (xa1 ++ xa3) = []) (fB : freeAxes B.ndim (xb1 ++ xb2) = [])
    (fC : freeAxes C.ndim (xc2 ++ xc3) = []) :
    ∃ AB BC c1 c2 : Arr R,
      A.tensordotF B (.pair (xa1.map Int.ofNat) (xb1.map Int.ofNat)) .blockwise = .ok AB
      ∧ AB.tensordotF C (.pair ((Assoc2P.axesAB A.ndim B.ndim xa1 xa3 xb1 xb2).map Int.ofNat)
          ((xc3 ++ xc2).map Int.ofNat)) .blockwise = .ok c1
      ∧ B.tensordotF C (.pair (xb2.map Int.ofNat) (xc2.map Int.ofNat)) .blockwise = .ok BC
      ∧ A.tensordotF BC (.pair ((xa1 ++ xa3).map Int.ofNat)
          ((Assoc2P.axesBC B.ndim C.ndim xb1 xb2 xc2 xc3).map Int.ofNat)) .blockwise = .ok c2
      ∧ c2.oddpos = c1.oddpos ∧ c2.indices = c1.indices ∧ c2.elem [] [] = c1.elem [] [] := by
  obtain ⟨AB, BC, c1, c2, e1, e2, e3, e4, r1, _, _, _, _, _, r7, _, r9⟩ :=
    Assoc2P.tdotF_assoc_tri A B C xa1 xa3 xb1 xb2 xc2 xc3 hA hB hC hfA hfB hfC h1 h2 h3 hnA hnB hnC
      hltA hltC hL
  refine ⟨AB, BC, c1, c2, e1, e2, e3, e4, r1, r7, ?_⟩
  have := r9 [] [] [] [] [] [] ⟨by rw [fA]; rfl, by rw [fB]; rfl, by rw [fA], by rw [fB],
    by rw [fC], by rw [fA]; rfl, by rw [fB]; rfl, by rw [fC]; rfl⟩
  simpa using this

end tri

/-! ## the fields of a contraction result -/
section fields
variable {R : Type} [AddMonoid R] [Mul R] [Neg R] [SignRing R]

theorem tdot_fields {a b K : Arr R} {xa xb : List Nat} (h : Adm a b xa xb)
    (eK : a.tensordotF b (.pair (xa.map Int.ofNat) (xb.map Int.ofNat)) .blockwise = .ok K) :
    K.sym = a.sym ∧ K.charge = a.sym.combine [a.charge, b.charge]
      ∧ ∃ ph, OddposP.mergeOddpos a.parity a.oddpos b.oddpos = .ok (K.oddpos, ph) := by
  have e := tensordotF_eq_core a b xa xb h
  rw [eK] at e
  have F := coreT_frame a b xa xb h
  cases hm : OddposP.mergeOddpos a.parity a.oddpos b.oddpos with
  | error err => rw [hm] at e; cases e
  | ok r =>
    rw [hm] at e
    have e' : K = finish (coreT a b xa xb) r := Except.ok.inj e
    obtain ⟨k1, _, _, k4, _, k6⟩ := finish_frame (coreT a b xa xb) r
    rw [e', k1, k4, k6, F.sym, F.charge]
    exact ⟨rfl, rfl, r.2, rfl⟩

end fields

/-! ## labels of the norm network, at most one ket label per tensor -/
section labels
open SymmModel.OddposP (mergeOddpos)

/-- the bra half `K̄` against the ket tensors `a`, `b` (route `(K̄·a)·b` vs `K̄·(a·b)`):
    `C04.labelRoutes_norm_one` on the labels the model computes for `K = a·b` -/
theorem labelRoutes_bra_ket (oA oB out : List (Int × Bool)) (ph : Int) (hA : OneKet oA)
    (hB : OneKet oB) (hd : (oA ++ oB).Pairwise (fun x y => x.1 ≠ y.1))
    (hm : mergeOddpos (oA.length % 2 == 1) oA oB = .ok (out, ph)) :
    Assoc2P.LabelRoutes (xor (oA.length % 2 == 1) (oB.length % 2 == 1)) (oA.length % 2 == 1)
      (Arr.oddposDag out) oA oB := by
  rw [C04.labelRoutes_iff]
  rcases hA with rfl | ⟨x, rfl⟩ <;> rcases hB with rfl | ⟨y, rfl⟩
  · have e : mergeOddpos (([] : List (Int × Bool)).length % 2 == 1) [] [] = .ok ([], 1) := rfl
    rw [e] at hm
    obtain rfl : out = [] := (Prod.mk.inj (Except.ok.inj hm)).1.symm
    exact (C04.labelRoutes_norm_one 0 1 (by decide)).1
  · have e : mergeOddpos (([] : List (Int × Bool)).length % 2 == 1) [] [(y, false)]
        = .ok ([(y, false)], 1) := rfl
    rw [e] at hm
    obtain rfl : out = [(y, false)] := (Prod.mk.inj (Except.ok.inj hm)).1.symm
    exact (C04.labelRoutes_norm_one (y + 1) y (by omega)).2.2.1
  · have e : mergeOddpos (([(x, false)] : List (Int × Bool)).length % 2 == 1) [(x, false)] []
        = .ok ([(x, false)], 1) := rfl
    rw [e] at hm
    obtain rfl : out = [(x, false)] := (Prod.mk.inj (Except.ok.inj hm)).1.symm
    exact (C04.labelRoutes_norm_one x (x + 1) (by omega)).2.1
  · have hne : x ≠ y := by simpa using hd
    have key := (C04.labelRoutes_norm_one x y hne).2.2.2
    by_cases hlt : x < y
    · have h1 : ¬ y < x := by omega
      have e : mergeOddpos (([(x, false)] : List (Int × Bool)).length % 2 == 1) [(x, false)]
          [(y, false)] = .ok ([(x, false), (y, false)], -1) := by
        simp [mergeOddpos, resolveScan, oddLt, hne, h1]; rfl
      rw [e] at hm
      obtain rfl : out = [(x, false), (y, false)] := (Prod.mk.inj (Except.ok.inj hm)).1.symm
      rw [if_pos hlt] at key
      exact key
    · have h1 : y < x := by omega
      have e : mergeOddpos (([(x, false)] : List (Int × Bool)).length % 2 == 1) [(x, false)]
          [(y, false)] = .ok ([(y, false), (x, false)], 1) := by
        simp [mergeOddpos, resolveScan, oddLt, hne, hne.symm, h1, hlt]; rfl
      rw [e] at hm
      obtain rfl : out = [(y, false), (x, false)] := (Prod.mk.inj (Except.ok.inj hm)).1.symm
      rw [if_neg hlt] at key
      exact key

end labels

end SymmModel.NormNet
