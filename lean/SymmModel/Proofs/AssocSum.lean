/-
  SymmModel.Proofs.AssocSum — towards S7 of property C04: the scalar laws used by associativity
  and the algebra of nested signed finite sums.  Namespace `SymmModel.AssocP`.
-/
import SymmModel.Proofs.Routes4

namespace SymmModel
namespace AssocP
open TdotP GradedP RoutesP
open Lazy (sgnI)
set_option linter.unusedSectionVars false

/-- the laws of multiplication that associativity of contraction needs (on top of a commutative
    additive monoid and `SignRing`) -/
class AssocLaws (R : Type) [AddCommMonoid R] [Mul R] : Prop where
  mul_assoc : ∀ x y z : R, x * y * z = x * (y * z)
  left_distrib : ∀ x y z : R, x * (y + z) = x * y + x * z
  right_distrib : ∀ x y z : R, (x + y) * z = x * z + y * z
  zero_mul : ∀ x : R, 0 * x = 0
  mul_zero : ∀ x : R, x * 0 = 0

instance : AssocLaws Int :=
  ⟨Int.mul_assoc, Int.mul_add, Int.add_mul, Int.zero_mul, Int.mul_zero⟩

variable {R : Type} [AddCommMonoid R] [Mul R] [Neg R] [SignRing R] [AssocLaws R]

theorem sum_mul {κ : Type} (l : List κ) (f : κ → R) (y : R) :
    (l.map f).sum * y = (l.map (fun i => f i * y)).sum := by
  induction l with
  | nil => simp [AssocLaws.zero_mul]
  | cons a l ih => simp only [List.map_cons, List.sum_cons, AssocLaws.right_distrib, ih]

theorem mul_sum {κ : Type} (l : List κ) (f : κ → R) (x : R) :
    x * (l.map f).sum = (l.map (fun i => x * f i)).sum := by
  induction l with
  | nil => simp [AssocLaws.mul_zero]
  | cons a l ih => simp only [List.map_cons, List.sum_cons, AssocLaws.left_distrib, ih]

theorem sgnI_mul_l {σ : Int} (hσ : σ = 1 ∨ σ = -1) (x y : R) : sgnI σ x * y = sgnI σ (x * y) := by
  have := sgnI_mul_mul hσ (Or.inl rfl) x y
  rwa [Lazy.sgnI_one, Int.mul_one] at this

theorem sgnI_mul_r {σ : Int} (hσ : σ = 1 ∨ σ = -1) (x y : R) : x * sgnI σ y = sgnI σ (x * y) := by
  have := sgnI_mul_mul (Or.inl rfl) hσ x y
  rwa [Lazy.sgnI_one, Int.one_mul] at this

/-- the two bracketings of a triple product summed over two boxes -/
theorem triple_sum {κ₁ κ₂ : Type} (K1 : List κ₁) (K2 : List κ₂) (a : κ₁ → R) (b : κ₁ → κ₂ → R)
    (c : κ₂ → R) :
    (K2.map (fun k2 => (K1.map (fun k1 => a k1 * b k1 k2 * c k2)).sum)).sum
      = (K1.map (fun k1 => (K2.map (fun k2 => a k1 * (b k1 k2 * c k2))).sum)).sum := by
  rw [sum_swap]
  simp only [AssocLaws.mul_assoc]

/-- route `(A·B)·C`: the inner value is itself a signed sum of pair contractions -/
theorem expand_left {β κ₁ κ₂ : Type} (K2 : List κ₂) (Q : List β) (K1 : β → List κ₁)
    (σ' ph : Int) (σ : β → Int) (hσ' : σ' = 1 ∨ σ' = -1) (hph : ph = 1 ∨ ph = -1)
    (hσ : ∀ q, σ q = 1 ∨ σ q = -1)
    (a : β → κ₁ → R) (b : β → κ₁ → κ₂ → R) (c : κ₂ → R) :
    sgnI σ' ((K2.map (fun k2 =>
        sgnI ph ((Q.map (fun q => sgnI (σ q) (((K1 q).map (fun k1 => a q k1 * b q k1 k2)).sum))).sum)
          * c k2)).sum)
      = sgnI ph ((Q.map (fun q => sgnI (σ' * σ q)
          ((K2.map (fun k2 => ((K1 q).map (fun k1 => a q k1 * b q k1 k2 * c k2)).sum)).sum))).sum) := by
  have e1 : ∀ k2, sgnI ph ((Q.map (fun q => sgnI (σ q)
        (((K1 q).map (fun k1 => a q k1 * b q k1 k2)).sum))).sum) * c k2
      = sgnI ph ((Q.map (fun q => sgnI (σ q)
          (((K1 q).map (fun k1 => a q k1 * b q k1 k2 * c k2)).sum))).sum) := by
    intro k2
    rw [sgnI_mul_l hph, sum_mul]
    congr 2
    apply List.map_congr_left
    intro q _
    rw [sgnI_mul_l (hσ q), sum_mul]
  simp only [e1]
  rw [sgnI_sum, sgnI_comp hσ' hph, Int.mul_comm, ← sgnI_comp hph hσ', sum_swap, ← sgnI_sum]
  congr 2
  apply List.map_congr_left
  intro q _
  rw [sgnI_sum, sgnI_comp hσ' (hσ q)]

/-- route `A·(B·C)` -/
theorem expand_right {β κ₁ κ₂ : Type} (K1 : List κ₁) (Q : List β) (K2 : β → List κ₂)
    (σ' ph : Int) (σ : β → Int) (hσ' : σ' = 1 ∨ σ' = -1) (hph : ph = 1 ∨ ph = -1)
    (hσ : ∀ q, σ q = 1 ∨ σ q = -1)
    (a : κ₁ → R) (b : β → κ₁ → κ₂ → R) (c : β → κ₂ → R) :
    sgnI σ' ((K1.map (fun k1 => a k1 *
        sgnI ph ((Q.map (fun q => sgnI (σ q) (((K2 q).map (fun k2 => b q k1 k2 * c q k2)).sum))).sum))).sum)
      = sgnI ph ((Q.map (fun q => sgnI (σ' * σ q)
          ((K1.map (fun k1 => ((K2 q).map (fun k2 => a k1 * (b q k1 k2 * c q k2))).sum)).sum))).sum) := by
  have e1 : ∀ k1, a k1 * sgnI ph ((Q.map (fun q => sgnI (σ q)
        (((K2 q).map (fun k2 => b q k1 k2 * c q k2)).sum))).sum)
      = sgnI ph ((Q.map (fun q => sgnI (σ q)
          (((K2 q).map (fun k2 => a k1 * (b q k1 k2 * c q k2))).sum))).sum) := by
    intro k1
    rw [sgnI_mul_r hph, mul_sum]
    congr 2
    apply List.map_congr_left
    intro q _
    rw [sgnI_mul_r (hσ q), mul_sum]
  simp only [e1]
  rw [sgnI_sum, sgnI_comp hσ' hph, Int.mul_comm, ← sgnI_comp hph hσ', sum_swap, ← sgnI_sum]
  congr 2
  apply List.map_congr_left
  intro q _
  rw [sgnI_sum, sgnI_comp hσ' (hσ q)]

/-- a signed sum of signed sums, flattened -/
theorem sum_flat {α β γ : Type} (P : List α) (Q : α → List β) (pr : α → β → γ) (ph : Int)
    (g : α → β → R) (G : γ → R) (hG : ∀ p ∈ P, ∀ q ∈ Q p, g p q = G (pr p q)) :
    (P.map (fun p => sgnI ph ((Q p).map (fun q => g p q)).sum)).sum
      = sgnI ph (((P.flatMap (fun p => (Q p).map (pr p))).map G).sum) := by
  rw [sgnI_sum, sum_map_flatMap]
  congr 2
  apply List.map_congr_left
  intro p hp
  rw [List.map_map]
  congr 1
  apply List.map_congr_left
  intro q hq
  exact hG p hp q hq

end AssocP
end SymmModel
