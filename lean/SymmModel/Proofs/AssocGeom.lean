/-
  SymmModel.Proofs.AssocGeom — towards S7 of property C04: the list geometry of a chain `A–B–C`.
  Where the legs of the middle operand end up inside the two intermediate results, how nested
  `mergeIdx` addresses compose, and the Koszul identity for the middle operand in the form the
  model produces it.  Namespace `SymmModel.AssocP`.
-/
import SymmModel.Proofs.Routes4

namespace SymmModel
namespace AssocP
open TdotP GradedP RoutesP KoszulP
set_option linter.unusedSectionVars false

section lists
variable {α : Type}

/-- free axes when the contracted axes all lie in the second block -/
theorem freeAxes_shift (l m : Nat) (p : List Nat) :
    freeAxes (l + m) (p.map (l + ·)) = List.range l ++ (freeAxes m p).map (l + ·) := by
  unfold freeAxes
  rw [List.range_add, List.filter_append, List.filter_map]
  congr 1
  · rw [List.filter_eq_self]
    intro x hx
    have := List.mem_range.mp hx
    simp only [Bool.not_eq_eq_eq_not, Bool.not_true, List.contains_eq_mem, decide_eq_false_iff_not,
      List.mem_map, not_exists, not_and]
    intro y _; omega
  · congr 1
    apply List.filter_congr
    intro x _
    simp only [Function.comp, List.contains_eq_mem, List.mem_map, Nat.add_left_cancel_iff,
      exists_eq_right]

/-- free axes when the contracted axes all lie in the first block -/
theorem freeAxes_low (l m : Nat) (p : List Nat) (hp : ∀ i ∈ p, i < l) :
    freeAxes (l + m) p = freeAxes l p ++ (List.range m).map (l + ·) := by
  unfold freeAxes
  rw [List.range_add, List.filter_append]
  congr 1
  rw [List.filter_eq_self]
  intro x hx
  obtain ⟨y, _, rfl⟩ := List.mem_map.mp hx
  simp only [Bool.not_eq_eq_eq_not, Bool.not_true, List.contains_eq_mem, decide_eq_false_iff_not]
  intro h; have := hp _ h; omega

theorem permuted_append_id_shift (u v : List α) (q : List Nat) :
    permuted (u ++ v) (List.range u.length ++ q.map (u.length + ·)) = u ++ permuted v q := by
  rw [ValidP.permuted_append, permuted_append_map_add,
    permuted_append_of_lt u v _ (by intro i hi; exact List.mem_range.mp hi), TdotP.permuted_range]

theorem permuted_append_low_id (u v : List α) (q : List Nat) (hq : ∀ i ∈ q, i < u.length) :
    permuted (u ++ v) (q ++ (List.range v.length).map (u.length + ·)) = permuted u q ++ v := by
  rw [ValidP.permuted_append, permuted_append_of_lt u v q hq, permuted_append_map_add, TdotP.permuted_range]

/-- reading the `X`-entries of `z` through their positions inside the sub-list `F` -/
theorem permuted_positions (z : List α) (F X : List Nat) (hF : ∀ i ∈ F, i < z.length)
    (hX : ∀ y ∈ X, y ∈ F) :
    permuted (permuted z F) (positions F X) = permuted z X := by
  rw [KoszulP.permuted_permuted z F _ hF]
  unfold compose
  rw [(positions_spec F X hX).1]

/-- the entries of `F` at the positions NOT occupied by `X` are `F` without `X`, in order -/
theorem permuted_free_positions (F X : List Nat) (hF : F.Nodup) :
    permuted F (freeAxes F.length (positions F X)) = F.filter (fun y => !X.contains y) := by
  rw [← without_eq_permuted_freeAxes]
  unfold without
  have e : F.zipIdx.filter (fun p => !(positions F X).contains p.2)
      = F.zipIdx.filter (fun p => !X.contains p.1) := by
    apply List.filter_congr
    rintro ⟨y, i⟩ hmem
    have hi : F[i]? = some y := List.mem_zipIdx_iff_getElem?.mp hmem
    have hil : i < F.length := by
      by_contra hc; rw [List.getElem?_eq_none (by omega)] at hi; cases hi
    have hy : F[i] = y := by rw [List.getElem?_eq_getElem hil] at hi; exact Option.some.inj hi
    simp only
    congr 1
    rw [Bool.eq_iff_iff]
    simp only [List.contains_eq_mem, decide_eq_true_eq]
    constructor
    · intro h
      unfold positions at h
      obtain ⟨x, hx, hxi⟩ := List.mem_filterMap.mp h
      have := indexOf?_eq_some hxi
      rw [hi] at this
      rw [Option.some.inj this]; exact hx
    · intro h
      unfold positions
      refine List.mem_filterMap.mpr ⟨y, h, ?_⟩
      rw [← hy]; exact indexOf?_getElem hF hil
  rw [e]
  have : ∀ (l : List (Nat × Nat)) (p : Nat → Bool),
      (l.filter (fun q => p q.1)).map (·.1) = (l.map (·.1)).filter p := by
    intro l p
    rw [List.filter_map]; rfl
  rw [this F.zipIdx (fun y => !X.contains y), List.zipIdx_map_fst]

theorem permuted_free_positions' (z : List α) (F X : List Nat) (hFz : ∀ i ∈ F, i < z.length)
    (hF : F.Nodup) :
    permuted (permuted z F) (freeAxes F.length (positions F X))
      = permuted z (F.filter (fun y => !X.contains y)) := by
  rw [KoszulP.permuted_permuted z F _ hFz]
  unfold compose
  rw [permuted_free_positions F X hF]

theorem filter_free (n : Nat) (x1 x2 : List Nat) :
    (freeAxes n x1).filter (fun y => !x2.contains y) = freeAxes n (x1 ++ x2) := by
  unfold freeAxes
  rw [List.filter_filter]
  apply List.filter_congr
  intro x _
  simp only [List.contains_append, Bool.not_or, Bool.and_comm]

theorem filter_free' (n : Nat) (x1 x2 : List Nat) :
    (freeAxes n x2).filter (fun y => !x1.contains y) = freeAxes n (x1 ++ x2) := by
  unfold freeAxes
  rw [List.filter_filter]
  apply List.filter_congr
  intro x _
  simp only [List.contains_append, Bool.not_or]

/-- a multi-index is determined by its contracted and its free part -/
theorem eq_mergeIdx_of_parts (d : α) {n : Nat} {axes : List Nat} {x k f : List α} (hx : x.length = n)
    (hra : ∀ y ∈ axes, y < n) (h1 : permuted x axes = k) (h2 : permuted x (freeAxes n axes) = f) :
    x = mergeIdx d n axes (freeAxes n axes) k f := by
  have := mergeIdx_permuted d hx hra (fun y hy => (mem_freeAxes.mp hy).1) (by
    intro y hy
    by_cases h : y ∈ axes
    · exact Or.inl h
    · exact Or.inr (mem_freeAxes.mpr ⟨hy, h⟩))
  rw [h1, h2] at this
  exact this.symm

/-- left nesting: the contracted axes lie in the second block of `u ++ _` -/
theorem mergeIdx_shift (d : α) (l m : Nat) (p : List Nat) (k u f : List α)
    (hp : p.Nodup) (hlt : ∀ i ∈ p, i < m) (hk : k.length = p.length) (hu : u.length = l)
    (hf : f.length = (freeAxes m p).length) :
    mergeIdx d (l + m) (p.map (l + ·)) (freeAxes (l + m) (p.map (l + ·))) k (u ++ f)
      = u ++ mergeIdx d m p (freeAxes m p) k f := by
  symm
  apply eq_mergeIdx_of_parts
  · rw [List.length_append, hu, mergeIdx_length]
  · intro y hy
    obtain ⟨z, hz, rfl⟩ := List.mem_map.mp hy
    have := hlt z hz; omega
  · subst hu
    rw [permuted_append_map_add]
    exact permuted_mergeIdx_axes d hp hlt hk
  · subst hu
    rw [freeAxes_shift, permuted_append_id_shift]
    congr 1
    exact permuted_mergeIdx_free d (freeAxes_nodup _ _) (fun x hx => (mem_freeAxes.mp hx).1)
      (fun x hx => (mem_freeAxes.mp hx).2) hf

/-- right nesting: the contracted axes lie in the first block of `_ ++ v` -/
theorem mergeIdx_low (d : α) (l m : Nat) (p : List Nat) (k f v : List α)
    (hp : p.Nodup) (hlt : ∀ i ∈ p, i < l) (hk : k.length = p.length) (hv : v.length = m)
    (hf : f.length = (freeAxes l p).length) :
    mergeIdx d (l + m) p (freeAxes (l + m) p) k (f ++ v)
      = mergeIdx d l p (freeAxes l p) k f ++ v := by
  symm
  have hml : (mergeIdx d l p (freeAxes l p) k f).length = l := mergeIdx_length _ _ _ _ _ _
  apply eq_mergeIdx_of_parts
  · rw [List.length_append, hv, hml]
  · intro y hy; have := hlt y hy; omega
  · rw [permuted_append_of_lt _ _ _ (by rw [hml]; exact hlt)]
    exact permuted_mergeIdx_axes d hp hlt hk
  · subst hv
    rw [freeAxes_low l _ p hlt]
    have := permuted_append_low_id (mergeIdx d l p (freeAxes l p) k f) v (freeAxes l p)
      (by rw [hml]; exact fun x hx => (mem_freeAxes.mp hx).1)
    rw [hml] at this
    rw [this]
    congr 1
    exact permuted_mergeIdx_free d (freeAxes_nodup _ _) (fun x hx => (mem_freeAxes.mp hx).1)
      (fun x hx => (mem_freeAxes.mp hx).2) hf

end lists

/-! ### the middle operand: axes `ax1` contracted first, `ax2` second -/

section middle
variable {α : Type}

/-- the facts about two disjoint in-range axis lists used below -/
structure Mid (n : Nat) (ax1 ax2 : List Nat) : Prop where
  n1 : ax1.Nodup
  n2 : ax2.Nodup
  disj : ∀ x ∈ ax1, x ∉ ax2
  lt1 : ∀ i ∈ ax1, i < n
  lt2 : ∀ i ∈ ax2, i < n

theorem Mid.of {n : Nat} {ax1 ax2 : List Nat} (hn : (ax1 ++ ax2).Nodup) (hlt : ∀ i ∈ ax1 ++ ax2, i < n) :
    Mid n ax1 ax2 :=
  ⟨(List.nodup_append.mp hn).1, (List.nodup_append.mp hn).2.1,
    fun x hx hx' => (List.nodup_append.mp hn).2.2 x hx x hx' rfl,
    fun i hi => hlt i (List.mem_append_left _ hi), fun i hi => hlt i (List.mem_append_right _ hi)⟩

theorem Mid.symm {n : Nat} {ax1 ax2 : List Nat} (h : Mid n ax1 ax2) : Mid n ax2 ax1 :=
  ⟨h.n2, h.n1, fun x hx hx' => h.disj x hx' hx, h.lt2, h.lt1⟩

variable {n : Nat} {ax1 ax2 : List Nat} (h : Mid n ax1 ax2)
include h

theorem Mid.sub : ∀ y ∈ ax2, y ∈ freeAxes n ax1 := fun y hy =>
  mem_freeAxes.mpr ⟨h.lt2 y hy, fun hy' => h.disj y hy' hy⟩

theorem Mid.flt : ∀ i ∈ freeAxes n ax1, i < n := fun _ hi => (mem_freeAxes.mp hi).1

theorem Mid.pos_nodup : (positions (freeAxes n ax1) ax2).Nodup :=
  positions_nodup _ _ h.sub h.n2

theorem Mid.pos_lt : ∀ i ∈ positions (freeAxes n ax1) ax2, i < (freeAxes n ax1).length :=
  (positions_spec _ _ h.sub).2.2

theorem Mid.pos_len : (positions (freeAxes n ax1) ax2).length = ax2.length :=
  (positions_spec _ _ h.sub).2.1

theorem Mid.pos_spec : permuted (freeAxes n ax1) (positions (freeAxes n ax1) ax2) = ax2 :=
  (positions_spec _ _ h.sub).1

theorem Mid.free_spec :
    permuted (freeAxes n ax1) (freeAxes (freeAxes n ax1).length (positions (freeAxes n ax1) ax2))
      = freeAxes n (ax1 ++ ax2) := by
  rw [permuted_free_positions _ _ (freeAxes_nodup _ _), filter_free]

/-- reading the second contracted part through the intermediate layout -/
theorem Mid.read_ax (z : List α) (hz : z.length = n) :
    permuted (permuted z (freeAxes n ax1)) (positions (freeAxes n ax1) ax2) = permuted z ax2 :=
  permuted_positions z _ _ (by rw [hz]; exact h.flt) h.sub

/-- reading the part that stays free through the intermediate layout -/
theorem Mid.read_free (z : List α) (hz : z.length = n) :
    permuted (permuted z (freeAxes n ax1))
        (freeAxes (freeAxes n ax1).length (positions (freeAxes n ax1) ax2))
      = permuted z (freeAxes n (ax1 ++ ax2)) := by
  rw [permuted_free_positions' z _ _ (by rw [hz]; exact h.flt) (freeAxes_nodup _ _), filter_free]

theorem Mid.free_len :
    (freeAxes (freeAxes n ax1).length (positions (freeAxes n ax1) ax2)).length
      = (freeAxes n (ax1 ++ ax2)).length := by
  have := congrArg List.length h.free_spec
  rw [permuted_length _ _ (fun x hx => (mem_freeAxes.mp hx).1)] at this
  exact this

/-- the parts of a nested merge: first `ax1` with `k1`, then inside the remaining axes `ax2`
    with `k2` and the rest with `o` -/
theorem Mid.nest_parts (d : α) (k1 k2 o : List α) (hk1 : k1.length = ax1.length)
    (hk2 : k2.length = ax2.length) (ho : o.length = (freeAxes n (ax1 ++ ax2)).length) :
    let x := mergeIdx d n ax1 (freeAxes n ax1) k1
      (mergeIdx d (freeAxes n ax1).length (positions (freeAxes n ax1) ax2)
        (freeAxes (freeAxes n ax1).length (positions (freeAxes n ax1) ax2)) k2 o)
    x.length = n ∧ permuted x ax1 = k1 ∧ permuted x ax2 = k2
      ∧ permuted x (freeAxes n (ax1 ++ ax2)) = o := by
  intro x
  have hxl : x.length = n := mergeIdx_length _ _ _ _ _ _
  have hF : permuted x (freeAxes n ax1)
      = mergeIdx d (freeAxes n ax1).length (positions (freeAxes n ax1) ax2)
        (freeAxes (freeAxes n ax1).length (positions (freeAxes n ax1) ax2)) k2 o :=
    permuted_mergeIdx_free d (freeAxes_nodup _ _) h.flt (fun y hy => (mem_freeAxes.mp hy).2)
      (mergeIdx_length _ _ _ _ _ _)
  refine ⟨hxl, permuted_mergeIdx_axes d h.n1 h.lt1 hk1, ?_, ?_⟩
  · rw [← h.read_ax x hxl, hF]
    exact permuted_mergeIdx_axes d h.pos_nodup h.pos_lt (by rw [hk2, h.pos_len])
  · rw [← h.read_free x hxl, hF]
    exact permuted_mergeIdx_free d (freeAxes_nodup _ _) (fun y hy => (mem_freeAxes.mp hy).1)
      (fun y hy => (mem_freeAxes.mp hy).2) (by rw [ho, h.free_len])

omit h in
/-- a multi-index with given `ax1`-, `ax2`- and remaining parts -/
theorem eq_merge3 (h : Mid n ax1 ax2) (d : α) {x k1 k2 o : List α} (hx : x.length = n)
    (h1 : permuted x ax1 = k1) (h2 : permuted x ax2 = k2)
    (h3 : permuted x (freeAxes n (ax1 ++ ax2)) = o) :
    x = mergeIdx d n (ax1 ++ ax2) (freeAxes n (ax1 ++ ax2)) (k1 ++ k2) o := by
  apply eq_mergeIdx_of_parts d hx
  · intro y hy
    rcases List.mem_append.mp hy with hy | hy
    · exact h.lt1 y hy
    · exact h.lt2 y hy
  · rw [ValidP.permuted_append, h1, h2]
  · exact h3

/-- route `(A·B)·C`: the address of `B` -/
theorem Mid.nest_left (d : α) (k1 k2 o : List α) (hk1 : k1.length = ax1.length)
    (hk2 : k2.length = ax2.length) (ho : o.length = (freeAxes n (ax1 ++ ax2)).length) :
    mergeIdx d n ax1 (freeAxes n ax1) k1
      (mergeIdx d (freeAxes n ax1).length (positions (freeAxes n ax1) ax2)
        (freeAxes (freeAxes n ax1).length (positions (freeAxes n ax1) ax2)) k2 o)
      = mergeIdx d n (ax1 ++ ax2) (freeAxes n (ax1 ++ ax2)) (k1 ++ k2) o := by
  obtain ⟨p0, p1, p2, p3⟩ := h.nest_parts d k1 k2 o hk1 hk2 ho
  exact eq_merge3 h d p0 p1 p2 p3

/-- route `A·(B·C)`: the address of `B` -/
theorem Mid.nest_right (d : α) (k1 k2 o : List α) (hk1 : k1.length = ax1.length)
    (hk2 : k2.length = ax2.length) (ho : o.length = (freeAxes n (ax1 ++ ax2)).length) :
    mergeIdx d n ax2 (freeAxes n ax2) k2
      (mergeIdx d (freeAxes n ax2).length (positions (freeAxes n ax2) ax1)
        (freeAxes (freeAxes n ax2).length (positions (freeAxes n ax2) ax1)) k1 o)
      = mergeIdx d n (ax1 ++ ax2) (freeAxes n (ax1 ++ ax2)) (k1 ++ k2) o := by
  have e : freeAxes n (ax2 ++ ax1) = freeAxes n (ax1 ++ ax2) :=
    freeAxes_congr n (by intro x; simp only [List.mem_append]; exact Or.comm)
  obtain ⟨p0, p1, p2, p3⟩ := h.symm.nest_parts d k2 k1 o hk2 hk1 (by rw [ho, e])
  rw [e] at p3
  exact eq_merge3 h d p0 p2 p1 p3

/-- Koszul identity for the middle operand, route `(A·B)·C` -/
theorem Mid.koszul_left (par : List Bool) (hpar : par.length = n) :
    koszul par (some (ax1 ++ freeAxes n ax1))
        * koszul (permuted par (freeAxes n ax1))
            (some (freeAxes (freeAxes n ax1).length (positions (freeAxes n ax1) ax2)
              ++ positions (freeAxes n ax1) ax2))
      = koszul par (some (ax1 ++ freeAxes n (ax1 ++ ax2) ++ ax2)) := by
  have hq := perm_left h.pos_nodup h.pos_lt
  have := koszul_relist_free_right par n hpar ax1 _ h.n1 h.lt1 hq
  rw [ValidP.permuted_append, h.free_spec, h.pos_spec] at this
  rw [← this, List.append_assoc]

/-- Koszul identity for the middle operand, route `A·(B·C)` -/
theorem Mid.koszul_right (par : List Bool) (hpar : par.length = n) :
    koszul par (some (freeAxes n ax2 ++ ax2))
        * koszul (permuted par (freeAxes n ax2))
            (some (positions (freeAxes n ax2) ax1
              ++ freeAxes (freeAxes n ax2).length (positions (freeAxes n ax2) ax1)))
      = koszul par (some (ax1 ++ freeAxes n (ax1 ++ ax2) ++ ax2)) := by
  have e : freeAxes n (ax2 ++ ax1) = freeAxes n (ax1 ++ ax2) :=
    freeAxes_congr n (by intro x; simp only [List.mem_append]; exact Or.comm)
  have hq := perm_right h.symm.pos_nodup h.symm.pos_lt
  have := koszul_relist_free_left par n hpar ax2 _ h.n2 h.lt2 hq
  rw [ValidP.permuted_append, h.symm.free_spec, h.symm.pos_spec, e] at this
  rw [← this]

end middle

end AssocP
end SymmModel
