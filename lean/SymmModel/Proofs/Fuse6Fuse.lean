/-
  SymmModel.Proofs.Fuse6Fuse — the fused axes of a fused array as a list (axis, number of
  sub-indices); `unfuseGroups` / `unfuseGroupsF` as a right-to-left run over that list.
-/
import SymmModel.Proofs.Fuse6Order
import SymmModel.Proofs.Fuse6Inst
import SymmModel.Props.C05d
namespace SymmModel
namespace FuseP
set_option linter.unusedSectionVars false
open SymmModel.Lazy

/-- the fused axes that `fuse(*groups)` creates at `pos`: (axis, group size), left to right -/
def multiPL (groups : List (List Nat)) (pos : Nat) : List (Nat × Nat) :=
  ((List.range groups.length).filter (multiB groups)).map (fun g => (pos + g, (groups.getD g []).length))

theorem foldlM_if_filter {ε α β : Type} (c : α → Bool) (f : β → α → Except ε β) (l : List α) (x : β) :
    l.foldlM (fun x g => if c g then f x g else pure x) x = (l.filter c).foldlM f x := by
  induction l generalizing x with
  | nil => rfl
  | cons a l ih =>
    rw [List.foldlM_cons, List.filter_cons]
    cases hc : c a with
    | false =>
      simp only [Bool.false_eq_true, if_false]
      exact ih x
    | true =>
      simp only [if_true, List.foldlM_cons]
      cases f x a with
      | error e => rfl
      | ok y => exact ih y

/-- the right-to-left run over `multiPL` is the explicit list of unfuse steps, last group first -/
theorem r2l_multiPL {R : Type} (unf : Arr R → Nat → Except Err (Arr R)) (groups : List (List Nat)) (pos : Nat)
    (x : Arr R) :
    (((multiPL groups pos).map (fun pl => pl.1 + 0)).reverse).foldlM unf x
      = (List.range groups.length).reverse.foldlM (fun x g => if multiB groups g then unf x (pos + g) else pure x) x := by
  rw [foldlM_if_filter (multiB groups) (fun x g => unf x (pos + g))]
  unfold multiPL
  rw [List.map_map, ← List.map_reverse, ← List.filter_reverse, List.foldlM_map]
  rfl

theorem multiPL_sorted (groups : List (List Nat)) (pos : Nat) :
    ((multiPL groups pos).map (·.1)).Pairwise (· < ·) := by
  unfold multiPL
  rw [List.map_map]
  have h : ((List.range groups.length).filter (multiB groups)).Pairwise (· < ·) :=
    List.Pairwise.filter _ List.pairwise_lt_range
  exact h.map _ (fun a b hab => Nat.add_lt_add_left hab pos)

section
variable {R : Type} [Zero R] {a : Arr R} {groups : List (List Nat)}

/-- the fused axes of the fused array -/
theorem fusedArrM_fusedAtL (hok : GroupsOk groups a.ndim) :
    ∀ pl ∈ multiPL groups (giM a groups).position,
      0 < pl.2 ∧ FusedAtL (fusedArrM a groups) (pl.1 + 0) pl.2 := by
  intro pl hpl
  unfold multiPL at hpl
  obtain ⟨g, hg, rfl⟩ := List.mem_map.1 hpl
  obtain ⟨hg1, hm⟩ := List.mem_filter.1 hg
  have hgl : g < groups.length := List.mem_range.1 hg1
  obtain ⟨gaxes, hgx, hlen⟩ := multiB_iff.1 hm
  have hgd : groups.getD g [] = gaxes := by rw [List.getD_eq_getElem?_getD, hgx]; rfl
  have hne : gaxes ≠ [] := hok.gne gaxes (getElem?_mem' hgx)
  simp only [hgd, Nat.add_zero]
  refine ⟨List.length_pos_iff.2 hne, ixM a groups g, _, extsM a groups g, ?_, ixM_sub hok hgx hlen, by simp⟩
  have hlt : (giM a groups).position + g < (newIdxM a groups).length := by
    rw [newIdxM_length hok]; simp only [ndimM]; omega
  show (newIdxM a groups)[(giM a groups).position + g]? = some (ixM a groups g)
  rw [List.getElem?_eq_getElem hlt]
  simp [ixM, List.getD_eq_getElem?_getD, List.getElem?_eq_getElem hlt]

end

end FuseP
end SymmModel
