/-
  SymmModel.Proofs.FermiAction1 — the local operator ARRAY of property C18
  (`build_local_fermionic_array`): definition on top of the model's `buildDense` and
  `fromDense`, its fields, its value view, and its validity.
-/
import SymmModel.Proofs.FermiOps
import SymmModel.Proofs.DenseLemmas
import SymmModel.Proofs.LinalgLemmas
import SymmModel.Proofs.BlkLemmas

namespace SymmModel

/-- `build_local_fermionic_array(terms, bases, symmetry, index_maps)`:
    `dense = build_local_fermionic_dense(terms, bases)`,
    `duals = [False] * len(bases) + [True] * len(bases)`,
    `from_dense(dense, duals=duals, symmetry=symmetry, fermionic=True, index_maps=index_maps * 2)`
    (`charge=None`, no odd-position label).  `Err.value` = the `ValueError` without sites. -/
def buildArray {α : Type} [Zero α] [Add α] [Neg α] [DecidableEq α]
    (terms : List (α × Word)) (bases : List (List Word)) (sym : Sym)
    (indexMaps : List (List Charge)) : Except Err (Arr α) :=
  match buildDense terms bases with
  | none => .error Err.value
  | some (shape, data) =>
    fromDense sym true ⟨shape, data.toArray⟩ (indexMaps ++ indexMaps)
      (List.replicate bases.length false ++ List.replicate bases.length true) none

namespace FermiActP
open FermiOpsP

/-- duals of the operator array: kets then bras -/
def opDuals (n : Nat) : List Bool := List.replicate n false ++ List.replicate n true

/-- shape of the dense operator -/
def opShape (bases : List (List Word)) : List Nat :=
  bases.map List.length ++ bases.map List.length

theorem parity_zero (sym : Sym) : sym.parity sym.zero = false := by
  cases sym <;> decide

section
variable {α : Type} [AddCommGroup α] [DecidableEq α]

/-- the dense operator as a block: the specified element at every multi-index -/
def opDense (terms : List (α × Word)) (bases : List (List Word)) : Blk α :=
  Blk.ofFn (opShape bases) (fun idx => specAt terms bases idx)

theorem buildDense_eq (terms : List (α × Word)) (bases : List (List Word)) (h : bases ≠ []) :
    buildDense terms bases
      = some (opShape bases, (allIdx (opShape bases)).map (fun idx => specAt terms bases idx)) := by
  unfold buildDense buildElements
  have : bases.isEmpty = false := by cases bases <;> simp_all
  simp only [this, Bool.false_eq_true, if_false]
  congr 2
  apply List.map_congr_left
  intro idx _
  exact elemAt_buildElementsCore terms bases idx

/-- the array `build_local_fermionic_array` returns (when it returns) -/
def opArray (terms : List (α × Word)) (bases : List (List Word)) (sym : Sym)
    (maps : List (List Charge)) : Arr α :=
  { sym := sym, fermi := true,
    indices := fdIndices (maps ++ maps) (opDuals bases.length),
    charge := sym.zero,
    blocks := fdBlocks sym (opDense terms bases) (maps ++ maps) (opDuals bases.length) sym.zero,
    phases := [], oddpos := [] }

/-- with one index map per site, each labelling every basis state, the builder succeeds and
    returns `opArray` -/
theorem buildArray_eq (terms : List (α × Word)) (bases : List (List Word)) (sym : Sym)
    (maps : List (List Charge)) (hne : bases ≠ [])
    (hmaps : maps.map List.length = bases.map List.length) :
    buildArray terms bases sym maps = .ok (opArray terms bases sym maps) := by
  have hlen : maps.length = bases.length := by
    have := congrArg List.length hmaps; simpa using this
  unfold buildArray
  rw [buildDense_eq terms bases hne]
  simp only
  have hdense : (⟨opShape bases, ((allIdx (opShape bases)).map
      (fun idx => specAt terms bases idx)).toArray⟩ : Blk α) = opDense terms bases := rfl
  rw [hdense]
  have hshape : (opDense terms bases).shape = opShape bases := rfl
  have hm : (maps ++ maps).length = (opDense terms bases).shape.length := by
    rw [hshape]; simp [opShape, hlen]
  have hd : (List.replicate bases.length false ++ List.replicate bases.length true).length
      = (opDense terms bases).shape.length := by
    rw [hshape]; simp [opShape]
  have hl : (List.zipWith (fun (m : List Charge) d => m.length != d) (maps ++ maps)
      (opDense terms bases).shape).any id = false := by
    rw [hshape, List.any_eq_false]
    intro x hx
    obtain ⟨i, hi, rfl⟩ := List.mem_iff_getElem.mp hx
    simp only [List.getElem_zipWith, id, bne_iff_ne, ne_eq, Decidable.not_not]
    have e : (maps ++ maps).map List.length = opShape bases := by
      simp [opShape, hmaps]
    have h1 : ((maps ++ maps).map List.length)[i]? = (opShape bases)[i]? := by rw [e]
    simp only [List.length_zipWith] at hi
    rw [List.getElem?_map, List.getElem?_eq_getElem (by omega), List.getElem?_eq_getElem (by omega)] at h1
    simpa using h1
  rw [fromDense_eq sym true _ _ _ none [] hm hd hl, construct_eq]
  have hp : (true && sym.parity (resolvedCharge sym
      (fdIndices (maps ++ maps) (List.replicate bases.length false ++ List.replicate bases.length true))
      (some ((none : Option Charge).getD sym.zero))
      (fdBlocks sym (opDense terms bases) (maps ++ maps)
        (List.replicate bases.length false ++ List.replicate bases.length true)
        ((none : Option Charge).getD sym.zero))) && ([] : List (Int × Bool)).isEmpty) = false := by
    show (true && sym.parity sym.zero && true) = false
    rw [parity_zero]; rfl
  rw [if_neg (by rw [hp]; simp)]
  congr 1
  unfold opArray opDuals
  congr 1
  exact adict_of_nodup _ (fdBlocks_nodup sym _ _ _ _)

end
/-! ### one axis of `from_dense` -/

/-- the sector `s` uses, on every axis, a charge that labels some position -/
def SectorOf (maps : List (List Charge)) (s : Sector) : Prop :=
  List.Forall₂ (fun x (m : List Charge) => x ∈ (chargeGroups m).map (·.1)) s maps

theorem mem_fdSectors {maps : List (List Charge)} {s : Sector} :
    s ∈ fdSectors maps ↔ SectorOf maps s := by
  simp only [fdSectors, SectorOf, mem_cartesian, List.map_map, List.forall₂_map_right_iff,
    Function.comp]

theorem cg_lookup {m : List Charge} {c : Charge} (h : c ∈ (chargeGroups m).map (·.1)) :
    ∃ l, alookup (chargeGroups m) c = some l ∧ l ≠ [] ∧ l.Pairwise (· < ·)
      ∧ ∀ i, i ∈ l → m[i]? = some c := by
  have inv := chargeGroups_inv m
  cases hl : alookup (chargeGroups m) c with
  | none => exact absurd h (alookup_eq_none_iff.mp hl)
  | some l =>
    exact ⟨l, rfl, inv.nonempty c l hl, inv.sorted c l hl, fun i hi => (inv.label c l hl i hi).1⟩

theorem sizeOf_plain_gsizes (m : List Charge) (d : Bool) (c : Charge) :
    (Index.plain (gsizes m) d).sizeOf? c = (alookup (chargeGroups m) c).map List.length := by
  show alookup (Index.sortCm (gsizes m)) c = _
  rw [LinalgLemmas.alookup_sortCm _ (by rw [keys_gsizes]; exact (chargeGroups_inv m).nodup)]
  exact alookup_map_val' (chargeGroups m) _ (fun _ l => l.length) (fun ⟨_, _⟩ => rfl) c

theorem wfB_plain_gsizes (sym : Sym) (m : List Charge) (d : Bool)
    (hv : ∀ c ∈ m, sym.valid c = true) : Index.wfB sym (Index.plain (gsizes m) d) = true := by
  have hnd : ((gsizes m).map (·.1)).Nodup := by rw [keys_gsizes]; exact (chargeGroups_inv m).nodup
  show Index.wfB sym (Index.mk (Index.sortCm (gsizes m)) d none) = true
  unfold Index.wfB
  simp only [Bool.and_true, Bool.and_eq_true, List.all_eq_true]
  refine ⟨LinalgLemmas.sortCm_sorted _ hnd, ?_⟩
  rintro ⟨c, dd⟩ hcd
  obtain ⟨l, hl, rfl⟩ := mem_gsizes.mp (mem_sortCm.mp hcd)
  have inv := chargeGroups_inv m
  have hne := inv.nonempty c l hl
  obtain ⟨i, hi⟩ := List.exists_mem_of_ne_nil l hne
  have hlab := (inv.label c l hl i hi).1
  simp only [Bool.and_eq_true, decide_eq_true_eq]
  refine ⟨List.length_pos_iff.mpr hne, hv c ?_⟩
  exact List.mem_of_getElem? hlab

/-! ### all axes -/

theorem fdIndices_cons (m : List Charge) (maps : List (List Charge)) (d : Bool) (ds : List Bool) :
    fdIndices (m :: maps) (d :: ds) = Index.plain (gsizes m) d :: fdIndices maps ds := rfl

theorem fdIndices_length (maps : List (List Charge)) (duals : List Bool)
    (h : duals.length = maps.length) : (fdIndices maps duals).length = maps.length := by
  simp [fdIndices, h]

theorem fdIndices_duals : ∀ (maps : List (List Charge)) (duals : List Bool),
    duals.length = maps.length → (fdIndices maps duals).map Index.dual = duals
  | [], [], _ => rfl
  | [], _ :: _, h => by simp at h
  | _ :: _, [], h => by simp at h
  | m :: maps, d :: ds, h => by
    rw [fdIndices_cons, List.map_cons, fdIndices_duals maps ds (by simpa using h)]; rfl

theorem wfListB_fdIndices (sym : Sym) : ∀ (maps : List (List Charge)) (duals : List Bool),
    (∀ m ∈ maps, ∀ c ∈ m, sym.valid c = true) → Index.wfListB sym (fdIndices maps duals) = true
  | [], _, _ => by simp [fdIndices, Index.wfListB]
  | _ :: _, [], _ => by simp [fdIndices, Index.wfListB]
  | m :: maps, d :: ds, h => by
    rw [fdIndices_cons, Index.wfListB, Bool.and_eq_true]
    exact ⟨wfB_plain_gsizes sym m d (h m List.mem_cons_self),
      wfListB_fdIndices sym maps ds (fun m' hm' => h m' (List.mem_cons_of_mem _ hm'))⟩

theorem fdPos_cons (m : List Charge) (maps : List (List Charge)) (c : Charge) (s : Sector) :
    fdPos (m :: maps) (c :: s) = (alookup (chargeGroups m) c).getD [] :: fdPos maps s := rfl

theorem blockShape_fdIndices : ∀ (maps : List (List Charge)) (duals : List Bool) (s : Sector),
    duals.length = maps.length → SectorOf maps s →
    Arr.blockShape? (fdIndices maps duals) s = some ((fdPos maps s).map List.length)
  | [], [], s, _, hs => by cases hs; rfl
  | [], _ :: _, _, h, _ => by simp at h
  | _ :: _, [], _, h, _ => by simp at h
  | m :: maps, d :: ds, s, h, hs => by
    cases hs with
    | cons hc hrest =>
      rename_i c s'
      obtain ⟨l, hl, _⟩ := cg_lookup hc
      rw [fdIndices_cons, Arr.blockShape?_cons, sizeOf_plain_gsizes, hl,
        blockShape_fdIndices maps ds s' (by simpa using h) hrest, fdPos_cons, hl]
      rfl

/-- original dense position of the address `(s, off)` -/
def fdOrig (maps : List (List Charge)) (s : Sector) (off : List Nat) : List Nat :=
  List.zipWith (fun (p : List Nat) k => p.getD k 0) (fdPos maps s) off

theorem fdOrig_spec : ∀ (maps : List (List Charge)) (s : Sector) (off : List Nat),
    SectorOf maps s → inBox ((fdPos maps s).map List.length) off = true →
    inBox (maps.map List.length) (fdOrig maps s off) = true ∧ labelsAt maps (fdOrig maps s off) = s
  | [], s, off, hs, ho => by
    cases hs
    cases off with
    | nil => exact ⟨rfl, rfl⟩
    | cons _ _ => simp [fdPos, inBox] at ho
  | m :: maps, s, off, hs, ho => by
    cases hs with
    | cons hc hrest =>
      rename_i c s'
      obtain ⟨l, hl, _, _, hlab⟩ := cg_lookup hc
      rw [fdPos_cons, hl] at ho
      cases off with
      | nil => simp [inBox] at ho
      | cons k off =>
        simp only [Option.getD_some, List.map_cons, inBox, Bool.and_eq_true, decide_eq_true_eq] at ho
        obtain ⟨ih1, ih2⟩ := fdOrig_spec maps s' off hrest ho.2
        have hk : l.getD k 0 = l[k] := by
          rw [List.getD_eq_getElem?_getD, List.getElem?_eq_getElem ho.1]; rfl
        have hm := hlab l[k] (List.getElem_mem ho.1)
        have hlt : l[k] < m.length := by
          by_contra hn
          rw [List.getElem?_eq_none (by omega)] at hm; cases hm
        have e : fdOrig (m :: maps) (c :: s') (k :: off) = l[k] :: fdOrig maps s' off := by
          simp only [fdOrig, fdPos_cons, hl, Option.getD_some, List.zipWith_cons_cons, hk]
        rw [e]
        refine ⟨by simp only [List.map_cons, inBox, Bool.and_eq_true, decide_eq_true_eq]; exact ⟨hlt, ih1⟩, ?_⟩
        show (m.getD l[k] (0, 0)) :: labelsAt maps (fdOrig maps s' off) = c :: s'
        rw [ih2, List.getD_eq_getElem?_getD, hm]; rfl

theorem alookup_filterMap_not_mem {κ β : Type} [BEq κ] [LawfulBEq κ] (ks : List κ) (c : κ → Bool)
    (f : κ → β) (k0 : κ) (hk : k0 ∉ ks) :
    alookup (ks.filterMap (fun k => if c k = true then some (k, f k) else none)) k0 = none := by
  rw [alookup_eq_none_iff]
  intro h
  obtain ⟨⟨k, v⟩, hm, rfl⟩ := List.mem_map.mp h
  obtain ⟨k', hk', e⟩ := List.mem_filterMap.mp hm
  split at e
  · simp only [Option.some.injEq, Prod.mk.injEq] at e
    exact hk (e.1 ▸ hk')
  · cases e

set_option linter.unusedSectionVars false in
section
variable {α : Type} [AddCommGroup α] [DecidableEq α]

theorem opDense_get (terms : List (α × Word)) (bases : List (List Word)) (idx : List Nat)
    (h : inBox (opShape bases) idx = true) :
    (opDense terms bases).get idx = specAt terms bases idx :=
  Blk.get_ofFn _ _ h

/-- **value view of the operator array**: at a sector made of charges that occur (`SectorOf`) and
    an offset inside its block, the value is the specified element at the ORIGINAL basis
    multi-index the address denotes if the sector conserves the charge, and `0` otherwise;
    at any other sector key it is `0`. -/
theorem opArray_elem (terms : List (α × Word)) (bases : List (List Word)) (sym : Sym)
    (maps : List (List Charge)) (hmaps : maps.map List.length = bases.map List.length)
    (s : Sector) (off : List Nat) :
    (SectorOf (maps ++ maps) s → inBox ((fdPos (maps ++ maps) s).map List.length) off = true →
      (opArray terms bases sym maps).elem s off
        = if Arr.sectorCharge sym (opDuals bases.length) s == sym.zero
          then specAt terms bases (fdOrig (maps ++ maps) s off) else 0)
    ∧ (¬ SectorOf (maps ++ maps) s → (opArray terms bases sym maps).elem s off = 0) := by
  constructor
  · intro hs ho
    rw [Arr.elem_abelian _ rfl]
    show (match alookup (fdBlocks sym (opDense terms bases) (maps ++ maps) (opDuals bases.length)
      sym.zero) s with | none => 0 | some b => b.get off) = _
    rw [fdBlocks, alookup_filterMap_keys (fdSectors (maps ++ maps))
      (fun s => Arr.sectorCharge sym (opDuals bases.length) s == sym.zero)
      (fun s => fdBlock (opDense terms bases) (maps ++ maps) s) s (mem_fdSectors.mpr hs)]
    by_cases hc : (Arr.sectorCharge sym (opDuals bases.length) s == sym.zero) = true
    · simp only [hc, if_true]
      rw [fdBlock, Blk.get_ofFn _ _ ho]
      apply opDense_get
      have := (fdOrig_spec (maps ++ maps) s off hs ho).1
      have e : (maps ++ maps).map List.length = opShape bases := by simp [opShape, hmaps]
      rw [e] at this
      exact this
    · simp only [hc, Bool.false_eq_true, if_false]
  · intro hs
    rw [Arr.elem_abelian _ rfl]
    show (match alookup (fdBlocks sym (opDense terms bases) (maps ++ maps) (opDuals bases.length)
      sym.zero) s with | none => 0 | some b => b.get off) = _
    rw [fdBlocks, alookup_filterMap_not_mem _ _ _ _ (fun h => hs (mem_fdSectors.mp h))]

/-- the operator array is a valid fermionic array (property C01's predicate) when every label of
    the index maps is a valid charge of the symmetry -/
theorem opArray_valid (terms : List (α × Word)) (bases : List (List Word)) (sym : Sym)
    (maps : List (List Charge)) (hmaps : maps.map List.length = bases.map List.length)
    (hv : ∀ m ∈ maps, ∀ c ∈ m, sym.valid c = true) :
    (opArray terms bases sym maps).validB = true := by
  have hlen : maps.length = bases.length := by
    have := congrArg List.length hmaps; simpa using this
  have hdl : (opDuals bases.length).length = (maps ++ maps).length := by simp [opDuals, hlen]
  have hv2 : ∀ m ∈ maps ++ maps, ∀ c ∈ m, sym.valid c = true := by
    intro m hm; rcases List.mem_append.mp hm with h | h <;> exact hv m h
  unfold Arr.validB
  simp only [Bool.and_eq_true, List.all_eq_true]
  refine ⟨⟨⟨⟨wfListB_fdIndices sym _ _ hv2, Sym.combine_valid sym []⟩, ?_⟩, ?_⟩, ?_⟩
  · rw [LinalgLemmas.allDistinct_iff_nodup]
    exact fdBlocks_nodup sym _ _ _ _
  · rintro ⟨s, b⟩ hsb
    have hkey : s ∈ (fdBlocks sym (opDense terms bases) (maps ++ maps) (opDuals bases.length)
        sym.zero).map (·.1) := List.mem_map.mpr ⟨_, hsb, rfl⟩
    rw [fdBlocks_keys, List.mem_filter] at hkey
    have hs : SectorOf (maps ++ maps) s := mem_fdSectors.mp hkey.1
    have hb : b = fdBlock (opDense terms bases) (maps ++ maps) s := by
      simp only [opArray, fdBlocks, List.mem_filterMap] at hsb
      obtain ⟨s', _, hs'⟩ := hsb
      split at hs'
      · simp only [Option.some.injEq, Prod.mk.injEq] at hs'
        obtain ⟨rfl, rfl⟩ := hs'; rfl
      · cases hs'
    simp only [Bool.and_eq_true, beq_iff_eq]
    refine ⟨⟨⟨?_, ?_⟩, ?_⟩, ?_⟩
    · show s.length = (fdIndices (maps ++ maps) (opDuals bases.length)).length
      rw [fdIndices_length _ _ hdl]; exact hs.length_eq
    · show (Arr.sectorCharge sym ((fdIndices (maps ++ maps) (opDuals bases.length)).map Index.dual) s
        == sym.zero) = true
      rw [fdIndices_duals _ _ hdl]; exact hkey.2
    · show Arr.blockShape? (fdIndices (maps ++ maps) (opDuals bases.length)) s = some b.shape
      rw [blockShape_fdIndices _ _ s hdl hs, hb]; rfl
    · rw [hb]; exact TdotP.Blk.ofFn_wf _ _
  · have hf : (opArray terms bases sym maps).fermi = true := rfl
    rw [if_pos hf]
    simp [opArray, Arr.parity, parity_zero, allDistinct]

end

end FermiActP
end SymmModel
