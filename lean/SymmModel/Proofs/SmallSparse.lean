/-
  SymmModel.Proofs.SmallSparse — helper lemmas for Props/C08h.lean (`item`, the scalar conversions and the
  converse of `allclose_toDense`).  Nothing here changes a model definition.
-/
import SymmModel.Proofs.SparseLemmas
import SymmModel.Proofs.Dense3b

namespace SymmModel.SmallSparse
open SymmModel Arr SparseP
set_option linter.unusedSectionVars false
set_option linter.unusedSimpArgs false

/-! ## blocks: extensionality on the box, the single entry of a one-entry block -/

section blk
variable {R : Type} [Zero R]

/-- two well-formed blocks of the same shape that agree at every IN-BOX offset are equal -/
theorem ext_get_inBox {b b' : Blk R} (hs : b.shape = b'.shape) (hw : b.wf = true) (hw' : b'.wf = true)
    (h : ∀ off, inBox b.shape off = true → b.get off = b'.get off) : b = b' := by
  obtain ⟨s, d⟩ := b
  obtain ⟨s', d'⟩ := b'
  simp only at hs; subst hs
  simp only [Blk.wf, beq_iff_eq] at hw hw'
  congr 1
  apply Array.ext (by rw [hw, hw'])
  intro i h1 h2
  have := h (unravel s i) (Lazy.unravel_inBox s i (hw ▸ h1))
  simp only [Blk.get, Lazy.ravel_unravel s i (hw ▸ h1)] at this
  simpa [Array.getD, h1, h2] using this

theorem ravel_zeros (s : List Nat) : ravel s (List.replicate s.length 0) = 0 := by
  induction s with
  | nil => rfl
  | cons d ds ih => simp [List.replicate_succ, ravel, ih]

theorem inBox_zeros (s : List Nat) (h : prod s = 1) : inBox s (List.replicate s.length 0) = true := by
  induction s with
  | nil => rfl
  | cons d ds ih =>
    simp only [prod] at h
    have h1 : d = 1 := Nat.eq_one_of_mul_eq_one_right h
    have h2 : prod ds = 1 := Nat.eq_one_of_mul_eq_one_left h
    simp [List.replicate_succ, inBox, h1, ih h2]

/-- the entry of a block at the all-zero offset is the first datum -/
theorem get_zeros_off (b : Blk R) {v : R} (h : b.data.toList = [v]) :
    b.get (List.replicate b.shape.length 0) = v := by
  obtain ⟨s, d⟩ := b
  obtain ⟨l⟩ := d
  simp only at h
  subst h
  simp [Blk.get, ravel_zeros]

theorem toList_singleton_of_size {α : Type} (d : Array α) (h : d.size = 1) : ∃ v, d.toList = [v] := by
  obtain ⟨l⟩ := d
  match l, h with
  | [v], _ => exact ⟨v, rfl⟩

end blk

/-! ## `item` -/

section item
variable {R : Type}

/-- the tuple-unpacking and `array.item()` of `BlockBase.item` on a block dict -/
def itemCore (bl : List (Sector × Blk R)) : Except Err R :=
  match bl with
  | [(_, b)] =>
    match b.data.toList with
    | [v] => .ok v
    | _ => .error Err.value
  | _ => .error Err.value

theorem item_eq_core [Neg R] (a : Arr R) :
    a.item = itemCore (if a.fermi && !a.phases.isEmpty then a.phaseSync else a).blocks := rfl

theorem itemCore_single {s : Sector} {b : Blk R} {v : R} (h : b.data.toList = [v]) :
    itemCore [(s, b)] = .ok v := by
  simp [itemCore, h]

/-- `itemCore` succeeds exactly on a one-block dict whose block has exactly one entry -/
theorem itemCore_ok_iff (bl : List (Sector × Blk R)) (v : R) :
    itemCore bl = .ok v ↔ ∃ s b, bl = [(s, b)] ∧ b.data.toList = [v] := by
  constructor
  · intro h
    unfold itemCore at h
    split at h
    next s b =>
      split at h
      next w hw => cases h; exact ⟨s, b, rfl, hw⟩
      next => cases h
    next => cases h
  · rintro ⟨s, b, rfl, hv⟩
    exact itemCore_single hv

theorem itemCore_error (bl : List (Sector × Blk R)) (e : Err) (h : itemCore bl = .error e) :
    e = Err.value := by
  unfold itemCore at h
  split at h
  next =>
    split at h
    next => cases h
    next => cases h; rfl
  next => cases h; rfl

variable [Zero R] [Neg R] [Lazy.LawfulNeg R]

/-- for an array without pending signs and a single one-entry block, `itemCore` is the value view at
    the all-zero offset of that block -/
theorem itemCore_eq_elem (x : Arr R) (hp : x.phases = []) (s : Sector) (b : Blk R)
    (hb : x.blocks = [(s, b)]) (hsz : b.data.size = 1) :
    itemCore x.blocks = .ok (x.elem s (List.replicate b.shape.length 0)) := by
  obtain ⟨v, hv⟩ := toList_singleton_of_size b.data hsz
  rw [hb, itemCore_single hv, Arr.elem_abelian x hp, hb]
  simp [alookup, get_zeros_off b hv]

theorem syncBlk_shape (a : Arr R) (s : Sector) (b : Blk R) : (Lazy.syncBlk a s b).shape = b.shape := by
  unfold Lazy.syncBlk; split <;> rfl

theorem syncBlk_size (a : Arr R) (s : Sector) (b : Blk R) :
    (Lazy.syncBlk a s b).data.size = b.data.size := by
  unfold Lazy.syncBlk; split
  · simp [Blk.negK, Blk.map]
  · rfl

/-- the array `item` reads: `phase_sync()` of a fermionic array with a non-empty sign table -/
theorem item_source_blocks (a : Arr R) :
    (if a.fermi && !a.phases.isEmpty then a.phaseSync else a).blocks
      = a.blocks.map (fun p => (p.1,
          if a.fermi && !a.phases.isEmpty then Lazy.syncBlk a p.1 p.2 else p.2)) := by
  split
  · rw [Lazy.phaseSync_blocks_eq]
  · simp

end item

/-! ## in-box agreement of value views is agreement everywhere -/

section close
variable {R : Type} [Zero R] [BEq R] [LawfulBEq R] [Neg R]

theorem secClose_of_inBox {a b : Arr R} (hpa : a.phases = []) (hpb : b.phases = [])
    {idx : List Index} (hsa : Shaped idx a.blocks) (hsb : Shaped idx b.blocks) (s : Sector)
    (h : ∀ shp off, blockShape? idx s = some shp → inBox shp off = true → a.elem s off = b.elem s off) :
    secClose a b s = true := by
  unfold secClose
  simp only [Arr.elem_abelian a hpa, Arr.elem_abelian b hpb] at h
  cases hx : alookup a.blocks s with
  | none =>
    cases hy : alookup b.blocks s with
    | none => rfl
    | some y =>
      have hy' := hsb _ (alookup_eq_some_mem hy)
      rw [hx, hy] at h
      exact isZero_of_get hy'.2 (fun i hi => (h _ i hy'.1 hi).symm)
  | some x =>
    have hx' := hsa _ (alookup_eq_some_mem hx)
    cases hy : alookup b.blocks s with
    | none =>
      rw [hx, hy] at h
      exact isZero_of_get hx'.2 (fun i hi => h _ i hx'.1 hi)
    | some y =>
      have hy' := hsb _ (alookup_eq_some_mem hy)
      rw [hx, hy] at h
      simp only
      rw [blkClose_iff]
      have hsh : x.shape = y.shape := Option.some.inj (hx'.1.symm.trans hy'.1)
      exact ext_get_inBox hsh hx'.2 hy'.2 (fun off ho => h _ off hx'.1 ho)

/-- two arrays (pending signs allowed) whose stored blocks have the shapes of the same index tables and
    whose value views agree at every in-box address of every sector of the tables agree at EVERY address -/
theorem elem_eq_of_inBox [Lazy.LawfulNeg R] {a b : Arr R} {idx : List Index}
    (hsa : Shaped idx a.blocks) (hsb : Shaped idx b.blocks)
    (h : ∀ s shp off, blockShape? idx s = some shp → inBox shp off = true → a.elem s off = b.elem s off) :
    ∀ s off, a.elem s off = b.elem s off := by
  have h1 : allcloseA a.phaseSync b.phaseSync = true :=
    (allcloseA_iff_sec _ _).mpr (fun s =>
      secClose_of_inBox (Lazy.phaseSync_phases a) (Lazy.phaseSync_phases b)
        (shaped_phaseSync hsa) (shaped_phaseSync hsb) s
        (fun shp off hs ho => by rw [Lazy.phaseSync_elem, Lazy.phaseSync_elem]; exact h s shp off hs ho))
  have h2 := (allcloseA_iff_elem (Lazy.phaseSync_phases a) (Lazy.phaseSync_phases b)
    (shaped_phaseSync hsa) (shaped_phaseSync hsb)).mp h1
  intro s off
  have := h2 s off
  rwa [Lazy.phaseSync_elem, Lazy.phaseSync_elem] at this

end close

/-! ## the dense form determines the value view on the box -/

section dense
variable {R : Type} [Zero R] [Neg R]

theorem elem_inBox_of_toDense {a b : Arr R} (hnd : ∀ ix ∈ a.indices, (ix.cm.map (·.1)).Nodup)
    (hi : a.indices = b.indices) (hne : a.indices.any (fun ix => ix.cm.isEmpty) = false)
    (hd : a.toDenseA = b.toDenseA) :
    ∀ s shp off, blockShape? a.indices s = some shp → inBox shp off = true →
      a.elem s off = b.elem s off := by
  intro s shp off hs ho
  obtain ⟨p, hp, hl⟩ := Dense3.locateAll_surj hnd hs ho
  rw [Arr.toDenseA_eq a false hne, Arr.toDenseA_eq b false (hi ▸ hne)] at hd
  have hd' := Except.ok.inj hd
  have hsh : b.shape = a.shape := by unfold Arr.shape; rw [hi]
  rw [hsh, ← hi] at hd'
  have hg := congrArg (fun d => d.get p) hd'
  have hp' : inBox a.shape p = true := hp
  rw [Blk.get_ofFn _ _ hp', Blk.get_ofFn _ _ hp', hl] at hg
  simpa using hg

/-- a stored block of the prescribed shape forces every index to offer a charge -/
theorem forall₂_exists {α β : Type} {P : α → β → Prop} {l : List α} {m : List β}
    (h : List.Forall₂ P l m) {y : β} (hy : y ∈ m) : ∃ x, P x y := by
  induction h with
  | nil => cases hy
  | cons hxy _ ih =>
    rcases List.mem_cons.mp hy with rfl | hy
    · exact ⟨_, hxy⟩
    · exact ih hy

theorem blocks_nil_of_empty_cm {a : Arr R} (g : Good a)
    (he : a.indices.any (fun ix => ix.cm.isEmpty) = true) : a.blocks = [] := by
  cases hb : a.blocks with
  | nil => rfl
  | cons p bl =>
    exfalso
    obtain ⟨_, _, h3, _⟩ := g.stored p (by rw [hb]; exact List.mem_cons_self)
    obtain ⟨ix, hix, hemp⟩ := List.any_eq_true.mp he
    obtain ⟨c, hc⟩ := forall₂_exists (forall₂_of_blockShape? h3) hix
    have : ix.cm = [] := by simpa using hemp
    simp [Index.charges, this] at hc

end dense

end SymmModel.SmallSparse
