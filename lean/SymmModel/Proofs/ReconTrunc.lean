/-
  SymmModel.Proofs.ReconTrunc — the fermionic product of the factors of `svd` / `svd_truncated`
  for every absorb option: reconstruction (no truncation) and truncation error (C11/C13, fermionic
  arrays with a sorted label list).  Namespace `SymmModel.ReconP`.
-/
import SymmModel.Proofs.ReconSvd

namespace SymmModel
namespace ReconP
open LinalgLemmas OddposP Finset

variable {R : Type}

/-- the hypothesis on the backend's `sqrt` used for `absorb = 0` ("both"), on the blocks `sb p` -/
def SqrtItems [Zero R] [Mul R] {α : Type} (sqrtK : Blk R → Blk R) (l : List α) (sb : α → Blk R)
    (k : α → Nat) : Prop :=
  ∀ p ∈ l, (sqrtK (sb p)).shape = [k p]
    ∧ ∀ t, t < k p → (sqrtK (sb p)).get [t] * (sqrtK (sb p)).get [t] = (sb p).get [t]

/-! ### what the caller multiplies, for the four values of `absorb` -/

/-- the product a caller forms from the return value of `svd_truncated(…, absorb=…)`:
    `none` (`absorb=None`, returns `U, s, VH`): `U.multiply_diagonal(s, 1) @ VH`;
    `some m` (`absorb ∈ {-1, 0, 1}`, returns `U', None, VH'`): `U' @ VH'` -/
def svdProduct [Zero R] [Add R] [Mul R] [Neg R] (mode : Option Absorb) (sqrtK : Blk R → Blk R)
    (u : Arr R) (sv : BVec R) (vh : Arr R) : Except Err (Arr R) :=
  match mode with
  | none => Arr.matmulF (multiplyDiagonal u sv 1) vh
  | some m => Arr.matmulF (absorbA m sqrtK u sv vh).1 (absorbA m sqrtK u sv vh).2

/-- `absorb=None` followed by `multiply_diagonal` is the same product as `absorb=-1` -/
theorem svdProduct_none [Zero R] [Add R] [Mul R] [Neg R] {α : Type} {l : List α} {sec : α → Sector}
    {ub sb vb : α → Blk R} {u : Arr R} {sv : BVec R} {vh : Arr R}
    (A : Aligned l sec ub sb vb u sv vh) (sqrtK : Blk R → Blk R) :
    svdProduct none sqrtK u sv vh = svdProduct (some .left) sqrtK u sv vh := by
  simp only [svdProduct]
  rw [absorb_left_eq A sqrtK]

/-- … and multiplying `s` into `VH` instead is the same product as `absorb=1` -/
theorem matmulF_right_diag [Zero R] [Add R] [Mul R] [Neg R] {α : Type} {l : List α}
    {sec : α → Sector} {ub sb vb : α → Blk R} {u : Arr R} {sv : BVec R} {vh : Arr R}
    (A : Aligned l sec ub sb vb u sv vh) (sqrtK : Blk R → Blk R) :
    Arr.matmulF u (multiplyDiagonal vh sv 0) = svdProduct (some .right) sqrtK u sv vh := by
  simp only [svdProduct]
  rw [absorb_right_eq A sqrtK]

/-- the mode a value of `absorb` is reduced to -/
def modeOf : Option Absorb → Absorb
  | none => .left
  | some m => m

theorem svdProduct_eq [Zero R] [Add R] [Mul R] [Neg R] {α : Type} {l : List α} {sec : α → Sector}
    {ub sb vb : α → Blk R} {u : Arr R} {sv : BVec R} {vh : Arr R}
    (A : Aligned l sec ub sb vb u sv vh) (sqrtK : Blk R → Blk R) (mode : Option Absorb) :
    svdProduct mode sqrtK u sv vh
      = Arr.matmulF (absorbA (modeOf mode) sqrtK u sv vh).1 (absorbA (modeOf mode) sqrtK u sv vh).2 := by
  cases mode with
  | none => rw [svdProduct_none A sqrtK]; rfl
  | some m => rfl

/-- `svdProduct` for every value of `absorb`, on aligned factors (see `absorb_matmulF`) -/
theorem svdProduct_spec [CommRing R] {x : Arr R} (hv : x.validB = true) (h2 : x.ndim = 2)
    {α : Type} {l : List α} {sec : α → Sector} {ub sb vb : α → Blk R} {u : Arr R} {sv : BVec R}
    {vh : Arr R} (A : Aligned l sec ub sb vb u sv vh) (hin : ∀ p ∈ l, sec p ∈ x.sectors)
    (hu2 : u.ndim = 2) (hlab : SortedLabels u.oddpos) (RO : RightOf x vh)
    (sqrtK : Blk R → Blk R) (dims : α → Nat × Nat × Nat)
    (hsh : ∀ p ∈ l, ItemShape (ub p) (sb p) (vb p) (dims p).1 (dims p).2.1 (dims p).2.2)
    (mode : Option Absorb)
    (hsq : mode = some .both → SqrtItems sqrtK l sb (fun p => (dims p).2.1)) :
    ∃ y, svdProduct mode sqrtK u sv vh = .ok y
      ∧ y.phases = [] ∧ y.oddpos = u.oddpos ∧ y.sectors = l.map sec
      ∧ y.sym = u.sym ∧ y.fermi = u.fermi ∧ y.charge = u.sym.combine [u.charge, vh.charge]
      ∧ y.indices = dropUnused (without u.indices [1] ++ without vh.indices [0]) (l.map sec)
      ∧ (∀ p ∈ l, ∀ i j, i < (dims p).1 → j < (dims p).2.2 →
          y.elem (sec p) [i, j]
            = (if alookup u.phases (sec p) == some (-1) then
                - (List.range (dims p).2.1).foldl
                    (fun acc t => acc + ((ub p).get [i, t] * (sb p).get [t]) * (vb p).get [t, j]) 0
               else (List.range (dims p).2.1).foldl
                    (fun acc t => acc + ((ub p).get [i, t] * (sb p).get [t]) * (vb p).get [t, j]) 0))
      ∧ (∀ s, s ∉ l.map sec → ∀ off, y.elem s off = 0) := by
  rw [svdProduct_eq A sqrtK mode]
  apply absorb_matmulF hv h2 A hin hu2 hlab RO sqrtK dims hsh (modeOf mode)
  intro hm
  apply hsq
  cases mode with
  | none => cases hm
  | some m => simp only [modeOf] at hm; rw [hm]

/-- two values of `absorb` give products with the same structure and the same value view -/
theorem svdProduct_agree [CommRing R] {x : Arr R} (hv : x.validB = true) (h2 : x.ndim = 2)
    {α : Type} {l : List α} {sec : α → Sector} {ub sb vb : α → Blk R} {u : Arr R} {sv : BVec R}
    {vh : Arr R} (A : Aligned l sec ub sb vb u sv vh) (hin : ∀ p ∈ l, sec p ∈ x.sectors)
    (hu2 : u.ndim = 2) (hlab : SortedLabels u.oddpos) (RO : RightOf x vh)
    (sqrtK : Blk R → Blk R) (dims : α → Nat × Nat × Nat)
    (hsh : ∀ p ∈ l, ItemShape (ub p) (sb p) (vb p) (dims p).1 (dims p).2.1 (dims p).2.2)
    (hsq : SqrtItems sqrtK l sb (fun p => (dims p).2.1)) (m1 m2 : Option Absorb) :
    ∃ y1 y2, svdProduct m1 sqrtK u sv vh = .ok y1 ∧ svdProduct m2 sqrtK u sv vh = .ok y2
      ∧ y1.sectors = y2.sectors ∧ y1.phases = y2.phases ∧ y1.oddpos = y2.oddpos
      ∧ y1.indices = y2.indices ∧ y1.charge = y2.charge ∧ y1.sym = y2.sym ∧ y1.fermi = y2.fermi
      ∧ ∀ s off, (s ∉ l.map sec ∨ ∃ p ∈ l, s = sec p ∧ inBox [(dims p).1, (dims p).2.2] off = true) →
          y1.elem s off = y2.elem s off := by
  obtain ⟨y1, a0, a1, a2, a3, a4, a5, a6, a7, a8, a9⟩ :=
    svdProduct_spec hv h2 A hin hu2 hlab RO sqrtK dims hsh m1 (fun _ => hsq)
  obtain ⟨y2, b0, b1, b2, b3, b4, b5, b6, b7, b8, b9⟩ :=
    svdProduct_spec hv h2 A hin hu2 hlab RO sqrtK dims hsh m2 (fun _ => hsq)
  refine ⟨y1, y2, a0, b0, a3.trans b3.symm, a1.trans b1.symm, a2.trans b2.symm, a7.trans b7.symm,
    a6.trans b6.symm, a4.trans b4.symm, a5.trans b5.symm, ?_⟩
  intro s off h
  rcases h with h | ⟨p, hp, rfl, hbox⟩
  · rw [a9 s h off, b9 s h off]
  · obtain ⟨i, j, rfl, hij⟩ := inBox_pair_elim hbox
    rw [a8 p hp i j hij.1 hij.2, b8 p hp i j hij.1 hij.2]

/-! ### svd without truncation -/

theorem svd_recon_fermi_labels [Zero R] [Add R] [Mul R] [Neg R] [NegLaws R] {K : Kernels R}
    (hK : K.ShapeOk) (hC : K.SVDContract) {x : Arr R} (hv : x.validB = true) (h2 : x.ndim = 2)
    (hf : x.fermi = true) (hlab : SortedLabels x.oddpos) :
    ∃ y, Arr.matmulF
        (multiplyDiagonal (leftF x (fun b => (K.svd b).1))
          ⟨x.blocks.map (fun p => (colOf p.1, (K.svd p.2).2.1))⟩ 1)
        (rightF x (fun b => (K.svd b).1) (fun b => (K.svd b).2.2)) = .ok y
      ∧ y.oddpos = x.oddpos ∧ y.phases = []
      ∧ ∀ s off, AddrOf x s off → y.elem s off = x.elem s off := by
  obtain ⟨i0, i1, hi⟩ := ndim_two h2
  have hmd := multiplyDiagonal_blocks hv h2 (fun b => (K.svd b).1) (fun b => (K.svd b).2.1)
    (leftF x (fun b => (K.svd b).1)) ⟨x.blocks.map (fun p => (colOf p.1, (K.svd p.2).2.1))⟩ rfl rfl
  obtain ⟨y, hy, hyp, hyo, hyb⟩ := matmulF_factors_labels hv h2 hf hlab
    (multiplyDiagonal (leftF x (fun b => (K.svd b).1))
      ⟨x.blocks.map (fun p => (colOf p.1, (K.svd p.2).2.1))⟩ 1)
    (fun b => (K.svd b).1.mulAxisK (K.svd b).2.1 1) hmd rfl rfl rfl
    (fun b => (K.svd b).1) (fun b => (K.svd b).2.2)
  refine ⟨y, hy, hyo, hyp, fun s off ha => ?_⟩
  apply elem_of_blocks_map_signed hv h2 y _ hyb hyp _ s off ha
  intro p hp i j hi' hj'
  obtain ⟨s0, b⟩ := p
  obtain ⟨r, c, m, n, B⟩ := mat_block hv hi hp
  obtain ⟨a1, _, _, _, a5, _⟩ := hK.svd b m n B.hshape B.hwf
  simp only [B.hshape, List.getD_cons_zero, List.getD_cons_succ] at hi' hj'
  have := signed_matmul_get (alookup x.phases s0 == some (-1))
    ((K.svd b).1.mulAxisK (K.svd b).2.1 1) (K.svd b).2.2 (by rw [mulAxisK_shape]; exact a1) a5 hi' hj'
  simp only at this ⊢
  rw [this, ← hC b m n B.hshape B.hwf i j hi' hj']
  have hfold : (List.range (min m n)).foldl (fun acc t =>
        acc + ((K.svd b).1.mulAxisK (K.svd b).2.1 1).get [i, t] * (K.svd b).2.2.get [t, j]) 0
      = (List.range (min m n)).foldl (fun acc t =>
        acc + ((K.svd b).1.get [i, t] * (K.svd b).2.1.get [t]) * (K.svd b).2.2.get [t, j]) 0 := by
    apply foldl_ext'
    intro acc t ht
    rw [mulAxisK_get _ _ a1 hi' (List.mem_range.mp ht)]
  rw [hfold]

/-- **all absorb options, no truncation.**  `U, s, VH` the svd factors of the fermionic matrix `x`
    (sorted labels, any pending signs): for `absorb ∈ {left, right, both}` the product `U' @ VH'`
    of the returned factors succeeds, carries `x`'s labels, no pending sign, `x`'s sectors, and
    `x`'s element at every address. -/
theorem svd_absorb_recon_fermi [CommRing R] {K : Kernels R} (hK : K.ShapeOk) (hC : K.SVDContract)
    {x : Arr R} (hv : x.validB = true) (h2 : x.ndim = 2) (hf : x.fermi = true)
    (hlab : SortedLabels x.oddpos) (sqrtK : Blk R → Blk R) (mode : Option Absorb)
    (hsq : mode = some .both → SqrtItems sqrtK x.blocks (fun p => (K.svd p.2).2.1)
      (fun p => min (p.2.shape.getD 0 0) (p.2.shape.getD 1 0))) :
    let U := leftF x (fun b => (K.svd b).1)
    let S : BVec R := ⟨x.blocks.map (fun p => (colOf p.1, (K.svd p.2).2.1))⟩
    let V := rightF x (fun b => (K.svd b).1) (fun b => (K.svd b).2.2)
    ∃ y, svdProduct mode sqrtK U S V = .ok y
      ∧ y.oddpos = x.oddpos ∧ y.phases = [] ∧ y.sectors = x.sectors
      ∧ ∀ s off, AddrOf x s off → y.elem s off = x.elem s off := by
  intro U S V
  obtain ⟨i0, i1, hi⟩ := ndim_two h2
  obtain ⟨y, hy, hyp, hyo, hys, _, _, _, _, he, hz⟩ := svdProduct_spec hv h2
    (aligned_svd (K := K) hv h2) (fun p hp => List.mem_map.mpr ⟨p, hp, rfl⟩) rfl hlab
    (rightF_rightOf hv h2 hf _ _) sqrtK
    (fun p => (p.2.shape.getD 0 0, min (p.2.shape.getD 0 0) (p.2.shape.getD 1 0), p.2.shape.getD 1 0))
    (svd_itemShape hK hv h2) mode hsq
  refine ⟨y, hy, hyo, hyp, hys, fun s off ha => ?_⟩
  rcases ha with hns | ⟨b, hm, hbox⟩
  · rw [hz s hns off]
    have h1 : alookup x.blocks s = none := (alookup_eq_none_iff _ _).mpr hns
    simp [Arr.elem, h1]
  · obtain ⟨r, c, m, n, B⟩ := mat_block hv hi hm
    rw [B.hshape] at hbox
    obtain ⟨i, j, rfl, hij⟩ := inBox_pair_elim hbox
    have := he (s, b) hm i j (by simpa [B.hshape] using hij.1) (by simpa [B.hshape] using hij.2)
    simp only [B.hshape, List.getD_cons_zero, List.getD_cons_succ] at this
    rw [this, hC b m n B.hshape B.hwf i j hij.1 hij.2, elem_of_mem (sectors_nodup hv) hm]
    rfl

/-! ### after truncation -/

section trunc
variable [CommRing R] {K : Kernels R} {x : Arr R} {counts : List Nat}

/-- the three truncated factors of `svd_truncated` before absorbing -/
abbrev tU (K : Kernels R) (x : Arr R) (counts : List Nat) : Arr R :=
  truncU x (fun b => (K.svd b).1) counts
abbrev tS (K : Kernels R) (x : Arr R) (counts : List Nat) : BVec R :=
  truncS x (fun b => (K.svd b).2.1) counts
abbrev tV (K : Kernels R) (x : Arr R) (counts : List Nat) : Arr R :=
  truncV x (fun b => (K.svd b).1) (fun b => (K.svd b).2.2) counts

/-- **all absorb options, after truncation.**  The product `U' @ VH'` of the truncated and absorbed
    factors succeeds, carries `x`'s labels, no pending sign, exactly the kept sectors, and on a
    kept block `((sec, b), c)` the entry `± Σ_{t < c} (u[i,t] · s[t]) · vh[t,j]` of the UNSLICED
    kernel factors of `b` (sign = `x`'s pending sign on `sec`); zero on every other sector. -/
theorem trunc_absorb_fermi (hK : K.ShapeOk) (hv : x.validB = true) (h2 : x.ndim = 2)
    (hf : x.fermi = true) (hlab : SortedLabels x.oddpos)
    (hlen : counts.length = x.blocks.length) (sqrtK : Blk R → Blk R) (mode : Option Absorb)
    (hsq : mode = some .both → SqrtItems sqrtK (kept x counts)
      (fun t => ((K.svd t.1.2).2.1).sliceK [0] [t.2]) (fun t => t.2)) :
    ∃ y, svdProduct mode sqrtK (tU K x counts) (tS K x counts) (tV K x counts) = .ok y
      ∧ y.oddpos = x.oddpos ∧ y.phases = []
      ∧ y.sectors = (kept x counts).map (fun t => t.1.1)
      ∧ (∀ t ∈ kept x counts, ∀ m n, t.1.2.shape = [m, n] → ∀ i j, i < m → j < n →
          y.elem t.1.1 [i, j]
            = (if alookup x.phases t.1.1 == some (-1) then
                - ∑ t' ∈ range t.2, ((K.svd t.1.2).1.get [i, t'] * (K.svd t.1.2).2.1.get [t'])
                    * (K.svd t.1.2).2.2.get [t', j]
               else ∑ t' ∈ range t.2, ((K.svd t.1.2).1.get [i, t'] * (K.svd t.1.2).2.1.get [t'])
                    * (K.svd t.1.2).2.2.get [t', j]))
      ∧ (∀ s, s ∉ (kept x counts).map (fun t => t.1.1) → ∀ off, y.elem s off = 0) := by
  obtain ⟨y, hy, hyp, hyo, hys, _, _, _, _, he, hz⟩ := svdProduct_spec hv h2
    (aligned_trunc (K := K) hv h2 hlen)
    (fun t ht => List.mem_map.mpr ⟨t.1, (kept_mem hlen ht).1, rfl⟩) rfl hlab
    (truncV_rightOf hv h2 hf _ _ counts) sqrtK
    (fun t => (t.1.2.shape.getD 0 0, t.2, t.1.2.shape.getD 1 0))
    (trunc_itemShape hK hv h2 hlen) mode hsq
  refine ⟨y, hy, hyo, hyp, hys, ?_, hz⟩
  intro t ht m n hs i j hi hj
  obtain ⟨hb, _, _⟩ := kept_mem hlen ht
  have hwf : t.1.2.wf = true := (((validB_iff x).mp hv).2.2.2.1 t.1.1 t.1.2 hb).2.2.2
  have hp := he t ht i j (by simpa [hs] using hi) (by simpa [hs] using hj)
  have hsum : (List.range t.2).foldl (fun acc t' => acc +
        ((((K.svd t.1.2).1).sliceK [0, 0] [((K.svd t.1.2).1).shape.getD 0 0, t.2]).get [i, t']
          * (((K.svd t.1.2).2.1).sliceK [0] [t.2]).get [t'])
        * (((K.svd t.1.2).2.2).sliceK [0, 0] [t.2, ((K.svd t.1.2).2.2).shape.getD 1 0]).get [t', j]) 0
      = ∑ t' ∈ range t.2,
        ((K.svd t.1.2).1.get [i, t'] * (K.svd t.1.2).2.1.get [t']) * (K.svd t.1.2).2.2.get [t', j] := by
    obtain ⟨a1, _, _, _, a5, _⟩ := hK.svd t.1.2 m n hs hwf
    rw [← foldl_eq_sum]
    apply foldl_ext'
    intro acc t' ht'
    have ht'' := List.mem_range.mp ht'
    rw [a1, a5]
    simp only [List.getD_cons_zero, List.getD_cons_succ]
    rw [sliceK00_get _ hi ht'', sliceK0_get _ ht'', sliceK00_get _ ht'' hj]
  simp only at hp
  rw [hp, hsum]
  rfl

/-- **value level: input minus the discarded part.**  Under the svd value contract, on a kept
    block the difference `x − U'@VH'` is exactly `± Σ_{c ≤ t < min m n} (u[i,t]·s[t])·vh[t,j]`. -/
theorem trunc_diff_fermi (hC : K.SVDContract) (hv : x.validB = true)
    (hlen : counts.length = x.blocks.length) {y : Arr R}
    {t : (Sector × Blk R) × Nat} (ht : t ∈ kept x counts) {m n : Nat} (hs : t.1.2.shape = [m, n])
    (hc : t.2 ≤ min m n) {i j : Nat} (hi : i < m) (hj : j < n)
    (hy : y.elem t.1.1 [i, j]
            = (if alookup x.phases t.1.1 == some (-1) then
                - ∑ t' ∈ range t.2, ((K.svd t.1.2).1.get [i, t'] * (K.svd t.1.2).2.1.get [t'])
                    * (K.svd t.1.2).2.2.get [t', j]
               else ∑ t' ∈ range t.2, ((K.svd t.1.2).1.get [i, t'] * (K.svd t.1.2).2.1.get [t'])
                    * (K.svd t.1.2).2.2.get [t', j])) :
    x.elem t.1.1 [i, j] - y.elem t.1.1 [i, j]
      = (if alookup x.phases t.1.1 == some (-1) then
          - ∑ t' ∈ Ico t.2 (min m n), ((K.svd t.1.2).1.get [i, t'] * (K.svd t.1.2).2.1.get [t'])
              * (K.svd t.1.2).2.2.get [t', j]
         else ∑ t' ∈ Ico t.2 (min m n), ((K.svd t.1.2).1.get [i, t'] * (K.svd t.1.2).2.1.get [t'])
              * (K.svd t.1.2).2.2.get [t', j]) := by
  obtain ⟨hb, _, _⟩ := kept_mem hlen ht
  have hwf : t.1.2.wf = true := (((validB_iff x).mp hv).2.2.2.1 t.1.1 t.1.2 hb).2.2.2
  have hxe := elem_of_mem (sectors_nodup hv) hb [i, j]
  have hfull := hC t.1.2 m n hs hwf i j hi hj
  rw [foldl_eq_sum] at hfull
  rw [hy, hxe, ← hfull, sum_Ico_eq_sub _ hc]
  split
  · ring
  · rfl

/-- **truncation error, fermionic product.**  On a kept block whose kernel factors are
    orthonormal, the squared norm of `x − U'@VH'` is the discarded squared weight. -/
theorem trunc_error_fermi (conj : R →+* R) (hC : K.SVDContract) (hv : x.validB = true)
    (hlen : counts.length = x.blocks.length) {y : Arr R}
    {t : (Sector × Blk R) × Nat} (ht : t ∈ kept x counts) {m n : Nat} (hs : t.1.2.shape = [m, n])
    (hO : K.OrthoBlock conj t.1.2) (hc : t.2 ≤ min m n)
    (hy : ∀ i j, i < m → j < n → y.elem t.1.1 [i, j]
            = (if alookup x.phases t.1.1 == some (-1) then
                - ∑ t' ∈ range t.2, ((K.svd t.1.2).1.get [i, t'] * (K.svd t.1.2).2.1.get [t'])
                    * (K.svd t.1.2).2.2.get [t', j]
               else ∑ t' ∈ range t.2, ((K.svd t.1.2).1.get [i, t'] * (K.svd t.1.2).2.1.get [t'])
                    * (K.svd t.1.2).2.2.get [t', j])) :
    ∑ i ∈ range m, ∑ j ∈ range n,
        conj (x.elem t.1.1 [i, j] - y.elem t.1.1 [i, j])
          * (x.elem t.1.1 [i, j] - y.elem t.1.1 [i, j])
      = ∑ t' ∈ Ico t.2 (min m n), conj ((K.svd t.1.2).2.1.get [t']) * (K.svd t.1.2).2.1.get [t'] := by
  obtain ⟨hb, _, _⟩ := kept_mem hlen ht
  have hwf : t.1.2.wf = true := (((validB_iff x).mp hv).2.2.2.1 t.1.1 t.1.2 hb).2.2.2
  have hxe : ∀ i j, x.elem t.1.1 [i, j]
      = if alookup x.phases t.1.1 == some (-1) then - t.1.2.get [i, j] else t.1.2.get [i, j] :=
    fun i j => elem_of_mem (sectors_nodup hv) hb [i, j]
  have hkey := truncation_error_block conj hC hs hwf hO hc
    (fun i j => ∑ t' ∈ range t.2,
      ((K.svd t.1.2).1.get [i, t'] * (K.svd t.1.2).2.1.get [t']) * (K.svd t.1.2).2.2.get [t', j])
    (fun i j _ _ => rfl)
  rw [← hkey]
  apply sum_congr rfl
  intro i hi
  apply sum_congr rfl
  intro j hj
  rw [hy i j (mem_range.mp hi) (mem_range.mp hj), hxe]
  split
  · rw [← neg_sub', map_neg]; ring
  · rfl

end trunc

end ReconP
end SymmModel
