/-
  SymmModel.Proofs.Recon2Modes — reconstruction of a matrix from its `qr`/`svd` factors through
  `tensordot` in every contraction mode:
    * fermionic arrays, `Arr.tensordotF` blockwise (`Recon2Core.tdotF_factors`), then
      `mode = fused / auto` by `C06.tensordotF_modes_agree`;
    * abelian arrays, `tensordotA` in `fused / auto` mode for any shape-correct factor pair
      (generalises the qr case of Props/C11d.lean), in particular `U·diag(s)`, `VH`.
  Namespace `SymmModel.Recon2P`.  Nothing here changes a model definition.
-/
import SymmModel.Proofs.Recon2Core

namespace SymmModel
namespace Recon2P
set_option linter.unusedSectionVars false
open LinalgLemmas ReconP TdotP GradedP RoutesP OddposP
open Lazy (sgnI)

variable {R : Type}

/-! ### `U · diag(s)` is a left factor -/

/-- the left svd factor with the singular values multiplied in -/
abbrev usOf (K : Kernels R) [Zero R] [Mul R] (b : Blk R) : Blk R :=
  (K.svd b).1.mulAxisK (K.svd b).2.1 1

theorem facShape_us [Zero R] [Mul R] {K : Kernels R} (hK : K.ShapeOk) :
    FacShape (usOf K) (fun b => (K.svd b).2.2) := by
  intro b m n h1 h2
  obtain ⟨a1, _, _, _, a5, a6⟩ := hK.svd b m n h1 h2
  exact ⟨by rw [mulAxisK_shape]; exact a1, ofFn_wf _ _, a5, a6⟩

theorem bondIx_us [Zero R] [Mul R] (K : Kernels R) (x : Arr R) :
    bondIx x (usOf K) = bondIx x (fun b => (K.svd b).1) := rfl

theorem rightF_us [Zero R] [Mul R] (K : Kernels R) (x : Arr R) :
    rightF x (usOf K) (fun b => (K.svd b).2.2)
      = rightF x (fun b => (K.svd b).1) (fun b => (K.svd b).2.2) := rfl

/-- `U.multiply_diagonal(s, 1)` for the svd factors of a valid matrix is the left factor built
    from the blocks `u · diag(s)` -/
theorem multiplyDiagonal_us [Zero R] [Mul R] (K : Kernels R) {x : Arr R} (hv : x.validB = true)
    (h2 : x.ndim = 2) :
    multiplyDiagonal (leftF x (fun b => (K.svd b).1))
        ⟨x.blocks.map (fun p => (colOf p.1, (K.svd p.2).2.1))⟩ 1
      = leftF x (usOf K) := by
  have hmd := multiplyDiagonal_blocks hv h2 (fun b => (K.svd b).1) (fun b => (K.svd b).2.1)
    (leftF x (fun b => (K.svd b).1)) ⟨x.blocks.map (fun p => (colOf p.1, (K.svd p.2).2.1))⟩ rfl rfl
  have e : multiplyDiagonal (leftF x (fun b => (K.svd b).1))
        ⟨x.blocks.map (fun p => (colOf p.1, (K.svd p.2).2.1))⟩ 1
      = { leftF x (fun b => (K.svd b).1) with
          blocks := (multiplyDiagonal (leftF x (fun b => (K.svd b).1))
            ⟨x.blocks.map (fun p => (colOf p.1, (K.svd p.2).2.1))⟩ 1).blocks } := rfl
  rw [e, hmd]
  rfl

/-! ### fermionic: `tensordot_fermionic`, every mode -/

section fermi
variable [AddCommMonoid R] [Mul R] [Neg R] [SignRing R] {x : Arr R} {L Rt : Blk R → Blk R}

/-- from the per-block value to the value view of `x` -/
theorem recon_of_factors (hv : x.validB = true) (h2 : x.ndim = 2) (c : Arr R)
    (hsec : c.sectors = x.sectors)
    (hval : ∀ s b, (s, b) ∈ x.blocks → ∀ m n, b.shape = [m, n] → ∀ i j, i < m → j < n →
      c.elem s [i, j] = sgnI (if alookup x.phases s == some (-1) then -1 else 1) (b.get [i, j]))
    (s : Sector) (off : List Nat) (ha : AddrOf x s off) : c.elem s off = x.elem s off := by
  obtain ⟨i0, i1, hi⟩ := ndim_two h2
  rcases ha with hns | ⟨b, hm, hbox⟩
  · have h1 : alookup x.blocks s = none := (LinalgLemmas.alookup_eq_none_iff _ _).mpr hns
    have h2' : alookup c.blocks s = none := by
      rw [LinalgLemmas.alookup_eq_none_iff]; show s ∉ c.sectors; rw [hsec]; exact hns
    simp [Arr.elem, h1, h2']
  · obtain ⟨r, c', m, n, B⟩ := mat_block hv hi hm
    rw [B.hshape] at hbox
    obtain ⟨i, j, rfl, hij⟩ := inBox_pair_elim hbox
    rw [hval s b hm m n B.hshape i j hij.1 hij.2, elem_of_mem (sectors_nodup hv) hm]
    unfold sgnI
    split <;> simp

/-- **blockwise.**  If the block maps reproduce every block (`Σ_t L(b)[i,t]·Rt(b)[t,j] = b[i,j]`),
    `tensordot_fermionic(left, right, ([1],[0]), mode="blockwise")` IS `x`. -/
theorem tdotF_recon_blockwise (hv : x.validB = true) (h2 : x.ndim = 2) (hf : x.fermi = true)
    (hlab : SortedLabels x.oddpos) (hL : FacShape L Rt)
    (hC : ∀ b m n, b.shape = [m, n] → b.wf = true → ∀ i j, i < m → j < n →
      (List.range (min m n)).foldl (fun acc t => acc + (L b).get [i, t] * (Rt b).get [t, j]) 0
        = b.get [i, j]) :
    ∃ c, (leftF x L).tensordotF (rightF x L Rt) (.pair [1] [0]) .blockwise = .ok c
      ∧ c.oddpos = x.oddpos ∧ c.phases = [] ∧ c.sectors = x.sectors
      ∧ (∀ p ∈ c.blocks, p.2.shape = Arr.blockShapeD x.indices p.1)
      ∧ ∀ s off, AddrOf x s off → c.elem s off = x.elem s off := by
  obtain ⟨c, h1, h2', h3, h4, _, _, h7, h8⟩ := tdotF_factors (L := L) (Rt := Rt) hv h2 hf hlab hL
  refine ⟨c, h1, h3, h2', h4, h7, recon_of_factors hv h2 c h4 ?_⟩
  intro s b hm m n hs i j hi hj
  have hwf : b.wf = true := (((validB_iff x).mp hv).2.2.2.1 s b hm).2.2.2
  rw [h8 s b hm m n hs i j hi hj, hC b m n hs hwf i j hi hj]

/-- **fused / auto.**  The same call in `mode="fused"` or `mode="auto"` succeeds, carries `x`'s
    labels, stores every sector of `x`, and at every address of `x` inside a stored block of the
    result has `x`'s element (pending sign included). -/
theorem tdotF_recon_modes (hz1 : ∀ x : R, 0 * x = 0) (hz2 : ∀ x : R, x * 0 = 0)
    (hv : x.validB = true) (h2 : x.ndim = 2) (hf : x.fermi = true)
    (hlab : SortedLabels x.oddpos) (hL : FacShape L Rt)
    (hC : ∀ b m n, b.shape = [m, n] → b.wf = true → ∀ i j, i < m → j < n →
      (List.range (min m n)).foldl (fun acc t => acc + (L b).get [i, t] * (Rt b).get [t, j]) 0
        = b.get [i, j])
    (mode : TdotMode) (hmode : mode = .fused ∨ mode = .auto) :
    ∃ c, (leftF x L).tensordotF (rightF x L Rt) (.pair [1] [0]) mode = .ok c
      ∧ c.oddpos = x.oddpos ∧ c.sym = x.sym ∧ c.fermi = x.fermi
      ∧ (∀ s ∈ x.sectors, s ∈ c.sectors)
      ∧ ∀ s V, alookup c.blocks s = some V → ∀ off, inBox V.shape off = true → AddrOf x s off →
          c.elem s off = x.elem s off := by
  obtain ⟨rb, hb, b1, _, b3, _, b5⟩ := tdotF_recon_blockwise (L := L) (Rt := Rt) hv h2 hf hlab hL hC
  have hA := adm_factors (L := L) (Rt := Rt) hv h2 hf hL
  have hmerge : mergeOddpos (leftF x L).parity (leftF x L).oddpos (rightF x L Rt).oddpos
      = .ok (x.oddpos, 1) := by
    rw [rightF_fields.2.2.2.2.2]
    exact merge_left_sorted _ _ hlab
  obtain ⟨rm, rb', hm, hb', f1, _, f3, f4, _, hsec, hel⟩ :=
    (C06.tensordotF_modes_agree hz1 hz2 (leftF x L) (rightF x L Rt) [1] [0] hA (by decide)
      (by rw [leftF_ndim]; decide) (by rw [rightF_ndim]; decide) mode hmode).2 _ hmerge
  have e : rb' = rb := Except.ok.inj (hb'.symm.trans hb)
  subst e
  obtain ⟨rb2, hb2, _, _, _, g1, g2, _, _⟩ := tdotF_factors (L := L) (Rt := Rt) hv h2 hf hlab hL
  have e2 : rb2 = rb' := Except.ok.inj (hb2.symm.trans hb)
  subst e2
  refine ⟨rm, hm, f1.trans b1, f3.trans g1, f4.trans g2, fun s hs => hsec s (by rw [b3]; exact hs), ?_⟩
  intro s V hl off hbox ha
  rw [hel s V hl off hbox]
  exact b5 s off ha

end fermi

/-! ### abelian: `tensordot_abelian` in fused / auto mode -/

section abelian
variable [AddCommMonoid R] [Mul R] [Neg R] {x : Arr R} {L Rt : Blk R → Blk R}

/-- for a valid abelian matrix with at least one block and any shape-correct factor pair,
    `tensordot(left, right, ([1],[0]))` in fused and auto mode succeeds with the same result, which
    stores every sector of `x` and has the element of the blockwise product at every stored
    address -/
theorem tdotA_factors_modes (hz1 : ∀ x : R, 0 * x = 0) (hz2 : ∀ x : R, x * 0 = 0)
    (hv : x.validB = true) (h2 : x.ndim = 2) (hf : x.fermi = false) (hne : x.blocks ≠ [])
    (hL : FacShape L Rt) :
    ∃ c, tensordotA (leftF x L) (rightF x L Rt) (.pair [1] [0]) .fused = .ok c
      ∧ tensordotA (leftF x L) (rightF x L Rt) (.pair [1] [0]) .auto = .ok c
      ∧ (∀ s ∈ x.sectors, s ∈ c.sectors)
      ∧ ∀ s V, alookup c.blocks s = some V → ∀ off, inBox V.shape off = true →
          c.elem s off = (tensordotBlockwise (leftF x L) (rightF x L Rt) [0] [1] [0] [1]).elem s off := by
  obtain ⟨i0, i1, hi⟩ := ndim_two h2
  have hS := C11.bondSpec_factors hv h2 hL
  have hqn : (leftF x L).ndim = 2 := rfl
  have hrn : (rightF x L Rt).ndim = 2 := rightF_ndim
  have hparse : parseAxes (leftF x L).ndim (rightF x L Rt).ndim (.pair [1] [0])
      = .ok ([1], [0]) := by rw [hqn, hrn]; rfl
  obtain ⟨c, bw, e1, e2, e3, _, _, _, _, _, _, hsec, hval⟩ := C06.tensordotA_modes_agree hz1 hz2
    (leftF x L) (rightF x L Rt) (.pair [1] [0]) [1] [0] hparse
    (leftF_valid hv h2 hi hL) (rightF_valid hv h2 hi hL)
    hf (hS.right_rest.2.1.trans hf) hS.right_rest.1.symm
    (by
      unfold ValidP.contractibleB
      rw [hS.left_indices, hS.right_indices]
      simp [hS.opposite.1, hS.opposite.2])
    (by decide) (by decide) (by intro a ha; simp at ha; subst ha; rw [hqn]; decide)
    (by intro a ha; simp at ha; subst ha; rw [hrn]; decide)
    (by decide) (by rw [hqn]; decide) (by rw [hrn]; decide)
    (C11.factors_aligned_nonempty hv h2 hne _ _)
  have hbw : bw = tensordotBlockwise (leftF x L) (rightF x L Rt) [0] [1] [0] [1] := by
    have := TdotP.tensordotA_blockwise_ok (leftF x L) (rightF x L Rt) (.pair [1] [0]) [1] [0] hparse
    rw [e3] at this
    have h' := Except.ok.inj this
    rw [h', hqn, hrn]
    rfl
  subst hbw
  have hbs : (tensordotBlockwise (leftF x L) (rightF x L Rt) [0] [1] [0] [1]).sectors = x.sectors := by
    have := tdot_blocks_aligned hv h2 (fun p => L p.2) (fun p => Rt p.2)
      (leftF x L) (rightF x L Rt) rfl rightF_fields.2.2.2.2.1
    simp [Arr.sectors, this, List.map_map, Function.comp_def]
  exact ⟨c, e1, e2, fun s hs => hsec s (by rw [hbs]; exact hs), hval⟩

end abelian

end Recon2P
end SymmModel
