/-
  SymmModel.Proofs.Recon3Trunc — the factors of `svd` / `svd_truncated`, for every `absorb` option,
  are an aligned `Recon3P.Pair`; their `tensordot_fermionic` product in every contraction mode.
  Namespace `SymmModel.Recon3P`.  Nothing here changes a model definition.
-/
import SymmModel.Proofs.Recon3Core

namespace SymmModel
namespace Recon3P
set_option linter.unusedSectionVars false
open LinalgLemmas ReconP Recon2P TdotP GradedP RoutesP OddposP
open Lazy (sgnI)

variable {R : Type}

/-! ### replacing the blocks of a valid array by blocks of the same shapes -/

theorem valid_withBlocks {a : Arr R} (hv : a.validB = true) {α : Type} (l : List α)
    (key : α → Sector) (f g : α → Blk R) (ha : a.blocks = l.map (fun p => (key p, f p)))
    (hg : ∀ p ∈ l, (g p).shape = (f p).shape ∧ (g p).wf = true) :
    ({ a with blocks := l.map (fun p => (key p, g p)) } : Arr R).validB = true := by
  obtain ⟨h1, h2, h3, h4, h5⟩ := (validB_iff a).mp hv
  refine (validB_iff _).mpr ⟨h1, h2, ?_, ?_, ?_⟩
  · have : ({ a with blocks := l.map (fun p => (key p, g p)) } : Arr R).sectors = a.sectors := by
      simp [Arr.sectors, ha, List.map_map, Function.comp_def]
    rw [this]; exact h3
  · intro s b' hm
    obtain ⟨p, hp, e⟩ := List.mem_map.mp hm
    have e1 := (Prod.mk.inj e).1; have e2 := (Prod.mk.inj e).2
    subst e1 e2
    obtain ⟨g1, g2, g3, _⟩ := h4 (key p) (f p) (by rw [ha]; exact List.mem_map.mpr ⟨p, hp, rfl⟩)
    refine ⟨g1, ?_, ?_, (hg p hp).2⟩
    · rw [← g2]; exact isValidSector_congr rfl rfl rfl _
    · rw [(hg p hp).1]; exact g3
  · rw [← h5]; exact fermiOk_congr rfl rfl rfl rfl rfl rfl

/-! ### aligned factors with the singular values absorbed form a `Pair` -/

theorem pair_of_aligned [Zero R] [Mul R] {x : Arr R} {α : Type} {l : List α} {sec : α → Sector}
    {ub sb vb : α → Blk R} {u : Arr R} {sv : BVec R} {vh : Arr R}
    (A : Aligned l sec ub sb vb u sv vh) (hvu : u.validB = true) (hvv : vh.validB = true)
    (hfu : u.fermi = true) (hfv : vh.fermi = true) (hsu : u.sym = x.sym) (RO : RightOf x vh)
    (hidx : ∃ J j0, u.indices = [x.indices.getD 0 default, J]
      ∧ vh.indices = [j0, x.indices.getD 1 default]
      ∧ J.cm = j0.cm ∧ J.dual = (x.indices.getD 1 default).dual)
    (hpu : u.phases = x.phases) (hou : u.oddpos = x.oddpos) (hin : ∀ p ∈ l, sec p ∈ x.sectors)
    (dims : α → Nat × Nat × Nat)
    (hsh : ∀ p ∈ l, ItemShape (ub p) (sb p) (vb p) (dims p).1 (dims p).2.1 (dims p).2.2)
    (mode : Absorb) (sqrtK : Blk R → Blk R) :
    Pair x l sec (fun p => absU mode sqrtK (ub p) (sb p)) (fun p => absV mode sqrtK (vb p) (sb p))
      dims (absorbA mode sqrtK u sv vh).1 (absorbA mode sqrtK u sv vh).2 := by
  rw [absorbA_eq A mode sqrtK]
  have hwfU : ∀ p ∈ l, (ub p).wf = true := fun p hp =>
    (((validB_iff u).mp hvu).2.2.2.1 (sec p) (ub p)
      (by rw [A.hu]; exact List.mem_map.mpr ⟨p, hp, rfl⟩)).2.2.2
  have hwfV : ∀ p ∈ l, (vb p).wf = true := fun p hp =>
    (((validB_iff vh).mp hvv).2.2.2.1 _ (vb p)
      (by rw [A.hv]; exact List.mem_map.mpr ⟨p, hp, rfl⟩)).2.2.2
  refine ⟨?_, ?_, hfu, hfv, hsu, RO.withBlocks _, hidx, hpu, hou, rfl, rfl, hin, A.hsec, A.hcol, ?_⟩
  · apply valid_withBlocks hvu l sec ub _ A.hu
    intro p hp
    refine ⟨absU_shape _ _ _ _, ?_⟩
    cases mode with
    | left => exact ofFn_wf _ _
    | right => exact hwfU p hp
    | both => exact ofFn_wf _ _
  · apply valid_withBlocks hvv l (fun p => diagOf (sec p)) vb _ A.hv
    intro p hp
    refine ⟨absV_shape _ _ _ _, ?_⟩
    cases mode with
    | left => exact hwfV p hp
    | right => exact ofFn_wf _ _
    | both => exact ofFn_wf _ _
  · intro p hp
    obtain ⟨s1, _, s3⟩ := hsh p hp
    exact ⟨by rw [absU_shape]; exact s1, by rw [absV_shape]; exact s3⟩

/-! ### every contraction mode -/

/-- what the caller contracts, through `tensordot`, for the four values of `absorb` -/
def svdTensordot [Zero R] [Add R] [Mul R] [Neg R] (mode : Option Absorb) (tm : TdotMode)
    (sqrtK : Blk R → Blk R) (u : Arr R) (sv : BVec R) (vh : Arr R) : Except Err (Arr R) :=
  match mode with
  | none => (multiplyDiagonal u sv 1).tensordotF vh (.pair [1] [0]) tm
  | some m => (absorbA m sqrtK u sv vh).1.tensordotF (absorbA m sqrtK u sv vh).2 (.pair [1] [0]) tm

theorem svdTensordot_eq [Zero R] [Add R] [Mul R] [Neg R] {α : Type} {l : List α}
    {sec : α → Sector} {ub sb vb : α → Blk R} {u : Arr R} {sv : BVec R} {vh : Arr R}
    (A : Aligned l sec ub sb vb u sv vh) (sqrtK : Blk R → Blk R) (mode : Option Absorb)
    (tm : TdotMode) :
    svdTensordot mode tm sqrtK u sv vh
      = (absorbA (modeOf mode) sqrtK u sv vh).1.tensordotF (absorbA (modeOf mode) sqrtK u sv vh).2
          (.pair [1] [0]) tm := by
  cases mode with
  | none =>
    show (multiplyDiagonal u sv 1).tensordotF vh _ _ = _
    simp only [modeOf]
    rw [absorb_left_eq A sqrtK]
  | some m => rfl

section modes
variable [AddCommMonoid R] [Mul R] [Neg R] [SignRing R] {x : Arr R} {α : Type} {l : List α}
  {sec : α → Sector} {fA fB : α → Blk R} {dims : α → Nat × Nat × Nat} {A B : Arr R}

/-- **an aligned pair, every contraction mode.**  `tensordot_fermionic(A, B, ([1],[0]), mode)`
    succeeds, carries `x`'s labels, stores every item sector, has the entry
    `± Σ_t fA[i,t]·fB[t,j]` (pending sign of `x`) at every offset of every item's box and `0` at
    every table address of every other sector. -/
theorem tdotF_pair_any_mode (hz1 : ∀ x : R, 0 * x = 0) (hz2 : ∀ x : R, x * 0 = 0)
    (hv : x.validB = true) (h2 : x.ndim = 2) (hf : x.fermi = true)
    (hlab : SortedLabels x.oddpos) (P : Pair x l sec fA fB dims A B) (tm : TdotMode) :
    ∃ c, A.tensordotF B (.pair [1] [0]) tm = .ok c
      ∧ c.oddpos = x.oddpos ∧ (∀ s ∈ l.map sec, s ∈ c.sectors)
      ∧ (tm = .blockwise → c.phases = [] ∧ c.sectors = l.map sec)
      ∧ (∀ p ∈ l, ∀ i j, i < (dims p).1 → j < (dims p).2.2 →
          c.elem (sec p) [i, j]
            = sgnI (if alookup x.phases (sec p) == some (-1) then -1 else 1)
                ((List.range (dims p).2.1).foldl
                  (fun acc t => acc + (fA p).get [i, t] * (fB p).get [t, j]) 0))
      ∧ (∀ s, s ∉ l.map sec → ∀ off, inBox (Arr.blockShapeD x.indices s) off = true →
          c.elem s off = 0) := by
  obtain ⟨rb, hb, b1, b2, b3, _, _, b6, b7⟩ := tdotF_pair hv h2 hf hlab P
  have hzero : ∀ s, s ∉ l.map sec → ∀ off, rb.elem s off = 0 := by
    intro s hs off
    have : alookup rb.blocks s = none := by
      rw [LinalgLemmas.alookup_eq_none_iff]; show s ∉ rb.sectors; rw [b3]; exact hs
    simp only [Arr.elem, this]
  have hblock : ∃ c, A.tensordotF B (.pair [1] [0]) .blockwise = .ok c
      ∧ c.oddpos = x.oddpos ∧ (∀ s ∈ l.map sec, s ∈ c.sectors)
      ∧ (c.phases = [] ∧ c.sectors = l.map sec)
      ∧ (∀ p ∈ l, ∀ i j, i < (dims p).1 → j < (dims p).2.2 →
          c.elem (sec p) [i, j]
            = sgnI (if alookup x.phases (sec p) == some (-1) then -1 else 1)
                ((List.range (dims p).2.1).foldl
                  (fun acc t => acc + (fA p).get [i, t] * (fB p).get [t, j]) 0))
      ∧ (∀ s, s ∉ l.map sec → ∀ off, inBox (Arr.blockShapeD x.indices s) off = true →
          c.elem s off = 0) :=
    ⟨rb, hb, b2, fun s hs => by rw [b3]; exact hs, ⟨b1, b3⟩, b7, fun s hs off _ => hzero s hs off⟩
  have hfa : ∀ m : TdotMode, (m = .fused ∨ m = .auto) →
      ∃ c, A.tensordotF B (.pair [1] [0]) m = .ok c
        ∧ c.oddpos = x.oddpos ∧ (∀ s ∈ l.map sec, s ∈ c.sectors)
        ∧ (∀ p ∈ l, ∀ i j, i < (dims p).1 → j < (dims p).2.2 →
            c.elem (sec p) [i, j]
              = sgnI (if alookup x.phases (sec p) == some (-1) then -1 else 1)
                  ((List.range (dims p).2.1).foldl
                    (fun acc t => acc + (fA p).get [i, t] * (fB p).get [t, j]) 0))
        ∧ (∀ s, s ∉ l.map sec → ∀ off, inBox (Arr.blockShapeD x.indices s) off = true →
            c.elem s off = 0) := by
    intro m hm
    obtain ⟨J, j0, hA1, hB1, _, _⟩ := P.idx
    obtain ⟨i0, i1, hi⟩ := ndim_two h2
    have hidx : without A.indices [1] ++ without B.indices [0] = x.indices := by
      rw [hA1, hB1, hi]; rfl
    have hmerge : mergeOddpos A.parity A.oddpos B.oddpos = .ok (x.oddpos, 1) := by
      rw [P.ro.hodd, P.oa]; exact merge_left_sorted _ _ hlab
    obtain ⟨rm, rb', hm1, hb', _⟩ :=
      (C06.tensordotF_modes_agree_shapes hz1 hz2 A B [1] [0] P.adm m hm).2 _ hmerge
    obtain ⟨rb'', hb'', f1, _, _, _, _, hsec, hel⟩ :=
      C06.tensordotF_to_blockwise' hz1 hz2 A B rm [1] [0] P.adm m hm hm1
    have e : rb'' = rb := Except.ok.inj (hb''.symm.trans hb)
    subst e
    rw [hidx] at hel
    refine ⟨rm, hm1, f1.trans b2, fun s hs => hsec s (by rw [b3]; exact hs), ?_, ?_⟩
    · intro p hp i j hi' hj'
      have htab : inBox (Arr.blockShapeD x.indices (sec p)) [i, j] = true := by
        obtain ⟨s1, s3⟩ := P.hsh p hp
        have hAsh : Arr.blockShape? A.indices (sec p) = some (fA p).shape :=
          (((validB_iff A).mp P.va).2.2.2.1 (sec p) (fA p)
            (by rw [P.ba]; exact List.mem_map.mpr ⟨p, hp, rfl⟩)).2.2.1
        have hBsh : Arr.blockShape? B.indices (diagOf (sec p)) = some (fB p).shape :=
          (((validB_iff B).mp P.vb).2.2.2.1 _ (fB p)
            (by rw [P.bb]; exact List.mem_map.mpr ⟨p, hp, rfl⟩)).2.2.1
        obtain ⟨r, c, hrc⟩ := length_two (P.len2 hv h2 (sec p) (List.mem_map.mpr ⟨p, hp, rfl⟩))
        have hdg : diagOf (sec p) = [c, c] := by simp [diagOf, colOf, hrc]
        rw [hA1, hrc, s1] at hAsh
        rw [hB1, hdg, s3] at hBsh
        obtain ⟨m', k', e1, _, e3⟩ := (blockShape?_pair _ _ r c _).mp hAsh
        obtain ⟨k'', n', _, e5, e6⟩ := (blockShape?_pair _ _ c c _).mp hBsh
        have hm' : m' = (dims p).1 := (List.cons.inj e3).1.symm
        have hn' : n' = (dims p).2.2 := (List.cons.inj (List.cons.inj e6).2).1.symm
        have hi0 : x.indices.getD 0 default = i0 := by simp [hi]
        have hi1 : x.indices.getD 1 default = i1 := by simp [hi]
        rw [hi0] at e1; rw [hi1] at e5
        unfold Arr.blockShapeD
        rw [hi, hrc, (blockShape?_pair i0 i1 r c [m', n']).mpr ⟨m', n', e1, e5, rfl⟩, hm', hn']
        exact (inBox_pair _ _ i j).mpr ⟨hi', hj'⟩
      rw [hel (sec p) [i, j] htab]
      exact b7 p hp i j hi' hj'
    · intro s hs off hoff
      rw [hel s off hoff]
      exact hzero s hs off
  cases tm with
  | blockwise =>
    obtain ⟨c, h1, h2', h3, h4, h5, h6⟩ := hblock
    exact ⟨c, h1, h2', h3, fun _ => h4, h5, h6⟩
  | fused =>
    obtain ⟨c, h1, h2', h3, h5, h6⟩ := hfa .fused (Or.inl rfl)
    exact ⟨c, h1, h2', h3, (fun h => by cases h), h5, h6⟩
  | auto =>
    obtain ⟨c, h1, h2', h3, h5, h6⟩ := hfa .auto (Or.inr rfl)
    exact ⟨c, h1, h2', h3, (fun h => by cases h), h5, h6⟩

end modes

/-! ### the svd factors and the truncated factors are aligned pairs, for every `absorb` -/

theorem withCm_cm (i : Index) (c : List (Charge × Nat)) : (i.withCm c).cm = Index.sortCm c := by
  cases i; rfl

section inst
variable [Zero R] [Mul R] {K : Kernels R} {x : Arr R}

theorem svd_pair (hK : K.ShapeOk) (hv : x.validB = true) (h2 : x.ndim = 2) (hf : x.fermi = true)
    (mode : Absorb) (sqrtK : Blk R → Blk R) :
    Pair x x.blocks (fun p => p.1)
      (fun p => absU mode sqrtK (K.svd p.2).1 (K.svd p.2).2.1)
      (fun p => absV mode sqrtK (K.svd p.2).2.2 (K.svd p.2).2.1)
      (fun p => (p.2.shape.getD 0 0, min (p.2.shape.getD 0 0) (p.2.shape.getD 1 0), p.2.shape.getD 1 0))
      (absorbA mode sqrtK (leftF x (fun b => (K.svd b).1))
        ⟨x.blocks.map (fun p => (colOf p.1, (K.svd p.2).2.1))⟩
        (rightF x (fun b => (K.svd b).1) (fun b => (K.svd b).2.2))).1
      (absorbA mode sqrtK (leftF x (fun b => (K.svd b).1))
        ⟨x.blocks.map (fun p => (colOf p.1, (K.svd p.2).2.1))⟩
        (rightF x (fun b => (K.svd b).1) (fun b => (K.svd b).2.2))).2 := by
  obtain ⟨i0, i1, hi⟩ := ndim_two h2
  have hi1 : x.indices.getD 1 default = i1 := by simp [hi]
  apply pair_of_aligned (x := x) (aligned_svd (K := K) hv h2) (leftF_valid hv h2 hi (C11.facShape_svd hK))
    (rightF_valid hv h2 hi (C11.facShape_svd hK)) hf (rightF_fields.2.1.trans hf) rfl
    (rightF_rightOf hv h2 hf _ _)
    ⟨bondIx x (fun b => (K.svd b).1), (bondIx x (fun b => (K.svd b).1)).conj, rfl,
      rightF_fields.2.2.1, (conj_cm _).symm, by rw [bondIx_eq hi, hi1]; rfl⟩
    rfl rfl (fun p hp => List.mem_map.mpr ⟨p, hp, rfl⟩) _ (svd_itemShape hK hv h2)

theorem trunc_pair (hK : K.ShapeOk) (hv : x.validB = true) (h2 : x.ndim = 2) (hf : x.fermi = true)
    {counts : List Nat} (hlen : counts.length = x.blocks.length)
    (mode : Absorb) (sqrtK : Blk R → Blk R) :
    Pair x (kept x counts) (fun t => t.1.1)
      (fun t => absU mode sqrtK
        (((K.svd t.1.2).1).sliceK [0, 0] [((K.svd t.1.2).1).shape.getD 0 0, t.2])
        (((K.svd t.1.2).2.1).sliceK [0] [t.2]))
      (fun t => absV mode sqrtK
        (((K.svd t.1.2).2.2).sliceK [0, 0] [t.2, ((K.svd t.1.2).2.2).shape.getD 1 0])
        (((K.svd t.1.2).2.1).sliceK [0] [t.2]))
      (fun t => (t.1.2.shape.getD 0 0, t.2, t.1.2.shape.getD 1 0))
      (absorbA mode sqrtK (truncU x (fun b => (K.svd b).1) counts)
        (truncS x (fun b => (K.svd b).2.1) counts)
        (truncV x (fun b => (K.svd b).1) (fun b => (K.svd b).2.2) counts)).1
      (absorbA mode sqrtK (truncU x (fun b => (K.svd b).1) counts)
        (truncS x (fun b => (K.svd b).2.1) counts)
        (truncV x (fun b => (K.svd b).1) (fun b => (K.svd b).2.2) counts)).2 := by
  obtain ⟨i0, i1, hi⟩ := ndim_two h2
  have hi1 : x.indices.getD 1 default = i1 := by simp [hi]
  apply pair_of_aligned (x := x) (aligned_trunc (K := K) hv h2 hlen)
    (truncU_valid hv h2 hi (C11.facShape_svd hK) hlen)
    (truncV_valid hv h2 hi (C11.facShape_svd hK) hlen) hf
    ((rightF_fields (x := x)).2.1.trans hf) rfl
    (truncV_rightOf hv h2 hf _ _ counts)
    ⟨_, _, rfl, rfl, by rw [withCm_cm, withCm_cm], by
      rw [withCm_dual, bondIx_eq hi, hi1]; rfl⟩
    rfl rfl (fun t ht => List.mem_map.mpr ⟨t.1, (kept_mem hlen ht).1, rfl⟩) _
    (trunc_itemShape hK hv h2 hlen)

end inst

end Recon3P
end SymmModel
