/-
  SymmModel.Proofs.C07T4 — kernel-checked planner table, shapes with 1..4 axes of sizes in
  {1,2,3,4,6}, every non-empty merge/drop target, forward and back.  `decide +kernel` only.
-/
import SymmModel.Model.ReshapePlan
namespace SymmModel.C07

theorem table_1 : chunkOk [] 1 = true := by decide +kernel
theorem table_2 : chunkOk [] 2 = true := by decide +kernel
theorem table_3 : chunkOk [] 3 = true := by decide +kernel
theorem table_4_1 : chunkOk [1] 3 = true := by decide +kernel
theorem table_4_2 : chunkOk [2] 3 = true := by decide +kernel
theorem table_4_3 : chunkOk [3] 3 = true := by decide +kernel
theorem table_4_4 : chunkOk [4] 3 = true := by decide +kernel
theorem table_4_6 : chunkOk [6] 3 = true := by decide +kernel

end SymmModel.C07
