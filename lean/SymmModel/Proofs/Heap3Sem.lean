/-
  SymmModel.Proofs.Heap3Sem — a VALUE semantics for the buffer table of the heap model (property C14).

  The heap model records of every buffer only its provenance `(kernel tag, argument buffers)`.  Given ANY
  interpretation `I : tag → argument values → value` of the kernels over ANY value type `V` (`V` = blocks
  of scalars and `I` = numpy's kernels; or `V` = provenance trees and `I` = the free constructor) every
  buffer id denotes a value (`look`), every block dict a dict of values (`semDict`).  The lemmas here
  compute the denotation of the block dict after the effect lists of `phase_sync` and of
  `_binary_blockwise_op` as a function of the denotations before — whatever the buffer ids are.
-/
import SymmModel.Proofs.Heap2Binary
namespace SymmModel.Heap

/-- dict of values -/
abbrev SDict (V : Type) := List (Key × V)

namespace SD
variable {V : Type}
def get? (l : SDict V) (k : Key) : Option V := (l.find? (fun e => e.1 == k)).map (·.2)
def has (l : SDict V) (k : Key) : Bool := l.any (fun e => e.1 == k)
def set : SDict V → Key → V → SDict V
  | [], k, v => [(k, v)]
  | (k', v') :: r, k, v => if k' == k then (k, v) :: r else (k', v') :: set r k v
def pop (l : SDict V) (k : Key) : SDict V := l.filter (fun e => !(e.1 == k))
def update (l src : SDict V) : SDict V := src.foldl (fun acc e => set acc e.1 e.2) l
end SD

/-- apply `g` to the values of a dict -/
def mapV {V : Type} (g : Val → V) (l : Dict) : SDict V := l.map fun e => (e.1, g e.2)

section dicts
variable {V : Type} (g : Val → V)

theorem mapV_set (l : Dict) (k : Key) (v : Val) : mapV g (Dict.set l k v) = SD.set (mapV g l) k (g v) := by
  induction l with
  | nil => rfl
  | cons e r ih =>
    obtain ⟨k', v'⟩ := e
    simp only [Dict.set, mapV, List.map_cons, SD.set]
    split
    · rfl
    · simp only [List.map_cons]; exact congrArg _ ih

theorem mapV_pop (l : Dict) (k : Key) : mapV g (Dict.pop l k) = SD.pop (mapV g l) k := by
  induction l with
  | nil => rfl
  | cons e r ih =>
    simp only [Dict.pop, SD.pop, mapV, List.filter_cons, List.map_cons] at ih ⊢
    split
    · simp only [List.map_cons]; exact congrArg _ ih
    · exact ih

theorem mapV_update (l src : Dict) : mapV g (Dict.update l src) = SD.update (mapV g l) (mapV g src) := by
  induction src generalizing l with
  | nil => rfl
  | cons e r ih =>
    simp only [Dict.update, SD.update, mapV, List.foldl_cons, List.map_cons] at ih ⊢
    rw [ih]
    exact congrArg (fun z => List.foldl _ z _) (mapV_set g l e.1 e.2)

theorem has_mapV (l : Dict) (k : Key) : SD.has (mapV g l) k = Dict.has l k := by
  simp [SD.has, Dict.has, mapV, List.any_map, Function.comp_def]

theorem get?_mapV (l : Dict) (k : Key) : SD.get? (mapV g l) k = (Dict.get? l k).map g := by
  induction l with
  | nil => rfl
  | cons e r ih =>
    simp only [SD.get?, Dict.get?, mapV, List.map_cons, List.find?_cons] at ih ⊢
    split <;> simp_all

theorem mapV_congr {g g' : Val → V} (l : Dict) (h : ∀ e ∈ l, g e.2 = g' e.2) : mapV g l = mapV g' l := by
  apply List.map_congr_left
  intro e he; rw [h e he]

theorem mem_dict_set {l : Dict} {k : Key} {v : Val} {e : Key × Val} (h : e ∈ Dict.set l k v) :
    e ∈ l ∨ e = (k, v) := by
  induction l with
  | nil => simp [Dict.set] at h; exact Or.inr h
  | cons e' r ih =>
    obtain ⟨k', v'⟩ := e'
    simp only [Dict.set] at h
    split at h
    · simp only [List.mem_cons] at h ⊢
      rcases h with h | h
      · exact Or.inr h
      · exact Or.inl (Or.inr h)
    · simp only [List.mem_cons] at h ⊢
      rcases h with h | h
      · exact Or.inl (Or.inl h)
      · rcases ih h with h1 | h1
        · exact Or.inl (Or.inr h1)
        · exact Or.inr h1

theorem dict_get?_mem {l : Dict} {k : Key} {b : Val} (h : Dict.get? l k = some b) : ∃ e ∈ l, e.2 = b := by
  simp only [Dict.get?, Option.map_eq_some_iff] at h
  obtain ⟨e, he, rfl⟩ := h
  exact ⟨e, List.mem_of_find?_eq_some he, rfl⟩

theorem dict_has_getD {l : Dict} {k : Key} (h : Dict.has l k = true) :
    ∃ b, Dict.get? l k = some b ∧ Dict.getD l k 0 = b := by
  simp only [Dict.has, List.any_eq_true] at h
  obtain ⟨e, he, hk⟩ := h
  cases hf : l.find? (fun e => e.1 == k) with
  | none =>
    have := List.find?_eq_none.mp hf e he
    exact absurd hk this
  | some e' => exact ⟨e'.2, by simp [Dict.get?, hf], by simp [Dict.getD, Dict.get?, hf]⟩

end dicts

/-! ### the value of a buffer -/

section sem
variable {V : Type} (I : Nat → List V → V) (d : V)

def valsFrom (vs : List V) (bufs : Bufs) : List V :=
  bufs.foldl (fun vs e => vs ++ [I e.1 (e.2.map fun a => vs.getD a d)]) vs

/-- the values of all buffers of a table, in order (arguments refer to earlier entries) -/
def vals (bufs : Bufs) : List V := valsFrom I d [] bufs

/-- the value of buffer `b` -/
def look (bufs : Bufs) (b : BufId) : V := (vals I d bufs).getD b d

/-- the denotation of a block dict -/
def semDict (bufs : Bufs) (l : Dict) : SDict V := mapV (fun v => look I d bufs v.toNat) l

theorem valsFrom_ext (vs : List V) (X : Bufs) : ∃ ys, valsFrom I d vs X = vs ++ ys ∧ ys.length = X.length := by
  induction X generalizing vs with
  | nil => exact ⟨[], by simp [valsFrom], rfl⟩
  | cons e r ih =>
    obtain ⟨ys, h1, h2⟩ := ih (vs ++ [I e.1 (e.2.map fun a => vs.getD a d)])
    refine ⟨I e.1 (e.2.map fun a => vs.getD a d) :: ys, ?_, by simp [h2]⟩
    simp only [valsFrom, List.foldl_cons] at h1 ⊢
    rw [h1, List.append_assoc]; rfl

theorem vals_append (T X : Bufs) : vals I d (T ++ X) = valsFrom I d (vals I d T) X := by
  simp [vals, valsFrom, List.foldl_append]

theorem vals_length (T : Bufs) : (vals I d T).length = T.length := by
  obtain ⟨ys, h1, h2⟩ := valsFrom_ext I d [] T
  simp only [vals, h1, List.nil_append, h2]

/-- appending entries does not change the value of an existing buffer -/
theorem look_append_lt (T X : Bufs) {b : BufId} (hb : b < T.length) : look I d (T ++ X) b = look I d T b := by
  obtain ⟨ys, h1, _⟩ := valsFrom_ext I d (vals I d T) X
  have hb' : b < (vals I d T).length := by rw [vals_length]; exact hb
  simp only [look, vals_append, h1, List.getD_eq_getElem?_getD, List.getElem?_append_left hb']

/-- the value of a new kernel result -/
theorem look_new (T : Bufs) (tag : Nat) (args : List BufId) :
    look I d (T ++ [(tag, args)]) T.length = I tag (args.map (look I d T)) := by
  have hl := vals_length I d T
  simp only [look, vals_append, valsFrom, List.foldl_cons, List.foldl_nil, List.getD_eq_getElem?_getD]
  rw [← hl, List.getElem?_append_right (Nat.le_refl _)]
  simp only [Nat.sub_self, List.getElem?_cons_zero, Option.getD_some]
  rfl

/-- all buffer ids stored in a dict exist in a table of length `n` -/
def DictOK (n : Nat) (l : Dict) : Prop := ∀ e ∈ l, e.2.toNat < n

theorem DictOK.mono {n n' : Nat} {l : Dict} (h : DictOK n l) (hn : n ≤ n') : DictOK n' l :=
  fun e he => Nat.lt_of_lt_of_le (h e he) hn

theorem semDict_append (T X : Bufs) {l : Dict} (h : DictOK T.length l) :
    semDict I d (T ++ X) l = semDict I d T l :=
  mapV_congr l (fun e he => look_append_lt I d T X (h e he))

/-! ### the effects used by `phase_sync` and `_binary_blockwise_op`, and their denotation -/

/-- the in-place effects that occur: kernel result stored under a key, existing buffer stored under a
    key, block deleted, `phases.popitem()`, `other_blocks.pop(k)` on the temporary dict -/
inductive SAct
  | kern (k : Key) (tag : Nat) (args : List BufId)
  | put (k : Key) (b : BufId)
  | pop (k : Key)
  | ppop
  | tpop (k : Key)

def SAct.mut : SAct → Mut
  | .kern k tag args => .act 0 (.bKern k tag args)
  | .put k b => .act 0 (.bPut k b)
  | .pop k => .act 0 (.bPop k)
  | .ppop => .act 0 .pPopItem
  | .tpop k => .dmut 0 (fun l => l.pop k)

/-- the buffers the effect mentions exist in a table of length `n` -/
def SAct.ok (n : Nat) : SAct → Prop
  | .kern _ _ args => ∀ a ∈ args, a < n
  | .put _ b => b < n
  | _ => True

/-- effects on dicts of values -/
inductive SStep (V : Type)
  | set (k : Key) (v : V)
  | pop (k : Key)
  | tpop (k : Key)
  | skip

def SStep.run : SStep V → SDict V × SDict V → SDict V × SDict V
  | .set k v, s => (SD.set s.1 k v, s.2)
  | .pop k, s => (SD.pop s.1 k, s.2)
  | .tpop k, s => (s.1, SD.pop s.2 k)
  | .skip, s => s

/-- the denotation of an effect whose buffers live in `T0` -/
def SAct.toS (T0 : Bufs) : SAct → SStep V
  | .kern k tag args => .set k (I tag (args.map (look I d T0)))
  | .put k b => .set k (look I d T0 b)
  | .pop k => .pop k
  | .ppop => .skip
  | .tpop k => .tpop k

def SAct.ph : Option Dict → SAct → Option Dict
  | p, .ppop => p.map Dict.popItem
  | p, _ => p

/-- **denotation of a list of effects.**  Start from a target whose block ids exist in the current table
    `T0 ++ X` and a temporary dict whose ids exist in `T0`; the effects mention buffers of `T0` only.  Then the
    denotations of the final block dict and temporary dict are obtained by running the denoted effects
    on the initial denotations; the table only grows; nothing else of the content changes. -/
theorem sacts_abs (T0 : Bufs) (l : List SAct) (hl : ∀ a ∈ l, a.ok T0.length) :
    ∀ (c : Content) (X : Bufs) (td : Dict), DictOK (T0 ++ X).length c.blocks → DictOK T0.length td →
      (∃ Y, (l.foldl (fun s a => a.mut.pure s) ((c, T0 ++ X), td)).1.2 = T0 ++ X ++ Y) ∧
      DictOK (l.foldl (fun s a => a.mut.pure s) ((c, T0 ++ X), td)).1.2.length
        (l.foldl (fun s a => a.mut.pure s) ((c, T0 ++ X), td)).1.1.blocks ∧
      DictOK T0.length (l.foldl (fun s a => a.mut.pure s) ((c, T0 ++ X), td)).2 ∧
      (semDict I d (l.foldl (fun s a => a.mut.pure s) ((c, T0 ++ X), td)).1.2
          (l.foldl (fun s a => a.mut.pure s) ((c, T0 ++ X), td)).1.1.blocks,
        semDict I d T0 (l.foldl (fun s a => a.mut.pure s) ((c, T0 ++ X), td)).2) =
        l.foldl (fun s a => (a.toS I d T0).run s) (semDict I d (T0 ++ X) c.blocks, semDict I d T0 td) ∧
      (l.foldl (fun s a => a.mut.pure s) ((c, T0 ++ X), td)).1.1.indices = c.indices ∧
      (l.foldl (fun s a => a.mut.pure s) ((c, T0 ++ X), td)).1.1.charge = c.charge ∧
      (l.foldl (fun s a => a.mut.pure s) ((c, T0 ++ X), td)).1.1.oddpos = c.oddpos ∧
      (l.foldl (fun s a => a.mut.pure s) ((c, T0 ++ X), td)).1.1.phases = l.foldl SAct.ph c.phases := by
  induction l with
  | nil => intro c X td hc ht; exact ⟨⟨[], by simp⟩, hc, ht, rfl, rfl, rfl, rfl, rfl⟩
  | cons a r ih =>
    intro c X td hc ht
    have hr : ∀ a' ∈ r, a'.ok T0.length := fun a' h' => hl a' (List.mem_cons_of_mem _ h')
    have ha := hl a (List.mem_cons_self ..)
    have hlen : T0.length ≤ (T0 ++ X).length := by simp
    cases a with
    | kern k tag args =>
      have hstep : (SAct.kern k tag args).mut.pure ((c, T0 ++ X), td) =
          (({ c with blocks := c.blocks.set k ((T0 ++ X).length : Int) }, T0 ++ (X ++ [(tag, args)])), td) := by
        simp [SAct.mut, Mut.pure, Act.pure, List.append_assoc]
      have hc1 : DictOK (T0 ++ (X ++ [(tag, args)])).length (c.blocks.set k ((T0 ++ X).length : Int)) := by
        intro e he
        rcases mem_dict_set he with h1 | h1
        · have := hc e h1
          refine Nat.lt_of_lt_of_le this ?_
          simp only [List.length_append]; omega
        · subst h1
          show (((T0 ++ X).length : Int)).toNat < _
          rw [Int.toNat_natCast]
          simp only [List.length_append, List.length_cons, List.length_nil]; omega
      obtain ⟨⟨Y, hY⟩, h2, h3, h4, h5, h6, h7, h8⟩ :=
        ih hr { c with blocks := c.blocks.set k ((T0 ++ X).length : Int) } (X ++ [(tag, args)]) td hc1 ht
      simp only [List.foldl_cons, hstep]
      refine ⟨⟨(tag, args) :: Y, by rw [hY]; simp [List.append_assoc]⟩, h2, h3, ?_, h5, h6, h7, ?_⟩
      · rw [h4]
        congr 1
        simp only [SAct.toS, SStep.run]
        congr 1
        rw [semDict, mapV_set]
        have e1 : mapV (fun v => look I d (T0 ++ (X ++ [(tag, args)])) v.toNat) c.blocks =
            semDict I d (T0 ++ X) c.blocks := by
          rw [← List.append_assoc]; exact semDict_append I d (T0 ++ X) _ hc
        have e2 : look I d (T0 ++ (X ++ [(tag, args)])) (((T0 ++ X).length : Int)).toNat =
            I tag (args.map (look I d T0)) := by
          rw [Int.toNat_natCast, ← List.append_assoc, look_new]
          congr 1
          apply List.map_congr_left
          intro a' ha'
          exact look_append_lt I d T0 X (ha a' ha')
        rw [e1, e2]
      · rw [h8]; rfl
    | put k b =>
      have hstep : (SAct.put k b).mut.pure ((c, T0 ++ X), td) =
          (({ c with blocks := c.blocks.set k (b : Int) }, T0 ++ X), td) := by
        simp [SAct.mut, Mut.pure, Act.pure]
      have hb : b < T0.length := ha
      have hc1 : DictOK (T0 ++ X).length (c.blocks.set k (b : Int)) := by
        intro e he
        rcases mem_dict_set he with h1 | h1
        · exact hc e h1
        · subst h1
          show ((b : Int)).toNat < _
          rw [Int.toNat_natCast]; exact Nat.lt_of_lt_of_le hb hlen
      obtain ⟨hY, h2, h3, h4, h5, h6, h7, h8⟩ := ih hr { c with blocks := c.blocks.set k (b : Int) } X td hc1 ht
      simp only [List.foldl_cons, hstep]
      refine ⟨hY, h2, h3, ?_, h5, h6, h7, by rw [h8]; rfl⟩
      rw [h4]
      congr 1
      simp only [SAct.toS, SStep.run]
      congr 1
      rw [semDict, mapV_set, Int.toNat_natCast, look_append_lt I d T0 X hb]; rfl
    | pop k =>
      have hstep : (SAct.pop k).mut.pure ((c, T0 ++ X), td) =
          (({ c with blocks := c.blocks.pop k }, T0 ++ X), td) := by
        simp [SAct.mut, Mut.pure, Act.pure]
      have hc1 : DictOK (T0 ++ X).length (c.blocks.pop k) :=
        fun e he => hc e (List.mem_filter.mp he).1
      obtain ⟨hY, h2, h3, h4, h5, h6, h7, h8⟩ := ih hr { c with blocks := c.blocks.pop k } X td hc1 ht
      simp only [List.foldl_cons, hstep]
      refine ⟨hY, h2, h3, ?_, h5, h6, h7, by rw [h8]; rfl⟩
      rw [h4]
      congr 1
      simp only [SAct.toS, SStep.run]
      congr 1
      rw [semDict, mapV_pop]; rfl
    | ppop =>
      have hstep : SAct.ppop.mut.pure ((c, T0 ++ X), td) =
          (({ c with phases := c.phases.map Dict.popItem }, T0 ++ X), td) := by
        simp [SAct.mut, Mut.pure, Act.pure]
      obtain ⟨hY, h2, h3, h4, h5, h6, h7, h8⟩ := ih hr { c with phases := c.phases.map Dict.popItem } X td hc ht
      simp only [List.foldl_cons, hstep]
      exact ⟨hY, h2, h3, h4, h5, h6, h7, by rw [h8]; rfl⟩
    | tpop k =>
      have hstep : (SAct.tpop k).mut.pure ((c, T0 ++ X), td) = ((c, T0 ++ X), td.pop k) := by
        simp [SAct.mut, Mut.pure]
      have ht1 : DictOK T0.length (td.pop k) := fun e he => ht e (List.mem_filter.mp he).1
      obtain ⟨hY, h2, h3, h4, h5, h6, h7, h8⟩ := ih hr c X (td.pop k) hc ht1
      simp only [List.foldl_cons, hstep]
      refine ⟨hY, h2, h3, ?_, h5, h6, h7, by rw [h8]; rfl⟩
      rw [h4]
      congr 1
      simp only [SAct.toS, SStep.run]
      congr 1
      rw [semDict, mapV_pop]; rfl

end sem
end SymmModel.Heap
