/-
  SymmModel.Proofs.C07T5_3 — kernel-checked planner table, shapes with 5 axes whose first
  axis has size 3 (one chunk per size of the second axis; ~1 800 shape/target pairs each,
  every pair forward and back).  `decide +kernel` only.
-/
import SymmModel.Model.ReshapePlan
namespace SymmModel.C07

theorem table_5_3_1 : chunkOk [3, 1] 3 = true := by decide +kernel
theorem table_5_3_2 : chunkOk [3, 2] 3 = true := by decide +kernel
theorem table_5_3_3 : chunkOk [3, 3] 3 = true := by decide +kernel
theorem table_5_3_4 : chunkOk [3, 4] 3 = true := by decide +kernel
theorem table_5_3_6 : chunkOk [3, 6] 3 = true := by decide +kernel

end SymmModel.C07
