/-
  SymmModel.Proofs.ReconLabels — fermionic reconstruction (C11) for arrays that carry a LIST of
  odd-position labels, and the bridge from the fermionic `@` to the abelian blockwise product.

  * `SortedLabels`            a label list sorted by `FermionicOperator.__lt__` with distinct names
  * `resolve_sorted_left/right`  `resolve_combined_oddpos` when only one operand carries labels:
                              the list is returned unchanged, no sign
  * `rightSync_blocks`        the first-axis flip `__matmul__` applies to a right factor of a
                              decomposition cancels the flip the decomposition stored on it
                              (also for truncated / absorbed right factors, whose sign table may
                              keep entries of dropped sectors)
  * `matmulF_items`           `a @ b` for factors aligned with a list of items: blocks, labels
  * `matmulF_items_elem`      … and its value view = value view of the abelian blockwise product
  Nothing here changes a model definition.
-/
import SymmModel.Proofs.LinalgMore6
import SymmModel.Proofs.Oddpos

namespace SymmModel
namespace ReconP
open LinalgLemmas OddposP

variable {R : Type}

/-! ### label lists -/

/-- what every array of the library carries: labels sorted w.r.t. `FermionicOperator.__lt__`
    (dual labels first, descending; then non-dual ones, ascending) with pairwise distinct names -/
def SortedLabels (o : List (Int × Bool)) : Prop := OddSorted o ∧ LabelsDistinct o

theorem sortedLabels_nil : SortedLabels [] := ⟨List.Pairwise.nil, List.Pairwise.nil⟩

theorem sortedLabels_single (a : Int × Bool) : SortedLabels [a] :=
  ⟨List.pairwise_singleton _ _, List.pairwise_singleton _ _⟩

theorem sortedLabels_of_short {o : List (Int × Bool)} (h : o.length ≤ 1) : SortedLabels o := by
  match o, h with
  | [], _ => exact sortedLabels_nil
  | [a], _ => exact sortedLabels_single a

theorem merge_left_sorted (pa : Bool) (o : List (Int × Bool)) (h : SortedLabels o) :
    mergeOddpos pa o [] = .ok (o, 1) := by
  obtain ⟨out, p, s, m⟩ := mergeOddpos_spec pa o [] (by simpa using h.2)
  have e : out = o := oddSorted_unique s h.1 (by simpa using p)
  subst e
  rw [m, List.append_nil, invR_oddR_sorted out h.1]
  rfl

theorem merge_right_sorted (o : List (Int × Bool)) (h : SortedLabels o) :
    mergeOddpos false [] o = .ok (o, 1) := by
  obtain ⟨out, p, s, m⟩ := mergeOddpos_spec false [] o (by simpa using h.2)
  have e : out = o := oddSorted_unique s h.1 (by simpa using p)
  subst e
  rw [m, List.nil_append, invR_oddR_sorted out h.1]
  simp [Bool.toNat, KoszulP.sgn_zero]

/-- only the left operand carries labels (a sorted list): the result carries the same list, no sign -/
theorem resolve_sorted_left (left right new : Arr R) (hr : right.oddpos = [])
    (hl : SortedLabels left.oddpos) :
    resolveCombinedOddpos left right new = .ok { new with oddpos := left.oddpos } := by
  rw [resolveCombinedOddpos_eq, hr, merge_left_sorted _ _ hl]
  rfl

/-- only the right operand carries labels and the left one is even -/
theorem resolve_sorted_right (left right new : Arr R) (hl : left.oddpos = [])
    (hp : left.parity = false) (hr : SortedLabels right.oddpos) :
    resolveCombinedOddpos left right new = .ok { new with oddpos := right.oddpos } := by
  rw [resolveCombinedOddpos_eq, hl, hp, merge_right_sorted _ hr]
  rfl

/-! ### pending signs of a right factor -/

theorem lookup_eq_getPhase (a : Arr R) (s : Sector) :
    (alookup a.phases s == some (-1)) = (a.getPhase s == -1) := by
  unfold Arr.getPhase
  cases alookup a.phases s with
  | none => decide
  | some v => simp

/-- the table `phase_flip(0)` writes on an array without pending signs: value at a listed sector -/
theorem getD_flagged (l : List Sector) (P : Sector → Bool) (s : Sector) (hs : s ∈ l) :
    (alookup ((l.filter P).map (fun s => (s, (-1 : Int)))) s).getD 1 = if P s then -1 else 1 := by
  have hf := alookup_flagged l P s
  simp only [hs, decide_true, Bool.true_and] at hf
  cases ho : alookup ((l.filter P).map (fun s => (s, (-1 : Int)))) s with
  | none =>
    rw [ho] at hf
    have : P s = false := by
      rw [← hf]; decide
    simp [this]
  | some v =>
    have hm := alookup_some_mem ho
    obtain ⟨t, _, e⟩ := List.mem_map.mp hm
    have hv : v = -1 := (Prod.mk.inj e).2.symm
    subst hv
    rw [ho] at hf
    have : P s = true := by rw [← hf]; decide
    simp [this]

/-- A right factor `V` (of `qr`/`svd`, possibly truncated or with singular values absorbed): its
    stored sectors lie in a duplicate-free list `D`; when its first (bond) index is dual its sign
    table is the one `phase_flip(0)` writes on `D`, otherwise it is empty.  Then the flip
    `__matmul__` applies to a dual first index, followed by `phase_sync`, leaves the blocks as
    they are.  (Entries of the table at sectors that are no longer stored are harmless.) -/
theorem rightSync_blocks [Neg R] (V : Arr R) (D : List Sector) (d : Bool)
    (hD : D.Nodup) (hnd : V.sectors.Nodup) (hsub : ∀ s ∈ V.sectors, s ∈ D)
    (hph : V.phases = if d then
        (D.filter (fun s => V.sym.parity (s.getD 0 (0, 0)))).map (fun s => (s, (-1 : Int)))
      else []) :
    (if d then V.phaseFlip [0] else V).phaseSync.blocks = V.blocks := by
  cases d with
  | false =>
    simp only [Bool.false_eq_true, if_false] at hph ⊢
    exact phaseSync_blocks_nil V hph
  | true =>
    simp only [if_true] at hph ⊢
    have hb := (phaseFlip_fields V [0]).2.2.2.2.1
    have hkeys : allDistinct (V.phases.map (·.1)) = true := by
      rw [allDistinct_iff_nodup, hph, List.map_map]
      have : ((fun (p : Sector × Int) => p.1) ∘ fun s => (s, (-1 : Int))) = id := rfl
      rw [this, List.map_id]
      exact hD.filter _
    unfold Arr.phaseSync
    simp only
    rw [hb]
    conv => rhs; rw [← List.map_id V.blocks]
    apply List.map_congr_left
    intro p hp
    have hs : p.1 ∈ V.sectors := List.mem_map.mpr ⟨p, hp, rfl⟩
    have hg := KoszulP.phaseFlip_getPhase V [0] ((allDistinct_iff_nodup _).mpr hnd) hkeys p.1
    rw [if_pos hs] at hg
    have h1 : V.getPhase p.1 = if V.sym.parity (p.1.getD 0 (0, 0)) then -1 else 1 := by
      unfold Arr.getPhase
      rw [hph]
      exact getD_flagged D _ p.1 (hsub _ hs)
    have h2 : KoszulP.flipSign V [0] p.1 = if V.sym.parity (p.1.getD 0 (0, 0)) then -1 else 1 := by
      unfold KoszulP.flipSign
      cases hpar : V.sym.parity (p.1.getD 0 (0, 0)) <;>
        simp only [List.filter_cons, List.filter_nil, hpar] <;> rfl
    have h3 : (V.phaseFlip [0]).getPhase p.1 = 1 := by
      rw [hg, h1, h2]
      cases V.sym.parity (p.1.getD 0 (0, 0)) <;> simp
    have h4 : (alookup (V.phaseFlip [0]).phases p.1 == some (-1)) = false := by
      rw [lookup_eq_getPhase, h3]; decide
    simp only [h4, Bool.false_eq_true, if_false, id]

/-! ### `a @ b` for factors aligned with a list of items -/

/-- `a` stores a block `fA p` at `sec p`, `b` a block `fB p` at the diagonal sector of the column
    charge of `sec p`, for the items `p` of `l` (rank-2 sectors, distinct, distinct column charges);
    `a` carries a sorted label list and any pending signs, `b` no label and the sign table of a
    right factor.  Then `a @ b` (`FermionicArray.__matmul__`) succeeds, has no pending signs,
    carries `a`'s labels, and its block at `sec p` is `(±fA p) · fB p` with `a`'s pending sign. -/
theorem matmulF_items [Zero R] [Add R] [Mul R] [Neg R] {α : Type} (l : List α) (sec : α → Sector)
    (hlen : ∀ p ∈ l, (sec p).length = 2) (hsec : (l.map sec).Nodup)
    (hcol : (l.map (fun p => colOf (sec p))).Nodup) (fA fB : α → Blk R) (a b : Arr R)
    (ha : a.blocks = l.map (fun p => (sec p, fA p)))
    (hb : b.blocks = l.map (fun p => ([colOf (sec p), colOf (sec p)], fB p)))
    (hand : a.ndim = 2) (hlab : SortedLabels a.oddpos) (hbo : b.oddpos = [])
    (j0 j1 : Index) (hbi : b.indices = [j0, j1]) (D : List Sector) (hD : D.Nodup)
    (hsub : ∀ p ∈ l, [colOf (sec p), colOf (sec p)] ∈ D)
    (hph : b.phases = if j0.dual then
        (D.filter (fun s => b.sym.parity (s.getD 0 (0, 0)))).map (fun s => (s, (-1 : Int)))
      else []) :
    ∃ y, Arr.matmulF a b = .ok y ∧ y.phases = [] ∧ y.oddpos = a.oddpos
      ∧ y.blocks = l.map (fun p =>
          (sec p, (if alookup a.phases (sec p) == some (-1) then (fA p).negK else fA p).tensordotK
                    (fB p) [1] [0]))
      ∧ y.sym = a.sym ∧ y.fermi = a.fermi
      ∧ y.charge = a.sym.combine [a.charge, b.charge]
      ∧ y.indices = dropUnused (without a.indices [1] ++ without b.indices [0]) (l.map sec) := by
  have hbsec : b.sectors = l.map (fun p => [colOf (sec p), colOf (sec p)]) := by
    simp [Arr.sectors, hb, List.map_map, Function.comp_def]
  have hbnd : b.sectors.Nodup := by
    rw [hbsec]
    have h' := nodup_map_of_inj _ (fun c : Charge => [c, c]) hcol
      (fun a _ b _ e => (List.cons.inj e).1)
    simpa [List.map_map, Function.comp_def] using h'
  have hb2b : (if j0.dual then b.phaseFlip [0] else b).phaseSync.blocks
      = l.map (fun p => ([colOf (sec p), colOf (sec p)], fB p)) := by
    rw [rightSync_blocks b D j0.dual hD hbnd ?_ hph, hb]
    intro s hs
    rw [hbsec] at hs
    obtain ⟨p, hp, rfl⟩ := List.mem_map.mp hs
    exact hsub p hp
  have ha2b := phaseSync_blocks_map a l sec fA ha
  have hc := tdot_blocks_items l sec hlen hsec hcol
    (fun p => if alookup a.phases (sec p) == some (-1) then (fA p).negK else fA p) fB _ _ ha2b hb2b
  have hb2o : (if j0.dual then b.phaseFlip [0] else b).phaseSync.oddpos = [] := by
    show (if j0.dual then b.phaseFlip [0] else b).oddpos = []
    split
    · rw [(phaseFlip_fields b [0]).2.2.2.2.2]; exact hbo
    · exact hbo
  have hb2i : (if j0.dual then b.phaseFlip [0] else b).phaseSync.indices = b.indices := by
    show (if j0.dual then b.phaseFlip [0] else b).indices = b.indices
    split
    · exact (phaseFlip_fields b [0]).2.2.1
    · rfl
  have hb2c : (if j0.dual then b.phaseFlip [0] else b).phaseSync.charge = b.charge := by
    show (if j0.dual then b.phaseFlip [0] else b).charge = b.charge
    split
    · exact (phaseFlip_fields b [0]).2.2.2.1
    · rfl
  rw [matmulF_eq a b hand j0 j1 hbi,
    resolve_sorted_left _ _ _ hb2o (show SortedLabels a.phaseSync.oddpos from hlab)]
  refine ⟨_, rfl, rfl, rfl, hc, rfl, rfl, ?_, ?_⟩
  · show a.sym.combine [a.charge, _] = _
    rw [hb2c]
  · show dropUnused (without a.indices [1] ++ without _ [0]) _ = _
    rw [hb2i]
    congr 1
    have := congrArg (List.map (·.1)) hc
    rw [List.map_map] at this
    exact this

theorem negLaws_of_ring [Ring R] : NegLaws R where
  neg_zero := neg_zero
  neg_add a b := (neg_add a b).symm
  neg_mul a b := neg_mul a b

/-- value view of an array whose blocks are listed by items -/
theorem elem_items [Zero R] [Neg R] {α : Type} (l : List α) (sec : α → Sector)
    (hsec : (l.map sec).Nodup) (y : Arr R) (T : α → Blk R)
    (hy : y.blocks = l.map (fun p => (sec p, T p))) :
    (∀ p ∈ l, ∀ off, y.elem (sec p) off
        = if alookup y.phases (sec p) == some (-1) then - (T p).get off else (T p).get off)
    ∧ (∀ s, s ∉ l.map sec → ∀ off, y.elem s off = 0) := by
  have hnd : (y.blocks.map (·.1)).Nodup := by
    rw [hy, List.map_map]; exact hsec
  refine ⟨fun p hp off => ?_, fun s hs off => ?_⟩
  · have hl : alookup y.blocks (sec p) = some (T p) := by
      apply alookup_of_mem_nodup hnd
      rw [hy]; exact List.mem_map.mpr ⟨p, hp, rfl⟩
    simp only [Arr.elem, hl]
  · have hl : alookup y.blocks s = none := by
      rw [alookup_eq_none_iff, hy, List.map_map]; exact hs
    simp only [Arr.elem, hl]

/-- **bridge.**  The value view of the fermionic `a @ b` of aligned factors (block shapes
    `[m, k]`, `[k, n]`) is the value view of the abelian blockwise product of the same two arrays
    (which keeps `a`'s pending signs lazily): same sectors, same element at every offset of every
    `m × n` box, zero elsewhere. -/
theorem matmulF_items_elem [Zero R] [Add R] [Mul R] [Neg R] [NegLaws R] {α : Type} (l : List α)
    (sec : α → Sector) (hlen : ∀ p ∈ l, (sec p).length = 2) (hsec : (l.map sec).Nodup)
    (hcol : (l.map (fun p => colOf (sec p))).Nodup) (fA fB : α → Blk R) (a b y : Arr R)
    (ha : a.blocks = l.map (fun p => (sec p, fA p)))
    (hb : b.blocks = l.map (fun p => ([colOf (sec p), colOf (sec p)], fB p)))
    (hyp : y.phases = [])
    (hyb : y.blocks = l.map (fun p =>
          (sec p, (if alookup a.phases (sec p) == some (-1) then (fA p).negK else fA p).tensordotK
                    (fB p) [1] [0])))
    (dims : α → Nat × Nat × Nat)
    (hsh : ∀ p ∈ l, (fA p).shape = [(dims p).1, (dims p).2.1]
      ∧ (fB p).shape = [(dims p).2.1, (dims p).2.2]) :
    y.sectors = (tensordotBlockwise a b [0] [1] [0] [1]).sectors
    ∧ (∀ p ∈ l, ∀ i j, i < (dims p).1 → j < (dims p).2.2 →
        y.elem (sec p) [i, j] = (tensordotBlockwise a b [0] [1] [0] [1]).elem (sec p) [i, j])
    ∧ (∀ s, s ∉ l.map sec → ∀ off,
        y.elem s off = (tensordotBlockwise a b [0] [1] [0] [1]).elem s off) := by
  have hP := tdot_blocks_items l sec hlen hsec hcol fA fB a b ha hb
  have hPph : (tensordotBlockwise a b [0] [1] [0] [1]).phases = a.phases := rfl
  obtain ⟨y1, y2⟩ := elem_items l sec hsec y _ hyb
  obtain ⟨p1, p2⟩ := elem_items l sec hsec _ _ hP
  refine ⟨by simp [Arr.sectors, hyb, hP, List.map_map, Function.comp_def], ?_, ?_⟩
  · intro p hp i j hi hj
    rw [y1 p hp, p1 p hp, hyp, hPph]
    obtain ⟨s1, s2⟩ := hsh p hp
    have e := signed_matmul_get (alookup a.phases (sec p) == some (-1)) (fA p) (fB p) s1 s2 hi hj
    have e0 := tensordotK_matmul_get (fA p) (fB p) s1 s2 hi hj
    simp only [alookup, show ((none : Option Int) == some (-1)) = false from rfl,
      Bool.false_eq_true, if_false]
    rw [e, e0]
  · intro s hs off
    rw [y2 s hs, p2 s hs]

end ReconP
end SymmModel
