/-
  SymmModel.Proofs.ValidTdotFused — `tensordot` in fused mode (the default for a non-empty
  contraction): drop misaligned sectors, fuse both operands into matrices, contract block-wise,
  unfuse.  Together with ValidTdotF.lean this gives validity of `tensordot_abelian` and
  `tensordot_fermionic` in EVERY mode (property C01, item 5).
-/
import SymmModel.Proofs.ValidFuseF

namespace SymmModel
namespace ValidP
open Sym

variable {R : Type}

/-! ### drop_misaligned on the sign-free clauses -/

theorem core_filter_drop (a : Arr R) (hv : Core a) (p : Sector × Blk R → Bool) :
    Core { a with blocks := a.blocks.filter p,
                  indices := dropUnused a.indices ((a.blocks.filter p).map (·.1)) } := by
  refine ⟨dropUnused_wf _ hv.idx, hv.chg, ?_, ?_⟩
  · exact List.Nodup.sublist (List.Sublist.map _ List.filter_sublist) hv.nodup
  · intro sb hsb
    obtain ⟨h1, h2, h3⟩ := hv.blk sb (List.mem_filter.mp hsb).1
    refine ⟨secOk_dropUnused _ h1, ?_, h3⟩
    show Arr.blockShape? (dropUnused a.indices _) sb.1 = some sb.2.shape
    rw [dropUnused_blockShape _ _ _ (List.mem_map.mpr ⟨sb, hsb, rfl⟩)]
    exact h2

/-- everything `tensordot` needs to know about one operand after a structural step -/
structure SameFields (x a : Arr R) : Prop where
  sym : x.sym = a.sym
  fermi : x.fermi = a.fermi
  charge : x.charge = a.charge
  phases : x.phases = a.phases
  oddpos : x.oddpos = a.oddpos

theorem SameFields.trans {x y z : Arr R} (h1 : SameFields x y) (h2 : SameFields y z) :
    SameFields x z :=
  ⟨h1.sym.trans h2.sym, h1.fermi.trans h2.fermi, h1.charge.trans h2.charge,
    h1.phases.trans h2.phases, h1.oddpos.trans h2.oddpos⟩

theorem dropMisaligned_core (a b : Arr R) (axesA axesB : List Nat) (ha : Core a) (hb : Core b) :
    Core (dropMisaligned a b axesA axesB).1 ∧ Core (dropMisaligned a b axesA axesB).2
    ∧ SameFields (dropMisaligned a b axesA axesB).1 a ∧ SameFields (dropMisaligned a b axesA axesB).2 b
    ∧ (dropMisaligned a b axesA axesB).1.indices.map Index.dual = a.indices.map Index.dual
    ∧ (dropMisaligned a b axesA axesB).2.indices.map Index.dual = b.indices.map Index.dual := by
  unfold dropMisaligned
  exact ⟨core_filter_drop a ha _, core_filter_drop b hb _, ⟨rfl, rfl, rfl, rfl, rfl⟩,
    ⟨rfl, rfl, rfl, rfl, rfl⟩, dropUnused_duals _ _, dropUnused_duals _ _⟩

/-! ### fusing all axes into (at most) two groups -/

theorem fuseA_noexpand [Zero R] {a r : Arr R} {groups : List (List Nat)} {mode : FuseMode}
    (h : fuseA a groups mode false = .ok r) :
    ((groups.filter (fun g => !g.isEmpty)).isEmpty = true ∧ r = a)
    ∨ ((groups.filter (fun g => !g.isEmpty)).isEmpty = false
        ∧ fuseCore a (groups.filter (fun g => !g.isEmpty)) mode = .ok r) := by
  unfold fuseA at h
  dsimp only at h
  split at h
  · rename_i he
    rw [pure_bind] at h
    simp only [Bool.false_and, Bool.false_eq_true, if_false, pure, Except.pure,
      Except.ok.injEq] at h
    exact Or.inl ⟨he, h.symm⟩
  · rename_i he
    obtain ⟨xf, hxf, h⟩ := bind_ok h
    simp only [Bool.false_and, Bool.false_eq_true, if_false, pure, Except.pure,
      Except.ok.injEq] at h
    subst h
    exact Or.inr ⟨by simpa using he, hxf⟩

theorem fuseCore_indices [Zero R] {a r : Arr R} {groups : List (List Nat)} {mode : FuseMode}
    (h : fuseCore a groups mode = .ok r) :
    ∃ blockmap, r.indices
      = permuted a.indices (calcFuseGroupInfo groups a.duals).axesBefore
        ++ groups.zipIdx.map (fuseMidIndex a (calcFuseGroupInfo groups a.duals) blockmap)
        ++ permuted a.indices (calcFuseGroupInfo groups a.duals).axesAfter := by
  unfold fuseCore at h
  cases hfi : calcFuseBlockInfo a groups with
  | error e => rw [hfi] at h; cases h
  | ok fi =>
    rw [hfi] at h
    simp only [bind, Except.bind] at h
    obtain ⟨blockmap, _, hfieq⟩ := calcFuseBlockInfo_ok hfi
    refine ⟨blockmap, ?_⟩
    cases mode with
    | insert =>
      simp only at h
      cases hnb : fuseInsert a.blocks fi with
      | error e => rw [hnb] at h; cases h
      | ok nb => rw [hnb] at h; cases h; rw [hfieq]
    | concat =>
      simp only at h
      cases hnb : fuseConcat a.indices a.blocks fi with
      | error e => rw [hnb] at h; cases h
      | ok nb => rw [hnb] at h; cases h; rw [hfieq]

/-- when the groups cover every axis nothing is left before or after them -/
theorem axes_before_after_nil (groups : List (List Nat)) (duals : List Bool)
    (hcover : ∀ ax, ax < duals.length → ax ∈ groups.flatten)
    (hlt : ∀ ax ∈ groups.flatten, ax < duals.length) :
    (calcFuseGroupInfo groups duals).axesBefore = []
    ∧ (calcFuseGroupInfo groups duals).axesAfter = [] := by
  have hpos : (calcFuseGroupInfo groups duals).position ≤ duals.length :=
    foldl_min_head_le groups.flatten duals.length hlt
  constructor
  · show List.filter (fun ax => !groups.flatten.contains ax)
      (List.range (calcFuseGroupInfo groups duals).position) = []
    rw [List.filter_eq_nil_iff]
    intro ax hax
    have := List.mem_range.mp hax
    simp only [Bool.not_eq_true, Bool.not_eq_false', List.contains_iff_mem]
    exact hcover ax (by omega)
  · show List.filter (fun ax => !groups.flatten.contains ax)
      (List.filter (fun ax => decide ((calcFuseGroupInfo groups duals).position ≤ ax))
        (List.range duals.length)) = []
    rw [List.filter_eq_nil_iff]
    intro ax hax
    have := List.mem_range.mp (List.mem_filter.mp hax).1
    simp only [Bool.not_eq_true, Bool.not_eq_false', List.contains_iff_mem]
    exact hcover ax this

theorem zipIdx_map_fst {α β : Type} (l : List α) (f : α → β) :
    l.zipIdx.map (fun x => f x.1) = l.map f := by
  apply List.ext_getElem
  · simp
  · intro i h1 h2
    simp

/-- directions of the array fused over groups that cover every axis -/
theorem fuseCore_cover_duals [Zero R] {a r : Arr R} {groups : List (List Nat)} {mode : FuseMode}
    (hcover : ∀ ax, ax < a.ndim → ax ∈ groups.flatten)
    (hlt : ∀ ax ∈ groups.flatten, ax < a.ndim)
    (h : fuseCore a groups mode = .ok r) :
    r.indices.map Index.dual = groups.map (fun g => a.duals.getD (g.headD 0) false) := by
  obtain ⟨blockmap, hidx⟩ := fuseCore_indices h
  have hn : a.duals.length = a.ndim := by simp [Arr.duals, Arr.ndim]
  obtain ⟨hb, haf⟩ := axes_before_after_nil groups a.duals (by rw [hn]; exact hcover)
    (by rw [hn]; exact hlt)
  rw [hidx, hb, haf]
  simp only [permuted, List.filterMap_nil, List.nil_append, List.append_nil, List.map_map]
  rw [← zipIdx_map_fst groups (fun g => a.duals.getD (g.headD 0) false)]
  apply List.map_congr_left
  intro x hx
  simp only [Function.comp]
  rw [fuseMidIndex_dual a groups blockmap hx, groupDuals_getD hx]

/-- an operand fused into the two groups `[g1, g2]` that together list every axis once -/
theorem fuseA_pair_props [Zero R] {a af : Arr R} {g1 g2 : List Nat} (hv : Core a)
    (hperm : (g1 ++ g2).Perm (List.range a.ndim))
    (h : fuseA a [g1, g2] .insert false = .ok af) :
    Core af ∧ SameFields af a
    ∧ af.indices.map Index.dual
        = ([g1, g2].filter (fun g => !g.isEmpty)).map (fun g => a.duals.getD (g.headD 0) false) := by
  have hflat : ([g1, g2].filter (fun g => !g.isEmpty)).flatten = g1 ++ g2 := by
    rw [filter_nonempty_flatten]; simp
  rcases fuseA_noexpand h with ⟨he, rfl⟩ | ⟨_, hcore⟩
  · refine ⟨hv, ⟨rfl, rfl, rfl, rfl, rfl⟩, ?_⟩
    have hnil : [g1, g2].filter (fun g => !g.isEmpty) = [] := by simpa using he
    rw [hnil]
    have : g1 ++ g2 = [] := by rw [← hflat, hnil]; rfl
    rw [this] at hperm
    have hlen := hperm.length_eq
    simp only [List.length_nil, List.length_range] at hlen
    have : af.indices = [] := List.eq_nil_of_length_eq_zero hlen.symm
    rw [this]; rfl
  · have hadm : fuseAdmissibleB ([g1, g2].filter (fun g => !g.isEmpty)) a.ndim = true := by
      unfold fuseAdmissibleB
      rw [hflat]
      simp only [Bool.and_eq_true, allDistinct_iff, List.all_eq_true, decide_eq_true_eq]
      exact ⟨hperm.nodup_iff.mpr List.nodup_range,
        fun ax hax => List.mem_range.mp (hperm.subset hax)⟩
    obtain ⟨e1, e2, e3, e4, e5⟩ := fuseCore_fields hcore
    refine ⟨fuseCore_insert_core a af _ hv hadm hcore, ⟨e1, e2, e3, e4, e5⟩, ?_⟩
    apply fuseCore_cover_duals _ _ hcore
    · intro ax hax
      rw [hflat]; exact hperm.symm.subset (List.mem_range.mpr hax)
    · intro ax hax
      rw [hflat] at hax; exact List.mem_range.mp (hperm.subset hax)

/-! ### the explicit axes of the matrix contraction -/

/-- `(left, axes_a)` of the fused operand `a` (copy of the model text) -/
def lkaOf (leftAxes axesA : List Nat) : List Nat × List Nat :=
  match !leftAxes.isEmpty, !axesA.isEmpty with
  | false, false => (([] : List Nat), ([] : List Nat))
  | false, true => ([], [0])
  | true, false => ([0], [])
  | true, true => ([0], [1])

/-- `(axes_b, right)` of the fused operand `b` (copy of the model text) -/
def kbrOf (axesB rightAxes : List Nat) : List Nat × List Nat :=
  match !axesB.isEmpty, !rightAxes.isEmpty with
  | false, false => (([] : List Nat), ([] : List Nat))
  | false, true => ([], [0])
  | true, false => ([0], [])
  | true, true => ([0], [1])

theorem lkaOf_props (f : List Nat → Bool) (left axesA : List Nat) :
    let D := ([left, axesA].filter (fun g => !g.isEmpty)).map f
    (lkaOf left axesA).2.Nodup ∧ (∀ i ∈ (lkaOf left axesA).2, i < D.length)
    ∧ (lkaOf left axesA).1 = without (List.range D.length) (lkaOf left axesA).2
    ∧ permuted D (lkaOf left axesA).2 = (if axesA.isEmpty then [] else [f axesA]) := by
  cases left <;> cases axesA <;> simp [lkaOf, permuted] <;> decide

theorem kbrOf_props (f : List Nat → Bool) (axesB right : List Nat) :
    let D := ([axesB, right].filter (fun g => !g.isEmpty)).map f
    (kbrOf axesB right).1.Nodup ∧ (∀ i ∈ (kbrOf axesB right).1, i < D.length)
    ∧ (kbrOf axesB right).2 = without (List.range D.length) (kbrOf axesB right).1
    ∧ permuted D (kbrOf axesB right).1 = (if axesB.isEmpty then [] else [f axesB]) := by
  cases axesB <;> cases right <;> simp [kbrOf, permuted] <;> decide

/-! ### the theorem -/

/-- the two optional `unfuse` calls at the end of `_tensordot_via_fused` -/
theorem fused_tail [Zero R] (cf0 r : Arr R) (c1 c2 : Bool) (ax1 : Nat) (hcore : Core cf0)
    (h : (if c1 = true then
            unfuseA cf0 ax1 >>= fun cf =>
              if c2 = true then unfuseA cf 0 >>= fun cf => pure cf
              else pure cf >>= fun cf => pure cf
          else
            pure cf0 >>= fun cf =>
              if c2 = true then unfuseA cf 0 >>= fun cf => pure cf
              else pure cf >>= fun cf => pure cf) = Except.ok r) :
    Core r ∧ SameFields r cf0 := by
  have step2 : ∀ cf : Arr R, Core cf → SameFields cf cf0 →
      (if c2 = true then unfuseA cf 0 >>= fun cf => pure cf
        else pure cf >>= fun cf => pure cf) = Except.ok r → Core r ∧ SameFields r cf0 := by
    intro cf hc hf h2
    split at h2
    · obtain ⟨cf', hcf', h2⟩ := bind_ok h2
      simp only [pure, Except.pure, Except.ok.injEq] at h2
      subst h2
      obtain ⟨e1, e2, e3, e4, e5⟩ := unfuseA_fields hcf'
      exact ⟨unfuseA_core cf cf' 0 hc hcf', SameFields.trans ⟨e1, e2, e3, e4, e5⟩ hf⟩
    · simp only [pure, Except.pure, bind, Except.bind, Except.ok.injEq] at h2
      subst h2; exact ⟨hc, hf⟩
  split at h
  · obtain ⟨cf, hcf, h⟩ := bind_ok h
    obtain ⟨e1, e2, e3, e4, e5⟩ := unfuseA_fields hcf
    exact step2 cf (unfuseA_core cf0 cf ax1 hcore hcf) ⟨e1, e2, e3, e4, e5⟩ h
  · rw [pure_bind] at h
    exact step2 cf0 hcore ⟨rfl, rfl, rfl, rfl, rfl⟩ h

theorem tensordotViaFused_core [Zero R] [Add R] [Mul R] (a b r : Arr R) (axesA axesB : List Nat)
    (ha : Core a) (hb : Core b) (hsym : a.sym = b.sym)
    (hd : (permuted b.indices axesB).map Index.dual
      = (permuted a.indices axesA).map (fun ix => !ix.dual))
    (hlen : axesA.length = axesB.length)
    (hnA : axesA.Nodup) (hnB : axesB.Nodup)
    (hA : ∀ i ∈ axesA, i < a.ndim) (hB : ∀ i ∈ axesB, i < b.ndim)
    (h : tensordotViaFused a b (without (List.range a.ndim) axesA) axesA axesB
      (without (List.range b.ndim) axesB) = .ok r) :
    Core r ∧ r.sym = a.sym ∧ r.fermi = a.fermi ∧ r.charge = a.sym.combine [a.charge, b.charge]
      ∧ r.phases = a.phases ∧ r.oddpos = a.oddpos := by
  obtain ⟨ca', cb', fa', fb', da', db'⟩ := dropMisaligned_core a b axesA axesB ha hb
  unfold tensordotViaFused at h
  dsimp only at h
  generalize (dropMisaligned a b axesA axesB).1 = a' at *
  generalize (dropMisaligned a b axesA axesB).2 = b' at *
  have hna' : a'.ndim = a.ndim := by
    have := congrArg List.length da'; simpa [Arr.ndim] using this
  have hnb' : b'.ndim = b.ndim := by
    have := congrArg List.length db'; simpa [Arr.ndim] using this
  split at h
  · -- no aligned sector: an empty array
    simp only [pure, Except.pure, Except.ok.injEq] at h
    subst h
    refine ⟨⟨?_, ?_, by simp, by simp⟩, fa'.sym, fa'.fermi, ?_, fa'.phases, fa'.oddpos⟩
    · intro i hi
      show Index.wfB a'.sym i = true
      rcases List.mem_append.mp hi with h1 | h1
      · exact ca'.idx i (mem_without h1)
      · rw [fa'.sym, hsym, ← fb'.sym]; exact cb'.idx i (mem_without h1)
    · exact Sym.combine_valid _ _
    · show a'.sym.combine [a'.charge, b'.charge] = _
      rw [fa'.sym, fa'.charge, fb'.charge]
  · -- fuse, contract, unfuse
    obtain ⟨af, haf, h⟩ := bind_ok h
    obtain ⟨bf, hbf, h⟩ := bind_ok h
    set left := without (List.range a.ndim) axesA with hleft
    set right := without (List.range b.ndim) axesB with hright
    have hpA : (left ++ axesA).Perm (List.range a'.ndim) := by
      rw [hna']; exact without_append_perm hnA hA
    have hpB : (axesB ++ right).Perm (List.range b'.ndim) := by
      rw [hnb']; exact List.perm_append_comm.trans (without_append_perm hnB hB)
    obtain ⟨caf, faf, daf⟩ := fuseA_pair_props ca' hpA haf
    obtain ⟨cbf, fbf, dbf⟩ := fuseA_pair_props cb' hpB hbf
    -- the matrix contraction
    obtain ⟨p1, p2, p3, p4⟩ := lkaOf_props (fun g => a'.duals.getD (g.headD 0) false) left axesA
    obtain ⟨q1, q2, q3, q4⟩ := kbrOf_props (fun g => b'.duals.getD (g.headD 0) false) axesB right
    rw [← daf] at p2 p3 p4
    rw [← dbf] at q2 q3 q4
    simp only [List.length_map] at p2 p3 q2 q3
    have hcf : Core (tensordotBlockwise af bf (lkaOf left axesA).1 (lkaOf left axesA).2
        (kbrOf axesB right).1 (kbrOf axesB right).2) := by
      rw [p3, q3]
      apply tensordotBlockwise_core' af bf _ _ caf cbf
        (by rw [faf.sym, fbf.sym, fa'.sym, fb'.sym]; exact hsym) _ p1 q1 p2 q2
      -- directions of the fused contracted indices
      have e1 : (permuted af.indices (lkaOf left axesA).2).map (fun ix => !ix.dual)
          = (permuted (af.indices.map Index.dual) (lkaOf left axesA).2).map (fun d => !d) := by
        rw [permuted_map, List.map_map]; rfl
      rw [e1, ← permuted_map, p4, q4]
      cases hxa : axesA with
      | nil =>
        have : axesB = [] := by
          rw [hxa] at hlen; exact List.eq_nil_of_length_eq_zero hlen.symm
        rw [this]; rfl
      | cons i xa =>
        cases hxb : axesB with
        | nil => rw [hxa, hxb] at hlen; simp at hlen
        | cons j xb =>
          simp only [List.isEmpty_cons, Bool.false_eq_true, if_false, List.map_cons, List.map_nil,
            List.headD_cons]
          have hi : i < a.indices.length := hA i (by rw [hxa]; simp)
          have hj : j < b.indices.length := hB j (by rw [hxb]; simp)
          rw [hxa, hxb, permuted_cons _ _ _ hi, permuted_cons _ _ _ hj, List.map_cons,
            List.map_cons] at hd
          have hhead := (List.cons.inj hd).1
          have ea : a'.duals.getD i false = a.indices[i].dual := by
            show (a'.indices.map Index.dual).getD i false = _
            rw [da']; simp [List.getD_eq_getElem?_getD, hi]
          have eb : b'.duals.getD j false = b.indices[j].dual := by
            show (b'.indices.map Index.dual).getD j false = _
            rw [db']; simp [List.getD_eq_getElem?_getD, hj]
          rw [ea, eb, hhead]
    obtain ⟨hr, fr⟩ := fused_tail _ r _ _ _ hcf h
    refine ⟨hr, ?_, ?_, ?_, ?_, ?_⟩
    · rw [fr.sym]; show af.sym = a.sym; rw [faf.sym, fa'.sym]
    · rw [fr.fermi]; show af.fermi = a.fermi; rw [faf.fermi, fa'.fermi]
    · rw [fr.charge]
      show af.sym.combine [af.charge, bf.charge] = _
      rw [faf.sym, faf.charge, fbf.charge, fa'.sym, fa'.charge, fb'.charge]
    · rw [fr.phases]; show af.phases = a.phases; rw [faf.phases, fa'.phases]
    · rw [fr.oddpos]; show af.oddpos = a.oddpos; rw [faf.oddpos, fa'.oddpos]

/-- `tensordot_abelian` in every mode preserves the sign-free clauses of validity -/
theorem tdotASpec_all [Zero R] [Add R] [Mul R] (mode : TdotMode) : TdotASpec R mode := by
  intro a b c axesA axesB ha hb hsym hd hlen hnA hnB hA hB h
  unfold tensordotA at h
  rw [parseAxes_nat a.ndim b.ndim axesA axesB hlen hA hB] at h
  simp only [bind, Except.bind] at h
  have hblock : (pure (tensordotBlockwise a b (without (List.range a.ndim) axesA) axesA axesB
      (without (List.range b.ndim) axesB)) : Except Err (Arr R)) = Except.ok c →
      Core c ∧ c.sym = a.sym ∧ c.fermi = a.fermi ∧ c.charge = a.sym.combine [a.charge, b.charge]
        ∧ c.phases = a.phases ∧ c.oddpos = a.oddpos := by
    intro h'
    simp only [pure, Except.pure, Except.ok.injEq] at h'
    subst h'
    exact ⟨tensordotBlockwise_core' a b axesA axesB ha hb hsym hd hnA hnB hA hB, rfl, rfl, rfl, rfl, rfl⟩
  have hfused := tensordotViaFused_core a b c axesA axesB ha hb hsym hd hlen hnA hnB hA hB
  cases mode with
  | blockwise => exact hblock h
  | fused => exact hfused h
  | auto =>
    by_cases he : axesA.isEmpty = true
    · simp only [he, if_true] at h; exact hblock h
    · simp only [he, if_false] at h; exact hfused h

/-- `tensordot_abelian(a, b, axes, mode)` for abelian operands, every mode -/
theorem tensordotA_valid_all [Zero R] [Add R] [Mul R] (mode : TdotMode) (a b r : Arr R)
    (axesA axesB : List Nat) (ha : Valid a) (hb : Valid b) (hfa : a.fermi = false)
    (hadm : tdotAdmissibleB a b axesA axesB = true)
    (h : tensordotA a b (.pair (axesA.map Int.ofNat) (axesB.map Int.ofNat)) mode = .ok r) :
    Valid r := by
  unfold tdotAdmissibleB at hadm
  simp only [Bool.and_eq_true, decide_eq_true_eq, allDistinct_iff, List.all_eq_true] at hadm
  obtain ⟨⟨⟨⟨⟨hsym, hc⟩, hnA⟩, hnB⟩, hA⟩, hB⟩ := hadm
  have hc' := contractible_opposite hc
  unfold oppositeDualsB at hc'
  simp only [Bool.and_eq_true, beq_iff_eq, List.all_eq_true] at hc'
  have hd := opposite_duals_permuted a.indices b.indices axesA axesB hc'.1 hA hB hc'.2
  obtain ⟨hcore, e1, e2, e3, e4, e5⟩ := tdotASpec_all mode a b r axesA axesB ha.core hb.core hsym hd
    hc'.1 hnA hnB hA hB h
  refine Valid.of hcore ?_
  have hs := ha.sgn
  unfold SignsOk at hs ⊢
  simp only [hfa, Bool.false_eq_true, if_false] at hs
  rw [e2, e4, e5, hfa, hs.1, hs.2]
  simp

/-- `tensordot_fermionic(a, b, axes, mode)`, every mode -/
theorem tensordotF_valid_all [Zero R] [Add R] [Mul R] [Neg R] (mode : TdotMode) (a b r : Arr R)
    (axesA axesB : List Nat) (ha : Valid a) (hb : Valid b)
    (hfa : a.fermi = true) (hfb : b.fermi = true)
    (hadm : tdotAdmissibleB a b axesA axesB = true)
    (h : Arr.tensordotF a b (.pair (axesA.map Int.ofNat) (axesB.map Int.ofNat)) mode = .ok r) :
    Valid r :=
  tensordotF_valid_of_spec mode (tdotASpec_all mode) a b r axesA axesB ha hb hfa hfb hadm h

end ValidP
end SymmModel
