/-
  SymmModel.Proofs.FuseFermi6 — the flip part of the fermionic fuse sign factorises over the dual
  groups: one factor `(-1)^(number of odd charges on the non-dual legs)` per dual group.
-/
import SymmModel.Proofs.FuseFermi5
namespace SymmModel
namespace FuseP
set_option linter.unusedSectionVars false
open SymmModel.Lazy

variable {R : Type}

theorem sign_add_parity (m n : Nat) :
    (if ((m + n) % 2 == 1) = true then (-1 : Int) else 1)
      = (if (m % 2 == 1) = true then (-1 : Int) else 1) * (if (n % 2 == 1) = true then (-1 : Int) else 1) := by
  rcases Nat.mod_two_eq_zero_or_one m with h1 | h1 <;> rcases Nat.mod_two_eq_zero_or_one n with h2 | h2 <;>
    simp [Nat.add_mod, h1, h2]

theorem flipSign_append (sym : Sym) (l1 l2 : List Nat) (S : Sector) :
    flipSign sym (l1 ++ l2) S = flipSign sym l1 S * flipSign sym l2 S := by
  simp only [flipSign, flipOdd, List.filter_append, List.length_append]
  exact sign_add_parity _ _

theorem flipSign_nil (sym : Sym) (S : Sector) : flipSign sym [] S = 1 := by
  simp [flipSign, flipOdd]

theorem flipSign_flatMap (sym : Sym) (gs : List (List Nat)) (f : List Nat → List Nat) (S : Sector) :
    flipSign sym (gs.flatMap f) S = (gs.map (fun g => flipSign sym (f g) S)).foldr (· * ·) 1 := by
  induction gs with
  | nil => simp [flipSign_nil]
  | cons g gs ih => simp [List.flatMap_cons, flipSign_append, ih]

/-- the flip part of the sign of the fermionic fuse: a product over the dual groups of
    `flipSign` on the group's non-dual legs -/
theorem fuseSignT_flip [Zero R] [Neg R] (a : Arr R) (groups : List (List Nat)) (S : Sector) :
    flipSign a.sym (axesFlipF a groups) S
      = ((dualGroupsF a groups).map (fun g => flipSign a.sym (g.filter (fun ax =>
          !((a.transposeF (calcFuseGroupInfo groups a.duals).perm).indices.getD ax default).dual)) S)).foldr (· * ·) 1 := by
  unfold axesFlipF
  exact flipSign_flatMap _ _ _ _

end FuseP
end SymmModel
