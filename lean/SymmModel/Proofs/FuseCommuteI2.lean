/-
  SymmModel.Proofs.FuseCommuteI2 — (1) every contraction mode agrees with the blockwise result at
  EVERY address of the result's table box (stored sector or not), from `C06.tensordotA_modes_agree_all`;
  (2) the result addresses used by the free-leg-group theorems lie in the result's table box.
  Namespace `SymmModel.TdotP`.
-/
import SymmModel.Proofs.FuseCommuteI1
import SymmModel.Props.C06h

namespace SymmModel
namespace TdotP
variable {R : Type}

/-- **all modes, every table-box address.**  For every admissible abelian call and every `mode`,
    `tensordot` succeeds, and at every address `(K, J)` — `K` any sector with a block shape in the
    un-pruned result tables, `J` in that box — its result holds the blockwise result's element
    (both `0` when the sector is stored by neither; an extra stored block of the fused route is zero). -/
theorem modes_agree_tableBox [AddCommMonoid R] [Mul R] [Neg R]
    (hz1 : ∀ x : R, 0 * x = 0) (hz2 : ∀ x : R, x * 0 = 0) (a b : Arr R) (axes : AxesArg)
    (xa xb : List Nat) (hparse : parseAxes a.ndim b.ndim axes = .ok (xa, xb))
    (ha : a.validB = true) (hb : b.validB = true) (hfa : a.fermi = false) (hfb : b.fermi = false)
    (hsym : a.sym = b.sym) (hc : ValidP.contractibleB a b xa xb = true)
    (hnA : xa.Nodup) (hnB : xb.Nodup) (hA : ∀ x ∈ xa, x < a.ndim) (hB : ∀ x ∈ xb, x < b.ndim)
    (mode : TdotMode) :
    ∃ cm, tensordotA a b axes mode = .ok cm
      ∧ ∀ (K : Sector) (J shp : List Nat),
          Arr.blockShape? (without a.indices xa ++ without b.indices xb) K = some shp → inBox shp J = true →
          cm.elem K J = (tensordotBlockwise a b (freeAxes a.ndim xa) xa xb (freeAxes b.ndim xb)).elem K J := by
  obtain ⟨c, bw, k1, k2, k3, k4, _, _, _, kph, _, _, k11, _, k13, k14⟩ :=
    C06.tensordotA_modes_agree_all hz1 hz2 a b axes xa xb hparse ha hb hfa hfb hsym hc hnA hnB hA hB
  rw [tensordotA_blockwise_ok a b axes xa xb hparse] at k2
  obtain rfl := Except.ok.inj k2
  have hpa : a.phases = [] := phases_nil_of_validB ha hfa
  have hpc : c.phases = [] := kph.trans hpa
  have key : ∀ (K : Sector) (J shp : List Nat),
      Arr.blockShape? (without a.indices xa ++ without b.indices xb) K = some shp → inBox shp J = true →
      c.elem K J = (tensordotBlockwise a b (freeAxes a.ndim xa) xa xb (freeAxes b.ndim xb)).elem K J := by
    intro K J shp hs hJ
    cases hl : alookup c.blocks K with
    | some V =>
      have := k14 K V hl
      rw [hs] at this
      obtain rfl := Option.some.inj this
      exact k13 K V hl J hJ
    | none =>
      have hK : K ∉ c.sectors := by
        have := alookup_eq_none_iff.mp hl
        simpa [akeys, Arr.sectors] using this
      rw [Arr.elem_of_not_mem hK, Arr.elem_of_not_mem (fun hm => hK (k11 K hm))]
  cases mode with
  | blockwise => exact ⟨_, tensordotA_blockwise_ok a b axes xa xb hparse, fun _ _ _ _ _ => rfl⟩
  | fused => exact ⟨c, k1, key⟩
  | auto =>
    by_cases hx : xa = []
    · exact ⟨_, k4 hx, fun _ _ _ _ _ => rfl⟩
    · exact ⟨c, k3 hx, key⟩

/-- result address "free part of a full address of the left operand, then an address of the right
    operand's free legs" lies in the result's table box -/
theorem tableBox_left {X Y : Arr R} {xx xy : List Nat} {M : Sector} {O shp : List Nat}
    {Rs : Sector} {oR shpR : List Nat}
    (hM : Arr.blockShape? X.indices M = some shp) (hO : inBox shp O = true)
    (hR : Arr.blockShape? (permuted Y.indices (freeAxes Y.ndim xy)) Rs = some shpR)
    (hbR : inBox shpR oR = true) :
    ∃ s, Arr.blockShape? (without X.indices xx ++ without Y.indices xy) (permuted M (freeAxes X.ndim xx) ++ Rs)
          = some s
      ∧ inBox s (permuted O (freeAxes X.ndim xx) ++ oR) = true := by
  have eX : X.indices.length = X.ndim := rfl
  have eY : Y.indices.length = Y.ndim := rfl
  have hlt : ∀ x ∈ freeAxes X.ndim xx, x < X.ndim := fun x hx => (mem_freeAxes.mp hx).1
  have hshl : shp.length = X.ndim := (blockShape?_length hM).2
  have h1 := blockShape?_permuted hM (freeAxes X.ndim xx) hlt
  have h2 : inBox (permuted shp (freeAxes X.ndim xx)) (permuted O (freeAxes X.ndim xx)) = true :=
    inBox_permuted hO _ (by intro q hq; rw [hshl]; exact hlt q hq)
  refine ⟨permuted shp (freeAxes X.ndim xx) ++ shpR, ?_, ?_⟩
  · rw [without_eq_permuted_freeAxes, without_eq_permuted_freeAxes, eX, eY]
    exact blockShape?_append h1 hR
  · rw [inBox_append (inBox_length h2), h2, hbR]; rfl

/-- mirror image: an address of the left operand's free legs, then the free part of a full address
    of the right operand -/
theorem tableBox_right {X Y : Arr R} {xx xy : List Nat} {M : Sector} {O shp : List Nat}
    {Ls : Sector} {oL shpL : List Nat}
    (hL : Arr.blockShape? (permuted X.indices (freeAxes X.ndim xx)) Ls = some shpL)
    (hbL : inBox shpL oL = true)
    (hM : Arr.blockShape? Y.indices M = some shp) (hO : inBox shp O = true) :
    ∃ s, Arr.blockShape? (without X.indices xx ++ without Y.indices xy) (Ls ++ permuted M (freeAxes Y.ndim xy))
          = some s
      ∧ inBox s (oL ++ permuted O (freeAxes Y.ndim xy)) = true := by
  have eX : X.indices.length = X.ndim := rfl
  have eY : Y.indices.length = Y.ndim := rfl
  have hlt : ∀ x ∈ freeAxes Y.ndim xy, x < Y.ndim := fun x hx => (mem_freeAxes.mp hx).1
  have hshl : shp.length = Y.ndim := (blockShape?_length hM).2
  have h1 := blockShape?_permuted hM (freeAxes Y.ndim xy) hlt
  have h2 : inBox (permuted shp (freeAxes Y.ndim xy)) (permuted O (freeAxes Y.ndim xy)) = true :=
    inBox_permuted hO _ (by intro q hq; rw [hshl]; exact hlt q hq)
  refine ⟨shpL ++ permuted shp (freeAxes Y.ndim xy), ?_, ?_⟩
  · rw [without_eq_permuted_freeAxes, without_eq_permuted_freeAxes, eX, eY]
    exact blockShape?_append hL h1
  · rw [inBox_append (inBox_length hbL), hbL, h2]; rfl

end TdotP
end SymmModel
