/-
  SymmModel.Proofs.ReshapeMore — content preservation of unfuse / fuse / expand_dims / squeeze and
  of whole reshape plans (C07b), helper lemmas.  New names live in `SymmModel.ReshapeP`.
-/
import SymmModel.Proofs.DenseMore
import SymmModel.Props.C05b
import SymmModel.Props.C07
import SymmModel.Props.C01
import SymmModel.Props.C12

namespace SymmModel
namespace ReshapeP
open DenseP

variable {R : Type}

/-! ## A3: reshaping to the current shape -/

theorem indexOf?_none_of_not_mem {α : Type} [BEq α] [LawfulBEq α] {l : List α} {a : α} (h : a ∉ l) :
    indexOf? l a = none := by
  induction l with
  | nil => rfl
  | cons x l ih =>
    simp only [List.mem_cons, not_or] at h
    have : (x == a) = false := by simpa using fun e => h.1 e.symm
    simp [indexOf?, this, ih h.2]

theorem findFullReshape_nat (shape : List Nat) (size : Nat) :
    findFullReshape (shape.map Int.ofNat) size = .ok (shape.map Int.ofNat) := by
  unfold findFullReshape
  rw [indexOf?_none_of_not_mem (by
    intro h
    obtain ⟨d, _, hd⟩ := List.mem_map.mp h
    have : (0 : Int) ≤ Int.ofNat d := Int.natCast_nonneg d
    omega)]
  rfl

theorem mapM_toNat (shape : List Nat) :
    (shape.map Int.ofNat).mapM
      (fun (d : Int) => if d < 0 then (throw Err.notimpl : Except Err Nat) else pure d.toNat)
      = .ok shape := by
  induction shape with
  | nil => rfl
  | cons d l ih =>
    rw [List.map_cons, List.mapM_cons, ih]
    have : ¬ (Int.ofNat d < 0) := by
      have h0 : (0 : Int) ≤ Int.ofNat d := Int.natCast_nonneg d
      omega
    simp only [this, if_false, bind, Except.bind, pure, Except.pure]
    rfl

theorem subsizes_nones (a : Arr R) (h : ∀ ix ∈ a.indices, ix.sub = none) :
    a.subsizes = C07.nones a.shape := by
  simp only [Arr.subsizes, C07.nones, Arr.shape, List.map_map]
  apply List.map_congr_left
  intro ix hix
  simp [h ix hix]

/-- for an array without fused axes `reshape(shape)` is the identity, exactly -/
theorem reshapeArr_self [Zero R] [Neg R] (a : Arr R) (h : ∀ ix ∈ a.indices, ix.sub = none) :
    reshapeArr a (a.shape.map Int.ofNat) = .ok a := by
  unfold reshapeArr
  simp only [bind, Except.bind, findFullReshape_nat, mapM_toNat, subsizes_nones a h,
    C07.reshape_self_id a.shape]
  rfl

/-! ## content of an array: additive statistics of the stored entries -/

section content

/-- Σ of `g` over the data of one block -/
def blkSum {M : Type} [AddCommMonoid M] (g : R → M) (b : Blk R) : M := (b.data.toList.map g).sum

/-- Σ of `g` over all stored entries -/
def entrySum {M : Type} [AddCommMonoid M] (g : R → M) (a : Arr R) : M :=
  (a.blocks.map (fun p => blkSum g p.2)).sum

/-- **same content**: every additive statistic `Σ g(entry)` with `g 0 = 0` of the stored entries
    agrees.  (Equivalently: the multisets of non-zero stored entries agree; see
    `SameContent.perm_nonzero`.  Stored zeros may be added or dropped.) -/
def SameContent [Zero R] (a b : Arr R) : Prop :=
  ∀ (M : Type) [AddCommMonoid M] (g : R → M), g 0 = 0 → entrySum g a = entrySum g b

theorem SameContent.refl [Zero R] (a : Arr R) : SameContent a a := fun _ _ _ _ => rfl
theorem SameContent.symm [Zero R] {a b : Arr R} (h : SameContent a b) : SameContent b a :=
  fun M _ g hg => (h M g hg).symm
theorem SameContent.trans [Zero R] {a b c : Arr R} (h1 : SameContent a b) (h2 : SameContent b c) :
    SameContent a c := fun M _ g hg => (h1 M g hg).trans (h2 M g hg)

/-- content only depends on the list of stored data -/
theorem sameContent_of_storedData [Zero R] {a b : Arr R} (h : C07.storedData a = C07.storedData b) :
    SameContent a b := by
  intro M _ g _
  have : ∀ x : Arr R, entrySum g x = ((C07.storedData x).map (fun d => (d.toList.map g).sum)).sum := by
    intro x; simp [entrySum, blkSum, C07.storedData, List.map_map, Function.comp_def]
  rw [this, this, h]

variable {M : Type} [AddCommMonoid M]

theorem blkSum_eq_box [Zero R] (g : R → M) (b : Blk R) (hwf : b.wf = true) :
    blkSum g b = ((allIdx b.shape).map (fun i => g (b.get i))).sum := by
  rw [blkSum, ← allIdx_map_get b hwf, List.map_map]; rfl

theorem blkSum_ofFn (g : R → M) (s : List Nat) (f : List Nat → R) :
    blkSum g (Blk.ofFn s f) = ((allIdx s).map (fun i => g (f i))).sum := by
  simp [blkSum, Blk.ofFn, List.map_map, Function.comp_def]

/-- sums over the box of a concatenated shape -/
theorem sum_allIdx_append (A C : List Nat) (F : List Nat → M) :
    ((allIdx (A ++ C)).map F).sum
      = ((allIdx A).map (fun a => ((allIdx C).map (fun c => F (a ++ c))).sum)).sum := by
  induction A generalizing F with
  | nil => simp [allIdx]
  | cons d ds ih =>
    simp only [List.cons_append, allIdx]
    rw [sum_map_flatMap, sum_map_flatMap]
    apply sum_map_congr
    intro i _
    simp only [List.map_map, Function.comp_def]
    exact ih (fun r => F (i :: r))

theorem sum_allIdx_one (D : Nat) (F : List Nat → M) :
    ((allIdx [D]).map F).sum = ((List.range D).map (fun i => F [i])).sum := by
  rw [allIdx_one, List.map_map]; rfl

/-- prefix sums: summing over the pieces `[st, st + d)` of an extent = summing over `[0, total)` -/
theorem sum_zip_offsets {β : Type} (ext : List (β × Nat)) (F : Nat → M) :
    ((ext.zip (offsets (ext.map (·.2)))).map (fun q =>
        ((List.range q.1.2).map (fun t => F (q.2 + t))).sum)).sum
      = ((List.range (sumN (ext.map (·.2)))).map F).sum := by
  induction ext generalizing F with
  | nil => simp [offsets, sumN]
  | cons e rest ih =>
    simp only [List.map_cons, offsets, List.zip_cons_cons, List.sum_cons, sumN, List.range_add,
      List.map_append, List.sum_append, Nat.zero_add, List.map_map]
    congr 1
    rw [List.zip_map_right, List.map_map]
    have := ih (fun q => F (e.2 + q))
    refine Eq.trans ?_ (this.trans rfl)
    apply sum_map_congr
    intro q _
    apply sum_map_congr
    intro t _
    simp only [Prod.map, id]
    congr 1
    omega

/-! ### one block and its `unfuse` pieces -/

/-- the entries of a block = the entries of the slices cut along one axis at the extents'
    offsets (the reshape of each slice does not touch the data) -/
theorem blkSum_pieces [Zero R] (g : R → M) (B : Blk R) (hwf : B.wf = true) (p : Nat)
    (hp : p < B.shape.length) {β : Type} (ext : List (β × Nat))
    (htot : sumN (ext.map (·.2)) = B.shape.getD p 0) (newshape : β × Nat → List Nat) :
    ((ext.zip (offsets (ext.map (·.2)))).map (fun q =>
        blkSum g ((B.sliceK ((List.replicate B.shape.length 0).set p q.2) (B.shape.set p q.1.2)).reshapeK
          (newshape q.1)))).sum
      = blkSum g B := by
  have hsplit : B.shape = B.shape.take p ++ [B.shape.getD p 0] ++ B.shape.drop (p + 1) :=
    FuseP.list_split_at B.shape p 0 hp
  have hpre : (B.shape.take p).length = p := by simp only [List.length_take]; omega
  -- the value read at pre-offsets `a`, position `i` on the axis, post-offsets `c`
  let H : List Nat → Nat → List Nat → M := fun a i c => g (B.get (a ++ [i] ++ c))
  have hpiece : ∀ q : (β × Nat) × Nat,
      blkSum g ((B.sliceK ((List.replicate B.shape.length 0).set p q.2) (B.shape.set p q.1.2)).reshapeK
          (newshape q.1))
        = ((allIdx (B.shape.take p)).map (fun a => ((List.range q.1.2).map (fun t =>
            ((allIdx (B.shape.drop (p + 1))).map (fun c => H a (q.2 + t) c)).sum)).sum)).sum := by
    intro q
    have hd : ((B.sliceK ((List.replicate B.shape.length 0).set p q.2) (B.shape.set p q.1.2)).reshapeK
        (newshape q.1)).data = (Blk.ofFn (B.shape.set p q.1.2)
          (fun i => B.get (List.zipWith (· + ·) i ((List.replicate B.shape.length 0).set p q.2)))).data := rfl
    rw [blkSum, hd, ← blkSum, blkSum_ofFn, FuseP.set_split_at _ _ _ hp, sum_allIdx_append,
      sum_allIdx_append]
    apply sum_map_congr
    intro a ha
    have hal : a.length = p := by rw [inBox_length (mem_allIdx.mp ha), hpre]
    rw [sum_allIdx_one]
    apply sum_map_congr
    intro t _
    apply sum_map_congr
    intro c hc
    have hcl : c.length = (B.shape.drop (p + 1)).length := inBox_length (mem_allIdx.mp hc)
    have hil : (a ++ [t] ++ c).length = B.shape.length := by
      simp only [List.length_append, List.length_singleton, hal, hcl, List.length_drop]; omega
    simp only [H]
    rw [FuseP.zipWith_add_set hil]
    have hget : (a ++ [t] ++ c).getD p 0 = t := by
      have := FuseP.getD_mid a [t] c 0 0 (by simp)
      rw [hal] at this; simpa using this
    have hset := FuseP.set_mid a c t (t + q.2)
    rw [hal] at hset
    rw [hget, hset, Nat.add_comm]
  rw [sum_map_congr (fun q _ => hpiece q), sum_comm]
  rw [blkSum_eq_box g B hwf]
  conv_rhs => rw [hsplit, sum_allIdx_append, sum_allIdx_append]
  apply sum_map_congr
  intro a _
  rw [sum_allIdx_one, ← htot]
  exact sum_zip_offsets ext (fun i => ((allIdx (B.shape.drop (p + 1))).map (fun c => H a i c)).sum)

/-! ### `unfuse` keeps the content -/

theorem replaceWithSeq_inj {α : Type} (l : List α) (p : Nat) {s1 s2 : List α}
    (h : replaceWithSeq l p s1 = replaceWithSeq l p s2) : s1 = s2 := by
  simp only [replaceWithSeq, List.append_assoc] at h
  exact List.append_cancel_right (List.append_cancel_left h)

theorem map_zip_fst {α β γ : Type} (l : List α) (r : List β) (f : α → γ) (h : l.length = r.length) :
    (l.zip r).map (fun q => f q.1) = l.map f := by
  induction l generalizing r with
  | nil => rfl
  | cons a l ih =>
    cases r with
    | nil => simp at h
    | cons b r => simp [ih r (by simpa using h)]

theorem length_offsets (l : List Nat) : (offsets l).length = l.length := by
  induction l with
  | nil => rfl
  | cons d ds ih => simp [offsets, ih]

/-- the keys of the pieces of `unfuse` are pairwise distinct -/
theorem pieces_keys_nodup [Zero R] {x : Arr R} {p : Nat} {ix : Index} {subs : List Index}
    {exts : Extents} (hv : FuseP.ValidArr x) (hix : x.indices[p]? = some ix)
    (hsub : ix.sub = some (subs, exts)) :
    ((x.blocks.flatMap (FuseP.piecesOf subs exts p)).map (·.1)).Nodup := by
  rw [List.map_flatMap]
  rw [List.nodup_flatMap]
  constructor
  · intro n hn
    obtain ⟨_, _, _, e, he, hok⟩ := FuseP.block_at_axis hv hix hsub hn
    have : (FuseP.piecesOf subs exts p n).map (·.1) = e.map (fun q => replaceWithSeq n.1 p q.1) := by
      simp only [FuseP.piecesOf, he, Option.getD_some, List.map_map, Function.comp_def]
      exact map_zip_fst e _ (fun q => replaceWithSeq n.1 p q.1) (by simp [length_offsets])
    rw [this]
    have h2 : e.map (fun q => replaceWithSeq n.1 p q.1) = (e.map (·.1)).map (replaceWithSeq n.1 p) := by
      rw [List.map_map]; rfl
    rw [h2]
    exact hok.nodup.map_on (fun a _ b _ hab => replaceWithSeq_inj n.1 p hab)
  · have hnd : x.blocks.Nodup := List.Nodup.of_map _ hv.nodup
    refine List.Pairwise.imp_of_mem ?_ hnd
    intro n1 n2 h1 h2 hne
    simp only [Function.onFun, List.disjoint_left]
    intro K hK1 hK2
    obtain ⟨⟨K1, V1⟩, hm1, rfl⟩ := List.mem_map.mp hK1
    obtain ⟨⟨K2, V2⟩, hm2, hk⟩ := List.mem_map.mp hK2
    simp only at hk
    subst hk
    have hm1' : (K2, V1) ∈ x.blocks.flatMap (FuseP.piecesOf subs exts p) :=
      List.mem_flatMap.mpr ⟨n1, h1, hm1⟩
    have hm2' : (K2, V2) ∈ x.blocks.flatMap (FuseP.piecesOf subs exts p) :=
      List.mem_flatMap.mpr ⟨n2, h2, hm2⟩
    -- the piece of `n1` / of `n2` with that key
    obtain ⟨_, _, _, e1, he1, hok1⟩ := FuseP.block_at_axis hv hix hsub h1
    obtain ⟨_, _, _, e2, he2, hok2⟩ := FuseP.block_at_axis hv hix hsub h2
    simp only [FuseP.piecesOf, he1, he2, Option.getD_some, List.mem_map] at hm1 hm2
    obtain ⟨⟨⟨s1, d1⟩, st1⟩, hq1, hk1⟩ := hm1
    obtain ⟨⟨⟨s2, d2⟩, st2⟩, hq2, hk2⟩ := hm2
    simp only [Prod.mk.injEq] at hk1 hk2
    have hs1 := (FuseP.mem_zip_offsets hok1.nodup).1 hq1
    have hs2 := (FuseP.mem_zip_offsets hok2.nodup).1 hq2
    exact hne (FuseP.keyU_inj hv hix hsub h1 h2 he1 hs1 he2 hs2 (hk1.1.trans hk2.1.symm)).1

/-- **unfuse keeps the content** (any valid array; the reshape of each slice does not touch the
    data, the slices partition each block) -/
theorem unfuseA_sameContent [Zero R] (x y : Arr R) (axis : Nat) (hv : x.validB = true)
    (h : unfuseA x axis = .ok y) : SameContent x y := by
  have hva := FuseP.validArr_of_validB hv
  cases hix : x.indices[axis]? with
  | none =>
    simp [unfuseA, hix, bind, Except.bind, throw, throwThe, MonadExceptOf.throw] at h
  | some ix =>
    cases hsub : ix.sub with
    | none =>
      simp [unfuseA, hix, hsub, bind, Except.bind, pure, Except.pure, throw, throwThe,
        MonadExceptOf.throw] at h
    | some se =>
      obtain ⟨subs, exts⟩ := se
      have hy := FuseP.unfuseA_eq x axis ix subs exts hix hsub (by
        intro sb hsb
        obtain ⟨_, _, _, e, he, hok⟩ := FuseP.block_at_axis hva hix hsub hsb
        refine ⟨e, he, ?_⟩
        intro q hq
        obtain ⟨_, ⟨shp, hshp, _⟩, _⟩ := hok.entry q.1 q.2 hq
        exact ⟨shp, hshp⟩)
      rw [hy] at h
      injection h with h
      have hbl : y.blocks = x.blocks.flatMap (FuseP.piecesOf subs exts axis) := by
        rw [← h]; exact adict_of_nodup _ (pieces_keys_nodup hva hix hsub)
      intro M _ g _
      simp only [entrySum]
      rw [hbl, sum_map_flatMap]
      symm
      apply sum_map_congr
      intro n hn
      obtain ⟨hp, hl1, hl2, e, he, hok⟩ := FuseP.block_at_axis hva hix hsub hn
      simp only [FuseP.piecesOf, he, Option.getD_some, List.map_map, Function.comp_def]
      exact blkSum_pieces g n.2 (hva.blk n hn).2.2 axis (by omega) e hok.total
        (fun q => replaceWithSeq n.2.shape axis ((Arr.blockShape? subs q.1).getD []))

theorem unfuseA_fermi [Zero R] (x y : Arr R) (axis : Nat) (h : unfuseA x axis = .ok y) :
    y.fermi = x.fermi ∧ y.phases = x.phases := by
  cases hix : x.indices[axis]? with
  | none =>
    simp [unfuseA, hix, bind, Except.bind, throw, throwThe, MonadExceptOf.throw] at h
  | some ix =>
    cases hsub : ix.sub with
    | none =>
      simp [unfuseA, hix, hsub, bind, Except.bind, pure, Except.pure, throw, throwThe,
        MonadExceptOf.throw] at h
    | some se =>
      simp only [unfuseA, hix, hsub, bind, Except.bind, pure, Except.pure] at h
      split at h
      · cases h
      · injection h with h; rw [← h]; exact ⟨rfl, rfl⟩

/-! ### `transpose` of a block keeps its entries -/

theorem allIdx_nodup : ∀ s : List Nat, (allIdx s).Nodup
  | [] => by simp [allIdx]
  | d :: ds => by
    simp only [allIdx]
    rw [List.nodup_flatMap]
    refine ⟨fun i _ => (allIdx_nodup ds).map (fun x y hxy => (List.cons.inj hxy).2), ?_⟩
    refine List.Pairwise.imp ?_ (List.nodup_range (n := d))
    intro a b hab
    simp only [Function.onFun, List.disjoint_left, List.mem_map]
    rintro s ⟨r, _, rfl⟩ ⟨r', _, h'⟩
    exact hab (List.cons.inj h').1.symm

theorem prod_perm {l1 l2 : List Nat} (h : l1.Perm l2) : prod l1 = prod l2 := by
  induction h with
  | nil => rfl
  | cons x _ ih => simp [prod, ih]
  | swap x y l => simp only [prod]; rw [Nat.mul_left_comm]
  | trans _ _ ih1 ih2 => exact ih1.trans ih2

theorem permuted_perm {α : Type} {axes : List Nat} {n : Nat} (hperm : Arr.isPerm axes n = true)
    (l : List α) (hl : l.length = n) : (permuted l axes).Perm l := by
  have hlt := isPerm_lt hperm
  have h1 : permuted l axes = axes.filterMap (fun q => l[q]?) := rfl
  have h2 : l = (List.range n).filterMap (fun q => l[q]?) := by
    apply List.ext_getElem?
    intro k
    by_cases hk : k < n
    · have : (List.range n).filterMap (fun q => l[q]?) = permuted l (List.range n) := rfl
      rw [this, getElem?_permuted l _ (fun q hq => by rw [hl]; exact List.mem_range.mp hq),
        List.getElem?_range hk]
      rfl
    · have : (List.range n).filterMap (fun q => l[q]?) = permuted l (List.range n) := rfl
      rw [this, List.getElem?_eq_none (by omega), List.getElem?_eq_none (by
        rw [length_permuted l _ (fun q hq => by rw [hl]; exact List.mem_range.mp hq)]
        simp; omega)]
  rw [h1]
  conv_rhs => rw [h2]
  exact ((isPerm_perm hperm).filterMap _).symm

/-- transposing a block permutes its entries: every additive statistic is unchanged -/
theorem blkSum_transposeK [Zero R] (g : R → M) (b : Blk R) (hwf : b.wf = true) (axes : List Nat)
    (hperm : Arr.isPerm axes b.shape.length = true) :
    blkSum g (b.transposeK axes) = blkSum g b := by
  have hlt := isPerm_lt hperm
  have hwf' : (b.transposeK axes).wf = true := Blk.wf_ofFn _ _
  have hsh : (b.transposeK axes).shape = permuted b.shape axes := rfl
  rw [blkSum_eq_box g _ hwf', blkSum_eq_box g b hwf, hsh]
  -- the boxes correspond under `permuted · axes`
  have hnd : ((allIdx b.shape).map (fun i => permuted i axes)).Nodup :=
    List.Nodup.map_on (fun x hx y hy hxy =>
      permuted_inj hperm (inBox_length (mem_allIdx.mp hx)) (inBox_length (mem_allIdx.mp hy)) hxy)
      (allIdx_nodup b.shape)
  have hsub : ∀ j ∈ (allIdx b.shape).map (fun i => permuted i axes), j ∈ allIdx (permuted b.shape axes) := by
    intro j hj
    obtain ⟨i, hi, rfl⟩ := List.mem_map.mp hj
    exact mem_allIdx.mpr (inBox_permuted (mem_allIdx.mp hi) axes hlt)
  have hlen : (allIdx (permuted b.shape axes)).length ≤ ((allIdx b.shape).map (fun i => permuted i axes)).length := by
    rw [List.length_map, length_allIdx, length_allIdx, prod_perm (permuted_perm hperm b.shape rfl)]
  have hp : ((allIdx b.shape).map (fun i => permuted i axes)).Perm (allIdx (permuted b.shape axes)) :=
    (List.subperm_of_subset hnd hsub).perm_of_length_le hlen
  rw [← (hp.map (fun j => g ((b.transposeK axes).get j))).sum_eq, List.map_map]
  apply sum_map_congr
  intro i hi
  simp only [Function.comp]
  rw [Blk.get_transposeK b axes hperm (mem_allIdx.mp hi)]

theorem blkSum_allZero [Zero R] (g : R → M) (hg : g 0 = 0) (b : Blk R) (h : FuseP.AllZero b) :
    blkSum g b = 0 := by
  rw [blkSum, sum_map_congr (g := fun _ => (0 : M)) (fun x hx => by rw [h x hx, hg])]
  simp

/-- Σ over the blocks = Σ over the (distinct) sectors of the looked-up block -/
theorem entrySum_eq_sectors (g : R → M) (a : Arr R) (hnd : a.sectors.Nodup) :
    entrySum g a = (a.sectors.map (fun s => match alookup a.blocks s with
      | some b => blkSum g b
      | none => 0)).sum := by
  simp only [entrySum, Arr.sectors, List.map_map]
  apply sum_map_congr
  intro p hp
  simp only [Function.comp]
  rw [alookup_of_mem_nodup hnd hp]

/-! ### `fuse` keeps the content (through the block-level round trip of C05) -/

theorem unfuseGroups_sameContent [Zero R] (groups : List (List Nat)) (pos : Nat) (L : List Nat)
    (x y : Arr R) (hv : x.validB = true) (hf : x.fermi = false)
    (h : L.foldlM (fun x g => if FuseP.multiB groups g then unfuseA x (pos + g) else pure x) x = .ok y) :
    SameContent x y ∧ y.validB = true ∧ y.fermi = false := by
  induction L generalizing x with
  | nil =>
    simp only [List.foldlM_nil, pure, Except.pure] at h
    injection h with h; subst h
    exact ⟨SameContent.refl _, hv, hf⟩
  | cons g L ih =>
    rw [List.foldlM_cons] at h
    by_cases hm : FuseP.multiB groups g = true
    · simp only [hm, if_true, bind, Except.bind] at h
      cases hu : unfuseA x (pos + g) with
      | error e => rw [hu] at h; cases h
      | ok x1 =>
        rw [hu] at h
        have hv1 := C01.unfuseA_valid x x1 (pos + g) hv hf hu
        have hf1 : x1.fermi = false := by rw [(unfuseA_fermi x x1 _ hu).1, hf]
        obtain ⟨h1, h2, h3⟩ := ih x1 hv1 hf1 h
        exact ⟨(unfuseA_sameContent x x1 _ hv hu).trans h1, h2, h3⟩
    · simp only [hm, Bool.false_eq_true, if_false, bind, Except.bind, pure, Except.pure] at h
      exact ih x hv hf h

theorem fuseAdmissible_of_groupsOk {groups : List (List Nat)} {n : Nat}
    (h : FuseP.groupsOkB groups n = true) : ValidP.fuseAdmissibleB groups n = true := by
  simp only [FuseP.groupsOkB, Bool.and_eq_true] at h
  simp only [ValidP.fuseAdmissibleB, Bool.and_eq_true]
  exact ⟨h.2, h.1.2⟩

/-- **fuse keeps the content** (insert strategy, ANY admissible list of groups): the fused
    array stores the original entries, each once, plus zeros -/
theorem fuseCore_sameContent [Zero R] (a x : Arr R) (groups : List (List Nat))
    (hv : a.validB = true) (hf : a.fermi = false) (hg : FuseP.groupsOkB groups a.ndim = true)
    (h : fuseCore a groups .insert = .ok x) : SameContent a x := by
  classical
  obtain ⟨x', y, hx', hy, _, hstored, hother⟩ := C05.unfuse_fuse_blocks a groups hv hg
  rw [h] at hx'; injection hx' with hx'; subst hx'
  have hvx := C01.fuseCore_valid a x groups hv hf (fuseAdmissible_of_groupsOk hg) h
  have hfx : x.fermi = false := by
    unfold fuseCore at h
    simp only [bind, Except.bind] at h
    split at h
    · cases h
    · split at h
      · cases h
      · simp only [pure, Except.pure] at h; injection h with h; rw [← h]; exact hf
  obtain ⟨hxy, hvy, _⟩ := unfuseGroups_sameContent groups _ _ x y hvx hfx hy
  refine SameContent.trans ?_ hxy.symm
  -- `a` against `y`: transposed blocks plus all-zero blocks
  intro M _ g hg0
  have hva := FuseP.validArr_of_validB hv
  have hnda : a.sectors.Nodup := hva.nodup
  have hndy : y.sectors.Nodup := (FuseP.validArr_of_validB hvy).nodup
  obtain ⟨_, _, hperm, _⟩ := C05.calcFuseGroupInfo_perm groups a.duals (by rw [FuseP.duals_length]; exact hg)
  rw [FuseP.duals_length] at hperm
  set perm := (calcFuseGroupInfo groups a.duals).perm with hpdef
  have hI : (a.sectors.map (fun s => permuted s perm)).Nodup :=
    List.Nodup.map_on (fun s hs t ht hst => by
      obtain ⟨⟨s', b⟩, hm, rfl⟩ := List.mem_map.mp hs
      obtain ⟨⟨t', b'⟩, hm', rfl⟩ := List.mem_map.mp ht
      exact permuted_inj hperm (hva.blk _ hm).1 (hva.blk _ hm').1 hst) hnda
  symm
  rw [entrySum_eq_sectors g y hndy]
  rw [sum_eq_sum_of_support hndy hI (fun K hK => by
      obtain ⟨s, hs, rfl⟩ := List.mem_map.mp hK
      obtain ⟨⟨s', b⟩, hm, rfl⟩ := List.mem_map.mp hs
      exact alookup_isSome_iff.mp (by rw [hstored s' b hm]; rfl)) _
    (fun K hK hKI => by
      obtain ⟨V, hV⟩ := Option.isSome_iff_exists.mp (alookup_isSome_iff.mpr hK)
      simp only [hV]
      rcases hother K V hV with ⟨s, b, hm, rfl⟩ | hz
      · exact absurd (List.mem_map.mpr ⟨s, List.mem_map.mpr ⟨(s, b), hm, rfl⟩, rfl⟩) hKI
      · exact blkSum_allZero g hg0 V hz)]
  simp only [entrySum, Arr.sectors, List.map_map]
  apply sum_map_congr
  intro p hp
  simp only [Function.comp]
  rw [hstored p.1 p.2 hp]
  have hb := hva.blk p hp
  exact blkSum_transposeK g p.2 hb.2.2 perm (by
    rw [Arr.blockShape?_shape_length hb.2.1]; exact hperm)

/-- the public `fuse` with admissible non-empty groups -/
theorem fuseA_sameContent [Zero R] (a x : Arr R) (groups : List (List Nat)) (expandEmpty : Bool)
    (hv : a.validB = true) (hf : a.fermi = false) (hg : FuseP.groupsOkB groups a.ndim = true)
    (h : fuseA a groups .insert expandEmpty = .ok x) : SameContent a x := by
  rw [C05.fuseA_eq_fuseCore a groups .insert expandEmpty a.ndim hg] at h
  exact fuseCore_sameContent a x groups hv hf hg h

/-! ### expand_dims and squeeze keep the stored data -/

theorem expandDims_sameContent [Zero R] (a : Arr R) (axis : Nat) (c : Option Charge)
    (dual : Option Bool) (hnd : a.sectors.Nodup) : SameContent a (a.expandDims axis c dual) :=
  (sameContent_of_storedData (C07.expandDims_data a axis c dual ((FuseP.allDistinct_iff _).2 hnd))).symm

theorem squeeze_sameContent [Zero R] (a a' : Arr R) (axis : Option (List Nat))
    (hsh : Arr.ShapesOk a) (hnd : a.sectors.Nodup) (h : a.squeeze axis = .ok a') :
    SameContent a a' := by
  rw [squeeze_eq] at h
  cases hm : squeezeMask a axis with
  | error e => rw [hm] at h; cases h
  | ok m =>
    rw [hm] at h
    injection h with h
    obtain ⟨hl, hspec⟩ := squeezeMask_ok hm
    have hmask : ∀ (i : Nat) (ix : Index), a.indices[i]? = some ix → m[i]? = some true →
        ∃ d, ix.cm = [(a.sym.zero, d)] ∧ d ≤ 1 := fun i ix hix hi => ((hspec i ix hix).1 hi).2
    have hstored : ∀ t ∈ a.sectors, ∃ sh, Arr.blockShape? a.indices t = some sh := by
      intro t ht
      obtain ⟨b, hb⟩ := Option.isSome_iff_exists.mp (alookup_isSome_iff.mpr ht)
      exact ⟨_, hsh.2 t b hb⟩
    have hkeys : (a.blocks.map (fun sb => permuted sb.1 (keptAxes m 0))).Nodup := by
      have : a.blocks.map (fun sb => permuted sb.1 (keptAxes m 0))
          = a.sectors.map (fun t => permuted t (keptAxes m 0)) := by
        simp [Arr.sectors, List.map_map, Function.comp_def]
      rw [this]
      refine List.Nodup.map_on (fun x hx y hy hxy => ?_) hnd
      obtain ⟨shx, hx'⟩ := hstored x hx
      obtain ⟨shy, hy'⟩ := hstored y hy
      rw [permuted_keptAxes_zero m x (by rw [Arr.blockShape?_length hx', hl]),
        permuted_keptAxes_zero m y (by rw [Arr.blockShape?_length hy', hl])] at hxy
      refine dropMask_inj (by rw [Arr.blockShape?_length hx', hl]) (by rw [Arr.blockShape?_length hy', hl])
        (fun i hi => ?_) hxy
      obtain ⟨_, _, h1, _⟩ := masked_facts hl hmask hx' i hi
      obtain ⟨_, _, h2, _⟩ := masked_facts hl hmask hy' i hi
      rw [h1, h2]
    have hdata := C07.mapBlocks_data a (fun s => permuted s (keptAxes m 0))
      (fun b => b.squeezeK (keptAxes m 0)) (fun _ => rfl) ((FuseP.allDistinct_iff _).2 hkeys)
    rw [← h]
    exact (sameContent_of_storedData (a := squeezed a (keptAxes m 0)) (b := a) hdata).symm

/-! ### what "same content" means: norm² and the multiset of non-zero entries -/

theorem normSq2_eq_entrySum {S : Type} [AddCommMonoid S] (nsq : R → S) (a : Arr R) :
    C12.normSq2 nsq a = entrySum nsq a := by
  show a.blocks.foldl (fun acc x => acc + (x.2.map nsq).sumAll) 0 = _
  rw [foldl_add_eq_sum, zero_add]
  simp only [entrySum, blkSum, Blk.sumAll, Blk.map, ← Array.foldl_toList, ← List.sum_eq_foldl,
    Array.toList_map]

theorem SameContent.normSq2 [Zero R] {a b : Arr R} (h : SameContent a b) {S : Type}
    [AddCommMonoid S] (nsq : R → S) (h0 : nsq 0 = 0) : C12.normSq2 nsq a = C12.normSq2 nsq b := by
  rw [normSq2_eq_entrySum, normSq2_eq_entrySum]; exact h S nsq h0

/-- the non-zero stored entries, block after block -/
def nzEntries [Zero R] [DecidableEq R] (a : Arr R) : List R :=
  a.blocks.flatMap (fun p => p.2.data.toList.filter (fun r => decide (r ≠ 0)))

theorem count_filter_eq_sum [Zero R] [DecidableEq R] (v : R) (l : List R) :
    (l.filter (fun r => decide (r ≠ 0))).count v
      = (l.map (fun r => if r ≠ 0 ∧ r = v then 1 else 0)).sum := by
  induction l with
  | nil => rfl
  | cons x l ih =>
    simp only [List.filter_cons, List.map_cons, List.sum_cons]
    by_cases hx : x ≠ 0
    · simp only [hx, decide_true, if_true, List.count_cons, ih, true_and, ne_eq, not_false_eq_true,
        beq_iff_eq]
      omega
    · have hx0 : x = 0 := by simpa using hx
      subst hx0
      simp only [ne_eq, not_true_eq_false, decide_false, Bool.false_eq_true, if_false, false_and,
        Nat.zero_add]
      exact ih

/-- **same content ⇒ the same multiset of non-zero stored entries** -/
theorem SameContent.perm_nonzero [Zero R] [DecidableEq R] {a b : Arr R} (h : SameContent a b) :
    (nzEntries a).Perm (nzEntries b) := by
  rw [List.perm_iff_count]
  intro v
  have key : ∀ x : Arr R, (nzEntries x).count v
      = entrySum (M := Nat) (fun r => if r ≠ 0 ∧ r = v then 1 else 0) x := by
    intro x
    simp only [nzEntries, List.count_flatMap, entrySum, blkSum, Function.comp_def,
      count_filter_eq_sum]
  rw [key, key]
  exact h Nat _ (by simp)

end content

/-! ## A4: a fused index is never larger than the product of its sub-indices -/

section size

theorem sumN_eq_sum (l : List Nat) : sumN l = l.sum := by
  induction l with
  | nil => rfl
  | cons d ds ih => simp [sumN, ih]

theorem sum_map_mul_left' {α : Type} (l : List α) (r : Nat) (f : α → Nat) :
    (l.map (fun i => r * f i)).sum = r * (l.map f).sum := by
  induction l with
  | nil => simp
  | cons a l ih => simp [ih, Nat.mul_add]

/-- Σ over the product of tables of the product of the sizes = product of the table totals -/
theorem sum_cartesian_prod (ls : List (List (Charge × Nat))) :
    ((cartesian ls).map (fun e => prod (e.map (·.2)))).sum
      = prod (ls.map (fun l => (l.map (·.2)).sum)) := by
  induction ls with
  | nil => simp [cartesian, prod]
  | cons l ls ih =>
    simp only [cartesian, List.map_cons, prod]
    rw [sum_map_flatMap]
    simp only [List.map_map, Function.comp_def, List.map_cons, prod]
    rw [sum_map_congr (fun a _ => sum_map_mul_left' (cartesian ls) a.2 (fun r => prod (r.map (·.2))))]
    rw [ih]
    induction l with
    | nil => simp
    | cons a l ih2 => simp [ih2, Nat.add_mul]

/-- in ℕ, a sum over a duplicate-free list dominates the sum over any duplicate-free sub-collection -/
theorem sum_le_sum_of_subset {α : Type} [DecidableEq α] {L K : List α} (hL : L.Nodup) (hK : K.Nodup)
    (hsub : ∀ x ∈ K, x ∈ L) (f : α → Nat) : (K.map f).sum ≤ (L.map f).sum := by
  have hp := (List.filter_append_perm (fun x => decide (x ∈ K)) L).map f
  rw [← hp.sum_eq, List.map_append, List.sum_append]
  have hperm : (L.filter (fun x => decide (x ∈ K))).Perm K := by
    rw [List.perm_ext_iff_of_nodup (hL.filter _) hK]
    intro x
    simp only [List.mem_filter, decide_eq_true_eq]
    exact ⟨fun hx => hx.2, fun hx => ⟨hsub x hx, hx⟩⟩
  rw [(hperm.map f).sum_eq]
  omega

theorem prod_le_prod {l1 l2 : List Nat} (h : List.Forall₂ (· ≤ ·) l1 l2) : prod l1 ≤ prod l2 := by
  induction h with
  | nil => exact Nat.le_refl _
  | cons hab _ ih => exact Nat.mul_le_mul hab ih

/-- **a well-formed fused index is at most as large as the product of its sub-indices**
    (equality iff every combination of sub-charges occurs: "sparse fusing" makes it smaller) -/
theorem sizeTotal_le_prod_subs {sym : Sym} {ix : Index} (hw : Index.wfB sym ix = true)
    {subs : List Index} {exts : Extents} (hs : ix.sub = some (subs, exts)) :
    ix.sizeTotal ≤ prod (subs.map Index.sizeTotal) := by
  classical
  have hsorted := sorted_of_wfB hw
  have hcmnd : (ix.cm.map (·.1)).Nodup := nodup_of_pairwise_lt hsorted
  -- the extent of every chargemap entry
  have hext : ∀ cd ∈ ix.cm, ∃ e, alookup exts cd.1 = some e
      ∧ FuseP.ExtentOk sym ix.dual subs cd.1 cd.2 e := fun cd hcd =>
    FuseP.wfB_cm_extent hw hs (alookup_of_mem_nodup hcmnd hcd)
  -- the sub-indices are well formed
  have hsubs : ∀ s ∈ subs, (s.cm.map (·.1)).Nodup := by
    obtain ⟨cm, dual, sub⟩ := ix
    simp only [Index.sub] at hs
    subst hs
    unfold Index.wfB at hw
    simp only [Bool.and_eq_true] at hw
    intro s hs'
    exact nodup_of_pairwise_lt (sorted_of_wfB (wfB_of_wfListB hw.2.1.1.1 s hs'))
  let f : Sector → Nat := fun ss => prod ((Arr.blockShape? subs ss).getD [])
  let S : List Sector := ix.cm.flatMap (fun cd => ((alookup exts cd.1).getD []).map (·.1))
  -- the size is the sum of `f` over all sub-sectors of all extents
  have h1 : ix.sizeTotal = (S.map f).sum := by
    simp only [Index.sizeTotal, sumN_eq_sum, S]
    rw [sum_map_flatMap]
    simp only [List.map_map, Function.comp_def]
    apply sum_map_congr
    intro cd hcd
    obtain ⟨e, he, hok⟩ := hext cd hcd
    simp only [he, Option.getD_some]
    rw [← hok.total, sumN_eq_sum]
    apply sum_map_congr
    intro q hq
    obtain ⟨_, ⟨shp, hshp, hprod⟩, _⟩ := hok.entry q.1 q.2 hq
    simp only [f, hshp, Option.getD_some, hprod]
  -- the sub-sectors are distinct and lie in the product of the sub-tables
  have hSnd : S.Nodup := by
    rw [List.nodup_flatMap]
    constructor
    · intro cd hcd
      obtain ⟨e, he, hok⟩ := hext cd hcd
      simp only [he, Option.getD_some]
      exact hok.nodup
    · have hnd : ix.cm.Nodup := List.Nodup.of_map _ hcmnd
      refine List.Pairwise.imp_of_mem ?_ hnd
      intro c1 c2 h1' h2' hne
      simp only [Function.onFun, List.disjoint_left]
      intro ss hs1 hs2
      obtain ⟨e1, he1, hok1⟩ := hext c1 h1'
      obtain ⟨e2, he2, hok2⟩ := hext c2 h2'
      simp only [he1, he2, Option.getD_some, List.mem_map] at hs1 hs2
      obtain ⟨q1, hq1, rfl⟩ := hs1
      obtain ⟨q2, hq2, hq⟩ := hs2
      have k1 := (hok1.entry q1.1 q1.2 hq1).2.2
      have k2 := (hok2.entry q2.1 q2.2 hq2).2.2
      rw [hq, k1] at k2
      apply hne
      have h1'' := alookup_of_mem_nodup hcmnd h1'
      have h2'' := alookup_of_mem_nodup hcmnd h2'
      rw [k2, h2''] at h1''
      exact Prod.ext k2 (Option.some.inj h1'').symm
  have hC : (cartesian ((tables subs).map (List.map (·.1)))).Nodup := by
    apply cartesian_nodup
    intro l hl
    simp only [tables, List.map_map, List.mem_map, Function.comp] at hl
    obtain ⟨s, hs', rfl⟩ := hl
    exact nodup_keys_sortCm (hsubs s hs')
  have hSsub : ∀ ss ∈ S, ss ∈ cartesian ((tables subs).map (List.map (·.1))) := by
    intro ss hss
    simp only [S, List.mem_flatMap, List.mem_map] at hss
    obtain ⟨cd, hcd, q, hq, rfl⟩ := hss
    obtain ⟨e, he, hok⟩ := hext cd hcd
    simp only [he, Option.getD_some] at hq
    obtain ⟨_, ⟨shp, hshp, _⟩, _⟩ := hok.entry q.1 q.2 hq
    exact mem_cartesian_of_blockShape? hshp
  rw [h1]
  refine Nat.le_trans (sum_le_sum_of_subset hC hSnd hSsub f) ?_
  rw [cartesian_map, List.map_map]
  have h2 : ((cartesian (tables subs)).map (f ∘ List.map (·.1))).sum
      = ((cartesian (tables subs)).map (fun e => prod (e.map (·.2)))).sum := by
    apply sum_map_congr
    intro e he
    simp only [Function.comp, f, blockShape?_of_mem_cartesian hsubs he, Option.getD_some]
  rw [h2, sum_cartesian_prod]
  apply Nat.le_of_eq
  congr 1
  simp only [tables, List.map_map, Function.comp_def]
  apply List.map_congr_left
  intro s _
  rw [← sumN_eq_sum, sumN_sortCm]; rfl

end size

/-! ## A2 / A4: the array-level execution of a plan against its symbolic execution -/

section sim
open C07

/-- an actual index is described by a symbolic axis: not larger than the symbolic size, and
    where the symbolic axis is fused the index is fused with as many sub-indices, each not larger
    than the symbolic sub-size -/
def AxisRel (ix : Index) (e : Nat × Option (List Nat)) : Prop :=
  ix.sizeTotal ≤ e.1 ∧ ∀ sz, e.2 = some sz → ∃ subs exts, ix.sub = some (subs, exts)
    ∧ List.Forall₂ (fun (s : Index) d => s.sizeTotal ≤ d) subs sz

/-- the simulation invariant between an array and a symbolic shape -/
structure Sim (x : Arr R) (st : SymShape) : Prop where
  valid : x.validB = true
  abelian : x.fermi = false
  axes : List.Forall₂ AxisRel x.indices st

theorem forall₂_getElem? {α β : Type} {P : α → β → Prop} {l1 : List α} {l2 : List β}
    (h : List.Forall₂ P l1 l2) {i : Nat} {a : α} {b : β} (ha : l1[i]? = some a) (hb : l2[i]? = some b) :
    P a b := by
  induction h generalizing i with
  | nil => simp at ha
  | cons hab _ ih =>
    cases i with
    | zero =>
      simp only [List.getElem?_cons_zero, Option.some.injEq] at ha hb
      subst ha hb; exact hab
    | succ i => exact ih (by simpa using ha) (by simpa using hb)

theorem sim_init (a : Arr R) (hv : a.validB = true) (hf : a.fermi = false) :
    Sim a (a.shape.zip a.subsizes) := by
  refine ⟨hv, hf, ?_⟩
  simp only [Arr.shape, Arr.subsizes, List.zip_map']
  rw [List.forall₂_map_right_iff]
  apply List.forall₂_same.mpr
  intro ix _
  refine ⟨Nat.le_refl _, fun sz hsz => ?_⟩
  cases hs : ix.sub with
  | none => simp [hs] at hsz
  | some se =>
    obtain ⟨subs, exts⟩ := se
    simp only [hs, Option.map_some, Option.some.injEq] at hsz
    subst hsz
    refine ⟨subs, exts, rfl, ?_⟩
    rw [List.forall₂_map_right_iff]
    exact List.forall₂_same.mpr (fun _ _ => Nat.le_refl _)

/-! ### unfuse step -/

theorem unfuseA_indices [Zero R] (x y : Arr R) (axis : Nat) (h : unfuseA x axis = .ok y) :
    ∃ ix subs exts, x.indices[axis]? = some ix ∧ ix.sub = some (subs, exts)
      ∧ y.indices = replaceWithSeq x.indices axis subs := by
  cases hix : x.indices[axis]? with
  | none =>
    simp [unfuseA, hix, bind, Except.bind, throw, throwThe, MonadExceptOf.throw] at h
  | some ix =>
    cases hsub : ix.sub with
    | none =>
      simp [unfuseA, hix, hsub, bind, Except.bind, pure, Except.pure, throw, throwThe,
        MonadExceptOf.throw] at h
    | some se =>
      simp only [unfuseA, hix, hsub, bind, Except.bind, pure, Except.pure] at h
      split at h
      · cases h
      · injection h with h
        exact ⟨ix, se.1, se.2, rfl, hsub, by rw [← h]⟩

theorem sim_unfuse [Zero R] [Neg R] {x x' : Arr R} {st st' : SymShape} {ax : Nat} (hs : Sim x st)
    (hsym : symUnfuse st ax = some st') (h : unfuseDispatch x ax = .ok x') :
    Sim x' st' ∧ SameContent x x' := by
  have hA : unfuseA x ax = .ok x' := by simpa [unfuseDispatch, hs.abelian] using h
  obtain ⟨ix, subs, exts, hix, hsub, hidx⟩ := unfuseA_indices x x' ax hA
  refine ⟨⟨C01.unfuseA_valid x x' ax hs.valid hs.abelian hA,
    by rw [(unfuseA_fermi x x' ax hA).1, hs.abelian], ?_⟩, unfuseA_sameContent x x' ax hs.valid hA⟩
  -- the symbolic step
  simp only [symUnfuse] at hsym
  cases he : st[ax]? with
  | none => simp [he] at hsym
  | some e =>
    obtain ⟨d, osz⟩ := e
    cases osz with
    | none => simp [he] at hsym
    | some sz =>
      simp only [he, Option.some.injEq] at hsym
      subst hsym
      obtain ⟨_, hrel⟩ := forall₂_getElem? hs.axes hix he
      obtain ⟨subs', exts', hsub', hsz⟩ := hrel sz rfl
      rw [hsub] at hsub'
      simp only [Option.some.injEq, Prod.mk.injEq] at hsub'
      obtain ⟨rfl, rfl⟩ := hsub'
      rw [hidx]
      show List.Forall₂ AxisRel (x.indices.take ax ++ subs ++ x.indices.drop (ax + 1)) _
      refine List.rel_append (List.rel_append (List.forall₂_take ax hs.axes) ?_)
        (List.forall₂_drop (ax + 1) hs.axes)
      rw [List.forall₂_map_right_iff]
      exact hsz.imp (fun {s d} hsd => ⟨hsd, fun sz' h' => by simp at h'⟩)

/-! ### expand step -/

theorem sim_expand [Zero R] {x x' : Arr R} {st st' : SymShape} {ax : Nat} (hs : Sim x st)
    (hsym : symExpand st ax = some st') (h : expandDispatch x ax = .ok x') :
    Sim x' st' ∧ SameContent x x' := by
  have hlen : x.indices.length = st.length := hs.axes.length_eq
  simp only [symExpand] at hsym
  split at hsym
  · rename_i hle
    injection hsym with hsym; subst hsym
    have hle' : ax ≤ x.ndim := by simpa [Arr.ndim, hlen] using hle
    have hx' : x' = x.expandDims ax none none := by
      simp only [expandDispatch, Nat.not_lt.mpr hle', if_false, pure, Except.pure] at h
      exact (Except.ok.inj h).symm
    subst hx'
    have hva := FuseP.validArr_of_validB hs.valid
    refine ⟨⟨C01.expandDims_none_valid x ax none hs.valid, hs.abelian, ?_⟩,
      expandDims_sameContent x ax none none hva.nodup⟩
    rw [(expandDims_none_fields x ax none).1]
    show List.Forall₂ AxisRel (x.indices.take ax ++ [_] ++ x.indices.drop ax) _
    refine List.rel_append (List.rel_append (List.forall₂_take ax hs.axes) ?_)
      (List.forall₂_drop ax hs.axes)
    refine List.Forall₂.cons ⟨?_, fun sz h' => by simp at h'⟩ List.Forall₂.nil
    simp [Index.sizeTotal, Index.cm, sumN]
  · cases hsym

/-! ### fuse step -/

theorem symFuse_spec {st st' : SymShape} {groups : List (List Nat)} (h : symFuse st groups = some st') :
    ∃ p, groups.flatten = List.range' p groups.flatten.length ∧ 0 < groups.flatten.length
      ∧ (∀ g ∈ groups, g ≠ []) ∧ p + groups.flatten.length ≤ st.length
      ∧ st' = st.take p ++ groups.map (symGroup st) ++ st.drop (p + groups.flatten.length) := by
  unfold symFuse at h
  cases hflat : groups.flatten with
  | nil => simp [hflat] at h
  | cons p rest =>
    simp only [hflat] at h
    split at h
    · rename_i hc
      simp only [Bool.and_eq_true, List.all_eq_true, Bool.not_eq_true', List.isEmpty_eq_false_iff,
        beqNats_iff, Nat.ble_eq] at hc
      injection h with h
      exact ⟨p, hc.1.2, by simp, hc.1.1, hc.2, h.symm⟩
    · cases h

theorem permuted_range' {α : Type} (l : List α) (s k : Nat) (h : s + k ≤ l.length) :
    permuted l (List.range' s k) = (l.drop s).take k := by
  apply List.ext_getElem?
  intro j
  rw [getElem?_permuted l _ (fun q hq => by have := List.mem_range'_1.mp hq; omega)]
  by_cases hj : j < k
  · rw [List.getElem?_range' (by simpa using hj), List.getElem?_take_of_lt hj, List.getElem?_drop]
    simp
  · rw [List.getElem?_eq_none (by simp; omega), List.getElem?_eq_none (by simp; omega)]
    rfl

theorem axesAfter_consecutive {groups : List (List Nat)} {duals : List Bool} {p : Nat}
    (hflat : groups.flatten = List.range' p groups.flatten.length)
    (hpos : (calcFuseGroupInfo groups duals).position = p)
    (hle : p + groups.flatten.length ≤ duals.length) :
    (calcFuseGroupInfo groups duals).axesAfter
      = List.range' (p + groups.flatten.length) (duals.length - (p + groups.flatten.length)) := by
  refine sorted_ext (r := fun a b : Nat => a < b) (fun a b h h' => by omega) ?_
    (List.pairwise_lt_range' 1) (fun ax => ?_)
  · simp only [calcFuseGroupInfo]
    exact (List.pairwise_lt_range.filter _).filter _
  · rw [FuseP.mem_axesAfter, hpos, List.mem_range'_1]
    constructor
    · rintro ⟨h1, h2, h3⟩
      rw [hflat, List.mem_range'_1] at h3
      omega
    · rintro ⟨h1, h2⟩
      refine ⟨by omega, by omega, ?_⟩
      rw [hflat, List.mem_range'_1]
      omega

theorem fuse_indices [Zero R] {x x' : Arr R} {groups : List (List Nat)} {p : Nat}
    (hv : x.validB = true) (hok : FuseP.GroupsOk groups x.ndim)
    (hflat : groups.flatten = List.range' p groups.flatten.length)
    (hle : p + groups.flatten.length ≤ x.ndim) (h : fuseCore x groups .insert = .ok x') :
    x'.indices = x.indices.take p ++ FuseP.newMidOf x groups ++ x.indices.drop (p + groups.flatten.length) := by
  have hva := FuseP.validArr_of_validB hv
  rw [FuseP.fuseCore_multi_eq hva hok] at h
  injection h with h
  rw [← h]
  show (FuseP.fuseInfoOf x groups).newIndices = _
  have hok' : FuseP.GroupsOk groups x.duals.length := by rw [FuseP.duals_length]; exact hok
  have hlenpos : 0 < groups.flatten.length := by
    have := hok.flatten_ne
    exact List.length_pos_iff.mpr this
  have hpos : (calcFuseGroupInfo groups x.duals).position = p := by
    obtain ⟨h1, h2⟩ := FuseP.position_spec hok'
    rw [hflat, List.mem_range'_1] at h1
    have := h2 p (by rw [hflat, List.mem_range'_1]; omega)
    omega
  simp only [FuseP.fuseInfoOf]
  rw [FuseP.axesBefore_eq hok', hpos,
    axesAfter_consecutive hflat hpos (by rw [FuseP.duals_length]; exact hle), FuseP.duals_length]
  have h1 : permuted x.indices (List.range p) = x.indices.take p := by
    have := permuted_range' x.indices 0 p (by simpa [Arr.ndim] using (by omega : p ≤ x.ndim))
    simpa [List.range_eq_range'] using this
  have h2 : permuted x.indices (List.range' (p + groups.flatten.length) (x.ndim - (p + groups.flatten.length)))
      = x.indices.drop (p + groups.flatten.length) := by
    rw [permuted_range' x.indices _ _ (by simp only [Arr.ndim] at hle ⊢; omega)]
    apply List.take_of_length_le
    simp [Arr.ndim]
  rw [h1, h2]

theorem prod_sizes_rel {x : Arr R} {st : SymShape} (hax : List.Forall₂ AxisRel x.indices st)
    (gaxes : List Nat) (hlt : ∀ ax ∈ gaxes, ax < x.indices.length) :
    List.Forall₂ (fun (s : Index) d => s.sizeTotal ≤ d)
      (gaxes.map (fun ax => x.indices.getD ax default))
      (gaxes.map (fun ax => (st.getD ax (0, none)).1)) := by
  rw [List.forall₂_map_left_iff, List.forall₂_map_right_iff]
  apply List.forall₂_same.mpr
  intro ax hax'
  have h1 : ax < x.indices.length := hlt ax hax'
  have h2 : ax < st.length := by rw [← hax.length_eq]; exact h1
  have := forall₂_getElem? hax (List.getElem?_eq_getElem h1) (List.getElem?_eq_getElem h2)
  simp only [List.getD_eq_getElem?_getD, List.getElem?_eq_getElem h1, List.getElem?_eq_getElem h2,
    Option.getD_some]
  exact this.1

theorem sim_fuse [Zero R] [Neg R] {x x' : Arr R} {st st' : SymShape} {groups : List (List Nat)}
    (hs : Sim x st) (hsym : symFuse st groups = some st') (h : fuseDispatch x groups = .ok x') :
    Sim x' st' ∧ SameContent x x' := by
  obtain ⟨p, hflat, hlenpos, hne, hle, rfl⟩ := symFuse_spec hsym
  have hlen : x.indices.length = st.length := hs.axes.length_eq
  have hle' : p + groups.flatten.length ≤ x.ndim := by simpa [Arr.ndim, hlen] using hle
  have hok : FuseP.GroupsOk groups x.ndim := by
    refine ⟨?_, hne, ?_, ?_⟩
    · intro hg; rw [hg] at hlenpos; simp at hlenpos
    · intro ax hax
      rw [hflat, List.mem_range'_1] at hax; omega
    · rw [hflat]; exact List.nodup_range'
  have hokB : FuseP.groupsOkB groups x.ndim = true := FuseP.groupsOk_iff.2 hok
  have hA : fuseA x groups = .ok x' := by simpa [fuseDispatch, hs.abelian] using h
  have hC : fuseCore x groups .insert = .ok x' := by
    rw [← C05.fuseA_eq_fuseCore x groups .insert true x.ndim hokB]; exact hA
  have hvx' := C01.fuseCore_valid x x' groups hs.valid hs.abelian (fuseAdmissible_of_groupsOk hokB) hC
  have hfx' : x'.fermi = false := by
    have hva := FuseP.validArr_of_validB hs.valid
    rw [FuseP.fuseCore_multi_eq hva hok] at hC
    injection hC with hC; rw [← hC]; exact hs.abelian
  refine ⟨⟨hvx', hfx', ?_⟩, fuseCore_sameContent x x' groups hs.valid hs.abelian hokB hC⟩
  have hidx := fuse_indices hs.valid hok hflat hle' hC
  rw [hidx]
  refine List.rel_append (List.rel_append (List.forall₂_take p hs.axes) ?_)
    (List.forall₂_drop (p + groups.flatten.length) hs.axes)
  -- the group axes
  rw [List.forall₂_iff_get]
  refine ⟨by rw [FuseP.newMidOf_length, List.length_map], fun i h1 h2 => ?_⟩
  have hi : i < groups.length := by simpa using h2
  have hgi : groups[i]? = some groups[i] := List.getElem?_eq_getElem hi
  have hmem : groups[i] ∈ groups := List.getElem_mem hi
  have hlt : ∀ ax ∈ groups[i], ax < x.indices.length := by
    intro ax hax
    have : ax ∈ groups.flatten := List.mem_flatten.mpr ⟨_, hmem, hax⟩
    have := hok.lt ax this
    simpa [Arr.ndim] using this
  simp only [List.get_eq_getElem, List.getElem_map]
  have hF : (FuseP.newMidOf x groups)[i] = (if groups[i].length == 1 then x.indices.getD (groups[i].headD 0) default
      else FuseP.fusedIndexOf (FuseP.tableEntries (FuseP.blockmapOf x groups) (calcFuseGroupInfo groups x.duals).position i)
        ((calcFuseGroupInfo groups x.duals).groupDuals.getD i false)
        (groups[i].map (fun ax => x.indices.getD ax default))) := by
    simp [FuseP.newMidOf]
  rw [hF]
  rcases hg : groups[i] with _ | ⟨a0, _ | ⟨a1, rest⟩⟩
  · exact absurd hg (hne _ hmem)
  · -- a single axis is kept
    simp only [List.length_singleton, beq_self_eq_true, if_true, List.headD_cons, symGroup]
    have h1' : a0 < x.indices.length := hlt a0 (by rw [hg]; simp)
    have h2' : a0 < st.length := by rw [← hlen]; exact h1'
    have := forall₂_getElem? hs.axes (List.getElem?_eq_getElem h1') (List.getElem?_eq_getElem h2')
    simpa [List.getD_eq_getElem?_getD, List.getElem?_eq_getElem h1', List.getElem?_eq_getElem h2'] using this
  · -- several axes become one fused index
    have hl1 : ((a0 :: a1 :: rest).length == 1) = false := by simp
    simp only [hl1, Bool.false_eq_true, if_false, symGroup]
    rw [hg] at hlt
    set ix' := FuseP.fusedIndexOf (FuseP.tableEntries (FuseP.blockmapOf x groups)
        (calcFuseGroupInfo groups x.duals).position i)
      ((calcFuseGroupInfo groups x.duals).groupDuals.getD i false)
      ((a0 :: a1 :: rest).map (fun ax => x.indices.getD ax default)) with hix'
    have hsub : ix'.sub = some ((a0 :: a1 :: rest).map (fun ax => x.indices.getD ax default),
        (accumExtents (isort (fun x y => sectorLt x.1 y.1) (adict (FuseP.tableEntries (FuseP.blockmapOf x groups)
          (calcFuseGroupInfo groups x.duals).position i)))).2) := rfl
    have hmem' : ix' ∈ x'.indices := by
      rw [hidx]
      apply List.mem_append_left
      apply List.mem_append_right
      have : (FuseP.newMidOf x groups)[i]'h1 = ix' := by rw [hF, hg]; simp only [hl1, Bool.false_eq_true, if_false]; rfl
      rw [← this]; exact List.getElem_mem h1
    have hw := (FuseP.validArr_of_validB hvx').idx ix' hmem'
    have hrel := prod_sizes_rel hs.axes (a0 :: a1 :: rest) hlt
    refine ⟨Nat.le_trans (sizeTotal_le_prod_subs hw hsub) (prod_le_prod ?_), fun sz hsz => ?_⟩
    · rw [List.forall₂_map_left_iff]
      exact hrel.imp (fun {s d} h => h)
    · injection hsz with hsz
      subst hsz
      exact ⟨_, _, hsub, hrel⟩

/-! ### the whole plan -/

theorem fold_sim [Zero R] {α : Type} (f : Arr R → α → Except Err (Arr R)) (g : SymShape → α → Option SymShape)
    (hstep : ∀ x x' st st' e, Sim x st → g st e = some st' → f x e = .ok x' →
      Sim x' st' ∧ SameContent x x')
    (l : List α) (x y : Arr R) (st st' : SymShape) (hs : Sim x st)
    (hsym : foldOpt g l st = some st') (h : l.foldlM f x = .ok y) :
    Sim y st' ∧ SameContent x y := by
  induction l generalizing x st with
  | nil =>
    simp only [foldOpt, Option.some.injEq] at hsym
    simp only [List.foldlM_nil, pure, Except.pure] at h
    injection h with h
    subst hsym h
    exact ⟨hs, SameContent.refl _⟩
  | cons e l ih =>
    simp only [foldOpt] at hsym
    rw [List.foldlM_cons] at h
    cases hg : g st e with
    | none => simp [hg] at hsym
    | some st1 =>
      simp only [hg] at hsym
      cases hf : f x e with
      | error err => simp [hf, bind, Except.bind] at h
      | ok x1 =>
        simp only [hf, bind, Except.bind] at h
        obtain ⟨hs1, hc1⟩ := hstep x x1 st st1 e hs hg hf
        obtain ⟨hs2, hc2⟩ := ih x1 st1 hs1 hsym h
        exact ⟨hs2, hc1.trans hc2⟩

/-- **a certified plan, executed on a valid abelian array**: the result is simulated by the
    symbolic result (same number of axes, every axis at most as large as the symbolic size) and
    has the same content -/
theorem applyPlan_sim [Zero R] [Neg R] (a r : Arr R) (t : List Nat × List (List (List Nat)) × List Nat)
    (newshape : List Nat) (hv : a.validB = true) (hf : a.fermi = false)
    (hwf : (Plan.ofTriple t).wfB a.shape a.subsizes newshape = true)
    (h : applyPlan a t = .ok r) :
    ∃ st, Sim r st ∧ SymShape.sizes st = newshape ∧ SameContent a r := by
  obtain ⟨_, st3, hexec, hsizes⟩ := wfB_iff.mp hwf
  simp only [Plan.exec, Plan.ofTriple] at hexec
  cases h1 : foldOpt symUnfuse t.1 (a.shape.zip a.subsizes) with
  | none => simp [h1] at hexec
  | some s1 =>
    simp only [h1] at hexec
    cases h2 : foldOpt symFuse t.2.1 s1 with
    | none => simp [h2] at hexec
    | some s2 =>
      simp only [h2] at hexec
      simp only [applyPlan, bind, Except.bind] at h
      cases g1 : List.foldlM unfuseDispatch a t.1 with
      | error e => simp [g1] at h
      | ok x1 =>
        simp only [g1] at h
        cases g2 : List.foldlM fuseDispatch x1 t.2.1 with
        | error e => simp [g2] at h
        | ok x2 =>
          simp only [g2] at h
          obtain ⟨k1, c1⟩ := fold_sim unfuseDispatch symUnfuse
            (fun x x' st st' e hs hg hf' => sim_unfuse hs hg hf') t.1 a x1 _ s1 (sim_init a hv hf) h1 g1
          obtain ⟨k2, c2⟩ := fold_sim fuseDispatch symFuse
            (fun x x' st st' e hs hg hf' => sim_fuse hs hg hf') t.2.1 x1 x2 s1 s2 k1 h2 g2
          obtain ⟨k3, c3⟩ := fold_sim expandDispatch symExpand
            (fun x x' st st' e hs hg hf' => sim_expand hs hg hf') t.2.2 x2 r s2 st3 k2 hexec h
          exact ⟨st3, k3, hsizes, (c1.trans c2).trans c3⟩

/-- number of axes and sizes of a simulated array -/
theorem Sim.axes_le {x : Arr R} {st : SymShape} (h : Sim x st) :
    x.ndim = st.length ∧ List.Forall₂ (fun (ix : Index) d => ix.sizeTotal ≤ d) x.indices (SymShape.sizes st) := by
  refine ⟨h.axes.length_eq, ?_⟩
  simp only [SymShape.sizes]
  rw [List.forall₂_map_right_iff]
  exact h.axes.imp (fun {ix e} hr => hr.1)

/-- `reshape`, unfolded: find the full shape, convert, plan, apply -/
theorem reshapeArr_eq [Zero R] [Neg R] (a : Arr R) (ns : List Int) (full : List Int) (nsN : List Nat)
    (t : List Nat × List (List (List Nat)) × List Nat)
    (h1 : findFullReshape ns a.size = .ok full)
    (h2 : full.mapM (fun (d : Int) => if d < 0 then (throw Err.notimpl : Except Err Nat) else pure d.toNat)
      = .ok nsN)
    (h3 : calcReshapeArgs a.shape nsN a.subsizes = .ok t) :
    reshapeArr a ns = applyPlan a t := by
  simp only [reshapeArr, bind, Except.bind, h1, h2, h3]

/-- insert and concat strategies store the same content (one multi-axis group, where the two are
    known to agree block by block) -/
theorem fuseCore_concat_sameContent [Zero R] (a y : Arr R) (gaxes : List Nat) (hv : a.validB = true)
    (hf : a.fermi = false) (hg : FuseP.groupsOkB [gaxes] a.ndim = true) (hlen : gaxes.length ≠ 1)
    (h : fuseCore a [gaxes] .concat = .ok y) : SameContent a y := by
  obtain ⟨x, y', hx, hy', _, hndx, hndy, hsame⟩ := C05.fuseInsert_eq_fuseConcat_partial a gaxes hv hg hlen
  rw [h] at hy'; injection hy' with hy'; subst hy'
  refine (fuseCore_sameContent a x [gaxes] hv hf hg hx).trans ?_
  intro M _ g _
  rw [entrySum_eq_sectors g x hndx, entrySum_eq_sectors g y hndy]
  have hperm : x.sectors.Perm y.sectors := by
    show (x.blocks.map (·.1)).Perm (y.blocks.map (·.1))
    rw [List.perm_ext_iff_of_nodup hndx hndy]
    intro s
    simp only [← alookup_isSome_iff]
    rcases hsame s with ⟨h1, h2⟩ | ⟨B, C, h1, h2, _⟩
    · simp [h1, h2]
    · simp [h1, h2]
  rw [← (hperm.map _).sum_eq]
  apply sum_map_congr
  intro s _
  rcases hsame s with ⟨h1, h2⟩ | ⟨B, C, h1, h2, _, _, hBC⟩
  · simp [h1, h2]
  · simp [h1, h2, hBC]

end sim

end ReshapeP
end SymmModel
