/-
  SymmModel.Proofs.FuseAll — `unfuseAllA` after fusing one group of an array without previously
  fused axes performs exactly the one `unfuseA` of the round trip.
-/
import SymmModel.Proofs.FuseRound
namespace SymmModel
namespace FuseP
set_option linter.unusedSectionVars false

variable {R : Type} [Zero R]

theorem foldlM_skip {ε α β : Type} (f : β → α → Except ε β) (l : List α) (x : β)
    (h : ∀ ax ∈ l, f x ax = .ok x) : l.foldlM f x = .ok x := by
  induction l with
  | nil => rfl
  | cons a l ih =>
    rw [List.foldlM_cons, h a (by simp)]
    exact ih (fun ax hax => h ax (List.mem_cons_of_mem _ hax))

theorem foldlM_one {ε α β : Type} (f : β → α → Except ε β) (l1 l2 : List α) (p : α) (x y : β)
    (h1 : ∀ ax ∈ l1, f x ax = .ok x) (hp : f x p = .ok y) (h2 : ∀ ax ∈ l2, f y ax = .ok y) :
    (l1 ++ p :: l2).foldlM f x = .ok y := by
  rw [List.foldlM_append, foldlM_skip f l1 x h1]
  show (p :: l2).foldlM f x = _
  rw [List.foldlM_cons, hp]
  exact foldlM_skip f l2 y h2

theorem mem_permuted {α : Type} {l : List α} {axes : List Nat} {x : α} (h : x ∈ permuted l axes) : x ∈ l := by
  simp only [permuted, List.mem_filterMap] at h
  obtain ⟨p, _, hp⟩ := h
  exact getElem?_mem' hp

section One
variable {a : Arr R} {gaxes : List Nat}

/-- the step of `unfuse_all` leaves an array alone at an axis whose index is not fused -/
theorem unfuseAll_step_skip (x : Arr R) (ax : Nat) (h : ∀ ix, x.indices[ax]? = some ix → ix.sub = none) :
    (match x.indices[ax]? with
      | some ix => if ix.sub.isSome then unfuseA x ax else pure x
      | none => pure x) = (.ok x : Except Err (Arr R)) := by
  cases hx : x.indices[ax]? with
  | none => rfl
  | some ix => simp [h ix hx]; rfl

theorem unfuseAll_fused (hv : ValidArr a) (hok : GroupsOk [gaxes] a.ndim) (hlen : gaxes.length ≠ 1)
    (hplain : ∀ ix ∈ a.indices, ix.sub = none) :
    unfuseAllA (fusedArr a gaxes)
      = .ok { fusedArr a gaxes with indices := permuted a.indices (gi1 a gaxes).perm,
                                    blocks := roundBlocks a gaxes } := by
  unfold unfuseAllA unfuseAllWith
  have hn : (fusedArr a gaxes).ndim = (gi1 a gaxes).position + 1 + (gi1 a gaxes).axesAfter.length := by
    show (newIndices1 a gaxes).length = _
    exact newIndices1_length hok
  have hrange : (List.range (fusedArr a gaxes).ndim).reverse
      = ((List.range (gi1 a gaxes).axesAfter.length).map (fun j => (gi1 a gaxes).position + 1 + j)).reverse
        ++ (gi1 a gaxes).position :: (List.range (gi1 a gaxes).position).reverse := by
    rw [hn, List.range_add, List.range_succ]
    simp
  rw [hrange]
  apply foldlM_one
  · intro ax hax
    apply unfuseAll_step_skip
    intro ix hix
    simp only [List.mem_reverse, List.mem_map, List.mem_range] at hax
    obtain ⟨j, hj, rfl⟩ := hax
    apply hplain
    have hix' : (newIndices1 a gaxes)[(gi1 a gaxes).position + 1 + j]? = some ix := hix
    simp only [newIndices1] at hix'
    rw [List.getElem?_append_right (by simp [permuted_before_length hok])] at hix'
    exact mem_permuted (getElem?_mem' hix')
  · have hfix : (fusedArr a gaxes).indices[(gi1 a gaxes).position]? = some (fix1 a gaxes) :=
      fusedArr_indices_get hok
    simp only [hfix, fix1_sub, Option.isSome_some, if_true]
    exact unfuse_fused_eq hv hok hlen
  · intro ax hax
    apply unfuseAll_step_skip
    intro ix hix
    apply hplain
    have hix' : (permuted a.indices (gi1 a gaxes).perm)[ax]? = some ix := hix
    exact mem_permuted (getElem?_mem' hix')

end One

end FuseP
end SymmModel
