/-
  SymmModel.Proofs.NormNet1 — network form of the norm (property C10), part 1:
  scalar laws, the bra tensor `braOf` of a network tensor and its frame / value view / validity.
  Namespace `SymmModel.NormNet`.  Nothing here changes a model definition.
-/
import SymmModel.Proofs.NormLemmas
import SymmModel.Proofs.Routes
namespace SymmModel.NormNet
open SymmModel SymmModel.Lazy SymmModel.Norm SymmModel.TdotP SymmModel.GradedP SymmModel.RoutesP
set_option linter.unusedSectionVars false

/-! ## scalar laws -/

/-- the laws of `NormLaws` plus: conjugation is additive and multiplicative -/
class NetLaws (R : Type) [AddMonoid R] [Mul R] [Neg R] [Conj R] : Prop extends NormLaws R where
  conj_add : ∀ x y : R, Conj.conj (x + y) = Conj.conj x + Conj.conj y
  conj_mul : ∀ x y : R, Conj.conj (x * y) = Conj.conj x * Conj.conj y

instance : NetLaws Int where
  conj_add := fun _ _ => rfl
  conj_mul := fun _ _ => rfl

/-- the laws hold for the driver's scalar type -/
theorem netLaws_GRat :
    @NetLaws GRat C02.addCommMonoidGRat.toAddMonoid GRat.instMul GRat.instNeg GRat.instConj :=
  @NetLaws.mk GRat C02.addCommMonoidGRat.toAddMonoid _ _ _ normLaws_GRat
    (fun x y => by
      apply GRat.ext'
      · rfl
      · show -(x.im + y.im) = -x.im + -y.im; ring)
    (fun x y => by
      apply GRat.ext'
      · show x.re * y.re - x.im * y.im = x.re * y.re - (-x.im) * (-y.im); ring
      · show -(x.re * y.im + x.im * y.re) = x.re * (-y.im) + (-x.im) * y.re; ring)

section laws
variable {R : Type} [AddMonoid R] [Mul R] [Neg R] [Conj R]

/-- `NormLaws` contains the laws of `GradedP.SignRing` -/
instance signRing_of_normLaws [NormLaws R] : SignRing R where
  neg_neg := LawfulNeg.neg_neg
  neg_zero := LawfulNeg.neg_zero
  neg_add := NormLaws.neg_add
  neg_mul := NormLaws.neg_mul
  mul_neg := NormLaws.mul_neg

variable [NetLaws R]

theorem conj_sgnI (σ : Int) (x : R) : Conj.conj (sgnI σ x) = sgnI σ (Conj.conj x) := by
  unfold sgnI; split
  · exact LawfulNegConj.conj_neg x
  · rfl

theorem conj_sum {α : Type} (f : α → R) (l : List α) :
    Conj.conj (l.map f).sum = (l.map (fun k => Conj.conj (f k))).sum := by
  induction l with
  | nil => simpa using (LawfulNegConj.conj_zero : Conj.conj (0 : R) = 0)
  | cons a l ih => simp only [List.map_cons, List.sum_cons, NetLaws.conj_add, ih]

end laws

/-! ## the bra tensor -/
section bra
variable {R : Type} [Zero R] [Neg R] [Conj R]

/-- the dangling (not contracted) legs of `a` that are bra-like -/
def dangDual (a : Arr R) (xa : List Nat) : List Nat :=
  (freeAxes a.ndim xa).filter (fun ax => (a.indices.getD ax default).dual)

/-- the bra tensor of a network tensor whose legs `xa` are bonds: `a.conj()` (default options),
    then `phase_flip` of the dangling legs that were bra-like -/
def braOf (a : Arr R) (xa : List Nat) : Arr R := (a.conjF).phaseFlip (dangDual a xa)

theorem braOf_frame (a : Arr R) (xa : List Nat) :
    (braOf a xa).sym = a.sym ∧ (braOf a xa).fermi = a.fermi
      ∧ (braOf a xa).indices = a.indices.map Index.conj
      ∧ (braOf a xa).charge = a.sym.sign a.charge true
      ∧ (braOf a xa).oddpos = Arr.oddposDag a.oddpos
      ∧ skel (braOf a xa) = skel a := by
  obtain ⟨h1, h2, h3, h4, h5, h6⟩ := conjF_frame a true false
  obtain ⟨g1, g2, g3, g4, g5, g6⟩ := phaseFlip_frame (a.conjF) (dangDual a xa)
  unfold braOf
  exact ⟨g1.trans h1, g2.trans h2, g3.trans h3, g4.trans h4, g5.trans h5, by
    unfold skel at h6 ⊢; rw [phaseFlip_blocks]; exact h6⟩

theorem braOf_sectors (a : Arr R) (xa : List Nat) : (braOf a xa).sectors = a.sectors := by
  rw [← skel_sectors, (braOf_frame a xa).2.2.2.2.2, skel_sectors]

theorem braOf_ndim (a : Arr R) (xa : List Nat) : (braOf a xa).ndim = a.ndim := by
  unfold Arr.ndim; rw [(braOf_frame a xa).2.2.1, List.length_map]

theorem braOf_parity (a : Arr R) (xa : List Nat) : (braOf a xa).parity = a.parity := by
  unfold Arr.parity
  rw [(braOf_frame a xa).1, (braOf_frame a xa).2.2.2.1, C17.parity_sign]

theorem braOf_parities (a : Arr R) (xa : List Nat) (s : Sector) :
    (braOf a xa).parities s = a.parities s := by
  unfold Arr.parities; rw [(braOf_frame a xa).1]

/-- the sector sign of the bra tensor -/
def braSign (a : Arr R) (xa : List Nat) (s : Sector) : Int :=
  flipSign a.sym (dangDual a xa) s * conjTotSign a true false s

theorem braSign_pm (a : Arr R) (xa : List Nat) (s : Sector) :
    braSign a xa s = 1 ∨ braSign a xa s = -1 :=
  mul_pm (flipSign_pm _ _ _) (conjTotSign_pm _ _ _ _)

/-- value view of the bra tensor -/
theorem braOf_elem [LawfulNegConj R] (a : Arr R) (xa : List Nat) (h : SignOk a) (s : Sector)
    (off : List Nat) :
    (braOf a xa).elem s off = sgnI (braSign a xa s) (Conj.conj (a.elem s off)) := by
  unfold braOf braSign
  rw [phaseFlip_elem _ _ (h.conjF true false), conjF_elem a true false h,
    (conjF_frame a true false).1, sgnI_mul (flipSign_pm _ _ _) (conjTotSign_pm _ _ _ _)]

theorem braOf_valid (a : Arr R) (xa : List Nat) (hv : a.validB = true) (hf : a.fermi = true) :
    (braOf a xa).validB = true := by
  rw [ValidP.validB_iff] at hv ⊢
  unfold braOf
  exact ValidP.phaseFlip_valid _ _ (ValidP.conjF_valid a true false hv hf)
    ((conjF_frame a true false).2.1.trans hf)

theorem braOf_fermi (a : Arr R) (xa : List Nat) (hf : a.fermi = true) : (braOf a xa).fermi = true :=
  (braOf_frame a xa).2.1.trans hf

theorem getD_map_conj (idx : List Index) (i : Nat) (hi : i < idx.length) :
    (idx.map Index.conj).getD i default = (idx.getD i default).conj := by
  simp [List.getD_eq_getElem?_getD, List.getElem?_map, List.getElem?_eq_getElem hi]

end bra

section adm
variable {R : Type} [AddMonoid R] [Mul R] [Neg R] [Conj R]

/-- the bra tensors are contractible along the same bond -/
theorem braOf_adm {a b : Arr R} {xa xb : List Nat} (h : Adm a b xa xb) :
    Adm (braOf a xa) (braOf b xb) xa xb := by
  obtain ⟨ha, hb, hfa, hfb, hsym, hc, hnA, hnB, hA, hB⟩ := h
  refine ⟨braOf_valid a xa ha hfa, braOf_valid b xb hb hfb, braOf_fermi a xa hfa,
    braOf_fermi b xb hfb, ?_, ?_, hnA, hnB, ?_, ?_⟩
  · rw [(braOf_frame a xa).1, (braOf_frame b xb).1, hsym]
  · unfold ValidP.contractibleB at hc ⊢
    simp only [Bool.and_eq_true, beq_iff_eq, List.all_eq_true] at hc ⊢
    refine ⟨hc.1, ?_⟩
    intro p hp
    have hp1 : p.1 ∈ xa := (List.of_mem_zip hp).1
    have hp2 : p.2 ∈ xb := (List.of_mem_zip hp).2
    have := hc.2 p hp
    rw [(braOf_frame a xa).2.2.1, (braOf_frame b xb).2.2.1,
      getD_map_conj _ _ (hA _ hp1), getD_map_conj _ _ (hB _ hp2), Index.conj_cm, Index.conj_cm,
      Lazy.Index.conj_dual, Lazy.Index.conj_dual]
    refine ⟨this.1, ?_⟩
    have h2 := this.2
    revert h2
    cases (a.indices.getD p.1 default).dual <;> cases (b.indices.getD p.2 default).dual <;> simp
  · intro i hi; rw [braOf_ndim]; exact hA i hi
  · intro i hi; rw [braOf_ndim]; exact hB i hi

end adm

/-! ## `dropUnused` and `Index.conj` -/
section drop

theorem Index.conj_charges (i : Index) : i.conj.charges = i.charges := by
  unfold Index.charges; rw [Index.conj_cm]

theorem Index.conj_dropCharges (i : Index) (cs : List Charge) :
    (i.dropCharges cs).conj = i.conj.dropCharges cs := by
  cases i with
  | mk c d s => cases s <;> rfl

theorem dropTo_conj (i : Index) (S : List Charge) : (dropTo i S).conj = dropTo i.conj S := by
  rw [dropTo_eq_dropCharges, dropTo_eq_dropCharges, Index.conj_dropCharges, Index.conj_charges]

theorem dropUnused_conj (ixs : List Index) (S : List Sector) :
    dropUnused (ixs.map Index.conj) S = (dropUnused ixs S).map Index.conj := by
  rw [dropUnused_eq, dropUnused_eq, List.zipIdx_map, List.map_map, List.map_map]
  apply List.map_congr_left
  intro p _
  simp only [Function.comp, Prod.map, id, dropTo_conj]

theorem without_map {α β : Type} (f : α → β) (l : List α) (rm : List Nat) :
    without (l.map f) rm = (without l rm).map f := by
  rw [without_eq_permuted_freeAxes, without_eq_permuted_freeAxes, List.length_map, permuted_map]

end drop

end SymmModel.NormNet
