/-
  SymmModel.Proofs.NormNet23 — network form of the norm (property C10), part 23:
  the four balanced bracketings with the halves in MIXED operand orders:
  `(b̄·ā)·(a·b)`, `(a·b)·(b̄·ā)`, `(ā·b̄)·(b·a)`, `(b·a)·(ā·b̄)`.
-/
import SymmModel.Proofs.NormNet22
namespace SymmModel.NormNet
open SymmModel SymmModel.Lazy SymmModel.Norm SymmModel.TdotP SymmModel.GradedP SymmModel.RoutesP
open SymmModel.AssocP SymmModel.Assoc3P
set_option linter.unusedSectionVars false

section labels

theorem bra_labels_distinct {oA oB : List (Int × Bool)}
    (hd : (oA ++ oB).Pairwise (fun x y => x.1 ≠ y.1)) :
    (Arr.oddposDag oA ++ Arr.oddposDag oB).Pairwise (fun x y => x.1 ≠ y.1) := by
  rw [← oddposDag_append]
  exact oddposDag_distinct _ (labels_swap hd)

end labels

section mixed
variable {R : Type} [AddCommMonoid R] [Mul R] [Neg R] [Conj R] [NetLaws R]

/-- the halves of the network and of the operand-swapped network, with the four "pure" norms -/
structure TwoNets (a b K Kb K' Kb' : Arr R) (xa xb : List Nat) : Prop where
  eK : a.tensordotF b (.pair (xa.map Int.ofNat) (xb.map Int.ofNat)) .blockwise = .ok K
  eKb : (braOf a xa).tensordotF (braOf b xb) (.pair (xa.map Int.ofNat) (xb.map Int.ofNat)) .blockwise
      = .ok Kb
  eK' : b.tensordotF a (.pair (xb.map Int.ofNat) (xa.map Int.ofNat)) .blockwise = .ok K'
  eKb' : (braOf b xb).tensordotF (braOf a xa) (.pair (xb.map Int.ofNat) (xa.map Int.ofNat)) .blockwise
      = .ok Kb'
  nd : Kb.ndim = K.ndim
  nd' : Kb'.ndim = K'.ndim
  ndK : K'.ndim = K.ndim
  val : normSq K' = normSq K

/-- **the mixed operand orders of the halves** (commutative scalars): the four bracketings in which
    one half is contracted in the order `a·b` / `ā·b̄` and the other in the order `b̄·ā` / `b·a`, with the
    crossed leg pairs, all succeed and give `normSq (a·b)`, rank 0, no labels -/
theorem network_norm_mixed (hmul : ∀ x y : R, x * y = y * x) (a b : Arr R) (xa xb : List Nat)
    (ha : a.validB = true) (hb : b.validB = true) (hfa : a.fermi = true) (hfb : b.fermi = true)
    (hadm : ValidP.tdotAdmissibleB a b xa xb = true)
    (hoA : KetLabels a.oddpos) (hoB : KetLabels b.oddpos)
    (hd : (a.oddpos ++ b.oddpos).Pairwise (fun x y => x.1 ≠ y.1)) :
    ∃ K Kb K' Kb', TwoNets a b K Kb K' Kb' xa xb
      -- (b̄·ā)·(a·b)
      ∧ (∃ r, Kb'.tensordotF K (.pair
            ((crossAx (freeAxes a.ndim xa).length (freeAxes b.ndim xb).length).map Int.ofNat)
            ((List.range K.ndim).map Int.ofNat)) .blockwise = .ok r
          ∧ r.ndim = 0 ∧ r.oddpos = [] ∧ r.elem [] [] = normSq K)
      -- (a·b)·(b̄·ā)
      ∧ (∃ r, K.tensordotF Kb' (.pair
            ((crossAx (freeAxes b.ndim xb).length (freeAxes a.ndim xa).length).map Int.ofNat)
            ((List.range K.ndim).map Int.ofNat)) .blockwise = .ok r
          ∧ r.ndim = 0 ∧ r.oddpos = [] ∧ r.elem [] [] = normSq K)
      -- (ā·b̄)·(b·a)
      ∧ (∃ r, Kb.tensordotF K' (.pair
            ((crossAx (freeAxes b.ndim xb).length (freeAxes a.ndim xa).length).map Int.ofNat)
            ((List.range K.ndim).map Int.ofNat)) .blockwise = .ok r
          ∧ r.ndim = 0 ∧ r.oddpos = [] ∧ r.elem [] [] = normSq K)
      -- (b·a)·(ā·b̄)
      ∧ (∃ r, K'.tensordotF Kb (.pair
            ((crossAx (freeAxes a.ndim xa).length (freeAxes b.ndim xb).length).map Int.ofNat)
            ((List.range K.ndim).map Int.ofNat)) .blockwise = .ok r
          ∧ r.ndim = 0 ∧ r.oddpos = [] ∧ r.elem [] [] = normSq K) := by
  have h := Adm.of ha hb hfa hfb hadm
  have hB := braOf_adm h
  have hadm' := admB_swap ha hb hfa hfb hadm
  have hd' := labels_swap hd
  have h' := Adm.of hb ha hfb hfa hadm'
  have hB' := braOf_adm h'
  -- the two networks
  obtain ⟨K, Kb, eK, eKb, hobs, hKv, hKf, hKbv, hKbf, _, _, _⟩ :=
    conj_tensordot a b xa xb ha hb hfa hfb hadm hoA hoB hd
  obtain ⟨K1, Kb1, r, r', eK1, eKb1, hnd, h1, h2, h3, h4, g1, g2, g3, g4⟩ :=
    network_norm_halves a b xa xb ha hb hfa hfb hadm hoA hoB hd
  obtain rfl : K1 = K := by rw [eK] at eK1; exact (Except.ok.inj eK1).symm
  obtain rfl : Kb1 = Kb := by rw [eKb] at eKb1; exact (Except.ok.inj eKb1).symm
  obtain ⟨K', Kb', eK', eKb', hobs', hKv', hKf', hKbv', hKbf', _, _, _⟩ :=
    conj_tensordot b a xb xa hb ha hfb hfa hadm' hoB hoA hd'
  obtain ⟨K2, Kb2, s, s', eK2, eKb2, hnd', p1, p2, p3, p4, q1, q2, q3, q4⟩ :=
    network_norm_halves b a xb xa hb ha hfb hfa hadm' hoB hoA hd'
  obtain rfl : K2 = K' := by rw [eK'] at eK2; exact (Except.ok.inj eK2).symm
  obtain rfl : Kb2 = Kb' := by rw [eKb'] at eKb2; exact (Except.ok.inj eKb2).symm
  have hval : normSq K2 = normSq K1 := normSq_swap hmul a b K1 K2 xa xb h hd eK eK'
  -- ranks
  obtain ⟨_, hI⟩ := tdot_sectors h eK
  obtain ⟨_, hI'⟩ := tdot_sectors h' eK'
  have hn : K1.ndim = (freeAxes a.ndim xa).length + (freeAxes b.ndim xb).length := by
    unfold Arr.ndim
    rw [hI, dropUnused_length, frame_eq, List.length_append, List.length_map, List.length_map]; rfl
  have hn' : K2.ndim = (freeAxes b.ndim xb).length + (freeAxes a.ndim xa).length := by
    unfold Arr.ndim
    rw [hI', dropUnused_length, frame_eq, List.length_append, List.length_map, List.length_map]; rfl
  have hKK : K2.ndim = K1.ndim := by rw [hn, hn']; omega
  -- strong guards between the halves
  obtain ⟨A1, A2⟩ := adm_full hKv hKf hKbv hKbf (hobs.sym.trans (conjF_frame K1 true true).1)
    (hobs.indices.trans (conjF_frame K1 true true).2.2.1)
  obtain ⟨A1', A2'⟩ := adm_full hKv' hKf' hKbv' hKbf' (hobs'.sym.trans (conjF_frame K2 true true).1)
    (hobs'.indices.trans (conjF_frame K2 true true).2.2.1)
  have hdb := bra_labels_distinct hd
  have hdb' := bra_labels_distinct hd'
  rw [← (braOf_frame a xa).2.2.2.2.1, ← (braOf_frame b xb).2.2.2.2.1] at hdb
  rw [← (braOf_frame b xb).2.2.2.2.1, ← (braOf_frame a xa).2.2.2.2.1] at hdb'
  refine ⟨K1, Kb1, K2, Kb2, ⟨eK, eKb, eK', eKb', hnd, hnd', hKK, hval⟩, ?_, ?_, ?_, ?_⟩
  · -- (b̄·ā)·(a·b): P = Kb, P' = Kb', Y = K
    obtain ⟨r1, e1, n1, o1, v1⟩ := mixed_full hmul (braOf a xa) (braOf b xb) Kb1 Kb2 K1 r xa xb hB hdb
      eKb eKb' hKbv hKbf hKbv' (by rw [hnd]; exact A1) hnd.symm (by rw [hnd]; exact h1)
    simp only [braOf_ndim] at e1
    rw [hnd] at e1
    exact ⟨r1, e1, n1, o1.trans h3, v1.trans h4⟩
  · -- (a·b)·(b̄·ā): P = K', P' = K, Y = Kb'
    obtain ⟨r1, e1, n1, o1, v1⟩ := mixed_full hmul b a K2 K1 Kb2 s' xb xa h' hd' eK' eK hKv' hKf' hKv
      A2' hnd' q1
    rw [hKK] at e1
    exact ⟨r1, e1, n1, o1.trans q3, by rw [v1, q4, normSq'_eq hmul, hval]⟩
  · -- (ā·b̄)·(b·a): P = Kb', P' = Kb, Y = K'
    obtain ⟨r1, e1, n1, o1, v1⟩ := mixed_full hmul (braOf b xb) (braOf a xa) Kb2 Kb1 K2 s xb xa hB' hdb'
      eKb' eKb hKbv' hKbf' hKbv (by rw [hnd']; exact A1') hnd'.symm (by rw [hnd']; exact p1)
    simp only [braOf_ndim] at e1
    rw [hnd', hKK] at e1
    exact ⟨r1, e1, n1, o1.trans p3, by rw [v1, p4, hval]⟩
  · -- (b·a)·(ā·b̄): P = K, P' = K', Y = Kb
    obtain ⟨r1, e1, n1, o1, v1⟩ := mixed_full hmul a b K1 K2 Kb1 r' xa xb h hd eK eK' hKv hKf hKv'
      A2 hnd g1
    exact ⟨r1, e1, n1, o1.trans g3, by rw [v1, g4, normSq'_eq hmul]⟩

end mixed

end SymmModel.NormNet
