/-
  SymmModel.Proofs.NormNet2 — network form of the norm (property C10), part 2:
  counting odd charges, and the sign identity of one aligned sector pair:
  (label sign of the bra contraction) × (graded sign of the bra pair) × (signs of the two bra tensors)
    = (sign of `conj(phase_dual=True)` on the ket result) × (label sign) × (graded sign of the ket pair).
-/
import SymmModel.Proofs.NormNet1
namespace SymmModel.NormNet
open SymmModel SymmModel.Lazy SymmModel.Norm SymmModel.TdotP SymmModel.GradedP SymmModel.RoutesP
open SymmModel.KoszulP (sgn tri sgn_add sgn_congr sgn_cases)
set_option linter.unusedSectionVars false

/-! ## arithmetic of exponents -/

theorem tri_add (m n : Nat) : tri (m + n) = tri m + tri n + m * n := by
  induction n with
  | zero => simp [tri]
  | succ n ih =>
    show tri (m + n) + (m + n) = tri m + (tri n + n) + m * (n + 1)
    rw [ih, Nat.mul_succ]; omega

theorem mul_mod_two (m n : Nat) : (m * n) % 2 = (m % 2) * (n % 2) := by
  rw [Nat.mul_mod]
  rcases Nat.mod_two_eq_zero_or_one m with h | h <;> rcases Nat.mod_two_eq_zero_or_one n with g | g <;>
    simp [h, g]

/-- the parity bookkeeping behind `conj (A·B) = conj A · conj B` -/
theorem exps (fA fB k dA dB kA kA' pA pB tA tB tk : Nat) (hpA : pA = (fA + k) % 2)
    (hpB : pB = (fB + k) % 2) (hk : kA' + kA = k) :
    (pA * pB + kA' + (dA + pA + (tA + tk + fA * k)) + (dB + pB + (tB + tk + fB * k))) % 2
      = ((pA + pB) + (dA + dB) + (tA + tB + fA * fB) + kA) % 2 := by
  have e1 := mul_mod_two fA k
  have e2 := mul_mod_two fB k
  have e3 := mul_mod_two fA fB
  rcases Nat.mod_two_eq_zero_or_one fA with h1 | h1 <;>
  rcases Nat.mod_two_eq_zero_or_one fB with h2 | h2 <;>
  rcases Nat.mod_two_eq_zero_or_one k with h3 | h3 <;>
  · rw [h1, h3] at e1
    rw [h2, h3] at e2
    rw [h1, h2] at e3
    have a1 : pA = 0 ∨ pA = 1 := by omega
    have a2 : pB = 0 ∨ pB = 1 := by omega
    rcases a1 with rfl | rfl <;> rcases a2 with rfl | rfl <;> omega

def sgB (b : Bool) : Int := if b then -1 else 1

theorem sgB_eq (b : Bool) : sgB b = sgn b.toNat := by cases b <;> rfl

theorem sgB_xor (p q : Bool) : sgB (xor p q) = sgn (p.toNat + q.toNat) := by
  cases p <;> cases q <;> rfl

theorem sgB_and (p q : Bool) : sgB (p && q) = sgn (p.toNat * q.toNat) := by
  cases p <;> cases q <;> rfl

theorem toNat_of_beq {n : Nat} {b : Bool} (h : (n % 2 == 1) = b) : b.toNat = n % 2 := by
  subst h
  rcases Nat.mod_two_eq_zero_or_one n with h | h <;> simp [h]

/-- the sign identity in terms of the counts -/
theorem sign_algebra (fA fB k dA dB kA kA' : Nat) (pA pB : Bool) (X Y ph ph' : Int)
    (hpA : ((fA + k) % 2 == 1) = pA) (hpB : ((fB + k) % 2 == 1) = pB) (hk : kA' + kA = k)
    (hph' : ph' = ph * sgB (pA && pB)) :
    ph' * (X * Y * sgn (tri k) * sgn kA'
        * ((sgn dA * (sgB pA * sgn (tri (fA + k)))) * (sgn dB * (sgB pB * sgn (tri (fB + k))))))
      = (sgB (xor pA pB) * (sgn (dA + dB) * sgn (tri (fA + fB)))) * (ph * (X * Y * sgn (tri k) * sgn kA)) := by
  have key : sgn (pA.toNat * pB.toNat + kA' + (dA + pA.toNat + (tri fA + tri k + fA * k))
        + (dB + pB.toNat + (tri fB + tri k + fB * k)))
      = sgn ((pA.toNat + pB.toNat) + (dA + dB) + (tri fA + tri fB + fA * fB) + kA) :=
    sgn_congr (exps fA fB k dA dB kA kA' pA.toNat pB.toNat (tri fA) (tri fB) (tri k)
      (toNat_of_beq hpA) (toNat_of_beq hpB) hk)
  simp only [sgn_add] at key
  rw [hph', sgB_and, sgB_xor, sgB_eq, sgB_eq, tri_add, tri_add, tri_add]
  simp only [sgn_add]
  calc ph * sgn (pA.toNat * pB.toNat) * (X * Y * sgn (tri k) * sgn kA' *
          (sgn dA * (sgn pA.toNat * (sgn (tri fA) * sgn (tri k) * sgn (fA * k))) *
            (sgn dB * (sgn pB.toNat * (sgn (tri fB) * sgn (tri k) * sgn (fB * k))))))
      = (ph * X * Y * sgn (tri k)) * (sgn (pA.toNat * pB.toNat) * sgn kA' *
          (sgn dA * sgn pA.toNat * (sgn (tri fA) * sgn (tri k) * sgn (fA * k))) *
            (sgn dB * sgn pB.toNat * (sgn (tri fB) * sgn (tri k) * sgn (fB * k)))) := by ring
    _ = (ph * X * Y * sgn (tri k)) * (sgn pA.toNat * sgn pB.toNat * (sgn dA * sgn dB) *
          (sgn (tri fA) * sgn (tri fB) * sgn (fA * fB)) * sgn kA) := by rw [key]
    _ = _ := by ring

/-! ## counting odd charges -/
section counts

/-- number of odd charges in a list of charges -/
def oddN (sym : Sym) (l : Sector) : Nat := (l.filter sym.parity).length

theorem oddN_append (sym : Sym) (l m : Sector) : oddN sym (l ++ m) = oddN sym l + oddN sym m := by
  simp [oddN, List.filter_append]

theorem oddN_perm (sym : Sym) {l m : Sector} (h : l.Perm m) : oddN sym l = oddN sym m :=
  (h.filter _).length_eq

theorem oddN_parities (sym : Sym) (s : Sector) :
    ((s.map sym.parity).filter id).length = oddN sym s := by
  rw [List.filter_map, List.length_map]; rfl

/-- free part + contracted part = the whole sector -/
theorem oddN_split (sym : Sym) (sa : Sector) {n : Nat} {xa : List Nat} (hl : sa.length = n)
    (hn : xa.Nodup) (hlt : ∀ i ∈ xa, i < n) :
    oddN sym sa = oddN sym (permuted sa (freeAxes n xa)) + oddN sym (permuted sa xa) := by
  subst hl
  have hp : (freeAxes sa.length xa ++ xa).Perm (List.range sa.length) := perm_left hn hlt
  rw [← oddN_perm sym (permuted_perm sa _ hp), ValidP.permuted_append, oddN_append]

theorem koszul_none_oddN (sym : Sym) (s : Sector) :
    koszul (s.map sym.parity) none = sgn (tri (oddN sym s)) := by
  rw [KoszulP.koszul_none, oddN_parities, KoszulP.sgn_tri]

/-- a filter count over the positions of a list is a filter count over the list -/
theorem count_range_getD (l : List Nat) (g f : Nat → Bool)
    (h : ∀ i, i < l.length → g i = f (l.getD i 0)) :
    ((List.range l.length).filter g).length = (l.filter f).length := by
  conv_rhs => rw [list_eq_map_getD l, List.filter_map, List.length_map]
  congr 1
  apply List.filter_congr
  intro i hi
  exact h i (List.mem_range.mp hi)

theorem count_partition {α : Type} (l : List α) (p q : α → Bool) :
    ((l.filter p).filter q).length + ((l.filter (fun x => !p x)).filter q).length
      = (l.filter q).length := by
  induction l with
  | nil => rfl
  | cons x xs ih =>
    simp only [List.filter_cons]
    cases hp : p x <;> cases hq : q x <;>
      simp only [hq, List.filter_cons, Bool.not_false, Bool.not_true, if_true, if_false,
        Bool.false_eq_true, List.length_cons] <;> omega

theorem flipSign_eq_sgn (sym : Sym) (axs : List Nat) (s : Sector) :
    flipSign sym axs s = sgn ((axs.filter (fun ax => sym.parity (s.getD ax (0, 0)))).length) := by
  unfold flipSign flipOdd sgn
  generalize (axs.filter (fun ax => sym.parity (s.getD ax (0, 0)))).length = n
  rcases Nat.mod_two_eq_zero_or_one n with h | h <;> simp [h]

end counts

section pairsign
variable {R : Type} [Zero R] [Neg R] [Conj R]

/-- number of dangling bra-like legs of `a` carrying an odd charge in `sa` -/
def dangOdd (a : Arr R) (xa : List Nat) (sa : Sector) : Nat :=
  ((dangDual a xa).filter (fun ax => a.sym.parity (sa.getD ax (0, 0)))).length

theorem conjGlob_valid {x : Arr R} (hl : (x.oddpos.length % 2 == 1) = x.parity) :
    conjGlob x true = x.parity := by
  unfold conjGlob
  rw [C17.parity_sign, ValidP.oddposDag_length, hl]
  show (true && x.parity && x.parity) = x.parity
  cases x.parity <;> rfl

/-- the sector sign of the bra tensor through the counts -/
theorem braSign_eq (a : Arr R) (xa : List Nat) (sa : Sector)
    (hl : (a.oddpos.length % 2 == 1) = a.parity) :
    braSign a xa sa = sgn (dangOdd a xa sa) * (sgB a.parity * sgn (tri (oddN a.sym sa))) := by
  unfold braSign conjTotSign conjSign
  rw [flipSign_eq_sgn, conjGlob_valid hl]
  simp only [Bool.false_and, Bool.false_eq_true, if_false, if_true, Int.one_mul]
  unfold Arr.parities
  rw [koszul_none_oddN]; rfl

/-- ket-then-bra counts of the bra pair and of the ket pair add up to the odd contracted charges -/
theorem ketOdd_bra (a : Arr R) (xa : List Nat) (sa : Sector) (hA : ∀ i ∈ xa, i < a.ndim)
    (hl : sa.length = a.ndim) :
    ketOdd (braOf a xa) xa sa + ketOdd a xa sa = oddContracted a xa sa := by
  unfold ketOdd oddContracted
  rw [(braOf_frame a xa).1, (braOf_frame a xa).2.2.1]
  have e : xa.filter (fun ax => !((a.indices.map Index.conj).getD ax default).dual)
      = xa.filter (fun ax => !(fun ax => !(a.indices.getD ax default).dual) ax) := by
    apply List.filter_congr
    intro i hi
    rw [getD_map_conj _ _ (hA i hi), Lazy.Index.conj_dual]
  rw [e, Nat.add_comm, count_partition xa (fun ax => !(a.indices.getD ax default).dual)
    (fun ax => a.sym.parity (sa.getD ax (0, 0)))]
  rw [permuted_eq_map sa xa (by intro x hx; rw [hl]; exact hA x hx) (0, 0), List.filter_map,
    List.length_map]
  rfl

theorem dropTo_dual (ix : Index) (S : List Charge) : (dropTo ix S).dual = ix.dual := by
  rw [dropTo_eq_dropCharges]
  cases ix with
  | mk c d s => rfl

theorem dropUnused_getD_dual (ixs : List Index) (S : List Sector) (i : Nat) :
    ((dropUnused ixs S).getD i default).dual = (ixs.getD i default).dual := by
  simp only [List.getD_eq_getElem?_getD, dropUnused_getElem?]
  cases ixs[i]? with
  | none => rfl
  | some ix => simp [dropTo_dual]

/-- the dual-leg sign of `conj(phase_dual=True)` on the contraction result is the product of the
    dangling-leg flips of the two bra tensors -/
theorem dualOdd_result (a b K : Arr R) (xa xb : List Nat) (S : List Sector)
    (hKs : K.sym = a.sym) (hsym : a.sym = b.sym)
    (hKi : K.indices = dropUnused (without a.indices xa ++ without b.indices xb) S)
    (sa sb : Sector) (hla : sa.length = a.ndim) (hlb : sb.length = b.ndim) :
    dualOdd K (permuted sa (freeAxes a.ndim xa) ++ permuted sb (freeAxes b.ndim xb))
      = ((dangOdd a xa sa + dangOdd b xb sb) % 2 == 1) := by
  have hfa : ∀ x ∈ freeAxes a.ndim xa, x < a.indices.length := fun x hx => mem_freeAxes_lt x hx
  have hfb : ∀ x ∈ freeAxes b.ndim xb, x < b.indices.length := fun x hx => mem_freeAxes_lt x hx
  have hfa' : ∀ x ∈ freeAxes a.ndim xa, x < sa.length := fun x hx => hla ▸ mem_freeAxes_lt x hx
  have hfb' : ∀ x ∈ freeAxes b.ndim xb, x < sb.length := fun x hx => hlb ▸ mem_freeAxes_lt x hx
  have wA : without a.indices xa
      = (freeAxes a.ndim xa).map (fun x => a.indices.getD x default) := by
    rw [without_eq_permuted_freeAxes]; exact permuted_eq_map _ _ hfa _
  have wB : without b.indices xb
      = (freeAxes b.ndim xb).map (fun x => b.indices.getD x default) := by
    rw [without_eq_permuted_freeAxes]; exact permuted_eq_map _ _ hfb _
  have sL : permuted sa (freeAxes a.ndim xa)
      = (freeAxes a.ndim xa).map (fun x => sa.getD x (0, 0)) := permuted_eq_map _ _ hfa' _
  have sR : permuted sb (freeAxes b.ndim xb)
      = (freeAxes b.ndim xb).map (fun x => sb.getD x (0, 0)) := permuted_eq_map _ _ hfb' _
  have hnd : K.indices.length = (freeAxes a.ndim xa).length + (freeAxes b.ndim xb).length := by
    rw [hKi, dropUnused_length, List.length_append, wA, wB, List.length_map, List.length_map]
  have hflip := flipOdd_filter K.sym K.indices (fun i => i.dual)
    (permuted sa (freeAxes a.ndim xa) ++ permuted sb (freeAxes b.ndim xb))
  rw [dualOdd_eq]
  unfold Arr.parities
  rw [← hflip]
  unfold flipOdd
  rw [List.filter_filter]
  rw [hnd, List.range_add, List.filter_append, List.length_append, List.filter_map, List.length_map]
  congr 2
  congr 1
  · -- left block
    unfold dangOdd dangDual
    rw [List.filter_filter]
    apply count_range_getD (freeAxes a.ndim xa)
    intro i hi
    have h1 : i < (permuted sa (freeAxes a.ndim xa)).length := by rw [sL, List.length_map]; exact hi
    rw [hKi, dropUnused_getD_dual, hKs]
    have e1 : (without a.indices xa ++ without b.indices xb).getD i default
        = a.indices.getD ((freeAxes a.ndim xa).getD i 0) default := by
      have : i < (without a.indices xa).length := by rw [wA, List.length_map]; exact hi
      simp only [List.getD_eq_getElem?_getD, List.getElem?_append_left this]
      rw [wA, List.getElem?_map, List.getElem?_eq_getElem hi]
      simp
    have e2 : (permuted sa (freeAxes a.ndim xa) ++ permuted sb (freeAxes b.ndim xb)).getD i (0, 0)
        = sa.getD ((freeAxes a.ndim xa).getD i 0) (0, 0) := by
      simp only [List.getD_eq_getElem?_getD, List.getElem?_append_left h1]
      rw [sL, List.getElem?_map, List.getElem?_eq_getElem hi]
      simp
    rw [e1, e2, Bool.and_comm]
  · -- right block
    unfold dangOdd dangDual
    rw [List.filter_filter]
    apply count_range_getD (freeAxes b.ndim xb)
    intro i hi
    have hlenL : (permuted sa (freeAxes a.ndim xa)).length = (freeAxes a.ndim xa).length := by
      rw [sL, List.length_map]
    have hlenW : (without a.indices xa).length = (freeAxes a.ndim xa).length := by
      rw [wA, List.length_map]
    simp only [Function.comp]
    rw [hKi, dropUnused_getD_dual, hKs, hsym]
    have e1 : (without a.indices xa ++ without b.indices xb).getD
          ((freeAxes a.ndim xa).length + i) default
        = b.indices.getD ((freeAxes b.ndim xb).getD i 0) default := by
      simp only [List.getD_eq_getElem?_getD]
      rw [← hlenW, List.getElem?_append_right (Nat.le_add_right _ _), Nat.add_sub_cancel_left,
        wB, List.getElem?_map, List.getElem?_eq_getElem hi]
      simp
    have e2 : (permuted sa (freeAxes a.ndim xa) ++ permuted sb (freeAxes b.ndim xb)).getD
          ((freeAxes a.ndim xa).length + i) (0, 0)
        = sb.getD ((freeAxes b.ndim xb).getD i 0) (0, 0) := by
      simp only [List.getD_eq_getElem?_getD]
      rw [← hlenL, List.getElem?_append_right (Nat.le_add_right _ _), Nat.add_sub_cancel_left,
        sR, List.getElem?_map, List.getElem?_eq_getElem hi]
      simp
    rw [e1, e2, Bool.and_comm]

end pairsign

end SymmModel.NormNet
