/-
  SymmModel.Proofs.SpectrumAxis — positions along one axis of the dense form, grouped by charge:
  for a charge table with distinct charges, the positions whose charge is `c` are in bijection
  with the offsets `Fin d_c` (`Arr.locate` / `Arr.position`).
-/
import SymmModel.Proofs.Spectrum
import SymmModel.Proofs.DenseLemmas

namespace SymmModel
namespace Spectrum

open Arr

/-- total size of a charge table -/
def total (cm : List (Charge × Nat)) : Nat := sumN (cm.map (·.2))

/-- the charge a position lies in, as a label in the linearly ordered type `Lex (ℤ × ℤ)` -/
def chargeAt (cm : List (Charge × Nat)) (p : Nat) : Lex (Int × Int) :=
  toLex (((locate cm p).map (·.1)).getD (0, 0))

/-- the offset of a position inside its charge -/
def offsetAt (cm : List (Charge × Nat)) (p : Nat) : Nat := ((locate cm p).map (·.2)).getD 0

theorem locate_eq_of_lt {cm : List (Charge × Nat)} {p : Nat} (h : p < total cm) :
    locate cm p = some ((ofLex (chargeAt cm p) : Int × Int), offsetAt cm p) := by
  obtain ⟨c, o, hl⟩ := locate_isSome (cm := cm) (p := p) h
  simp [chargeAt, offsetAt, hl]

theorem size_unique {cm : List (Charge × Nat)} (hnd : (cm.map (·.1)).Nodup) {c : Charge}
    {d d' : Nat} (h : (c, d) ∈ cm) (h' : (c, d') ∈ cm) : d = d' := by
  have := List.inj_on_of_nodup_map hnd h h' rfl
  exact (Prod.mk.inj this).2

/-- positions of charge `c` ≃ offsets below the size of `c` -/
def axisEquiv (cm : List (Charge × Nat)) (hnd : (cm.map (·.1)).Nodup) (c : Charge) (d : Nat)
    (hm : (c, d) ∈ cm) :
    {p : Fin (total cm) // chargeAt cm p.1 = toLex c} ≃ Fin d where
  toFun p := ⟨offsetAt cm p.1.1, by
    have hl := locate_eq_of_lt p.1.2
    obtain ⟨d', hm', ho⟩ := locate_spec hl
    have hc : (ofLex (chargeAt cm p.1.1) : Int × Int) = c := by rw [p.2]; rfl
    rw [hc] at hm'
    rw [size_unique hnd hm hm']; exact ho⟩
  invFun o := ⟨⟨((position cm c o.1).getD 0), by
      obtain ⟨q, hq⟩ := position_isSome hnd hm o.2
      rw [hq]; exact locate_lt (locate_position hq)⟩, by
      obtain ⟨q, hq⟩ := position_isSome hnd hm o.2
      simp only [hq, Option.getD_some, chargeAt, locate_position hq, Option.map_some]⟩
  left_inv p := by
    have hl := locate_eq_of_lt p.1.2
    have hc : (ofLex (chargeAt cm p.1.1) : Int × Int) = c := by rw [p.2]; rfl
    rw [hc] at hl
    have := position_locate hnd hl
    apply Subtype.ext
    apply Fin.ext
    simp only [this, Option.getD_some]
  right_inv o := by
    obtain ⟨q, hq⟩ := position_isSome hnd hm o.2
    apply Fin.ext
    simp only [hq, Option.getD_some, offsetAt, locate_position hq, Option.map_some]

theorem locate_axisEquiv_symm (cm : List (Charge × Nat)) (hnd : (cm.map (·.1)).Nodup) (c : Charge)
    (d : Nat) (hm : (c, d) ∈ cm) (o : Fin d) :
    locate cm ((axisEquiv cm hnd c d hm).symm o).1.1 = some (c, o.1) := by
  obtain ⟨q, hq⟩ := position_isSome hnd hm o.2
  show locate cm ((position cm c o.1).getD 0) = _
  rw [hq]; exact locate_position hq

/-- the labels that occur are exactly the charges of the table (all sizes positive) -/
theorem image_chargeAt (cm : List (Charge × Nat)) (hnd : (cm.map (·.1)).Nodup)
    (hpos : ∀ c d, (c, d) ∈ cm → 0 < d) :
    Finset.image (fun p : Fin (total cm) => chargeAt cm p.1) Finset.univ
      = (cm.map (fun cd => (toLex cd.1 : Lex (Int × Int)))).toFinset := by
  ext x
  simp only [Finset.mem_image, Finset.mem_univ, true_and, List.mem_toFinset, List.mem_map]
  constructor
  · rintro ⟨p, rfl⟩
    have hl := locate_eq_of_lt p.2
    obtain ⟨d, hm, _⟩ := locate_spec hl
    exact ⟨_, hm, rfl⟩
  · rintro ⟨⟨c, d⟩, hm, rfl⟩
    obtain ⟨q, hq⟩ := position_isSome hnd hm (hpos c d hm)
    refine ⟨⟨q, locate_lt (locate_position hq)⟩, ?_⟩
    simp only [chargeAt, locate_position hq, Option.map_some, Option.getD_some]

end Spectrum
end SymmModel
