/-
  SymmModel.Proofs.Heap4Sync — the heap-side `phase_sync` on block values (`psSem`: a fold of the `tNeg`
  kernel over the pending −1 keys, in `popitem` order) IS the value model's `Arr.phaseSync`
  (`Model/Fermi.lean`: a map over the blocks negating those whose sector carries the sign −1), for dicts
  with unique keys, under an encoding `enc : Sector → Key` of sectors as abstract dict keys that is
  injective on the sectors that occur.  Also: `binaryBlockwise` commutes with such an encoding.

  Last part: the `_map_blocks` script (`S.mapBlocks`, with the sign dict `S.mapPhases` of the repaired
  library: only the entries of stored blocks are re-keyed) IS `Arr.mapBlocks` at the level of contents
  (`mapBlocks_rep`); `squeeze` / `expand_dims` are `_map_blocks` followed by slot assignments.
-/
import SymmModel.Proofs.Heap3Value
import SymmModel.Model.Fermi
namespace SymmModel.Heap

section sd
variable {V : Type}

theorem sd_set_eq_map (l : SDict V) (k : Key) (w : V) (hk : k ∈ keysOf l) (hn : (keysOf l).Nodup) :
    SD.set l k w = l.map (fun e => if e.1 == k then (k, w) else e) := by
  induction l with
  | nil => simp [keysOf] at hk
  | cons e r ih =>
    obtain ⟨k', v⟩ := e
    simp only [keysOf, List.map_cons, List.nodup_cons, List.mem_cons] at hk hn
    by_cases h : (k' == k) = true
    · have hkk : k' = k := by simpa using h
      simp only [SD.set, h, if_true, List.map_cons]
      congr 1
      symm
      conv => rhs; rw [← List.map_id r]
      apply List.map_congr_left
      intro e he
      have : e.1 ≠ k := by
        intro h'; apply hn.1; rw [hkk, ← h']; exact List.mem_map_of_mem he
      simp [this]
    · have h' : (k' == k) = false := by simpa using h
      simp only [SD.set, h', Bool.false_eq_true, if_false, List.map_cons]
      congr 1
      rcases hk with hk | hk
      · exact absurd hk.symm (by simpa using h)
      · exact ih hk hn.2

theorem sd_get?_mem {l : SDict V} {k : Key} {v : V} (h : SD.get? l k = some v) : (k, v) ∈ l := by
  simp only [SD.get?, Option.map_eq_some_iff] at h
  obtain ⟨e, he, rfl⟩ := h
  have hm := List.mem_of_find?_eq_some he
  have hk := List.find?_some he
  have : e.1 = k := by simpa using hk
  rw [← this]; exact hm

theorem sd_get?_of_mem {l : SDict V} {k : Key} {v : V} (hn : (keysOf l).Nodup) (hm : (k, v) ∈ l) :
    SD.get? l k = some v := by
  induction l with
  | nil => cases hm
  | cons e r ih =>
    obtain ⟨k', v'⟩ := e
    simp only [keysOf, List.map_cons, List.nodup_cons] at hn
    simp only [List.mem_cons, Prod.mk.injEq] at hm
    rcases hm with ⟨rfl, rfl⟩ | hm
    · simp [SD.get?]
    · have hne : (k' == k) = false := by
        simp only [beq_eq_false_iff_ne, ne_eq]
        intro e; apply hn.1; rw [e]; exact List.mem_map_of_mem (f := (·.1)) hm
      simp only [SD.get?, List.find?_cons, hne]
      exact ih hn.2 hm

theorem sd_get?_none {l : SDict V} {k : Key} (h : SD.get? l k = none) : ∀ e ∈ l, (e.1 == k) = false := by
  intro e he
  simp only [SD.get?, Option.map_eq_none_iff, List.find?_eq_none] at h
  simpa using h e he

end sd

/-! ### `psSem` as a map -/

section sync
variable {V : Type} (I : Nat → List V → V) (d : V) (neg : V → V)

/-- `phase_sync` on a dict of values: negate the blocks whose key carries the sign −1 -/
def syncSD (xs : SDict V) (P : Dict) : SDict V :=
  xs.map fun e => (e.1, if P.any (fun q => q.2 == -1 && e.1 == q.1) then neg e.2 else e.2)

/-- what one pending sign does to the dict of values -/
def psEff (xs : SDict V) (q : Key × Val) (st : SDict V) : SDict V :=
  if q.2 == -1 then (match SD.get? xs q.1 with | some v => SD.set st q.1 (neg v) | none => st) else st

theorem psSem_fold (hneg : ∀ v, I tNeg [v] = neg v) (B : Bufs) (c : Content) :
    psSem I d B c = (c.phases.getD []).reverse.foldl (fun st q => psEff neg (semDict I d B c.blocks) q st)
      (semDict I d B c.blocks) := by
  have key : ∀ (Q : Dict) (st : SDict V),
      ((Q.flatMap fun e => SAct.ppop :: (if e.2 == -1 then
        (match c.blocks.get? e.1 with | some b => [SAct.kern e.1 tNeg [b.toNat]] | none => []) else [])).foldl
        (fun s a => (a.toS I d B).run s) (st, ([] : SDict V))) =
      (Q.foldl (fun st q => psEff neg (semDict I d B c.blocks) q st) st, []) := by
    intro Q
    induction Q with
    | nil => intro st; rfl
    | cons q r ih =>
      intro st
      simp only [List.flatMap_cons, List.cons_append, List.foldl_cons, List.foldl_append]
      have hpp : (SAct.toS I d B SAct.ppop).run (st, ([] : SDict V)) = (st, []) := rfl
      rw [hpp]
      have hmid : (if q.2 == -1 then
          (match c.blocks.get? q.1 with | some b => [SAct.kern q.1 tNeg [b.toNat]] | none => []) else []).foldl
          (fun s a => (a.toS I d B).run s) (st, ([] : SDict V)) =
          (psEff neg (semDict I d B c.blocks) q st, []) := by
        simp only [psEff, semDict, get?_mapV]
        split
        · cases hb : c.blocks.get? q.1 with
          | none => simp
          | some b => simp [SAct.toS, SStep.run, hneg]
        · rfl
      rw [hmid]; exact ih _
  simp only [psSem, psActs]
  exact congrArg Prod.fst (key (c.phases.getD []).reverse (semDict I d B c.blocks))

theorem psEff_step (xs : SDict V) (hn : (keysOf xs).Nodup) (q : Key × Val) (φ : Key × V → V) :
    psEff neg xs q (xs.map fun e => (e.1, φ e)) =
      xs.map fun e => (e.1, if (q.2 == -1 && e.1 == q.1) then neg e.2 else φ e) := by
  unfold psEff
  by_cases hq : (q.2 == -1) = true
  · simp only [hq, if_true, Bool.true_and]
    cases hg : SD.get? xs q.1 with
    | none =>
      apply List.map_congr_left
      intro e he
      simp [sd_get?_none hg e he]
    | some v =>
      have hmem := sd_get?_mem hg
      have hk : q.1 ∈ keysOf (xs.map fun e => (e.1, φ e)) := by
        simp only [keysOf, List.map_map, List.mem_map, Function.comp_def]
        exact ⟨(q.1, v), hmem, rfl⟩
      have hn2 : (keysOf (xs.map fun e => (e.1, φ e))).Nodup := by
        simpa [keysOf, List.map_map, Function.comp_def] using hn
      simp only
      rw [sd_set_eq_map _ _ _ hk hn2, List.map_map]
      apply List.map_congr_left
      intro e he
      simp only [Function.comp_def]
      by_cases hek : (e.1 == q.1) = true
      · have hkk : e.1 = q.1 := by simpa using hek
        have : SD.get? xs e.1 = some e.2 := sd_get?_of_mem hn (by cases e; exact he)
        rw [hkk, hg] at this
        simp [hek, hkk, Option.some.inj this]
      · have hek' : (e.1 == q.1) = false := by simpa using hek
        simp [hek']
  · have hq' : (q.2 == -1) = false := by simpa using hq
    simp [hq']

theorem psEff_fold (xs : SDict V) (hn : (keysOf xs).Nodup) :
    ∀ (Q : Dict) (φ : Key × V → V), Q.foldl (fun st q => psEff neg xs q st) (xs.map fun e => (e.1, φ e)) =
      xs.map fun e => (e.1, if Q.any (fun q => q.2 == -1 && e.1 == q.1) then neg e.2 else φ e) := by
  intro Q
  induction Q with
  | nil => intro φ; simp
  | cons q r ih =>
    intro φ
    simp only [List.foldl_cons]
    rw [psEff_step neg xs hn q φ, ih]
    apply List.map_congr_left
    intro e _
    simp only [List.any_cons]
    by_cases h1 : (q.2 == -1 && e.1 == q.1) = true <;> by_cases h2 : (r.any fun q => q.2 == -1 && e.1 == q.1) = true <;>
      simp [h1, h2]

/-- **`psSem` is a map**: the heap-side `phase_sync` negates exactly the blocks whose key has the pending
    sign −1 and keeps keys and order (block dict with unique keys) -/
theorem psSem_eq_syncSD (hneg : ∀ v, I tNeg [v] = neg v) (B : Bufs) (c : Content)
    (hn : (c.blocks.map (·.1)).Nodup) :
    psSem I d B c = syncSD neg (semDict I d B c.blocks) (c.phases.getD []) := by
  rw [psSem_fold I d neg hneg]
  have hn' : (keysOf (semDict I d B c.blocks)).Nodup := by rw [keysOf_semDict]; exact hn
  generalize semDict I d B c.blocks = xs at hn' ⊢
  have h := psEff_fold neg xs hn' (c.phases.getD []).reverse (fun e => e.2)
  have hid : xs.map (fun e => (e.1, e.2)) = xs := by simp
  rw [hid] at h
  rw [h]; simp only [syncSD, List.any_reverse]

end sync

/-! ### sectors as abstract keys -/

section enc
variable (enc : Sector → Key)

/-- a value-model block list with its sector keys encoded -/
def encB {V : Type} (bl : List (Sector × V)) : SDict V := bl.map fun e => (enc e.1, e.2)

/-- the encoding is injective on the sectors `S` -/
def InjOn (S : List Sector) : Prop := ∀ s ∈ S, ∀ t ∈ S, enc s = enc t → s = t

theorem alookup_enc {β : Type} {S : List Sector} (hinj : InjOn enc S) (l : List (Sector × β))
    (hl : ∀ e ∈ l, e.1 ∈ S) {s : Sector} (hs : s ∈ S) : alookup (encB enc l) (enc s) = alookup l s := by
  induction l with
  | nil => rfl
  | cons e r ih =>
    obtain ⟨t, v⟩ := e
    have ht : t ∈ S := hl (t, v) (List.mem_cons_self ..)
    have hb : (enc t == enc s) = (t == s) := by
      by_cases h : t = s
      · simp [h]
      · have : enc t ≠ enc s := fun e => h (hinj t ht s hs e)
        rw [beq_eq_false_iff_ne.mpr this, beq_eq_false_iff_ne.mpr h]
    simp only [encB, List.map_cons, alookup, hb]
    split
    · rfl
    · exact ih (fun e he => hl e (List.mem_cons_of_mem _ he))

theorem alookup_of_mem_nodup {β : Type} {l : List (Sector × β)} (hn : (l.map (·.1)).Nodup) {s : Sector} {v : β}
    (hm : (s, v) ∈ l) : alookup l s = some v := by
  induction l with
  | nil => cases hm
  | cons e r ih =>
    obtain ⟨t, w⟩ := e
    simp only [List.map_cons, List.nodup_cons] at hn
    simp only [List.mem_cons, Prod.mk.injEq] at hm
    rcases hm with ⟨rfl, rfl⟩ | hm
    · simp [alookup]
    · have hne : (t == s) = false := by
        simp only [beq_eq_false_iff_ne, ne_eq]
        intro e; apply hn.1; rw [e]; exact List.mem_map_of_mem (f := (·.1)) hm
      simp only [alookup, hne, Bool.false_eq_true, if_false]
      exact ih hn.2 hm

theorem alookup_mem {β : Type} {l : List (Sector × β)} {s : Sector} {v : β} (h : alookup l s = some v) :
    (s, v) ∈ l := by
  induction l with
  | nil => cases h
  | cons e r ih =>
    obtain ⟨t, w⟩ := e
    simp only [alookup] at h
    split at h
    · rename_i hts
      have : t = s := by simpa using hts
      cases h; rw [this]; exact List.mem_cons_self ..
    · exact List.mem_cons_of_mem _ (ih h)

/-- **`Arr.phaseSync` is `syncSD`** under the encoding (sign table with unique sectors) -/
theorem syncSD_enc {R : Type} [Neg R] (A : Arr R) {S : List Sector} (hinj : InjOn enc S)
    (hb : ∀ e ∈ A.blocks, e.1 ∈ S) (hp : ∀ e ∈ A.phases, e.1 ∈ S) (hpn : (A.phases.map (·.1)).Nodup) :
    syncSD Blk.negK (encB enc A.blocks) (A.phases.map fun e => (enc e.1, e.2)) = encB enc A.phaseSync.blocks := by
  simp only [syncSD, encB, Arr.phaseSync, List.map_map]
  apply List.map_congr_left
  intro e he
  obtain ⟨s, b⟩ := e
  have hs : s ∈ S := hb (s, b) he
  have hcond : ((A.phases.map fun e => (enc e.1, e.2)).any fun q => q.2 == -1 && enc s == q.1) =
      (alookup A.phases s == some (-1)) := by
    rw [Bool.eq_iff_iff]
    simp only [List.any_map, List.any_eq_true, Function.comp_def, Bool.and_eq_true, beq_iff_eq]
    constructor
    · rintro ⟨⟨t, v⟩, hm, hv, hk⟩
      have ht : t ∈ S := hp (t, v) hm
      have : s = t := hinj s hs t ht hk
      subst this
      subst hv
      exact alookup_of_mem_nodup hpn hm
    · intro h
      exact ⟨(s, -1), alookup_mem h, rfl, rfl⟩
  simp only [Function.comp_def, hcond]
  split <;> rfl

end enc

/-! ### `binaryBlockwise` commutes with the encoding of the keys -/

section bb
variable {R : Type} {κ : Type} [BEq κ] (fn : Blk R → Blk R → Blk R)

def combF (y : List (κ × Blk R)) (e : κ × Blk R) : κ × Blk R :=
  match alookup y e.1 with | some b => (e.1, fn e.2 b) | none => (e.1, e.2)
def combFM (y : List (κ × Blk R)) (e : κ × Blk R) : Option (κ × Blk R) :=
  match alookup y e.1 with | some b => some (e.1, fn e.2 b) | none => none
def missP (x : List (κ × Blk R)) (e : κ × Blk R) : Bool := (alookup x e.1).isNone

theorem binaryBlockwise_def (m : SymmModel.Missing) (x y : List (κ × Blk R)) :
    binaryBlockwise fn m x y = (match m with
      | .strict => if x.any (missP y) then throw Err.value else if y.any (missP x) then throw Err.value
          else pure (x.map (combF fn y))
      | .outer => pure (x.map (combF fn y) ++ y.filter (missP x))
      | .inner => pure (x.filterMap (combFM fn y))) := by
  cases m <;> rfl

end bb

section enc2
variable (enc : Sector → Key) {R : Type} (fn : Blk R → Blk R → Blk R)

theorem binaryBlockwise_enc (m : SymmModel.Missing) {S : List Sector}
    (hinj : InjOn enc S) (x y : List (Sector × Blk R)) (hx : ∀ e ∈ x, e.1 ∈ S) (hy : ∀ e ∈ y, e.1 ∈ S) :
    binaryBlockwise fn m (encB enc x) (encB enc y) = (binaryBlockwise fn m x y).map (encB enc) := by
  have hal : ∀ (w : List (Sector × Blk R)), (∀ e ∈ w, e.1 ∈ S) → ∀ s ∈ S,
      alookup (w.map fun e => (enc e.1, e.2)) (enc s) = alookup w s :=
    fun w hw s hs => alookup_enc enc hinj w hw hs
  have hmapF : (encB enc x).map (combF fn (encB enc y)) = encB enc (x.map (combF fn y)) := by
    simp only [encB, List.map_map]
    apply List.map_congr_left
    intro e he
    simp only [Function.comp_def, combF, hal y hy _ (hx _ he)]
    cases alookup y e.1 <;> rfl
  have hany : ∀ (u w : List (Sector × Blk R)), (∀ e ∈ u, e.1 ∈ S) → (∀ e ∈ w, e.1 ∈ S) →
      (encB enc u).any (missP (encB enc w)) = u.any (missP w) := by
    intro u w hu hw
    simp only [encB, List.any_map]
    rw [Bool.eq_iff_iff]
    simp only [List.any_eq_true, Function.comp_def, missP]
    constructor <;> rintro ⟨e, he, h⟩ <;> refine ⟨e, he, ?_⟩
    · rwa [hal w hw _ (hu _ he)] at h
    · rwa [hal w hw _ (hu _ he)]
  have hfilt : (encB enc y).filter (missP (encB enc x)) = encB enc (y.filter (missP x)) := by
    simp only [encB, List.filter_map]
    congr 1
    apply List.filter_congr
    intro e he
    simp only [Function.comp_def, missP, hal x hx _ (hy _ he)]
  have hfm : (encB enc x).filterMap (combFM fn (encB enc y)) = encB enc (x.filterMap (combFM fn y)) := by
    simp only [encB, List.filterMap_map, List.map_filterMap]
    apply filterMap_congr_mem
    intro e he
    simp only [Function.comp_def, combFM, hal y hy _ (hx _ he)]
    cases alookup y e.1 <;> rfl
  rw [binaryBlockwise_def, binaryBlockwise_def]
  cases m with
  | strict =>
    simp only
    rw [hany x y hx hy, hany y x hy hx, hmapF]
    split
    · rfl
    · split <;> rfl
  | outer =>
    simp only
    rw [hmapF, hfilt]
    simp [encB, pure, Except.pure, Except.map]
  | inner =>
    simp only
    rw [hfm]
    rfl

end enc2

/-! ### heap contents representing value-model arrays -/

section rep
variable {R : Type} (enc : Sector → Key) (I : Nat → List (Blk R) → Blk R) (d : Blk R)

/-- the heap content `c` (buffers in table `B`) represents the value-model array `A`: the block dict
    denotes `A.blocks` and the sign dict is `A.phases`, sectors encoded as abstract keys, same order -/
structure Rep (B : Bufs) (c : Content) (A : Arr R) : Prop where
  blocks : semDict I d B c.blocks = encB enc A.blocks
  phases : c.phases.getD [] = A.phases.map fun e => (enc e.1, e.2)

theorem phaseSync_blocks_keys [Neg R] (A : Arr R) {S : List Sector} (hb : ∀ e ∈ A.blocks, e.1 ∈ S) :
    ∀ e ∈ A.phaseSync.blocks, e.1 ∈ S := by
  intro e he
  simp only [Arr.phaseSync, List.mem_map] at he
  obtain ⟨⟨s, b⟩, hm, rfl⟩ := he
  have := hb (s, b) hm
  split <;> exact this

/-- **the open link of round 2**: the heap-side `phase_sync` on block values is the value model's
    `Arr.phaseSync` -/
theorem psSem_rep [Neg R] (hneg : ∀ v, I tNeg [v] = Blk.negK v) {B : Bufs} {c : Content} {A : Arr R}
    (rep : Rep enc I d B c A) (hn : (c.blocks.map (·.1)).Nodup) {S : List Sector} (hinj : InjOn enc S)
    (hb : ∀ e ∈ A.blocks, e.1 ∈ S) (hp : ∀ e ∈ A.phases, e.1 ∈ S) (hpn : (A.phases.map (·.1)).Nodup) :
    psSem I d B c = encB enc A.phaseSync.blocks := by
  rw [psSem_eq_syncSD I d Blk.negK hneg B c hn, rep.blocks, rep.phases]
  exact syncSD_enc enc A hinj hb hp hpn

end rep
/-! ### `_map_blocks`: the heap script against `Arr.mapBlocks` -/

/-- value-level meaning of the `_map_blocks` script: a new block dict of kernel results under the
    re-keyed sectors; the sign dict (if the object has one) becomes `S.mapPhases` of the OLD block dict -/
theorem mapBlocks_pure (fk : Key → Key) (tag : Nat) (c : Content) (B : Bufs) :
    (S.mapBlocks fk tag).pure (c, B) =
      ({ c with blocks := (buildDictP B (c.blocks.map fun e => (fk e.1, .kern tag [e.2.toNat]))).2,
                phases := c.phases.map (S.mapPhases fk c.blocks) },
       (buildDictP B (c.blocks.map fun e => (fk e.1, .kern tag [e.2.toNat]))).1) := by
  obtain ⟨ci, cc, cb, cp, co⟩ := c
  cases cp <;> simp [S.mapBlocks, Script.pure, Act.pure, modifyP, newPd]

theorem dict_set_eq_sd (l : Dict) (k : Key) (v : Val) : Dict.set l k v = SD.set l k v := by
  induction l with
  | nil => rfl
  | cons e r ih =>
    obtain ⟨k', v'⟩ := e
    simp only [Dict.set, SD.set, ih]

section sem
variable {V : Type} (I : Nat → List V → V) (d : V)

theorem buildEntriesP_ext (B : Bufs) (es : List (Key × BufSrc)) : ∃ X, (buildEntriesP B es).1 = B ++ X := by
  induction es generalizing B with
  | nil => exact ⟨[], by simp [buildEntriesP]⟩
  | cons e r ih =>
    obtain ⟨k, src⟩ := e
    cases src with
    | old b => simpa [buildEntriesP] using ih B
    | kern tag args =>
      obtain ⟨X, hX⟩ := ih (B ++ [(tag, args)])
      exact ⟨(tag, args) :: X, by simp [buildEntriesP, hX]⟩

/-- the entries `_map_blocks` builds denote the old blocks under the re-keyed sectors, each passed
    through the kernel -/
theorem mapEntries_sem (fk : Key → Key) (tag : Nat) (bd : Dict) (B : Bufs) (hok : DictOK B.length bd) :
    semDict I d (buildEntriesP B (bd.map fun e => (fk e.1, .kern tag [e.2.toNat]))).1
        (buildEntriesP B (bd.map fun e => (fk e.1, .kern tag [e.2.toNat]))).2 =
      (semDict I d B bd).map fun e => (fk e.1, I tag [e.2]) := by
  induction bd generalizing B with
  | nil => rfl
  | cons e r ih =>
    obtain ⟨k, b⟩ := e
    have hb : b.toNat < B.length := hok (k, b) (List.mem_cons_self ..)
    have hr : DictOK (B ++ [(tag, [b.toNat])]).length r :=
      DictOK.mono (fun e he => hok e (List.mem_cons_of_mem _ he)) (by simp)
    have hr0 : DictOK B.length r := fun e he => hok e (List.mem_cons_of_mem _ he)
    have ih' := ih (B ++ [(tag, [b.toNat])]) hr
    obtain ⟨X, hX⟩ := buildEntriesP_ext (B ++ [(tag, [b.toNat])])
      (r.map fun e => (fk e.1, BufSrc.kern tag [e.2.toNat]))
    simp only [List.map_cons, buildEntriesP]
    simp only [semDict, mapV, List.map_cons] at ih' ⊢
    rw [ih']
    congr 1
    · rw [hX]
      have h1 : B.length < (B ++ [(tag, [b.toNat])]).length := by simp
      have : ((B.length : Int)).toNat = B.length := by simp
      rw [this, look_append_lt I d _ X h1, look_new]
      simp
    · have := semDict_append I d B [(tag, [b.toNat])] hr0
      simp only [semDict, mapV] at this
      rw [this]

theorem mapV_foldl_set (g : Val → V) (es : Dict) (acc : Dict) :
    mapV g (es.foldl (fun a e => Dict.set a e.1 e.2) acc) =
      (mapV g es).foldl (fun a e => SD.set a e.1 e.2) (mapV g acc) := by
  induction es generalizing acc with
  | nil => rfl
  | cons e r ih =>
    simp only [List.foldl_cons, mapV, List.map_cons] at ih ⊢
    rw [ih]
    have := mapV_set g acc e.1 e.2
    simp only [mapV] at this
    rw [this]

end sem

section enc
variable (enc : Sector → Key) {V : Type}

/-- `ainsert` (`d[k] = v` of the value model) is `SD.set` under an encoding injective on the keys -/
theorem ainsert_encB {S : List Sector} (hinj : InjOn enc S) (acc : List (Sector × V)) (k : Sector) (v : V)
    (ha : ∀ e ∈ acc, e.1 ∈ S) (hk : k ∈ S) :
    encB enc (ainsert acc k v) = SD.set (encB enc acc) (enc k) v ∧ ∀ e ∈ ainsert acc k v, e.1 ∈ S := by
  induction acc with
  | nil =>
    refine ⟨rfl, ?_⟩
    intro e he
    simp only [ainsert, List.mem_singleton] at he
    subst he; exact hk
  | cons a r ih =>
    obtain ⟨t, w⟩ := a
    have ht : t ∈ S := ha (t, w) (List.mem_cons_self ..)
    have hr : ∀ e ∈ r, e.1 ∈ S := fun e he => ha e (List.mem_cons_of_mem _ he)
    have hb : (enc t == enc k) = (t == k) := by
      by_cases h : t = k
      · simp [h]
      · have : enc t ≠ enc k := fun e => h (hinj t ht k hk e)
        rw [beq_eq_false_iff_ne.mpr this, beq_eq_false_iff_ne.mpr h]
    obtain ⟨ih1, ih2⟩ := ih hr
    by_cases h : (t == k) = true
    · have hk' : t = k := by simpa using h
      subst hk'
      refine ⟨by simp [encB, ainsert, SD.set], ?_⟩
      intro e he
      simp only [ainsert, beq_self_eq_true, if_true, List.mem_cons] at he
      rcases he with rfl | he
      · exact ht
      · exact hr e he
    · have h' : (t == k) = false := by simpa using h
      refine ⟨?_, ?_⟩
      · simp only [encB, ainsert, h', Bool.false_eq_true, if_false, List.map_cons, SD.set, hb]
        simp only [encB] at ih1
        rw [ih1]
      · intro e he
        simp only [ainsert, h', Bool.false_eq_true, if_false, List.mem_cons] at he
        rcases he with rfl | he
        · exact ht
        · exact ih2 e he

/-- re-keying: the `set`-fold over the encoded, re-keyed entries is the encoded `adict` of the
    re-keyed entries -/
theorem rekey_encB {S : List Sector} (hinj : InjOn enc S) (fs : Sector → Sector) (fk : Key → Key) (g : V → V)
    (Q : List (Sector × V)) (hfs : ∀ e ∈ Q, fs e.1 ∈ S) (hfk : ∀ e ∈ Q, fk (enc e.1) = enc (fs e.1)) :
    ((encB enc Q).map fun e => (fk e.1, g e.2)).foldl (fun a e => SD.set a e.1 e.2) [] =
      encB enc (adict (Q.map fun e => (fs e.1, g e.2))) := by
  suffices H : ∀ (acc : List (Sector × V)), (∀ e ∈ acc, e.1 ∈ S) →
      ((encB enc Q).map fun e => (fk e.1, g e.2)).foldl (fun a e => SD.set a e.1 e.2) (encB enc acc) =
        encB enc ((Q.map fun e => (fs e.1, g e.2)).foldl (fun a p => ainsert a p.1 p.2) acc) by
    simpa [adict, encB] using H [] (by simp)
  induction Q with
  | nil => intro acc _; rfl
  | cons q r ih =>
    intro acc ha
    obtain ⟨s, p⟩ := q
    have h1 := hfs (s, p) (List.mem_cons_self ..)
    have h2 := hfk (s, p) (List.mem_cons_self ..)
    obtain ⟨e1, e2⟩ := ainsert_encB enc hinj acc (fs s) (g p) ha h1
    simp only [encB, List.map_cons, List.foldl_cons] at *
    rw [h2, ← e1]
    exact ih (fun e he => hfs e (List.mem_cons_of_mem _ he)) (fun e he => hfk e (List.mem_cons_of_mem _ he)) _ e2

end enc

section rep2
variable {R : Type} (enc : Sector → Key) (I : Nat → List (Blk R) → Blk R) (d : Blk R)

/-- membership in the heap block dict = the sector is stored in the value model -/
theorem has_rep {B : Bufs} {c : Content} {A : Arr R} (rep : Rep enc I d B c A) {Ss : List Sector}
    (hinj : InjOn enc Ss) (hb : ∀ e ∈ A.blocks, e.1 ∈ Ss) {s : Sector} (hs : s ∈ Ss) :
    Dict.has c.blocks (enc s) = (alookup A.blocks s).isSome := by
  rw [← has_mapV (fun v => look I d B v.toNat) c.blocks (enc s)]
  have := rep.blocks
  simp only [semDict] at this
  rw [this, sd_has_iff, alookup_enc enc hinj A.blocks hb hs]

/-- **the sign dict `_map_blocks` builds is the sign table of `Arr.mapBlocks`** (fermionic): only the
    entries of stored blocks are re-keyed.  The sectors of stale entries must be encoded injectively
    (to be told apart from stored ones) but nothing is asked of their images under `fs`. -/
theorem mapPhases_rep (fs : Sector → Sector) (fb : Blk R → Blk R) (fk : Key → Key) {B : Bufs} {c : Content}
    {A : Arr R} (rep : Rep enc I d B c A) (hf : A.fermi = true) {Ss : List Sector} (hinj : InjOn enc Ss)
    (hb : ∀ e ∈ A.blocks, e.1 ∈ Ss) (hbs : ∀ e ∈ A.blocks, fs e.1 ∈ Ss)
    (hbk : ∀ e ∈ A.blocks, fk (enc e.1) = enc (fs e.1)) (hp : ∀ e ∈ A.phases, e.1 ∈ Ss) :
    S.mapPhases fk c.blocks (c.phases.getD []) = (A.mapBlocks fs fb).phases.map fun e => (enc e.1, e.2) := by
  rw [rep.phases]
  have hfilt : (A.phases.map fun e => (enc e.1, e.2)).filter (fun e => Dict.has c.blocks e.1) =
      encB enc (A.phases.filter fun e => (alookup A.blocks e.1).isSome) := by
    simp only [encB, List.filter_map]
    congr 1
    apply List.filter_congr
    intro e he
    exact has_rep enc I d rep hinj hb (hp e he)
  have hQ : ∀ e ∈ A.phases.filter (fun e => (alookup A.blocks e.1).isSome), ∃ b, (e.1, b) ∈ A.blocks := by
    intro e he
    have h2 := (List.mem_filter.mp he).2
    obtain ⟨b, hb'⟩ := Option.isSome_iff_exists.mp h2
    exact ⟨b, alookup_mem hb'⟩
  have key := rekey_encB enc hinj fs fk (fun p : Int => p)
    (A.phases.filter fun e => (alookup A.blocks e.1).isSome)
    (fun e he => by obtain ⟨b, hm⟩ := hQ e he; exact hbs _ hm)
    (fun e he => by obtain ⟨b, hm⟩ := hQ e he; exact hbk _ hm)
  simp only [S.mapPhases, Dict.mapKeys, hfilt]
  simp only [Arr.mapBlocks, hf, if_true]
  simp only [List.foldl_map] at key
  have hset : (fun (a : Dict) (e : Key × Val) => Dict.set a (fk e.1) e.2) =
      (fun (a : Dict) (e : Key × Val) => SD.set a (fk e.1) e.2) := by
    funext a e; exact dict_set_eq_sd a _ _
  rw [hset]
  exact key

/-- **`_map_blocks` on the heap is `Arr.mapBlocks`** at the level of contents: if `c` (buffers `B`)
    represents `A`, the kernel `tag` denotes `fb` and `fk` is `fs` on encoded sectors, then the content
    the script computes represents `A.mapBlocks fs fb` — block dict AND sign dict, stale sign entries
    (sectors without a stored block) being discarded on both sides. -/
theorem mapBlocks_rep (fs : Sector → Sector) (fb : Blk R → Blk R) (fk : Key → Key) (tag : Nat)
    (hI : ∀ b, I tag [b] = fb b) {B : Bufs} {c : Content} {A : Arr R} (rep : Rep enc I d B c A)
    (hok : DictOK B.length c.blocks) (hf : A.fermi = c.phases.isSome) {Ss : List Sector} (hinj : InjOn enc Ss)
    (hb : ∀ e ∈ A.blocks, e.1 ∈ Ss) (hbs : ∀ e ∈ A.blocks, fs e.1 ∈ Ss)
    (hbk : ∀ e ∈ A.blocks, fk (enc e.1) = enc (fs e.1)) (hp : ∀ e ∈ A.phases, e.1 ∈ Ss) :
    Rep enc I d ((S.mapBlocks fk tag).pure (c, B)).2 ((S.mapBlocks fk tag).pure (c, B)).1
      (A.mapBlocks fs fb) := by
  rw [mapBlocks_pure]
  refine ⟨?_, ?_⟩
  · simp only [buildDictP]
    have h0 := mapV_foldl_set (fun v => look I d
        (buildEntriesP B (c.blocks.map fun e => (fk e.1, BufSrc.kern tag [e.2.toNat]))).1 v.toNat)
      (buildEntriesP B (c.blocks.map fun e => (fk e.1, BufSrc.kern tag [e.2.toNat]))).2 []
    have h1 := mapEntries_sem I d fk tag c.blocks B hok
    simp only [semDict] at h0 h1 ⊢
    rw [h0, h1]
    have h2 := rep.blocks
    simp only [semDict] at h2
    rw [h2]
    have key := rekey_encB enc hinj fs fk fb A.blocks hbs hbk
    simp only [Arr.mapBlocks]
    rw [← key]
    simp only [mapV, List.map_nil, encB, List.map_map, Function.comp_def, hI]
  · cases hph : c.phases with
    | none =>
      have h2 := rep.phases
      rw [hph] at hf h2
      have hf' : A.fermi = false := by simpa using hf
      simp only [Option.map_none, Option.getD_none, Arr.mapBlocks, hf', Bool.false_eq_true, if_false] at h2 ⊢
      exact h2
    | some p =>
      rw [hph] at hf
      have hf' : A.fermi = true := by simpa using hf
      have := mapPhases_rep enc I d fs fb fk rep hf' hinj hb hbs hbk hp
      rw [hph] at this
      simpa using this

end rep2

theorem Script.pure_seq (s q : Script) (st : PState) : (s.seq q).pure st = q.pure (s.pure st) := by
  induction s generalizing st with
  | nil => rfl
  | acts as k ih => simp only [Script.seq, Script.pure]; exact ih _
  | read f ih => simp only [Script.seq, Script.pure]; exact ih _ _ _

/-- `squeeze` = `_map_blocks`, then the index table -/
theorem squeeze_pure (fk : Key → Key) (fi : Nat → Nat) (st : PState) :
    (S.squeeze fk fi).pure st =
      ({ ((S.mapBlocks fk tSlice).pure st).1 with indices := fi ((S.mapBlocks fk tSlice).pure st).1.indices },
       ((S.mapBlocks fk tSlice).pure st).2) := by
  simp [S.squeeze, Script.pure_seq, Script.pure, Act.pure, modifyP, newPd]

/-- `expand_dims` = `_map_blocks`, then the index table and the charge -/
theorem expandDims_pure (fk : Key → Key) (fi : Nat → Nat) (fc : Int → Int) (st : PState) :
    (S.expandDims fk fi fc).pure st =
      ({ ((S.mapBlocks fk tSlice).pure st).1 with
           indices := fi ((S.mapBlocks fk tSlice).pure st).1.indices,
           charge := fc ((S.mapBlocks fk tSlice).pure st).1.charge },
       ((S.mapBlocks fk tSlice).pure st).2) := by
  simp [S.expandDims, Script.pure_seq, Script.pure, Act.pure, modifyP, newPd]

end SymmModel.Heap
