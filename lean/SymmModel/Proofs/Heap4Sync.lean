/-
  SymmModel.Proofs.Heap4Sync — the heap-side `phase_sync` on block values (`psSem`: a fold of the `tNeg`
  kernel over the pending −1 keys, in `popitem` order) IS the value model's `Arr.phaseSync`
  (`Model/Fermi.lean`: a map over the blocks negating those whose sector carries the sign −1), for dicts
  with unique keys, under an encoding `enc : Sector → Key` of sectors as abstract dict keys that is
  injective on the sectors that occur.  Also: `binaryBlockwise` commutes with such an encoding.
-/
import SymmModel.Proofs.Heap3Value
import SymmModel.Model.Fermi
namespace SymmModel.Heap

section sd
variable {V : Type}

theorem sd_set_eq_map (l : SDict V) (k : Key) (w : V) (hk : k ∈ keysOf l) (hn : (keysOf l).Nodup) :
    SD.set l k w = l.map (fun e => if e.1 == k then (k, w) else e) := by
  induction l with
  | nil => simp [keysOf] at hk
  | cons e r ih =>
    obtain ⟨k', v⟩ := e
    simp only [keysOf, List.map_cons, List.nodup_cons, List.mem_cons] at hk hn
    by_cases h : (k' == k) = true
    · have hkk : k' = k := by simpa using h
      simp only [SD.set, h, if_true, List.map_cons]
      congr 1
      symm
      conv => rhs; rw [← List.map_id r]
      apply List.map_congr_left
      intro e he
      have : e.1 ≠ k := by
        intro h'; apply hn.1; rw [hkk, ← h']; exact List.mem_map_of_mem he
      simp [this]
    · have h' : (k' == k) = false := by simpa using h
      simp only [SD.set, h', Bool.false_eq_true, if_false, List.map_cons]
      congr 1
      rcases hk with hk | hk
      · exact absurd hk.symm (by simpa using h)
      · exact ih hk hn.2

theorem sd_get?_mem {l : SDict V} {k : Key} {v : V} (h : SD.get? l k = some v) : (k, v) ∈ l := by
  simp only [SD.get?, Option.map_eq_some_iff] at h
  obtain ⟨e, he, rfl⟩ := h
  have hm := List.mem_of_find?_eq_some he
  have hk := List.find?_some he
  have : e.1 = k := by simpa using hk
  rw [← this]; exact hm

theorem sd_get?_of_mem {l : SDict V} {k : Key} {v : V} (hn : (keysOf l).Nodup) (hm : (k, v) ∈ l) :
    SD.get? l k = some v := by
  induction l with
  | nil => cases hm
  | cons e r ih =>
    obtain ⟨k', v'⟩ := e
    simp only [keysOf, List.map_cons, List.nodup_cons] at hn
    simp only [List.mem_cons, Prod.mk.injEq] at hm
    rcases hm with ⟨rfl, rfl⟩ | hm
    · simp [SD.get?]
    · have hne : (k' == k) = false := by
        simp only [beq_eq_false_iff_ne, ne_eq]
        intro e; apply hn.1; rw [e]; exact List.mem_map_of_mem (f := (·.1)) hm
      simp only [SD.get?, List.find?_cons, hne]
      exact ih hn.2 hm

theorem sd_get?_none {l : SDict V} {k : Key} (h : SD.get? l k = none) : ∀ e ∈ l, (e.1 == k) = false := by
  intro e he
  simp only [SD.get?, Option.map_eq_none_iff, List.find?_eq_none] at h
  simpa using h e he

end sd

/-! ### `psSem` as a map -/

section sync
variable {V : Type} (I : Nat → List V → V) (d : V) (neg : V → V)

/-- `phase_sync` on a dict of values: negate the blocks whose key carries the sign −1 -/
def syncSD (xs : SDict V) (P : Dict) : SDict V :=
  xs.map fun e => (e.1, if P.any (fun q => q.2 == -1 && e.1 == q.1) then neg e.2 else e.2)

/-- what one pending sign does to the dict of values -/
def psEff (xs : SDict V) (q : Key × Val) (st : SDict V) : SDict V :=
  if q.2 == -1 then (match SD.get? xs q.1 with | some v => SD.set st q.1 (neg v) | none => st) else st

theorem psSem_fold (hneg : ∀ v, I tNeg [v] = neg v) (B : Bufs) (c : Content) :
    psSem I d B c = (c.phases.getD []).reverse.foldl (fun st q => psEff neg (semDict I d B c.blocks) q st)
      (semDict I d B c.blocks) := by
  have key : ∀ (Q : Dict) (st : SDict V),
      ((Q.flatMap fun e => SAct.ppop :: (if e.2 == -1 then
        (match c.blocks.get? e.1 with | some b => [SAct.kern e.1 tNeg [b.toNat]] | none => []) else [])).foldl
        (fun s a => (a.toS I d B).run s) (st, ([] : SDict V))) =
      (Q.foldl (fun st q => psEff neg (semDict I d B c.blocks) q st) st, []) := by
    intro Q
    induction Q with
    | nil => intro st; rfl
    | cons q r ih =>
      intro st
      simp only [List.flatMap_cons, List.cons_append, List.foldl_cons, List.foldl_append]
      have hpp : (SAct.toS I d B SAct.ppop).run (st, ([] : SDict V)) = (st, []) := rfl
      rw [hpp]
      have hmid : (if q.2 == -1 then
          (match c.blocks.get? q.1 with | some b => [SAct.kern q.1 tNeg [b.toNat]] | none => []) else []).foldl
          (fun s a => (a.toS I d B).run s) (st, ([] : SDict V)) =
          (psEff neg (semDict I d B c.blocks) q st, []) := by
        simp only [psEff, semDict, get?_mapV]
        split
        · cases hb : c.blocks.get? q.1 with
          | none => simp
          | some b => simp [SAct.toS, SStep.run, hneg]
        · rfl
      rw [hmid]; exact ih _
  simp only [psSem, psActs]
  exact congrArg Prod.fst (key (c.phases.getD []).reverse (semDict I d B c.blocks))

theorem psEff_step (xs : SDict V) (hn : (keysOf xs).Nodup) (q : Key × Val) (φ : Key × V → V) :
    psEff neg xs q (xs.map fun e => (e.1, φ e)) =
      xs.map fun e => (e.1, if (q.2 == -1 && e.1 == q.1) then neg e.2 else φ e) := by
  unfold psEff
  by_cases hq : (q.2 == -1) = true
  · simp only [hq, if_true, Bool.true_and]
    cases hg : SD.get? xs q.1 with
    | none =>
      apply List.map_congr_left
      intro e he
      simp [sd_get?_none hg e he]
    | some v =>
      have hmem := sd_get?_mem hg
      have hk : q.1 ∈ keysOf (xs.map fun e => (e.1, φ e)) := by
        simp only [keysOf, List.map_map, List.mem_map, Function.comp_def]
        exact ⟨(q.1, v), hmem, rfl⟩
      have hn2 : (keysOf (xs.map fun e => (e.1, φ e))).Nodup := by
        simpa [keysOf, List.map_map, Function.comp_def] using hn
      simp only
      rw [sd_set_eq_map _ _ _ hk hn2, List.map_map]
      apply List.map_congr_left
      intro e he
      simp only [Function.comp_def]
      by_cases hek : (e.1 == q.1) = true
      · have hkk : e.1 = q.1 := by simpa using hek
        have : SD.get? xs e.1 = some e.2 := sd_get?_of_mem hn (by cases e; exact he)
        rw [hkk, hg] at this
        simp [hek, hkk, Option.some.inj this]
      · have hek' : (e.1 == q.1) = false := by simpa using hek
        simp [hek']
  · have hq' : (q.2 == -1) = false := by simpa using hq
    simp [hq']

theorem psEff_fold (xs : SDict V) (hn : (keysOf xs).Nodup) :
    ∀ (Q : Dict) (φ : Key × V → V), Q.foldl (fun st q => psEff neg xs q st) (xs.map fun e => (e.1, φ e)) =
      xs.map fun e => (e.1, if Q.any (fun q => q.2 == -1 && e.1 == q.1) then neg e.2 else φ e) := by
  intro Q
  induction Q with
  | nil => intro φ; simp
  | cons q r ih =>
    intro φ
    simp only [List.foldl_cons]
    rw [psEff_step neg xs hn q φ, ih]
    apply List.map_congr_left
    intro e _
    simp only [List.any_cons]
    by_cases h1 : (q.2 == -1 && e.1 == q.1) = true <;> by_cases h2 : (r.any fun q => q.2 == -1 && e.1 == q.1) = true <;>
      simp [h1, h2]

/-- **`psSem` is a map**: the heap-side `phase_sync` negates exactly the blocks whose key has the pending
    sign −1 and keeps keys and order (block dict with unique keys) -/
theorem psSem_eq_syncSD (hneg : ∀ v, I tNeg [v] = neg v) (B : Bufs) (c : Content)
    (hn : (c.blocks.map (·.1)).Nodup) :
    psSem I d B c = syncSD neg (semDict I d B c.blocks) (c.phases.getD []) := by
  rw [psSem_fold I d neg hneg]
  have hn' : (keysOf (semDict I d B c.blocks)).Nodup := by rw [keysOf_semDict]; exact hn
  generalize semDict I d B c.blocks = xs at hn' ⊢
  have h := psEff_fold neg xs hn' (c.phases.getD []).reverse (fun e => e.2)
  have hid : xs.map (fun e => (e.1, e.2)) = xs := by simp
  rw [hid] at h
  rw [h]; simp only [syncSD, List.any_reverse]

end sync

/-! ### sectors as abstract keys -/

section enc
variable (enc : Sector → Key)

/-- a value-model block list with its sector keys encoded -/
def encB {V : Type} (bl : List (Sector × V)) : SDict V := bl.map fun e => (enc e.1, e.2)

/-- the encoding is injective on the sectors `S` -/
def InjOn (S : List Sector) : Prop := ∀ s ∈ S, ∀ t ∈ S, enc s = enc t → s = t

theorem alookup_enc {β : Type} {S : List Sector} (hinj : InjOn enc S) (l : List (Sector × β))
    (hl : ∀ e ∈ l, e.1 ∈ S) {s : Sector} (hs : s ∈ S) : alookup (encB enc l) (enc s) = alookup l s := by
  induction l with
  | nil => rfl
  | cons e r ih =>
    obtain ⟨t, v⟩ := e
    have ht : t ∈ S := hl (t, v) (List.mem_cons_self ..)
    have hb : (enc t == enc s) = (t == s) := by
      by_cases h : t = s
      · simp [h]
      · have : enc t ≠ enc s := fun e => h (hinj t ht s hs e)
        rw [beq_eq_false_iff_ne.mpr this, beq_eq_false_iff_ne.mpr h]
    simp only [encB, List.map_cons, alookup, hb]
    split
    · rfl
    · exact ih (fun e he => hl e (List.mem_cons_of_mem _ he))

theorem alookup_of_mem_nodup {β : Type} {l : List (Sector × β)} (hn : (l.map (·.1)).Nodup) {s : Sector} {v : β}
    (hm : (s, v) ∈ l) : alookup l s = some v := by
  induction l with
  | nil => cases hm
  | cons e r ih =>
    obtain ⟨t, w⟩ := e
    simp only [List.map_cons, List.nodup_cons] at hn
    simp only [List.mem_cons, Prod.mk.injEq] at hm
    rcases hm with ⟨rfl, rfl⟩ | hm
    · simp [alookup]
    · have hne : (t == s) = false := by
        simp only [beq_eq_false_iff_ne, ne_eq]
        intro e; apply hn.1; rw [e]; exact List.mem_map_of_mem (f := (·.1)) hm
      simp only [alookup, hne, Bool.false_eq_true, if_false]
      exact ih hn.2 hm

theorem alookup_mem {β : Type} {l : List (Sector × β)} {s : Sector} {v : β} (h : alookup l s = some v) :
    (s, v) ∈ l := by
  induction l with
  | nil => cases h
  | cons e r ih =>
    obtain ⟨t, w⟩ := e
    simp only [alookup] at h
    split at h
    · rename_i hts
      have : t = s := by simpa using hts
      cases h; rw [this]; exact List.mem_cons_self ..
    · exact List.mem_cons_of_mem _ (ih h)

/-- **`Arr.phaseSync` is `syncSD`** under the encoding (sign table with unique sectors) -/
theorem syncSD_enc {R : Type} [Neg R] (A : Arr R) {S : List Sector} (hinj : InjOn enc S)
    (hb : ∀ e ∈ A.blocks, e.1 ∈ S) (hp : ∀ e ∈ A.phases, e.1 ∈ S) (hpn : (A.phases.map (·.1)).Nodup) :
    syncSD Blk.negK (encB enc A.blocks) (A.phases.map fun e => (enc e.1, e.2)) = encB enc A.phaseSync.blocks := by
  simp only [syncSD, encB, Arr.phaseSync, List.map_map]
  apply List.map_congr_left
  intro e he
  obtain ⟨s, b⟩ := e
  have hs : s ∈ S := hb (s, b) he
  have hcond : ((A.phases.map fun e => (enc e.1, e.2)).any fun q => q.2 == -1 && enc s == q.1) =
      (alookup A.phases s == some (-1)) := by
    rw [Bool.eq_iff_iff]
    simp only [List.any_map, List.any_eq_true, Function.comp_def, Bool.and_eq_true, beq_iff_eq]
    constructor
    · rintro ⟨⟨t, v⟩, hm, hv, hk⟩
      have ht : t ∈ S := hp (t, v) hm
      have : s = t := hinj s hs t ht hk
      subst this
      subst hv
      exact alookup_of_mem_nodup hpn hm
    · intro h
      exact ⟨(s, -1), alookup_mem h, rfl, rfl⟩
  simp only [Function.comp_def, hcond]
  split <;> rfl

end enc

/-! ### `binaryBlockwise` commutes with the encoding of the keys -/

section bb
variable {R : Type} {κ : Type} [BEq κ] (fn : Blk R → Blk R → Blk R)

def combF (y : List (κ × Blk R)) (e : κ × Blk R) : κ × Blk R :=
  match alookup y e.1 with | some b => (e.1, fn e.2 b) | none => (e.1, e.2)
def combFM (y : List (κ × Blk R)) (e : κ × Blk R) : Option (κ × Blk R) :=
  match alookup y e.1 with | some b => some (e.1, fn e.2 b) | none => none
def missP (x : List (κ × Blk R)) (e : κ × Blk R) : Bool := (alookup x e.1).isNone

theorem binaryBlockwise_def (m : SymmModel.Missing) (x y : List (κ × Blk R)) :
    binaryBlockwise fn m x y = (match m with
      | .strict => if x.any (missP y) then throw Err.value else if y.any (missP x) then throw Err.value
          else pure (x.map (combF fn y))
      | .outer => pure (x.map (combF fn y) ++ y.filter (missP x))
      | .inner => pure (x.filterMap (combFM fn y))) := by
  cases m <;> rfl

end bb

section enc2
variable (enc : Sector → Key) {R : Type} (fn : Blk R → Blk R → Blk R)

theorem binaryBlockwise_enc (m : SymmModel.Missing) {S : List Sector}
    (hinj : InjOn enc S) (x y : List (Sector × Blk R)) (hx : ∀ e ∈ x, e.1 ∈ S) (hy : ∀ e ∈ y, e.1 ∈ S) :
    binaryBlockwise fn m (encB enc x) (encB enc y) = (binaryBlockwise fn m x y).map (encB enc) := by
  have hal : ∀ (w : List (Sector × Blk R)), (∀ e ∈ w, e.1 ∈ S) → ∀ s ∈ S,
      alookup (w.map fun e => (enc e.1, e.2)) (enc s) = alookup w s :=
    fun w hw s hs => alookup_enc enc hinj w hw hs
  have hmapF : (encB enc x).map (combF fn (encB enc y)) = encB enc (x.map (combF fn y)) := by
    simp only [encB, List.map_map]
    apply List.map_congr_left
    intro e he
    simp only [Function.comp_def, combF, hal y hy _ (hx _ he)]
    cases alookup y e.1 <;> rfl
  have hany : ∀ (u w : List (Sector × Blk R)), (∀ e ∈ u, e.1 ∈ S) → (∀ e ∈ w, e.1 ∈ S) →
      (encB enc u).any (missP (encB enc w)) = u.any (missP w) := by
    intro u w hu hw
    simp only [encB, List.any_map]
    rw [Bool.eq_iff_iff]
    simp only [List.any_eq_true, Function.comp_def, missP]
    constructor <;> rintro ⟨e, he, h⟩ <;> refine ⟨e, he, ?_⟩
    · rwa [hal w hw _ (hu _ he)] at h
    · rwa [hal w hw _ (hu _ he)]
  have hfilt : (encB enc y).filter (missP (encB enc x)) = encB enc (y.filter (missP x)) := by
    simp only [encB, List.filter_map]
    congr 1
    apply List.filter_congr
    intro e he
    simp only [Function.comp_def, missP, hal x hx _ (hy _ he)]
  have hfm : (encB enc x).filterMap (combFM fn (encB enc y)) = encB enc (x.filterMap (combFM fn y)) := by
    simp only [encB, List.filterMap_map, List.map_filterMap]
    apply filterMap_congr_mem
    intro e he
    simp only [Function.comp_def, combFM, hal y hy _ (hx _ he)]
    cases alookup y e.1 <;> rfl
  rw [binaryBlockwise_def, binaryBlockwise_def]
  cases m with
  | strict =>
    simp only
    rw [hany x y hx hy, hany y x hy hx, hmapF]
    split
    · rfl
    · split <;> rfl
  | outer =>
    simp only
    rw [hmapF, hfilt]
    simp [encB, pure, Except.pure, Except.map]
  | inner =>
    simp only
    rw [hfm]
    rfl

end enc2

/-! ### heap contents representing value-model arrays -/

section rep
variable {R : Type} (enc : Sector → Key) (I : Nat → List (Blk R) → Blk R) (d : Blk R)

/-- the heap content `c` (buffers in table `B`) represents the value-model array `A`: the block dict
    denotes `A.blocks` and the sign dict is `A.phases`, sectors encoded as abstract keys, same order -/
structure Rep (B : Bufs) (c : Content) (A : Arr R) : Prop where
  blocks : semDict I d B c.blocks = encB enc A.blocks
  phases : c.phases.getD [] = A.phases.map fun e => (enc e.1, e.2)

theorem phaseSync_blocks_keys [Neg R] (A : Arr R) {S : List Sector} (hb : ∀ e ∈ A.blocks, e.1 ∈ S) :
    ∀ e ∈ A.phaseSync.blocks, e.1 ∈ S := by
  intro e he
  simp only [Arr.phaseSync, List.mem_map] at he
  obtain ⟨⟨s, b⟩, hm, rfl⟩ := he
  have := hb (s, b) hm
  split <;> exact this

/-- **the open link of round 2**: the heap-side `phase_sync` on block values is the value model's
    `Arr.phaseSync` -/
theorem psSem_rep [Neg R] (hneg : ∀ v, I tNeg [v] = Blk.negK v) {B : Bufs} {c : Content} {A : Arr R}
    (rep : Rep enc I d B c A) (hn : (c.blocks.map (·.1)).Nodup) {S : List Sector} (hinj : InjOn enc S)
    (hb : ∀ e ∈ A.blocks, e.1 ∈ S) (hp : ∀ e ∈ A.phases, e.1 ∈ S) (hpn : (A.phases.map (·.1)).Nodup) :
    psSem I d B c = encB enc A.phaseSync.blocks := by
  rw [psSem_eq_syncSD I d Blk.negK hneg B c hn, rep.blocks, rep.phases]
  exact syncSD_enc enc A hinj hb hp hpn

end rep
end SymmModel.Heap
