/-
  SymmModel.Proofs.TdotFused8 — the abelian contraction kernel does not look at the fermionic
  fields: `tensordotA` on operands with the kind flag and the labels erased is `tensordotA` on the
  operands themselves, with the flag and the labels of the left operand put back.
  Namespace `SymmModel.TdotP`.
-/
import SymmModel.Proofs.TdotFused7

namespace SymmModel
namespace TdotP
variable {R : Type}

/-- erase kind flag and labels -/
def ab (x : Arr R) : Arr R := { x with fermi := false, oddpos := [] }

/-- put a kind flag and labels back -/
def relab (f : Bool) (o : List (Int × Bool)) (x : Arr R) : Arr R := { x with fermi := f, oddpos := o }

theorem relab_ab (x : Arr R) : relab x.fermi x.oddpos (ab x) = x := rfl

theorem ab_elem [Zero R] [Neg R] (x : Arr R) (s : Sector) (o : List Nat) : (ab x).elem s o = x.elem s o := rfl

theorem relab_elem [Zero R] [Neg R] (f : Bool) (l : List (Int × Bool)) (x : Arr R) (s : Sector)
    (o : List Nat) : (relab f l x).elem s o = x.elem s o := rfl

theorem fuseCore_ab [Zero R] (x : Arr R) (G : List (List Nat)) (m : FuseMode) :
    fuseCore (ab x) G m = (fuseCore x G m).map ab := by
  unfold fuseCore
  show (calcFuseBlockInfo x G >>= _) = _
  cases calcFuseBlockInfo x G with
  | error e => rfl
  | ok fi =>
    cases m with
    | insert =>
      show (fuseInsert x.blocks fi >>= _) = Except.map ab (fuseInsert x.blocks fi >>= _)
      cases fuseInsert x.blocks fi <;> rfl
    | concat =>
      show (fuseConcat x.indices x.blocks fi >>= _) = Except.map ab (fuseConcat x.indices x.blocks fi >>= _)
      cases fuseConcat x.indices x.blocks fi <;> rfl

theorem fuseA_ab [Zero R] (x : Arr R) (G : List (List Nat)) (m : FuseMode) :
    fuseA (ab x) G m false = (fuseA x G m false).map ab := by
  rw [C05.fuseA_noexpand, C05.fuseA_noexpand]
  split
  · rfl
  · exact fuseCore_ab x _ m

theorem unfuseA_ab [Zero R] (x : Arr R) (axis : Nat) :
    unfuseA (ab x) axis = (unfuseA x axis).map ab := by
  unfold unfuseA
  dsimp only [ab]
  cases x.indices[axis]? with
  | none => rfl
  | some ix =>
    simp only [pure, Except.pure, bind, Except.bind]
    cases ix.sub with
    | none => rfl
    | some se =>
      obtain ⟨subs, exts⟩ := se
      simp only []
      split <;> rfl

theorem dropMisaligned_ab (a b : Arr R) (xa xb : List Nat) :
    dropMisaligned (ab a) (ab b) xa xb =
      (ab (dropMisaligned a b xa xb).1, ab (dropMisaligned a b xa xb).2) := rfl

theorem tensordotBlockwise_ab [Zero R] [Add R] [Mul R] (a b : Arr R) (l xa xb r : List Nat) :
    tensordotBlockwise (ab a) (ab b) l xa xb r = ab (tensordotBlockwise a b l xa xb r) := rfl

/-- `_tensordot_via_fused` after the alignment step (copy of the model text) -/
def viaBody [Zero R] [Add R] [Mul R] (a b : Arr R) (leftAxes axesA axesB rightAxes : List Nat) :
    Except Err (Arr R) := do
  if a.blocks.isEmpty || b.blocks.isEmpty then
    return { a with indices := without a.indices axesA ++ without b.indices axesB,
                    charge := a.sym.combine [a.charge, b.charge],
                    blocks := [] }
  let af ← fuseA a [leftAxes, axesA] .insert false
  let bf ← fuseA b [axesB, rightAxes] .insert false
  let (l, ka) := match !leftAxes.isEmpty, !axesA.isEmpty with
    | false, false => (([] : List Nat), ([] : List Nat))
    | false, true => ([], [0])
    | true, false => ([0], [])
    | true, true => ([0], [1])
  let (kb, r) := match !axesB.isEmpty, !rightAxes.isEmpty with
    | false, false => (([] : List Nat), ([] : List Nat))
    | false, true => ([], [0])
    | true, false => ([0], [])
    | true, true => ([0], [1])
  let cf := tensordotBlockwise af bf l ka kb r
  let fusedRight := !rightAxes.isEmpty && rightAxes.length != 1
  let fusedLeft := !leftAxes.isEmpty && leftAxes.length != 1
  let cf ← if fusedRight then unfuseA cf (if leftAxes.isEmpty then 0 else 1) else pure cf
  let cf ← if fusedLeft then unfuseA cf 0 else pure cf
  pure cf

theorem tensordotViaFused_eq_body [Zero R] [Add R] [Mul R] (a b : Arr R) (l xa xb r : List Nat) :
    tensordotViaFused a b l xa xb r =
      viaBody (dropMisaligned a b xa xb).1 (dropMisaligned a b xa xb).2 l xa xb r := rfl

theorem viaBody_ab [Zero R] [Add R] [Mul R] (a b : Arr R) (l xa xb r : List Nat) :
    viaBody (ab a) (ab b) l xa xb r = (viaBody a b l xa xb r).map ab := by
  unfold viaBody
  have e1 : (ab a).blocks = a.blocks := rfl
  have e2 : (ab b).blocks = b.blocks := rfl
  rw [e1, e2]
  split
  · rfl
  · simp only [bind, Except.bind, fuseA_ab]
    cases fuseA a [l, xa] .insert false with
    | error e => rfl
    | ok af =>
      cases fuseA b [xb, r] .insert false with
      | error e => rfl
      | ok bf =>
        simp only [Except.map, tensordotBlockwise_ab, unfuseA_ab]
        split
        · cases unfuseA (tensordotBlockwise af bf _ _ _ _) _ with
          | error e => rfl
          | ok y =>
            simp only [Except.map, unfuseA_ab]
            split
            · cases unfuseA y 0 <;> rfl
            · rfl
        · simp only [pure, Except.pure, unfuseA_ab]
          split
          · cases unfuseA (tensordotBlockwise af bf _ _ _ _) 0 <;> rfl
          · rfl

theorem tensordotViaFused_ab [Zero R] [Add R] [Mul R] (a b : Arr R) (l xa xb r : List Nat) :
    tensordotViaFused (ab a) (ab b) l xa xb r = (tensordotViaFused a b l xa xb r).map ab := by
  rw [tensordotViaFused_eq_body, tensordotViaFused_eq_body, dropMisaligned_ab]
  exact viaBody_ab _ _ l xa xb r

theorem tensordotA_ab [Zero R] [Add R] [Mul R] (a b : Arr R) (axes : AxesArg) (mode : TdotMode) :
    tensordotA (ab a) (ab b) axes mode = (tensordotA a b axes mode).map ab := by
  unfold tensordotA
  have e1 : (ab a).ndim = a.ndim := rfl
  have e2 : (ab b).ndim = b.ndim := rfl
  rw [e1, e2]
  cases parseAxes a.ndim b.ndim axes with
  | error e => rfl
  | ok x =>
    obtain ⟨xa, xb⟩ := x
    simp only [bind, Except.bind]
    cases mode with
    | fused => exact tensordotViaFused_ab a b _ xa xb _
    | blockwise => rfl
    | auto =>
      cases xa.isEmpty with
      | true => rfl
      | false => exact tensordotViaFused_ab a b _ xa xb _

theorem fuseA_noexp_fields [Zero R] {x y : Arr R} {G : List (List Nat)} {m : FuseMode}
    (h : fuseA x G m false = .ok y) : y.fermi = x.fermi ∧ y.oddpos = x.oddpos := by
  rcases ValidP.fuseA_noexpand h with ⟨_, rfl⟩ | ⟨_, hc⟩
  · exact ⟨rfl, rfl⟩
  · obtain ⟨_, e2, _, _, e5⟩ := ValidP.fuseCore_fields hc
    exact ⟨e2, e5⟩

theorem tensordotViaFused_fields [Zero R] [Add R] [Mul R] {a b c : Arr R} {l xa xb r : List Nat}
    (hc : tensordotViaFused a b l xa xb r = .ok c) : c.fermi = a.fermi ∧ c.oddpos = a.oddpos := by
  rw [tensordotViaFused_eq_body] at hc
  have hd : (dropMisaligned a b xa xb).1.fermi = a.fermi ∧ (dropMisaligned a b xa xb).1.oddpos = a.oddpos :=
    ⟨rfl, rfl⟩
  generalize (dropMisaligned a b xa xb).1 = a' at hc hd
  generalize (dropMisaligned a b xa xb).2 = b' at hc
  unfold viaBody at hc
  split at hc
  · simp only [pure, Except.pure, Except.ok.injEq] at hc
    subst hc; exact hd
  · obtain ⟨af, haf, hc⟩ := ValidP.bind_ok hc
    obtain ⟨bf, hbf, hc⟩ := ValidP.bind_ok hc
    obtain ⟨f1, f2⟩ := fuseA_noexp_fields haf
    dsimp only at hc
    have step2 : ∀ y : Arr R, y.fermi = af.fermi ∧ y.oddpos = af.oddpos →
        (if (!l.isEmpty && l.length != 1) = true then unfuseA y 0 >>= fun cf => pure cf
          else pure y >>= fun cf => pure cf) = Except.ok c → c.fermi = af.fermi ∧ c.oddpos = af.oddpos := by
      intro y hyf h2
      split at h2
      · obtain ⟨z, hz, h2⟩ := ValidP.bind_ok h2
        simp only [pure, Except.pure, Except.ok.injEq] at h2
        subst h2
        obtain ⟨_, e2, _, _, e5⟩ := ValidP.unfuseA_fields hz
        exact ⟨e2.trans hyf.1, e5.trans hyf.2⟩
      · simp only [pure, Except.pure, bind, Except.bind, Except.ok.injEq] at h2
        subst h2; exact hyf
    have : c.fermi = af.fermi ∧ c.oddpos = af.oddpos := by
      split at hc
      · obtain ⟨y, hy, hc⟩ := ValidP.bind_ok hc
        obtain ⟨_, e2, _, _, e5⟩ := ValidP.unfuseA_fields hy
        exact step2 y ⟨e2, e5⟩ hc
      · rw [pure_bind] at hc
        exact step2 (tensordotBlockwise af bf _ _ _ _) ⟨rfl, rfl⟩ hc
    exact ⟨this.1.trans (f1.trans hd.1), this.2.trans (f2.trans hd.2)⟩

/-- whatever the mode, a successful abelian contraction carries the kind flag and the labels of
    its left operand -/
theorem tensordotA_fields [Zero R] [Add R] [Mul R] {a b c : Arr R} {axes : AxesArg} {mode : TdotMode}
    (h : tensordotA a b axes mode = .ok c) : c.fermi = a.fermi ∧ c.oddpos = a.oddpos := by
  have key : ∀ (l xa xb r : List Nat) (c : Arr R), tensordotViaFused a b l xa xb r = .ok c →
      c.fermi = a.fermi ∧ c.oddpos = a.oddpos := fun _ _ _ _ _ hc => tensordotViaFused_fields hc
  unfold tensordotA at h
  obtain ⟨x, hx, h⟩ := ValidP.bind_ok h
  obtain ⟨xa, xb⟩ := x
  dsimp only at h
  cases mode with
  | fused => exact key _ _ _ _ c h
  | blockwise =>
    simp only [pure, Except.pure, Except.ok.injEq] at h
    subst h; exact ⟨rfl, rfl⟩
  | auto =>
    dsimp only at h
    split at h
    · exact key _ _ _ _ c h
    · simp only [pure, Except.pure, Except.ok.injEq] at h
      subst h; exact ⟨rfl, rfl⟩

/-- the abelian kernel on arbitrary operands, through their erased versions -/
theorem tensordotA_via_ab [Zero R] [Add R] [Mul R] (a b : Arr R) (axes : AxesArg) (mode : TdotMode) :
    tensordotA a b axes mode = (tensordotA (ab a) (ab b) axes mode).map (relab a.fermi a.oddpos) := by
  rw [tensordotA_ab]
  cases h : tensordotA a b axes mode with
  | error e => rfl
  | ok c =>
    obtain ⟨h1, h2⟩ := tensordotA_fields h
    simp only [Except.map]
    congr 1
    show c = relab a.fermi a.oddpos (ab c)
    rw [← h1, ← h2]; rfl

end TdotP
end SymmModel
