/-
  SymmModel.Proofs.TdotFused14 — the fused strategy for a FULL contraction (both operands
  contracted completely, scalar = rank-0 result).  Namespace `SymmModel.TdotP`.
-/
import SymmModel.Proofs.TdotFused13

namespace SymmModel
namespace TdotP
variable {R : Type}

theorem solo_of_free_nil {A : Arr R} {xa : List Nat} (hn : xa.Nodup) (hr : ∀ x ∈ xa, x < A.ndim)
    (hne : xa ≠ []) (hfree : freeAxes A.ndim xa = []) : SoloOk A xa := by
  refine ⟨hne, ?_⟩
  have := ValidP.without_append_perm hn hr
  rw [without_range, hfree] at this
  exact this

/-- the product of the two fused vectors -/
def cfVV [Zero R] [Add R] [Mul R] (A B : Arr R) (xa xb : List Nat) : Arr R :=
  tensordotBlockwise (FuseP.fusedArrM A [xa]) (FuseP.fusedArrM B [xb]) [] [0] [0] []

/-- **full contraction, aligned operands.**  The product of the two fused vectors is a valid
    rank-0 array whose entry is the blockwise contraction's element, and it stores the empty
    sector whenever the blockwise contraction does. -/
theorem Ctx0.scalar [AddCommMonoid R] [Mul R] [Neg R]
    (hz1 : ∀ x : R, 0 * x = 0) (hz2 : ∀ x : R, x * 0 = 0) {A B : Arr R} {xa xb : List Nat}
    (h : Ctx0 A B xa xb) (hneK : xa ≠ []) (hL : freeAxes A.ndim xa = []) (hR : freeAxes B.ndim xb = []) :
    (cfVV A B xa xb).validB = true
      ∧ (cfVV A B xa xb).sym = A.sym ∧ (cfVV A B xa xb).fermi = false
      ∧ (cfVV A B xa xb).charge = A.sym.combine [A.charge, B.charge]
      ∧ (cfVV A B xa xb).phases = [] ∧ (cfVV A B xa xb).oddpos = A.oddpos
      ∧ (cfVV A B xa xb).indices = []
      ∧ (∀ K V, alookup (cfVV A B xa xb).blocks K = some V → ∀ J, inBox V.shape J = true →
          V.get J = (tensordotBlockwise A B (freeAxes A.ndim xa) xa xb (freeAxes B.ndim xb)).elem K J)
      ∧ (∀ s ∈ (tensordotBlockwise A B (freeAxes A.ndim xa) xa xb (freeAxes B.ndim xb)).sectors,
          s ∈ (cfVV A B xa xb).sectors) := by
  have hneKb : xb ≠ [] := by
    intro e; have := h.len; rw [e] at this; exact hneK (List.eq_nil_of_length_eq_zero this)
  have hpA := solo_of_free_nil h.nA h.rA hneK hL
  have hpB := solo_of_free_nil h.nB h.rB hneKb hR
  have hokA := hpA.groupsOk
  have hokB := hpB.groupsOk
  have gA : ([xa] : List (List Nat))[0]? = some xa := rfl
  have gB : ([xb] : List (List Nat))[0]? = some xb := rfl
  have hvaf := fused_solo_validB h.vA h.fA hpA
  have hvbf := fused_solo_validB h.vB h.fB hpB
  have iA : (FuseP.fusedArrM A [xa]).indices = [FuseP.ixM A [xa] 0] := solo_newIdx hpA
  have iB : (FuseP.fusedArrM B [xb]).indices = [FuseP.ixM B [xb] 0] := solo_newIdx hpB
  have e1 : (FuseP.fusedArrM A [xa]).ndim = 1 := by
    show (FuseP.fusedArrM A [xa]).indices.length = 1; rw [iA]; rfl
  have e2 : (FuseP.fusedArrM B [xb]).ndim = 1 := by
    show (FuseP.fusedArrM B [xb]).indices.length = 1; rw [iB]; rfl
  have bm := h.bond_match hokA hokB gA gB
  -- validity
  have hvcf : (cfVV A B xa xb).validB = true := by
    have := ValidP.tensordotBlockwise_valid (FuseP.fusedArrM A [xa]) (FuseP.fusedArrM B [xb]) [0] [0]
      ((ValidP.validB_iff _).mp hvaf) ((ValidP.validB_iff _).mp hvbf) h.sym h.fA
      (by
        unfold ValidP.oppositeDualsB
        simp only [List.length_cons, List.length_nil, BEq.rfl, List.zip_cons_cons, List.zip_nil_right,
          List.all_cons, List.all_nil, Bool.and_true, Bool.true_and, bne_iff_ne, ne_eq]
        rw [iA, iB]
        simp only [List.getD_cons_zero]
        rw [bm.2.2]
        cases (FuseP.ixM B [xb] 0).dual <;> simp)
      (by simp) (by simp) (by simp [e1]) (by simp [e2])
    rw [e1, e2, without_range, freeAxes_1_0] at this
    exact (ValidP.validB_iff _).mpr this
  obtain ⟨t1, t2, t3, t4, t5⟩ := tensordotBlockwise_fields
    (FuseP.fusedArrM A [xa]) (FuseP.fusedArrM B [xb]) [] [0] [0] []
  obtain ⟨u1, u2, u3, u4, u5⟩ := fusedArrM_fields A [xa]
  obtain ⟨_, _, w3, _, _⟩ := fusedArrM_fields B [xb]
  have hpcf : (cfVV A B xa xb).phases = [] := (t4.trans u4).trans h.phA
  have hidx : (cfVV A B xa xb).indices = [] := by
    unfold cfVV
    rw [tensordotBlockwise_indices, iA, iB]
    rfl
  have hdcf : allDistinct (cfVV A B xa xb).sectors = true := Arr.allDistinct_of_validB hvcf
  refine ⟨hvcf, t1.trans u1, (t2.trans u2).trans h.fA, by unfold cfVV; rw [t3, u1, u3, w3], hpcf,
    t5.trans u5, hidx, ?_, ?_⟩
  · intro K V hl J hJ
    have hmem : (K, V) ∈ (cfVV A B xa xb).blocks := alookup_mem hl
    have hsh := Arr.shapesOk_of_validB hvcf (K, V) hmem
    rw [hidx] at hsh
    obtain ⟨hKl, hVl⟩ := blockShape?_length hsh
    simp only [List.length_nil] at hKl hVl
    have hK0 : K = [] := List.eq_nil_of_length_eq_zero hKl
    have hJ0 : J = [] := List.eq_nil_of_length_eq_zero (by rw [inBox_length hJ]; exact hVl)
    subst hK0 hJ0
    have hel := Arr.elem_of_mem hdcf hpcf hmem []
    simp only at hel
    rw [← hel]
    unfold cfVV
    rw [vv_elem hz1 hz2 (FuseP.fusedArrM A [xa]) (FuseP.fusedArrM B [xb]) _ _ iA iB h.phA h.phB
      (Arr.allDistinct_of_validB hvaf) (Arr.allDistinct_of_validB hvbf)
      (Arr.shapesOk_of_validB hvaf) (Arr.shapesOk_of_validB hvbf)
      (cm_keys_nodup (ixM_wfB h.vaA hokA gA))]
    have ean : A.indices.length = A.ndim := rfl
    have ebn : B.indices.length = B.ndim := rfl
    have hshpL : Arr.blockShape? (permuted A.indices (freeAxes A.ndim xa)) [] = some [] := by
      rw [hL]; rfl
    have hshpR : Arr.blockShape? (permuted B.indices (freeAxes B.ndim xb)) [] = some [] := by
      rw [hR]; rfl
    refine core_generic hz1 hz2 h hokA hokB gA gB (Ls := []) (Rs := []) (oL := []) (oR := [])
      hshpL (by rfl) hshpR (by rfl)
      (fun c k => (FuseP.fusedArrM A [xa]).elem [c] [k])
      (fun c k => (FuseP.fusedArrM B [xb]).elem [c] [k]) ?_ ?_
    · intro c D k K ok hsz hkD hdec
      obtain ⟨shpK, hshpK, hboxK⟩ := decAx_facts h.vaA hokA gA hdec hsz hkD
      have hKlen : K.length = xa.length := by
        rw [(blockShape?_length hshpK).1, permuted_length _ _ (by simpa [ean] using h.rA)]
      have hoklen : ok.length = xa.length := by
        rw [inBox_length hboxK, (blockShape?_length hshpK).2,
          permuted_length _ _ (by simpa [ean] using h.rA)]
      exact solo_elem h.vaA h.phA hpA hdec hsz hkD (mergeSec_length _ _ _ _) (mergeIdx_length _ _ _ _ _ _)
        (permuted_mergeSec_axes h.nA h.rA hKlen) (permuted_mergeIdx_axes _ h.nA h.rA hoklen)
    · intro c D k K ok hsz hkD hdec
      obtain ⟨shpK, hshpK, hboxK⟩ := decAx_facts h.vaB hokB gB hdec hsz hkD
      have hKlen : K.length = xb.length := by
        rw [(blockShape?_length hshpK).1, permuted_length _ _ (by simpa [ebn] using h.rB)]
      have hoklen : ok.length = xb.length := by
        rw [inBox_length hboxK, (blockShape?_length hshpK).2,
          permuted_length _ _ (by simpa [ebn] using h.rB)]
      exact solo_elem h.vaB h.phB hpB hdec hsz hkD (mergeSec_length _ _ _ _) (mergeIdx_length _ _ _ _ _ _)
        (permuted_mergeSec_axes h.nB h.rB hKlen) (permuted_mergeIdx_axes _ h.nB h.rB hoklen)
  · intro s hs
    rw [tensordotBlockwise_sectors_eq, List.mem_eraseDups, mem_tdKeys] at hs
    obtain ⟨x, hx, y', hy', hxy, rfl⟩ := hs
    obtain ⟨sa, hsa, rfl⟩ := List.mem_map.mp hx
    obtain ⟨sb, hsb, rfl⟩ := List.mem_map.mp hy'
    unfold cfVV
    rw [tensordotBlockwise_sectors_eq, List.mem_eraseDups, mem_tdKeys]
    obtain ⟨Ba, hBa, _⟩ := FuseP.fusedBlockM_exists h.vaA hokA hsa
    obtain ⟨Bb, hBb, _⟩ := FuseP.fusedBlockM_exists h.vaB hokB hsb
    rw [solo_newSector hpA] at hBa
    rw [solo_newSector hpB] at hBb
    refine ⟨_, List.mem_map.mpr ⟨_, alookup_mem hBa, rfl⟩, _, List.mem_map.mpr ⟨_, alookup_mem hBb, rfl⟩,
      ?_, ?_⟩
    · simp only [permuted, List.filterMap_cons, List.filterMap_nil, List.getElem?_cons_zero]
      rw [h.bond_charge hokA hokB gA gB hsa hsb hxy.symm]
    · rw [hL, hR]; rfl

/-- the model's control flow for a full contraction when both aligned operands have blocks -/
theorem tensordotViaFused_vv [Zero R] [Add R] [Mul R] (a b : Arr R) (xa xb : List Nat)
    (hxa : xa ≠ []) (hxb : xb ≠ [])
    (hbl : ((dropMisaligned a b xa xb).1.blocks.isEmpty || (dropMisaligned a b xa xb).2.blocks.isEmpty) = false)
    (af bf : Arr R) (haf : fuseCore (dropMisaligned a b xa xb).1 [xa] .insert = .ok af)
    (hbf : fuseCore (dropMisaligned a b xa xb).2 [xb] .insert = .ok bf) :
    tensordotViaFused a b [] xa xb [] = .ok (tensordotBlockwise af bf [] [0] [0] []) := by
  have hfA : [[], xa].filter (fun g => !g.isEmpty) = [xa] := by
    cases xa <;> simp_all
  have hfB : [xb, []].filter (fun g => !g.isEmpty) = [xb] := by
    cases xb <;> simp_all
  have hxaE : xa.isEmpty = false := by cases xa <;> simp_all
  have hxbE : xb.isEmpty = false := by cases xb <;> simp_all
  unfold tensordotViaFused
  simp only [hbl, C05.fuseA_noexpand, hfA, hfB, haf, hbf, hxaE, hxbE, Bool.not_false,
    List.isEmpty_cons, List.isEmpty_nil, Bool.not_true, Bool.false_and,
    Bool.false_eq_true, if_false, bind, Except.bind, pure, Except.pure]

end TdotP
end SymmModel
