/-
  SymmModel.Proofs.LazyLemmas — helper lemmas for properties C09 (lazily tracked fermionic
  signs are unobservable) and C10 (involution / adjoint laws of `conj` and `dagger`).

  Nothing here changes a model definition.  Contents, in order:
    * scalar law classes `LawfulNeg`, `LawfulNegConj`, `LawfulMulNeg` (instances `Int`, `GRat`)
      and `sgnI σ x` (multiplication of a scalar by an integer sign);
    * the insertion-ordered association lists `alookup/ainsert/aerase/adict` (Model/Basic);
    * the pending-sign table through its *phase function* `phOf ph s = (alookup ph s).getD 1`
      (= `Arr.getPhase`), well-formedness `PhOk`, and the fold lemma `fold_phOf`;
    * the value view `Arr.elem` of `phaseFlip/phaseTranspose/phaseGlobal/phaseSector/phaseSync`,
      of elementwise maps (`mapVals`, `negA`) and of `conjF` (`conjF_elem`);
    * observational equality `ObsEq`, congruence lemmas, `toDenseA_congr`;
    * involutions: `oddposDag`, `Index.conj`;
    * canonical form `phaseSync_eq_of_obsEq` (via `ravel_unravel`, `Blk.ext_get`);
    * `adict` / `permuted` lemmas and `transposeF` (`transposeF_elem`, `transposeF_congr`);
    * `multiplyDiagonal`; operations that synchronise first (`binaryBlockwise`, `matmulF`,
      `traceF`, `unfuseF`, `tensordotF`, `einsumF`, `fuseF`): identical results;
    * `conj ∘ conj` (parity counting), `koszul_none_eq_reverse`, the index box
      (`boxIdx`, `unravel_getElem`), `daggerF` (`dagger_eq_conj_rev`, `daggerF_daggerF`);
    * programs `SOp`, `run`, `runSync`, `run_runSync`.
  Everything lives in `namespace SymmModel.Lazy` so that names cannot clash with the helper
  files of other properties.
-/
import SymmModel.Model.Fermi
import SymmModel.Model.Valid
import SymmModel.Model.GRat
import SymmModel.Props.C17
import Mathlib.Data.List.Nodup
import Mathlib.Tactic.Ring
import Mathlib.Algebra.Order.Ring.Rat

namespace SymmModel.Lazy
open SymmModel
set_option linter.unusedSectionVars false

/-! ## scalar laws -/

/-- the two laws of negation the sign bookkeeping relies on -/
class LawfulNeg (R : Type) [Zero R] [Neg R] : Prop where
  neg_neg : ∀ x : R, - - x = x
  neg_zero : -(0 : R) = 0

/-- negation and conjugation: conjugation is an involution commuting with negation -/
class LawfulNegConj (R : Type) [Zero R] [Neg R] [Conj R] : Prop extends LawfulNeg R where
  conj_neg : ∀ x : R, Conj.conj (-x) = - Conj.conj x
  conj_conj : ∀ x : R, Conj.conj (Conj.conj x) = x
  conj_zero : Conj.conj (0 : R) = 0

instance : LawfulNeg Int := ⟨Int.neg_neg, Int.neg_zero⟩

/-- integers with the trivial conjugation (scoped: only visible after `open scoped SymmModel.Lazy`) -/
scoped instance instConjInt : Conj Int := ⟨id⟩
instance : LawfulNegConj Int := { conj_neg := fun _ => rfl, conj_conj := fun _ => rfl, conj_zero := rfl }

theorem GRat.ext' {a b : GRat} (h1 : a.re = b.re) (h2 : a.im = b.im) : a = b := by
  cases a; cases b; simp_all

instance : LawfulNeg GRat where
  neg_neg x := GRat.ext' (Rat.neg_neg x.re) (Rat.neg_neg x.im)
  neg_zero := by decide

instance : LawfulNegConj GRat where
  conj_neg x := GRat.ext' rfl rfl
  conj_conj x := GRat.ext' rfl (Rat.neg_neg x.im)
  conj_zero := by decide

/-- multiplication of a scalar by a sign `±1` given as an integer (the model keeps signs as
    `Int`s; `R` has no multiplication by integers): `-1` negates, everything else is kept -/
def sgnI {R : Type} [Neg R] (σ : Int) (x : R) : R := if σ = -1 then -x else x

section sgn
variable {R : Type} [Zero R] [Neg R] [LawfulNeg R]

@[simp] theorem sgnI_one (x : R) : sgnI 1 x = x := by simp [sgnI]
@[simp] theorem sgnI_neg_one (x : R) : sgnI (-1) x = -x := by simp [sgnI]
theorem sgnI_zero (σ : Int) : sgnI σ (0 : R) = 0 := by
  unfold sgnI; split
  · exact LawfulNeg.neg_zero
  · rfl

theorem sgnI_mul {σ τ : Int} (hσ : σ = 1 ∨ σ = -1) (hτ : τ = 1 ∨ τ = -1) (x : R) :
    sgnI (σ * τ) x = sgnI σ (sgnI τ x) := by
  rcases hσ with rfl | rfl <;> rcases hτ with rfl | rfl <;> simp [LawfulNeg.neg_neg]

theorem sgnI_sgnI {σ : Int} (x : R) : sgnI σ (sgnI σ x) = x := by
  unfold sgnI; split
  · exact LawfulNeg.neg_neg x
  · rfl

theorem sgnI_neg {σ : Int} (x : R) : sgnI σ (-x) = - sgnI σ x := by
  unfold sgnI; split <;> rfl
end sgn

theorem sgnI_conj {R : Type} [Zero R] [Neg R] [Conj R] [LawfulNegConj R] (σ : Int) (x : R) :
    Conj.conj (sgnI σ x) = sgnI σ (Conj.conj x) := by
  unfold sgnI; split
  · exact LawfulNegConj.conj_neg x
  · rfl

/-! ## association lists -/

section alist
variable {κ β : Type} [BEq κ] [LawfulBEq κ]

theorem alookup_cons (k1 : κ) (v1 : β) (l : List (κ × β)) (k : κ) :
    alookup ((k1, v1) :: l) k = if k1 == k then some v1 else alookup l k := by
  simp [alookup]
theorem ainsert_cons (k1 : κ) (v1 : β) (l : List (κ × β)) (k : κ) (v : β) :
    ainsert ((k1, v1) :: l) k v = if k1 == k then (k1, v) :: l else (k1, v1) :: ainsert l k v := by
  simp [ainsert]
theorem aerase_cons (k1 : κ) (v1 : β) (l : List (κ × β)) (k : κ) :
    aerase ((k1, v1) :: l) k = if k1 == k then l else (k1, v1) :: aerase l k := by
  simp [aerase]

theorem alookup_ainsert (l : List (κ × β)) (k k' : κ) (v : β) :
    alookup (ainsert l k v) k' = if k == k' then some v else alookup l k' := by
  induction l with
  | nil => simp [ainsert, alookup]
  | cons p l ih =>
    obtain ⟨k1, v1⟩ := p
    rw [ainsert_cons]
    split
    · rw [alookup_cons, alookup_cons]; grind
    · rw [alookup_cons, alookup_cons, ih]; grind

theorem akeys_ainsert (l : List (κ × β)) (k : κ) (v : β) :
    akeys (ainsert l k v) = if k ∈ akeys l then akeys l else akeys l ++ [k] := by
  induction l with
  | nil => simp [ainsert, akeys]
  | cons p l ih =>
    obtain ⟨k1, v1⟩ := p
    rw [ainsert_cons]
    simp only [akeys, List.map_cons, List.mem_cons] at ih ⊢
    split
    · grind
    · simp only [List.map_cons, ih]; grind

theorem akeys_aerase (l : List (κ × β)) (k : κ) : akeys (aerase l k) = (akeys l).erase k := by
  induction l with
  | nil => simp [aerase, akeys]
  | cons p l ih =>
    obtain ⟨k1, v1⟩ := p
    rw [aerase_cons]
    simp only [akeys, List.map_cons] at ih ⊢
    split
    · grind
    · simp only [List.map_cons, ih]; grind

theorem nodup_ainsert {l : List (κ × β)} (h : (akeys l).Nodup) (k : κ) (v : β) :
    (akeys (ainsert l k v)).Nodup := by
  rw [akeys_ainsert]; split
  · exact h
  · rename_i hk
    exact List.nodup_append.mpr ⟨h, List.nodup_singleton k, by
      intro a ha b hb; simp at hb; subst hb; exact fun hh => hk (hh ▸ ha)⟩

theorem nodup_aerase {l : List (κ × β)} (h : (akeys l).Nodup) (k : κ) :
    (akeys (aerase l k)).Nodup := by
  rw [akeys_aerase]; exact h.erase k

theorem alookup_eq_none {l : List (κ × β)} {k : κ} (h : k ∉ akeys l) : alookup l k = none := by
  induction l with
  | nil => rfl
  | cons p l ih =>
    obtain ⟨k1, v1⟩ := p
    simp only [akeys, List.map_cons, List.mem_cons, not_or] at h ih
    rw [alookup_cons]; grind

theorem alookup_isSome_iff {l : List (κ × β)} {k : κ} : (alookup l k).isSome ↔ k ∈ akeys l := by
  induction l with
  | nil => simp [alookup, akeys]
  | cons p l ih =>
    obtain ⟨k1, v1⟩ := p
    simp only [akeys, List.map_cons, List.mem_cons] at ih ⊢
    rw [alookup_cons]; grind

theorem alookup_mem {l : List (κ × β)} {k : κ} {v : β} (h : alookup l k = some v) : (k, v) ∈ l := by
  induction l with
  | nil => simp [alookup] at h
  | cons p l ih =>
    obtain ⟨k1, v1⟩ := p
    rw [alookup_cons] at h; grind

theorem alookup_aerase {l : List (κ × β)} (hl : (akeys l).Nodup) (k k' : κ) :
    alookup (aerase l k) k' = if k == k' then none else alookup l k' := by
  induction l with
  | nil => simp [aerase, alookup]
  | cons p l ih =>
    obtain ⟨k1, v1⟩ := p
    simp only [akeys, List.map_cons, List.nodup_cons] at hl ih
    have hn := @alookup_eq_none κ β _ _ l k'
    simp only [akeys] at hn
    rw [aerase_cons]
    split
    · rw [alookup_cons]; grind
    · rw [alookup_cons, alookup_cons, ih hl.2]; grind

theorem mem_ainsert {l : List (κ × β)} {k : κ} {v : β} {p : κ × β} (h : p ∈ ainsert l k v) :
    p ∈ l ∨ p = (k, v) := by
  induction l with
  | nil => simpa [ainsert] using h
  | cons q l ih =>
    obtain ⟨k1, v1⟩ := q
    rw [ainsert_cons] at h; grind

theorem mem_aerase {l : List (κ × β)} {k : κ} {p : κ × β} (h : p ∈ aerase l k) : p ∈ l := by
  induction l with
  | nil => simp [aerase] at h
  | cons q l ih =>
    obtain ⟨k1, v1⟩ := q
    rw [aerase_cons] at h; grind

/-- lookup in a list whose values were mapped key-wise -/
theorem alookup_map_val {γ : Type} (F : κ → β → γ) (l : List (κ × β)) (k : κ) :
    alookup (l.map (fun p => (p.1, F p.1 p.2))) k = (alookup l k).map (F k) := by
  induction l with
  | nil => rfl
  | cons p l ih =>
    obtain ⟨k1, v1⟩ := p
    simp only [List.map_cons]
    rw [alookup_cons, alookup_cons, ih]; grind

theorem akeys_map_val {γ : Type} (F : κ → β → γ) (l : List (κ × β)) :
    akeys (l.map (fun p => (p.1, F p.1 p.2))) = akeys l := by
  simp [akeys, List.map_map, Function.comp_def]

end alist

/-! ## the phase function of a pending-sign table -/

/-- the pending sign a table assigns to a sector (`Arr.getPhase` on a raw table) -/
def phOf (ph : List (Sector × Int)) (s : Sector) : Int := (alookup ph s).getD 1

/-- a well-formed pending-sign table: distinct keys, values `±1` (part of `Arr.validB`) -/
def PhOk (ph : List (Sector × Int)) : Prop :=
  (akeys ph).Nodup ∧ ∀ p ∈ ph, p.2 = 1 ∨ p.2 = -1

theorem PhOk.nil : PhOk [] := ⟨List.nodup_nil, by simp⟩

theorem PhOk.phOf {ph : List (Sector × Int)} (h : PhOk ph) (s : Sector) :
    phOf ph s = 1 ∨ phOf ph s = -1 := by
  unfold Lazy.phOf
  cases hl : alookup ph s with
  | none => left; rfl
  | some v => exact h.2 _ (alookup_mem hl)

theorem lookup_neg_one_iff (ph : List (Sector × Int)) (s : Sector) :
    (alookup ph s == some (-1)) = (phOf ph s == -1) := by
  unfold phOf
  cases alookup ph s with
  | none => decide
  | some v => simp

/-- `setPhase` realises "assign `p` to `s`" on the phase function -/
theorem setPhase_spec {ph : List (Sector × Int)} (h : PhOk ph) (s : Sector) {p : Int}
    (hp : p = 1 ∨ p = -1) :
    PhOk (Arr.setPhase ph s p) ∧
      ∀ s', phOf (Arr.setPhase ph s p) s' = if s = s' then p else phOf ph s' := by
  unfold Arr.setPhase
  rcases hp with rfl | rfl
  · simp only [beq_self_eq_true, if_true]
    refine ⟨⟨nodup_aerase h.1 s, fun q hq => h.2 q (mem_aerase hq)⟩, fun s' => ?_⟩
    unfold phOf; rw [alookup_aerase h.1]
    by_cases hs : s = s' <;> simp [hs]
  · have : ((-1 : Int) == 1) = false := by decide
    simp only [this, Bool.false_eq_true, if_false]
    refine ⟨⟨nodup_ainsert h.1 s _, fun q hq => ?_⟩, fun s' => ?_⟩
    · rcases mem_ainsert hq with hq | hq
      · exact h.2 q hq
      · right; rw [hq]
    · unfold phOf; rw [alookup_ainsert]
      by_cases hs : s = s' <;> simp [hs]

/-- the storing pattern of `phase_global` / `phase_sector` (`pop` then re-insert `-1`) -/
theorem storeG_spec {ph : List (Sector × Int)} (h : PhOk ph) (s : Sector) {p : Int}
    (hp : p = 1 ∨ p = -1) :
    PhOk (if p == -1 then ainsert (aerase ph s) s (-1) else aerase ph s) ∧
      ∀ s', phOf (if p == -1 then ainsert (aerase ph s) s (-1) else aerase ph s) s'
        = if s = s' then p else phOf ph s' := by
  have hE : PhOk (aerase ph s) := ⟨nodup_aerase h.1 s, fun q hq => h.2 q (mem_aerase hq)⟩
  rcases hp with rfl | rfl
  · have : ((1 : Int) == -1) = false := by decide
    simp only [this, Bool.false_eq_true, if_false]
    refine ⟨hE, fun s' => ?_⟩
    unfold phOf; rw [alookup_aerase h.1]
    by_cases hs : s = s' <;> simp [hs]
  · simp only [beq_self_eq_true, if_true]
    refine ⟨⟨nodup_ainsert hE.1 s _, fun q hq => ?_⟩, fun s' => ?_⟩
    · rcases mem_ainsert hq with hq | hq
      · exact hE.2 q hq
      · right; rw [hq]
    · unfold phOf; rw [alookup_ainsert, alookup_aerase h.1]
      by_cases hs : s = s' <;> simp [hs]

/-- a left fold that re-assigns the phase of each listed sector once -/
theorem fold_phOf (f : List (Sector × Int) → Sector → List (Sector × Int))
    (g : Sector → Int → Int)
    (hf : ∀ ph s, PhOk ph → PhOk (f ph s) ∧
            ∀ s', phOf (f ph s) s' = if s = s' then g s (phOf ph s) else phOf ph s')
    (L : List Sector) (hL : L.Nodup) (ph : List (Sector × Int)) (h : PhOk ph) :
    PhOk (L.foldl f ph) ∧
      ∀ s', phOf (L.foldl f ph) s' = if s' ∈ L then g s' (phOf ph s') else phOf ph s' := by
  induction L generalizing ph with
  | nil => exact ⟨h, fun s' => by simp⟩
  | cons s L ih =>
    rw [List.nodup_cons] at hL
    obtain ⟨h1, h2⟩ := hf ph s h
    obtain ⟨i1, i2⟩ := ih hL.2 (f ph s) h1
    refine ⟨i1, fun s' => ?_⟩
    simp only [List.foldl_cons]
    rw [i2 s']
    by_cases hs : s = s'
    · subst hs
      simp [hL.1, h2]
    · have hs' : s' ≠ s := fun hh => hs hh.symm
      simp [h2, hs, hs']


/-! ## blocks -/

section blk
variable {R : Type} [Zero R]

theorem Blk.get_map (f : R → R) (h0 : f 0 = 0) (b : Blk R) (i : List Nat) :
    (b.map f).get i = f (b.get i) := by
  unfold Blk.get Blk.map
  simp only [Array.getD_eq_getD_getElem?, Array.getElem?_map]
  cases b.data[ravel b.shape i]? with
  | none => simp [h0]
  | some v => simp

theorem Blk.get_negK [Neg R] [LawfulNeg R] (b : Blk R) (i : List Nat) :
    b.negK.get i = - b.get i := Blk.get_map _ LawfulNeg.neg_zero b i

theorem Blk.get_conjK [Neg R] [Conj R] [LawfulNegConj R] (b : Blk R) (i : List Nat) :
    b.conjK.get i = Conj.conj (b.get i) := Blk.get_map _ LawfulNegConj.conj_zero b i

end blk

/-! ## the value view and the sign operations -/

section elem
variable {R : Type} [Zero R] [Neg R]

/-- the invariants of `Arr.validB` the sign bookkeeping needs: stored sectors are distinct and
    the pending-sign table has distinct keys and values `±1` -/
structure SignOk (a : Arr R) : Prop where
  sectors : a.sectors.Nodup
  phases : PhOk a.phases

theorem allDistinct_nodup {α : Type} [BEq α] [LawfulBEq α] {l : List α} (h : allDistinct l = true) :
    l.Nodup := by
  induction l with
  | nil => exact List.nodup_nil
  | cons a l ih =>
    simp only [allDistinct, Bool.and_eq_true, Bool.not_eq_true', List.contains_eq_mem,
      decide_eq_false_iff_not] at h
    exact List.nodup_cons.mpr ⟨h.1, ih h.2⟩

/-- every valid fermionic array satisfies the invariants -/
theorem SignOk.of_valid {a : Arr R} (h : a.validB = true) (hf : a.fermi = true) : SignOk a := by
  unfold Arr.validB at h
  simp only [hf, if_true, Bool.and_eq_true] at h
  obtain ⟨⟨⟨⟨_, _⟩, hs⟩, _⟩, ⟨hk, hv⟩, _⟩ := h
  refine ⟨allDistinct_nodup hs, allDistinct_nodup hk, fun p hp => ?_⟩
  have := List.all_eq_true.mp hv p hp
  simp only [Bool.and_eq_true, Bool.or_eq_true, beq_iff_eq] at this
  exact this.2

theorem getPhase_eq (a : Arr R) (s : Sector) : a.getPhase s = phOf a.phases s := rfl

theorem elem_eq (a : Arr R) (s : Sector) (off : List Nat) :
    a.elem s off = match alookup a.blocks s with
      | none => 0
      | some b => sgnI (phOf a.phases s) (b.get off) := by
  unfold Arr.elem
  cases alookup a.blocks s with
  | none => rfl
  | some b =>
    simp only [lookup_neg_one_iff, sgnI, beq_iff_eq]

theorem mem_sectors_of_lookup {a : Arr R} {s : Sector} {b : Blk R}
    (h : alookup a.blocks s = some b) : s ∈ a.sectors := by
  have : (alookup a.blocks s).isSome := by rw [h]; rfl
  exact alookup_isSome_iff.mp this

theorem elem_of_not_mem [LawfulNeg R] {a : Arr R} {s : Sector} (h : s ∉ a.sectors)
    (off : List Nat) : a.elem s off = 0 := by
  rw [elem_eq, alookup_eq_none (l := a.blocks) h]

/-- an operation that keeps the blocks and multiplies the pending sign of every stored sector
    by `σ` multiplies the value view by `σ` -/
theorem elem_of_phase [LawfulNeg R] {a a' : Arr R} (hb : a'.blocks = a.blocks) (s : Sector)
    {σ : Int} (hσ : σ = 1 ∨ σ = -1) (h0 : PhOk a.phases)
    (hp : s ∈ a.sectors → phOf a'.phases s = σ * phOf a.phases s) (off : List Nat) :
    a'.elem s off = sgnI σ (a.elem s off) := by
  rw [elem_eq, elem_eq, hb]
  cases h : alookup a.blocks s with
  | none => exact (sgnI_zero σ).symm
  | some b =>
    simp only
    rw [hp (mem_sectors_of_lookup h), sgnI_mul hσ (h0.phOf s)]

theorem koszul_pm (par : List Bool) (perm : Option (List Nat)) :
    koszul par perm = 1 ∨ koszul par perm = -1 := by
  unfold koszul; split
  · right; rfl
  · left; rfl

theorem neg_pm {p : Int} (h : p = 1 ∨ p = -1) : -p = 1 ∨ -p = -1 := by omega
theorem mul_pm {p q : Int} (hp : p = 1 ∨ p = -1) (hq : q = 1 ∨ q = -1) : p * q = 1 ∨ p * q = -1 := by
  rcases hp with rfl | rfl <;> rcases hq with rfl | rfl <;> simp

/-! ### `phase_flip` -/

/-- `phase_flip(*axs)` negates a sector iff an odd number of the listed axes carry an odd charge -/
def flipOdd (sym : Sym) (axs : List Nat) (s : Sector) : Bool :=
  (axs.filter (fun ax => sym.parity (s.getD ax (0, 0)))).length % 2 == 1

def flipSign (sym : Sym) (axs : List Nat) (s : Sector) : Int := if flipOdd sym axs s then -1 else 1

theorem flipSign_pm (sym : Sym) (axs : List Nat) (s : Sector) :
    flipSign sym axs s = 1 ∨ flipSign sym axs s = -1 := by
  unfold flipSign; split
  · right; rfl
  · left; rfl

theorem phaseFlip_blocks (a : Arr R) (axs : List Nat) : (a.phaseFlip axs).blocks = a.blocks := by
  unfold Arr.phaseFlip; split <;> rfl

theorem phaseFlip_phases [LawfulNeg R] (a : Arr R) (axs : List Nat) (h : SignOk a) :
    PhOk (a.phaseFlip axs).phases ∧ ∀ s, phOf (a.phaseFlip axs).phases s
      = if s ∈ a.sectors then flipSign a.sym axs s * phOf a.phases s else phOf a.phases s := by
  unfold Arr.phaseFlip
  split
  · rename_i he
    have : axs = [] := by simpa using he
    subst this
    refine ⟨h.phases, fun s => ?_⟩
    simp [flipSign, flipOdd]
  · refine fold_phOf _ (fun s p => flipSign a.sym axs s * p) (fun ph s hph => ?_) a.sectors
      h.sectors a.phases h.phases
    by_cases ho : flipOdd a.sym axs s = true
    · have hs := setPhase_spec hph s (neg_pm (hph.phOf s))
      have hodd : ((axs.filter (fun ax => a.sym.parity (s.getD ax (0, 0)))).length % 2 == 1) = true := ho
      simp only [hodd, if_true]
      refine ⟨hs.1, fun s' => ?_⟩
      have := hs.2 s'
      simp only [Arr.setPhase, phOf] at this ⊢
      refine this.trans ?_
      simp [flipSign, ho]
    · have hodd : ((axs.filter (fun ax => a.sym.parity (s.getD ax (0, 0)))).length % 2 == 1) = false := by
        simpa [flipOdd] using ho
      simp only [hodd, Bool.false_eq_true, if_false]
      refine ⟨hph, fun s' => ?_⟩
      by_cases hs : s = s'
      · subst hs; simp [flipSign, ho]
      · simp [hs]

/-- **`phase_flip` on the value view**: every element of sector `s` is multiplied by the sign
    `flipSign` (`-1` iff an odd number of the listed axes carry an odd charge in `s`), whatever
    signs were pending -/
theorem phaseFlip_elem [LawfulNeg R] (a : Arr R) (axs : List Nat) (h : SignOk a) (s : Sector)
    (off : List Nat) :
    (a.phaseFlip axs).elem s off = sgnI (flipSign a.sym axs s) (a.elem s off) :=
  elem_of_phase (phaseFlip_blocks a axs) s (flipSign_pm _ _ _) h.phases
    (fun hs => by rw [(phaseFlip_phases a axs h).2 s, if_pos hs]) off

/-! ### `phase_transpose` -/

theorem phaseTranspose_phases (a : Arr R) (axes : Option (List Nat)) (h : SignOk a) :
    PhOk (a.phaseTranspose axes).phases ∧ ∀ s, phOf (a.phaseTranspose axes).phases s
      = if s ∈ a.sectors then koszul (a.parities s) axes * phOf a.phases s else phOf a.phases s := by
  unfold Arr.phaseTranspose
  refine fold_phOf _ (fun s p => koszul (a.parities s) axes * p) (fun ph s hph => ?_) a.sectors
    h.sectors a.phases h.phases
  have hs := setPhase_spec hph s (mul_pm (hph.phOf s) (koszul_pm (a.parities s) axes))
  refine ⟨hs.1, fun s' => ?_⟩
  have := hs.2 s'
  simp only [phOf] at this ⊢
  refine this.trans ?_
  rw [Int.mul_comm]

/-- **`phase_transpose` on the value view**: sector `s` is multiplied by the Koszul sign of the
    permutation on the parities of `s` -/
theorem phaseTranspose_elem [LawfulNeg R] (a : Arr R) (axes : Option (List Nat)) (h : SignOk a)
    (s : Sector) (off : List Nat) :
    (a.phaseTranspose axes).elem s off = sgnI (koszul (a.parities s) axes) (a.elem s off) :=
  elem_of_phase (a := a) (a' := a.phaseTranspose axes) rfl s (koszul_pm _ _) h.phases
    (fun hs => by rw [(phaseTranspose_phases a axes h).2 s, if_pos hs]) off

/-! ### `phase_global` -/

theorem phaseGlobal_phases (a : Arr R) (h : SignOk a) :
    PhOk a.phaseGlobal.phases ∧ ∀ s, phOf a.phaseGlobal.phases s
      = if s ∈ a.sectors then -1 * phOf a.phases s else phOf a.phases s := by
  unfold Arr.phaseGlobal
  refine fold_phOf _ (fun _ p => -1 * p) (fun ph s hph => ?_) a.sectors
    h.sectors a.phases h.phases
  have hs := storeG_spec hph s (neg_pm (hph.phOf s))
  refine ⟨hs.1, fun s' => ?_⟩
  have := hs.2 s'
  simp only [phOf] at this ⊢
  refine this.trans ?_
  simp

/-- **`phase_global` on the value view**: every element is negated -/
theorem phaseGlobal_elem [LawfulNeg R] (a : Arr R) (h : SignOk a) (s : Sector) (off : List Nat) :
    a.phaseGlobal.elem s off = - a.elem s off := by
  have := elem_of_phase (a := a) (a' := a.phaseGlobal) rfl s (σ := -1) (Or.inr rfl) h.phases
    (fun hs => by rw [(phaseGlobal_phases a h).2 s, if_pos hs]) off
  rwa [sgnI_neg_one] at this

/-! ### `phase_sector` -/

theorem phaseSector_phases (a : Arr R) (s0 : Sector) (h : SignOk a) :
    PhOk (a.phaseSector s0).phases ∧ ∀ s, phOf (a.phaseSector s0).phases s
      = (if s0 = s then -1 else 1) * phOf a.phases s := by
  unfold Arr.phaseSector
  have hs := storeG_spec h.phases s0 (neg_pm (h.phases.phOf s0))
  refine ⟨hs.1, fun s => ?_⟩
  have := hs.2 s
  simp only [phOf, Arr.getPhase] at this ⊢
  refine this.trans ?_
  by_cases hh : s0 = s
  · subst hh; simp
  · simp [hh]

/-- **`phase_sector` on the value view**: exactly the named sector is negated -/
theorem phaseSector_elem [LawfulNeg R] (a : Arr R) (s0 : Sector) (h : SignOk a) (s : Sector)
    (off : List Nat) :
    (a.phaseSector s0).elem s off = sgnI (if s0 = s then -1 else 1) (a.elem s off) :=
  elem_of_phase (a := a) (a' := a.phaseSector s0) rfl s (by split <;> simp) h.phases
    (fun _ => (phaseSector_phases a s0 h).2 s) off

/-! ### `phase_sync` -/

/-- what `phase_sync` does to the block stored for sector `s` -/
def syncBlk (a : Arr R) (s : Sector) (b : Blk R) : Blk R :=
  if phOf a.phases s = -1 then b.negK else b

theorem phaseSync_blocks_eq (a : Arr R) :
    a.phaseSync.blocks = a.blocks.map (fun p => (p.1, syncBlk a p.1 p.2)) := by
  unfold Arr.phaseSync
  simp only
  apply List.map_congr_left
  rintro ⟨s, b⟩ _
  simp only [lookup_neg_one_iff, beq_iff_eq, syncBlk]
  split <;> rfl

theorem phaseSync_phases (a : Arr R) : a.phaseSync.phases = [] := rfl

theorem phaseSync_sectors (a : Arr R) : a.phaseSync.sectors = a.sectors := by
  unfold Arr.sectors
  rw [phaseSync_blocks_eq]
  exact akeys_map_val (syncBlk a) a.blocks

/-- **synchronising leaves the value unchanged** (no hypothesis on the array at all) -/
theorem phaseSync_elem [LawfulNeg R] (a : Arr R) (s : Sector) (off : List Nat) :
    a.phaseSync.elem s off = a.elem s off := by
  rw [elem_eq, elem_eq, phaseSync_blocks_eq, alookup_map_val (syncBlk a), phaseSync_phases]
  cases alookup a.blocks s with
  | none => rfl
  | some b =>
    simp only [Option.map_some, phOf, alookup, Option.getD_none, sgnI_one, syncBlk]
    by_cases hp : (alookup a.phases s).getD 1 = -1
    · simp only [hp, if_true, sgnI_neg_one]; exact Blk.get_negK b off
    · simp only [hp, if_false, sgnI]

/-- synchronising is idempotent: the second call changes nothing at all -/
theorem phaseSync_idem (a : Arr R) : a.phaseSync.phaseSync = a.phaseSync := by
  have : a.phaseSync.phaseSync.blocks = a.phaseSync.blocks := by
    rw [phaseSync_blocks_eq a.phaseSync]
    simp [syncBlk, phaseSync_phases, phOf, alookup]
  unfold Arr.phaseSync at this ⊢
  simp only at this ⊢
  rw [this]

theorem SignOk.phaseSync {a : Arr R} (h : SignOk a) : SignOk a.phaseSync :=
  ⟨by rw [phaseSync_sectors]; exact h.sectors, PhOk.nil⟩

theorem SignOk.phaseFlip [LawfulNeg R] {a : Arr R} (h : SignOk a) (axs : List Nat) :
    SignOk (a.phaseFlip axs) :=
  ⟨by unfold Arr.sectors; rw [phaseFlip_blocks]; exact h.sectors, (phaseFlip_phases a axs h).1⟩

theorem SignOk.phaseTranspose {a : Arr R} (h : SignOk a) (axes : Option (List Nat)) :
    SignOk (a.phaseTranspose axes) :=
  ⟨h.sectors, (phaseTranspose_phases a axes h).1⟩

theorem SignOk.phaseGlobal {a : Arr R} (h : SignOk a) : SignOk a.phaseGlobal :=
  ⟨h.sectors, (phaseGlobal_phases a h).1⟩

theorem SignOk.phaseSector {a : Arr R} (h : SignOk a) (s0 : Sector) : SignOk (a.phaseSector s0) :=
  ⟨h.sectors, (phaseSector_phases a s0 h).1⟩


/-! ### elementwise maps: negation, scalar multiplication, conjugation of the stored data -/

/-- apply `f` to every stored number (`-x`, `x * c`, `x.conj()` are instances; the driver's
    `neg` is `mapVals (- ·)`, `smul c` is `mapVals (· * c)`) -/
def mapVals (f : R → R) (a : Arr R) : Arr R :=
  { a with blocks := a.blocks.map (fun p => (p.1, p.2.map f)) }

theorem mapVals_elem [LawfulNeg R] (f : R → R) (hf0 : f 0 = 0) (hfn : ∀ x, f (-x) = - f x)
    (a : Arr R) (s : Sector) (off : List Nat) :
    (mapVals f a).elem s off = f (a.elem s off) := by
  rw [elem_eq, elem_eq]
  show (match alookup (a.blocks.map (fun p => (p.1, (fun _ b => Blk.map f b) p.1 p.2))) s with
      | none => 0
      | some b => sgnI (phOf a.phases s) (b.get off)) = _
  rw [alookup_map_val (fun _ b => Blk.map f b)]
  cases alookup a.blocks s with
  | none => exact hf0.symm
  | some b =>
    simp only [Option.map_some, Blk.get_map f hf0]
    unfold sgnI; split
    · exact (hfn _).symm
    · rfl

theorem mapVals_sectors (f : R → R) (a : Arr R) : (mapVals f a).sectors = a.sectors :=
  akeys_map_val (fun _ b => Blk.map f b) a.blocks

theorem SignOk.mapVals {a : Arr R} (h : SignOk a) (f : R → R) : SignOk (mapVals f a) :=
  ⟨by rw [mapVals_sectors]; exact h.sectors, h.phases⟩

/-- the driver's `neg` (`-x` on a fermionic or abelian array) -/
def negA (a : Arr R) : Arr R := { a with blocks := a.blocks.map (fun (k, b) => (k, b.negK)) }

theorem negA_eq (a : Arr R) : negA a = mapVals (fun x => -x) a := rfl

theorem negA_elem [LawfulNeg R] (a : Arr R) (s : Sector) (off : List Nat) :
    (negA a).elem s off = - a.elem s off :=
  mapVals_elem (fun x => -x) LawfulNeg.neg_zero (fun _ => rfl) a s off

/-! ### `conj` -/

section conj
variable [Conj R]

/-- the block / index / charge / label part of `FermionicArray.conj` -/
def conjCore (x : Arr R) : Arr R :=
  { x with blocks := x.blocks.map (fun (s, b) => (s, b.conjK)),
           indices := x.indices.map Index.conj,
           charge := x.sym.sign x.charge true,
           oddpos := Arr.oddposDag x.oddpos }

/-- the axes `conj(phase_dual=True)` flips: the bra-like (dual) legs of the input -/
def axsConj (a : Arr R) : List Nat :=
  (((a.indices.map Index.conj).zipIdx.filter (fun p => !p.1.dual)).map (·.2))

def dualOdd (a : Arr R) (s : Sector) : Bool :=
  ((axsConj a).filter (fun ax => (a.parities s).getD ax false)).length % 2 == 1

/-- the pending-sign table `conj` computes before the odd-parity global sign -/
def conjPhases (a : Arr R) (pp pd : Bool) : List (Sector × Int) :=
  if pp || pd then
    a.sectors.foldl (fun ph s =>
      let par := a.parities s
      let p0 := (alookup ph s).getD 1
      let p1 := if pp then p0 * koszul par none else p0
      let p2 := if pd && ((axsConj a).filter (fun ax => par.getD ax false)).length % 2 == 1
                then -p1 else p1
      Arr.setPhase ph s p2) a.phases
  else a.phases

/-- whether `conj` adds the global sign of an odd-parity array -/
def conjGlob (a : Arr R) (pp : Bool) : Bool :=
  pp && a.sym.parity (a.sym.sign a.charge true) && (Arr.oddposDag a.oddpos).length % 2 == 1

theorem conjF_eq (a : Arr R) (pp pd : Bool) :
    a.conjF pp pd =
      if conjGlob a pp then (conjCore { a with phases := conjPhases a pp pd }).phaseGlobal
      else conjCore { a with phases := conjPhases a pp pd } := rfl

/-- the sector sign of `conj` before the global sign: reversal sign (`phase_permutation`) times
    the dual-leg sign (`phase_dual`) -/
def conjSign (a : Arr R) (pp pd : Bool) (s : Sector) : Int :=
  (if pd && dualOdd a s then -1 else 1) * (if pp then koszul (a.parities s) none else 1)

theorem conjSign_pm (a : Arr R) (pp pd : Bool) (s : Sector) :
    conjSign a pp pd s = 1 ∨ conjSign a pp pd s = -1 := by
  unfold conjSign
  apply mul_pm
  · split <;> simp
  · split
    · exact koszul_pm _ _
    · left; rfl

theorem conjPhases_spec (a : Arr R) (pp pd : Bool) (h : SignOk a) :
    PhOk (conjPhases a pp pd) ∧ ∀ s, phOf (conjPhases a pp pd) s
      = if s ∈ a.sectors then conjSign a pp pd s * phOf a.phases s else phOf a.phases s := by
  unfold conjPhases
  split
  · refine fold_phOf _ (fun s p => conjSign a pp pd s * p) (fun ph s hph => ?_) a.sectors
      h.sectors a.phases h.phases
    have key : (if (pd && ((axsConj a).filter (fun ax => (a.parities s).getD ax false)).length % 2 == 1) = true
                then -(if pp = true then phOf ph s * koszul (a.parities s) none else phOf ph s)
                else (if pp = true then phOf ph s * koszul (a.parities s) none else phOf ph s))
              = conjSign a pp pd s * phOf ph s := by
      unfold conjSign dualOdd
      split <;> split <;> simp [Int.mul_comm, Int.neg_mul]
    have hpm : conjSign a pp pd s * phOf ph s = 1 ∨ conjSign a pp pd s * phOf ph s = -1 :=
      mul_pm (conjSign_pm a pp pd s) (hph.phOf s)
    have hs := setPhase_spec hph s hpm
    rw [← key] at hs
    exact ⟨hs.1, fun s' => (hs.2 s').trans (by rw [key])⟩
  · rename_i hpp
    have : pp = false ∧ pd = false := by simpa using hpp
    obtain ⟨rfl, rfl⟩ := this
    refine ⟨h.phases, fun s => ?_⟩
    simp [conjSign]

theorem conjCore_elem [LawfulNegConj R] (x : Arr R) (s : Sector) (off : List Nat) :
    (conjCore x).elem s off = Conj.conj (x.elem s off) :=
  mapVals_elem (a := x) Conj.conj LawfulNegConj.conj_zero LawfulNegConj.conj_neg s off

theorem conjCore_sectors (x : Arr R) : (conjCore x).sectors = x.sectors :=
  mapVals_sectors Conj.conj x

/-- the complete sector sign of `conj` -/
def conjTotSign (a : Arr R) (pp pd : Bool) (s : Sector) : Int :=
  (if conjGlob a pp then -1 else 1) * conjSign a pp pd s

theorem conjTotSign_pm (a : Arr R) (pp pd : Bool) (s : Sector) :
    conjTotSign a pp pd s = 1 ∨ conjTotSign a pp pd s = -1 :=
  mul_pm (by split <;> simp) (conjSign_pm a pp pd s)

theorem SignOk.conjPre {a : Arr R} (h : SignOk a) (pp pd : Bool) :
    SignOk (conjCore { a with phases := conjPhases a pp pd }) :=
  ⟨by rw [conjCore_sectors]; exact h.sectors, (conjPhases_spec a pp pd h).1⟩

theorem SignOk.conjF {a : Arr R} (h : SignOk a) (pp pd : Bool) : SignOk (a.conjF pp pd) := by
  rw [conjF_eq]; split
  · exact (h.conjPre pp pd).phaseGlobal
  · exact h.conjPre pp pd

/-- **`conj` on the value view**: every element of sector `s` is conjugated and multiplied by
    the explicit sign `conjTotSign` — independently of the signs that were pending -/
theorem conjF_elem [LawfulNegConj R] (a : Arr R) (pp pd : Bool) (h : SignOk a) (s : Sector)
    (off : List Nat) :
    (a.conjF pp pd).elem s off = sgnI (conjTotSign a pp pd s) (Conj.conj (a.elem s off)) := by
  have h1 : ({ a with phases := conjPhases a pp pd } : Arr R).elem s off
      = sgnI (conjSign a pp pd s) (a.elem s off) :=
    elem_of_phase (a := a) (a' := { a with phases := conjPhases a pp pd }) rfl s
      (conjSign_pm a pp pd s) h.phases
      (fun hs => by rw [(conjPhases_spec a pp pd h).2 s, if_pos hs]) off
  have h2 : (conjCore { a with phases := conjPhases a pp pd }).elem s off
      = sgnI (conjSign a pp pd s) (Conj.conj (a.elem s off)) := by
    rw [conjCore_elem, h1, sgnI_conj]
  rw [conjF_eq]; unfold conjTotSign
  split
  · rw [phaseGlobal_elem _ (h.conjPre pp pd), h2, sgnI_mul (Or.inr rfl) (conjSign_pm a pp pd s),
      sgnI_neg_one]
  · rw [h2, Int.one_mul]

end conj


/-! ## observational equality -/

/-- the shape skeleton: stored sectors in dict order with the shapes of their blocks -/
def skel (a : Arr R) : List (Sector × List Nat) := a.blocks.map (fun p => (p.1, p.2.shape))

theorem skel_sectors (a : Arr R) : (skel a).map (·.1) = a.sectors := by
  simp [skel, Arr.sectors, List.map_map, Function.comp_def]

/-- **Observational equality**: everything one can read off an array through its value view
    agrees — symmetry, kind, indices, total charge, odd-position labels, the stored sectors (in
    dict order) with their block shapes, and the value `elem s off` (stored number times pending
    sign, zero for a missing sector) at every address.  The pending-sign tables and the stored
    numbers themselves may differ. -/
structure ObsEq (a b : Arr R) : Prop where
  sym : a.sym = b.sym
  fermi : a.fermi = b.fermi
  indices : a.indices = b.indices
  charge : a.charge = b.charge
  oddpos : a.oddpos = b.oddpos
  skel : skel a = skel b
  elem : ∀ s off, a.elem s off = b.elem s off

theorem ObsEq.refl (a : Arr R) : ObsEq a a := ⟨rfl, rfl, rfl, rfl, rfl, rfl, fun _ _ => rfl⟩
theorem ObsEq.symm {a b : Arr R} (h : ObsEq a b) : ObsEq b a :=
  ⟨h.sym.symm, h.fermi.symm, h.indices.symm, h.charge.symm, h.oddpos.symm, h.skel.symm,
   fun s off => (h.elem s off).symm⟩
theorem ObsEq.trans {a b c : Arr R} (h : ObsEq a b) (h' : ObsEq b c) : ObsEq a c :=
  ⟨h.sym.trans h'.sym, h.fermi.trans h'.fermi, h.indices.trans h'.indices,
   h.charge.trans h'.charge, h.oddpos.trans h'.oddpos, h.skel.trans h'.skel,
   fun s off => (h.elem s off).trans (h'.elem s off)⟩

theorem ObsEq.sectors {a b : Arr R} (h : ObsEq a b) : a.sectors = b.sectors := by
  rw [← skel_sectors, ← skel_sectors, h.skel]

theorem ObsEq.parities {a b : Arr R} (h : ObsEq a b) (s : Sector) : a.parities s = b.parities s := by
  unfold Arr.parities; rw [h.sym]

/-- `x` differs from `a` at most in the pending-sign table -/
def SameFrame (x a : Arr R) : Prop :=
  x.sym = a.sym ∧ x.fermi = a.fermi ∧ x.indices = a.indices ∧ x.charge = a.charge
    ∧ x.oddpos = a.oddpos ∧ x.blocks = a.blocks

theorem ObsEq.of_frames {a a' x x' : Arr R} (h : ObsEq a a') (hx : SameFrame x a)
    (hx' : SameFrame x' a') (he : ∀ s off, x.elem s off = x'.elem s off) : ObsEq x x' := by
  obtain ⟨h1, h2, h3, h4, h5, h6⟩ := hx
  obtain ⟨g1, g2, g3, g4, g5, g6⟩ := hx'
  refine ⟨by rw [h1, g1, h.sym], by rw [h2, g2, h.fermi], by rw [h3, g3, h.indices],
    by rw [h4, g4, h.charge], by rw [h5, g5, h.oddpos], ?_, he⟩
  have := h.skel
  unfold Lazy.skel at this ⊢
  rw [h6, g6, this]

theorem phaseFlip_frame (a : Arr R) (axs : List Nat) : SameFrame (a.phaseFlip axs) a := by
  unfold Arr.phaseFlip; split <;> exact ⟨rfl, rfl, rfl, rfl, rfl, rfl⟩

theorem skel_map_val (F : Sector → Blk R → Blk R) (hF : ∀ s b, (F s b).shape = b.shape)
    (l : List (Sector × Blk R)) :
    (l.map (fun p => (p.1, F p.1 p.2))).map (fun p => (p.1, p.2.shape))
      = l.map (fun p => (p.1, p.2.shape)) := by
  simp [List.map_map, Function.comp_def, hF]

/-- **`ObsEq (phaseSync a) a`** -/
theorem phaseSync_obsEq [LawfulNeg R] (a : Arr R) : ObsEq a.phaseSync a := by
  refine ⟨rfl, rfl, rfl, rfl, rfl, ?_, phaseSync_elem a⟩
  unfold skel
  rw [phaseSync_blocks_eq]
  exact skel_map_val (syncBlk a) (fun s b => by unfold syncBlk; split <;> rfl) a.blocks

theorem phaseFlip_congr [LawfulNeg R] {a a' : Arr R} (h : ObsEq a a') (ha : SignOk a)
    (ha' : SignOk a') (axs : List Nat) : ObsEq (a.phaseFlip axs) (a'.phaseFlip axs) :=
  h.of_frames (phaseFlip_frame a axs) (phaseFlip_frame a' axs) (fun s off => by
    rw [phaseFlip_elem a axs ha, phaseFlip_elem a' axs ha', h.sym, h.elem])

theorem phaseTranspose_congr [LawfulNeg R] {a a' : Arr R} (h : ObsEq a a') (ha : SignOk a)
    (ha' : SignOk a') (axes : Option (List Nat)) :
    ObsEq (a.phaseTranspose axes) (a'.phaseTranspose axes) :=
  h.of_frames ⟨rfl, rfl, rfl, rfl, rfl, rfl⟩ ⟨rfl, rfl, rfl, rfl, rfl, rfl⟩ (fun s off => by
    rw [phaseTranspose_elem a axes ha, phaseTranspose_elem a' axes ha', h.parities, h.elem])

theorem phaseGlobal_congr [LawfulNeg R] {a a' : Arr R} (h : ObsEq a a') (ha : SignOk a)
    (ha' : SignOk a') : ObsEq a.phaseGlobal a'.phaseGlobal :=
  h.of_frames ⟨rfl, rfl, rfl, rfl, rfl, rfl⟩ ⟨rfl, rfl, rfl, rfl, rfl, rfl⟩ (fun s off => by
    rw [phaseGlobal_elem a ha, phaseGlobal_elem a' ha', h.elem])

theorem phaseSector_congr [LawfulNeg R] {a a' : Arr R} (h : ObsEq a a') (ha : SignOk a)
    (ha' : SignOk a') (s0 : Sector) : ObsEq (a.phaseSector s0) (a'.phaseSector s0) :=
  h.of_frames ⟨rfl, rfl, rfl, rfl, rfl, rfl⟩ ⟨rfl, rfl, rfl, rfl, rfl, rfl⟩ (fun s off => by
    rw [phaseSector_elem a s0 ha, phaseSector_elem a' s0 ha', h.elem])

theorem phaseSync_congr [LawfulNeg R] {a a' : Arr R} (h : ObsEq a a') :
    ObsEq a.phaseSync a'.phaseSync :=
  ((phaseSync_obsEq a).trans h).trans (phaseSync_obsEq a').symm

theorem skel_mapVals (f : R → R) (a : Arr R) : skel (mapVals f a) = skel a :=
  skel_map_val (fun _ b => Blk.map f b) (fun _ _ => rfl) a.blocks

/-- congruence of every elementwise map that fixes zero and commutes with negation
    (`-x`, `x * c`, `x / c`, `conj x`) -/
theorem mapVals_congr [LawfulNeg R] (f : R → R) (hf0 : f 0 = 0) (hfn : ∀ x, f (-x) = - f x)
    {a a' : Arr R} (h : ObsEq a a') : ObsEq (mapVals f a) (mapVals f a') :=
  ⟨h.sym, h.fermi, h.indices, h.charge, h.oddpos, by rw [skel_mapVals, skel_mapVals, h.skel],
   fun s off => by rw [mapVals_elem f hf0 hfn, mapVals_elem f hf0 hfn, h.elem]⟩

theorem negA_congr [LawfulNeg R] {a a' : Arr R} (h : ObsEq a a') : ObsEq (negA a) (negA a') :=
  mapVals_congr (fun x => -x) LawfulNeg.neg_zero (fun _ => rfl) h

section conj
variable [Conj R]

theorem conjF_frame (a : Arr R) (pp pd : Bool) :
    (a.conjF pp pd).sym = a.sym ∧ (a.conjF pp pd).fermi = a.fermi
      ∧ (a.conjF pp pd).indices = a.indices.map Index.conj
      ∧ (a.conjF pp pd).charge = a.sym.sign a.charge true
      ∧ (a.conjF pp pd).oddpos = Arr.oddposDag a.oddpos
      ∧ skel (a.conjF pp pd) = skel a := by
  rw [conjF_eq]
  have : skel (conjCore { a with phases := conjPhases a pp pd }) = skel a :=
    skel_mapVals Conj.conj { a with phases := conjPhases a pp pd }
  split <;> exact ⟨rfl, rfl, rfl, rfl, rfl, this⟩

theorem axsConj_congr {a a' : Arr R} (h : ObsEq a a') : axsConj a = axsConj a' := by
  unfold axsConj; rw [h.indices]

theorem conjTotSign_congr {a a' : Arr R} (h : ObsEq a a') (pp pd : Bool) (s : Sector) :
    conjTotSign a pp pd s = conjTotSign a' pp pd s := by
  unfold conjTotSign conjGlob conjSign dualOdd
  rw [h.sym, h.charge, h.oddpos, h.parities, axsConj_congr h]

theorem conjF_congr [LawfulNegConj R] {a a' : Arr R} (h : ObsEq a a') (ha : SignOk a)
    (ha' : SignOk a') (pp pd : Bool) : ObsEq (a.conjF pp pd) (a'.conjF pp pd) := by
  obtain ⟨h1, h2, h3, h4, h5, h6⟩ := conjF_frame a pp pd
  obtain ⟨g1, g2, g3, g4, g5, g6⟩ := conjF_frame a' pp pd
  refine ⟨by rw [h1, g1, h.sym], by rw [h2, g2, h.fermi], by rw [h3, g3, h.indices],
    by rw [h4, g4, h.sym, h.charge], by rw [h5, g5, h.oddpos], by rw [h6, g6, h.skel], ?_⟩
  intro s off
  rw [conjF_elem a pp pd ha, conjF_elem a' pp pd ha', conjTotSign_congr h, h.elem]

end conj

/-! ## the dense value only depends on the value view -/

theorem toDenseA_congr {a b : Arr R} (h : ObsEq a b) : a.toDenseA = b.toDenseA := by
  unfold Arr.toDenseA Arr.shape
  rw [h.indices]
  simp only [Bool.false_eq_true, if_false, h.elem]

/-- `to_dense` of a fermionic array (which synchronises first) is the dense form of its value
    view: synchronising does not change it -/
theorem toDenseF_eq [LawfulNeg R] (a : Arr R) : a.toDenseF = a.toDenseA :=
  toDenseA_congr (phaseSync_obsEq a)

end elem

/-! ## involutions (C10) -/

theorem oddposDag_involutive (o : List (Int × Bool)) : Arr.oddposDag (Arr.oddposDag o) = o := by
  unfold Arr.oddposDag
  simp [List.map_reverse, List.map_map, Function.comp_def]

theorem oddposDag_length (o : List (Int × Bool)) : (Arr.oddposDag o).length = o.length := by
  simp [Arr.oddposDag]

mutual
  theorem Index.conj_conj : ∀ i : Index, i.conj.conj = i
    | .mk c d none => by simp [Index.conj]
    | .mk c d (some (subs, ext)) => by simp [Index.conj, Index.conjList_conjList subs]
  theorem Index.conjList_conjList : ∀ l : List Index, Index.conjList (Index.conjList l) = l
    | [] => rfl
    | i :: is => by simp [Index.conjList, Index.conj_conj i, Index.conjList_conjList is]
end

theorem Index.conj_dual (i : Index) : i.conj.dual = !i.dual := by
  cases i with
  | mk c d s => cases s with
    | none => rfl
    | some p => rfl

theorem Index.map_conj_conj (l : List Index) : (l.map Index.conj).map Index.conj = l := by
  simp [List.map_map, Function.comp_def, Index.conj_conj]

/-! ## canonical form: the synchronised copies of observationally equal arrays are *equal* -/

theorem ravel_unravel (s : List Nat) (n : Nat) (h : n < prod s) : ravel s (unravel s n) = n := by
  induction s generalizing n with
  | nil => simp [prod] at h; simp [ravel, h]
  | cons d ds ih =>
    simp only [prod] at h
    have hP : 0 < prod ds := by
      rcases Nat.eq_zero_or_pos (prod ds) with h0 | h0
      · rw [h0] at h; simp at h
      · exact h0
    simp only [unravel, ravel]
    rw [ih (n % prod ds) (Nat.mod_lt _ hP)]
    exact Nat.div_add_mod' n (prod ds)

section
variable {R : Type} [Zero R]

theorem Blk.ext_get {b b' : Blk R} (hs : b.shape = b'.shape) (hw : b.wf = true) (hw' : b'.wf = true)
    (h : ∀ off, b.get off = b'.get off) : b = b' := by
  obtain ⟨s, d⟩ := b
  obtain ⟨s', d'⟩ := b'
  simp only at hs; subst hs
  simp only [Blk.wf, beq_iff_eq] at hw hw'
  congr 1
  apply Array.ext (by rw [hw, hw'])
  intro i h1 h2
  have := h (unravel s i)
  simp only [Blk.get, ravel_unravel s i (hw ▸ h1)] at this
  simpa [Array.getD, h1, h2] using this

/-- value of a block dict at an address (no signs) -/
def rawGet (l : List (Sector × Blk R)) (s : Sector) (off : List Nat) : R :=
  match alookup l s with
  | none => 0
  | some b => b.get off

/-- block lists with the same skeleton, distinct keys, well-formed blocks and the same values
    are equal -/
theorem blocks_ext {l l' : List (Sector × Blk R)}
    (hk : l.map (fun p => (p.1, p.2.shape)) = l'.map (fun p => (p.1, p.2.shape)))
    (hn : (akeys l).Nodup) (hw : ∀ p ∈ l, p.2.wf = true) (hw' : ∀ p ∈ l', p.2.wf = true)
    (h : ∀ s off, rawGet l s off = rawGet l' s off) : l = l' := by
  induction l generalizing l' with
  | nil => cases l' with
    | nil => rfl
    | cons _ _ => simp at hk
  | cons p t ih =>
    cases l' with
    | nil => simp at hk
    | cons p' t' =>
      obtain ⟨k, b⟩ := p
      obtain ⟨k', b'⟩ := p'
      simp only [List.map_cons, List.cons.injEq, Prod.mk.injEq] at hk
      obtain ⟨⟨rfl, hsh⟩, hkt⟩ := hk
      simp only [akeys, List.map_cons, List.nodup_cons] at hn
      have hkeys : akeys t = akeys t' := by
        have := congrArg (List.map (·.1)) hkt
        simpa [akeys, List.map_map, Function.comp_def] using this
      have hb : b = b' := by
        apply Blk.ext_get hsh (hw _ List.mem_cons_self) (hw' _ List.mem_cons_self)
        intro off
        have := h k off
        simpa [rawGet, alookup] using this
      subst hb
      congr 1
      apply ih hkt hn.2 (fun p hp => hw p (List.mem_cons_of_mem _ hp))
        (fun p hp => hw' p (List.mem_cons_of_mem _ hp))
      intro s off
      by_cases hs : k = s
      · subst hs
        have h1 : k ∉ akeys t := hn.1
        have h2 : k ∉ akeys t' := hkeys ▸ h1
        simp [rawGet, alookup_eq_none h1, alookup_eq_none h2]
      · have := h s off
        have hne : (k == s) = false := by simpa using hs
        simpa [rawGet, alookup, hne] using this

/-- every stored block has exactly `prod shape` entries (a clause of `Arr.validB`) -/
def BlocksWf (a : Arr R) : Prop := ∀ p ∈ a.blocks, p.2.wf = true

theorem BlocksWf.of_valid {a : Arr R} (h : a.validB = true) : BlocksWf a := by
  unfold Arr.validB at h
  simp only [Bool.and_eq_true] at h
  obtain ⟨⟨⟨_, _⟩, hb⟩, _⟩ := h
  intro p hp
  have := List.all_eq_true.mp hb p hp
  simp only [Bool.and_eq_true] at this
  exact this.2

theorem arr_ext {a b : Arr R} (h1 : a.sym = b.sym) (h2 : a.fermi = b.fermi)
    (h3 : a.indices = b.indices) (h4 : a.charge = b.charge) (h5 : a.blocks = b.blocks)
    (h6 : a.phases = b.phases) (h7 : a.oddpos = b.oddpos) : a = b := by
  cases a; cases b; simp_all

variable [Neg R]

theorem elem_eq_rawGet [LawfulNeg R] {a : Arr R} (h : a.phases = []) (s : Sector) (off : List Nat) :
    a.elem s off = rawGet a.blocks s off := by
  rw [elem_eq, h]; unfold rawGet
  cases alookup a.blocks s with
  | none => rfl
  | some b => simp [phOf, alookup]

theorem BlocksWf.phaseSync {a : Arr R} (h : BlocksWf a) : BlocksWf a.phaseSync := by
  intro p hp
  rw [phaseSync_blocks_eq] at hp
  obtain ⟨q, hq, rfl⟩ := List.mem_map.mp hp
  have := h q hq
  simp only [syncBlk]
  split
  · simpa [Blk.wf, Blk.negK, Blk.map] using this
  · exact this

/-- **Canonical form.**  If two arrays with distinct sectors and well-formed blocks are
    observationally equal, their synchronised copies are equal as data.  Hence *every*
    operation that synchronises its operand first (`fuse`, `unfuse`, `tensordot`, `@`, `trace`,
    `einsum`, `to_dense`, binary blockwise arithmetic, …) returns identical results on them. -/
theorem phaseSync_eq_of_obsEq [LawfulNeg R] {a a' : Arr R} (h : ObsEq a a')
    (hs : a.sectors.Nodup) (hw : BlocksWf a) (hw' : BlocksWf a') :
    a.phaseSync = a'.phaseSync := by
  have h2 : ObsEq a.phaseSync a'.phaseSync := phaseSync_congr h
  refine arr_ext h.sym h.fermi h.indices h.charge ?_ rfl h.oddpos
  refine blocks_ext h2.skel ?_ hw.phaseSync hw'.phaseSync (fun s off => ?_)
  · show a.phaseSync.sectors.Nodup
    rw [phaseSync_sectors]; exact hs
  · rw [← elem_eq_rawGet (a := a.phaseSync) rfl, ← elem_eq_rawGet (a := a'.phaseSync) rfl]
    exact h2.elem s off

end

/-! ## `adict`, key maps -/
section alist2
variable {κ β : Type} [BEq κ] [LawfulBEq κ]

theorem ainsert_of_not_mem {l : List (κ × β)} {k : κ} (h : k ∉ akeys l) (v : β) :
    ainsert l k v = l ++ [(k, v)] := by
  induction l with
  | nil => rfl
  | cons p l ih =>
    obtain ⟨k1, v1⟩ := p
    simp only [akeys, List.map_cons, List.mem_cons, not_or] at h ih
    rw [ainsert_cons]
    have : (k1 == k) = false := by
      rw [Bool.eq_false_iff]; intro hh; exact h.1 (eq_of_beq hh).symm
    simp [this, ih h.2]

theorem foldl_ainsert_append (ps acc : List (κ × β)) (hn : (akeys (acc ++ ps)).Nodup) :
    ps.foldl (fun acc p => ainsert acc p.1 p.2) acc = acc ++ ps := by
  induction ps generalizing acc with
  | nil => simp
  | cons p ps ih =>
    simp only [List.foldl_cons]
    have hk : p.1 ∉ akeys acc := by
      simp only [akeys, List.map_append, List.map_cons] at hn
      have := (List.nodup_append.mp hn).2.2
      intro hin
      exact this _ hin _ List.mem_cons_self rfl
    rw [ainsert_of_not_mem hk, ih]
    · simp
    · simpa using hn

theorem adict_eq_self {l : List (κ × β)} (h : (akeys l).Nodup) : adict l = l := by
  unfold adict
  rw [foldl_ainsert_append l [] (by simpa using h)]; simp

theorem foldl_ainsert_nodup (ps acc : List (κ × β)) (hn : (akeys acc).Nodup) :
    (akeys (ps.foldl (fun acc p => ainsert acc p.1 p.2) acc)).Nodup := by
  induction ps generalizing acc with
  | nil => exact hn
  | cons p ps ih => exact ih _ (nodup_ainsert hn _ _)

theorem nodup_adict (l : List (κ × β)) : (akeys (adict l)).Nodup :=
  foldl_ainsert_nodup l [] List.nodup_nil

theorem foldl_ainsert_mem (ps acc : List (κ × β)) {q : κ × β}
    (h : q ∈ ps.foldl (fun acc p => ainsert acc p.1 p.2) acc) : q ∈ acc ∨ q ∈ ps := by
  induction ps generalizing acc with
  | nil => left; exact h
  | cons p ps ih =>
    rcases ih _ h with h | h
    · rcases mem_ainsert h with h | h
      · left; exact h
      · right; rw [h]; exact List.mem_cons_self
    · right; exact List.mem_cons_of_mem _ h

theorem mem_adict {l : List (κ × β)} {q : κ × β} (h : q ∈ adict l) : q ∈ l := by
  rcases foldl_ainsert_mem l [] h with h | h
  · simp at h
  · exact h

variable {κ' γ : Type} [BEq κ'] [LawfulBEq κ']

/-- lookup through a key map that is injective on the keys present (and the key asked for) -/
theorem alookup_map_inj (π : κ → κ') (F : β → γ) (l : List (κ × β)) (k : κ)
    (hinj : ∀ k1 ∈ akeys l, π k1 = π k → k1 = k) :
    alookup (l.map (fun p => (π p.1, F p.2))) (π k) = (alookup l k).map F := by
  induction l with
  | nil => rfl
  | cons p l ih =>
    obtain ⟨k1, v1⟩ := p
    simp only [akeys, List.map_cons, List.mem_cons, forall_eq_or_imp] at hinj ih
    simp only [List.map_cons]
    rw [alookup_cons, alookup_cons, ih hinj.2]
    by_cases h : k1 = k
    · subst h; simp
    · have h1 : (k1 == k) = false := by simpa using h
      have h2 : (π k1 == π k) = false := by
        rw [Bool.eq_false_iff]; intro hh; exact h (hinj.1 (eq_of_beq hh))
      simp [h1, h2]

theorem akeys_map_key (π : κ → κ') (F : β → γ) (l : List (κ × β)) :
    akeys (l.map (fun p => (π p.1, F p.2))) = (akeys l).map π := by
  simp [akeys, List.map_map, Function.comp_def]

end alist2

/-! ## `permuted` under a valid permutation argument -/

theorem permuted_getElem?_eq {α : Type} {s t : List α} (perm : List Nat) (hl : s.length = t.length)
    (h : permuted s perm = permuted t perm) : ∀ p ∈ perm, s[p]? = t[p]? := by
  induction perm with
  | nil => simp
  | cons p ps ih =>
    intro q hq
    unfold permuted at h ih
    simp only [List.filterMap_cons] at h
    by_cases hp : p < s.length
    · have hp' : p < t.length := hl ▸ hp
      simp only [List.getElem?_eq_getElem hp, List.getElem?_eq_getElem hp', List.cons.injEq] at h
      rcases List.mem_cons.mp hq with rfl | hq
      · simp [List.getElem?_eq_getElem hp, List.getElem?_eq_getElem hp', h.1]
      · exact ih h.2 q hq
    · have hp' : ¬ p < t.length := hl ▸ hp
      have e1 : s[p]? = none := List.getElem?_eq_none (by omega)
      have e2 : t[p]? = none := List.getElem?_eq_none (by omega)
      simp only [e1, e2] at h
      rcases List.mem_cons.mp hq with rfl | hq
      · rw [e1, e2]
      · exact ih h q hq

theorem isPerm_mem {perm : List Nat} {n : Nat} (h : Arr.isPerm perm n = true) :
    perm.length = n ∧ ∀ i < n, i ∈ perm := by
  unfold Arr.isPerm at h
  simp only [Bool.and_eq_true, beq_iff_eq, List.all_eq_true, List.mem_range,
    List.contains_eq_mem, decide_eq_true_eq] at h
  exact h

/-- `permuted · perm` is injective on lists of the permuted length -/
theorem permuted_inj {α : Type} {s t : List α} {perm : List Nat} {n : Nat}
    (hp : Arr.isPerm perm n = true) (hs : s.length = n) (ht : t.length = n)
    (h : permuted s perm = permuted t perm) : s = t := by
  apply List.ext_getElem? 
  intro i
  by_cases hi : i < n
  · exact permuted_getElem?_eq perm (hs.trans ht.symm) h i ((isPerm_mem hp).2 i hi)
  · rw [List.getElem?_eq_none (by omega), List.getElem?_eq_none (by omega)]

theorem permuted_length_eq {α β : Type} (s : List α) (t : List β) (perm : List Nat)
    (h : s.length = t.length) : (permuted s perm).length = (permuted t perm).length := by
  induction perm with
  | nil => rfl
  | cons p ps ih =>
    unfold permuted at ih ⊢
    simp only [List.filterMap_cons]
    by_cases hp : p < s.length
    · have hp' : p < t.length := h ▸ hp
      simp [List.getElem?_eq_getElem hp, List.getElem?_eq_getElem hp', ih]
    · have hp' : ¬ p < t.length := h ▸ hp
      have e1 : s[p]? = none := List.getElem?_eq_none (by omega)
      have e2 : t[p]? = none := List.getElem?_eq_none (by omega)
      simp [e1, e2, ih]

/-! ## tabulated blocks -/
section ofFn
variable {R : Type} [Zero R]

/-- the multi-index of the box `s` that has the flat position of `off`
    (`some off` when `off` lies in the box) -/
def boxIdx (s : List Nat) (off : List Nat) : Option (List Nat) := (allIdx s)[ravel s off]?

theorem get_ofFn (s : List Nat) (g : List Nat → R) (off : List Nat) :
    (Blk.ofFn s g).get off = match boxIdx s off with
      | some i => g i
      | none => 0 := by
  unfold Blk.get Blk.ofFn boxIdx
  simp only [Array.getD_eq_getD_getElem?, List.getElem?_toArray, List.getElem?_map]
  cases (allIdx s)[ravel s off]? <;> rfl

theorem allIdx_length (s : List Nat) : (allIdx s).length = prod s := by
  induction s with
  | nil => rfl
  | cons d ds ih =>
    simp only [allIdx, prod, List.length_flatMap, List.length_map, ih]
    simp

theorem ofFn_wf (s : List Nat) (g : List Nat → R) : (Blk.ofFn s g).wf = true := by
  simp [Blk.wf, Blk.ofFn, allIdx_length]

/-- source multi-index of `np.transpose`: new axis `k` is old axis `perm[k]` -/
def srcIdx (n : Nat) (perm : List Nat) (i : List Nat) : List Nat :=
  (List.range n).map (fun ax => match indexOf? perm ax with
    | some k => i.getD k 0
    | none => 0)

theorem transposeK_eq (b : Blk R) (perm : List Nat) :
    b.transposeK perm = Blk.ofFn (permuted b.shape perm) (fun i => b.get (srcIdx b.shape.length perm i)) := rfl

theorem transposeK_get (b : Blk R) (perm : List Nat) (off : List Nat) :
    (b.transposeK perm).get off = match boxIdx (permuted b.shape perm) off with
      | some i => b.get (srcIdx b.shape.length perm i)
      | none => 0 := by
  rw [transposeK_eq, get_ofFn]

end ofFn
/-! ## `FermionicArray.transpose` -/
section transpose
variable {R : Type} [Zero R] [Neg R]

/-- every stored sector has one charge per index (a clause of `Arr.validB`) -/
def SecLen (a : Arr R) : Prop := ∀ s ∈ a.sectors, s.length = a.ndim

theorem SecLen.of_valid {a : Arr R} (h : a.validB = true) : SecLen a := by
  unfold Arr.validB at h
  simp only [Bool.and_eq_true] at h
  obtain ⟨⟨⟨_, _⟩, hb⟩, _⟩ := h
  intro s hs
  obtain ⟨p, hp, rfl⟩ := List.mem_map.mp hs
  have := List.all_eq_true.mp hb p hp
  simp only [Bool.and_eq_true, beq_iff_eq] at this
  exact this.1.1.1

/-- the sectors `transpose` records a `-1` for -/
def trNeg (a : Arr R) (axes : List Nat) (s : Sector) : Bool :=
  a.getPhase s * koszul (a.parities s) (some axes) == -1

theorem filterMap_ite {α β : Type} (c : α → Bool) (f : α → β) (l : List α) :
    l.filterMap (fun x => if c x then some (f x) else none) = (l.filter c).map f := by
  induction l with
  | nil => rfl
  | cons x l ih => by_cases h : c x <;> simp [h, ih]

theorem transposeF_eq (a : Arr R) (axes : List Nat) :
    a.transposeF axes =
      { a with phases := adict ((a.sectors.filter (trNeg a axes)).map
                  (fun s => (permuted s axes, (-1 : Int)))),
               indices := permuted a.indices axes,
               blocks := adict (a.blocks.map (fun p => (permuted p.1 axes, p.2.transposeK axes))) } := by
  unfold Arr.transposeF Arr.transposeA
  simp only [if_true]
  rw [← filterMap_ite]
  rfl

theorem alookup_const_map {κ β : Type} [BEq κ] [LawfulBEq κ] (L : List κ) (v : β) (k : κ) :
    alookup (L.map (fun s => (s, v))) k = if k ∈ L then some v else none := by
  induction L with
  | nil => rfl
  | cons x L ih =>
    simp only [List.map_cons, List.mem_cons]
    rw [alookup_cons, ih]
    by_cases h : x = k
    · subst h; simp
    · have h1 : (x == k) = false := by simpa using h
      have h2 : k ≠ x := fun hh => h hh.symm
      simp [h1, h2]

/-- the hypotheses of the transposition laws: the invariants, sector lengths, a valid `axes` -/
structure TrOk (a : Arr R) (axes : List Nat) : Prop where
  sign : SignOk a
  len : SecLen a
  perm : Arr.isPerm axes a.ndim = true

theorem TrOk.inj {a : Arr R} {axes : List Nat} (h : TrOk a axes) {k s : Sector}
    (hk : k ∈ a.sectors) (hs : s.length = a.ndim) (he : permuted k axes = permuted s axes) : k = s :=
  permuted_inj h.perm (h.len k hk) hs he

theorem TrOk.nodup_keys {a : Arr R} {axes : List Nat} (h : TrOk a axes) :
    (a.sectors.map (fun s => permuted s axes)).Nodup :=
  List.Nodup.map_on (fun _ hx y hy e => h.inj hx (h.len y hy) e) h.sign.sectors

theorem transposeF_blocks {a : Arr R} {axes : List Nat} (h : TrOk a axes) :
    (a.transposeF axes).blocks
      = a.blocks.map (fun p => (permuted p.1 axes, p.2.transposeK axes)) := by
  rw [transposeF_eq]
  apply adict_eq_self
  rw [akeys_map_key (fun s : Sector => permuted s axes) (fun b : Blk R => b.transposeK axes)]
  exact h.nodup_keys

theorem transposeF_phases {a : Arr R} {axes : List Nat} (h : TrOk a axes) :
    (a.transposeF axes).phases
      = (a.sectors.filter (trNeg a axes)).map (fun s => (permuted s axes, (-1 : Int))) := by
  rw [transposeF_eq]
  apply adict_eq_self
  have : akeys ((a.sectors.filter (trNeg a axes)).map (fun s => (permuted s axes, (-1 : Int))))
      = (a.sectors.filter (trNeg a axes)).map (fun s => permuted s axes) := by
    simp [akeys, List.map_map, Function.comp_def]
  rw [this]
  exact (h.nodup_keys).sublist (List.Sublist.map _ List.filter_sublist)

theorem transposeF_sectors {a : Arr R} {axes : List Nat} (h : TrOk a axes) :
    (a.transposeF axes).sectors = a.sectors.map (fun s => permuted s axes) := by
  unfold Arr.sectors
  rw [transposeF_blocks h]
  simp [List.map_map, Function.comp_def]

theorem transposeF_phOf {a : Arr R} {axes : List Nat} (h : TrOk a axes) {s : Sector}
    (hs : s ∈ a.sectors) :
    phOf (a.transposeF axes).phases (permuted s axes)
      = koszul (a.parities s) (some axes) * phOf a.phases s := by
  rw [transposeF_phases h]
  have e : (a.sectors.filter (trNeg a axes)).map (fun s => (permuted s axes, (-1 : Int)))
      = ((a.sectors.filter (trNeg a axes)).map (fun s => (s, (-1 : Int)))).map
          (fun p => (permuted p.1 axes, id p.2)) := by
    simp [List.map_map, Function.comp_def]
  unfold phOf
  rw [e, alookup_map_inj (fun s : Sector => permuted s axes) id _ s, alookup_const_map]
  · have hpm := mul_pm (koszul_pm (a.parities s) (some axes)) (h.sign.phases.phOf s)
    simp only [List.mem_filter, hs, true_and, trNeg, getPhase_eq, beq_iff_eq]
    change _ = koszul (a.parities s) (some axes) * phOf a.phases s
    rw [Int.mul_comm (phOf a.phases s)]
    split
    · rename_i hc; simp [hc]
    · rename_i hc
      rcases hpm with h1 | h1
      · simp [h1]
      · exact absurd h1 hc
  · intro k hk he
    have hk' : k ∈ a.sectors := by
      simp only [akeys, List.map_map, Function.comp_def, List.map_id'] at hk
      exact (List.mem_filter.mp hk).1
    exact h.inj hk' (h.len s hs) he

/-- **`transpose` on the value view, block form**: the element of the transposed sector is the
    element of the transposed stored block times the pending sign of the source sector times the
    Koszul sign of the permutation -/
theorem transposeF_elem_block [LawfulNeg R] {a : Arr R} {axes : List Nat} (h : TrOk a axes)
    {s : Sector} {b : Blk R} (hb : alookup a.blocks s = some b) (off : List Nat) :
    (a.transposeF axes).elem (permuted s axes) off
      = sgnI (koszul (a.parities s) (some axes))
          (sgnI (a.getPhase s) ((b.transposeK axes).get off)) := by
  have hs : s ∈ a.sectors := mem_sectors_of_lookup hb
  rw [elem_eq, transposeF_phOf h hs, transposeF_blocks h,
    alookup_map_inj (fun s : Sector => permuted s axes) (fun b : Blk R => b.transposeK axes) _ s
      (fun k hk he => h.inj hk (h.len s hs) he), hb]
  simp only [Option.map_some]
  rw [sgnI_mul (koszul_pm _ _) (h.sign.phases.phOf s)]
  rfl


theorem alookup_skel (a : Arr R) (s : Sector) :
    alookup (skel a) s = (alookup a.blocks s).map (·.shape) :=
  alookup_map_val (fun _ (b : Blk R) => b.shape) a.blocks s

/-- **`transpose` on the value view**: the value at the transposed address is the Koszul sign
    times the value of the source array at the source address (`srcIdx`: new axis `k` is old
    axis `axes[k]`); intrinsic form — only the value view and the shape skeleton of `a` occur -/
theorem transposeF_elem [LawfulNeg R] {a : Arr R} {axes : List Nat} (h : TrOk a axes)
    (s : Sector) (hs : s.length = a.ndim) (off : List Nat) :
    (a.transposeF axes).elem (permuted s axes) off
      = sgnI (koszul (a.parities s) (some axes))
          (match alookup (skel a) s with
           | none => 0
           | some shp => match boxIdx (permuted shp axes) off with
             | none => 0
             | some i => a.elem s (srcIdx shp.length axes i)) := by
  cases hb : alookup a.blocks s with
  | none =>
    rw [alookup_skel, hb, elem_eq, transposeF_blocks h,
      alookup_map_inj (fun s : Sector => permuted s axes) (fun b : Blk R => b.transposeK axes) _ s
        (fun k hk he => h.inj hk hs he), hb]
    exact (sgnI_zero _).symm
  | some b =>
    rw [transposeF_elem_block h hb, alookup_skel, hb, transposeK_get]
    simp only [Option.map_some]
    congr 1
    cases boxIdx (permuted b.shape axes) off with
    | none => exact sgnI_zero _
    | some i =>
      simp only
      rw [elem_eq, hb]; rfl

theorem transposeF_frame (a : Arr R) (axes : List Nat) :
    (a.transposeF axes).sym = a.sym ∧ (a.transposeF axes).fermi = a.fermi
      ∧ (a.transposeF axes).indices = permuted a.indices axes
      ∧ (a.transposeF axes).charge = a.charge ∧ (a.transposeF axes).oddpos = a.oddpos := by
  rw [transposeF_eq]; exact ⟨rfl, rfl, rfl, rfl, rfl⟩

theorem transposeF_skel {a : Arr R} {axes : List Nat} (h : TrOk a axes) :
    skel (a.transposeF axes) = (skel a).map (fun p => (permuted p.1 axes, permuted p.2 axes)) := by
  unfold skel
  rw [transposeF_blocks h]
  simp only [List.map_map, Function.comp_def]
  rfl

theorem TrOk.of_obsEq {a a' : Arr R} {axes : List Nat} (h : ObsEq a a') (ht : TrOk a axes)
    (hs : SignOk a') : TrOk a' axes :=
  ⟨hs, fun s hs' => by
      have := ht.len s (h.sectors ▸ hs')
      unfold Arr.ndim at this ⊢; rw [← h.indices]; exact this,
   by have := ht.perm; unfold Arr.ndim at this ⊢; rw [← h.indices]; exact this⟩

/-- congruence of `transpose` -/
theorem transposeF_congr [LawfulNeg R] {a a' : Arr R} {axes : List Nat} (h : ObsEq a a')
    (ht : TrOk a axes) (ht' : TrOk a' axes) :
    ObsEq (a.transposeF axes) (a'.transposeF axes) := by
  obtain ⟨h1, h2, h3, h4, h5⟩ := transposeF_frame a axes
  obtain ⟨g1, g2, g3, g4, g5⟩ := transposeF_frame a' axes
  refine ⟨by rw [h1, g1, h.sym], by rw [h2, g2, h.fermi], by rw [h3, g3, h.indices],
    by rw [h4, g4, h.charge], by rw [h5, g5, h.oddpos],
    by rw [transposeF_skel ht, transposeF_skel ht', h.skel], ?_⟩
  intro t off
  by_cases hm : t ∈ (a.transposeF axes).sectors
  · rw [transposeF_sectors ht] at hm
    obtain ⟨s, hs, rfl⟩ := List.mem_map.mp hm
    have hl := ht.len s hs
    have hl' : s.length = a'.ndim := ht'.len s (h.sectors ▸ hs)
    rw [transposeF_elem ht s hl, transposeF_elem ht' s hl', h.parities, h.skel]
    simp only [h.elem]
  · have hm' : t ∉ (a'.transposeF axes).sectors := by
      rw [transposeF_sectors ht', ← h.sectors, ← transposeF_sectors ht]; exact hm
    rw [elem_of_not_mem hm, elem_of_not_mem hm']

/-- the invariants hold for every transposed array -/
theorem SignOk.transposeF (a : Arr R) (axes : List Nat) : SignOk (a.transposeF axes) := by
  rw [transposeF_eq]
  refine ⟨nodup_adict _, nodup_adict _, fun p hp => ?_⟩
  obtain ⟨s, _, rfl⟩ := List.mem_map.mp (mem_adict hp)
  right; rfl

theorem BlocksWf.transposeF (a : Arr R) (axes : List Nat) : BlocksWf (a.transposeF axes) := by
  rw [transposeF_eq]
  intro p hp
  obtain ⟨q, _, rfl⟩ := List.mem_map.mp (mem_adict hp)
  exact ofFn_wf _ _

theorem SecLen.transposeF {a : Arr R} {axes : List Nat} (h : TrOk a axes) :
    SecLen (a.transposeF axes) := by
  intro t hm
  rw [transposeF_sectors h] at hm
  obtain ⟨s, hs, rfl⟩ := List.mem_map.mp hm
  unfold Arr.ndim
  rw [(transposeF_frame a axes).2.2.1]
  exact permuted_length_eq s a.indices axes (h.len s hs)

theorem SecLen.of_same {a x : Arr R} (h : SecLen a) (hs : x.sectors = a.sectors)
    (hn : x.ndim = a.ndim) : SecLen x := by
  intro s hm; rw [hn]; exact h s (hs ▸ hm)

/-- the invariants a program needs: `SignOk` and one charge per index in every stored sector
    (both are clauses of `Arr.validB`) -/
structure Inv (a : Arr R) : Prop where
  sign : SignOk a
  len : SecLen a

theorem Inv.of_valid {a : Arr R} (h : a.validB = true) (hf : a.fermi = true) : Inv a :=
  ⟨SignOk.of_valid h hf, SecLen.of_valid h⟩

end transpose
/-- negation and multiplication -/
class LawfulMulNeg (R : Type) [Zero R] [Neg R] [Mul R] : Prop extends LawfulNeg R where
  neg_mul : ∀ x y : R, (-x) * y = -(x * y)
  zero_mul : ∀ y : R, (0 : R) * y = 0

instance : LawfulMulNeg Int := { neg_mul := Int.neg_mul, zero_mul := Int.zero_mul }

instance : LawfulMulNeg GRat where
  neg_mul x y := by
    apply GRat.ext'
    · show (-x.re) * y.re - (-x.im) * y.im = -(x.re * y.re - x.im * y.im); ring
    · show (-x.re) * y.im + (-x.im) * y.re = -(x.re * y.im + x.im * y.re); ring
  zero_mul y := by
    apply GRat.ext'
    · show (0 : Rat) * y.re - 0 * y.im = 0; ring
    · show (0 : Rat) * y.im + 0 * y.re = 0; ring


theorem sgnI_mul_left {R : Type} [Zero R] [Neg R] [Mul R] [LawfulMulNeg R] (σ : Int) (x y : R) :
    sgnI σ (x * y) = sgnI σ x * y := by
  unfold sgnI; split
  · exact (LawfulMulNeg.neg_mul x y).symm
  · rfl

/-! ## `multiply_diagonal` -/
section mdiag
variable {κ β : Type} [BEq κ] [LawfulBEq κ]

/-- lookup after a `filterMap` that keeps or drops an entry according to its key only -/
theorem alookup_filterMap_key {ω γ : Type} (W : κ → Option ω) (H : κ → ω → β → γ)
    (l : List (κ × β)) (k : κ) :
    alookup (l.filterMap (fun p => (W p.1).map (fun w => (p.1, H p.1 w p.2)))) k
      = (W k).bind (fun w => (alookup l k).map (H k w)) := by
  induction l with
  | nil => cases W k <;> rfl
  | cons p l ih =>
    obtain ⟨k1, v1⟩ := p
    simp only [List.filterMap_cons]
    by_cases h : k1 = k
    · subst h
      cases hw : W k1 with
      | none => simp only [Option.map_none]; rw [ih, hw]; rfl
      | some w => simp [alookup_cons]
    · have h1 : (k1 == k) = false := by simpa using h
      cases hw : W k1 with
      | none => simp only [Option.map_none]; rw [ih, alookup_cons, h1]; rfl
      | some w => simp only [Option.map_some]; rw [alookup_cons, ih, alookup_cons]; simp [h1]

variable {R : Type} [Zero R] [Neg R] [Mul R]

theorem multiplyDiagonal_blocks (a : Arr R) (v : BVec R) (axis : Nat) :
    (multiplyDiagonal a v axis).blocks
      = a.blocks.filterMap (fun p => (alookup v.blocks (p.1.getD axis (0, 0))).map
          (fun vb => (p.1, (fun (_ : Sector) (vb b : Blk R) => b.mulAxisK vb axis) p.1 vb p.2))) := by
  unfold multiplyDiagonal
  simp only
  congr 1
  funext ⟨s, b⟩
  simp only
  cases alookup v.blocks (s.getD axis (0, 0)) <;> rfl

/-- **`multiply_diagonal` on the value view** (intrinsic form): the value at an address of a
    kept sector is the value of `a` times the vector entry; sectors whose charge on `axis` is
    missing from the vector are dropped.  Pending signs stay pending. -/
theorem multiplyDiagonal_elem [LawfulMulNeg R] (a : Arr R) (v : BVec R) (axis : Nat) (s : Sector)
    (off : List Nat) :
    (multiplyDiagonal a v axis).elem s off
      = match alookup v.blocks (s.getD axis (0, 0)) with
        | none => 0
        | some vb => match alookup (skel a) s with
          | none => 0
          | some shp => match boxIdx shp off with
            | none => 0
            | some i => a.elem s i * vb.get [i.getD axis 0] := by
  rw [elem_eq, multiplyDiagonal_blocks,
    alookup_filterMap_key (fun s : Sector => alookup v.blocks (s.getD axis (0, 0)))
      (fun (_ : Sector) (vb b : Blk R) => b.mulAxisK vb axis), alookup_skel]
  cases alookup v.blocks (s.getD axis (0, 0)) with
  | none => rfl
  | some vb =>
    simp only [Option.bind_some]
    cases hb : alookup a.blocks s with
    | none => rfl
    | some b =>
      simp only [Option.map_some]
      show sgnI (phOf a.phases s) ((Blk.ofFn b.shape (fun i => b.get i * vb.get [i.getD axis 0])).get off) = _
      rw [get_ofFn]
      cases boxIdx b.shape off with
      | none => exact sgnI_zero _
      | some i =>
        simp only
        rw [sgnI_mul_left, elem_eq, hb]

theorem multiplyDiagonal_skel (a : Arr R) (v : BVec R) (axis : Nat) :
    skel (multiplyDiagonal a v axis)
      = (skel a).filter (fun p => (alookup v.blocks (p.1.getD axis (0, 0))).isSome) := by
  unfold skel
  rw [multiplyDiagonal_blocks]
  induction a.blocks with
  | nil => rfl
  | cons p l ih =>
    simp only [List.filterMap_cons, List.map_cons, List.filter_cons]
    cases alookup v.blocks (p.1.getD axis (0, 0)) with
    | none => simpa using ih
    | some vb => simp only [Option.map_some, List.map_cons, Option.isSome_some, if_true, ih]; rfl

/-- congruence of `multiply_diagonal` (which does not synchronise) -/
theorem multiplyDiagonal_congr [LawfulMulNeg R] {a a' : Arr R} (h : ObsEq a a') (v : BVec R)
    (axis : Nat) : ObsEq (multiplyDiagonal a v axis) (multiplyDiagonal a' v axis) :=
  ⟨h.sym, h.fermi, h.indices, h.charge, h.oddpos,
   by rw [multiplyDiagonal_skel, multiplyDiagonal_skel, h.skel],
   fun s off => by
     rw [multiplyDiagonal_elem, multiplyDiagonal_elem, h.skel]; simp only [h.elem]⟩

end mdiag
/-! ## operations that synchronise first return *identical* results -/
section syncfirst
variable {R : Type} [Zero R] [Neg R]

/-- all clauses of `Arr.validB` used in this file -/
structure Full (a : Arr R) : Prop where
  sign : SignOk a
  len : SecLen a
  wf : BlocksWf a

theorem Full.of_valid {a : Arr R} (h : a.validB = true) (hf : a.fermi = true) : Full a :=
  ⟨SignOk.of_valid h hf, SecLen.of_valid h, BlocksWf.of_valid h⟩

theorem Full.inv {a : Arr R} (h : Full a) : Inv a := ⟨h.sign, h.len⟩

theorem Full.phaseFlip [LawfulNeg R] {a : Arr R} (h : Full a) (axs : List Nat) :
    Full (a.phaseFlip axs) :=
  ⟨h.sign.phaseFlip axs,
   h.len.of_same (by unfold Arr.sectors; rw [phaseFlip_blocks])
     (by unfold Arr.ndim; rw [(phaseFlip_frame a axs).2.2.1]),
   by unfold BlocksWf; rw [phaseFlip_blocks]; exact h.wf⟩

theorem Full.phaseTranspose {a : Arr R} (h : Full a) (axes : Option (List Nat)) :
    Full (a.phaseTranspose axes) :=
  ⟨h.sign.phaseTranspose axes, h.len.of_same rfl rfl, h.wf⟩

theorem Full.transposeF {a : Arr R} (h : Full a) {axes : List Nat}
    (hp : Arr.isPerm axes a.ndim = true) : Full (a.transposeF axes) :=
  ⟨SignOk.transposeF a axes, SecLen.transposeF ⟨h.sign, h.len, hp⟩, BlocksWf.transposeF a axes⟩

theorem Full.trOk {a : Arr R} (h : Full a) {axes : List Nat}
    (hp : Arr.isPerm axes a.ndim = true) : TrOk a axes := ⟨h.sign, h.len, hp⟩

/-- canonical form, bundled -/
theorem canon [LawfulNeg R] {a a' : Arr R} (h : ObsEq a a') (ha : Full a) (ha' : Full a') :
    a.phaseSync = a'.phaseSync :=
  phaseSync_eq_of_obsEq h ha.sign.sectors ha.wf ha'.wf

theorem ObsEq.ndim {a a' : Arr R} (h : ObsEq a a') : a.ndim = a'.ndim := by
  unfold Arr.ndim; rw [h.indices]

/-- binary blockwise arithmetic (`+`, `-`, `*`, `/` of two arrays; the fermionic
    `_binary_blockwise_op` synchronises both operands first): identical results, for every
    block function and every treatment of missing blocks -/
theorem binaryBlockwise_sync_congr [LawfulNeg R] {a a' b b' : Arr R} (ha : ObsEq a a')
    (hb : ObsEq b b') (fa : Full a) (fa' : Full a') (fb : Full b) (fb' : Full b')
    (fn : Blk R → Blk R → Blk R) (m : Missing) :
    binaryBlockwise fn m a.phaseSync.blocks b.phaseSync.blocks
      = binaryBlockwise fn m a'.phaseSync.blocks b'.phaseSync.blocks
    ∧ a.phaseSync = a'.phaseSync := by
  rw [canon ha fa fa', canon hb fb fb']; exact ⟨rfl, rfl⟩

theorem matmulF_congr [Add R] [Mul R] [LawfulNeg R] {a a' b b' : Arr R} (ha : ObsEq a a')
    (hb : ObsEq b b') (fa : Full a) (fa' : Full a') (fb : Full b) (fb' : Full b') :
    a.matmulF b = a'.matmulF b' := by
  unfold Arr.matmulF
  rw [ha.ndim, hb.ndim, hb.indices, canon ha fa fa']
  cases b'.indices[0]? with
  | none => rfl
  | some ix =>
    have : (if ix.dual = true then b.phaseFlip [0] else b).phaseSync
        = (if ix.dual = true then b'.phaseFlip [0] else b').phaseSync := by
      split
      · exact canon (phaseFlip_congr hb fb.sign fb'.sign [0]) (fb.phaseFlip [0]) (fb'.phaseFlip [0])
      · exact canon hb fb fb'
    simp only [pure_bind, this]

theorem traceF_congr [Add R] [LawfulNeg R] {a a' : Arr R} (ha : ObsEq a a')
    (fa : Full a) (fa' : Full a') : a.traceF = a'.traceF := by
  unfold Arr.traceF
  rw [ha.indices, canon ha fa fa',
    canon (phaseFlip_congr ha fa.sign fa'.sign [0]) (fa.phaseFlip [0]) (fa'.phaseFlip [0])]

theorem unfuseF_congr [LawfulNeg R] {a a' : Arr R} (ha : ObsEq a a')
    (fa : Full a) (fa' : Full a') (axis : Nat) : a.unfuseF axis = a'.unfuseF axis := by
  unfold Arr.unfuseF
  rw [ha.indices, canon ha fa fa', ha.ndim]



/-- the sign preparation of `tensordot_fermionic`: both operands transposed, signed and
    synchronised -/
def tdPrep (a b : Arr R) (axesA axesB : List Nat) : Arr R × Arr R :=
  let leftAxes := without (List.range a.ndim) axesA
  let rightAxes := without (List.range b.ndim) axesB
  let ncon := axesA.length
  let a1 := a.transposeF (leftAxes ++ axesA)
  let b1 := b.transposeF (axesB ++ rightAxes)
  let b2 := b1.phaseTranspose (some ((List.range ncon).reverse ++ (List.range b1.ndim).drop ncon))
  let newAxesA := (List.range a.ndim).drop (a.ndim - ncon)
  let newAxesB := List.range ncon
  let p : Arr R × Arr R :=
    if a1.size ≤ b2.size then
      (a1.phaseFlip (newAxesA.filter (fun ax => !(a1.indices.getD ax default).dual)), b2)
    else
      (a1, b2.phaseFlip (newAxesB.filter (fun ax => (b2.indices.getD ax default).dual)))
  (p.1.phaseSync, p.2.phaseSync)

theorem tensordotF_eq [Add R] [Mul R] (a b : Arr R) (axes : AxesArg) (mode : TdotMode) :
    a.tensordotF b axes mode = (do
      let (axesA, axesB) ← parseAxes a.ndim b.ndim axes
      let p := tdPrep a b axesA axesB
      let c ← tensordotA p.1 p.2
        (.pair (((List.range a.ndim).drop (a.ndim - axesA.length)).map Int.ofNat)
               ((List.range axesA.length).map Int.ofNat)) mode
      resolveCombinedOddpos p.1 p.2 c) := by
  rfl

theorem ObsEq.size {a a' : Arr R} (h : ObsEq a a') : a.size = a'.size := by
  unfold Arr.size Arr.shape; rw [h.indices]

theorem tdPrep_congr [LawfulNeg R] {a a' b b' : Arr R} (ha : ObsEq a a') (hb : ObsEq b b')
    (fa : Full a) (fa' : Full a') (fb : Full b) (fb' : Full b') (axesA axesB : List Nat)
    (g1 : Arr.isPerm (without (List.range a.ndim) axesA ++ axesA) a.ndim = true)
    (g2 : Arr.isPerm (axesB ++ without (List.range b.ndim) axesB) b.ndim = true) :
    tdPrep a b axesA axesB = tdPrep a' b' axesA axesB := by
  have g1' : Arr.isPerm (without (List.range a.ndim) axesA ++ axesA) a'.ndim = true := by
    rwa [← ha.ndim]
  have g2' : Arr.isPerm (axesB ++ without (List.range b.ndim) axesB) b'.ndim = true := by
    rwa [← hb.ndim]
  have A1 := transposeF_congr ha (fa.trOk g1) (fa'.trOk g1')
  have B1 := transposeF_congr hb (fb.trOk g2) (fb'.trOk g2')
  have FA1 := fa.transposeF g1
  have FA1' := fa'.transposeF g1'
  have FB1 := fb.transposeF g2
  have FB1' := fb'.transposeF g2'
  unfold tdPrep
  simp only [← ha.ndim, ← hb.ndim]
  generalize a.transposeF (without (List.range a.ndim) axesA ++ axesA) = a1 at *
  generalize a'.transposeF (without (List.range a.ndim) axesA ++ axesA) = a1' at *
  generalize b.transposeF (axesB ++ without (List.range b.ndim) axesB) = b1 at *
  generalize b'.transposeF (axesB ++ without (List.range b.ndim) axesB) = b1' at *
  rw [← B1.ndim]
  have B2 := phaseTranspose_congr B1 FB1.sign FB1'.sign
    (some ((List.range axesA.length).reverse ++ (List.range b1.ndim).drop axesA.length))
  have FB2 := FB1.phaseTranspose
    (some ((List.range axesA.length).reverse ++ (List.range b1.ndim).drop axesA.length))
  have FB2' := FB1'.phaseTranspose
    (some ((List.range axesA.length).reverse ++ (List.range b1.ndim).drop axesA.length))
  generalize b1.phaseTranspose
    (some ((List.range axesA.length).reverse ++ (List.range b1.ndim).drop axesA.length)) = b2 at *
  generalize b1'.phaseTranspose
    (some ((List.range axesA.length).reverse ++ (List.range b1.ndim).drop axesA.length)) = b2' at *
  rw [← A1.size, ← B2.size, ← A1.indices, ← B2.indices]
  split
  · simp only
    rw [canon (phaseFlip_congr A1 FA1.sign FA1'.sign _) (FA1.phaseFlip _) (FA1'.phaseFlip _),
      canon B2 FB2 FB2']
  · simp only
    rw [canon A1 FA1 FA1',
      canon (phaseFlip_congr B2 FB2.sign FB2'.sign _) (FB2.phaseFlip _) (FB2'.phaseFlip _)]

/-- **`tensordot` of fermionic arrays returns identical results on observationally equal
    operands** (arrays and their synchronised copies in particular).  Guard: the normalised
    contraction axes are distinct and in range, i.e. the two transpositions are permutations
    (Python raises otherwise). -/
theorem tensordotF_congr [Add R] [Mul R] [LawfulNeg R] {a a' b b' : Arr R} (ha : ObsEq a a')
    (hb : ObsEq b b') (fa : Full a) (fa' : Full a') (fb : Full b) (fb' : Full b')
    (axes : AxesArg) (mode : TdotMode)
    (hg : ∀ axesA axesB, parseAxes a.ndim b.ndim axes = .ok (axesA, axesB) →
      Arr.isPerm (without (List.range a.ndim) axesA ++ axesA) a.ndim = true
      ∧ Arr.isPerm (axesB ++ without (List.range b.ndim) axesB) b.ndim = true) :
    a.tensordotF b axes mode = a'.tensordotF b' axes mode := by
  rw [tensordotF_eq, tensordotF_eq, ← ha.ndim, ← hb.ndim]
  cases hpa : parseAxes a.ndim b.ndim axes with
  | error e => rfl
  | ok pr =>
    obtain ⟨axesA, axesB⟩ := pr
    obtain ⟨g1, g2⟩ := hg axesA axesB hpa
    have e := tdPrep_congr ha hb fa fa' fb fb' axesA axesB g1 g2
    have ok_bind : ∀ (f : List Nat × List Nat → Except Err (Arr R)),
        (Except.ok (axesA, axesB) >>= f) = f (axesA, axesB) := fun _ => rfl
    rw [ok_bind, ok_bind]
    simp only [e]

end syncfirst
/-! ## `conj ∘ conj` -/
section conjconj

theorem filter_and_add_not {α : Type} (p q : α → Bool) (l : List α) :
    (l.filter (fun x => p x && q x)).length + (l.filter (fun x => !p x && q x)).length
      = (l.filter q).length := by
  induction l with
  | nil => rfl
  | cons x l ih =>
    simp only [List.filter_cons]
    cases hp : p x <;> cases hq : q x <;> simp <;> omega

/-- number of listed positions with an odd charge, for positions selected by a predicate on the
    index at that position -/
theorem count_sel (idx : List Index) (P : Index → Bool) (q : Nat → Bool) :
    (((idx.zipIdx.filter (fun p => P p.1)).map (·.2)).filter q).length
      = (idx.zipIdx.filter (fun p => P p.1 && q p.2)).length := by
  rw [List.filter_map, List.length_map, List.filter_filter]
  congr 1
  apply List.filter_congr
  intro x _
  simp [Bool.and_comm]

theorem count_all (idx : List Index) (q : Nat → Bool) :
    (idx.zipIdx.filter (fun p => q p.2)).length = ((List.range idx.length).filter q).length := by
  have : (idx.zipIdx.filter (fun p => q p.2)).length
      = ((idx.zipIdx.map Prod.snd).filter q).length := by
    rw [List.filter_map, List.length_map]; rfl
  rw [this, List.zipIdx_map_snd, List.range_eq_range']

theorem count_range_getD (par : List Bool) :
    ((List.range par.length).filter (fun ax => par.getD ax false)).length
      = (par.filter id).length := by
  have h : par = (List.range par.length).map (fun i => par.getD i false) := by
    apply List.ext_getElem (by simp)
    intro i h1 h2
    simp [List.getD_eq_getElem?_getD, List.getElem?_eq_getElem h1]
  conv_rhs => rw [h, List.filter_map, List.length_map]
  rfl

theorem odd_count_eq_xor (par : List Bool) :
    ((par.filter id).length % 2 == 1) = par.foldr xor false := by
  induction par with
  | nil => rfl
  | cons b l ih =>
    cases b
    · simpa using ih
    · simp only [List.filter_cons, id, if_true, List.length_cons, List.foldr_cons, Bool.true_xor]
      rw [← ih]
      rcases Nat.mod_two_eq_zero_or_one (List.filter id l).length with h | h <;>
        simp [Nat.add_mod, h]

variable {R : Type}

/-- the parity of a sector's signed charge is the xor of the parities of its charges -/
theorem parity_sectorCharge (sym : Sym) (duals : List Bool) (s : Sector)
    (h : s.length = duals.length) :
    sym.parity (Arr.sectorCharge sym duals s) = (s.map sym.parity).foldr xor false := by
  unfold Arr.sectorCharge
  rw [C17.parity_combine]
  induction s generalizing duals with
  | nil => simp
  | cons c cs ih =>
    cases duals with
    | nil => simp at h
    | cons d ds =>
      simp only [List.zipWith_cons_cons, List.foldr_cons, List.map_cons, C17.parity_sign]
      rw [ih ds (by simpa using h)]

/-- every stored sector satisfies the charge constraint (a clause of `Arr.validB`) -/
def SecValid (a : Arr R) : Prop := ∀ s ∈ a.sectors, a.isValidSector s = true

theorem SecValid.of_valid {a : Arr R} (h : a.validB = true) : SecValid a := by
  unfold Arr.validB at h
  simp only [Bool.and_eq_true] at h
  obtain ⟨⟨⟨_, _⟩, hb⟩, _⟩ := h
  intro s hs
  obtain ⟨p, hp, rfl⟩ := List.mem_map.mp hs
  have := List.all_eq_true.mp hb p hp
  simp only [Bool.and_eq_true] at this
  exact this.1.1.2

/-- in a valid sector the number of odd charges has the parity of the total charge -/
theorem odd_count_sector {a : Arr R} {s : Sector} (hl : s.length = a.ndim)
    (hv : a.isValidSector s = true) :
    (((a.parities s).filter id).length % 2 == 1) = a.parity := by
  rw [odd_count_eq_xor]
  unfold Arr.parities
  rw [← parity_sectorCharge a.sym a.duals s (by simpa [Arr.duals, Arr.ndim] using hl)]
  unfold Arr.isValidSector at hv
  rw [eq_of_beq hv]; rfl


variable [Zero R] [Neg R] [Conj R]

theorem dualOdd_eq (a : Arr R) (s : Sector) :
    dualOdd a s = ((a.indices.zipIdx.filter
      (fun p => p.1.dual && (a.parities s).getD p.2 false)).length % 2 == 1) := by
  unfold dualOdd axsConj
  rw [count_sel (a.indices.map Index.conj) (fun i => !i.dual) (fun ax => (a.parities s).getD ax false),
    List.zipIdx_map, List.filter_map, List.length_map]
  congr 3
  apply List.filter_congr
  intro x _
  simp [Index.conj_dual]

theorem dualOdd_conj (a : Arr R) (pp pd : Bool) (s : Sector) :
    dualOdd (a.conjF pp pd) s = ((a.indices.zipIdx.filter
      (fun p => !p.1.dual && (a.parities s).getD p.2 false)).length % 2 == 1) := by
  obtain ⟨h1, _, h3, _, _, _⟩ := conjF_frame a pp pd
  rw [dualOdd_eq]
  unfold Arr.parities
  rw [h1, h3, List.zipIdx_map, List.filter_map, List.length_map]
  congr 3
  apply List.filter_congr
  intro x _
  simp [Index.conj_dual]

theorem xor_odd (m n : Nat) : ((m % 2 == 1) != (n % 2 == 1)) = ((m + n) % 2 == 1) := by
  rcases Nat.mod_two_eq_zero_or_one m with h | h <;>
    rcases Nat.mod_two_eq_zero_or_one n with h' | h' <;> simp [Nat.add_mod, h, h']

/-- the two dual-leg signs of `conj ∘ conj` multiply to the parity sign of the array -/
theorem dualOdd_xor {a : Arr R} (pp pd : Bool) {s : Sector} (hl : s.length = a.ndim)
    (hv : a.isValidSector s = true) :
    (dualOdd (a.conjF pp pd) s != dualOdd a s) = a.parity := by
  rw [dualOdd_conj, dualOdd_eq, xor_odd, Nat.add_comm,
    filter_and_add_not (fun p : Index × Nat => p.1.dual) (fun p => (a.parities s).getD p.2 false),
    count_all a.indices (fun ax => (a.parities s).getD ax false)]
  have : a.indices.length = (a.parities s).length := by
    unfold Arr.parities; rw [List.length_map]; exact hl.symm
  rw [this, count_range_getD, odd_count_sector hl hv]

theorem sign_prod {g k d1 d : Int} (hg : g = 1 ∨ g = -1) (hk : k = 1 ∨ k = -1) :
    (g * (d1 * k)) * (g * (d * k)) = d1 * d := by
  rcases hg with rfl | rfl <;> rcases hk with rfl | rfl <;> ring

theorem conjTotSign_conj {a : Arr R} (pp pd : Bool) {s : Sector} (hl : s.length = a.ndim)
    (hv : a.isValidSector s = true) :
    conjTotSign (a.conjF pp pd) pp pd s * conjTotSign a pp pd s
      = if pd && a.parity then -1 else 1 := by
  obtain ⟨h1, _, _, h4, h5, _⟩ := conjF_frame a pp pd
  have hG : conjGlob (a.conjF pp pd) pp = conjGlob a pp := by
    unfold conjGlob
    simp only [h1, h4, h5, C17.parity_sign, oddposDag_length]
  have hP : (a.conjF pp pd).parities s = a.parities s := by unfold Arr.parities; rw [h1]
  unfold conjTotSign conjSign
  rw [hG, hP, sign_prod (by split <;> simp) (by split; exact koszul_pm _ _; left; rfl),
    ← dualOdd_xor pp pd hl hv]
  cases pd <;> cases dualOdd (a.conjF pp true) s <;> cases dualOdd a s <;> simp


theorem Blk.map_map_cancel {f g : R → R} (h : ∀ x, g (f x) = x) (b : Blk R) :
    (b.map f).map g = b := by
  obtain ⟨sh, d⟩ := b
  simp only [Blk.map, Array.map_map]
  congr 1
  conv_rhs => rw [← Array.map_id d]
  apply Array.map_congr_left
  intro x _; exact h x

/-- **abelian `conj` is an involution** (exact equality), for a valid total charge -/
theorem conjA_conjA [LawfulNegConj R] (a : Arr R) (hv : a.sym.valid a.charge = true) :
    a.conjA.conjA = a := by
  refine arr_ext (a := a.conjA.conjA) (b := a) rfl rfl (Index.map_conj_conj a.indices)
    (C17.sign_sign a.sym a.charge true hv) ?_ rfl rfl
  show (a.blocks.map (fun (s, b) => (s, b.conjK))).map (fun (s, b) => (s, b.conjK)) = a.blocks
  rw [List.map_map]
  conv_rhs => rw [← List.map_id a.blocks]
  apply List.map_congr_left
  rintro ⟨s, b⟩ _
  simp only [Function.comp, Blk.conjK, id]
  rw [Blk.map_map_cancel LawfulNegConj.conj_conj]

/-- `conj ∘ conj` on the value view: the sign `(-1)^parity` for `phase_dual = True`, none
    otherwise -/
theorem conjF_conjF_elem [LawfulNegConj R] {a : Arr R} (pp pd : Bool) (h : SignOk a) {s : Sector}
    (hl : s.length = a.ndim) (hv : a.isValidSector s = true) (off : List Nat) :
    ((a.conjF pp pd).conjF pp pd).elem s off
      = sgnI (if pd && a.parity then -1 else 1) (a.elem s off) := by
  rw [conjF_elem _ pp pd (h.conjF pp pd), conjF_elem a pp pd h, sgnI_conj,
    LawfulNegConj.conj_conj, ← sgnI_mul (conjTotSign_pm _ _ _ _) (conjTotSign_pm _ _ _ _),
    conjTotSign_conj pp pd hl hv]

theorem conjF_conjF_frame (a : Arr R) (pp pd : Bool) (hc : a.sym.valid a.charge = true) :
    ((a.conjF pp pd).conjF pp pd).sym = a.sym ∧ ((a.conjF pp pd).conjF pp pd).fermi = a.fermi
      ∧ ((a.conjF pp pd).conjF pp pd).indices = a.indices
      ∧ ((a.conjF pp pd).conjF pp pd).charge = a.charge
      ∧ ((a.conjF pp pd).conjF pp pd).oddpos = a.oddpos
      ∧ skel ((a.conjF pp pd).conjF pp pd) = skel a := by
  obtain ⟨h1, h2, h3, h4, h5, h6⟩ := conjF_frame a pp pd
  obtain ⟨g1, g2, g3, g4, g5, g6⟩ := conjF_frame (a.conjF pp pd) pp pd
  refine ⟨g1.trans h1, g2.trans h2, ?_, ?_, ?_, g6.trans h6⟩
  · rw [g3, h3, Index.map_conj_conj]
  · rw [g4, h1, h4, C17.sign_sign a.sym a.charge true hc]
  · rw [g5, h5, oddposDag_involutive]

/-- **`conj ∘ conj`**: the identity for `phase_dual = False` (the default), and multiplication by
    `(-1)^parity` — i.e. `-x` for odd `x` — for `phase_dual = True`; for both values of
    `phase_permutation` -/
theorem conjF_conjF [LawfulNegConj R] {a : Arr R} (pp pd : Bool) (h : SignOk a) (hl : SecLen a)
    (hv : SecValid a) (hc : a.sym.valid a.charge = true) :
    ObsEq ((a.conjF pp pd).conjF pp pd) (if pd && a.parity then negA a else a) := by
  obtain ⟨h1, h2, h3, h4, h5, h6⟩ := conjF_conjF_frame a pp pd hc
  have hsec : ((a.conjF pp pd).conjF pp pd).sectors = a.sectors := by
    rw [← skel_sectors, h6, skel_sectors]
  have helem : ∀ s off, ((a.conjF pp pd).conjF pp pd).elem s off
      = sgnI (if pd && a.parity then -1 else 1) (a.elem s off) := by
    intro s off
    by_cases hs : s ∈ a.sectors
    · exact conjF_conjF_elem pp pd h (hl s hs) (hv s hs) off
    · rw [elem_of_not_mem (hsec ▸ hs), elem_of_not_mem hs, sgnI_zero]
  split
  · rename_i hpar
    refine ⟨h1, h2, h3, h4, h5, by rw [h6, negA_eq, skel_mapVals], fun s off => ?_⟩
    rw [helem, negA_elem, if_pos hpar, sgnI_neg_one]
  · rename_i hpar
    refine ⟨h1, h2, h3, h4, h5, h6, fun s off => ?_⟩
    rw [helem, if_neg hpar, sgnI_one]

end conjconj
/-! ## the virtual reversal sign is the sign of the explicit reversal -/

/-- number of odd positions below `m` -/
def cntOdd (par : List Bool) (m : Nat) : Nat := ((List.range m).filter (isOdd par)).length

theorem cntOdd_succ (par : List Bool) (m : Nat) :
    cntOdd par (m + 1) = cntOdd par m + (if isOdd par m then 1 else 0) := by
  unfold cntOdd
  rw [List.range_succ, List.filter_append, List.length_append]
  by_cases h : isOdd par m <;> simp [h]

theorem crossed_of_ge (par : List Bool) (moved : List Nat) (m : Nat) (h : ∀ o ∈ moved, m ≤ o) :
    crossed par moved m = cntOdd par m := by
  unfold crossed cntOdd
  congr 1
  apply List.filter_congr
  intro o ho
  have : o < m := List.mem_range.mp ho
  have hc : moved.contains o = false := by
    rw [Bool.eq_false_iff]; intro hh
    have := h o (by simpa using hh)
    omega
  simp only [hc, Bool.not_false, Bool.true_and]

theorem swapsLoop_reverse (par : List Bool) (m : Nat) (moved : List Nat) (h : ∀ o ∈ moved, m ≤ o) :
    swapsLoop par (List.range m).reverse moved % 2 = (cntOdd par m / 2) % 2 := by
  induction m generalizing moved with
  | zero => simp [swapsLoop, cntOdd]
  | succ m ih =>
    rw [List.range_succ, List.reverse_append, List.reverse_singleton, List.singleton_append]
    unfold swapsLoop
    have ih' := ih (m :: moved) (by
      intro o ho
      rcases List.mem_cons.mp ho with rfl | ho
      · exact Nat.le_refl _
      · have := h o ho; omega)
    rw [crossed_of_ge par moved m (fun o ho => by have := h o ho; omega), cntOdd_succ]
    generalize cntOdd par m = k at *
    generalize swapsLoop par (List.range m).reverse (m :: moved) = S at *
    have hk : k % 4 = 0 ∨ k % 4 = 1 ∨ k % 4 = 2 ∨ k % 4 = 3 := by omega
    by_cases hodd : isOdd par m
    · simp only [hodd, if_true]
      rcases hk with hk | hk | hk | hk <;> omega
    · simp only [hodd, Bool.false_eq_true, if_false]; omega

/-- `calc_phase_permutation(parities, None)` equals `calc_phase_permutation(parities, reversed)` -/
theorem koszul_none_eq_reverse (par : List Bool) :
    koszul par none = koszul par (some (List.range par.length).reverse) := by
  unfold koszul koszulNeg
  have h1 := swapsLoop_reverse par par.length [] (by simp)
  have h2 : cntOdd par par.length = (par.filter id).length := by
    unfold cntOdd
    exact count_range_getD par
  rw [h2] at h1
  simp only [h1]


/-! ## the index box -/

theorem flatMap_getElem? {α β : Type} (L : List α) (f : α → List β) (P : Nat)
    (hlen : ∀ x ∈ L, (f x).length = P) (i r : Nat) (hr : r < P) :
    (L.flatMap f)[i * P + r]? = L[i]?.bind (fun x => (f x)[r]?) := by
  induction L generalizing i with
  | nil => simp
  | cons x L ih =>
    have hx : (f x).length = P := hlen x List.mem_cons_self
    rw [List.flatMap_cons]
    cases i with
    | zero =>
      simp only [Nat.zero_mul, Nat.zero_add, List.getElem?_cons_zero, Option.bind_some]
      rw [List.getElem?_append_left (by omega)]
    | succ i =>
      rw [List.getElem?_append_right (by rw [hx, Nat.succ_mul]; omega)]
      have : (i + 1) * P + r - (f x).length = i * P + r := by rw [hx, Nat.succ_mul]; omega
      rw [this, ih (fun y hy => hlen y (List.mem_cons_of_mem _ hy))]
      simp

theorem unravel_getElem (s : List Nat) (k : Nat) (h : k < prod s) :
    (allIdx s)[k]? = some (unravel s k) := by
  induction s generalizing k with
  | nil =>
    simp only [prod] at h
    have : k = 0 := by omega
    subst this; rfl
  | cons d ds ih =>
    simp only [prod] at h
    have hP : 0 < prod ds := by
      rcases Nat.eq_zero_or_pos (prod ds) with h0 | h0
      · rw [h0] at h; simp at h
      · exact h0
    have hk : k = (k / prod ds) * prod ds + k % prod ds := (Nat.div_add_mod' k (prod ds)).symm
    have hq : k / prod ds < d := by
      apply (Nat.div_lt_iff_lt_mul hP).mpr; exact h
    conv_lhs => rw [hk]
    simp only [allIdx, unravel]
    rw [flatMap_getElem? _ _ (prod ds) (fun x _ => by simp [allIdx_length]) _ _ (Nat.mod_lt _ hP)]
    rw [List.getElem?_range hq]
    simp only [Option.bind_some, List.getElem?_map, ih _ (Nat.mod_lt _ hP), Option.map_some]

theorem ravel_lt {s j : List Nat} (h : inBox s j = true) : ravel s j < prod s := by
  induction s generalizing j with
  | nil => cases j <;> simp [ravel, prod]
  | cons d ds ih =>
    cases j with
    | nil => simp [inBox] at h
    | cons i js =>
      simp only [inBox, Bool.and_eq_true, decide_eq_true_eq] at h
      have := ih h.2
      simp only [ravel, prod]
      calc i * prod ds + ravel ds js < i * prod ds + prod ds := by omega
        _ = (i + 1) * prod ds := by rw [Nat.succ_mul]
        _ ≤ d * prod ds := Nat.mul_le_mul_right _ h.1

theorem unravel_ravel {s j : List Nat} (h : inBox s j = true) : unravel s (ravel s j) = j := by
  induction s generalizing j with
  | nil => cases j with
    | nil => rfl
    | cons _ _ => simp [inBox] at h
  | cons d ds ih =>
    cases j with
    | nil => simp [inBox] at h
    | cons i js =>
      simp only [inBox, Bool.and_eq_true, decide_eq_true_eq] at h
      have hlt := ravel_lt h.2
      have hP : 0 < prod ds := by omega
      simp only [ravel, unravel]
      have h1 : (i * prod ds + ravel ds js) / prod ds = i := by
        rw [Nat.add_comm, Nat.add_mul_div_right _ _ hP, Nat.div_eq_of_lt hlt]; simp
      have h2 : (i * prod ds + ravel ds js) % prod ds = ravel ds js := by
        rw [Nat.add_comm, Nat.add_mul_mod_self_right, Nat.mod_eq_of_lt hlt]
      rw [h1, h2, ih h.2]

theorem unravel_inBox (s : List Nat) (k : Nat) (h : k < prod s) : inBox s (unravel s k) = true := by
  induction s generalizing k with
  | nil => rfl
  | cons d ds ih =>
    simp only [prod] at h
    have hP : 0 < prod ds := by
      rcases Nat.eq_zero_or_pos (prod ds) with h0 | h0
      · rw [h0] at h; simp at h
      · exact h0
    simp only [unravel, inBox, Bool.and_eq_true, decide_eq_true_eq]
    exact ⟨(Nat.div_lt_iff_lt_mul hP).mpr h, ih _ (Nat.mod_lt _ hP)⟩

/-- an in-box multi-index is its own canonical representative -/
theorem boxIdx_of_inBox {s j : List Nat} (h : inBox s j = true) : boxIdx s j = some j := by
  unfold boxIdx
  rw [unravel_getElem s _ (ravel_lt h), unravel_ravel h]

/-- `boxIdx` returns an in-box multi-index with the same flat position -/
theorem boxIdx_some {s off i : List Nat} (h : boxIdx s off = some i) :
    inBox s i = true ∧ ravel s i = ravel s off := by
  unfold boxIdx at h
  have hlt : ravel s off < prod s := by
    rw [← allIdx_length]
    by_contra hc
    rw [List.getElem?_eq_none (by omega)] at h
    cases h
  rw [unravel_getElem s _ hlt] at h
  cases h
  exact ⟨unravel_inBox s _ hlt, ravel_unravel s _ hlt⟩

theorem boxIdx_none {s off : List Nat} (h : boxIdx s off = none) : prod s ≤ ravel s off := by
  unfold boxIdx at h
  rw [← allIdx_length]
  exact List.getElem?_eq_none_iff.mp h

theorem inBox_length {s j : List Nat} (h : inBox s j = true) : j.length = s.length := by
  induction s generalizing j with
  | nil => cases j with
    | nil => rfl
    | cons _ _ => simp [inBox] at h
  | cons d ds ih =>
    cases j with
    | nil => simp [inBox] at h
    | cons i js =>
      simp only [inBox, Bool.and_eq_true] at h
      simp [ih h.2]

theorem inBox_iff {s j : List Nat} :
    inBox s j = true ↔ j.length = s.length ∧ ∀ k (h1 : k < j.length) (h2 : k < s.length), j[k] < s[k] := by
  induction s generalizing j with
  | nil => cases j <;> simp [inBox]
  | cons d ds ih =>
    cases j with
    | nil => simp [inBox]
    | cons i js =>
      simp only [inBox, Bool.and_eq_true, decide_eq_true_eq, ih, List.length_cons]
      constructor
      · rintro ⟨h1, h2, h3⟩
        refine ⟨by omega, fun k hk1 hk2 => ?_⟩
        cases k with
        | zero => simpa using h1
        | succ k => simpa using h3 k (by omega) (by omega)
      · rintro ⟨h1, h2⟩
        refine ⟨by simpa using h2 0 (by omega) (by omega), by omega, fun k hk1 hk2 => ?_⟩
        have := h2 (k + 1) (by omega) (by omega)
        simp only [List.getElem_cons_succ] at this
        exact this

theorem inBox_reverse {s j : List Nat} (h : inBox s j = true) : inBox s.reverse j.reverse = true := by
  rw [inBox_iff] at h ⊢
  obtain ⟨hl, hk⟩ := h
  refine ⟨by simp [hl], fun k h1 h2 => ?_⟩
  simp only [List.length_reverse] at h1 h2
  rw [List.getElem_reverse, List.getElem_reverse]
  have := hk (j.length - 1 - k) (by omega) (by omega)
  simpa [hl] using this

section
variable {R : Type} [Zero R]

/-- the value of a well-formed block at any offset list is its value at the canonical in-box
    representative -/
theorem get_eq_boxIdx {b : Blk R} (hw : b.wf = true) (off : List Nat) :
    b.get off = match boxIdx b.shape off with
      | some i => b.get i
      | none => 0 := by
  cases h : boxIdx b.shape off with
  | some i => simp only; unfold Blk.get; rw [(boxIdx_some h).2]
  | none =>
    simp only
    have := boxIdx_none h
    simp only [Blk.wf, beq_iff_eq] at hw
    unfold Blk.get
    rw [Array.getD_eq_getD_getElem?, Array.getElem?_eq_none (by omega)]; rfl
end


/-! ## `dagger` -/
section dagger

theorem permuted_range {α : Type} (s : List α) : permuted s (List.range s.length) = s := by
  unfold permuted
  apply List.ext_getElem?
  intro i
  induction s generalizing i with
  | nil => simp
  | cons x xs ih =>
    rw [List.length_cons, List.range_succ_eq_map, List.filterMap_cons]
    simp only [List.getElem?_cons_zero, List.filterMap_map]
    cases i with
    | zero => simp
    | succ i =>
      simp only [List.getElem?_cons_succ]
      rw [← ih i]
      congr 2

theorem permuted_reversed {α : Type} (s : List α) (n : Nat) (h : s.length = n) :
    permuted s (Arr.reversedAxes n) = s.reverse := by
  subst h
  unfold Arr.reversedAxes
  have := permuted_range s
  unfold permuted at this ⊢
  rw [List.filterMap_reverse, this]

theorem isPerm_reversed (n : Nat) : Arr.isPerm (Arr.reversedAxes n) n = true := by
  unfold Arr.isPerm Arr.reversedAxes
  simp


variable {R : Type} [Zero R] [Neg R] [Conj R]

/-- the block / table / index / charge / label part of `FermionicArray.dagger` -/
def dagCore (a : Arr R) : Arr R :=
  { a with blocks := a.blocks.map (fun (s, b) => (s.reverse, (b.conjK).transposeK (Arr.reversedAxes a.ndim))),
           phases := a.blocks.filterMap (fun (s, _) =>
             if a.getPhase s == -1 then some (s.reverse, (-1 : Int)) else none),
           indices := a.indices.reverse.map Index.conj,
           charge := a.sym.sign a.charge true,
           oddpos := Arr.oddposDag a.oddpos }

/-- the legs `dagger(phase_dual=True)` flips -/
def dagAxs (a : Arr R) : List Nat :=
  ((a.indices.reverse.map Index.conj).zipIdx.filter (fun p => !p.1.dual)).map (·.2)

theorem daggerF_eq (a : Arr R) (pd : Bool) :
    a.daggerF pd =
      if pd then
        (if conjGlob a true then (dagCore a).phaseGlobal else dagCore a).phaseFlip (dagAxs a)
      else (if conjGlob a true then (dagCore a).phaseGlobal else dagCore a) := rfl

theorem dagCore_phases (a : Arr R) :
    (dagCore a).phases = ((a.sectors.filter (fun s => a.getPhase s == -1)).map
      (fun s => (s, (-1 : Int)))).map (fun p => (p.1.reverse, id p.2)) := by
  show a.blocks.filterMap (fun (s, _) =>
      if a.getPhase s == -1 then some (s.reverse, (-1 : Int)) else none) = _
  have : (fun (p : Sector × Blk R) => if a.getPhase p.1 == -1 then some (p.1.reverse, (-1 : Int)) else none)
      = (fun s => if a.getPhase s == -1 then some (s.reverse, (-1 : Int)) else none) ∘ (·.1) := rfl
  show a.blocks.filterMap (fun p => if a.getPhase p.1 == -1 then some (p.1.reverse, (-1 : Int)) else none) = _
  rw [this, ← List.filterMap_map, filterMap_ite]
  simp [Arr.sectors, List.map_map, Function.comp_def]

theorem dagCore_sectors (a : Arr R) : (dagCore a).sectors = a.sectors.map List.reverse := by
  show (a.blocks.map (fun (s, b) => (s.reverse, (b.conjK).transposeK (Arr.reversedAxes a.ndim)))).map (·.1) = _
  simp [Arr.sectors, List.map_map, Function.comp_def]

theorem SignOk.dagCore {a : Arr R} (h : SignOk a) : SignOk (dagCore a) := by
  refine ⟨?_, ?_, ?_⟩
  · rw [dagCore_sectors]
    exact h.sectors.map List.reverse_injective
  · rw [dagCore_phases]
    have : akeys (((a.sectors.filter (fun s => a.getPhase s == -1)).map
        (fun s => (s, (-1 : Int)))).map (fun p => (p.1.reverse, id p.2)))
        = (a.sectors.filter (fun s => a.getPhase s == -1)).map List.reverse := by
      simp [akeys, List.map_map, Function.comp_def]
    rw [this]
    exact (h.sectors.sublist List.filter_sublist).map List.reverse_injective
  · rw [dagCore_phases]
    intro p hp
    simp only [List.map_map, List.mem_map, Function.comp_def] at hp
    obtain ⟨s, _, rfl⟩ := hp
    right; rfl

theorem dagCore_phOf {a : Arr R} (h : SignOk a) {s : Sector} (hs : s ∈ a.sectors) :
    phOf (dagCore a).phases s.reverse = phOf a.phases s := by
  rw [dagCore_phases]
  unfold phOf
  rw [alookup_map_inj (fun s : Sector => s.reverse) id _ s
    (fun k _ he => List.reverse_injective he), alookup_const_map]
  simp only [List.mem_filter, getPhase_eq, beq_iff_eq]
  change _ = phOf a.phases s
  split
  · rename_i hc; simp [hc.2]
  · rename_i hc
    rcases h.phases.phOf s with h1 | h1
    · simp [h1]
    · exact absurd ⟨hs, h1⟩ hc


theorem dagCore_frame (a : Arr R) :
    (dagCore a).sym = a.sym ∧ (dagCore a).fermi = a.fermi
      ∧ (dagCore a).indices = a.indices.reverse.map Index.conj
      ∧ (dagCore a).charge = a.sym.sign a.charge true
      ∧ (dagCore a).oddpos = Arr.oddposDag a.oddpos := ⟨rfl, rfl, rfl, rfl, rfl⟩

theorem daggerF_frame (a : Arr R) (pd : Bool) :
    (a.daggerF pd).sym = a.sym ∧ (a.daggerF pd).fermi = a.fermi
      ∧ (a.daggerF pd).indices = a.indices.reverse.map Index.conj
      ∧ (a.daggerF pd).charge = a.sym.sign a.charge true
      ∧ (a.daggerF pd).oddpos = Arr.oddposDag a.oddpos
      ∧ (a.daggerF pd).blocks = (dagCore a).blocks := by
  rw [daggerF_eq]
  cases pd <;> simp only [if_true, Bool.false_eq_true, if_false]
  · split <;> exact ⟨rfl, rfl, rfl, rfl, rfl, rfl⟩
  · obtain ⟨f1, f2, f3, f4, f5, f6⟩ :=
      phaseFlip_frame (if conjGlob a true then (dagCore a).phaseGlobal else dagCore a) (dagAxs a)
    rw [f1, f2, f3, f4, f5, f6]
    split <;> exact ⟨rfl, rfl, rfl, rfl, rfl, rfl⟩

theorem SignOk.dagGlob {a : Arr R} (h : SignOk a) :
    SignOk (if conjGlob a true then (Lazy.dagCore a).phaseGlobal else Lazy.dagCore a) := by
  split
  · exact h.dagCore.phaseGlobal
  · exact h.dagCore

theorem SignOk.daggerF [LawfulNeg R] {a : Arr R} (h : SignOk a) (pd : Bool) : SignOk (a.daggerF pd) := by
  rw [daggerF_eq]
  cases pd <;> simp only [if_true, Bool.false_eq_true, if_false]
  · exact h.dagGlob
  · exact h.dagGlob.phaseFlip _

/-- the sign `dagger` puts on (the reversal of) sector `s` -/
def dagSign (a : Arr R) (pd : Bool) (s : Sector) : Int :=
  (if pd then flipSign a.sym (dagAxs a) s.reverse else 1) * (if conjGlob a true then -1 else 1)

theorem dagSign_pm (a : Arr R) (pd : Bool) (s : Sector) : dagSign a pd s = 1 ∨ dagSign a pd s = -1 :=
  mul_pm (by split; exact flipSign_pm _ _ _; left; rfl) (by split <;> simp)

theorem dagGlob_phOf {a : Arr R} (h : SignOk a) {s : Sector} (hs : s ∈ a.sectors) :
    phOf (if conjGlob a true then (dagCore a).phaseGlobal else dagCore a).phases s.reverse
      = (if conjGlob a true then -1 else 1) * phOf a.phases s := by
  have hm : s.reverse ∈ (dagCore a).sectors := by
    rw [dagCore_sectors]; exact List.mem_map_of_mem hs
  split
  · rw [(phaseGlobal_phases _ h.dagCore).2, if_pos hm, dagCore_phOf h hs]
  · rw [dagCore_phOf h hs, Int.one_mul]

theorem daggerF_phOf [LawfulNeg R] {a : Arr R} (h : SignOk a) (pd : Bool) {s : Sector}
    (hs : s ∈ a.sectors) :
    phOf (a.daggerF pd).phases s.reverse = dagSign a pd s * phOf a.phases s := by
  rw [daggerF_eq]; unfold dagSign
  cases pd <;> simp only [if_true, Bool.false_eq_true, if_false]
  · rw [dagGlob_phOf h hs, Int.one_mul]
  · have hm : s.reverse ∈ (if conjGlob a true then (dagCore a).phaseGlobal else dagCore a).sectors := by
      have : (if conjGlob a true then (dagCore a).phaseGlobal else dagCore a).sectors
          = (dagCore a).sectors := by split <;> rfl
      rw [this, dagCore_sectors]; exact List.mem_map_of_mem hs
    rw [(phaseFlip_phases _ (dagAxs a) h.dagGlob).2, if_pos hm, dagGlob_phOf h hs, Int.mul_assoc]
    congr 2
    split <;> rfl


/-! ### the dual-leg sign of `dagger` is the dual-leg sign of `conj` -/

theorem parity_zero_charge (sym : Sym) : sym.parity (0, 0) = false := by cases sym <;> decide

/-- counting over `zipIdx` = counting over the zip with the values -/
theorem count_zip (l : List Index) (v : List Bool) (P : Index → Bool) (h : l.length = v.length) :
    (l.zipIdx.filter (fun p => P p.1 && v.getD p.2 false)).length
      = ((l.zip v).filter (fun p => P p.1 && p.2)).length := by
  have hv : v = (List.range l.length).map (fun i => v.getD i false) := by
    apply List.ext_getElem (by simp [h])
    intro i h1 h2
    simp [List.getD_eq_getElem?_getD, List.getElem?_eq_getElem h1]
  conv_rhs => rw [hv, List.zip_map_right, List.filter_map, List.length_map]
  rw [List.zipIdx_eq_zip_range', ← List.range_eq_range']
  rfl

theorem count_zip_reverse (l : List Index) (v : List Bool) (P : Index → Bool)
    (h : l.length = v.length) :
    ((l.reverse.zip v.reverse).filter (fun p => P p.1 && p.2)).length
      = ((l.zip v).filter (fun p => P p.1 && p.2)).length := by
  rw [List.zip_eq_zipWith, ← List.reverse_zipWith h, List.filter_reverse, List.length_reverse,
    ← List.zip_eq_zipWith]

theorem flipOdd_dag {a : Arr R} {s : Sector} (hl : s.length = a.ndim) :
    flipOdd a.sym (dagAxs a) s.reverse = dualOdd a s := by
  have hq : (fun ax => a.sym.parity (s.reverse.getD ax (0, 0)))
      = (fun ax => (a.parities s).reverse.getD ax false) := by
    funext ax
    unfold Arr.parities
    rw [← List.map_reverse]
    simp only [List.getD_eq_getElem?_getD, List.getElem?_map]
    cases s.reverse[ax]? with
    | none => simp [parity_zero_charge]
    | some c => simp
  have hlen : a.indices.length = (a.parities s).length := by
    unfold Arr.parities; rw [List.length_map]; exact hl.symm
  unfold flipOdd dagAxs
  rw [hq, count_sel (a.indices.reverse.map Index.conj) (fun i => !i.dual)
      (fun ax => (a.parities s).reverse.getD ax false),
    List.zipIdx_map, List.filter_map, List.length_map, dualOdd_eq]
  have e : (a.indices.reverse.zipIdx.filter ((fun p : Index × Nat => !p.1.dual && (a.parities s).reverse.getD p.2 false)
        ∘ Prod.map Index.conj id)).length
      = (a.indices.reverse.zipIdx.filter (fun p => p.1.dual && (a.parities s).reverse.getD p.2 false)).length := by
    congr 1
    apply List.filter_congr
    intro x _
    simp [Index.conj_dual]
  rw [e, count_zip a.indices.reverse (a.parities s).reverse (fun i => i.dual) (by simp [hlen]),
    count_zip_reverse a.indices (a.parities s) (fun i => i.dual) hlen,
    ← count_zip a.indices (a.parities s) (fun i => i.dual) hlen]

theorem conjF_blocks (a : Arr R) (pp pd : Bool) :
    (a.conjF pp pd).blocks = a.blocks.map (fun p => (p.1, p.2.conjK)) := by
  rw [conjF_eq]; split <;> rfl

theorem conjF_phOf {a : Arr R} (pp pd : Bool) (h : SignOk a) {s : Sector} (hs : s ∈ a.sectors) :
    phOf (a.conjF pp pd).phases s = conjTotSign a pp pd s * phOf a.phases s := by
  have h1 : phOf (conjCore { a with phases := conjPhases a pp pd }).phases s
      = conjSign a pp pd s * phOf a.phases s := by
    show phOf (conjPhases a pp pd) s = _
    rw [(conjPhases_spec a pp pd h).2 s, if_pos hs]
  rw [conjF_eq]; unfold conjTotSign
  split
  · have hm : s ∈ (conjCore { a with phases := conjPhases a pp pd }).sectors := by
      rw [conjCore_sectors]; exact hs
    rw [(phaseGlobal_phases _ (h.conjPre pp pd)).2, if_pos hm, h1, Int.mul_assoc]
  · rw [h1, Int.one_mul]

omit [Conj R] in
/-- arrays with the same frame and blocks whose phase functions agree on the stored sectors are
    observationally equal -/
theorem obsEq_of_blocks_phOf {x y : Arr R} (h1 : x.sym = y.sym) (h2 : x.fermi = y.fermi)
    (h3 : x.indices = y.indices) (h4 : x.charge = y.charge) (h5 : x.oddpos = y.oddpos)
    (hb : x.blocks = y.blocks) (hp : ∀ s ∈ x.sectors, phOf x.phases s = phOf y.phases s) :
    ObsEq x y := by
  refine ⟨h1, h2, h3, h4, h5, by unfold skel; rw [hb], fun s off => ?_⟩
  rw [elem_eq, elem_eq, ← hb]
  cases hl : alookup x.blocks s with
  | none => rfl
  | some b => simp only; rw [hp s (mem_sectors_of_lookup hl)]


theorem conjF_sectors (a : Arr R) (pp pd : Bool) : (a.conjF pp pd).sectors = a.sectors := by
  rw [← skel_sectors, (conjF_frame a pp pd).2.2.2.2.2, skel_sectors]

theorem conjF_ndim (a : Arr R) (pp pd : Bool) : (a.conjF pp pd).ndim = a.ndim := by
  unfold Arr.ndim; rw [(conjF_frame a pp pd).2.2.1, List.length_map]

theorem daggerF_sectors (a : Arr R) (pd : Bool) :
    (a.daggerF pd).sectors = a.sectors.map List.reverse := by
  unfold Arr.sectors
  rw [(daggerF_frame a pd).2.2.2.2.2]
  exact dagCore_sectors a

/-- **the adjoint is the conjugate followed by the fermionic reversal of the axes**, for both
    values of `phase_dual`.  (Uses `koszul_none_eq_reverse`: the virtual reversal sign
    `perm=None` of `calc_phase_permutation` equals the sign of the explicit reversal.) -/
theorem dagger_eq_conj_rev [LawfulNegConj R] {a : Arr R} (pd : Bool) (h : SignOk a) (hl : SecLen a) :
    ObsEq (a.daggerF pd) ((a.conjF true pd).transposeF (Arr.reversedAxes a.ndim)) := by
  have hc : SignOk (a.conjF true pd) := h.conjF true pd
  have ht : TrOk (a.conjF true pd) (Arr.reversedAxes a.ndim) :=
    ⟨hc, hl.of_same (conjF_sectors a true pd) (conjF_ndim a true pd),
     by rw [conjF_ndim]; exact isPerm_reversed a.ndim⟩
  obtain ⟨d1, d2, d3, d4, d5, d6⟩ := daggerF_frame a pd
  obtain ⟨t1, t2, t3, t4, t5⟩ := transposeF_frame (a.conjF true pd) (Arr.reversedAxes a.ndim)
  obtain ⟨c1, c2, c3, c4, c5, _⟩ := conjF_frame a true pd
  refine obsEq_of_blocks_phOf (by rw [d1, t1, c1]) (by rw [d2, t2, c2]) ?_ (by rw [d4, t4, c4])
    (by rw [d5, t5, c5]) ?_ ?_
  · rw [d3, t3, c3, permuted_reversed _ a.ndim (by simp [Arr.ndim]), List.map_reverse]
  · rw [d6, transposeF_blocks ht, conjF_blocks, List.map_map]
    apply List.map_congr_left
    rintro ⟨s, b⟩ hp
    have hs : s ∈ a.sectors := List.mem_map_of_mem (f := (·.1)) hp
    simp only [Function.comp, permuted_reversed s a.ndim (hl s hs)]
  · intro t ht'
    rw [daggerF_sectors] at ht'
    obtain ⟨s, hs, rfl⟩ := List.mem_map.mp ht'
    have hs' : s ∈ (a.conjF true pd).sectors := by rw [conjF_sectors]; exact hs
    have hlen := hl s hs
    rw [daggerF_phOf h pd hs, ← permuted_reversed s a.ndim hlen, transposeF_phOf ht hs',
      conjF_phOf true pd h hs, ← Int.mul_assoc]
    congr 1
    have hpar : (a.conjF true pd).parities s = a.parities s := by unfold Arr.parities; rw [c1]
    have hk : koszul (a.parities s) none = koszul (a.parities s) (some (Arr.reversedAxes a.ndim)) := by
      rw [koszul_none_eq_reverse (a.parities s)]
      unfold Arr.parities Arr.reversedAxes
      rw [List.length_map, hlen]
    unfold dagSign conjTotSign conjSign
    rw [hpar, ← hk]
    have hF : flipSign a.sym (dagAxs a) s.reverse = if dualOdd a s then -1 else 1 := by
      unfold flipSign; rw [flipOdd_dag hlen]
    rw [hF]
    simp only [if_true]
    rcases koszul_pm (a.parities s) none with hk1 | hk1 <;> rw [hk1] <;>
      cases pd <;> cases dualOdd a s <;> cases conjGlob a true <;> simp

end dagger
/-! ## `dagger ∘ dagger` -/
section dagdag

theorem indexOf?_reverse_range (n ax : Nat) (h : ax < n) :
    indexOf? (List.range n).reverse ax = some (n - 1 - ax) := by
  induction n with
  | zero => omega
  | succ n ih =>
    rw [List.range_succ, List.reverse_append, List.reverse_singleton, List.singleton_append]
    unfold indexOf?
    by_cases he : n = ax
    · subst he; simp
    · have : (n == ax) = false := by simpa using he
      rw [this, ih (by omega)]
      simp only [Bool.false_eq_true, if_false, Option.map_some]
      congr 1; omega

/-- the source multi-index of the full reversal is the reversed multi-index -/
theorem srcIdx_reversed (n : Nat) (i : List Nat) (h : i.length = n) :
    srcIdx n (Arr.reversedAxes n) i = i.reverse := by
  unfold srcIdx Arr.reversedAxes
  apply List.ext_getElem (by simp [h])
  intro k h1 h2
  simp only [List.length_map, List.length_range] at h1
  simp only [List.getElem_map, List.getElem_range, indexOf?_reverse_range n k h1,
    List.getElem_reverse]
  rw [List.getD_eq_getElem?_getD, List.getElem?_eq_getElem (by omega)]
  simp [h]

variable {R : Type} [Zero R]

theorem ofFn_shape (s : List Nat) (g : List Nat → R) : (Blk.ofFn s g).shape = s := rfl

theorem transposeK_shape (b : Blk R) (perm : List Nat) :
    (b.transposeK perm).shape = permuted b.shape perm := rfl

/-- reversal-transposition of a block, on the value level: for an in-box multi-index `j` of the
    reversed shape, the value is that of `b` at the reversed multi-index -/
theorem transposeK_reversed_get (b : Blk R) {n : Nat} (hn : b.shape.length = n) {j : List Nat}
    (hj : inBox b.shape.reverse j = true) :
    (b.transposeK (Arr.reversedAxes n)).get j = b.get j.reverse := by
  rw [transposeK_get, permuted_reversed b.shape n hn, boxIdx_of_inBox hj, hn]
  simp only
  rw [srcIdx_reversed n j (by rw [inBox_length hj, List.length_reverse, hn])]

variable [Neg R] [Conj R]

/-- **conjugate-transposing a block by the full reversal twice gives the block back** -/
theorem conjT_conjT [LawfulNegConj R] (b : Blk R) {n : Nat} (hn : b.shape.length = n)
    (hw : b.wf = true) :
    (((b.conjK).transposeK (Arr.reversedAxes n)).conjK).transposeK (Arr.reversedAxes n) = b := by
  have hs1 : ((b.conjK).transposeK (Arr.reversedAxes n)).shape = b.shape.reverse := by
    rw [transposeK_shape]; exact permuted_reversed b.shape n hn
  have hs1' : (((b.conjK).transposeK (Arr.reversedAxes n)).conjK).shape = b.shape.reverse := hs1
  have hlen1 : (((b.conjK).transposeK (Arr.reversedAxes n)).conjK).shape.length = n := by
    rw [hs1', List.length_reverse, hn]
  apply Blk.ext_get
  · rw [transposeK_shape, permuted_reversed _ n hlen1, hs1', List.reverse_reverse]
  · exact ofFn_wf _ _
  · exact hw
  · intro off
    rw [get_eq_boxIdx hw off, transposeK_get, permuted_reversed _ n hlen1, hs1',
      List.reverse_reverse]
    cases hb : boxIdx b.shape off with
    | none => rfl
    | some i =>
      simp only
      have hi := (boxIdx_some hb).1
      have hil : i.length = n := by rw [inBox_length hi, hn]
      rw [List.length_reverse, hn, srcIdx_reversed n i hil, Blk.get_conjK]
      have hir : inBox (b.conjK).shape.reverse i.reverse = true := inBox_reverse hi
      rw [transposeK_reversed_get (b.conjK) (n := n) hn hir, Blk.get_conjK, List.reverse_reverse,
        LawfulNegConj.conj_conj]


omit [Zero R] [Neg R] [Conj R] in
theorem mapM_id_length (l : List (Option Nat)) (r : List Nat) (h : l.mapM id = some r) :
    r.length = l.length := by
  induction l generalizing r with
  | nil => simp at h; subst h; rfl
  | cons x l ih =>
    rw [List.mapM_cons] at h
    cases x with
    | none => simp at h
    | some v =>
      cases hl : l.mapM id with
      | none => simp [hl] at h
      | some r' =>
        simp [hl] at h
        subst h
        simp [ih r' hl]

omit [Zero R] [Neg R] [Conj R] in
theorem blockShape?_length {idx : List Index} {s : Sector} {shp : List Nat}
    (h : Arr.blockShape? idx s = some shp) : shp.length = idx.length := by
  unfold Arr.blockShape? at h
  split at h
  · cases h
  · rename_i hne
    have hl : idx.length = s.length := by simpa using hne
    rw [mapM_id_length _ _ h, List.length_zipWith, ← hl, Nat.min_self]

/-- every stored block has one axis per index (a clause of `Arr.validB`) -/
def ShapeLen (a : Arr R) : Prop := ∀ p ∈ a.blocks, p.2.shape.length = a.ndim

omit [Zero R] [Neg R] [Conj R] in
theorem ShapeLen.of_valid {a : Arr R} (h : a.validB = true) : ShapeLen a := by
  unfold Arr.validB at h
  simp only [Bool.and_eq_true] at h
  obtain ⟨⟨⟨_, _⟩, hb⟩, _⟩ := h
  intro p hp
  have := List.all_eq_true.mp hb p hp
  simp only [Bool.and_eq_true, beq_iff_eq] at this
  exact blockShape?_length this.1.2

theorem daggerF_ndim (a : Arr R) (pd : Bool) : (a.daggerF pd).ndim = a.ndim := by
  unfold Arr.ndim; rw [(daggerF_frame a pd).2.2.1]; simp

theorem daggerF_blocks (a : Arr R) (pd : Bool) :
    (a.daggerF pd).blocks = a.blocks.map (fun p =>
      (p.1.reverse, (p.2.conjK).transposeK (Arr.reversedAxes a.ndim))) :=
  (daggerF_frame a pd).2.2.2.2.2

/-- the blocks of `dagger (dagger a)` are the blocks of `a` -/
theorem daggerF_daggerF_blocks [LawfulNegConj R] {a : Arr R} (pd pd' : Bool) (hw : BlocksWf a)
    (hs : ShapeLen a) : ((a.daggerF pd).daggerF pd').blocks = a.blocks := by
  rw [daggerF_blocks, daggerF_blocks, daggerF_ndim, List.map_map]
  conv_rhs => rw [← List.map_id a.blocks]
  apply List.map_congr_left
  rintro ⟨s, b⟩ hp
  simp only [Function.comp, id, List.reverse_reverse]
  rw [conjT_conjT b (hs _ hp) (hw _ hp)]


theorem daggerF_parities (a : Arr R) (pd : Bool) (s : Sector) :
    (a.daggerF pd).parities s.reverse = (a.parities s).reverse := by
  unfold Arr.parities; rw [(daggerF_frame a pd).1, List.map_reverse]

/-- the dual legs of `dagger a` are the reversed ket-like legs of `a` -/
theorem dualOdd_dag {a : Arr R} (pd : Bool) {s : Sector} (hl : s.length = a.ndim) :
    dualOdd (a.daggerF pd) s.reverse = dualOdd (a.conjF true pd) s := by
  have hlen : (a.indices.map Index.conj).length = (a.parities s).length := by
    unfold Arr.parities; rw [List.length_map, List.length_map]; exact hl.symm
  rw [dualOdd_eq, dualOdd_conj, daggerF_parities, (daggerF_frame a pd).2.2.1, List.map_reverse]
  rw [count_zip (a.indices.map Index.conj).reverse (a.parities s).reverse (fun i => i.dual)
      (by simp [hlen]),
    count_zip_reverse (a.indices.map Index.conj) (a.parities s) (fun i => i.dual) hlen,
    ← count_zip (a.indices.map Index.conj) (a.parities s) (fun i => i.dual) hlen,
    List.zipIdx_map, List.filter_map, List.length_map]
  congr 3
  apply List.filter_congr
  intro x _
  simp [Index.conj_dual]

theorem conjGlob_dag (a : Arr R) (pd : Bool) : conjGlob (a.daggerF pd) true = conjGlob a true := by
  obtain ⟨h1, _, _, h4, h5, _⟩ := daggerF_frame a pd
  unfold conjGlob
  simp only [h1, h4, h5, C17.parity_sign, oddposDag_length]

theorem dagSign_dag {a : Arr R} (pd : Bool) {s : Sector} (hl : s.length = a.ndim)
    (hv : a.isValidSector s = true) :
    dagSign (a.daggerF pd) pd s.reverse * dagSign a pd s = if pd && a.parity then -1 else 1 := by
  unfold dagSign flipSign
  have hl' : s.reverse.length = (a.daggerF pd).ndim := by rw [daggerF_ndim, List.length_reverse, hl]
  rw [conjGlob_dag, flipOdd_dag hl, flipOdd_dag hl', dualOdd_dag pd hl,
    ← dualOdd_xor true pd hl hv]
  cases pd <;> cases dualOdd (a.conjF true _) s <;> cases dualOdd a s <;> cases conjGlob a true <;> simp

theorem daggerF_daggerF_frame (a : Arr R) (pd pd' : Bool) (hc : a.sym.valid a.charge = true) :
    ((a.daggerF pd).daggerF pd').sym = a.sym ∧ ((a.daggerF pd).daggerF pd').fermi = a.fermi
      ∧ ((a.daggerF pd).daggerF pd').indices = a.indices
      ∧ ((a.daggerF pd).daggerF pd').charge = a.charge
      ∧ ((a.daggerF pd).daggerF pd').oddpos = a.oddpos := by
  obtain ⟨h1, h2, h3, h4, h5, _⟩ := daggerF_frame a pd
  obtain ⟨g1, g2, g3, g4, g5, _⟩ := daggerF_frame (a.daggerF pd) pd'
  refine ⟨g1.trans h1, g2.trans h2, ?_, ?_, ?_⟩
  · rw [g3, h3, List.map_reverse, Index.map_conj_conj, List.reverse_reverse]
  · rw [g4, h1, h4, C17.sign_sign a.sym a.charge true hc]
  · rw [g5, h5, oddposDag_involutive]

/-- **`dagger ∘ dagger`**: the identity for `phase_dual = False` (the default) and multiplication
    by `(-1)^parity` for `phase_dual = True` -/
theorem daggerF_daggerF [LawfulNegConj R] {a : Arr R} (pd : Bool) (h : SignOk a) (hl : SecLen a)
    (hv : SecValid a) (hw : BlocksWf a) (hs : ShapeLen a) (hc : a.sym.valid a.charge = true) :
    ObsEq ((a.daggerF pd).daggerF pd) (if pd && a.parity then negA a else a) := by
  obtain ⟨h1, h2, h3, h4, h5⟩ := daggerF_daggerF_frame a pd pd hc
  have hb := daggerF_daggerF_blocks pd pd hw hs
  have h6 : skel ((a.daggerF pd).daggerF pd) = skel a := by unfold skel; rw [hb]
  have helem : ∀ s off, ((a.daggerF pd).daggerF pd).elem s off
      = sgnI (if pd && a.parity then -1 else 1) (a.elem s off) := by
    intro s off
    refine elem_of_phase hb s (by split <;> simp) h.phases (fun hs' => ?_) off
    have hd : s.reverse ∈ (a.daggerF pd).sectors := by
      rw [daggerF_sectors]; exact List.mem_map_of_mem hs'
    have := daggerF_phOf (h.daggerF pd) pd hd
    rw [List.reverse_reverse] at this
    rw [this, daggerF_phOf h pd hs', ← Int.mul_assoc, dagSign_dag pd (hl s hs') (hv s hs')]
  split
  · rename_i hpar
    refine ⟨h1, h2, h3, h4, h5, by rw [h6, negA_eq, skel_mapVals], fun s off => ?_⟩
    rw [helem, negA_elem, if_pos hpar, sgnI_neg_one]
  · rename_i hpar
    refine ⟨h1, h2, h3, h4, h5, h6, fun s off => ?_⟩
    rw [helem, if_neg hpar, sgnI_one]

end dagdag
/-! ## `einsum` and `fuse` synchronise after their sign operations -/
section einsumfuse

theorem insertSorted_length {α : Type} (lt : α → α → Bool) (a : α) (l : List α) :
    (insertSorted lt a l).length = l.length + 1 := by
  induction l with
  | nil => rfl
  | cons b bs ih => unfold insertSorted; split <;> simp [ih]

theorem mem_insertSorted {α : Type} (lt : α → α → Bool) (a x : α) (l : List α) :
    x ∈ insertSorted lt a l ↔ x = a ∨ x ∈ l := by
  induction l with
  | nil => simp [insertSorted]
  | cons b bs ih =>
    unfold insertSorted; split
    · simp only [List.mem_cons, ih]; tauto
    · simp

theorem isort_length {α : Type} (lt : α → α → Bool) (l : List α) : (isort lt l).length = l.length := by
  induction l with
  | nil => rfl
  | cons a as ih => simp [isort, insertSorted_length, ih]

theorem mem_isort {α : Type} (lt : α → α → Bool) (x : α) (l : List α) : x ∈ isort lt l ↔ x ∈ l := by
  induction l with
  | nil => simp [isort]
  | cons a as ih => simp [isort, mem_insertSorted, ih]

/-- sorting the axes gives a valid permutation argument -/
theorem isPerm_isort (lt : Nat → Nat → Bool) (n : Nat) :
    Arr.isPerm (isort lt (List.range n)) n = true := by
  unfold Arr.isPerm
  simp only [Bool.and_eq_true, beq_iff_eq, List.all_eq_true, List.contains_eq_mem,
    decide_eq_true_eq]
  exact ⟨by rw [isort_length, List.length_range], fun i hi => (mem_isort lt i _).mpr hi⟩

variable {R : Type} [Zero R] [Neg R]

/-- **`einsum` of a fermionic array returns identical results on observationally equal inputs** -/
theorem einsumF_congr [Add R] [LawfulNeg R] {a a' : Arr R} (ha : ObsEq a a') (fa : Full a)
    (fa' : Full a') (lhs rhs : List Nat) : a.einsumF lhs rhs = a'.einsumF lhs rhs := by
  unfold Arr.einsumF
  rw [← ha.ndim, ← ha.indices]
  have key : ∀ lt : Nat → Nat → Bool,
      (a.transposeF (isort lt (List.range a.ndim))).phaseSync
        = (a'.transposeF (isort lt (List.range a.ndim))).phaseSync := by
    intro lt
    have hp := isPerm_isort lt a.ndim
    have hp' : Arr.isPerm (isort lt (List.range a.ndim)) a'.ndim = true := by rw [← ha.ndim]; exact hp
    exact canon (transposeF_congr ha (fa.trOk hp) (fa'.trOk hp')) (fa.transposeF hp)
      (fa'.transposeF hp')
  simp only [key]


theorem phaseFlip_ndim (a : Arr R) (axs : List Nat) : (a.phaseFlip axs).ndim = a.ndim := by
  unfold Arr.ndim; rw [(phaseFlip_frame a axs).2.2.1]

theorem ObsEq.duals {a a' : Arr R} (h : ObsEq a a') : a.duals = a'.duals := by
  unfold Arr.duals; rw [h.indices]

/-- **`fuse` of a fermionic array returns identical results on observationally equal inputs**
    when at least one group is non-empty (then the array is synchronised before the abelian
    fuse).  Guard: the groups' axes are distinct and in range, i.e. the fuse permutation is a
    permutation (Python raises otherwise). -/
theorem fuseF_congr [LawfulNeg R] {a a' : Arr R} (ha : ObsEq a a') (fa : Full a) (fa' : Full a')
    (groups : List (List Nat)) (mode : FuseMode) (expandEmpty : Bool)
    (hne : (groups.filter (fun g => !g.isEmpty)).isEmpty = false)
    (hg : Arr.isPerm (calcFuseGroupInfo (groups.filter (fun g => !g.isEmpty)) a.duals).perm a.ndim = true) :
    a.fuseF groups mode expandEmpty = a'.fuseF groups mode expandEmpty := by
  have hg' : Arr.isPerm (calcFuseGroupInfo (groups.filter (fun g => !g.isEmpty)) a.duals).perm a'.ndim = true := by
    rw [← ha.ndim]; exact hg
  have X1 := transposeF_congr ha (fa.trOk hg) (fa'.trOk hg')
  have FX := fa.transposeF hg
  have FX' := fa'.transposeF hg'
  unfold Arr.fuseF
  simp only [hne, Bool.false_eq_true, if_false]
  rw [← ha.duals]
  generalize a.transposeF (calcFuseGroupInfo (groups.filter (fun g => !g.isEmpty)) a.duals).perm = x1 at *
  generalize a'.transposeF (calcFuseGroupInfo (groups.filter (fun g => !g.isEmpty)) a.duals).perm = x1' at *
  simp only [phaseFlip_ndim, ← X1.ndim, ← X1.indices]
  have key : ∀ (F : List Nat) (V : Option (List Nat)) (c : Bool),
      (if c = true then x1.phaseFlip F else (x1.phaseFlip F).phaseTranspose V).phaseSync
        = (if c = true then x1'.phaseFlip F else (x1'.phaseFlip F).phaseTranspose V).phaseSync := by
    intro F V c
    have h1 := phaseFlip_congr X1 FX.sign FX'.sign F
    split
    · exact canon h1 (FX.phaseFlip F) (FX'.phaseFlip F)
    · exact canon (phaseTranspose_congr h1 (FX.phaseFlip F).sign (FX'.phaseFlip F).sign V)
        ((FX.phaseFlip F).phaseTranspose V) ((FX'.phaseFlip F).phaseTranspose V)
  simp only [key]

end einsumfuse
/-! ## programs of sign / elementwise / transposition operations -/
section prog
variable {R : Type} [Zero R] [Neg R]

theorem trOk_conj_rev [Conj R] {a : Arr R} (pd : Bool) (h : SignOk a) (hl : SecLen a) :
    TrOk (a.conjF true pd) (Arr.reversedAxes a.ndim) :=
  ⟨h.conjF true pd, hl.of_same (conjF_sectors a true pd) (conjF_ndim a true pd),
   by rw [conjF_ndim]; exact isPerm_reversed a.ndim⟩

/-- congruence of `dagger` (which carries pending signs along) -/
theorem daggerF_congr [Conj R] [LawfulNegConj R] {a a' : Arr R} (h : ObsEq a a') (ha : SignOk a)
    (ha' : SignOk a') (hl : SecLen a) (hl' : SecLen a') (pd : Bool) :
    ObsEq (a.daggerF pd) (a'.daggerF pd) := by
  have e1 := dagger_eq_conj_rev pd ha hl
  have e2 := dagger_eq_conj_rev pd ha' hl'
  rw [← h.ndim] at e2
  have t1 := trOk_conj_rev pd ha hl
  have t2 := trOk_conj_rev pd ha' hl'
  rw [← h.ndim] at t2
  exact (e1.trans (transposeF_congr (conjF_congr h ha ha' true pd) t1 t2)).trans e2.symm


/-- the sign operations, elementwise operations and transpositions of a fermionic array -/
inductive SOp where
  | flip (axs : List Nat)                 -- `phase_flip(*axs)`
  | ptranspose (axes : Option (List Nat)) -- `phase_transpose(axes)`
  | global                                -- `phase_global()`
  | sector (s : Sector)                   -- `phase_sector(s)`
  | sync                                  -- `phase_sync()`
  | neg                                   -- `-x`
  | conj (pp pd : Bool)                   -- `conj(phase_permutation, phase_dual)`
  | transpose (axes : List Nat)           -- `transpose(axes)`
  | dagger (pd : Bool)                    -- `dagger(phase_dual)`

def SOp.apply [Conj R] : SOp → Arr R → Arr R
  | .flip axs, a => a.phaseFlip axs
  | .ptranspose axes, a => a.phaseTranspose axes
  | .global, a => a.phaseGlobal
  | .sector s, a => a.phaseSector s
  | .sync, a => a.phaseSync
  | .neg, a => negA a
  | .conj pp pd, a => a.conjF pp pd
  | .transpose axes, a => a.transposeF axes
  | .dagger pd, a => a.daggerF pd

/-- the guard of an operation (where Python raises): `transpose` needs a permutation of the axes -/
def SOp.ok : SOp → Arr R → Prop
  | .transpose axes, a => Arr.isPerm axes a.ndim = true
  | _, _ => True

/-- run a program as written (signs stay pending) -/
def run [Conj R] (p : List SOp) (a : Arr R) : Arr R := p.foldl (fun x op => op.apply x) a

/-- run a program eagerly: `phase_sync()` after every step -/
def runSync [Conj R] (p : List SOp) (a : Arr R) : Arr R :=
  p.foldl (fun x op => (op.apply x).phaseSync) a

/-- all guards hold along the run -/
def runOk [Conj R] : List SOp → Arr R → Prop
  | [], _ => True
  | op :: p, a => op.ok a ∧ runOk p (op.apply a)

theorem SOp.ok_congr (op : SOp) {a a' : Arr R} (h : ObsEq a a') (ho : op.ok a) : op.ok a' := by
  cases op <;> try trivial
  rename_i axes
  change Arr.isPerm axes a.indices.length = true at ho
  change Arr.isPerm axes a'.indices.length = true
  rw [← h.indices]; exact ho

theorem SOp.apply_inv [Conj R] [LawfulNegConj R] (op : SOp) {a : Arr R} (h : Inv a)
    (ho : op.ok a) : Inv (op.apply a) := by
  cases op with
  | flip axs =>
    change Inv (a.phaseFlip axs)
    exact ⟨h.sign.phaseFlip axs, h.len.of_same (by unfold Arr.sectors; rw [phaseFlip_blocks])
      (by unfold Arr.ndim; rw [(phaseFlip_frame a axs).2.2.1])⟩
  | ptranspose axes => exact ⟨h.sign.phaseTranspose axes, h.len.of_same rfl rfl⟩
  | global => exact ⟨h.sign.phaseGlobal, h.len.of_same rfl rfl⟩
  | sector s => exact ⟨h.sign.phaseSector s, h.len.of_same rfl rfl⟩
  | sync => exact ⟨h.sign.phaseSync, h.len.of_same (phaseSync_sectors a) rfl⟩
  | neg => exact ⟨h.sign.mapVals _, h.len.of_same (mapVals_sectors _ a) rfl⟩
  | conj pp pd =>
    change Inv (a.conjF pp pd)
    refine ⟨h.sign.conjF pp pd, h.len.of_same ?_ ?_⟩
    · rw [← skel_sectors, (conjF_frame a pp pd).2.2.2.2.2, skel_sectors]
    · unfold Arr.ndim; rw [(conjF_frame a pp pd).2.2.1, List.length_map]
  | transpose axes => exact ⟨SignOk.transposeF a axes, SecLen.transposeF ⟨h.sign, h.len, ho⟩⟩
  | dagger pd =>
    refine ⟨h.sign.daggerF pd, ?_⟩
    intro t ht
    change t ∈ (a.daggerF pd).sectors at ht
    rw [daggerF_sectors] at ht
    obtain ⟨s, hs, rfl⟩ := List.mem_map.mp ht
    change s.reverse.length = (a.daggerF pd).ndim
    rw [daggerF_ndim, List.length_reverse]; exact h.len s hs

/-- every operation gives observationally equal results on observationally equal inputs — in
    particular on an array and on its synchronised copy -/
theorem SOp.apply_congr [Conj R] [LawfulNegConj R] (op : SOp) {a a' : Arr R} (h : ObsEq a a')
    (ha : Inv a) (ha' : Inv a') (ho : op.ok a) : ObsEq (op.apply a) (op.apply a') := by
  cases op with
  | flip axs => exact phaseFlip_congr h ha.sign ha'.sign axs
  | ptranspose axes => exact phaseTranspose_congr h ha.sign ha'.sign axes
  | global => exact phaseGlobal_congr h ha.sign ha'.sign
  | sector s => exact phaseSector_congr h ha.sign ha'.sign s
  | sync => exact phaseSync_congr h
  | neg => exact negA_congr h
  | conj pp pd => exact conjF_congr h ha.sign ha'.sign pp pd
  | transpose axes =>
    exact transposeF_congr h ⟨ha.sign, ha.len, ho⟩
      ⟨ha'.sign, ha'.len, SOp.ok_congr (.transpose axes) h ho⟩
  | dagger pd => exact daggerF_congr h ha.sign ha'.sign ha.len ha'.len pd

theorem Inv.phaseSync {a : Arr R} (h : Inv a) : Inv a.phaseSync :=
  ⟨h.sign.phaseSync, h.len.of_same (phaseSync_sectors a) rfl⟩

theorem run_inv [Conj R] [LawfulNegConj R] (p : List SOp) {a : Arr R} (h : Inv a)
    (ho : runOk p a) : Inv (run p a) := by
  induction p generalizing a with
  | nil => exact h
  | cons op p ih => exact ih (op.apply_inv h ho.1) ho.2

theorem run_congr [Conj R] [LawfulNegConj R] (p : List SOp) {a a' : Arr R} (h : ObsEq a a')
    (ha : Inv a) (ha' : Inv a') (ho : runOk p a) : ObsEq (run p a) (run p a') := by
  induction p generalizing a a' with
  | nil => exact h
  | cons op p ih =>
    exact ih (op.apply_congr h ha ha' ho.1) (op.apply_inv ha ho.1)
      (op.apply_inv ha' (op.ok_congr h ho.1)) ho.2

theorem run_runSync [Conj R] [LawfulNegConj R] (p : List SOp) {a a' : Arr R} (h : ObsEq a a')
    (ha : Inv a) (ha' : Inv a') (ho : runOk p a) : ObsEq (run p a) (runSync p a') := by
  induction p generalizing a a' with
  | nil => exact h
  | cons op p ih =>
    exact ih ((op.apply_congr h ha ha' ho.1).trans (phaseSync_obsEq _).symm) (op.apply_inv ha ho.1)
      (op.apply_inv ha' (op.ok_congr h ho.1)).phaseSync ho.2

end prog

end SymmModel.Lazy
