/-
  SymmModel.Proofs.Recon3Iso — the structure clauses of C11 that are per-block kernel contracts
  ("every block of Q and U has orthonormal columns, every block of V† orthonormal rows, R blocks
  upper triangular"), transported to the VALUE VIEW of the returned arrays (pending signs
  included — they are `±1` per sector and cancel in a Gram sum), for abelian and fermionic
  inputs alike.  Namespace `SymmModel.Recon3P`.
-/
import SymmModel.Proofs.Recon3Trunc

namespace SymmModel

variable {R : Type}

/-- the Q factor of ONE block `b` (`m × n`, `k = min m n`) has orthonormal columns w.r.t. `conj` -/
def Kernels.QIsoBlock [CommRing R] (conj : R →+* R) (K : Kernels R) (b : Blk R) : Prop :=
  ∀ m n, b.shape = [m, n] → ∀ t t', t < min m n → t' < min m n →
    (List.range m).foldl
        (fun acc i => acc + conj ((K.qr b).1.get [i, t]) * (K.qr b).1.get [i, t']) 0
      = (if t = t' then 1 else 0)

/-- the R factor of ONE block (`k × n`, `k = min m n`) is upper triangular -/
def Kernels.RUpperBlock [Zero R] (K : Kernels R) (b : Blk R) : Prop :=
  ∀ m n, b.shape = [m, n] → ∀ t j, t < min m n → j < t → (K.qr b).2.get [t, j] = 0

namespace Recon3P
set_option linter.unusedSectionVars false
open LinalgLemmas ReconP Recon2P

/-- a Gram sum does not see a common sign -/
theorem gram_signed [CommRing R] (conj : R →+* R) (σ : Bool) (f g : Nat → R) (n : Nat) :
    (List.range n).foldl (fun acc i =>
        acc + conj (if σ then - f i else f i) * (if σ then - g i else g i)) 0
      = (List.range n).foldl (fun acc i => acc + conj (f i) * g i) 0 := by
  apply foldl_ext'
  intro acc i _
  cases σ with
  | false => rfl
  | true => simp only [if_true, map_neg, neg_mul_neg]

section left
variable [CommRing R] {x : Arr R} {L Rt : Blk R → Blk R}

/-- columns of the left factor, value view -/
theorem leftF_gram (conj : R →+* R) (hv : x.validB = true) {s : Sector} {b : Blk R}
    (hm : (s, b) ∈ x.blocks) (m : Nat) (t t' : Nat) :
    (List.range m).foldl (fun acc i =>
        acc + conj ((leftF x L).elem s [i, t]) * (leftF x L).elem s [i, t']) 0
      = (List.range m).foldl (fun acc i => acc + conj ((L b).get [i, t]) * (L b).get [i, t']) 0 := by
  have hnd : (leftF x L).sectors.Nodup := by rw [leftF_sectors]; exact sectors_nodup hv
  have hm' : (s, L b) ∈ (leftF x L).blocks := List.mem_map.mpr ⟨(s, b), hm, rfl⟩
  have he : ∀ off, (leftF x L).elem s off
      = if alookup x.phases s == some (-1) then - (L b).get off else (L b).get off :=
    fun off => elem_of_mem hnd hm' off
  simp only [he]
  exact gram_signed conj _ (fun i => (L b).get [i, t]) (fun i => (L b).get [i, t']) m

/-- rows of the right factor, value view -/
theorem rightF_gram (conj : R →+* R) (hv : x.validB = true) (h2 : x.ndim = 2) {s : Sector}
    {b : Blk R} (hm : (s, b) ∈ x.blocks) (n : Nat) (t t' : Nat) :
    (List.range n).foldl (fun acc j =>
        acc + conj ((rightF x L Rt).elem (diagOf s) [t, j]) * (rightF x L Rt).elem (diagOf s) [t', j]) 0
      = (List.range n).foldl (fun acc j => acc + conj ((Rt b).get [t, j]) * (Rt b).get [t', j]) 0 := by
  have hnd : (rightF x L Rt).sectors.Nodup := by rw [rightF_sectors]; exact diag_nodup hv h2
  have hm' : (diagOf s, Rt b) ∈ (rightF x L Rt).blocks := by
    rw [rightF_fields.2.2.2.2.1]; exact List.mem_map.mpr ⟨(s, b), hm, rfl⟩
  have he : ∀ off, (rightF x L Rt).elem (diagOf s) off
      = if alookup (rightF x L Rt).phases (diagOf s) == some (-1) then - (Rt b).get off
        else (Rt b).get off :=
    fun off => elem_of_mem hnd hm' off
  simp only [he]
  exact gram_signed conj _ (fun j => (Rt b).get [t, j]) (fun j => (Rt b).get [t', j]) n

/-- a zero entry of a right-factor block is a zero of the value view -/
theorem rightF_zero (hv : x.validB = true) (h2 : x.ndim = 2) {s : Sector}
    {b : Blk R} (hm : (s, b) ∈ x.blocks) (off : List Nat) (h0 : (Rt b).get off = 0) :
    (rightF x L Rt).elem (diagOf s) off = 0 := by
  have hnd : (rightF x L Rt).sectors.Nodup := by rw [rightF_sectors]; exact diag_nodup hv h2
  have hm' : (diagOf s, Rt b) ∈ (rightF x L Rt).blocks := by
    rw [rightF_fields.2.2.2.2.1]; exact List.mem_map.mpr ⟨(s, b), hm, rfl⟩
  rw [elem_of_mem hnd hm' off, h0]
  split <;> simp

end left

/-! ### array level (abelian): `Q† · Q`, `U† · U`, `VH · VH†` through the library's contraction -/

/-- contraction `a · b` (axes `(1, 0)`) when `a` stores its blocks on the sectors `(c, r)` and `b`
    on `(r, c)` (one item per row charge and per column charge): one product per sector `(c, c)` -/
theorem tdot_blocks_adj [Zero R] [Add R] [Mul R] {α : Type} (l : List α) (row col : α → Charge)
    (hrow : (l.map row).Nodup) (hcol : (l.map col).Nodup) (fA fB : α → Blk R) (a b : Arr R)
    (ha : a.blocks = l.map (fun p => ([col p, row p], fA p)))
    (hb : b.blocks = l.map (fun p => ([row p, col p], fB p))) :
    (tensordotBlockwise a b [0] [1] [0] [1]).blocks
      = l.map (fun p => ([col p, col p], (fA p).tensordotK (fB p) [1] [0])) := by
  have hpairs : (a.blocks.flatMap (fun (sa, ba) =>
      let ka := permuted sa [1]
      (b.blocks.filter (fun (sb, _) => permuted sb [0] == ka)).map (fun (sb, bb) =>
        (permuted sa [0] ++ permuted sb [1], ba, bb))))
      = l.map (fun p => ([col p, col p], fA p, fB p)) := by
    rw [ha, hb, List.flatMap_map]
    apply flatMap_eq_map_of_singleton
    intro p hp
    simp only [List.filter_map]
    have hf : l.filter ((fun (q : Sector × Blk R) => permuted q.1 [0] == permuted [col p, row p] [1])
        ∘ fun p => ([row p, col p], fB p)) = [p] := by
      apply filter_key_eq_singleton l row hrow hp
      intro q _
      simp only [Function.comp]
      show ([row q] == [row p]) = true ↔ _
      simp
    rw [hf]
    rfl
  unfold tensordotBlockwise
  simp only []
  rw [hpairs]
  have hk : ((l.map (fun p => ([col p, col p], fA p, fB p))).map (·.1)).Nodup := by
    have h' := nodup_map_of_inj _ (fun c : Charge => [c, c]) hcol
      (fun a _ b _ e => (List.cons.inj e).1)
    simpa [List.map_map, Function.comp_def] using h'
  have := accum_fold (R := R) [1] [0] (l.map (fun p => ([col p, col p], fA p, fB p))) []
    (by simpa using hk)
  simp only [List.nil_append, List.map_map, Function.comp_def] at this
  exact this

section array
variable [CommRing R] [Conj R] {x : Arr R}

/-- blocks of the abelian adjoint (`conj` then axes reversed) of a left factor -/
theorem adjA_leftF (hv : x.validB = true) (h2 : x.ndim = 2) (L : Blk R → Blk R) :
    (leftF x L).adjA.blocks = x.blocks.map (fun p =>
      ([colOf p.1, rowOf p.1], ((L p.2).conjK).transposeK [1, 0])) := by
  obtain ⟨i0, i1, hi⟩ := ndim_two h2
  have hr : Arr.reversedAxes (leftF x L).conjA.ndim = [1, 0] := rfl
  unfold Arr.adjA
  have hr' : Arr.reversedAxes (leftF x L).ndim = [1, 0] := rfl
  rw [hr']
  simp only [Arr.transposeA, Arr.conjA, leftF, List.map_map, Function.comp_def]
  have he : x.blocks.map (fun p => (permuted p.1 [1, 0], ((L p.2).conjK).transposeK [1, 0]))
      = x.blocks.map (fun p => ([colOf p.1, rowOf p.1], ((L p.2).conjK).transposeK [1, 0])) := by
    apply List.map_congr_left
    intro p hp
    obtain ⟨r, c, m, n, B⟩ := mat_block hv hi (s := p.1) (b := p.2) hp
    rw [B.hs]; rfl
  rw [he]
  apply adict_of_nodup
  have hnd := sectors_nodup hv
  have : (x.blocks.map (fun p => [colOf p.1, rowOf p.1])).Nodup := by
    have hb : x.blocks.Nodup := List.Nodup.of_map (·.1) (show (x.blocks.map (·.1)).Nodup from hnd)
    apply nodup_map_of_inj x.blocks (fun p : Sector × Blk R => [colOf p.1, rowOf p.1]) hb
    · intro p hp q hq e
      obtain ⟨r, c, m, n, B⟩ := mat_block hv hi (s := p.1) (b := p.2) hp
      obtain ⟨r', c', m', n', B'⟩ := mat_block hv hi (s := q.1) (b := q.2) hq
      have e1 : colOf p.1 = colOf q.1 := (List.cons.inj e).1
      have e2 : rowOf p.1 = rowOf q.1 := (List.cons.inj (List.cons.inj e).2).1
      have hs : p.1 = q.1 := by
        rw [B.hs, B'.hs] at e1 e2 ⊢
        simp only [colOf, rowOf, List.getD_cons_zero, List.getD_cons_succ] at e1 e2
        rw [e1, e2]
      have h1 := alookup_of_mem_nodup hnd hp
      have h2' := alookup_of_mem_nodup hnd hq
      rw [hs] at h1
      have : p.2 = q.2 := Option.some.inj (h1.symm.trans h2')
      exact Prod.ext hs this
  simpa [List.map_map, Function.comp_def] using this

/-- blocks of the abelian adjoint of a right factor (an abelian `x`: no flip) -/
theorem adjA_rightF (hv : x.validB = true) (h2 : x.ndim = 2) (L Rt : Blk R → Blk R) :
    (rightF x L Rt).adjA.blocks = x.blocks.map (fun p =>
      (diagOf p.1, ((Rt p.2).conjK).transposeK [1, 0])) := by
  have hr' : Arr.reversedAxes (rightF x L Rt).ndim = [1, 0] := by rw [rightF_ndim]; rfl
  unfold Arr.adjA
  rw [hr']
  simp only [Arr.transposeA, Arr.conjA, (rightF_fields (x := x) (L := L) (Rt := Rt)).2.2.2.2.1,
    List.map_map, Function.comp_def]
  have hperm : ∀ c : Charge, permuted [c, c] [1, 0] = [c, c] := fun _ => rfl
  simp only [hperm]
  apply adict_of_nodup
  have := diag_nodup hv h2
  simpa [Arr.sectors, List.map_map, Function.comp_def, diagOf] using this

/-- **`L† · L` at array level** (abelian): the blockwise contraction of the adjoint of the left
    factor with the left factor stores one block per bond charge, on the diagonal sector, with
    entries the Gram sums of the columns of the block -/
theorem gram_left_array (conj : R →+* R) (hcj : ∀ v : R, Conj.conj v = conj v)
    (hv : x.validB = true) (h2 : x.ndim = 2) (hf : x.fermi = false) {L Rt : Blk R → Blk R}
    (hL : FacShape L Rt) :
    let G := tensordotBlockwise (leftF x L).adjA (leftF x L) [0] [1] [0] [1]
    G.sectors = x.sectors.map diagOf ∧ G.phases = []
    ∧ ∀ s b, (s, b) ∈ x.blocks → ∀ m n, b.shape = [m, n] → ∀ t t', t < min m n → t' < min m n →
        G.elem (diagOf s) [t, t']
          = (List.range m).foldl (fun acc i => acc + conj ((L b).get [i, t]) * (L b).get [i, t']) 0 := by
  intro G
  obtain ⟨i0, i1, hi⟩ := ndim_two h2
  have hc0 : Conj.conj (0 : R) = 0 := by rw [hcj]; exact map_zero conj
  have hrows : (x.blocks.map (fun p => rowOf p.1)).Nodup := by
    have := rowCharges_nodup hv h2
    simpa [Arr.sectors, List.map_map, Function.comp_def, rowOf] using this
  have hcols : (x.blocks.map (fun p => colOf p.1)).Nodup := by
    have := colCharges_nodup hv h2
    simpa [Arr.sectors, List.map_map, Function.comp_def, colOf] using this
  have hlb : (leftF x L).blocks = x.blocks.map (fun p => ([rowOf p.1, colOf p.1], L p.2)) := by
    show x.blocks.map (fun p => (p.1, L p.2)) = _
    apply List.map_congr_left
    intro p hp
    obtain ⟨r, c, m, n, B⟩ := mat_block hv hi (s := p.1) (b := p.2) hp
    rw [B.hs]; rfl
  have hG : G.blocks = x.blocks.map (fun p => ([colOf p.1, colOf p.1],
      (((L p.2).conjK).transposeK [1, 0]).tensordotK (L p.2) [1] [0])) :=
    tdot_blocks_adj x.blocks (fun p => rowOf p.1) (fun p => colOf p.1) hrows hcols _ _ _ _
      (adjA_leftF hv h2 L) hlb
  have hph : G.phases = [] := by
    show (leftF x L).adjA.phases = []
    show x.phases = []
    exact abelian_phases hv hf
  refine ⟨by simp [Arr.sectors, hG, List.map_map, Function.comp_def, diagOf], hph, ?_⟩
  intro s b hm m n hs t t' ht ht'
  have hwf : b.wf = true := (((validB_iff x).mp hv).2.2.2.1 s b hm).2.2.2
  obtain ⟨l1, _, _, _⟩ := hL b m n hs hwf
  have hnd : (G.blocks.map (·.1)).Nodup := by
    rw [hG, List.map_map]
    have h' := nodup_map_of_inj _ (fun c : Charge => [c, c]) hcols
      (fun a _ b _ e => (List.cons.inj e).1)
    simpa [List.map_map, Function.comp_def] using h'
  have hl : alookup G.blocks (diagOf s)
      = some ((((L b).conjK).transposeK [1, 0]).tensordotK (L b) [1] [0]) := by
    apply alookup_of_mem_nodup hnd
    rw [hG]; exact List.mem_map.mpr ⟨(s, b), hm, rfl⟩
  simp only [Arr.elem, hl, hph, alookup]
  rw [tensordotK_matmul_get _ _ (transposeK10_shape _ (by rw [conjK_shape]; exact l1)) l1 ht ht']
  apply foldl_ext'
  intro acc i hi'
  have hi'' := List.mem_range.mp hi'
  rw [transposeK10_get _ (by rw [conjK_shape]; exact l1) ht hi'', conjK_get hc0, hcj]

/-- **`Rt · Rt†` at array level** (abelian) -/
theorem gram_right_array (conj : R →+* R) (hcj : ∀ v : R, Conj.conj v = conj v)
    (hv : x.validB = true) (h2 : x.ndim = 2) (hf : x.fermi = false) {L Rt : Blk R → Blk R}
    (hL : FacShape L Rt) :
    let G := tensordotBlockwise (rightF x L Rt) (rightF x L Rt).adjA [0] [1] [0] [1]
    G.sectors = x.sectors.map diagOf ∧ G.phases = []
    ∧ ∀ s b, (s, b) ∈ x.blocks → ∀ m n, b.shape = [m, n] → ∀ t t', t < min m n → t' < min m n →
        G.elem (diagOf s) [t, t']
          = (List.range n).foldl (fun acc j => acc + conj ((Rt b).get [t', j]) * (Rt b).get [t, j]) 0 := by
  intro G
  obtain ⟨i0, i1, hi⟩ := ndim_two h2
  have hc0 : Conj.conj (0 : R) = 0 := by rw [hcj]; exact map_zero conj
  have hcols : (x.blocks.map (fun p => colOf p.1)).Nodup := by
    have := colCharges_nodup hv h2
    simpa [Arr.sectors, List.map_map, Function.comp_def, colOf] using this
  have hdiag : (x.blocks.map (fun p => diagOf p.1)).Nodup := by
    have := diag_nodup hv h2
    simpa [Arr.sectors, List.map_map, Function.comp_def] using this
  have hG : G.blocks = x.blocks.map (fun p => (diagOf p.1,
      (Rt p.2).tensordotK (((Rt p.2).conjK).transposeK [1, 0]) [1] [0])) :=
    tdot_blocks_items x.blocks (fun p => diagOf p.1) (fun _ _ => rfl) hdiag
      (by simpa [diagOf, colOf] using hcols) _ _ _ _
      (by rw [rightF_fields.2.2.2.2.1]) (by rw [adjA_rightF hv h2 L Rt]; rfl)
  have hph : G.phases = [] := by
    show (rightF x L Rt).phases = []
    have hx : x.fermi = false := hf
    unfold rightF
    simp [hx, rightF0]
  refine ⟨by simp [Arr.sectors, hG, List.map_map, Function.comp_def], hph, ?_⟩
  intro s b hm m n hs t t' ht ht'
  have hwf : b.wf = true := (((validB_iff x).mp hv).2.2.2.1 s b hm).2.2.2
  obtain ⟨_, _, l3, _⟩ := hL b m n hs hwf
  have hnd : (G.blocks.map (·.1)).Nodup := by
    rw [hG, List.map_map]; exact hdiag
  have hl : alookup G.blocks (diagOf s)
      = some ((Rt b).tensordotK (((Rt b).conjK).transposeK [1, 0]) [1] [0]) := by
    apply alookup_of_mem_nodup hnd
    rw [hG]; exact List.mem_map.mpr ⟨(s, b), hm, rfl⟩
  simp only [Arr.elem, hl, hph, alookup]
  rw [tensordotK_matmul_get _ _ l3 (transposeK10_shape _ (by rw [conjK_shape]; exact l3)) ht ht']
  apply foldl_ext'
  intro acc j hj'
  have hj'' := List.mem_range.mp hj'
  rw [transposeK10_get _ (by rw [conjK_shape]; exact l3) hj'' ht', conjK_get hc0, hcj, mul_comm]

end array

end Recon3P
end SymmModel
