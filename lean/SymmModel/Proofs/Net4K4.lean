/-
  SymmModel.Proofs.Net4K4 — property C04 for four-tensor networks that are NOT chains: four tensors
  `A, B, C, D` with a (possibly empty) bond between EVERY pair (the complete graph K4; the square,
  the star, the triangle with a pendant tensor and the chain are the special cases with some bond
  lists empty).  All five bracketings of `A·B·C·D` succeed and are `Eqv`.
  Proof: S7 in triangle form (`assoc_eqv_w`) for `(A,B,C)`, `(B,C,D)`, `(A·B,C,D)`, `(A,B,C·D)`,
  congruence (`tdotF_congr`), and S4 under the weak guard (`Net4Relist`) to identify the two axis
  listings of `(A·B)·(C·D)` that the two applications of S7 produce.
  Namespace `SymmModel.Net4P`.
-/
import SymmModel.Proofs.Net4Relist

namespace SymmModel
namespace Net4P
open TdotP GradedP RoutesP KoszulP AssocP Assoc2P Assoc3P
set_option linter.unusedSectionVars false

variable {R : Type}

theorem positions_append (l x y : List Nat) :
    positions l (x ++ y) = positions l x ++ positions l y := by
  unfold positions; exact List.filterMap_append

theorem _root_.SymmModel.AssocP.Mid.toNodup {n : Nat} {x y : List Nat} (h : Mid n x y) : (x ++ y).Nodup :=
  List.nodup_append.mpr ⟨h.n1, h.n2, fun a ha _ hb e => h.disj a ha (e ▸ hb)⟩

/-- the images in `A·B` of two disjoint families of free legs are disjoint -/
theorem mid_axesAB {nA nB : Nat} {xa1 u v xb1 s t : List Nat} (mA : Mid nA xa1 (u ++ v))
    (mB : Mid nB xb1 (s ++ t)) :
    Mid ((freeAxes nA xa1).length + (freeAxes nB xb1).length)
      (Assoc2P.axesAB nA nB xa1 u xb1 s) (Assoc2P.axesAB nA nB xa1 v xb1 t) := by
  have hn := Assoc2P.axesAB_nodup mA mB
  have hlt := Assoc2P.axesAB_lt mA mB
  have hp : (Assoc2P.axesAB nA nB xa1 u xb1 s ++ Assoc2P.axesAB nA nB xa1 v xb1 t).Perm
      (Assoc2P.axesAB nA nB xa1 (u ++ v) xb1 (s ++ t)) := by
    unfold Assoc2P.axesAB
    rw [positions_append, positions_append, List.map_append]
    simp only [List.append_assoc]
    refine List.Perm.append_left _ ?_
    rw [← List.append_assoc, ← List.append_assoc]
    exact List.Perm.append_right _ List.perm_append_comm
  exact Mid.of (hp.nodup_iff.mpr hn) (fun i hi => hlt i (hp.mem_iff.mp hi))

/-- the `Mid` facts of three pairwise disjoint leg lists of one tensor -/
theorem mid3 {n : Nat} {x y z : List Nat} (hn : (x ++ y ++ z).Nodup) (hx : ∀ i ∈ x, i < n)
    (hy : ∀ i ∈ y, i < n) (hz : ∀ i ∈ z, i < n) :
    Mid n x y ∧ Mid n x z ∧ Mid n y z ∧ Mid n x (y ++ z) ∧ Mid n (x ++ y) z := by
  have lt2 : ∀ {p q : List Nat}, (∀ i ∈ p, i < n) → (∀ i ∈ q, i < n) → ∀ i ∈ p ++ q, i < n := by
    intro p q hp hq i hi
    rcases List.mem_append.mp hi with h | h
    · exact hp i h
    · exact hq i h
  refine ⟨Mid.of (hn.sublist (List.sublist_append_left _ _)) (lt2 hx hy),
    Mid.of (hn.sublist ((List.sublist_append_left x y).append (List.Sublist.refl z))) (lt2 hx hz),
    Mid.of (hn.sublist ((List.sublist_append_right x y).append (List.Sublist.refl z))) (lt2 hy hz),
    Mid.of (by rw [← List.append_assoc]; exact hn) (lt2 hx (lt2 hy hz)),
    Mid.of hn (lt2 (lt2 hx hy) hz)⟩

section
variable [AddCommMonoid R] [Mul R] [Neg R] [SignRing R] [AssocLaws R]

/-- by-products of the K4 calls: the guards of all non-leaf calls and the label permutations -/
structure K4Extra (A B C D AB BC CD ABC1 ABC2 BCD1 BCD2 : Arr R)
    (ab ac ad ba bc bd ca cb cd da db dc : List Nat) : Prop where
  wABc : AdmW AB C (Assoc2P.axesAB A.ndim B.ndim ab ac ba bc) (ca ++ cb)
  waBC : AdmW A BC (ab ++ ac) (Assoc2P.axesBC B.ndim C.ndim ba bc cb ca)
  wBCd : AdmW BC D (Assoc2P.axesAB B.ndim C.ndim bc bd cb cd) (db ++ dc)
  wbCD : AdmW B CD (bc ++ bd) (Assoc2P.axesBC C.ndim D.ndim cb cd dc db)
  wT1 : AdmW ABC1 D (Assoc2P.axesAB ((freeAxes A.ndim ab).length + (freeAxes B.ndim ba).length) C.ndim (Assoc2P.axesAB A.ndim B.ndim ab ac ba bc) (Assoc2P.axesAB A.ndim B.ndim ab ad ba bd) (ca ++ cb) cd) ((da ++ db) ++ dc)
  wT2 : AdmW ABC2 D (Assoc2P.axesAB ((freeAxes A.ndim ab).length + (freeAxes B.ndim ba).length) C.ndim (Assoc2P.axesAB A.ndim B.ndim ab ac ba bc) (Assoc2P.axesAB A.ndim B.ndim ab ad ba bd) (ca ++ cb) cd) ((da ++ db) ++ dc)
  wT3 : AdmW AB CD ((Assoc2P.axesAB A.ndim B.ndim ab ac ba bc) ++ (Assoc2P.axesAB A.ndim B.ndim ab ad ba bd)) (Assoc2P.axesBC C.ndim D.ndim (ca ++ cb) cd dc (da ++ db))
  wT4 : AdmW A BCD1 (ab ++ (ac ++ ad)) (Assoc2P.axesBC B.ndim ((freeAxes C.ndim cd).length + (freeAxes D.ndim dc).length) ba (bc ++ bd) (Assoc2P.axesBC C.ndim D.ndim cb cd dc db) (Assoc2P.axesBC C.ndim D.ndim ca cd dc da))
  wT5 : AdmW A BCD2 (ab ++ (ac ++ ad)) (Assoc2P.axesBC B.ndim ((freeAxes C.ndim cd).length + (freeAxes D.ndim dc).length) ba (bc ++ bd) (Assoc2P.axesBC C.ndim D.ndim cb cd dc db) (Assoc2P.axesBC C.ndim D.ndim ca cd dc da))
  pAB : AB.oddpos.Perm (A.oddpos ++ B.oddpos)
  pBC : BC.oddpos.Perm (B.oddpos ++ C.oddpos)
  pCD : CD.oddpos.Perm (C.oddpos ++ D.oddpos)
  pABC1 : ABC1.oddpos.Perm (AB.oddpos ++ C.oddpos)
  pABC2 : ABC2.oddpos.Perm (A.oddpos ++ BC.oddpos)
  pBCD1 : BCD1.oddpos.Perm (BC.oddpos ++ D.oddpos)
  pBCD2 : BCD2.oddpos.Perm (B.oddpos ++ CD.oddpos)

/-- **K4: all five bracketings of `A·B·C·D` with a bond between every pair agree.**
    Leg lists: `ab ~ ba`, `ac ~ ca`, `ad ~ da`, `bc ~ cb`, `bd ~ db`, `cd ~ dc`. -/
theorem k4x (A B C D : Arr R) (ab ac ad ba bc bd ca cb cd da db dc : List Nat)
    (WAB : AdmW A B ab ba) (WAC : AdmW A C ac ca) (WAD : AdmW A D ad da)
    (WBC : AdmW B C bc cb) (WBD : AdmW B D bd db) (WCD : AdmW C D cd dc)
    (hnA : (ab ++ ac ++ ad).Nodup) (hnB : (ba ++ bc ++ bd).Nodup)
    (hnC : (ca ++ cb ++ cd).Nodup) (hnD : (da ++ db ++ dc).Nodup)
    (hd : OddposP.LabelsDistinct (A.oddpos ++ B.oddpos ++ C.oddpos ++ D.oddpos)) :
    ∃ AB BC CD ABC1 ABC2 BCD1 BCD2 T1 T2 T3 T4 T5 : Arr R,
      tdF A B ab ba = .ok AB ∧ tdF B C bc cb = .ok BC ∧ tdF C D cd dc = .ok CD
      ∧ tdF AB C (Assoc2P.axesAB A.ndim B.ndim ab ac ba bc) (ca ++ cb) = .ok ABC1
      ∧ tdF A BC (ab ++ ac) (Assoc2P.axesBC B.ndim C.ndim ba bc cb ca) = .ok ABC2
      ∧ tdF BC D (Assoc2P.axesAB B.ndim C.ndim bc bd cb cd) (db ++ dc) = .ok BCD1
      ∧ tdF B CD (bc ++ bd) (Assoc2P.axesBC C.ndim D.ndim cb cd dc db) = .ok BCD2
      ∧ tdF ABC1 D (Assoc2P.axesAB ((freeAxes A.ndim ab).length + (freeAxes B.ndim ba).length) C.ndim (Assoc2P.axesAB A.ndim B.ndim ab ac ba bc)
            (Assoc2P.axesAB A.ndim B.ndim ab ad ba bd) (ca ++ cb) cd) ((da ++ db) ++ dc) = .ok T1
      ∧ tdF ABC2 D (Assoc2P.axesAB ((freeAxes A.ndim ab).length + (freeAxes B.ndim ba).length) C.ndim (Assoc2P.axesAB A.ndim B.ndim ab ac ba bc)
            (Assoc2P.axesAB A.ndim B.ndim ab ad ba bd) (ca ++ cb) cd) ((da ++ db) ++ dc) = .ok T2
      ∧ tdF AB CD (Assoc2P.axesAB A.ndim B.ndim ab ac ba bc ++ Assoc2P.axesAB A.ndim B.ndim ab ad ba bd)
            (Assoc2P.axesBC C.ndim D.ndim (ca ++ cb) cd dc (da ++ db)) = .ok T3
      ∧ tdF A BCD1 (ab ++ (ac ++ ad)) (Assoc2P.axesBC B.ndim ((freeAxes C.ndim cd).length + (freeAxes D.ndim dc).length) ba (bc ++ bd)
            (Assoc2P.axesBC C.ndim D.ndim cb cd dc db) (Assoc2P.axesBC C.ndim D.ndim ca cd dc da)) = .ok T4
      ∧ tdF A BCD2 (ab ++ (ac ++ ad)) (Assoc2P.axesBC B.ndim ((freeAxes C.ndim cd).length + (freeAxes D.ndim dc).length) ba (bc ++ bd)
            (Assoc2P.axesBC C.ndim D.ndim cb cd dc db) (Assoc2P.axesBC C.ndim D.ndim ca cd dc da)) = .ok T5
      ∧ Eqv T2 T1 ∧ Eqv T3 T1 ∧ Eqv T4 T1 ∧ Eqv T5 T1 ∧ T1.validB = true
      ∧ K4Extra A B C D AB BC CD ABC1 ABC2 BCD1 BCD2 ab ac ad ba bc bd ca cb cd da db dc := by
  -- leg geometry
  obtain ⟨mA_bc, mA_bd, mA_cd, mA_b_cd, _⟩ := mid3 hnA WAB.ltA WAC.ltA WAD.ltA
  obtain ⟨mB_ac, mB_ad, mB_cd, mB_a_cd, _⟩ := mid3 hnB WAB.ltB WBC.ltA WBD.ltA
  obtain ⟨mC_ab, mC_ad, mC_bd, _, mC_ab_d⟩ := mid3 hnC WAC.ltB WBC.ltB WCD.ltA
  obtain ⟨mD_ab, mD_ac, mD_bc, _, mD_ab_c⟩ := mid3 hnD WAD.ltB WBD.ltB WCD.ltB
  have TABC : TriW A B C ab ac ba bc cb ca := ⟨WAB, WBC, mA_bc, mB_ac, mC_ab.symm, WAC.con⟩
  have TABD : TriW A B D ab ad ba bd db da := ⟨WAB, WBD, mA_bd, mB_ad, mD_ab.symm, WAD.con⟩
  have TBCD : TriW B C D bc bd cb cd dc db := ⟨WBC, WCD, mB_cd, mC_bd, mD_bc.symm, WBD.con⟩
  have TACD : TriW A C D ac ad ca cd dc da := ⟨WAC, WCD, mA_cd, mC_ad, mD_ac.symm, WAD.con⟩
  -- label bookkeeping
  have e1 : A.oddpos ++ B.oddpos ++ C.oddpos ++ D.oddpos
      = A.oddpos ++ (B.oddpos ++ C.oddpos ++ D.oddpos) := by simp [List.append_assoc]
  have e2 : A.oddpos ++ B.oddpos ++ C.oddpos ++ D.oddpos
      = A.oddpos ++ B.oddpos ++ (C.oddpos ++ D.oddpos) := by simp [List.append_assoc]
  have s_abc : (A.oddpos ++ B.oddpos ++ C.oddpos).Sublist
      (A.oddpos ++ B.oddpos ++ C.oddpos ++ D.oddpos) := List.sublist_append_left _ _
  have s_bcd : (B.oddpos ++ C.oddpos ++ D.oddpos).Sublist
      (A.oddpos ++ B.oddpos ++ C.oddpos ++ D.oddpos) := by rw [e1]; exact List.sublist_append_right _ _
  have h_ab : OddposP.LabelsDistinct (A.oddpos ++ B.oddpos) :=
    dist_of hd _ (List.Perm.refl _) ((List.sublist_append_left _ _).trans s_abc)
  have h_bc : OddposP.LabelsDistinct (B.oddpos ++ C.oddpos) :=
    dist_of hd _ (List.Perm.refl _) ((List.sublist_append_left _ _).trans s_bcd)
  have h_cd : OddposP.LabelsDistinct (C.oddpos ++ D.oddpos) :=
    dist_of hd _ (List.Perm.refl _) (by rw [e2]; exact List.sublist_append_right _ _)
  have h_abc : OddposP.LabelsDistinct (A.oddpos ++ B.oddpos ++ C.oddpos) :=
    dist_of hd _ (List.Perm.refl _) s_abc
  have h_bcd : OddposP.LabelsDistinct (B.oddpos ++ C.oddpos ++ D.oddpos) :=
    dist_of hd _ (List.Perm.refl _) s_bcd
  -- first-level calls
  obtain ⟨AB, phAB, eAB, IAB, pAB⟩ := call_pack A B ab ba WAB h_ab
  obtain ⟨BC, phBC, eBC, IBC, pBC⟩ := call_pack B C bc cb WBC h_bc
  obtain ⟨CD, phCD, eCD, ICD, pCD⟩ := call_pack C D cd dc WCD h_cd
  have WABc := admW_left_w IAB TABC
  have WaBC := admW_right_w IBC TABC
  have WBCd := admW_left_w IBC TBCD
  have WbCD := admW_right_w ICD TBCD
  have WABd := admW_left_w IAB TABD
  have WaCD := admW_right_w ICD TACD
  have h_ABc : OddposP.LabelsDistinct (AB.oddpos ++ C.oddpos) :=
    dist_of hd _ (pAB.symm.append_right _) s_abc
  have h_aBC : OddposP.LabelsDistinct (A.oddpos ++ BC.oddpos) :=
    dist_of hd (A.oddpos ++ (B.oddpos ++ C.oddpos)) (pBC.symm.append_left _)
      (by rw [← List.append_assoc]; exact s_abc)
  have h_BCd : OddposP.LabelsDistinct (BC.oddpos ++ D.oddpos) :=
    dist_of hd _ (pBC.symm.append_right _) s_bcd
  have h_bCD : OddposP.LabelsDistinct (B.oddpos ++ CD.oddpos) :=
    dist_of hd (B.oddpos ++ (C.oddpos ++ D.oddpos)) (pCD.symm.append_left _)
      (by rw [← List.append_assoc]; exact s_bcd)
  have h_ABcd : OddposP.LabelsDistinct (AB.oddpos ++ C.oddpos ++ D.oddpos) :=
    dist_of hd _ ((pAB.symm.append_right _).append_right _) (List.Sublist.refl _)
  have h_abCD : OddposP.LabelsDistinct (A.oddpos ++ B.oddpos ++ CD.oddpos) :=
    dist_of hd (A.oddpos ++ B.oddpos ++ (C.oddpos ++ D.oddpos)) (pCD.symm.append_left _)
      (by rw [← e2])
  -- second-level calls
  obtain ⟨ABC1, _, eABC1, IABC1, pABC1⟩ := call_pack AB C _ _ WABc h_ABc
  obtain ⟨ABC2, _, eABC2, IABC2, pABC2⟩ := call_pack A BC _ _ WaBC h_aBC
  obtain ⟨BCD1, _, eBCD1, IBCD1, pBCD1⟩ := call_pack BC D _ _ WBCd h_BCd
  obtain ⟨BCD2, _, eBCD2, IBCD2, pBCD2⟩ := call_pack B CD _ _ WbCD h_bCD
  -- S7 for (A, B, C)
  obtain ⟨AB', BC', c1, c2, d1, d2, d3, d4, hABC⟩ := assoc_eqv_w A B C ab ac ba bc cb ca WAB WBC
    WAC.con mA_bc.toNodup mB_ac.toNodup mC_ab.symm.toNodup WAC.ltA WAC.ltB
    (Assoc2P.labelRoutes_of_distinct _ _ _ _ _ h_abc)
  rw [eAB] at d1
  obtain rfl := Except.ok.inj d1
  rw [eBC] at d3
  obtain rfl := Except.ok.inj d3
  rw [eABC1] at d2
  obtain rfl := Except.ok.inj d2
  rw [eABC2] at d4
  obtain rfl := Except.ok.inj d4
  -- S7 for (B, C, D)
  obtain ⟨BC', CD', c1, c2, d1, d2, d3, d4, hBCD⟩ := assoc_eqv_w B C D bc bd cb cd dc db WBC WCD
    WBD.con mB_cd.toNodup mC_bd.toNodup mD_bc.symm.toNodup WBD.ltA WBD.ltB
    (Assoc2P.labelRoutes_of_distinct _ _ _ _ _ h_bcd)
  rw [eBC] at d1
  obtain rfl := Except.ok.inj d1
  rw [eCD] at d3
  obtain rfl := Except.ok.inj d3
  rw [eBCD1] at d2
  obtain rfl := Except.ok.inj d2
  rw [eBCD2] at d4
  obtain rfl := Except.ok.inj d4
  -- S7 for (A·B, C, D)
  have mAB : Mid AB.ndim (Assoc2P.axesAB A.ndim B.ndim ab ac ba bc)
      (Assoc2P.axesAB A.ndim B.ndim ab ad ba bd) := by
    rw [IAB.ndim]; exact mid_axesAB mA_b_cd mB_a_cd
  obtain ⟨X1, CD', T1, T3, d1, eT1, d3, eT3, h31⟩ := assoc_eqv_w AB C D
    (Assoc2P.axesAB A.ndim B.ndim ab ac ba bc) (Assoc2P.axesAB A.ndim B.ndim ab ad ba bd)
    (ca ++ cb) cd dc (da ++ db) WABc WCD WABd.con mAB.toNodup mC_ab_d.toNodup mD_ab_c.symm.toNodup
    mAB.lt2 mD_ab_c.lt1
    (Assoc2P.labelRoutes_of_distinct _ _ _ _ _ h_ABcd)
  rw [eABC1] at d1
  obtain rfl := Except.ok.inj d1
  rw [eCD] at d3
  obtain rfl := Except.ok.inj d3
  -- S7 for (A, B, C·D)
  have mCD : Mid CD.ndim (Assoc2P.axesBC C.ndim D.ndim cb cd dc db)
      (Assoc2P.axesBC C.ndim D.ndim ca cd dc da) := by
    rw [ICD.ndim]
    exact (mid_axesAB (xa1 := cd) (u := ca) (v := cb) (xb1 := dc) (s := da) (t := db)
      mC_ab_d.symm mD_ab_c.symm).symm
  obtain ⟨AB', X2, T3', T5, d1, eT3', d3, eT5, h53⟩ := assoc_eqv_w A B CD ab (ac ++ ad) ba (bc ++ bd)
    (Assoc2P.axesBC C.ndim D.ndim cb cd dc db) (Assoc2P.axesBC C.ndim D.ndim ca cd dc da)
    WAB WbCD WaCD.con mA_b_cd.toNodup mB_a_cd.toNodup mCD.toNodup mA_b_cd.lt2 mCD.lt2
    (Assoc2P.labelRoutes_of_distinct _ _ _ _ _ h_abCD)
  rw [eAB] at d1
  obtain rfl := Except.ok.inj d1
  rw [eBCD2] at d3
  obtain rfl := Except.ok.inj d3
  -- the two listings of (A·B)·(C·D) coincide (S4)
  have TABCD : TriW A B CD ab (ac ++ ad) ba (bc ++ bd) (Assoc2P.axesBC C.ndim D.ndim cb cd dc db)
      (Assoc2P.axesBC C.ndim D.ndim ca cd dc da) := ⟨WAB, WbCD, mA_b_cd, mB_a_cd, mCD, WaCD.con⟩
  have WT3' := admW_left_w IAB TABCD
  have eq33 : tdF AB CD
        (Assoc2P.axesAB A.ndim B.ndim ab ac ba bc ++ Assoc2P.axesAB A.ndim B.ndim ab ad ba bd)
        (Assoc2P.axesBC C.ndim D.ndim (ca ++ cb) cd dc (da ++ db))
      = tdF AB CD (Assoc2P.axesAB A.ndim B.ndim ab (ac ++ ad) ba (bc ++ bd))
        (Assoc2P.axesBC C.ndim D.ndim ca cd dc da ++ Assoc2P.axesBC C.ndim D.ndim cb cd dc db) := by
    have W' := WT3'
    unfold Assoc2P.axesAB Assoc2P.axesBC at W' ⊢
    simp only [positions_append, List.map_append, List.append_assoc] at W' ⊢
    refine tdotF_axes_mid_w AB CD _ _ _ _ _ _ _ _ ?_ ?_ ?_ ?_ W'
    · rw [mA_bc.pos_len, mC_ad.symm.pos_len]; exact WAC.len
    · rw [mA_bd.pos_len, List.length_map, mD_ac.symm.pos_len]; exact WAD.len
    · rw [List.length_map, mB_ac.pos_len, mC_bd.symm.pos_len]; exact WBC.len
    · rw [List.length_map, List.length_map, mB_ad.pos_len, mD_bc.symm.pos_len]; exact WBD.len
  have eT3'' : tdF AB CD
        (Assoc2P.axesAB A.ndim B.ndim ab ac ba bc ++ Assoc2P.axesAB A.ndim B.ndim ab ad ba bd)
        (Assoc2P.axesBC C.ndim D.ndim (ca ++ cb) cd dc (da ++ db)) = .ok T3' := by
    rw [eq33]; exact eT3'
  have eT3c := eT3
  unfold tdF at eT3'' eT3c
  rw [eT3c] at eT3''
  obtain rfl := Except.ok.inj eT3''
  -- the two remaining bracketings by congruence
  have TABcD : TriW AB C D (Assoc2P.axesAB A.ndim B.ndim ab ac ba bc)
      (Assoc2P.axesAB A.ndim B.ndim ab ad ba bd) (ca ++ cb) cd dc (da ++ db) :=
    ⟨WABc, WCD, mAB, mC_ab_d, mD_ab_c.symm, WABd.con⟩
  have WT1 := admW_left_w IABC1 TABcD
  obtain ⟨T2, eT2, h12⟩ := tdotF_congr WT1 hABC.symm (Eqv.refl D) IABC2.valid WCD.vb T1 eT1
  have WT5 := admW_right_w IBCD2 TABCD
  obtain ⟨T4, eT4, h54⟩ := tdotF_congr WT5 (Eqv.refl A) hBCD WAB.va IBCD1.valid T5 eT5
  -- validity of the result
  have h_ABC1d : OddposP.LabelsDistinct (ABC1.oddpos ++ D.oddpos) :=
    dist_of hd _ (((pAB.symm.append_right _).trans pABC1.symm).append_right _) (List.Sublist.refl _)
  obtain ⟨T1', _, eT1', IT1, _⟩ := call_pack ABC1 D _ _ WT1 h_ABC1d
  have eT1'' := eT1
  unfold tdF at *
  rw [eT1'] at eT1''
  obtain rfl := Except.ok.inj eT1''
  have WT2 := admW_congr WT1 hABC.symm (Eqv.refl D) IABC2.valid WCD.vb
  have WT4 := admW_congr WT5 (Eqv.refl A) hBCD WAB.va IBCD1.valid
  have WT3 := admW_right_w ICD TABcD
  rw [IAB.ndim] at eT1 eT2 WT1 WT2
  rw [ICD.ndim] at eT4 eT5 WT4 WT5
  exact ⟨AB, BC, CD, ABC1, ABC2, BCD1, BCD2, T1', T2, T3, T4, T5, eAB, eBC, eCD, eABC1, eABC2, eBCD1,
    eBCD2, eT1, eT2, eT3, eT4, eT5, h12.symm, h31, h54.symm.trans (h53.trans h31), h53.trans h31,
    IT1.valid, ⟨WABc, WaBC, WBCd, WbCD, WT1, WT2, WT3, WT4, WT5, pAB, pBC, pCD, pABC1, pABC2, pBCD1,
      pBCD2⟩⟩

theorem k4 (A B C D : Arr R) (ab ac ad ba bc bd ca cb cd da db dc : List Nat)
    (WAB : AdmW A B ab ba) (WAC : AdmW A C ac ca) (WAD : AdmW A D ad da)
    (WBC : AdmW B C bc cb) (WBD : AdmW B D bd db) (WCD : AdmW C D cd dc)
    (hnA : (ab ++ ac ++ ad).Nodup) (hnB : (ba ++ bc ++ bd).Nodup)
    (hnC : (ca ++ cb ++ cd).Nodup) (hnD : (da ++ db ++ dc).Nodup)
    (hd : OddposP.LabelsDistinct (A.oddpos ++ B.oddpos ++ C.oddpos ++ D.oddpos)) :
    ∃ AB BC CD ABC1 ABC2 BCD1 BCD2 T1 T2 T3 T4 T5 : Arr R,
      tdF A B ab ba = .ok AB ∧ tdF B C bc cb = .ok BC ∧ tdF C D cd dc = .ok CD
      ∧ tdF AB C (Assoc2P.axesAB A.ndim B.ndim ab ac ba bc) (ca ++ cb) = .ok ABC1
      ∧ tdF A BC (ab ++ ac) (Assoc2P.axesBC B.ndim C.ndim ba bc cb ca) = .ok ABC2
      ∧ tdF BC D (Assoc2P.axesAB B.ndim C.ndim bc bd cb cd) (db ++ dc) = .ok BCD1
      ∧ tdF B CD (bc ++ bd) (Assoc2P.axesBC C.ndim D.ndim cb cd dc db) = .ok BCD2
      ∧ tdF ABC1 D (Assoc2P.axesAB ((freeAxes A.ndim ab).length + (freeAxes B.ndim ba).length) C.ndim (Assoc2P.axesAB A.ndim B.ndim ab ac ba bc)
            (Assoc2P.axesAB A.ndim B.ndim ab ad ba bd) (ca ++ cb) cd) ((da ++ db) ++ dc) = .ok T1
      ∧ tdF ABC2 D (Assoc2P.axesAB ((freeAxes A.ndim ab).length + (freeAxes B.ndim ba).length) C.ndim (Assoc2P.axesAB A.ndim B.ndim ab ac ba bc)
            (Assoc2P.axesAB A.ndim B.ndim ab ad ba bd) (ca ++ cb) cd) ((da ++ db) ++ dc) = .ok T2
      ∧ tdF AB CD (Assoc2P.axesAB A.ndim B.ndim ab ac ba bc ++ Assoc2P.axesAB A.ndim B.ndim ab ad ba bd)
            (Assoc2P.axesBC C.ndim D.ndim (ca ++ cb) cd dc (da ++ db)) = .ok T3
      ∧ tdF A BCD1 (ab ++ (ac ++ ad)) (Assoc2P.axesBC B.ndim ((freeAxes C.ndim cd).length + (freeAxes D.ndim dc).length) ba (bc ++ bd)
            (Assoc2P.axesBC C.ndim D.ndim cb cd dc db) (Assoc2P.axesBC C.ndim D.ndim ca cd dc da)) = .ok T4
      ∧ tdF A BCD2 (ab ++ (ac ++ ad)) (Assoc2P.axesBC B.ndim ((freeAxes C.ndim cd).length + (freeAxes D.ndim dc).length) ba (bc ++ bd)
            (Assoc2P.axesBC C.ndim D.ndim cb cd dc db) (Assoc2P.axesBC C.ndim D.ndim ca cd dc da)) = .ok T5
      ∧ Eqv T2 T1 ∧ Eqv T3 T1 ∧ Eqv T4 T1 ∧ Eqv T5 T1 ∧ T1.validB = true := by
  obtain ⟨AB, BC, CD, ABC1, ABC2, BCD1, BCD2, T1, T2, T3, T4, T5, h⟩ :=
    k4x A B C D ab ac ad ba bc bd ca cb cd da db dc WAB WAC WAD WBC WBD WCD hnA hnB hnC hnD hd
  exact ⟨AB, BC, CD, ABC1, ABC2, BCD1, BCD2, T1, T2, T3, T4, T5, h.1, h.2.1, h.2.2.1, h.2.2.2.1,
    h.2.2.2.2.1, h.2.2.2.2.2.1, h.2.2.2.2.2.2.1, h.2.2.2.2.2.2.2.1, h.2.2.2.2.2.2.2.2.1,
    h.2.2.2.2.2.2.2.2.2.1, h.2.2.2.2.2.2.2.2.2.2.1, h.2.2.2.2.2.2.2.2.2.2.2.1,
    h.2.2.2.2.2.2.2.2.2.2.2.2.1, h.2.2.2.2.2.2.2.2.2.2.2.2.2.1, h.2.2.2.2.2.2.2.2.2.2.2.2.2.2.1,
    h.2.2.2.2.2.2.2.2.2.2.2.2.2.2.2.1, h.2.2.2.2.2.2.2.2.2.2.2.2.2.2.2.2.1⟩

end

end Net4P
end SymmModel
