/-
  SymmModel.Proofs.Net4M10 — the label check `NormNet.netLabelsB` for ALL sorted ket label lists
  with at most four labels per tensor and pairwise-distinct labels (symbolic labels).
  Two sorted disjoint lists are `G[ca]`, `G[cb]` for their merged list `G` and the positions
  `ca`, `cb` of the `true` / `false` entries of their interleaving word (`mergeW`); every
  interleaving word with at most four entries of each kind is decided on its ranks
  (`allWords_ok`) and transferred by `Assoc5P.net_of_pattern`.  Namespace `SymmModel.Assoc5P`.
-/
import SymmModel.Proofs.Net4M6

namespace SymmModel
namespace Assoc5P
open OddposP NormNet
set_option linter.unusedSectionVars false

/-- positions (counted from `k`) of the entries equal to `b` -/
def posOf (b : Bool) : List Bool → Nat → List Int
  | [], _ => []
  | c :: w, k => if c == b then (k : Int) :: posOf b w (k + 1) else posOf b w (k + 1)

/-- merge of two lists: the merged list and the interleaving word (`true` = from the first) -/
def mergeW : List Int → List Int → List Int × List Bool
  | [], ys => (ys, ys.map (fun _ => false))
  | x :: xs, [] => (x :: xs, (x :: xs).map (fun _ => true))
  | x :: xs, y :: ys =>
    if x < y then ((x :: (mergeW xs (y :: ys)).1), (true :: (mergeW xs (y :: ys)).2))
    else ((y :: (mergeW (x :: xs) ys).1), (false :: (mergeW (x :: xs) ys).2))
termination_by xs ys => xs.length + ys.length

theorem mergeW_perm (xs ys : List Int) : (mergeW xs ys).1.Perm (xs ++ ys) := by
  fun_induction mergeW xs ys with
  | case1 ys => simp
  | case2 x xs => simp
  | case3 x xs y ys h ih => exact List.Perm.cons _ ih
  | case4 x xs y ys h ih =>
    refine (List.Perm.cons _ ih).trans ?_
    have : (y :: (x :: xs ++ ys)).Perm (x :: xs ++ y :: ys) := by
      simpa using (List.perm_middle (a := y) (l₁ := x :: xs) (l₂ := ys)).symm
    exact this

theorem mergeW_len (xs ys : List Int) :
    (mergeW xs ys).2.length = (mergeW xs ys).1.length
    ∧ (mergeW xs ys).2.count true = xs.length ∧ (mergeW xs ys).2.count false = ys.length := by
  fun_induction mergeW xs ys with
  | case1 ys =>
    refine ⟨by simp, ?_, ?_⟩
    · induction ys with
      | nil => rfl
      | cons y ys ih => simpa using ih
    · induction ys with
      | nil => rfl
      | cons y ys ih => simp
  | case2 x xs =>
    refine ⟨by simp, ?_, ?_⟩
    · have : ∀ l : List Int, (l.map (fun _ => true)).count true = l.length := by
        intro l; induction l with
        | nil => rfl
        | cons y ys ih => simp
      exact this (x :: xs)
    · have : ∀ l : List Int, (l.map (fun _ => true)).count false = 0 := by
        intro l; induction l with
        | nil => rfl
        | cons y ys ih => simpa using ih
      exact this (x :: xs)
  | case3 x xs y ys h ih =>
    obtain ⟨a, b, c⟩ := ih
    refine ⟨by simp [a], by simp [b], by simpa using c⟩
  | case4 x xs y ys h ih =>
    obtain ⟨a, b, c⟩ := ih
    refine ⟨by simp [a], by simpa using b, by simp [c]⟩

theorem mergeW_sorted (xs ys : List Int) (hx : xs.Pairwise (· < ·)) (hy : ys.Pairwise (· < ·))
    (hd : ∀ a ∈ xs, ∀ b ∈ ys, a ≠ b) : (mergeW xs ys).1.Pairwise (· < ·) := by
  fun_induction mergeW xs ys with
  | case1 ys => exact hy
  | case2 x xs => exact hx
  | case3 x xs y ys h ih =>
    obtain ⟨hx1, hx2⟩ := List.pairwise_cons.mp hx
    obtain ⟨hy1, hy2⟩ := List.pairwise_cons.mp hy
    refine List.pairwise_cons.mpr ⟨?_, ih hx2 hy (fun a ha b hb => hd a (List.mem_cons_of_mem _ ha) b hb)⟩
    intro z hz
    have := (mergeW_perm xs (y :: ys)).mem_iff.mp hz
    rcases List.mem_append.mp this with h1 | h1
    · exact hx1 z h1
    · rcases List.mem_cons.mp h1 with rfl | h2
      · exact h
      · have := hy1 z h2; omega
  | case4 x xs y ys h ih =>
    obtain ⟨hx1, hx2⟩ := List.pairwise_cons.mp hx
    obtain ⟨hy1, hy2⟩ := List.pairwise_cons.mp hy
    have hxy : x ≠ y := hd x (by simp) y (by simp)
    have hyx : y < x := by omega
    refine List.pairwise_cons.mpr ⟨?_, ih hx hy2 (fun a ha b hb => hd a ha b (List.mem_cons_of_mem _ hb))⟩
    intro z hz
    have := (mergeW_perm (x :: xs) ys).mem_iff.mp hz
    rcases List.mem_append.mp this with h1 | h1
    · rcases List.mem_cons.mp h1 with rfl | h2
      · exact hyx
      · have := hx1 z h2; omega
    · exact hy1 z h1

/-- reading a list at an index behind a prefix -/
theorem read_head (pre G : List Int) (g : Int) :
    (pre ++ g :: G).getD ((pre.length : Nat) : Int).toNat 0 = g := by
  simp [List.getD_eq_getElem?_getD]

theorem read_const_false (ys pre : List Int) :
    (posOf false (ys.map (fun _ => false)) pre.length).map (fun i => (pre ++ ys).getD i.toNat 0) = ys
    ∧ posOf true (ys.map (fun _ => false)) pre.length = [] := by
  induction ys generalizing pre with
  | nil => exact ⟨rfl, rfl⟩
  | cons y ys ih =>
    obtain ⟨h1, h2⟩ := ih (pre ++ [y])
    simp only [List.length_append, List.length_cons, List.length_nil, Nat.zero_add,
      List.append_assoc, List.cons_append, List.nil_append] at h1 h2
    refine ⟨?_, ?_⟩
    · simp only [List.map_cons, posOf, beq_self_eq_true, if_true]
      rw [read_head, h1]
    · simp only [List.map_cons, posOf]
      exact h2

theorem read_const_true (xs pre : List Int) :
    (posOf true (xs.map (fun _ => true)) pre.length).map (fun i => (pre ++ xs).getD i.toNat 0) = xs
    ∧ posOf false (xs.map (fun _ => true)) pre.length = [] := by
  induction xs generalizing pre with
  | nil => exact ⟨rfl, rfl⟩
  | cons y ys ih =>
    obtain ⟨h1, h2⟩ := ih (pre ++ [y])
    simp only [List.length_append, List.length_cons, List.length_nil, Nat.zero_add,
      List.append_assoc, List.cons_append, List.nil_append] at h1 h2
    refine ⟨?_, ?_⟩
    · simp only [List.map_cons, posOf, beq_self_eq_true, if_true]
      rw [read_head, h1]
    · simp only [List.map_cons, posOf]
      exact h2

/-- reading the merged list at the positions of `true` / `false` gives back the two lists -/
theorem mergeW_read (xs ys pre : List Int) :
    (posOf true (mergeW xs ys).2 pre.length).map (fun i => (pre ++ (mergeW xs ys).1).getD i.toNat 0) = xs
    ∧ (posOf false (mergeW xs ys).2 pre.length).map (fun i => (pre ++ (mergeW xs ys).1).getD i.toNat 0)
        = ys := by
  fun_induction mergeW xs ys generalizing pre with
  | case1 ys =>
    obtain ⟨h1, h2⟩ := read_const_false ys pre
    exact ⟨by rw [h2]; rfl, h1⟩
  | case2 x xs =>
    obtain ⟨h1, h2⟩ := read_const_true (x :: xs) pre
    exact ⟨h1, by rw [h2]; rfl⟩
  | case3 x xs y ys h ih =>
    obtain ⟨h1, h2⟩ := ih (pre ++ [x])
    simp only [List.length_append, List.length_cons, List.length_nil, Nat.zero_add,
      List.append_assoc, List.cons_append, List.nil_append] at h1 h2
    refine ⟨?_, ?_⟩
    · simp only [posOf, beq_self_eq_true, if_true, List.map_cons]
      rw [read_head, h1]
    · simp only [posOf]
      exact h2
  | case4 x xs y ys h ih =>
    obtain ⟨h1, h2⟩ := ih (pre ++ [y])
    simp only [List.length_append, List.length_cons, List.length_nil, Nat.zero_add,
      List.append_assoc, List.cons_append, List.nil_append] at h1 h2
    refine ⟨?_, ?_⟩
    · simp only [posOf]
      exact h1
    · simp only [posOf, beq_self_eq_true, if_true, List.map_cons]
      rw [read_head, h2]

/-! ### all interleaving words -/

def wordsOfLen : Nat → List (List Bool)
  | 0 => [[]]
  | n + 1 => (wordsOfLen n).flatMap (fun w => [true :: w, false :: w])

theorem mem_wordsOfLen (w : List Bool) : w ∈ wordsOfLen w.length := by
  induction w with
  | nil => simp [wordsOfLen]
  | cons c w ih =>
    simp only [List.length_cons, wordsOfLen, List.mem_flatMap]
    exact ⟨w, ih, by cases c <;> simp⟩

/-- all words of length at most eight -/
def allWords8 : List (List Bool) := (List.range 9).flatMap wordsOfLen

theorem mem_allWords8 (w : List Bool) (h : w.length ≤ 8) : w ∈ allWords8 := by
  unfold allWords8
  exact List.mem_flatMap.mpr ⟨w.length, List.mem_range.mpr (by omega), mem_wordsOfLen w⟩

/-- the decided fact for one word: if it has at most four entries of each kind, the rank pattern
    is in range and satisfies the label check for every parity assignment -/
def wordOk (w : List Bool) : Bool :=
  if w.count true ≤ 4 && w.count false ≤ 4 then patOk (posOf true w 0, posOf false w 0) else true

theorem allWords8_ok : allWords8.all wordOk = true := by decide +kernel

/-- a sorted ket list is `ket` of its strictly increasing label list -/
theorem ketLabels_eq {o : List (Int × Bool)} (h : KetLabels o) :
    o = ket (o.map (·.1)) ∧ (o.map (·.1)).Pairwise (· < ·) := by
  obtain ⟨hk, hs⟩ := h
  induction o with
  | nil => exact ⟨rfl, List.Pairwise.nil⟩
  | cons a o ih =>
    obtain ⟨x, d⟩ := a
    have hd : d = false := hk (x, d) (by simp)
    subst hd
    obtain ⟨h1, h2⟩ := List.pairwise_cons.mp hs
    obtain ⟨e, p⟩ := ih (fun y hy => hk y (List.mem_cons_of_mem _ hy)) h2
    refine ⟨?_, ?_⟩
    · unfold ket at e ⊢
      simp only [List.map_cons, List.map_map] at e ⊢
      rw [← e]
    · simp only [List.map_cons]
      refine List.pairwise_cons.mpr ⟨?_, p⟩
      intro z hz
      obtain ⟨b, hb, rfl⟩ := List.mem_map.mp hz
      have hbf : b.2 = false := hk b (List.mem_cons_of_mem _ hb)
      have := h1 b hb
      obtain ⟨bx, bd⟩ := b
      simp only at hbf
      subst hbf
      simpa [oddLt] using this

/-- **the label check of the norm network for at most FOUR sorted ket labels per tensor**, symbolic
    labels, every interleaving, every parity -/
theorem netLabelsB_four (oA oB : List (Int × Bool)) (hA : KetLabels oA) (hB : KetLabels oB)
    (lA : oA.length ≤ 4) (lB : oB.length ≤ 4)
    (hd : (oA ++ oB).Pairwise (fun x y => x.1 ≠ y.1)) (pA pB : Bool) :
    netLabelsB pA pB oA oB = true := by
  obtain ⟨eA, sA⟩ := ketLabels_eq hA
  obtain ⟨eB, sB⟩ := ketLabels_eq hB
  have hcross : ∀ a ∈ oA.map (·.1), ∀ b ∈ oB.map (·.1), a ≠ b := by
    intro a ha b hb
    obtain ⟨p, hp, rfl⟩ := List.mem_map.mp ha
    obtain ⟨q, hq, rfl⟩ := List.mem_map.mp hb
    exact (List.pairwise_append.mp hd).2.2 p hp q hq
  generalize hxs : oA.map (·.1) = xs at eA sA hcross
  generalize hys : oB.map (·.1) = ys at eB sB hcross
  have lx : xs.length ≤ 4 := by rw [← hxs, List.length_map]; exact lA
  have ly : ys.length ≤ 4 := by rw [← hys, List.length_map]; exact lB
  obtain ⟨wl, ct, cf⟩ := mergeW_len xs ys
  have hG := mergeW_sorted xs ys sA sB hcross
  have hGl : (mergeW xs ys).1.length = xs.length + ys.length := by
    rw [(mergeW_perm xs ys).length_eq, List.length_append]
  obtain ⟨rT, rF⟩ := mergeW_read xs ys []
  simp only [List.length_nil, List.nil_append] at rT rF
  have lca : (posOf true (mergeW xs ys).2 0).length = xs.length := by
    have := congrArg List.length rT; simpa using this
  have lcb : (posOf false (mergeW xs ys).2 0).length = ys.length := by
    have := congrArg List.length rF; simpa using this
  have hw := List.all_eq_true.mp allWords8_ok (mergeW xs ys).2
    (mem_allWords8 _ (by rw [wl, hGl]; omega))
  unfold wordOk at hw
  rw [ct, cf] at hw
  have hc : (decide (xs.length ≤ 4) && decide (ys.length ≤ 4)) = true := by simp [lx, ly]
  rw [if_pos hc] at hw
  unfold patOk at hw
  simp only [Bool.and_eq_true, List.all_eq_true, decide_eq_true_eq] at hw
  obtain ⟨hr, hdec⟩ := hw
  have key := net_of_pattern (mergeW xs ys).1 (posOf true (mergeW xs ys).2 0)
    (posOf false (mergeW xs ys).2 0) hG
    ((posOf true (mergeW xs ys).2 0).length + (posOf false (mergeW xs ys).2 0).length)
    (by rw [hGl, lca, lcb]) (fun i hi => hr i hi)
    (by
      intro pa pb
      cases pa <;> cases pb
      · exact hdec (false, false) (by simp)
      · exact hdec (false, true) (by simp)
      · exact hdec (true, false) (by simp)
      · exact hdec (true, true) (by simp)) pA pB
  have conv : ∀ l : List Int, (ket l).map (relab (fun i => (mergeW xs ys).1.getD i.toNat 0))
      = ket (l.map (fun i => (mergeW xs ys).1.getD i.toNat 0)) := by
    intro l; unfold ket relab; simp [List.map_map, Function.comp]
  rw [conv, conv, rT, rF, ← eA, ← eB] at key
  exact key

end Assoc5P
end SymmModel
