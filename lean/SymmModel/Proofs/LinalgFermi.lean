/-
  SymmModel.Proofs.LinalgFermi — fermionic reconstruction: `q @ r` (`FermionicArray.__matmul__`,
  model `Arr.matmulF`) of the factors of `qrA` / `svdA` (C11, fermionic part).
-/
import SymmModel.Proofs.LinalgRecon
import SymmModel.Proofs.LinalgSolve
import SymmModel.Model.GRat
import Mathlib.Tactic.Ring
import Mathlib.Algebra.Ring.Rat

namespace SymmModel

/-- the three sign laws the fermionic reconstruction needs of the scalars -/
class NegLaws (R : Type) [Zero R] [Add R] [Mul R] [Neg R] : Prop where
  neg_zero : -(0 : R) = 0
  neg_add : ∀ a b : R, -a + -b = -(a + b)
  neg_mul : ∀ a b : R, (-a) * b = -(a * b)

namespace LinalgLemmas

variable {R : Type}

/-! ### pending signs -/

theorem flip_fold_back (odd : Sector → Bool) (ss : List Sector) (hnd : ss.Nodup) :
    ss.foldl (fun ph s =>
      if odd s then
        let np := - (alookup ph s).getD 1
        if np == 1 then aerase ph s else ainsert ph s np
      else ph) ((ss.filter odd).map (fun s => (s, (-1 : Int)))) = [] := by
  induction ss with
  | nil => rfl
  | cons s ss ih =>
    rw [List.nodup_cons] at hnd
    simp only [List.foldl_cons]
    by_cases ho : odd s = true
    · simp only [List.filter_cons, ho, if_true, List.map_cons, alookup, beq_self_eq_true,
        Option.getD_some, Int.neg_neg, aerase]
      exact ih hnd.2
    · simp only [List.filter_cons, ho, Bool.false_eq_true, if_false]
      exact ih hnd.2

/-- two `phase_flip(0)` on an array without pending signs cancel -/
theorem phaseFlip0_twice (a : Arr R) (hp : a.phases = []) (hnd : a.sectors.Nodup) :
    ((a.phaseFlip [0]).phaseFlip [0]).phases = [] := by
  obtain ⟨f1, _, _, _, f5, _⟩ := phaseFlip_fields a [0]
  have hs : (a.phaseFlip [0]).sectors = a.sectors := by simp [Arr.sectors, f5]
  have h1 := phaseFlip0_phases a hp hnd
  have := flip_fold_back (fun s => a.sym.parity (s.getD 0 (0, 0))) a.sectors hnd
  rw [← this]
  conv => lhs; unfold Arr.phaseFlip
  simp only [List.isEmpty_cons, Bool.false_eq_true, if_false]
  congr 1
  funext ph s
  simp only [List.filter_cons, List.filter_nil]
  cases a.sym.parity (s.getD 0 (0, 0)) <;> simp

theorem phaseSync_blocks_nil [Neg R] (a : Arr R) (hp : a.phases = []) :
    a.phaseSync.blocks = a.blocks := by
  simp only [Arr.phaseSync, hp, alookup]
  conv => rhs; rw [← List.map_id a.blocks]
  apply List.map_congr_left
  intro p _
  rfl

theorem phaseSync_blocks_map [Neg R] {α : Type} (a : Arr R) (l : List α) (key : α → Sector)
    (f : α → Blk R) (ha : a.blocks = l.map (fun p => (key p, f p))) :
    a.phaseSync.blocks = l.map (fun p =>
      (key p, if alookup a.phases (key p) == some (-1) then (f p).negK else f p)) := by
  simp only [Arr.phaseSync, ha, List.map_map]
  apply List.map_congr_left
  intro p _
  simp only [Function.comp]
  split <;> rfl

/-! ### `q @ r` -/

theorem matmulF_eq [Zero R] [Add R] [Mul R] [Neg R] (a b : Arr R) (ha : a.ndim = 2)
    (j0 j1 : Index) (hb : b.indices = [j0, j1]) :
    Arr.matmulF a b =
      resolveCombinedOddpos a.phaseSync (if j0.dual then b.phaseFlip [0] else b).phaseSync
        (tensordotBlockwise a.phaseSync (if j0.dual then b.phaseFlip [0] else b).phaseSync
          [0] [1] [0] [1]) := by
  have hbn : b.ndim = 2 := by simp [Arr.ndim, hb]
  have h1 : a.phaseSync.ndim = 2 := ha
  have h2 : (if j0.dual then b.phaseFlip [0] else b).phaseSync.ndim = 2 := by
    show (if j0.dual then b.phaseFlip [0] else b).indices.length = 2
    split
    · rw [(phaseFlip_fields b [0]).2.2.1, hb]; rfl
    · rw [hb]; rfl
  unfold Arr.matmulF
  simp only [ha, hbn, hb, List.getElem?_cons_zero]
  have : matmulA a.phaseSync (if j0.dual then b.phaseFlip [0] else b).phaseSync
      = pure (tensordotBlockwise a.phaseSync (if j0.dual then b.phaseFlip [0] else b).phaseSync
          [0] [1] [0] [1]) := by
    unfold matmulA
    rw [h1, h2]
    rfl
  simp only [gt_iff_lt, Nat.lt_irrefl, decide_false, Bool.or_self, Bool.false_eq_true, if_false,
    pure_bind, this]

theorem resolve_short (left right new : Arr R) (hr : right.oddpos = [])
    (hl : left.oddpos.length ≤ 1) :
    resolveCombinedOddpos left right new = .ok { new with oddpos := left.oddpos } := by
  unfold resolveCombinedOddpos
  match h : left.oddpos, hl with
  | [], _ =>
    simp [hr]
    rfl
  | [a], _ =>
    simp [hr, resolveScan]
    rfl

/-- `a @ r'` for the right factor `r'` of `qrA`/`svdA` and any left array `a` aligned with the
    input `x` (the left factor itself, or the left factor times the singular values): the inner
    index convention of `__matmul__` and the flip the decomposition put on `r'` cancel, the
    pending signs of `a` are multiplied into its blocks, and each result sector receives exactly
    one product. -/
theorem matmulF_factors [Zero R] [Add R] [Mul R] [Neg R] {x : Arr R} (hv : x.validB = true)
    (h2 : x.ndim = 2) (hf : x.fermi = true) (hodd : x.oddpos.length ≤ 1)
    (a : Arr R) (fU : Blk R → Blk R)
    (hab : a.blocks = x.blocks.map (fun p => (p.1, fU p.2))) (haph : a.phases = x.phases)
    (hand : a.ndim = 2) (haodd : a.oddpos = x.oddpos) (L Rt : Blk R → Blk R) :
    ∃ y, Arr.matmulF a (rightF x L Rt) = .ok y ∧ y.phases = [] ∧ y.oddpos = x.oddpos
      ∧ y.blocks = x.blocks.map (fun p =>
          (p.1, (if alookup x.phases p.1 == some (-1) then (fU p.2).negK else fU p.2).tensordotK
                  (Rt p.2) [1] [0])) := by
  obtain ⟨i0, i1, hi⟩ := ndim_two h2
  obtain ⟨f1, f2, f3, f4, f5, f6⟩ := rightF_fields (x := x) (L := L) (Rt := Rt)
  have hnd0 := rightF0_sectors_nodup (L := L) (Rt := Rt) hv h2
  -- after `__matmul__`'s own flip the right factor has no pending signs
  have hb1 : (if (bondIx x L).conj.dual then (rightF x L Rt).phaseFlip [0] else rightF x L Rt).phases = []
      ∧ (if (bondIx x L).conj.dual then (rightF x L Rt).phaseFlip [0] else rightF x L Rt).blocks
          = x.blocks.map (fun p => ([colOf p.1, colOf p.1], Rt p.2))
      ∧ (if (bondIx x L).conj.dual then (rightF x L Rt).phaseFlip [0] else rightF x L Rt).oddpos = [] := by
    by_cases hd : (bondIx x L).conj.dual = true
    · have hr : rightF x L Rt = (rightF0 x L Rt).phaseFlip [0] := by
        unfold rightF; simp [hf, hd]
      rw [if_pos hd]
      refine ⟨?_, ?_, ?_⟩
      · rw [hr]; exact phaseFlip0_twice _ rfl hnd0
      · rw [(phaseFlip_fields _ [0]).2.2.2.2.1, f5]
      · rw [(phaseFlip_fields _ [0]).2.2.2.2.2, f6]
    · have hr : rightF x L Rt = rightF0 x L Rt := by
        unfold rightF; simp [hd]
      rw [if_neg hd]
      exact ⟨by rw [hr]; rfl, f5, f6⟩
  obtain ⟨hb1p, hb1b, hb1o⟩ := hb1
  rw [matmulF_eq a (rightF x L Rt) hand _ _ f3]
  have hb2b := (phaseSync_blocks_nil _ hb1p).trans hb1b
  have ha2b := phaseSync_blocks_map a x.blocks (·.1) (fun p => fU p.2) hab
  rw [haph] at ha2b
  have hc := tdot_blocks_aligned hv h2
    (fun p => if alookup x.phases p.1 == some (-1) then (fU p.2).negK else fU p.2)
    (fun p => Rt p.2) _ _ ha2b hb2b
  have hb2o : (if (bondIx x L).conj.dual then (rightF x L Rt).phaseFlip [0]
      else rightF x L Rt).phaseSync.oddpos = [] := hb1o
  rw [resolve_short _ _ _ hb2o (by show a.oddpos.length ≤ 1; rw [haodd]; exact hodd)]
  exact ⟨_, rfl, rfl, haodd, hc⟩

theorem neg_fold [Zero R] [Add R] [Mul R] [Neg R] [NegLaws R] (f g : Nat → R) (l : List Nat)
    (a : R) :
    l.foldl (fun acc t => acc + (- f t) * g t) (-a) = - l.foldl (fun acc t => acc + f t * g t) a := by
  induction l generalizing a with
  | nil => rfl
  | cons t l ih =>
    simp only [List.foldl_cons]
    rw [NegLaws.neg_mul, NegLaws.neg_add, ih]

/-- value view of an array with the blocks `matmulF_factors` describes -/
theorem elem_of_blocks_map_signed [Zero R] [Neg R] {x : Arr R} (hv : x.validB = true)
    (h2 : x.ndim = 2) (y : Arr R) (T : Sector × Blk R → Blk R)
    (hy : y.blocks = x.blocks.map (fun p => (p.1, T p))) (hph : y.phases = [])
    (hT : ∀ p ∈ x.blocks, ∀ i j, i < p.2.shape.getD 0 0 → j < p.2.shape.getD 1 0 →
      (T p).get [i, j]
        = if alookup x.phases p.1 == some (-1) then - p.2.get [i, j] else p.2.get [i, j])
    (s : Sector) (off : List Nat) (ha : AddrOf x s off) : y.elem s off = x.elem s off := by
  obtain ⟨i0, i1, hi⟩ := ndim_two h2
  have hnd := sectors_nodup hv
  have hndy : (y.blocks.map (·.1)).Nodup := by
    rw [hy]; simpa [Arr.sectors, List.map_map, Function.comp_def] using hnd
  rcases ha with hns | ⟨b, hm, hbox⟩
  · have h1 : alookup x.blocks s = none := (alookup_eq_none_iff _ _).mpr hns
    have h2' : alookup y.blocks s = none := by
      rw [alookup_eq_none_iff, hy]
      simpa [Arr.sectors, List.map_map, Function.comp_def] using hns
    simp [Arr.elem, h1, h2']
  · obtain ⟨r, c, m, n, B⟩ := mat_block hv hi hm
    have hy' : alookup y.blocks s = some (T (s, b)) := by
      apply alookup_of_mem_nodup hndy
      rw [hy]; exact List.mem_map.mpr ⟨(s, b), hm, rfl⟩
    have hx' : alookup x.blocks s = some b := alookup_of_mem_nodup hnd hm
    rw [B.hshape] at hbox
    obtain ⟨i, j, rfl, hij⟩ := inBox_pair_elim hbox
    have := hT (s, b) hm i j (by simpa [B.hshape] using hij.1) (by simpa [B.hshape] using hij.2)
    simp only [Arr.elem, hy', hx', hph, alookup]
    simpa using this

theorem signed_matmul_get [Zero R] [Add R] [Mul R] [Neg R] [NegLaws R] (sgn : Bool) (a b : Blk R)
    {m k n : Nat} (ha : a.shape = [m, k]) (hb : b.shape = [k, n]) {i j : Nat} (hi : i < m)
    (hj : j < n) :
    ((if sgn then a.negK else a).tensordotK b [1] [0]).get [i, j]
      = if sgn then - (List.range k).foldl (fun acc t => acc + a.get [i, t] * b.get [t, j]) 0
        else (List.range k).foldl (fun acc t => acc + a.get [i, t] * b.get [t, j]) 0 := by
  cases sgn with
  | false => exact tensordotK_matmul_get a b ha hb hi hj
  | true =>
    simp only [if_true]
    rw [tensordotK_matmul_get a.negK b (by rw [negK_shape]; exact ha) hb hi hj]
    have := neg_fold (fun t => a.get [i, t]) (fun t => b.get [t, j]) (List.range k) (0 : R)
    rw [NegLaws.neg_zero] at this
    rw [← this]
    apply foldl_ext'
    intro acc t _
    rw [negK_get NegLaws.neg_zero]

theorem qr_recon_fermi [Zero R] [Add R] [Mul R] [Neg R] [NegLaws R] {K : Kernels R}
    (hK : K.ShapeOk) (hC : K.QRContract) {x : Arr R} (hv : x.validB = true) (h2 : x.ndim = 2)
    (hf : x.fermi = true) (hodd : x.oddpos.length ≤ 1) :
    ∃ y, Arr.matmulF (leftF x (fun b => (K.qr b).1))
        (rightF x (fun b => (K.qr b).1) (fun b => (K.qr b).2)) = .ok y
      ∧ y.oddpos = x.oddpos
      ∧ ∀ s off, AddrOf x s off → y.elem s off = x.elem s off := by
  obtain ⟨i0, i1, hi⟩ := ndim_two h2
  obtain ⟨y, hy, hyp, hyo, hyb⟩ := matmulF_factors hv h2 hf hodd (leftF x (fun b => (K.qr b).1))
    (fun b => (K.qr b).1) rfl rfl rfl rfl (fun b => (K.qr b).1) (fun b => (K.qr b).2)
  refine ⟨y, hy, hyo, fun s off ha => ?_⟩
  apply elem_of_blocks_map_signed hv h2 y _ hyb hyp _ s off ha
  intro p hp i j hi' hj'
  obtain ⟨s0, b⟩ := p
  obtain ⟨r, c, m, n, B⟩ := mat_block hv hi hp
  obtain ⟨a1, _, a3, _⟩ := hK.qr b m n B.hshape B.hwf
  simp only [B.hshape, List.getD_cons_zero, List.getD_cons_succ] at hi' hj'
  have := signed_matmul_get (alookup x.phases s0 == some (-1)) (K.qr b).1 (K.qr b).2 a1 a3 hi' hj'
  simp only at this ⊢
  rw [this, hC b m n B.hshape B.hwf i j hi' hj']

theorem svd_recon_fermi [Zero R] [Add R] [Mul R] [Neg R] [NegLaws R] {K : Kernels R}
    (hK : K.ShapeOk) (hC : K.SVDContract) {x : Arr R} (hv : x.validB = true) (h2 : x.ndim = 2)
    (hf : x.fermi = true) (hodd : x.oddpos.length ≤ 1) :
    ∃ y, Arr.matmulF
        (multiplyDiagonal (leftF x (fun b => (K.svd b).1))
          ⟨x.blocks.map (fun p => (colOf p.1, (K.svd p.2).2.1))⟩ 1)
        (rightF x (fun b => (K.svd b).1) (fun b => (K.svd b).2.2)) = .ok y
      ∧ y.oddpos = x.oddpos
      ∧ ∀ s off, AddrOf x s off → y.elem s off = x.elem s off := by
  obtain ⟨i0, i1, hi⟩ := ndim_two h2
  have hmd := multiplyDiagonal_blocks hv h2 (fun b => (K.svd b).1) (fun b => (K.svd b).2.1)
    (leftF x (fun b => (K.svd b).1)) ⟨x.blocks.map (fun p => (colOf p.1, (K.svd p.2).2.1))⟩ rfl rfl
  obtain ⟨y, hy, hyp, hyo, hyb⟩ := matmulF_factors hv h2 hf hodd
    (multiplyDiagonal (leftF x (fun b => (K.svd b).1))
      ⟨x.blocks.map (fun p => (colOf p.1, (K.svd p.2).2.1))⟩ 1)
    (fun b => (K.svd b).1.mulAxisK (K.svd b).2.1 1) hmd rfl rfl rfl
    (fun b => (K.svd b).1) (fun b => (K.svd b).2.2)
  refine ⟨y, hy, hyo, fun s off ha => ?_⟩
  apply elem_of_blocks_map_signed hv h2 y _ hyb hyp _ s off ha
  intro p hp i j hi' hj'
  obtain ⟨s0, b⟩ := p
  obtain ⟨r, c, m, n, B⟩ := mat_block hv hi hp
  obtain ⟨a1, _, _, _, a5, _⟩ := hK.svd b m n B.hshape B.hwf
  simp only [B.hshape, List.getD_cons_zero, List.getD_cons_succ] at hi' hj'
  have := signed_matmul_get (alookup x.phases s0 == some (-1))
    ((K.svd b).1.mulAxisK (K.svd b).2.1 1) (K.svd b).2.2 (by rw [mulAxisK_shape]; exact a1) a5 hi' hj'
  simp only at this ⊢
  rw [this, ← hC b m n B.hshape B.hwf i j hi' hj']
  have hfold : (List.range (min m n)).foldl (fun acc t =>
        acc + ((K.svd b).1.mulAxisK (K.svd b).2.1 1).get [i, t] * (K.svd b).2.2.get [t, j]) 0
      = (List.range (min m n)).foldl (fun acc t =>
        acc + ((K.svd b).1.get [i, t] * (K.svd b).2.1.get [t]) * (K.svd b).2.2.get [t, j]) 0 := by
    apply foldl_ext'
    intro acc t ht
    rw [mulAxisK_get _ _ a1 hi' (List.mem_range.mp ht)]
  rw [hfold]

/-! ### the sign laws hold for the executable scalar types -/

end LinalgLemmas

instance : NegLaws Int where
  neg_zero := rfl
  neg_add a b := by omega
  neg_mul a b := Int.neg_mul a b

instance : NegLaws GRat where
  neg_zero := by
    show GRat.mk (-0) (-0) = GRat.mk 0 0
    simp
  neg_add a b := by
    show GRat.mk (-a.re + -b.re) (-a.im + -b.im) = GRat.mk (-(a.re + b.re)) (-(a.im + b.im))
    congr 1 <;> ring
  neg_mul a b := by
    show GRat.mk (-a.re * b.re - -a.im * b.im) (-a.re * b.im + -a.im * b.re)
      = GRat.mk (-(a.re * b.re - a.im * b.im)) (-(a.re * b.im + a.im * b.re))
    congr 1 <;> ring

namespace LinalgLemmas

end LinalgLemmas
end SymmModel
