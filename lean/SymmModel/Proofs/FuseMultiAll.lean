/-
  SymmModel.Proofs.FuseMultiAll — entry point of the lemma development for the general case of
  property C05 (arbitrary lists of groups):
    FuseMulti1  the plan axis by axis, table facts for every multi-axis group
    FuseMulti2  shape of the fused blocks, start offsets, fuseInsert as an insFold
    FuseMulti3  disjoint regions, invariant of the fused blocks, fuseCore made explicit
    FuseMulti4  list plumbing: three-part lists, flattening segments, ravel over grouped axes
    FuseMulti5  permuted lists / plans in front-group-back form, splitAddr on a group axis
    FuseMulti6  fuse_elem (block form)
    FuseMulti7  fuse_elem onto
    FuseMultiU  unfuse in certificate form
    FuseMultiR1 … R5   the general round trip: partially expanded lists, stage 0 (the fused
                array in forward form), one stage of unfusing, iteration, the transposed array
-/
import SymmModel.Proofs.FuseMultiR5
