/-
  SymmModel.Proofs.FermiAction6 — the built operator array with any number of sites applied to a
  state tensor: basis multi-index ↔ (sector, offsets), the sum over all basis multi-indices, and
  the action matrix `D·H·D` (property C18, action clause).
-/
import SymmModel.Proofs.FermiAction5

namespace SymmModel
namespace FermiActP
open FermiOpsP GradedP TdotP
open Lazy (sgnI)

/-! ### all axes: basis multi-index ↔ address -/

/-- offsets of a basis multi-index inside the blocks of its charges -/
def ranksOf (maps : List (List Charge)) (js : List Nat) : List Nat := List.zipWith rankIn maps js

theorem fdOrig_cons (m : List Charge) (maps : List (List Charge)) (c : Charge) (J : Sector)
    (k0 : Nat) (k : List Nat) :
    fdOrig (m :: maps) (c :: J) (k0 :: k) = posIn m c k0 :: fdOrig maps J k := rfl

theorem sectorOf_append {maps1 maps2 : List (List Charge)} {s1 s2 : Sector}
    (h1 : SectorOf maps1 s1) (h2 : SectorOf maps2 s2) : SectorOf (maps1 ++ maps2) (s1 ++ s2) := by
  unfold SectorOf at *
  induction h1 with
  | nil => exact h2
  | cons a _ ih => exact List.Forall₂.cons a ih

theorem fdPos_append (maps1 maps2 : List (List Charge)) (s1 s2 : Sector)
    (h : maps1.length = s1.length) :
    fdPos (maps1 ++ maps2) (s1 ++ s2) = fdPos maps1 s1 ++ fdPos maps2 s2 := by
  unfold fdPos
  rw [List.map_append, List.zipWith_append (by simpa using h)]

theorem fdOrig_append (maps1 maps2 : List (List Charge)) (s1 s2 : Sector) (o1 o2 : List Nat)
    (h : maps1.length = s1.length) (ho : o1.length = s1.length) :
    fdOrig (maps1 ++ maps2) (s1 ++ s2) (o1 ++ o2) = fdOrig maps1 s1 o1 ++ fdOrig maps2 s2 o2 := by
  unfold fdOrig
  rw [fdPos_append _ _ _ _ h, List.zipWith_append (by simp [fdPos, h, ho])]

theorem inBox_append_of {d1 d2 i1 i2 : List Nat} (h1 : inBox d1 i1 = true) (h2 : inBox d2 i2 = true) :
    inBox (d1 ++ d2) (i1 ++ i2) = true := by
  induction d1 generalizing i1 with
  | nil => cases i1 with
    | nil => exact h2
    | cons _ _ => simp [inBox] at h1
  | cons d d1 ih =>
    cases i1 with
    | nil => simp [inBox] at h1
    | cons i i1 =>
      simp only [inBox, Bool.and_eq_true] at h1
      simp only [List.cons_append, inBox, Bool.and_eq_true]
      exact ⟨h1.1, ih h1.2⟩

/-- from a sector with an offset to the basis multi-index and back -/
theorem fdOrig_ranks : ∀ (maps : List (List Charge)) (J : Sector) (k : List Nat),
    SectorOf maps J → inBox ((fdPos maps J).map List.length) k = true →
    ranksOf maps (fdOrig maps J k) = k
  | [], J, k, hs, hk => by
    cases hs
    cases k with
    | nil => rfl
    | cons _ _ => simp [fdPos, inBox] at hk
  | m :: maps, J, k, hs, hk => by
    cases hs with
    | cons hc hrest =>
      rename_i c J'
      obtain ⟨l, hl, _⟩ := cg_lookup hc
      rw [fdPos_cons, hl] at hk
      cases k with
      | nil => simp [inBox] at hk
      | cons k0 k =>
        simp only [Option.getD_some, List.map_cons, inBox, Bool.and_eq_true, decide_eq_true_eq] at hk
        obtain ⟨p1, _, _, p4⟩ := pos_of_group m c l hl k0 hk.1
        rw [fdOrig_cons, p1]
        show rankIn m l[k0] :: ranksOf maps (fdOrig maps J' k) = k0 :: k
        rw [p4, fdOrig_ranks maps J' k hrest hk.2]

/-- from a basis multi-index to its address and back -/
theorem fdOrig_of_index : ∀ (maps : List (List Charge)) (js : List Nat),
    inBox (maps.map List.length) js = true →
    SectorOf maps (labelsAt maps js)
    ∧ inBox ((fdPos maps (labelsAt maps js)).map List.length) (ranksOf maps js) = true
    ∧ fdOrig maps (labelsAt maps js) (ranksOf maps js) = js
  | [], js, h => by
    cases js with
    | nil => exact ⟨List.Forall₂.nil, rfl, rfl⟩
    | cons _ _ => simp [inBox] at h
  | m :: maps, js, h => by
    cases js with
    | nil => simp [inBox] at h
    | cons j js =>
      simp only [List.map_cons, inBox, Bool.and_eq_true, decide_eq_true_eq] at h
      obtain ⟨l, hl, hmem, hr, hlj⟩ := group_of_pos m j h.1
      obtain ⟨i1, i2, i3⟩ := fdOrig_of_index maps js h.2
      have e1 : labelsAt (m :: maps) (j :: js) = m.getD j (0, 0) :: labelsAt maps js := rfl
      have e2 : ranksOf (m :: maps) (j :: js) = rankIn m j :: ranksOf maps js := rfl
      rw [e1, e2]
      refine ⟨List.Forall₂.cons (key_of_lookup hl) i1, ?_, ?_⟩
      · rw [fdPos_cons, hl]
        simp only [Option.getD_some, List.map_cons, inBox, Bool.and_eq_true, decide_eq_true_eq]
        exact ⟨hr, i2⟩
      · rw [fdOrig_cons, i3]
        congr 1
        unfold posIn
        rw [hl, Option.getD_some, List.getD_eq_getElem?_getD, List.getElem?_eq_getElem hr, hlj]
        rfl

/-- the product of the sorted charge tables of `from_dense` lists sectors with their block shapes -/
theorem mem_cart_tables : ∀ (maps : List (List Charge)) (Jd : List (Charge × Nat)),
    Jd ∈ cartesian (maps.map (fun m => Index.sortCm (gsizes m))) →
    SectorOf maps (Jd.map (·.1)) ∧ Jd.map (·.2) = (fdPos maps (Jd.map (·.1))).map List.length
  | [], Jd, h => by
    simp only [List.map_nil, cartesian, List.mem_singleton] at h
    subst h; exact ⟨List.Forall₂.nil, rfl⟩
  | m :: maps, Jd, h => by
    rw [mem_cartesian] at h
    cases Jd with
    | nil => cases h
    | cons cd Jd =>
      simp only [List.map_cons] at h
      cases h with
      | cons h1 h2 =>
        obtain ⟨l, hl, hd⟩ := mem_gsizes.mp (mem_sortCm.mp h1)
        obtain ⟨i1, i2⟩ := mem_cart_tables maps Jd (mem_cartesian.mpr h2)
        refine ⟨List.Forall₂.cons (key_of_lookup hl) i1, ?_⟩
        simp only [List.map_cons, fdPos_cons, hl, Option.getD_some, hd, i2]

/-! ### the sum over all basis multi-indices -/
section sumall
variable {R : Type} [AddCommMonoid R]

theorem sum_swap' {β γ : Type} (l : List β) (l' : List γ) (f : β → γ → R) :
    (l.map (fun x => (l'.map (fun y => f x y)).sum)).sum
      = (l'.map (fun y => (l.map (fun x => f x y)).sum)).sum := by
  induction l with
  | nil => simp
  | cons a l ih =>
    simp only [List.map_cons, List.sum_cons, ih]
    rw [← List.sum_map_add]

/-- summing sector by sector and offset by offset over the product of the charge tables
    = summing over all basis multi-indices -/
theorem sum_groups_all : ∀ (maps : List (List Charge)) (h : List Nat → R),
    ((cartesian (maps.map (fun m => Index.sortCm (gsizes m)))).map (fun Jd =>
        ((allIdx (Jd.map (·.2))).map (fun k => h (fdOrig maps (Jd.map (·.1)) k))).sum)).sum
      = ((allIdx (maps.map List.length)).map h).sum
  | [], h => by
    show h [] + 0 + 0 = h [] + 0
    rw [add_zero, add_zero]
  | m :: maps, h => by
    have ih := fun h' => sum_groups_all maps h'
    simp only [List.map_cons, cartesian, allIdx]
    rw [sum_flatMap_map, sum_flatMap_map]
    simp only [List.map_map, Function.comp_def, List.map_cons, allIdx, sum_flatMap_map, fdOrig_cons]
    -- swap the sums over the remaining sectors and the first offset
    have hsw : ∀ cd : Charge × Nat,
        ((cartesian (maps.map (fun m => Index.sortCm (gsizes m)))).map (fun Jd =>
          ((List.range cd.2).map (fun k0 =>
            ((allIdx (Jd.map (·.2))).map (fun k =>
              h (posIn m cd.1 k0 :: fdOrig maps (Jd.map (·.1)) k))).sum)).sum)).sum
        = ((List.range cd.2).map (fun k0 =>
            ((allIdx (maps.map List.length)).map (fun js => h (posIn m cd.1 k0 :: js))).sum)).sum := by
      intro cd
      rw [sum_swap']
      congr 1
      apply List.map_congr_left
      intro k0 _
      exact ih (fun js => h (posIn m cd.1 k0 :: js))
    simp only [hsw]
    exact sum_groups m (fun j => ((allIdx (maps.map List.length)).map (fun js => h (j :: js))).sum)

end sumall

/-! ### the built array, any number of sites -/

theorem fdIndices_append (maps1 maps2 : List (List Charge)) (d1 d2 : List Bool)
    (h : maps1.length = d1.length) :
    fdIndices (maps1 ++ maps2) (d1 ++ d2) = fdIndices maps1 d1 ++ fdIndices maps2 d2 := by
  unfold fdIndices
  rw [List.zipWith_append h]

theorem fdIndices_cm : ∀ (maps : List (List Charge)) (ds : List Bool), ds.length = maps.length →
    (fdIndices maps ds).map Index.cm = maps.map (fun m => Index.sortCm (gsizes m))
  | [], [], _ => rfl
  | [], _ :: _, h => by simp at h
  | _ :: _, [], h => by simp at h
  | m :: maps, d :: ds, h => by
    rw [fdIndices_cons, List.map_cons, List.map_cons, fdIndices_cm maps ds (by simpa using h)]
    rfl

section arrayn
variable {R : Type} [Ring R] [DecidableEq R]

theorem opArray_indices (terms : List (R × Word)) (bases : List (List Word)) (sym : Sym)
    (maps : List (List Charge)) (hlen : maps.length = bases.length) :
    (opArray terms bases sym maps).indices
      = fdIndices maps (List.replicate bases.length false)
        ++ fdIndices maps (List.replicate bases.length true) := by
  show fdIndices (maps ++ maps) (opDuals bases.length) = _
  unfold opDuals
  rw [fdIndices_append _ _ _ _ (by simp [hlen])]

theorem opArray_take_drop (terms : List (R × Word)) (bases : List (List Word)) (sym : Sym)
    (maps : List (List Charge)) (hlen : maps.length = bases.length) :
    (opArray terms bases sym maps).ndim = 2 * bases.length
    ∧ (opArray terms bases sym maps).indices.take bases.length
        = fdIndices maps (List.replicate bases.length false)
    ∧ (opArray terms bases sym maps).indices.drop bases.length
        = fdIndices maps (List.replicate bases.length true) := by
  have hl : (fdIndices maps (List.replicate bases.length false)).length = bases.length := by
    rw [fdIndices_length _ _ (by simp [hlen]), hlen]
  have hl2 : (fdIndices maps (List.replicate bases.length true)).length = bases.length := by
    rw [fdIndices_length _ _ (by simp [hlen]), hlen]
  refine ⟨?_, ?_, ?_⟩
  · unfold Arr.ndim
    rw [opArray_indices terms bases sym maps hlen, List.length_append, hl, hl2]; omega
  · rw [opArray_indices terms bases sym maps hlen, List.take_left' hl]
  · rw [opArray_indices terms bases sym maps hlen, List.drop_left' hl]

theorem opArray_bra_dual (terms : List (R × Word)) (bases : List (List Word)) (sym : Sym)
    (maps : List (List Charge)) (hlen : maps.length = bases.length) :
    ∀ ax ∈ (List.range (2 * bases.length)).drop bases.length,
      ((opArray terms bases sym maps).indices.getD ax default).dual = true := by
  intro ax hax
  obtain ⟨h1, h2⟩ := mem_drop_range.mp hax
  have hd := fdIndices_duals (maps ++ maps) (opDuals bases.length) (by simp [opDuals, hlen])
  have hl : (opArray terms bases sym maps).indices.length = 2 * bases.length :=
    (opArray_take_drop terms bases sym maps hlen).1
  have : ((opArray terms bases sym maps).indices.map Index.dual)[ax]? = (opDuals bases.length)[ax]? := by
    show ((fdIndices (maps ++ maps) (opDuals bases.length)).map Index.dual)[ax]? = _
    rw [hd]
  rw [List.getElem?_map] at this
  rw [List.getD_eq_getElem?_getD]
  have hlt : ax < (opArray terms bases sym maps).indices.length := by omega
  rw [List.getElem?_eq_getElem hlt] at this ⊢
  simp only [Option.map_some, Option.getD_some] at this ⊢
  have e : (opDuals bases.length)[ax]? = some true := by
    unfold opDuals
    rw [List.getElem?_append_right (by simp; omega)]
    simp only [List.length_replicate]
    rw [List.getElem?_replicate, if_pos (by omega)]
  rw [e] at this
  exact Option.some.inj this

/-- the value of the built array at a split address `(L ++ J, oL ++ k)` is the (masked) specified
    element at the basis multi-indices the two halves denote -/
theorem opArray_elem_split (terms : List (R × Word)) (bases : List (List Word)) (sym : Sym)
    (maps : List (List Charge)) (hmaps : maps.map List.length = bases.map List.length)
    (L J : Sector) (oL k : List Nat) (hL : SectorOf maps L) (hJ : SectorOf maps J)
    (hoL : inBox ((fdPos maps L).map List.length) oL = true)
    (hk : inBox ((fdPos maps J).map List.length) k = true) :
    (opArray terms bases sym maps).elem (L ++ J) (oL ++ k)
      = opEntry terms bases sym maps (fdOrig maps L oL ++ fdOrig maps J k) := by
  have hLl : maps.length = L.length := hL.length_eq.symm
  have hoLl : oL.length = L.length := by
    have := inBox_length hoL; simp [fdPos] at this; omega
  have hs : SectorOf (maps ++ maps) (L ++ J) := sectorOf_append hL hJ
  have hbox : inBox ((fdPos (maps ++ maps) (L ++ J)).map List.length) (oL ++ k) = true := by
    rw [fdPos_append _ _ _ _ hLl, List.map_append]
    exact inBox_append_of hoL hk
  rw [(opArray_elem terms bases sym maps hmaps (L ++ J) (oL ++ k)).1 hs hbox,
    fdOrig_append _ _ _ _ _ _ hLl hoLl]
  unfold opEntry
  have := (fdOrig_spec (maps ++ maps) (L ++ J) (oL ++ k) hs hbox).2
  rw [fdOrig_append _ _ _ _ _ _ hLl hoLl] at this
  rw [this]

/-- **action of the built array, entry form** (any number of sites).  At the address of the basis
    multi-index `is` and any address `(Rr, oR)` of the remaining legs of `ψ`, the contraction
    over the bra legs is the label sign times
    `Σ_{js} ρ(js) · G⟨is, js⟩ · ψ⟨js, Rr, oR⟩` over ALL basis multi-indices `js`, with
    `ρ(js) = revSign` of the charges labelling `js` and `G⟨is,js⟩ = opEntry`. -/
theorem action_entries (terms : List (R × Word)) (bases : List (List Word)) (sym : Sym)
    (maps : List (List Charge)) (hmaps : maps.map List.length = bases.map List.length)
    (hv : ∀ m ∈ maps, ∀ c ∈ m, sym.valid c = true)
    (ψ c : Arr R) (hψ : ψ.validB = true) (hfψ : ψ.fermi = true)
    (hadm : ValidP.tdotAdmissibleB (opArray terms bases sym maps) ψ
      ((List.range (2 * bases.length)).drop bases.length) (List.range bases.length) = true)
    (h : (opArray terms bases sym maps).tensordotF ψ
        (.pair (((List.range (2 * bases.length)).drop bases.length).map Int.ofNat)
          ((List.range bases.length).map Int.ofNat)) .blockwise = .ok c) :
    ∃ out ph, OddposP.mergeOddpos false [] ψ.oddpos = .ok (out, ph) ∧ c.oddpos = out
      ∧ c.charge = sym.combine [sym.zero, ψ.charge]
      ∧ ∀ (is : List Nat) (Rr : Sector) (oR shpR : List Nat),
          inBox (bases.map List.length) is = true →
          Arr.blockShape? (ψ.indices.drop bases.length) Rr = some shpR → inBox shpR oR = true →
          c.elem (labelsAt maps is ++ Rr) (ranksOf maps is ++ oR) = sgnI ph
            (((allIdx (bases.map List.length)).map (fun js =>
                sgnI (revSign sym (labelsAt maps js))
                  (opEntry terms bases sym maps (is ++ js)
                    * ψ.elem (labelsAt maps js ++ Rr) (ranksOf maps js ++ oR)))).sum) := by
  have hlen : maps.length = bases.length := by
    have := congrArg List.length hmaps; simpa using this
  obtain ⟨hnd, htake, hdrop⟩ := opArray_take_drop terms bases sym maps hlen
  have hG := opArray_valid terms bases sym maps hmaps hv
  obtain ⟨out, ph, h1, h2, h3, h4⟩ := apply_op (opArray terms bases sym maps) ψ c bases.length hnd
    (opArray_bra_dual terms bases sym maps hlen) hG hψ rfl hfψ hadm h
  have hpar : (opArray terms bases sym maps).parity = false := parity_zero sym
  rw [hpar] at h1
  refine ⟨out, ph, h1, h2, h3, ?_⟩
  intro is Rr oR shpR his hshp hbox
  rw [← hmaps] at his
  obtain ⟨i1, i2, i3⟩ := fdOrig_of_index maps is his
  have hLl : (labelsAt maps is).length = bases.length := by rw [i1.length_eq, hlen]
  have hoLl : (ranksOf maps is).length = bases.length := by
    have := inBox_length i2; simp [fdPos] at this
    rw [this, i1.length_eq, hlen, Nat.min_self]
  have hshape : Arr.blockShape? ((opArray terms bases sym maps).indices.take bases.length
      ++ ψ.indices.drop bases.length) (labelsAt maps is ++ Rr)
      = some ((fdPos maps (labelsAt maps is)).map List.length ++ shpR) := by
    rw [htake]
    exact TdotP.blockShape?_append (blockShape_fdIndices maps _ _ (by simp [hlen]) i1) hshp
  rw [h4 _ Rr _ oR _ hLl hoLl hshape (inBox_append_of i2 hbox)]
  congr 1
  rw [hdrop, fdIndices_cm maps _ (by simp [hlen]), ← hmaps,
    ← sum_groups_all maps (fun js => sgnI (revSign sym (labelsAt maps js))
      (opEntry terms bases sym maps (is ++ js)
        * ψ.elem (labelsAt maps js ++ Rr) (ranksOf maps js ++ oR)))]
  congr 1
  apply List.map_congr_left
  intro Jd hJd
  obtain ⟨j1, j2⟩ := mem_cart_tables maps Jd hJd
  show sgnI (revSign sym (Jd.map (·.1))) _ = _
  rw [← sgnI_sum]
  congr 1
  apply List.map_congr_left
  intro k hk
  have hk' : inBox ((fdPos maps (Jd.map (·.1))).map List.length) k = true := by
    rw [← j2]; exact mem_allIdx.mp hk
  obtain ⟨_, o2⟩ := fdOrig_spec maps (Jd.map (·.1)) k j1 hk'
  rw [o2, fdOrig_ranks maps _ k j1 hk',
    opArray_elem_split terms bases sym maps hmaps _ _ _ _ i1 j1 i2 hk', i3]

end arrayn

/-! ### the reversal sign of the charges is the site sign `τ` of the bra convention -/

/-- every label of the index maps has the fermion parity of the basis state it labels -/
def ParityFaithful (sym : Sym) (bases : List (List Word)) (maps : List (List Charge)) : Prop :=
  List.Forall₂ (fun (m : List Charge) (b : List Word) =>
    List.Forall₂ (fun c (w : Word) => sym.parity c = (w.length % 2 == 1)) m b) maps bases

theorem forall₂_getD {β γ : Type} {P : β → γ → Prop} {l1 : List β} {l2 : List γ}
    (h : List.Forall₂ P l1 l2) (d1 : β) (d2 : γ) (i : Nat) (hi : i < l1.length) :
    P (l1.getD i d1) (l2.getD i d2) := by
  induction h generalizing i with
  | nil => simp at hi
  | cons hab _ ih =>
    cases i with
    | zero => simpa using hab
    | succ i => simpa using ih i (by simpa using hi)

theorem parities_of_faithful {sym : Sym} {bases : List (List Word)} {maps : List (List Charge)}
    (h : ParityFaithful sym bases maps) : ∀ js, inBox (maps.map List.length) js = true →
    (labelsAt maps js).map sym.parity = (ketBlocks bases js).map (fun w => w.length % 2 == 1) := by
  unfold ParityFaithful at h
  induction h with
  | nil => intro js _; cases js <;> rfl
  | @cons m b maps' bases' hmb _ ih =>
    intro js hjs
    cases js with
    | nil => simp [inBox] at hjs
    | cons j js =>
      simp only [List.map_cons, inBox, Bool.and_eq_true, decide_eq_true_eq] at hjs
      show sym.parity (m.getD j (0, 0)) :: (labelsAt maps' js).map sym.parity
        = ((b.getD j []).length % 2 == 1) :: (ketBlocks bases' js).map _
      rw [ih js hjs.2, forall₂_getD hmb (0, 0) [] j hjs.1]

theorem tri_succ (q : Nat) : (q + 1) * (q + 1 - 1) / 2 = q * (q - 1) / 2 + q := by
  cases q with
  | zero => rfl
  | succ r =>
    have : (r + 1 + 1) * (r + 1 + 1 - 1) = (r + 1) * (r + 1 - 1) + 2 * (r + 1) := by
      simp only [Nat.add_sub_cancel]; ring
    rw [this, Nat.add_mul_div_left _ _ (by omega)]

theorem pairCount_parity (ls : List Nat) :
    pairCount ls % 2
        = ((ls.filter (fun a => a % 2 == 1)).length * ((ls.filter (fun a => a % 2 == 1)).length - 1) / 2) % 2
    ∧ sumN ls % 2 = (ls.filter (fun a => a % 2 == 1)).length % 2 := by
  induction ls with
  | nil => exact ⟨rfl, rfl⟩
  | cons a r ih =>
    obtain ⟨ih1, ih2⟩ := ih
    simp only [pairCount, sumN, List.filter_cons]
    have hx : (a * sumN r) % 2 = (a % 2) * (sumN r % 2) % 2 := Nat.mul_mod _ _ _
    rcases Nat.mod_two_eq_zero_or_one a with ha | ha
    · rw [ha] at hx
      simp only [ha, Nat.zero_mul, Nat.zero_mod] at hx
      have : (a % 2 == 1) = false := by simp [ha]
      simp only [this, Bool.false_eq_true, if_false]
      omega
    · rw [ha] at hx
      simp only [Nat.one_mul, Nat.mod_mod] at hx
      have : (a % 2 == 1) = true := by simp [ha]
      simp only [this, if_true, List.length_cons]
      have t := tri_succ (List.filter (fun a => a % 2 == 1) r).length
      omega

theorem sgn_congr {a b : Nat} (h : a % 2 = b % 2) : sgn a = sgn b := by
  unfold sgn; rw [h]

theorem neg_one_pow_eq_sgn (t : Nat) : (-1 : Int) ^ t = sgn t := by
  induction t with
  | zero => rfl
  | succ t ih => rw [Int.pow_succ, ih, sgn_succ]; omega

theorem revSign_eq_siteSign {sym : Sym} {bases : List (List Word)} {maps : List (List Charge)}
    (h : ParityFaithful sym bases maps) (js : List Nat)
    (hjs : inBox (maps.map List.length) js = true) :
    revSign sym (labelsAt maps js) = siteSign bases js := by
  unfold revSign siteSign
  rw [neg_one_pow_eq_sgn]
  apply sgn_congr
  rw [(pairCount_parity _).1]
  have hp := parities_of_faithful h js hjs
  have e : ((labelsAt maps js).filter sym.parity).length
      = (((ketBlocks bases js).map List.length).filter (fun a => a % 2 == 1)).length := by
    have h1 : ((labelsAt maps js).filter sym.parity).length
        = (((labelsAt maps js).map sym.parity).filter id).length := by
      rw [List.filter_map, List.length_map]; rfl
    have h2 : (((ketBlocks bases js).map List.length).filter (fun a => a % 2 == 1)).length
        = (((ketBlocks bases js).map (fun w => w.length % 2 == 1)).filter id).length := by
      rw [List.filter_map, List.filter_map, List.length_map, List.length_map]; rfl
    rw [h1, h2, hp]
  rw [e]

/-! ### the action matrix `D·H·D` -/
section dhd
variable {R : Type} [Ring R] [DecidableEq R]

theorem sgnI_scaleInt_mul (σ τ : Int) (hσ : σ = 1 ∨ σ = -1) (hτ : τ = 1 ∨ τ = -1) (x y : R) :
    sgnI σ (scaleInt τ x * y) = scaleInt (τ * σ) x * y := by
  rcases hσ with rfl | rfl <;> rcases hτ with rfl | rfl <;> simp [sgnI, scaleInt]

/-- **action_eq** (any number of sites).  With index maps that are charge maps of a charge
    assignment for which the terms are neutral (`ChargeMaps`), labels of the right fermion parity
    (`ParityFaithful`) and sites acting on different modes, `tensordot(G, ψ)` over the bra legs of
    the built array and the first `n` legs of a valid fermionic state is, at the address of the
    basis multi-index `is`,
        `ph · Σ_{js} (D·H·D)[is, js] · ψ⟨js, Rr, oR⟩`,
    `H` the proper Fock matrix of the operator and `D = diag τ` the fixed sign of the bra
    convention — the same `D` for every operator on these bases. -/
theorem action_DHD (terms : List (R × Word)) (bases : List (List Word)) (sym : Sym)
    (maps : List (List Charge)) (hmaps : maps.map List.length = bases.map List.length)
    (hv : ∀ m ∈ maps, ∀ c ∈ m, sym.valid c = true) (hd : SitesDisjoint bases)
    (q1 q2 : Int → Int) (hcm : ChargeMaps sym q1 q2 bases maps)
    (hn1 : ∀ ct ∈ terms, wordCharge q1 ct.2 = 0) (hn2 : ∀ ct ∈ terms, wordCharge q2 ct.2 = 0)
    (hpf : ParityFaithful sym bases maps)
    (ψ c : Arr R) (hψ : ψ.validB = true) (hfψ : ψ.fermi = true)
    (hadm : ValidP.tdotAdmissibleB (opArray terms bases sym maps) ψ
      ((List.range (2 * bases.length)).drop bases.length) (List.range bases.length) = true)
    (h : (opArray terms bases sym maps).tensordotF ψ
        (.pair (((List.range (2 * bases.length)).drop bases.length).map Int.ofNat)
          ((List.range bases.length).map Int.ofNat)) .blockwise = .ok c) :
    ∃ out ph, OddposP.mergeOddpos false [] ψ.oddpos = .ok (out, ph) ∧ c.oddpos = out
      ∧ c.charge = sym.combine [sym.zero, ψ.charge]
      ∧ ∀ (is : List Nat) (Rr : Sector) (oR shpR : List Nat),
          inBox (bases.map List.length) is = true →
          Arr.blockShape? (ψ.indices.drop bases.length) Rr = some shpR → inBox shpR oR = true →
          c.elem (labelsAt maps is ++ Rr) (ranksOf maps is ++ oR) = sgnI ph
            (((allIdx (bases.map List.length)).map (fun js =>
                actMatrix terms bases is js
                  * ψ.elem (labelsAt maps js ++ Rr) (ranksOf maps js ++ oR))).sum) := by
  obtain ⟨out, ph, h1, h2, h3, h4⟩ := action_entries terms bases sym maps hmaps hv ψ c hψ hfψ hadm h
  refine ⟨out, ph, h1, h2, h3, ?_⟩
  intro is Rr oR shpR his hshp hbox
  rw [h4 is Rr oR shpR his hshp hbox]
  congr 2
  apply List.map_congr_left
  intro js hjs
  have hjs' : inBox (bases.map List.length) js = true := mem_allIdx.mp hjs
  have hil : is.length = bases.length := by have := inBox_length his; simpa using this
  rw [opEntry_eq_specAt terms bases sym maps q1 q2 hcm hn1 hn2,
    specAt_eq_DH terms bases hd is js hil (inBox_append_of his hjs'),
    revSign_eq_siteSign hpf js (by rw [hmaps]; exact hjs'),
    sgnI_scaleInt_mul _ _ (siteSign_cases bases js) (siteSign_cases bases is)]
  rfl

end dhd

end FermiActP
end SymmModel
