/-
  SymmModel.Proofs.FuseLemmas — entry point of the lemma development for property C05.
  Layers (each its own file so that every file builds in a few seconds):
    FuseBase    boxes, ravel/unravel/allIdx, Blk.ofFn/get, kernels by `get`
    FuseAssoc   insertion-ordered dictionaries, isort, Charge.lt / sectorLt
    FuseTable   prefix-sum addressing in an extent, offsets/extentStart?, accumExtents
    FusePlan    calcFuseGroupInfo, planSector, calcFuseBlockInfo made explicit
    FuseWf      well-formedness and canonical order of the produced table (generic)
    FuseSpec    the plan at the fused positions, the new indices
    FuseAddr    splitAddr / joinAddr
    FuseIns     the accumulation loop "look up or create zero block, write a slice"
    FuseOne, FuseInsert, FuseSem   fuseInsert for one multi-axis group
    FuseUnfuse, FuseRound, FuseAll unfuseA / unfuseAllA and the round trip
    FuseElem    the element map of the fused array (splitAddr + un-permuting)
    FuseConcat, FuseConcat2, FuseConcat3   fuseConcat made explicit; insert = concat
-/
import SymmModel.Proofs.FuseConcat3
