/-
  SymmModel.Proofs.HamLemmas — helper lemmas for property C19 (Model/Ham.lean).
-/
import Mathlib.Algebra.Field.Rat
import Mathlib.Tactic.Ring
import Mathlib.Tactic.FieldSimp
import Mathlib.Data.List.Nodup
import SymmModel.Model.Ham
namespace SymmModel.HamLemmas
open SymmModel

/-! ### association lists -/

theorem alookup_ainsert {κ β : Type} [BEq κ] [LawfulBEq κ] [DecidableEq κ] (l : List (κ × β)) (k k' : κ) (x : β) :
    alookup (ainsert l k x) k' = if k = k' then some x else alookup l k' := by
  induction l with
  | nil => simp [ainsert, alookup]
  | cons p rest ih =>
    obtain ⟨k0, v0⟩ := p
    simp only [ainsert]
    by_cases h : k0 == k
    · have hk : k0 = k := by simpa using h
      subst hk
      simp only [beq_self_eq_true, if_true, alookup]
      by_cases h2 : k0 = k' <;> simp [h2]
    · have hk : k0 ≠ k := by simpa using h
      have hb : (k0 == k) = false := by simpa using hk
      simp only [hb, Bool.false_eq_true, if_false, alookup]
      by_cases h2 : k0 = k'
      · subst h2
        simp [Ne.symm hk]
      · have hb2 : (k0 == k') = false := by simpa using h2
        simp [hb2, ih]

theorem ainsert_fresh {κ β : Type} [BEq κ] [LawfulBEq κ] [DecidableEq κ] (l : List (κ × β)) (k : κ) (x : β)
    (h : k ∉ l.map (·.1)) : ainsert l k x = l ++ [(k, x)] := by
  induction l with
  | nil => rfl
  | cons p rest ih =>
    obtain ⟨k0, v0⟩ := p
    simp only [List.map_cons, List.mem_cons, not_or] at h
    have : (k0 == k) = false := by simpa using (Ne.symm h.1)
    simp [ainsert, this, ih h.2]

theorem adict_eq_self {κ β : Type} [BEq κ] [LawfulBEq κ] [DecidableEq κ] (ps : List (κ × β))
    (h : (ps.map (·.1)).Nodup) : adict ps = ps := by
  have key : ∀ (ps acc : List (κ × β)), ((acc ++ ps).map (·.1)).Nodup →
      ps.foldl (fun acc p => ainsert acc p.1 p.2) acc = acc ++ ps := by
    intro ps
    induction ps with
    | nil => intro acc _; simp
    | cons p rest ih =>
      intro acc hnd
      simp only [List.foldl_cons]
      have hfresh : p.1 ∉ acc.map (·.1) := by
        intro hm
        rw [List.map_append, List.map_cons] at hnd
        have := (List.nodup_append.mp hnd).2.2 _ hm p.1 (by simp)
        exact this rfl
      rw [ainsert_fresh acc p.1 p.2 hfresh]
      have : (acc ++ [(p.1, p.2)] ++ rest) = acc ++ p :: rest := by simp
      rw [ih (acc ++ [(p.1, p.2)]) (by rw [this]; exact hnd), this]
  simpa [adict] using key ps [] (by simpa using h)

/-! ### coordination = degree -/

def TableOk (acc : List (Site × Nat)) (f : Site → Nat) : Prop :=
  ∀ v, alookup acc v = if f v = 0 then none else some (f v)

theorem coordStep_ok (acc : List (Site × Nat)) (f : Site → Nat) (e : Edge) (h : TableOk acc f) :
    TableOk (coordStep acc e)
      (fun v => f v + ((if e.1 = v then 1 else 0) + (if e.2 = v then 1 else 0))) := by
  intro v
  simp only [coordStep, alookup_ainsert, h _]
  by_cases h1 : e.1 = v <;> by_cases h2 : e.2 = v <;> by_cases h0 : f v = 0 <;>
    simp_all

theorem coordFold_ok (es : List Edge) : ∀ (acc : List (Site × Nat)) (f : Site → Nat),
    TableOk acc f → TableOk (es.foldl coordStep acc) (fun v => f v + degree es v) := by
  induction es with
  | nil => intro acc f h; simpa [degree] using h
  | cons e rest ih =>
    intro acc f h
    have := ih _ _ (coordStep_ok acc f e h)
    intro v
    rw [List.foldl_cons, this v]
    simp only [degree, Nat.add_assoc]

theorem coordination_eq (edges : List Edge) (v : Site) :
    coordination edges v = if degree edges v = 0 then none else some (degree edges v) := by
  have := coordFold_ok edges [] (fun _ => 0) (by intro v; simp [alookup]) v
  simpa [coordination, coordTable] using this


/-! ### mapOpt -/

theorem mapOpt_eq_map {α β : Type} (f : α → Option β) (d : β) :
    ∀ (l : List α) (r : List β), mapOpt f l = some r →
      r = l.map (fun a => (f a).getD d) ∧ ∀ a ∈ l, (f a).isSome := by
  intro l
  induction l with
  | nil => intro r h; simp [mapOpt] at h; subst h; simp
  | cons a as ih =>
    intro r h
    simp only [mapOpt] at h
    cases hfa : f a with
    | none => simp [hfa] at h
    | some b =>
      cases hrest : mapOpt f as with
      | none => simp [hfa, hrest] at h
      | some bs =>
        simp [hfa, hrest] at h
        obtain ⟨h1, h2⟩ := ih bs hrest
        subst h
        refine ⟨by simp [hfa, ← h1], ?_⟩
        intro a' ha'
        rcases List.mem_cons.mp ha' with rfl | hm
        · simp [hfa]
        · exact h2 a' hm

/-! ### sums -/

theorem sum_map_add {α : Type} (l : List α) (f g : α → Rat) :
    (l.map (fun a => f a + g a)).sum = (l.map f).sum + (l.map g).sum := by
  induction l with
  | nil => simp
  | cons a as ih => simp only [List.map_cons, List.sum_cons, ih]; ring

theorem sum_map_congr {α : Type} (l : List α) (f g : α → Rat) (h : ∀ a ∈ l, f a = g a) :
    (l.map f).sum = (l.map g).sum := by
  induction l with
  | nil => simp
  | cons a as ih =>
    simp only [List.map_cons, List.sum_cons]
    rw [h a (by simp), ih (fun x hx => h x (by simp [hx]))]

theorem sum_supported {α : Type} [DecidableEq α] (l : List α) (hnd : l.Nodup) (ψ : α → Rat) (w : α)
    (hψ : ∀ v, v ≠ w → ψ v = 0) : (l.map ψ).sum = if w ∈ l then ψ w else 0 := by
  induction l with
  | nil => simp
  | cons a as ih =>
    have hnd' := List.nodup_cons.mp hnd
    simp only [List.map_cons, List.sum_cons, ih hnd'.2]
    by_cases h : a = w
    · subst h
      simp [hnd'.1]
    · have : ¬ w = a := fun h' => h h'.symm
      simp [hψ a h, List.mem_cons, this]

theorem coefAt_append (a b : List Term) (k : Kind) (s : List Site) :
    coefAt (a ++ b) k s = coefAt a k s + coefAt b k s := by
  simp [coefAt, List.sum_append]

theorem coefAt_flatMap {α : Type} (l : List α) (g : α → List Term) (k : Kind) (s : List Site) :
    coefAt (l.flatMap g) k s = (l.map (fun a => coefAt (g a) k s)).sum := by
  induction l with
  | nil => simp [coefAt]
  | cons a as ih => simp only [List.flatMap_cons, coefAt_append, ih, List.map_cons, List.sum_cons]

/-! ### vertex set and degree -/

theorem mem_sitesOf (es : List Edge) (v : Site) :
    v ∈ sitesOf es ↔ ∃ e ∈ es, e.1 = v ∨ e.2 = v := by
  induction es with
  | nil => simp [sitesOf]
  | cons e rest ih =>
    simp only [sitesOf, List.mem_cons, exists_eq_or_imp]
    by_cases h1 : e.1 ∈ sitesOf rest
    · by_cases h2 : e.2 ∈ sitesOf rest
      · simp only [h1, h2, if_true, ih]
        constructor
        · intro h; exact Or.inr h
        · rintro (h | h)
          · rcases h with h | h
            · subst h; exact ih.mp h1
            · subst h; exact ih.mp h2
          · exact h
      · simp only [h1, h2, if_true, if_false, List.mem_cons, ih]
        constructor
        · rintro (h | h)
          · exact Or.inl (Or.inr h.symm)
          · exact Or.inr h
        · rintro (h | h)
          · rcases h with h | h
            · subst h; exact Or.inr (ih.mp h1)
            · exact Or.inl h.symm
          · exact Or.inr h
    · by_cases h2 : e.2 ∈ e.1 :: sitesOf rest
      · simp only [h1, h2, if_true, if_false, List.mem_cons, ih]
        constructor
        · rintro (h | h)
          · exact Or.inl (Or.inl h.symm)
          · exact Or.inr h
        · rintro (h | h)
          · rcases h with h | h
            · exact Or.inl h.symm
            · subst h
              rcases List.mem_cons.mp h2 with h3 | h3
              · exact Or.inl h3
              · exact Or.inr (ih.mp h3)
          · exact Or.inr h
      · simp only [h1, h2, if_false, List.mem_cons, ih]
        constructor
        · rintro (h | h | h)
          · exact Or.inl (Or.inr h.symm)
          · exact Or.inl (Or.inl h.symm)
          · exact Or.inr h
        · rintro (h | h)
          · rcases h with h | h
            · exact Or.inr (Or.inl h.symm)
            · exact Or.inl h.symm
          · exact Or.inr (Or.inr h)

theorem sitesOf_nodup (es : List Edge) : (sitesOf es).Nodup := by
  induction es with
  | nil => simp [sitesOf]
  | cons e rest ih =>
    simp only [sitesOf]
    by_cases h1 : e.1 ∈ sitesOf rest
    · by_cases h2 : e.2 ∈ sitesOf rest
      · simpa [h1, h2] using ih
      · simp only [h1, h2, if_true, if_false]
        exact List.nodup_cons.mpr ⟨h2, ih⟩
    · have hn1 : (e.1 :: sitesOf rest).Nodup := List.nodup_cons.mpr ⟨h1, ih⟩
      by_cases h2 : e.2 ∈ e.1 :: sitesOf rest
      · simpa [h1, h2] using hn1
      · simp only [h1, h2, if_false]
        exact List.nodup_cons.mpr ⟨h2, hn1⟩

theorem degree_ne_zero_iff (es : List Edge) (v : Site) :
    degree es v ≠ 0 ↔ ∃ e ∈ es, e.1 = v ∨ e.2 = v := by
  induction es with
  | nil => simp [degree]
  | cons e rest ih =>
    simp only [degree, List.mem_cons, exists_eq_or_imp]
    constructor
    · intro h
      by_cases h1 : e.1 = v
      · exact Or.inl (Or.inl h1)
      · by_cases h2 : e.2 = v
        · exact Or.inl (Or.inr h2)
        · right
          apply ih.mp
          simpa [h1, h2] using h
    · rintro (h | h)
      · rcases h with h | h <;> simp [h]
      · have := ih.mpr h
        omega

theorem degree_ne_zero_iff_mem (es : List Edge) (v : Site) :
    degree es v ≠ 0 ↔ v ∈ sitesOf es := by
  rw [degree_ne_zero_iff, mem_sitesOf]

/-- Σ over the edge ends that sit at `w` of a constant `x` is `degree · x`. -/
theorem sum_ends (es : List Edge) (w : Site) (x : Rat) :
    (es.map (fun e => (if e.1 = w then x else 0) + (if e.2 = w then x else 0))).sum
      = (degree es w : Rat) * x := by
  induction es with
  | nil => simp [degree]
  | cons e rest ih =>
    simp only [List.map_cons, List.sum_cons, ih, degree]
    by_cases h1 : e.1 = w <;> by_cases h2 : e.2 = w <;> simp [h1, h2] <;> ring

/-- the arithmetic heart of C19: dividing a per-site quantity by the degree on every incident
    edge end and summing over all edges gives the quantity once per site. -/
theorem onsite_core (edges : List Edge) (ψ : Site → Rat) (w : Site) (hψ : ∀ v, v ≠ w → ψ v = 0) :
    (edges.map (fun e => ψ e.1 / (degree edges e.1 : Rat) + ψ e.2 / (degree edges e.2 : Rat))).sum
      = ((sitesOf edges).map ψ).sum := by
  have h1 : (edges.map (fun e => ψ e.1 / (degree edges e.1 : Rat) + ψ e.2 / (degree edges e.2 : Rat))).sum
      = (edges.map (fun e => (if e.1 = w then ψ w / (degree edges w : Rat) else 0)
          + (if e.2 = w then ψ w / (degree edges w : Rat) else 0))).sum := by
    apply sum_map_congr
    intro e _
    by_cases h1 : e.1 = w <;> by_cases h2 : e.2 = w <;> simp [h1, h2, hψ]
  rw [h1, sum_ends, sum_supported _ (sitesOf_nodup edges) ψ w hψ]
  by_cases hd : degree edges w = 0
  · have : w ∉ sitesOf edges := fun hm => (degree_ne_zero_iff_mem edges w).mpr hm hd
    simp [hd, this]
  · have hm : w ∈ sitesOf edges := (degree_ne_zero_iff_mem edges w).mp hd
    have hq : (degree edges w : Rat) ≠ 0 := by exact_mod_cast hd
    simp only [hm, if_true]
    field_simp

theorem edgewise_sum (edges : List Edge) (F B : Edge → Rat) (ψ : Site → Rat) (w : Site)
    (hψ : ∀ v, v ≠ w → ψ v = 0)
    (hF : ∀ e ∈ edges, F e = B e + (ψ e.1 / (degree edges e.1 : Rat) + ψ e.2 / (degree edges e.2 : Rat))) :
    (edges.map F).sum = (edges.map B).sum + ((sitesOf edges).map ψ).sum := by
  rw [sum_map_congr edges F _ hF, sum_map_add, onsite_core edges ψ w hψ]


/-! ### closed form of the returned dict -/

theorem edgeDict_closed (args : Edge → Option LocalArgs) (terms : Site → Site → LocalArgs → List Term)
    (edges : List Edge) (H : List (Edge × LocalArgs × List Term)) (hnd : edges.Nodup)
    (h : edgeDict args terms edges = some H) :
    H = edges.map (fun e => (e, (args e).getD default, terms e.1 e.2 ((args e).getD default)))
      ∧ ∀ e ∈ edges, (args e).isSome := by
  unfold edgeDict edgeItems at h
  cases hi : mapOpt (fun e => (args e).map (fun g => (e, g, terms e.1 e.2 g))) edges with
  | none => simp [hi] at h
  | some items =>
    simp only [hi, Option.map_some, Option.some.injEq] at h
    obtain ⟨h1, h2⟩ := mapOpt_eq_map _ (default : Edge × LocalArgs × List Term) edges items hi
    have hsome : ∀ e ∈ edges, (args e).isSome := by
      intro e he
      have := h2 e he
      simpa using this
    have h3 : items = edges.map (fun e => (e, (args e).getD default, terms e.1 e.2 ((args e).getD default))) := by
      rw [h1]
      apply List.map_congr_left
      intro e he
      obtain ⟨g, hg⟩ := Option.isSome_iff_exists.mp (hsome e he)
      simp [hg]
    have hk : items.map (·.1) = edges := by
      rw [h3, List.map_map]
      simp [Function.comp_def]
    refine ⟨?_, hsome⟩
    rw [← h, adict_eq_self items (by rw [hk]; exact hnd), h3]

theorem allTerms_closed (args : Edge → Option LocalArgs) (terms : Site → Site → LocalArgs → List Term)
    (edges : List Edge) :
    allTerms (edges.map (fun e => (e, (args e).getD default, terms e.1 e.2 ((args e).getD default))))
      = edges.flatMap (fun e => terms e.1 e.2 ((args e).getD default)) := by
  induction edges with
  | nil => rfl
  | cons e rest ih =>
    simp only [allTerms, List.map_cons, List.flatMap_cons] at ih ⊢
    rw [ih]

theorem coord_some (edges : List Edge) (v : Site) (n : Nat) (h : coordination edges v = some n) :
    n = degree edges v ∧ degree edges v ≠ 0 := by
  rw [coordination_eq] at h
  by_cases hd : degree edges v = 0
  · simp [hd] at h
  · simp [hd] at h
    exact ⟨h.symm, hd⟩

/-! ### the three term lists split into a bond part and two site parts -/

def hubBondTerms (tv : Rat) (x y : Site) : List Term :=
  [ ⟨-tv, .hop .up, [x, y]⟩, ⟨-tv, .hop .up, [y, x]⟩,
    ⟨-tv, .hop .dn, [x, y]⟩, ⟨-tv, .hop .dn, [y, x]⟩ ]

def hubSiteTerms (u m : Rat) (v : Site) : List Term :=
  [ ⟨u, .dbl, [v]⟩, ⟨-m, .num .up, [v]⟩, ⟨-m, .num .dn, [v]⟩ ]

def slBondTerms (tv vv : Rat) (x y : Site) : List Term :=
  [ ⟨-tv, .hop .none, [x, y]⟩, ⟨-tv, .hop .none, [y, x]⟩, ⟨vv, .nn, [x, y]⟩ ]

def slSiteTerms (m : Rat) (v : Site) : List Term := [ ⟨-m, .num .none, [v]⟩ ]

def tfBondTerms (j : Rat) (x y : Site) : List Term := [ ⟨j, .xx, [x, y]⟩ ]

def tfSiteTerms (h : Rat) (v : Site) : List Term := [ ⟨h, .zf, [v]⟩ ]

theorem hubbard_local_decomp (x y : Site) (g : LocalArgs) (k : Kind) (s : List Site) :
    coefAt (hubbardLocalTerms x y g) k s = coefAt (hubBondTerms g.t x y) k s
      + (coefAt (hubSiteTerms g.ua g.mua x) k s / (g.ca : Rat)
        + coefAt (hubSiteTerms g.ub g.mub y) k s / (g.cb : Rat)) := by
  simp only [coefAt, hubbardLocalTerms, hubBondTerms, hubSiteTerms, List.map_cons, List.map_nil,
    List.sum_cons, List.sum_nil, add_div, ite_div, zero_div]
  ring

theorem spinless_local_decomp (x y : Site) (g : LocalArgs) (k : Kind) (s : List Site) :
    coefAt (spinlessLocalTerms x y g) k s = coefAt (slBondTerms g.t g.v x y) k s
      + (coefAt (slSiteTerms g.mua x) k s / (g.ca : Rat)
        + coefAt (slSiteTerms g.mub y) k s / (g.cb : Rat)) := by
  simp only [coefAt, spinlessLocalTerms, slBondTerms, slSiteTerms, List.map_cons, List.map_nil,
    List.sum_cons, List.sum_nil, add_div, ite_div, zero_div]
  ring

theorem tfim_local_decomp (x y : Site) (g : LocalArgs) (k : Kind) (s : List Site) :
    coefAt (tfimLocalTerms x y g) k s = coefAt (tfBondTerms g.t x y) k s
      + (coefAt (tfSiteTerms g.ua x) k s / (g.ca : Rat)
        + coefAt (tfSiteTerms g.ub y) k s / (g.cb : Rat)) := by
  simp only [coefAt, tfimLocalTerms, tfBondTerms, tfSiteTerms, List.map_cons, List.map_nil,
    List.sum_cons, List.sum_nil, add_div, ite_div, zero_div]
  ring

theorem hubSite_support (u m : Rat) (v : Site) (k : Kind) (s : List Site) (h : s ≠ [v]) :
    coefAt (hubSiteTerms u m v) k s = 0 := by
  have : ¬ [v] = s := fun h' => h h'.symm
  simp [coefAt, hubSiteTerms, this]

theorem slSite_support (m : Rat) (v : Site) (k : Kind) (s : List Site) (h : s ≠ [v]) :
    coefAt (slSiteTerms m v) k s = 0 := by
  have : ¬ [v] = s := fun h' => h h'.symm
  simp [coefAt, slSiteTerms, this]

theorem tfSite_support (m : Rat) (v : Site) (k : Kind) (s : List Site) (h : s ≠ [v]) :
    coefAt (tfSiteTerms m v) k s = 0 := by
  have : ¬ [v] = s := fun h' => h h'.symm
  simp [coefAt, tfSiteTerms, this]

theorem headD_support (s : List Site) (v : Site) (h : v ≠ s.headD 0) : s ≠ [v] := by
  intro hs; subst hs; simp at h


/-! ### what the builders pass down -/

theorem hubbardArgs_some (edges : List Edge) (t : EdgeCoef) (U mu : NodeCoef) (e : Edge) (g : LocalArgs)
    (h : hubbardArgs edges t U mu e = some g) :
    t.get e.1 e.2 = some g.t ∧ U.get e.1 = some g.ua ∧ U.get e.2 = some g.ub
      ∧ mu.get e.1 = some g.mua ∧ mu.get e.2 = some g.mub
      ∧ coordination edges e.1 = some g.ca ∧ coordination edges e.2 = some g.cb := by
  simp only [hubbardArgs, Option.bind_eq_bind, Option.pure_def, Option.bind_eq_some_iff] at h
  obtain ⟨a1, h1, a2, h2, a3, h3, a4, h4, a5, h5, a6, h6, a7, h7, hg⟩ := h
  simp only [Option.some.injEq] at hg
  subst hg
  exact ⟨h1, h2, h3, h4, h5, h6, h7⟩

theorem spinlessArgs_some (edges : List Edge) (t V : EdgeCoef) (mu : NodeCoef) (e : Edge) (g : LocalArgs)
    (h : spinlessArgs edges t V mu e = some g) :
    t.get e.1 e.2 = some g.t ∧ V.get e.1 e.2 = some g.v
      ∧ mu.get e.1 = some g.mua ∧ mu.get e.2 = some g.mub
      ∧ coordination edges e.1 = some g.ca ∧ coordination edges e.2 = some g.cb := by
  simp only [spinlessArgs, Option.bind_eq_bind, Option.pure_def, Option.bind_eq_some_iff] at h
  obtain ⟨a1, h1, a2, h2, a3, h3, a4, h4, a5, h5, a6, h6, hg⟩ := h
  simp only [Option.some.injEq] at hg
  subst hg
  exact ⟨h1, h2, h3, h4, h5, h6⟩

theorem tfimArgs_some (edges : List Edge) (jx : EdgeCoef) (hz : NodeCoef) (e : Edge) (g : LocalArgs)
    (h : tfimArgs edges jx hz e = some g) :
    jx.get e.1 e.2 = some g.t ∧ hz.get e.1 = some g.ua ∧ hz.get e.2 = some g.ub
      ∧ coordination edges e.1 = some g.ca ∧ coordination edges e.2 = some g.cb := by
  simp only [tfimArgs, Option.bind_eq_bind, Option.pure_def, Option.bind_eq_some_iff] at h
  obtain ⟨a1, h1, a2, h2, a3, h3, a4, h4, a5, h5, hg⟩ := h
  simp only [Option.some.injEq] at hg
  subst hg
  exact ⟨h1, h2, h3, h4, h5⟩


/-! ### simple graphs -/

theorem simple_nodup (es : List Edge) (h : simpleB es = true) : es.Nodup := by
  induction es with
  | nil => simp
  | cons e rest ih =>
    simp only [simpleB, Bool.and_eq_true, Bool.not_eq_true', bne_iff_ne, ne_eq] at h
    obtain ⟨⟨⟨_, h2⟩, _⟩, h4⟩ := h
    have : e ∉ rest := by simpa using h2
    exact List.nodup_cons.mpr ⟨this, ih h4⟩

theorem simple_noloop (es : List Edge) (h : simpleB es = true) : ∀ e ∈ es, e.1 ≠ e.2 := by
  induction es with
  | nil => simp
  | cons e rest ih =>
    simp only [simpleB, Bool.and_eq_true, Bool.not_eq_true', bne_iff_ne, ne_eq] at h
    obtain ⟨⟨⟨h1, _⟩, _⟩, h4⟩ := h
    intro e' he'
    rcases List.mem_cons.mp he' with rfl | hm
    · exact h1
    · exact ih h4 e' hm

theorem simple_norev (es : List Edge) (h : simpleB es = true) : ∀ e ∈ es, (e.2, e.1) ∉ es := by
  induction es with
  | nil => simp
  | cons e0 rest ih =>
    simp only [simpleB, Bool.and_eq_true, Bool.not_eq_true', bne_iff_ne, ne_eq] at h
    obtain ⟨⟨⟨h1, h2⟩, h3⟩, h4⟩ := h
    have h2' : e0 ∉ rest := by simpa using h2
    have h3' : (e0.2, e0.1) ∉ rest := by simpa using h3
    intro e he hrev
    rcases List.mem_cons.mp he with rfl | hm
    · rcases List.mem_cons.mp hrev with heq | hm2
      · apply h1
        have := congrArg Prod.fst heq
        simpa using this.symm
      · exact h3' hm2
    · rcases List.mem_cons.mp hrev with heq | hm2
      · apply h3'
        have : e = (e0.2, e0.1) := by
          rw [← heq]
        rw [← this]; exact hm
      · exact ih h4 e hm hm2

/-! ### filters -/

theorem filter_flatMap' {α β : Type} (l : List α) (g : α → List β) (p : β → Bool) :
    (l.flatMap g).filter p = l.flatMap (fun a => (g a).filter p) := by
  induction l with
  | nil => rfl
  | cons a as ih => simp only [List.flatMap_cons, List.filter_append, ih]

theorem flatMap_single {α β : Type} (l : List α) (hnd : l.Nodup) (a : α) (ha : a ∈ l)
    (g : α → List β) (h : ∀ e ∈ l, e ≠ a → g e = []) : l.flatMap g = g a := by
  induction l with
  | nil => simp at ha
  | cons x xs ih =>
    have hnd' := List.nodup_cons.mp hnd
    simp only [List.flatMap_cons]
    rcases List.mem_cons.mp ha with rfl | hm
    · have : xs.flatMap g = [] := by
        rw [List.flatMap_eq_nil_iff]
        intro e he
        exact h e (by simp [he]) (fun heq => hnd'.1 (heq ▸ he))
      simp [this]
    · have hx : x ≠ a := fun heq => hnd'.1 (heq ▸ hm)
      rw [h x (by simp) hx, ih hnd'.2 hm (fun e he hne => h e (by simp [he]) hne)]
      simp


/-! ### parse_edges_to_site_info -/

def legsOf (acc : List (Site × List Leg)) (v : Site) : List Leg := (alookup acc v).getD []

theorem parseStep_legs (D : Nat) (acc : List (Site × List Leg)) (e : Edge) (v : Site) :
    legsOf (parseStep D acc e) v = legsOf acc v ++ bondContrib D v e := by
  simp only [legsOf, parseStep, bondContrib, alookup_ainsert]
  by_cases hgt : e.1 > e.2 <;> simp only [hgt, if_true, if_false]
  · by_cases h1 : e.2 = v <;> by_cases h2 : e.1 = v <;> simp_all
  · by_cases h1 : e.1 = v <;> by_cases h2 : e.2 = v <;> simp_all

theorem parseStep_keys (D : Nat) (acc : List (Site × List Leg)) (e : Edge) (v : Site) :
    (alookup (parseStep D acc e) v).isSome = true
      ↔ ((alookup acc v).isSome = true ∨ e.1 = v ∨ e.2 = v) := by
  simp only [parseStep, alookup_ainsert]
  by_cases hgt : e.1 > e.2 <;> simp only [hgt, if_true, if_false]
  · by_cases h1 : e.2 = v <;> by_cases h2 : e.1 = v <;> simp_all
  · by_cases h1 : e.1 = v <;> by_cases h2 : e.2 = v <;> simp_all

theorem parseFold_legs (D : Nat) (es : List Edge) : ∀ (acc : List (Site × List Leg)) (v : Site),
    legsOf (es.foldl (parseStep D) acc) v = legsOf acc v ++ es.flatMap (bondContrib D v) := by
  induction es with
  | nil => intro acc v; simp
  | cons e rest ih =>
    intro acc v
    rw [List.foldl_cons, ih, parseStep_legs, List.flatMap_cons, List.append_assoc]

theorem parseFold_keys (D : Nat) (es : List Edge) : ∀ (acc : List (Site × List Leg)) (v : Site),
    (alookup (es.foldl (parseStep D) acc) v).isSome = true
      ↔ ((alookup acc v).isSome = true ∨ ∃ e ∈ es, e.1 = v ∨ e.2 = v) := by
  induction es with
  | nil => intro acc v; simp
  | cons e rest ih =>
    intro acc v
    rw [List.foldl_cons, ih, parseStep_keys]
    simp only [List.mem_cons, exists_eq_or_imp, or_assoc]

theorem ainsert_keys {κ β : Type} [BEq κ] [LawfulBEq κ] [DecidableEq κ] (l : List (κ × β)) (k : κ) (x : β) :
    (ainsert l k x).map (·.1) = if k ∈ l.map (·.1) then l.map (·.1) else l.map (·.1) ++ [k] := by
  induction l with
  | nil => simp [ainsert]
  | cons p rest ih =>
    obtain ⟨k0, v0⟩ := p
    by_cases h : k0 = k
    · subst h; simp [ainsert]
    · have hb : (k0 == k) = false := by simpa using h
      have h' : ¬ k = k0 := fun h' => h h'.symm
      simp only [ainsert, hb, Bool.false_eq_true, if_false, List.map_cons, ih, List.mem_cons, h', false_or]
      by_cases hm : k ∈ rest.map (·.1) <;> simp [hm]

theorem ainsert_keys_nodup {κ β : Type} [BEq κ] [LawfulBEq κ] [DecidableEq κ] (l : List (κ × β)) (k : κ)
    (x : β) (h : (l.map (·.1)).Nodup) : ((ainsert l k x).map (·.1)).Nodup := by
  rw [ainsert_keys]
  by_cases hm : k ∈ l.map (·.1)
  · simpa [hm] using h
  · simp only [hm, if_false]
    rw [List.nodup_append]
    refine ⟨h, by simp, ?_⟩
    intro a ha b hb
    simp only [List.mem_singleton] at hb
    subst hb
    exact fun heq => hm (heq ▸ ha)

theorem parseFold_nodup (D : Nat) (es : List Edge) : ∀ (acc : List (Site × List Leg)),
    (acc.map (·.1)).Nodup → ((es.foldl (parseStep D) acc).map (·.1)).Nodup := by
  induction es with
  | nil => intro acc h; simpa using h
  | cons e rest ih =>
    intro acc h
    rw [List.foldl_cons]
    apply ih
    unfold parseStep
    exact ainsert_keys_nodup _ _ _ (ainsert_keys_nodup _ _ _ h)

theorem insertSorted_perm {α : Type} (lt : α → α → Bool) (a : α) (l : List α) :
    (insertSorted lt a l).Perm (a :: l) := by
  induction l with
  | nil => simp [insertSorted]
  | cons b bs ih =>
    simp only [insertSorted]
    by_cases h : lt b a = true
    · simp only [h, if_true]
      exact (List.Perm.cons b ih).trans (List.Perm.swap a b bs)
    · simp [h]

theorem isort_perm {α : Type} (lt : α → α → Bool) (l : List α) : (isort lt l).Perm l := by
  induction l with
  | nil => simp [isort]
  | cons a as ih =>
    simp only [isort]
    exact (insertSorted_perm lt a _).trans (List.Perm.cons a ih)

theorem alookup_map_snd {β γ : Type} (l : List (Site × β)) (F : Site × β → γ) (v : Site) :
    alookup (l.map (fun p => (p.1, F p))) v = (alookup l v).map (fun x => F (v, x)) := by
  induction l with
  | nil => simp [alookup]
  | cons p rest ih =>
    obtain ⟨k, x⟩ := p
    simp only [List.map_cons, alookup]
    by_cases h : k = v
    · subst h; simp
    · have hb : (k == v) = false := by simpa using h
      simp [hb, ih]

theorem degree_perm (l1 l2 : List Edge) (h : l1.Perm l2) (v : Site) : degree l1 v = degree l2 v := by
  induction h with
  | nil => rfl
  | cons x _ ih => simp [degree, ih]
  | swap x y l => simp only [degree]; omega
  | trans _ _ ih1 ih2 => rw [ih1, ih2]

theorem contrib_length (D : Nat) (v : Site) (es : List Edge) :
    (es.flatMap (bondContrib D v)).length = degree es v := by
  induction es with
  | nil => simp [degree]
  | cons e rest ih =>
    have key : (bondContrib D v e).length = (if e.1 = v then 1 else 0) + (if e.2 = v then 1 else 0) := by
      unfold bondContrib
      by_cases hgt : e.1 > e.2 <;> simp only [hgt, if_true, if_false, List.length_append]
      · by_cases h1 : e.1 = v <;> by_cases h2 : e.2 = v <;> simp only [h1, h2, if_true, if_false] <;> rfl
      · by_cases h1 : e.1 = v <;> by_cases h2 : e.2 = v <;> simp only [h1, h2, if_true, if_false] <;> rfl
    simp only [List.flatMap_cons, List.length_append, ih, degree, key]

/-- the edge with its ends in increasing order (what the bond is named after) -/
def normEdge (e : Edge) : Edge := if e.1 > e.2 then (e.2, e.1) else e

/-- how many edges of the list join {x, y} (in either orientation) -/
def bondMult (es : List Edge) (x y : Site) : Nat := es.countP (fun e => normEdge e == (x, y))

theorem contrib_count (D : Nat) (v x y δ : Nat) (es : List Edge) :
    (es.flatMap (bondContrib D v)).countP (fun l => l.name == .bond x y && l.dual == δ)
      = if (δ = 0 ∧ v = x) ∨ (δ = 1 ∧ v = y) then bondMult es x y else 0 := by
  induction es with
  | nil => simp [bondMult]
  | cons e rest ih =>
    simp only [List.flatMap_cons, List.countP_append, ih, bondMult, List.countP_cons]
    have key : (bondContrib D v e).countP (fun l => l.name == .bond x y && l.dual == δ)
        = if (δ = 0 ∧ v = x) ∨ (δ = 1 ∧ v = y) then (if (normEdge e == (x, y)) = true then 1 else 0) else 0 := by
      simp only [bondContrib, normEdge]
      by_cases hgt : e.1 > e.2 <;> simp only [hgt, if_true, if_false]
      · by_cases h1 : e.2 = v <;> by_cases h2 : e.1 = v <;> simp [h1, h2, List.countP_cons] <;>
          (try subst h1) <;> (try subst h2) <;> grind
      · by_cases h1 : e.1 = v <;> by_cases h2 : e.2 = v <;> simp [h1, h2, List.countP_cons] <;>
          (try subst h1) <;> (try subst h2) <;> grind
    rw [key]
    by_cases hc : (δ = 0 ∧ v = x) ∨ (δ = 1 ∧ v = y) <;> simp [hc]; omega

/-! ### steps shared by the property theorems -/

/-- generic step shared by the three builders -/
theorem edgewise_eq_lattice
    (args : Edge → Option LocalArgs) (terms : Site → Site → LocalArgs → List Term)
    (bond : Edge → List Term) (site : Site → List Term)
    (edges : List Edge) (H : List (Edge × LocalArgs × List Term)) (hnd : edges.Nodup)
    (hH : edgeDict args terms edges = some H) (k : Kind) (s : List Site)
    (hsupp : ∀ v, s ≠ [v] → coefAt (site v) k s = 0)
    (hloc : ∀ e ∈ edges, ∀ g, args e = some g →
      coefAt (terms e.1 e.2 g) k s = coefAt (bond e) k s
        + (coefAt (site e.1) k s / (degree edges e.1 : Rat)
          + coefAt (site e.2) k s / (degree edges e.2 : Rat))) :
    coefAt (allTerms H) k s
      = coefAt (edges.flatMap bond ++ (sitesOf edges).flatMap site) k s := by
  obtain ⟨hcl, hsome⟩ := edgeDict_closed args terms edges H hnd hH
  rw [hcl, allTerms_closed, coefAt_flatMap, coefAt_append, coefAt_flatMap, coefAt_flatMap]
  apply edgewise_sum edges _ _ _ (s.headD 0)
  · intro v hv
    exact hsupp v (headD_support s v hv)
  · intro e he
    obtain ⟨g, hg⟩ := Option.isSome_iff_exists.mp (hsome e he)
    simp only [hg, Option.getD_some]
    exact hloc e he g hg


/-- value of a lattice polynomial at an on-site monomial -/
theorem lattice_site_eval (bond : Edge → List Term) (site : Site → List Term) (edges : List Edge)
    (k : Kind) (v : Site) (hb : ∀ e, coefAt (bond e) k [v] = 0)
    (hs : ∀ u, u ≠ v → coefAt (site u) k [v] = 0) :
    coefAt (edges.flatMap bond ++ (sitesOf edges).flatMap site) k [v]
      = if v ∈ sitesOf edges then coefAt (site v) k [v] else 0 := by
  rw [coefAt_append, coefAt_flatMap, coefAt_flatMap,
    sum_supported _ (sitesOf_nodup edges) (fun u => coefAt (site u) k [v]) v hs]
  have : (edges.map (fun e => coefAt (bond e) k [v])).sum = 0 := by
    rw [sum_map_congr edges _ (fun _ => 0) (fun e _ => hb e)]
    simp
  rw [this]; simp


/-- on a simple graph, of all terms returned for all edges, exactly those of the edge (a,b)
    survive a filter that only lets through two-site monomials on [a,b] or [b,a] -/
theorem bond_filter (args : Edge → Option LocalArgs) (terms : Site → Site → LocalArgs → List Term)
    (edges : List Edge) (H : List (Edge × LocalArgs × List Term)) (hs : simpleB edges = true)
    (hH : edgeDict args terms edges = some H) (a b : Site) (hab : (a, b) ∈ edges)
    (p : Term → Bool)
    (hp : ∀ e ∈ edges, ∀ g, ∀ x ∈ terms e.1 e.2 g, p x = true →
      x.sites = [e.1, e.2] ∨ x.sites = [e.2, e.1])
    (hq : ∀ x, p x = true → x.sites = [a, b] ∨ x.sites = [b, a]) :
    ∃ g, args (a, b) = some g ∧ (allTerms H).filter p = (terms a b g).filter p := by
  have hnd := simple_nodup edges hs
  obtain ⟨hcl, hsome⟩ := edgeDict_closed args terms edges H hnd hH
  obtain ⟨g, hg⟩ := Option.isSome_iff_exists.mp (hsome (a, b) hab)
  refine ⟨g, hg, ?_⟩
  rw [hcl, allTerms_closed, filter_flatMap',
    flatMap_single edges hnd (a, b) hab]
  · simp [hg]
  · intro e he hne
    rw [List.filter_eq_nil_iff]
    intro x hx hpx
    rcases hp e he _ x hx hpx with h1 | h1 <;> rcases hq x hpx with h2 | h2
    · rw [h1] at h2
      simp only [List.cons.injEq, and_true] at h2
      exact hne (Prod.ext h2.1 h2.2)
    · rw [h1] at h2
      simp only [List.cons.injEq, and_true] at h2
      have : e = (b, a) := Prod.ext h2.1 h2.2
      exact simple_norev edges hs (a, b) hab (this ▸ he)
    · rw [h1] at h2
      simp only [List.cons.injEq, and_true] at h2
      have : e = (b, a) := Prod.ext h2.2 h2.1
      exact simple_norev edges hs (a, b) hab (this ▸ he)
    · rw [h1] at h2
      simp only [List.cons.injEq, and_true] at h2
      exact hne (Prod.ext h2.2 h2.1)



theorem hub_two_site (p q : Site) (g : LocalArgs) (x : Term) (hx : x ∈ hubbardLocalTerms p q g)
    (σ : Spin) (hk : x.kind = .hop σ) : x.sites = [p, q] ∨ x.sites = [q, p] := by
  simp only [hubbardLocalTerms, List.mem_cons, List.not_mem_nil, or_false] at hx
  rcases hx with rfl | rfl | rfl | rfl | rfl | rfl | rfl | rfl | rfl | rfl <;> simp at hk ⊢

theorem sl_two_site (p q : Site) (g : LocalArgs) (x : Term) (hx : x ∈ spinlessLocalTerms p q g)
    (hk : (∃ σ, x.kind = .hop σ) ∨ x.kind = .nn) : x.sites = [p, q] ∨ x.sites = [q, p] := by
  simp only [spinlessLocalTerms, List.mem_cons, List.not_mem_nil, or_false] at hx
  rcases hx with rfl | rfl | rfl | rfl | rfl <;> simp at hk ⊢

theorem tf_two_site (p q : Site) (g : LocalArgs) (x : Term) (hx : x ∈ tfimLocalTerms p q g)
    (hk : x.kind = .xx) : x.sites = [p, q] ∨ x.sites = [q, p] := by
  simp only [tfimLocalTerms, List.mem_cons, List.not_mem_nil, or_false] at hx
  rcases hx with rfl | rfl | rfl <;> simp at hk ⊢


/-- on a simple graph every edge is its bond's only edge -/
theorem bondMult_simple (edges : List Edge) (hs : simpleB edges = true) (e : Edge) (he : e ∈ edges) :
    bondMult edges (normEdge e).1 (normEdge e).2 = 1 := by
  have hnd := simple_nodup edges hs
  have hrev := simple_norev edges hs
  have hcong : ∀ f ∈ edges, ((normEdge f == ((normEdge e).1, (normEdge e).2)) = true) ↔ ((f == e) = true) := by
    intro f hf
    simp only [beq_iff_eq]
    constructor
    · intro h
      by_contra hne
      have hfe : f = (e.2, e.1) := by
        obtain ⟨f1, f2⟩ := f
        obtain ⟨e1, e2⟩ := e
        simp only [normEdge] at h
        grind
      exact hrev e he (hfe ▸ hf)
    · intro h; rw [h]
  unfold bondMult
  rw [List.countP_congr hcong]
  exact List.count_eq_one_of_mem hnd he


end SymmModel.HamLemmas
