/-
  SymmModel.Proofs.Dense6b — finite programs of structural operations commute with densification
  (property C08, sixth part).

  `SOp` : transpose / conj / squeeze / expand_dims (the structural operations of C08's list);
  `SOp.step` : the model call behind its decidable guard; `SOp.dense` : the numpy call on the dense
  array (a function of the dense array alone); `SProg.run`, `SProg.denseRun` : a list of steps on
  the block array and on the dense array.

  New names live in `SymmModel.Dense6`.
-/
import SymmModel.Proofs.Dense6a

namespace SymmModel
namespace Dense6
open Arr DenseP Dense3 Dense4

variable {R : Type}

/-- the mask `np.squeeze(d, axis)` removes: all size-one axes for `axis = None`, the listed ones
    otherwise -/
def npMask (axis : Option (List Nat)) (shape : List Nat) : List Bool :=
  shape.zipIdx.map (fun x => match axis with
    | none => x.1 == 1
    | some axs => axs.contains x.2)

/-- the mask the block `squeeze` computes is numpy's mask of the dense shape -/
theorem squeezeMask_eq_npMask (a : Arr R) (axis : Option (List Nat)) (m : List Bool)
    (hm : squeezeMask a axis = .ok m) : m = npMask axis a.shape := by
  obtain ⟨hl, hspec⟩ := squeezeMask_ok hm
  apply List.ext_getElem
  · simp [npMask, Arr.shape, hl]
  · intro i h1 h2
    have hi : i < a.indices.length := by rw [hl] at h1; exact h1
    have hs := hspec i a.indices[i] (List.getElem?_eq_getElem hi)
    have hnp : (npMask axis a.shape)[i] = sqSelected axis a.indices[i] i := by
      simp only [npMask, List.getElem_map, List.getElem_zipIdx, Arr.shape, Nat.zero_add]
      cases axis <;> rfl
    rw [hnp]
    cases hb : m[i] with
    | true => exact ((hs.1 (by rw [List.getElem?_eq_getElem h1, hb])).1).symm
    | false => exact (hs.2 (by rw [List.getElem?_eq_getElem h1, hb])).symm

/-- the structural operations -/
inductive SOp where
  | transpose (axes : List Nat)
  | conj
  | squeeze (axis : Option (List Nat))
  | expandDims (axis : Nat) (c : Option Charge) (dual : Option Bool)

/-- the decidable guard of a call: a permutation of the axes; an insertion position inside the
    array and a charge of the symmetry -/
def SOp.admissible : SOp → Arr R → Bool
  | .transpose axes, a => isPerm axes a.ndim
  | .conj, _ => true
  | .squeeze _, _ => true
  | .expandDims axis c _, a => decide (axis ≤ a.ndim) && (match c with
      | none => true
      | some c => a.sym.valid c)

/-- the model call (abelian arrays) -/
def SOp.apply [Zero R] [Conj R] : SOp → Arr R → Except Err (Arr R)
  | .transpose axes, a => pure (a.transposeA axes)
  | .conj, a => pure a.conjA
  | .squeeze axis, a => a.squeeze axis
  | .expandDims axis c dual, a => pure (a.expandDims axis c dual)

def SOp.step [Zero R] [Conj R] (op : SOp) (a : Arr R) : Except Err (Arr R) :=
  if op.admissible a then op.apply a else throw Err.value

/-- the numpy call on the dense array: `np.transpose`, `np.conj`, `np.squeeze`, `d[..., None, ...]` -/
def SOp.dense [Zero R] [Conj R] : SOp → Blk R → Blk R
  | .transpose axes, d => d.transposeK axes
  | .conj, d => d.conjK
  | .squeeze axis, d => d.squeezeK (keptAxes (npMask axis d.shape) 0)
  | .expandDims axis _ _, d => d.expandK axis

def SProg.run [Zero R] [Conj R] : List SOp → Arr R → Except Err (Arr R)
  | [], a => pure a
  | op :: rest, a => do
    let a' ← op.step a
    SProg.run rest a'

def SProg.denseRun [Zero R] [Conj R] : List SOp → Blk R → Blk R
  | [], d => d
  | op :: rest, d => SProg.denseRun rest (op.dense d)

/-- the invariant carried along a program: valid, abelian, no empty charge table -/
def Good (a : Arr R) : Prop :=
  a.validB = true ∧ a.fermi = false ∧ a.indices.any (fun ix => ix.cm.isEmpty) = false

section
variable [Zero R] [Neg R] [Conj R]

/-- **one step**: a successful structural call keeps the invariant, and the dense form of its
    result is numpy's call on the dense form of its argument -/
theorem SOp.step_dense (h0 : Conj.conj (0 : R) = 0) (op : SOp) (a b : Arr R) (hg : Good a)
    (hb : op.step a = .ok b) (d : Blk R) (hd : toDenseA a = .ok d) :
    Good b ∧ toDenseA b = .ok (op.dense d) := by
  obtain ⟨hv, hf, hne⟩ := hg
  have hds : d.shape = a.shape := by
    obtain ⟨d0, e0, s0, _⟩ := C08.toDenseA_get a hne
    rw [hd] at e0; injection e0 with e0; subst e0; exact s0
  unfold SOp.step at hb
  split at hb
  · rename_i hadm
    cases op with
    | transpose axes =>
      simp only [SOp.apply, pure, Except.pure, Except.ok.injEq] at hb
      subst hb
      have hperm : isPerm axes a.ndim = true := hadm
      refine ⟨⟨C01.transposeA_valid a axes hv hf hperm, hf, ?_⟩,
        transposeA_dense a axes hperm hv hf hne d hd⟩
      show (permuted a.indices axes).any _ = false
      rw [List.any_eq_false] at hne ⊢
      exact fun ix hix => hne ix (mem_of_mem_permuted hix)
    | conj =>
      simp only [SOp.apply, pure, Except.pure, Except.ok.injEq] at hb
      subst hb
      refine ⟨⟨C01.conjA_valid a hv hf, hf, ?_⟩, conjA_dense h0 a hv hf hne d hd⟩
      show (a.indices.map Index.conj).any _ = false
      rw [noEmpty_congr (map_cm_conj a.indices)]; exact hne
    | squeeze axis =>
      simp only [SOp.apply] at hb
      obtain ⟨m, hm, hdense⟩ := squeeze_dense a axis b hb hv hf hne d hd
      have hph : ValidP.phaseKeysInTablesB a = true := by
        have := (C08.hypotheses_of_validB a hv).2.2.2 hf
        simp [ValidP.phaseKeysInTablesB, this]
      obtain ⟨m', hm', hbeq, _, hbi, _, _⟩ := C08.squeeze_mask_spec a axis b hb
      refine ⟨⟨C01.squeeze_valid a axis b hv hph hb, by rw [hbeq]; exact hf, ?_⟩, ?_⟩
      · rw [hbi]
        rw [List.any_eq_false] at hne ⊢
        exact fun ix hix => hne ix (mem_of_mem_dropMask hix)
      · rw [hdense]
        show _ = Except.ok (d.squeezeK (keptAxes (npMask axis d.shape) 0))
        rw [hds, ← squeezeMask_eq_npMask a axis m hm]
    | expandDims axis c dual =>
      simp only [SOp.apply, pure, Except.pure, Except.ok.injEq] at hb
      subst hb
      simp only [SOp.admissible, Bool.and_eq_true, decide_eq_true_eq] at hadm
      obtain ⟨ha, hc⟩ := hadm
      obtain ⟨hidx, _, _, hfer, _, _, _⟩ := expandDims_fields a axis c dual
      refine ⟨⟨?_, by rw [hfer]; exact hf, ?_⟩, expandDims_dense a axis c dual ha hv hf hne d hd⟩
      · cases c with
        | none => exact C01.expandDims_none_valid a axis dual hv
        | some c => exact C01.expandDims_some_valid a axis c dual hv hc (Or.inl hf)
      · rw [hidx]
        rw [List.any_eq_false] at hne ⊢
        intro ix hix
        rcases mem_ins hix with rfl | hix
        · simp [Index.cm]
        · exact hne ix hix
  · cases hb

/-- **programs**: any finite program of structural operations commutes with densification —
    running the program on the block array and densifying gives what numpy's calls give on the
    dense array -/
theorem SProg.toDense_commutes_main (h0 : Conj.conj (0 : R) = 0) (prog : List SOp) (a b : Arr R)
    (hg : Good a) (hb : SProg.run prog a = .ok b) (d : Blk R) (hd : toDenseA a = .ok d) :
    Good b ∧ toDenseA b = .ok (SProg.denseRun prog d) := by
  induction prog generalizing a d with
  | nil =>
    simp only [SProg.run, pure, Except.pure, Except.ok.injEq] at hb
    subst hb
    exact ⟨hg, hd⟩
  | cons op rest ih =>
    simp only [SProg.run, bind, Except.bind] at hb
    cases hs : op.step a with
    | error e => rw [hs] at hb; cases hb
    | ok a' =>
      rw [hs] at hb
      obtain ⟨hg', hd'⟩ := SOp.step_dense h0 op a a' hg hs d hd
      exact ih a' hg' hb (op.dense d) hd'

end

end Dense6
end SymmModel
