/-
  SymmModel.Proofs.Dense5e — Boolean forms of the hypotheses of `einsum_dense_main`.
-/
import SymmModel.Proofs.Dense5d

namespace SymmModel
namespace Dense5
open TdotP DenseP

variable {R : Type}

/-- `EqOk` as a Boolean: output labels distinct, all on the left, each exactly once there -/
def eqOkB (lhs rhs : List Nat) : Bool :=
  allDistinct rhs && rhs.all (fun q => lhs.contains q)
    && (List.range lhs.length).all (fun k =>
        !rhs.contains (lhs.getD k 0) || indexOf? lhs (lhs.getD k 0) == some k)

theorem eqOk_of_B {lhs rhs : List Nat} (h : eqOkB lhs rhs = true) : EqOk lhs rhs := by
  simp only [eqOkB, Bool.and_eq_true, List.all_eq_true, List.mem_range, Bool.or_eq_true,
    Bool.not_eq_true', beq_iff_eq, List.contains_eq_mem, decide_eq_true_eq,
    decide_eq_false_iff_not] at h
  obtain ⟨⟨h1, h2⟩, h3⟩ := h
  refine ⟨allDistinct_iff_nodup.1 h1, h2, fun k hk hm => ?_⟩
  have hd : lhs.getD k 0 = lhs[k] := by
    simp [List.getD_eq_getElem?_getD, List.getElem?_eq_getElem hk]
  have := h3 k hk
  rw [hd] at this
  rcases this with h | h
  · exact absurd hm h
  · exact h

/-- `TabOk` as a Boolean: equally labelled axes have equal sorted charge tables -/
def tabOkB (a : Arr R) (lhs : List Nat) : Bool :=
  (List.range lhs.length).all (fun k => (List.range lhs.length).all (fun k' =>
    lhs.getD k 0 != lhs.getD k' 0
      || Index.sortCm (a.indices.getD k default).cm == Index.sortCm (a.indices.getD k' default).cm))

theorem tabOk_of_B {a : Arr R} {lhs : List Nat} (h : tabOkB a lhs = true) : TabOk a lhs := by
  intro k k' hk hk' he
  simp only [tabOkB, List.all_eq_true, List.mem_range, Bool.or_eq_true, bne_iff_ne, ne_eq,
    beq_iff_eq] at h
  have := h k hk k' hk'
  have hd : lhs.getD k 0 = lhs[k] := by
    simp [List.getD_eq_getElem?_getD, List.getElem?_eq_getElem hk]
  have hd' : lhs.getD k' 0 = lhs[k'] := by
    simp [List.getD_eq_getElem?_getD, List.getElem?_eq_getElem hk']
  rw [hd, hd'] at this
  rcases this with h | h
  · exact absurd he h
  · exact h

end Dense5
end SymmModel
