/-
  SymmModel.Proofs.Net4M3 — routes 2 and 4 (`(A·(B·C))·D`, `A·((B·C)·D)`) with each call in its own
  mode.  The guard of the last call needs the positions of the legs of `A·(B·C)` / `(B·C)·D`
  bonded to the fourth tensor in the layout of the OTHER bracketing (`axes_star`).
  Then all five routes together (`k4_modes`).  Namespace `SymmModel.Net4P`.
-/
import SymmModel.Proofs.Net4M2

namespace SymmModel
namespace Net4P
open TdotP GradedP RoutesP KoszulP AssocP Assoc2P Assoc3P Assoc5P
set_option linter.unusedSectionVars false

variable {R : Type}

section
variable [AddCommMonoid R] [Mul R] [Neg R] [SignRing R] [AssocLaws R]
variable {A B C D : Arr R} {ab ac ad ba bc bd ca cb cd da db dc : List Nat}

/-- route 2, `(A·(B·C))·D` -/
theorem routeM2_pad (hz1 : ∀ x : R, 0 * x = 0) (hz2 : ∀ x : R, x * 0 = 0)
    (H : K4H A B C D ab ac ad ba bc bd ca cb cd da db dc) (m1 m2 m3 : TdotMode) :
    ∃ T U : Arr R, routeS2 A B C D ab ac ad ba bc bd ca cb cd da db dc false false false = .ok T
      ∧ routeM2 A B C D ab ac ad ba bc bd ca cb cd da db dc m1 m2 m3 = .ok U
      ∧ PadA U T ∧ U.validB = true ∧ U.fermi = true := by
  obtain ⟨mA_bc, mA_bd, mA_cd, mA_b_cd, mA_bc_d⟩ := mid3 H.hnA H.WAB.ltA H.WAC.ltA H.WAD.ltA
  have hnB' : (bc ++ ba ++ bd).Nodup :=
    ((List.perm_append_comm (l₁ := ba) (l₂ := bc)).append_right bd).nodup_iff.mp H.hnB
  have hnC' : (cb ++ ca ++ cd).Nodup :=
    ((List.perm_append_comm (l₁ := ca) (l₂ := cb)).append_right cd).nodup_iff.mp H.hnC
  obtain ⟨mB_ca, mB_cd, mB_ad, mB_c_ad, _⟩ := mid3 hnB' H.WBC.ltA H.WAB.ltB H.WBD.ltA
  obtain ⟨mC_ba, mC_bd, mC_ad, mC_b_ad, _⟩ := mid3 hnC' H.WBC.ltB H.WAC.ltB H.WCD.ltA
  obtain ⟨mD_ab, mD_ac, mD_bc, mD_a_bc, _⟩ := mid3 H.hnD H.WAD.ltB H.WBD.ltB H.WCD.ltB
  have TABC : TriW A B C ab ac ba bc cb ca := ⟨H.WAB, H.WBC, mA_bc, mB_ca.symm, mC_ba, H.WAC.con⟩
  have TBCD : TriW B C D bc bd cb cd dc db := ⟨H.WBC, H.WCD, mB_cd, mC_bd, mD_bc.symm, H.WBD.con⟩
  obtain ⟨AB, BC, CD, ABC1, ABC2, BCD1, BCD2, T1, T2, T3, T4, T5, eAB, eBC, eCD, eABC1, eABC2, eBCD1,
    eBCD2, eT1, eT2, eT3, eT4, eT5, q2, q3, q4, q5, hv, X⟩ :=
    k4x A B C D ab ac ad ba bc bd ca cb cd da db dc H.WAB H.WAC H.WAD H.WBC H.WBD H.WCD
      H.hnA H.hnB H.hnC H.hnD H.hd
  obtain ⟨BCm, eBCm, pBCm, IBCm⟩ := pad_call hz1 hz2 (PadA.refl H.WBC.va) (PadA.refl H.WBC.vb)
    H.WBC H.WBC BC eBC m1
  have WaBCm := admW_right_triW IBCm TABC
  obtain ⟨ABCm, eABCm, pABCm, IABCm⟩ := pad_call hz1 hz2 (PadA.refl H.WAB.va) pBCm WaBCm X.waBC
    ABC2 eABC2 m2
  have WBCmd := admW_left_triW IBCm TBCD
  have mY : Mid BCm.ndim (Assoc2P.axesBC B.ndim C.ndim ba bc cb ca)
      (Assoc2P.axesAB B.ndim C.ndim bc bd cb cd) := by
    rw [IBCm.ndim]
    exact mid_axesAB (xa1 := bc) (u := ba) (v := bd) (xb1 := cb) (s := ca) (t := cd) mB_c_ad mC_b_ad
  have TT : TriW A BCm D (ab ++ ac) ad (Assoc2P.axesBC B.ndim C.ndim ba bc cb ca)
      (Assoc2P.axesAB B.ndim C.ndim bc bd cb cd) (db ++ dc) da :=
    ⟨WaBCm, WBCmd, mA_bc_d, mY, mD_a_bc.symm, H.WAD.con⟩
  have WT := admW_left_triW IABCm TT
  have star := axes_star A.ndim B.ndim C.ndim ab ac ad ba bc bd ca cb cd mA_bc mA_b_cd mB_ca.symm
    mB_ca mB_c_ad mC_ba
  rw [IBCm.ndim, ← star, ← List.append_assoc] at WT
  obtain ⟨Um, eUm, pUm, IUm⟩ := pad_call hz1 hz2 pABCm (PadA.refl H.WCD.vb) WT X.wT2 T2 eT2 m3
  refine ⟨T2, Um, ?_, ?_, pUm, IUm.valid, IUm.fermi⟩
  · unfold routeS2 callS axesABC_D; simp only []
    rw [eBC]; simp only [Except.bind]; rw [eABC2]; exact eT2
  · unfold routeM2 axesABC_D
    rw [eBCm]; simp only [Except.bind]; rw [eABCm]; exact eUm

/-- route 4, `A·((B·C)·D)` -/
theorem routeM4_pad (hz1 : ∀ x : R, 0 * x = 0) (hz2 : ∀ x : R, x * 0 = 0)
    (H : K4H A B C D ab ac ad ba bc bd ca cb cd da db dc) (m1 m2 m3 : TdotMode) :
    ∃ T U : Arr R, routeS4 A B C D ab ac ad ba bc bd ca cb cd da db dc false false false = .ok T
      ∧ routeM4 A B C D ab ac ad ba bc bd ca cb cd da db dc m1 m2 m3 = .ok U
      ∧ PadA U T ∧ U.validB = true ∧ U.fermi = true := by
  obtain ⟨mA_bc, mA_bd, mA_cd, mA_b_cd, mA_bc_d⟩ := mid3 H.hnA H.WAB.ltA H.WAC.ltA H.WAD.ltA
  have hnB' : (bc ++ ba ++ bd).Nodup :=
    ((List.perm_append_comm (l₁ := ba) (l₂ := bc)).append_right bd).nodup_iff.mp H.hnB
  have hnC' : (cb ++ ca ++ cd).Nodup :=
    ((List.perm_append_comm (l₁ := ca) (l₂ := cb)).append_right cd).nodup_iff.mp H.hnC
  have hnB'' : (bc ++ bd ++ ba).Nodup := by
    have : (bc ++ bd ++ ba).Perm (ba ++ bc ++ bd) := by
      rw [List.append_assoc ba]; exact List.perm_append_comm
    exact this.nodup_iff.mpr H.hnB
  have hnC'' : (cd ++ cb ++ ca).Nodup := by
    have : (cd ++ cb ++ ca).Perm (ca ++ cb ++ cd) := by
      have h1 : (cd ++ cb ++ ca).Perm (ca ++ (cd ++ cb)) := List.perm_append_comm
      refine h1.trans ?_
      rw [List.append_assoc]
      exact List.Perm.append_left _ List.perm_append_comm
    exact this.nodup_iff.mpr H.hnC
  obtain ⟨mB_ca, mB_cd, mB_ad, mB_c_ad, _⟩ := mid3 hnB' H.WBC.ltA H.WAB.ltB H.WBD.ltA
  obtain ⟨mC_ba, mC_bd, mC_ad, mC_b_ad, _⟩ := mid3 hnC' H.WBC.ltB H.WAC.ltB H.WCD.ltA
  obtain ⟨_, _, _, mB_c_da, _⟩ := mid3 hnB'' H.WBC.ltA H.WBD.ltA H.WAB.ltB
  obtain ⟨_, _, _, mC_d_ba, _⟩ := mid3 hnC'' H.WCD.ltA H.WBC.ltB H.WAC.ltB
  obtain ⟨mD_ab, mD_ac, mD_bc, mD_a_bc, _⟩ := mid3 H.hnD H.WAD.ltB H.WBD.ltB H.WCD.ltB
  have TABC : TriW A B C ab ac ba bc cb ca := ⟨H.WAB, H.WBC, mA_bc, mB_ca.symm, mC_ba, H.WAC.con⟩
  have TBCD : TriW B C D bc bd cb cd dc db := ⟨H.WBC, H.WCD, mB_cd, mC_bd, mD_bc.symm, H.WBD.con⟩
  obtain ⟨AB, BC, CD, ABC1, ABC2, BCD1, BCD2, T1, T2, T3, T4, T5, eAB, eBC, eCD, eABC1, eABC2, eBCD1,
    eBCD2, eT1, eT2, eT3, eT4, eT5, q2, q3, q4, q5, hv, X⟩ :=
    k4x A B C D ab ac ad ba bc bd ca cb cd da db dc H.WAB H.WAC H.WAD H.WBC H.WBD H.WCD
      H.hnA H.hnB H.hnC H.hnD H.hd
  obtain ⟨BCm, eBCm, pBCm, IBCm⟩ := pad_call hz1 hz2 (PadA.refl H.WBC.va) (PadA.refl H.WBC.vb)
    H.WBC H.WBC BC eBC m1
  have WaBCm := admW_right_triW IBCm TABC
  have WBCmd := admW_left_triW IBCm TBCD
  obtain ⟨BCDm, eBCDm, pBCDm, IBCDm⟩ := pad_call hz1 hz2 pBCm (PadA.refl H.WCD.vb) WBCmd X.wBCd
    BCD1 eBCD1 m2
  have mY : Mid BCm.ndim (Assoc2P.axesBC B.ndim C.ndim ba bc cb ca)
      (Assoc2P.axesAB B.ndim C.ndim bc bd cb cd) := by
    rw [IBCm.ndim]
    exact mid_axesAB (xa1 := bc) (u := ba) (v := bd) (xb1 := cb) (s := ca) (t := cd) mB_c_ad mC_b_ad
  have TT : TriW A BCm D (ab ++ ac) ad (Assoc2P.axesBC B.ndim C.ndim ba bc cb ca)
      (Assoc2P.axesAB B.ndim C.ndim bc bd cb cd) (db ++ dc) da :=
    ⟨WaBCm, WBCmd, mA_bc_d, mY, mD_a_bc.symm, H.WAD.con⟩
  have WT := admW_right_triW IBCDm TT
  -- the star identity for the rotated tuple `(B, C, D; A)`
  have star : Assoc2P.axesBC ((freeAxes B.ndim bc).length + (freeAxes C.ndim cb).length) D.ndim
        (Assoc2P.axesBC B.ndim C.ndim ba bc cb ca) (Assoc2P.axesAB B.ndim C.ndim bc bd cb cd)
        (db ++ dc) da
      = axesBCD_A B C D ba bc bd ca cb cd da db dc :=
    axes_star B.ndim C.ndim D.ndim bc bd ba cb cd ca db dc da mB_cd mB_c_da mC_bd mC_bd.symm
      mC_d_ba mD_bc.symm
  rw [IBCm.ndim, star, List.append_assoc] at WT
  have W5 := X.wT4
  obtain ⟨Um, eUm, pUm, IUm⟩ := pad_call hz1 hz2 (PadA.refl H.WAB.va) pBCDm WT X.wT4 T4 eT4 m3
  refine ⟨T4, Um, ?_, ?_, pUm, IUm.valid, IUm.fermi⟩
  · unfold routeS4 callS axesBCD_A; simp only []
    rw [eBC]; simp only [Except.bind]; rw [eBCD1]; exact eT4
  · unfold routeM4
    rw [eBCm]; simp only [Except.bind]; rw [eBCDm]; exact eUm

/-- **K4 with modes**: each of the fifteen calls of the five routes in its own mode -/
theorem k4_modes (hz1 : ∀ x : R, 0 * x = 0) (hz2 : ∀ x : R, x * 0 = 0)
    (H : K4H A B C D ab ac ad ba bc bd ca cb cd da db dc) (m : Fin 15 → TdotMode) :
    ∃ T1 T2 T3 T4 T5 U1 U2 U3 U4 U5 : Arr R,
      routeS1 A B C D ab ac ad ba bc bd ca cb cd da db dc false false false = .ok T1
      ∧ routeS2 A B C D ab ac ad ba bc bd ca cb cd da db dc false false false = .ok T2
      ∧ routeS3 A B C D ab ac ad ba bc bd ca cb cd da db dc false false false = .ok T3
      ∧ routeS4 A B C D ab ac ad ba bc bd ca cb cd da db dc false false false = .ok T4
      ∧ routeS5 A B C D ab ac ad ba bc bd ca cb cd da db dc false false false = .ok T5
      ∧ routeM1 A B C D ab ac ad ba bc bd ca cb cd da db dc (m 0) (m 1) (m 2) = .ok U1
      ∧ routeM2 A B C D ab ac ad ba bc bd ca cb cd da db dc (m 3) (m 4) (m 5) = .ok U2
      ∧ routeM3 A B C D ab ac ad ba bc bd ca cb cd da db dc (m 6) (m 7) (m 8) = .ok U3
      ∧ routeM4 A B C D ab ac ad ba bc bd ca cb cd da db dc (m 9) (m 10) (m 11) = .ok U4
      ∧ routeM5 A B C D ab ac ad ba bc bd ca cb cd da db dc (m 12) (m 13) (m 14) = .ok U5
      ∧ PadA U1 T1 ∧ PadA U2 T2 ∧ PadA U3 T3 ∧ PadA U4 T4 ∧ PadA U5 T5
      ∧ (∀ U ∈ [U1, U2, U3, U4, U5], U.validB = true ∧ U.fermi = true) := by
  obtain ⟨T1, U1, a1, b1, p1, v1, f1⟩ := routeM1_pad hz1 hz2 H (m 0) (m 1) (m 2)
  obtain ⟨T2, U2, a2, b2, p2, v2, f2⟩ := routeM2_pad hz1 hz2 H (m 3) (m 4) (m 5)
  obtain ⟨T3, U3, a3, b3, p3, v3, f3⟩ := routeM3_pad hz1 hz2 H (m 6) (m 7) (m 8)
  obtain ⟨T4, U4, a4, b4, p4, v4, f4⟩ := routeM4_pad hz1 hz2 H (m 9) (m 10) (m 11)
  obtain ⟨T5, U5, a5, b5, p5, v5, f5⟩ := routeM5_pad hz1 hz2 H (m 12) (m 13) (m 14)
  refine ⟨T1, T2, T3, T4, T5, U1, U2, U3, U4, U5, a1, a2, a3, a4, a5, b1, b2, b3, b4, b5, p1, p2, p3,
    p4, p5, ?_⟩
  intro U hU
  simp only [List.mem_cons, List.not_mem_nil, or_false] at hU
  rcases hU with rfl | rfl | rfl | rfl | rfl
  · exact ⟨v1, f1⟩
  · exact ⟨v2, f2⟩
  · exact ⟨v3, f3⟩
  · exact ⟨v4, f4⟩
  · exact ⟨v5, f5⟩

end

end Net4P
end SymmModel
