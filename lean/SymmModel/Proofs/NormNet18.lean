/-
  SymmModel.Proofs.NormNet18 — network form of the norm (property C10), part 18:
  weak guards for the sequential bracketings with operands of ANY mode: (A) a half whose index
  tables are `SizeLe`-prunings of the conjugated frame against the single tensors; (B) the second
  calls of a triangle from `InterW` and weak guards (copies of `TdotP.admW_left_tri/right_tri` with
  the strong hypotheses replaced by the weak ones).
-/
import SymmModel.Proofs.NormNet17
namespace SymmModel.NormNet
open SymmModel SymmModel.Lazy SymmModel.Norm SymmModel.TdotP SymmModel.GradedP SymmModel.RoutesP
open SymmModel.AssocP
set_option linter.unusedSectionVars false

/-! ## (A) a half with `SizeLe`-pruned conjugated frame against `p`, `q` -/
section halfS
variable {R : Type}
variable (X p q : Arr R) (xp xq : List Nat)
  (hX : List.Forall₂ SizeLe X.indices ((without p.indices xp ++ without q.indices xq).map Index.conj))
  (hnX : ∀ ix ∈ X.indices, (ix.cm.map (·.1)).Nodup)
include hX hnX

theorem halfS_ndim : X.ndim = (freeAxes p.ndim xp).length + (freeAxes q.ndim xq).length := by
  unfold Arr.ndim
  rw [hX.length_eq, List.length_map, frame_eq, List.length_append, List.length_map, List.length_map]
  rfl

theorem halfS_leg (j : Nat) (hj : j < X.ndim) (ix : Index)
    (hW : (without p.indices xp ++ without q.indices xq).getD j default = ix)
    (hn : (ix.cm.map (·.1)).Nodup) :
    cmAgree (X.indices.getD j default).cm ix.cm = true
    ∧ cmAgree ix.cm (X.indices.getD j default).cm = true
    ∧ (X.indices.getD j default).dual = !ix.dual := by
  have hjW : j < (without p.indices xp ++ without q.indices xq).length := by
    have := hX.length_eq; rw [List.length_map] at this; rw [← this]; exact hj
  have sX := forall₂_getD hX j hj default default
  rw [getD_map_in Index.conj _ _ hjW, hW] at sX
  have hmX : X.indices.getD j default ∈ X.indices := getD_mem_idx hj
  have c0 : cmAgree ix.conj.cm ix.cm = true := by rw [Index.conj_cm]; exact cmAgree_self hn
  have c0' : cmAgree ix.cm ix.conj.cm = true := by rw [Index.conj_cm]; exact cmAgree_self hn
  exact ⟨cmAgree_of_sizeLe_left sX (hnX _ hmX) c0, cmAgree_of_sizeLe_right sX c0',
    by rw [sX.1, Lazy.Index.conj_dual]⟩

theorem commonS_Xp (hp : p.validB = true) :
    contractibleCommonB X p (List.range (freeAxes p.ndim xp).length) (freeAxes p.ndim xp) = true
    ∧ contractibleCommonB p X (freeAxes p.ndim xp) (List.range (freeAxes p.ndim xp).length) = true := by
  have hn := halfS_ndim X p q xp xq hX hnX
  have key : ∀ j, j < (freeAxes p.ndim xp).length → _ := fun j hj =>
    halfS_leg X p q xp xq hX hnX j (by rw [hn]; omega)
      (p.indices.getD ((freeAxes p.ndim xp).getD j 0) default)
      (by rw [frame_eq]; exact getD_append_map_left _ _ _ _ _ hj)
      (keys_nodup_of_validB hp _ (getD_mem_idx (mem_freeAxes_lt _ (by
        rw [List.getD_eq_getElem?_getD, List.getElem?_eq_getElem hj]; exact List.getElem_mem hj))))
  constructor
  · rw [commonB_iff]
    refine ⟨List.length_range, fun j hj => ?_⟩
    rw [List.length_range] at hj
    rw [getD_range _ _ hj]
    exact ⟨(key j hj).1, not_not_dual _ _ (key j hj).2.2⟩
  · rw [commonB_iff]
    refine ⟨List.length_range.symm, fun j hj => ?_⟩
    rw [getD_range _ _ hj]
    exact ⟨(key j hj).2.1, (key j hj).2.2⟩

theorem commonS_Xq (hq : q.validB = true) :
    contractibleCommonB X q
      ((List.range (freeAxes q.ndim xq).length).map ((freeAxes p.ndim xp).length + ·))
      (freeAxes q.ndim xq) = true
    ∧ contractibleCommonB q X (freeAxes q.ndim xq)
      ((List.range (freeAxes q.ndim xq).length).map ((freeAxes p.ndim xp).length + ·)) = true := by
  have hn := halfS_ndim X p q xp xq hX hnX
  have key : ∀ j, j < (freeAxes q.ndim xq).length → _ := fun j hj =>
    halfS_leg X p q xp xq hX hnX ((freeAxes p.ndim xp).length + j) (by rw [hn]; omega)
      (q.indices.getD ((freeAxes q.ndim xq).getD j 0) default)
      (by rw [frame_eq]; exact getD_append_map_right _ _ _ _ _ hj)
      (keys_nodup_of_validB hq _ (getD_mem_idx (mem_freeAxes_lt _ (by
        rw [List.getD_eq_getElem?_getD, List.getElem?_eq_getElem hj]; exact List.getElem_mem hj))))
  constructor
  · rw [commonB_iff]
    refine ⟨by rw [List.length_map, List.length_range], fun j hj => ?_⟩
    rw [List.length_map, List.length_range] at hj
    rw [getD_shift _ _ _ hj]
    exact ⟨(key j hj).1, not_not_dual _ _ (key j hj).2.2⟩
  · rw [commonB_iff]
    refine ⟨by rw [List.length_map, List.length_range], fun j hj => ?_⟩
    rw [getD_shift _ _ _ hj]
    exact ⟨(key j hj).2.1, (key j hj).2.2⟩

end halfS

/-! ## (B) the second calls of a triangle, weak hypotheses, intermediate of any mode -/
section admw
variable {R : Type} [AddMonoid R] [Mul R] [Neg R] [SignRing R]
variable {A B C AB BC : Arr R}

theorem admW_left_chain_w {xa xb1 xb2 xc : List Nat} (I : InterW A B xa xb1 AB)
    (hAB : AdmW A B xa xb1) (hBC : AdmW B C xb2 xc) (h : Mid B.ndim xb1 xb2) :
    AdmW AB C (AssocP.axesAB A.ndim B.ndim xa xb1 xb2) xc := by
  refine ⟨I.valid, hBC.vb, I.fermi, hBC.fb, by rw [I.sym, hAB.sym, hBC.sym], ?_, AssocP.axesAB_nodup h,
    hBC.nB, ?_, hBC.ltB⟩
  · refine commonB_sizeLe_left (a := B) (xa := xb2) (AssocP.axesAB_len h) ?_ hBC.con
    intro j hj
    obtain ⟨e1, e2, e3⟩ := AssocP.axesAB_getD (nA := A.ndim) (xa := xa) h j hj
    have := I.leg_right _ e2
    rw [e3, ← e1] at this
    refine ⟨this, I.leg_nodup _ ?_⟩
    rw [e1, I.ndim]; omega
  · rw [I.ndim]; exact AssocP.axesAB_lt h

theorem admW_right_chain_w {xa xb1 xb2 xc : List Nat} (I : InterW B C xb2 xc BC)
    (hAB : AdmW A B xa xb1) (h : Mid B.ndim xb1 xb2) :
    AdmW A BC xa (AssocP.axesBC B.ndim xb1 xb2) := by
  refine ⟨hAB.va, I.valid, hAB.fa, I.fermi, by rw [I.sym]; exact hAB.sym, ?_, hAB.nA,
    h.symm.pos_nodup, hAB.ltA, ?_⟩
  · refine commonB_sizeLe_right (b := B) (xb := xb1) h.symm.pos_len ?_ hAB.con
    intro j hj
    have hjp : j < (positions (freeAxes B.ndim xb2) xb1).length := by rw [h.symm.pos_len]; exact hj
    have e2 : (positions (freeAxes B.ndim xb2) xb1).getD j 0 < (freeAxes B.ndim xb2).length := by
      rw [List.getD_eq_getElem?_getD, List.getElem?_eq_getElem hjp]
      exact h.symm.pos_lt _ (List.getElem_mem hjp)
    have e3 : (freeAxes B.ndim xb2).getD ((positions (freeAxes B.ndim xb2) xb1).getD j 0) 0
        = xb1.getD j 0 := by
      rw [← getD_permuted_ax (freeAxes B.ndim xb2) _ h.symm.pos_lt j hjp 0, h.symm.pos_spec]
    have := I.leg_left _ e2
    rw [e3] at this
    exact this
  · intro i hi
    rw [I.ndim]
    have := h.symm.pos_lt i hi
    omega

open Assoc2P in
theorem admW_left_tri_w {xa1 xa3 xb1 xb2 xc2 xc3 : List Nat} (I : InterW A B xa1 xb1 AB)
    (T : Assoc3P.TriW A B C xa1 xa3 xb1 xb2 xc2 xc3) :
    AdmW AB C (Assoc2P.axesAB A.ndim B.ndim xa1 xa3 xb1 xb2) (xc3 ++ xc2) := by
  refine ⟨I.valid, T.hBC.vb, I.fermi, T.hBC.fb, by rw [I.sym, T.hAB.sym, T.hBC.sym], ?_,
    Assoc2P.axesAB_nodup T.mA T.mB,
    List.nodup_append.mpr ⟨T.mC.n2, T.mC.n1, fun x hx y hy e => T.mC.disj y hy (e ▸ hx)⟩, ?_, ?_⟩
  · unfold Assoc2P.axesAB
    refine commonB_append (by rw [T.mA.pos_len, commonB_len T.conAC]) ?_
      (admW_left_chain_w I T.hAB T.hBC T.mB).con
    refine commonB_sizeLe_left (a := A) (xa := xa3) T.mA.pos_len ?_ T.conAC
    intro j hj
    obtain ⟨e2, e3⟩ := pos_getD T.mA j hj
    have := I.leg_left _ e2
    rw [e3] at this
    refine ⟨this, I.leg_nodup _ ?_⟩
    rw [I.ndim]; omega
  · rw [I.ndim]; exact Assoc2P.axesAB_lt T.mA T.mB
  · intro i hi
    rcases List.mem_append.mp hi with h | h
    · exact T.mC.lt2 i h
    · exact T.mC.lt1 i h

open Assoc2P in
theorem admW_right_tri_w {xa1 xa3 xb1 xb2 xc2 xc3 : List Nat} (I : InterW B C xb2 xc2 BC)
    (T : Assoc3P.TriW A B C xa1 xa3 xb1 xb2 xc2 xc3) :
    AdmW A BC (xa1 ++ xa3) (Assoc2P.axesBC B.ndim C.ndim xb1 xb2 xc2 xc3) := by
  refine ⟨T.hAB.va, I.valid, T.hAB.fa, I.fermi, by rw [I.sym]; exact T.hAB.sym, ?_,
    List.nodup_append.mpr ⟨T.mA.n1, T.mA.n2, fun x hx y hy e => T.mA.disj x hx (e ▸ hy)⟩,
    Assoc2P.axesAB_nodup T.mB.symm T.mC, ?_, ?_⟩
  · unfold Assoc2P.axesBC
    refine commonB_append (by rw [T.mB.symm.pos_len, T.hAB.len])
      (admW_right_chain_w I T.hAB T.mB).con ?_
    refine commonB_sizeLe_right (b := C) (xb := xc3) (by rw [List.length_map, T.mC.pos_len]) ?_
      T.conAC
    intro j hj
    obtain ⟨e1, e2, e3⟩ := AssocP.axesAB_getD (nA := B.ndim) (xa := xb2) T.mC j hj
    have := I.leg_right _ e2
    rw [e3, ← e1] at this
    exact this
  · intro i hi
    rcases List.mem_append.mp hi with h | h
    · exact T.mA.lt1 i h
    · exact T.mA.lt2 i h
  · rw [I.ndim]; exact Assoc2P.axesAB_lt T.mB.symm T.mC

end admw

end SymmModel.NormNet
