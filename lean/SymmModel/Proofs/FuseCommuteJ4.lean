import SymmModel.Proofs.FuseCommuteJ3

/-!
# C06 — the fuse sign of the leading free legs is the same for operand and contraction result
-/

namespace SymmModel.TdotP
open SymmModel SymmModel.GradedP SymmModel.Lazy SymmModel.AssocP SymmModel.RoutesP
open SymmModel.Assoc3P SymmModel.Assoc4P

variable {R : Type}

/-- the leading `k` free legs of the left operand keep their directions in the result (any mode),
    so the C05 fuse sign of the group `[0 … k-1]` is the same function of the leading charges -/
theorem fuseSignT_lead_result [AddCommMonoid R] [Mul R] [Neg R] [SignRing R]
    (hz1 : ∀ x : R, 0 * x = 0) (hz2 : ∀ x : R, x * 0 = 0) {a b : Arr R} {xa xb : List Nat}
    (W : AdmW a b xa xb) (mode : TdotMode) (c : Arr R) (k : Nat)
    (hk1 : 1 ≤ k) (hk : k ≤ a.ndim) (hxa : ∀ x ∈ xa, k ≤ x)
    (hc : a.tensordotF b (.pair (xa.map Int.ofNat) (xb.map Int.ofNat)) mode = .ok c)
    {T T' : Sector} (hT : T.take k = T'.take k) :
    FuseP.fuseSignT a [List.range k] T = FuseP.fuseSignT c [List.range k] T' := by
  obtain ⟨_, _, _, I, _⟩ := call_any hz1 hz2 a b xa xb W mode c hc
  have ean : a.indices.length = a.ndim := rfl
  have ebn : b.indices.length = b.ndim := rfl
  have hfr0 := I.frame
  have hWeq : without a.indices xa ++ without b.indices xb
      = a.indices.take k ++ (permuted a.indices (freeTail a.ndim k xa)
          ++ permuted b.indices (freeAxes b.ndim xb)) := by
    rw [without_eq_permuted_freeAxes, without_eq_permuted_freeAxes, ean, ebn,
      freeAxes_lead a.ndim k xa hk hxa, ValidP.permuted_append, List.append_assoc,
      ValidP.permuted_range_take]
  have htk : (a.indices.take k).length = k := by rw [List.length_take, ean]; omega
  have hkc : k ≤ c.ndim := by
    show k ≤ c.indices.length
    rw [hfr0.length_eq, hWeq, List.length_append, htk]; omega
  have hdual : ∀ ax, ax < k → (a.indices.getD ax default).dual = (c.indices.getD ax default).dual := by
    intro ax hax
    have := forall₂_getD hfr0 ax (by show ax < c.ndim; omega) default default
    rw [hWeq, getD_append_take _ _ hax (by rw [ean]; exact hk)] at this
    exact this.1.symm
  exact fuseSignT_lead_congr a c hk1 hk hkc I.sym.symm hdual hT

/-- `lead_commute_fermi_two_modes` with the two fuse signs expressed by the OPERANDS: the fuse sign
    of `a`'s leading group at `Sa` and the fuse sign of `b`'s leading group at `Sb` -/
theorem lead_commute_fermi_two_signs [AddCommMonoid R] [Mul R] [Neg R] [SignRing R]
    (hz1 : ∀ x : R, 0 * x = 0) (hz2 : ∀ x : R, x * 0 = 0) (hmul : ∀ x y : R, x * y = y * x)
    (a b cm : Arr R) (xa xb : List Nat) (ka kb : Nat) (e : Bool) (m1 m2 : TdotMode)
    (ha : a.validB = true) (hb : b.validB = true) (hfa : a.fermi = true) (hfb : b.fermi = true)
    (hadm : tdotAdmissibleCommonB a b xa xb = true)
    (hd : (a.oddpos ++ b.oddpos).Pairwise (fun x y => x.1 ≠ y.1))
    (hka1 : 1 ≤ ka) (hka : ka ≤ a.ndim) (hxa : ∀ x ∈ xa, ka ≤ x)
    (hkb1 : 1 ≤ kb) (hkb : kb ≤ b.ndim) (hxb : ∀ x ∈ xb, kb ≤ x)
    (hcm : a.tensordotF b (.pair (xa.map Int.ofNat) (xb.map Int.ofNat)) m1 = .ok cm) :
    a.fuseF [List.range ka] .insert e
        = .ok (FuseP.fusedArrM (FuseP.signAdj a [List.range ka]) [List.range ka])
    ∧ b.fuseF [List.range kb] .insert e
        = .ok (FuseP.fusedArrM (FuseP.signAdj b [List.range kb]) [List.range kb])
    ∧ ∃ c' cP cPPm,
      b.tensordotF a (.pair (xb.map Int.ofNat) (xa.map Int.ofNat)) .blockwise = .ok c'
      ∧ a.tensordotF (FuseP.fusedArrM (FuseP.signAdj b [List.range kb]) [List.range kb])
          (.pair (xa.map Int.ofNat) ((xb.map (sh kb)).map Int.ofNat)) .blockwise = .ok cP
      ∧ (FuseP.fusedArrM (FuseP.signAdj a [List.range ka]) [List.range ka]).tensordotF
          (FuseP.fusedArrM (FuseP.signAdj b [List.range kb]) [List.range kb])
          (.pair ((xa.map (sh ka)).map Int.ofNat) ((xb.map (sh kb)).map Int.ofNat)) m2 = .ok cPPm
      ∧ c'.fuseF [List.range kb] .insert e
          = .ok (FuseP.fusedArrM (FuseP.signAdj c' [List.range kb]) [List.range kb])
      ∧ cP.fuseF [List.range ka] .insert e
          = .ok (FuseP.fusedArrM (FuseP.signAdj cP [List.range ka]) [List.range ka])
      ∧ kb ≤ c'.ndim ∧ ka ≤ cP.ndim
      ∧ ∀ (c0a c2a c0b c2b : Charge) (i0a d0a i2a d2a i0b d0b i2b d2b : Nat)
          (Sa Sb restL restR : Sector) (Oa Ob orestL orestR shp1 shp2 : List Nat),
        -- the left fused position
        decAx (FuseP.signAdj a [List.range ka]) [List.range ka] 0 c0a i0a = some (Sa, Oa) →
        (FuseP.ixM (FuseP.signAdj a [List.range ka]) [List.range ka] 0).sizeOf? c0a = some d0a →
        i0a < d0a →
        decAx (FuseP.signAdj cP [List.range ka]) [List.range ka] 0 c2a i2a = some (Sa, Oa) →
        (FuseP.ixM (FuseP.signAdj cP [List.range ka]) [List.range ka] 0).sizeOf? c2a = some d2a →
        i2a < d2a →
        -- the right fused position
        decAx (FuseP.signAdj b [List.range kb]) [List.range kb] 0 c0b i0b = some (Sb, Ob) →
        (FuseP.ixM (FuseP.signAdj b [List.range kb]) [List.range kb] 0).sizeOf? c0b = some d0b →
        i0b < d0b →
        decAx (FuseP.signAdj c' [List.range kb]) [List.range kb] 0 c2b i2b = some (Sb, Ob) →
        (FuseP.ixM (FuseP.signAdj c' [List.range kb]) [List.range kb] 0).sizeOf? c2b = some d2b →
        i2b < d2b →
        -- the rest of the address lies inside the tables of `cP` resp. `c'`
        Arr.blockShape? (cP.indices.drop ka) (restL ++ c0b :: restR) = some shp1 →
        inBox shp1 (orestL ++ i0b :: orestR) = true →
        Arr.blockShape? (c'.indices.drop kb) (restR ++ (Sa ++ restL)) = some shp2 →
        inBox shp2 (orestR ++ (Oa ++ orestL)) = true →
        -- lengths
        (Sa ++ restL).length = (freeAxes a.ndim xa).length →
        (Oa ++ orestL).length = (freeAxes a.ndim xa).length →
        restR.length + 1 = (freeAxes (1 + (b.ndim - kb)) (xb.map (sh kb))).length →
        orestR.length = restR.length →
        (Sb ++ restR).length = (freeAxes b.ndim xb).length →
        (Ob ++ orestR).length = (freeAxes b.ndim xb).length →
        -- the addresses lie inside the operands' tables
        inBox (Arr.blockShapeD
            (without (FuseP.fusedArrM (FuseP.signAdj b [List.range kb]) [List.range kb]).indices
                (xb.map (sh kb)) ++ without a.indices xa) ((c0b :: restR) ++ (Sa ++ restL)))
          ((i0b :: orestR) ++ (Oa ++ orestL)) = true →
        inBox (Arr.blockShapeD (without a.indices xa ++ without b.indices xb)
            ((Sa ++ restL) ++ (Sb ++ restR))) ((Oa ++ orestL) ++ (Ob ++ orestR)) = true →
        -- the address of the pre-fused contraction lies inside the tables of the fused operands
        inBox (Arr.blockShapeD
            (without (FuseP.fusedArrM (FuseP.signAdj a [List.range ka]) [List.range ka]).indices
                (xa.map (sh ka))
              ++ without (FuseP.fusedArrM (FuseP.signAdj b [List.range kb]) [List.range kb]).indices
                (xb.map (sh kb))) (c0a :: (restL ++ c0b :: restR)))
          (i0a :: (orestL ++ i0b :: orestR)) = true →
        cPPm.elem (c0a :: (restL ++ c0b :: restR)) (i0a :: (orestL ++ i0b :: orestR))
          = sgnI (FuseP.fuseSignT a [List.range ka] (Sa ++ restL))
             (sgnI (koszul (((c0b :: restR) ++ (Sa ++ restL)).map a.sym.parity)
                (some ((List.range (Sa ++ restL).length).map ((restR.length + 1) + ·)
                  ++ List.range (restR.length + 1))))
              (sgnI (FuseP.fuseSignT b [List.range kb] (Sb ++ restR))
               (sgnI (koszul (((Sa ++ restL) ++ (Sb ++ restR)).map a.sym.parity)
                  (some ((List.range (Sb ++ restR).length).map ((Sa ++ restL).length + ·)
                    ++ List.range (Sa ++ restL).length)))
                (cm.elem ((Sa ++ restL) ++ (Sb ++ restR)) ((Oa ++ orestL) ++ (Ob ++ orestR)))))) := by
  have W := AdmW.of ha hb hfa hfb hadm
  obtain ⟨hfA, hfB, c', cP, cPPm, hc', hcP, hcPPm, hfC', hfCP, hk1', hk2', hel⟩ :=
    lead_commute_fermi_two_modes hz1 hz2 hmul a b cm xa xb ka kb e m1 m2 ha hb hfa hfb hadm hd hka1 hka
      hxa hkb1 hkb hxb hcm
  have WR := admW_fuse_lead_right W kb e hkb1 hkb hxb
  refine ⟨hfA, hfB, c', cP, cPPm, hc', hcP, hcPPm, hfC', hfCP, hk1', hk2', ?_⟩
  intro c0a c2a c0b c2b i0a d0a i2a d2a i0b d0b i2b d2b Sa Sb restL restR Oa Ob orestL orestR shp1 shp2
    a1 a2 a3 a4 a5 a6 b1 b2 b3 b4 b5 b6 hs1 hx1 hs2 hx2 l1 l2 l3 l4 l5 l6 box3 box4 box5
  have hla : ka ≤ (Sa ++ restL).length := by
    rw [l1, freeAxes_lead a.ndim ka xa hka hxa, List.length_append, List.length_range]; omega
  have hlb : kb ≤ (Sb ++ restR).length := by
    rw [l5, freeAxes_lead b.ndim kb xb hkb hxb, List.length_append, List.length_range]; omega
  have sA : FuseP.fuseSignT a [List.range ka] (Sa ++ restL)
      = FuseP.fuseSignT cP [List.range ka] (Sa ++ (restL ++ c0b :: restR)) :=
    fuseSignT_lead_result hz1 hz2 WR .blockwise cP ka hka1 hka hxa hcP (by
      rw [← List.append_assoc, List.take_append_of_le_length hla])
  have sB : FuseP.fuseSignT b [List.range kb] (Sb ++ restR)
      = FuseP.fuseSignT c' [List.range kb] (Sb ++ (restR ++ (Sa ++ restL))) :=
    fuseSignT_lead_result hz1 hz2 (admW_swap W) .blockwise c' kb hkb1 hkb hxb hc' (by
      rw [← List.append_assoc, List.take_append_of_le_length hlb])
  rw [sA, sB]
  exact hel c0a c2a c0b c2b i0a d0a i2a d2a i0b d0b i2b d2b Sa Sb restL restR Oa Ob orestL orestR
    shp1 shp2 a1 a2 a3 a4 a5 a6 b1 b2 b3 b4 b5 b6 hs1 hx1 hs2 hx2 l1 l2 l3 l4 l5 l6 box3 box4 box5

end SymmModel.TdotP
