/-
  SymmModel.Proofs.FuseCommuteF8 — C06, first clause, FERMIONIC, public route, BOTH contractions in
  an arbitrary mode (`fuse_contracted_fermi_modes`): composition of `fuse_contracted_fermi`
  (blockwise) with `C06.tensordotF_modes_agree_weak`.  Namespace `SymmModel.TdotP`.
-/
import SymmModel.Proofs.FuseCommuteF7
import SymmModel.Proofs.FuseCommuteFM
namespace SymmModel
namespace TdotP
open SymmModel.KoszulP SymmModel.Lazy SymmModel.GradedP SymmModel.RoutesP SymmModel.AssocP SymmModel.C06
variable {R : Type}
set_option linter.unusedSectionVars false

/-- any mode against blockwise mode under the weak guard (`C06.tensordotF_modes_agree_weak` with the
    trivial case `mode = blockwise` added). -/
theorem tensordotF_any_mode_weak [AddCommMonoid R] [Mul R] [Neg R] [SignRing R]
    (hz1 : ∀ x : R, 0 * x = 0) (hz2 : ∀ x : R, x * 0 = 0) (a b : Arr R) (xa xb : List Nat)
    (h : AdmW a b xa xb) (mode : TdotMode) :
    (∀ e, OddposP.mergeOddpos a.parity a.oddpos b.oddpos = .error e →
        a.tensordotF b (.pair (xa.map Int.ofNat) (xb.map Int.ofNat)) mode = .error e
        ∧ a.tensordotF b (.pair (xa.map Int.ofNat) (xb.map Int.ofNat)) .blockwise = .error e)
    ∧ (∀ r, OddposP.mergeOddpos a.parity a.oddpos b.oddpos = .ok r →
        ∃ rm rb, a.tensordotF b (.pair (xa.map Int.ofNat) (xb.map Int.ofNat)) mode = .ok rm
          ∧ a.tensordotF b (.pair (xa.map Int.ofNat) (xb.map Int.ofNat)) .blockwise = .ok rb
          ∧ rm.oddpos = rb.oddpos ∧ rm.charge = rb.charge ∧ rm.sym = rb.sym ∧ rm.fermi = rb.fermi
          ∧ rm.indices.length = rb.indices.length
          ∧ (∀ s ∈ rb.sectors, s ∈ rm.sectors)
          ∧ (∀ K V, alookup rm.blocks K = some V →
              Arr.blockShape? (without a.indices xa ++ without b.indices xb) K = some V.shape)
          ∧ (∀ K V, alookup rm.blocks K = some V → ∀ J, inBox V.shape J = true →
              rm.elem K J = rb.elem K J)) := by
  cases mode with
  | fused => exact tensordotF_modes_agree_weak hz1 hz2 a b xa xb h .fused (Or.inl rfl)
  | auto => exact tensordotF_modes_agree_weak hz1 hz2 a b xa xb h .auto (Or.inr rfl)
  | blockwise =>
    have hcore := tensordotF_eq_core_w a b xa xb h
    constructor
    · intro e he
      rw [hcore, he]
      exact ⟨rfl, rfl⟩
    · intro r hr
      rw [hr] at hcore
      simp only [Except.map] at hcore
      refine ⟨_, _, hcore, hcore, rfl, rfl, rfl, rfl, rfl, fun s hs => hs, ?_, fun _ _ _ _ _ => rfl⟩
      intro K V hK
      have F := coreT_frame_w a b xa xb h
      obtain ⟨g1, g2, g3, g4, g5, g6⟩ := finish_fields (coreT a b xa xb) r
      have cV : (finish (coreT a b xa xb) r).validB = true := (ValidP.validB_iff _).mpr
        (ValidP.tensordotF_valid_of_opposite .blockwise (ValidP.tdotASpec_all .blockwise) a b _ xa xb
          ((ValidP.validB_iff a).mp h.va) ((ValidP.validB_iff b).mp h.vb) h.fa h.fb h.sym
          (Assoc3P.opposite_of_commonB h.con) h.nA h.nB h.ltA h.ltB hcore)
      have h1 := Arr.shapesOk_of_validB cV (K, V) (LinalgLemmas.alookup_some_mem hK)
      have cI : (finish (coreT a b xa xb) r).indices
          = dropUnused (without a.indices xa ++ without b.indices xb) (finish (coreT a b xa xb) r).sectors := by
        rw [g4, g5]; exact F.indices
      rw [cI] at h1
      exact blockShape?_weaken (dropUnused_sizeLe _ _) K V.shape h1

/-- **C06, first clause, fermionic, public route, BOTH contractions in an arbitrary mode.**
    `fuse_contracted_fermi` with the contraction of the original operands in mode `m1` and the
    contraction of the fused operands in mode `m2` (each of blockwise / fused / auto): the second
    fails with the error of the first, or both succeed with the same labels, charge, symmetry,
    kind, rank, and every stored entry of the second result equals the element of the first at
    that address. -/
theorem fuse_contracted_fermi_modes [AddCommMonoid R] [Mul R] [Neg R] [SignRing R]
    (hz1 : ∀ x : R, 0 * x = 0) (hz2 : ∀ x : R, x * 0 = 0) (a b : Arr R) (xa xb : List Nat)
    (W : AdmW a b xa xb) (hadjA : AdjOk a xa) (hadjB : AdjOk b xb) (e1 e2 : Bool) (m1 m2 : TdotMode) :
    ∃ af bf, (dropMisaligned a b xa xb).1.fuseF [xa] .insert e1 = .ok af
      ∧ (dropMisaligned a b xa xb).2.fuseF [xb] .insert e2 = .ok bf
      ∧ (∀ e, a.tensordotF b (.pair (xa.map Int.ofNat) (xb.map Int.ofNat)) m1 = .error e →
          af.tensordotF bf (.pair [Int.ofNat (bondPos a xa)] [Int.ofNat (bondPos b xb)]) m2 = .error e)
      ∧ ∀ c, a.tensordotF b (.pair (xa.map Int.ofNat) (xb.map Int.ofNat)) m1 = .ok c →
        ∃ cf, af.tensordotF bf (.pair [Int.ofNat (bondPos a xa)] [Int.ofNat (bondPos b xb)]) m2 = .ok cf
          ∧ cf.oddpos = c.oddpos ∧ cf.charge = c.charge ∧ cf.sym = c.sym ∧ cf.fermi = c.fermi
          ∧ cf.ndim = c.ndim
          ∧ ∀ K V, alookup cf.blocks K = some V → ∀ J, inBox V.shape J = true → cf.elem K J = c.elem K J := by
  obtain ⟨n1, n2⟩ := dropMisaligned_ndim a b xa xb
  have h := fctx_of_dropMisaligned a b xa xb W hadjA hadjB
  have W0 := h.W
  obtain ⟨f1', f2', _⟩ := bond_fuse_fermi hz1 hz2 h e1 e2
  obtain ⟨af, bf, f1, f2, W', _, _, herr, hok⟩ :=
    fuse_contracted_fermi hz1 hz2 a b xa xb W hadjA hadjB e1 e2
  have eaf : af = FuseP.fusedArrM (FuseP.signAdj (dropMisaligned a b xa xb).1 [xa]) [xa] := by
    rw [f1'] at f1; exact (Except.ok.inj f1).symm
  have ebf : bf = FuseP.fusedArrM (FuseP.signAdj (dropMisaligned a b xa xb).2 [xb]) [xb] := by
    rw [f2'] at f2; exact (Except.ok.inj f2).symm
  -- the free-leg tables of the fused operands are those of the aligned operands
  have oA := h.adjA.one
  have oB := h.adjB.one
  obtain ⟨xI, _⟩ := signAdj_adj _ W0.va W0.fa h.adjA
  obtain ⟨yI, _⟩ := signAdj_adj _ W0.vb W0.fb h.adjB
  have hXn : (FuseP.signAdj (dropMisaligned a b xa xb).1 [xa]).ndim = a.ndim := by
    show (FuseP.signAdj (dropMisaligned a b xa xb).1 [xa]).indices.length = _
    rw [xI]; exact n1
  have hYn : (FuseP.signAdj (dropMisaligned a b xa xb).2 [xb]).ndim = b.ndim := by
    show (FuseP.signAdj (dropMisaligned a b xa xb).2 [xb]).indices.length = _
    rw [yI]; exact n2
  have oAX : OneOk (FuseP.signAdj (dropMisaligned a b xa xb).1 [xa]) xa :=
    ⟨oA.ne, oA.nd, by rw [hXn, ← n1]; exact oA.lt⟩
  have oBX : OneOk (FuseP.signAdj (dropMisaligned a b xa xb).2 [xb]) xb :=
    ⟨oB.ne, oB.nd, by rw [hYn, ← n2]; exact oB.lt⟩
  have hbX : bondPos (FuseP.signAdj (dropMisaligned a b xa xb).1 [xa]) xa = bondPos a xa := by
    have e0 : bondPos (dropMisaligned a b xa xb).1 xa = bondPos a xa := rfl
    rw [← e0]; unfold bondPos; rw [giM_congr xI]
  have hbY : bondPos (FuseP.signAdj (dropMisaligned a b xa xb).2 [xb]) xb = bondPos b xb := by
    have e0 : bondPos (dropMisaligned a b xa xb).2 xb = bondPos b xb := rfl
    rw [← e0]; unfold bondPos; rw [giM_congr yI]
  have iA : without af.indices [bondPos a xa]
      = permuted (dropMisaligned a b xa xb).1.indices (freeAxes a.ndim xa) := by
    rw [eaf, without_eq_permuted_freeAxes, ← hbX]
    show permuted (FuseP.fusedArrM (FuseP.signAdj (dropMisaligned a b xa xb).1 [xa]) [xa]).indices
      (freeAxes (FuseP.fusedArrM (FuseP.signAdj (dropMisaligned a b xa xb).1 [xa]) [xa]).ndim
        [bondPos (FuseP.signAdj (dropMisaligned a b xa xb).1 [xa]) xa]) = _
    rw [one_ndim oAX]
    have := one_free_indices oAX
    rw [xI, hXn] at this
    exact this
  have iB : without bf.indices [bondPos b xb]
      = permuted (dropMisaligned a b xa xb).2.indices (freeAxes b.ndim xb) := by
    rw [ebf, without_eq_permuted_freeAxes, ← hbY]
    show permuted (FuseP.fusedArrM (FuseP.signAdj (dropMisaligned a b xa xb).2 [xb]) [xb]).indices
      (freeAxes (FuseP.fusedArrM (FuseP.signAdj (dropMisaligned a b xa xb).2 [xb]) [xb]).ndim
        [bondPos (FuseP.signAdj (dropMisaligned a b xa xb).2 [xb]) xb]) = _
    rw [one_ndim oBX]
    have := one_free_indices oBX
    rw [yI, hYn] at this
    exact this
  -- each call against its blockwise twin
  obtain ⟨E1, K1⟩ := tensordotF_any_mode_weak hz1 hz2 a b xa xb W m1
  obtain ⟨E2, K2⟩ := tensordotF_any_mode_weak hz1 hz2 af bf [bondPos a xa] [bondPos b xb] W' m2
  simp only [List.map_cons, List.map_nil] at E2 K2
  refine ⟨af, bf, f1, f2, ?_, ?_⟩
  · intro e he
    cases hm : OddposP.mergeOddpos a.parity a.oddpos b.oddpos with
    | ok r =>
      obtain ⟨rm, _, q1, _⟩ := K1 r hm
      rw [q1] at he; cases he
    | error e0 =>
      obtain ⟨q1, q2⟩ := E1 e0 hm
      rw [q1] at he
      obtain rfl : e0 = e := by injection he
      have hb := herr e0 q2
      cases hm' : OddposP.mergeOddpos af.parity af.oddpos bf.oddpos with
      | ok r' =>
        obtain ⟨_, rb', _, q2', _⟩ := K2 r' hm'
        rw [q2'] at hb; cases hb
      | error e' =>
        obtain ⟨q1', q2'⟩ := E2 e' hm'
        rw [q2'] at hb
        obtain rfl : e' = e0 := by injection hb
        exact q1'
  · intro c hc
    cases hm : OddposP.mergeOddpos a.parity a.oddpos b.oddpos with
    | error e0 =>
      rw [(E1 e0 hm).1] at hc; cases hc
    | ok r =>
    obtain ⟨rm, rb, q1, q2, g1, g2, g3, g4, g5, gsec, gshape, gel⟩ := K1 r hm
    rw [q1] at hc
    obtain rfl : rm = c := by injection hc
    obtain ⟨cfb, t1, k2, k3, k4, k5, k6, kE⟩ := hok rb q2
    cases hm' : OddposP.mergeOddpos af.parity af.oddpos bf.oddpos with
    | error e' =>
      rw [(E2 e' hm').2] at t1; cases t1
    | ok r' =>
    obtain ⟨cf, rb', p1, p2, j1, j2, j3, j4, j5, _, jshape, jel⟩ := K2 r' hm'
    rw [p2] at t1
    obtain rfl : rb' = cfb := by injection t1
    refine ⟨cf, p1, j1.trans (k2.trans g1.symm), j2.trans (k3.trans g2.symm), j3.trans (k4.trans g3.symm),
      j4.trans (k5.trans g4.symm), ?_, ?_⟩
    · show cf.indices.length = rm.indices.length
      rw [j5, g5]; exact k6
    · intro K V hK J hJ
      have hs := jshape K V hK
      rw [iA, iB] at hs
      rw [jel K V hK J hJ]
      have eA'n : (dropMisaligned a b xa xb).1.indices.length = a.ndim := n1
      have hLl : (permuted (dropMisaligned a b xa xb).1.indices (freeAxes a.ndim xa)).length
          = (freeAxes a.ndim xa).length :=
        permuted_length _ _ (fun x hx => by rw [eA'n]; exact mem_freeAxes_lt x hx)
      have hKl : K.length = (freeAxes a.ndim xa).length
          + (permuted (dropMisaligned a b xa xb).2.indices (freeAxes b.ndim xb)).length := by
        rw [(blockShape?_length hs).1, List.length_append, hLl]
      have hs2 := hs
      rw [← List.take_append_drop (freeAxes a.ndim xa).length K] at hs2
      obtain ⟨p, q, hpq, hp, hq⟩ := TdotP.blockShape?_split (by rw [List.length_take, hLl]; omega) hs2
      have hpl : p.length = (freeAxes a.ndim xa).length := by rw [(blockShape?_length hp).2, hLl]
      have hJ2 := hJ
      rw [hpq] at hJ2
      have hJl : J.length = p.length + q.length := by rw [inBox_length hJ2, List.length_append]
      rw [← List.take_append_drop p.length J, inBox_append (by rw [List.length_take]; omega)] at hJ2
      simp only [Bool.and_eq_true] at hJ2
      have hstep := kE _ _ _ _ _ _ hp hJ2.1 hq hJ2.2
      rw [List.take_append_drop, List.take_append_drop] at hstep
      rw [hstep]
      -- the shape of the stored block in the ORIGINAL free-leg tables
      have hshp : Arr.blockShape? (without a.indices xa ++ without b.indices xb) K = some V.shape := by
        rw [without_eq_permuted_freeAxes, without_eq_permuted_freeAxes]
        exact blockShape?_weaken
          (forall₂_append (forall₂_permuted (dropUnused_sizeLe a.indices _) _)
            (forall₂_permuted (dropUnused_sizeLe b.indices _) _)) K V.shape hs
      cases hl : alookup rm.blocks K with
      | some V' =>
        have hs' := gshape K V' hl
        rw [hshp] at hs'
        have e : V.shape = V'.shape := Option.some.inj hs'
        rw [e] at hJ
        exact (gel K V' hl J hJ).symm
      | none =>
        have hK1 : K ∉ rm.sectors := (LinalgLemmas.alookup_eq_none_iff _ _).mp hl
        have hK2 : K ∉ rb.sectors := fun hh => hK1 (gsec K hh)
        rw [Arr.elem_of_not_mem hK1, Arr.elem_of_not_mem hK2]

-- #print axioms SymmModel.TdotP.tensordotF_any_mode_weak
-- #print axioms SymmModel.TdotP.fuse_contracted_fermi_modes
-- both: [propext, Classical.choice, Quot.sound]

end TdotP
end SymmModel
