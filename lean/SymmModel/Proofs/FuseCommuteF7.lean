/-
  SymmModel.Proofs.FuseCommuteF7 — C06, first clause, FERMIONIC, public route: align
  (`dropMisaligned`), fuse the contracted legs of each operand with the fermionic `fuse`, contract
  the single fused pair with `tensordot_fermionic` = `tensordot_fermionic` over the original pairs
  (`fuse_contracted_fermi`; contracted legs adjacent and in order).  Namespace `SymmModel.TdotP`.
-/
import SymmModel.Proofs.FuseCommuteF6

namespace SymmModel
namespace TdotP
open SymmModel.KoszulP SymmModel.Lazy SymmModel.GradedP SymmModel.RoutesP SymmModel.AssocP
variable {R : Type}
set_option linter.unusedSectionVars false

theorem perm_len (G : List (List Nat)) {d d' : List Bool} (h : d.length = d'.length) :
    (calcFuseGroupInfo G d).perm = (calcFuseGroupInfo G d').perm := by
  unfold calcFuseGroupInfo
  simp only [h]

/-- `AdjOk` only depends on the rank -/
theorem adjOk_of_ndim {X A : Arr R} {g : List Nat} (hn : X.ndim = A.ndim) (h : AdjOk A g) : AdjOk X g := by
  refine ⟨⟨h.one.ne, h.one.nd, by rw [hn]; exact h.one.lt⟩, ?_⟩
  show (calcFuseGroupInfo [g] X.duals).perm = _
  rw [perm_len [g] (show X.duals.length = A.duals.length by
    rw [FuseP.duals_length, FuseP.duals_length, hn]), hn]
  exact h.idp

/-- the aligned operands of a fermionic pair satisfying the weak guard, contracted legs adjacent
    and in order, form an `FCtx` -/
theorem fctx_of_dropMisaligned [AddCommMonoid R] [Mul R] [Neg R] [SignRing R] (a b : Arr R) (xa xb : List Nat)
    (W : AdmW a b xa xb) (hadjA : AdjOk a xa) (hadjB : AdjOk b xb) :
    FCtx (dropMisaligned a b xa xb).1 (dropMisaligned a b xa xb).2 xa xb := by
  obtain ⟨n1, n2⟩ := dropMisaligned_ndim a b xa xb
  obtain ⟨v1, v2⟩ := ValidP.dropMisaligned_valid a b xa xb ((ValidP.validB_iff a).mp W.va)
    ((ValidP.validB_iff b).mp W.vb)
  have v1' := (ValidP.validB_iff _).mpr v1
  have v2' := (ValidP.validB_iff _).mpr v2
  have hla : ∀ s ∈ a.sectors, s.length = a.ndim := fun s hs =>
    Arr.sector_length (Arr.shapesOk_of_validB W.va) hs
  have hlb : ∀ s ∈ b.sectors, s.length = b.ndim := fun s hs =>
    Arr.sector_length (Arr.shapesOk_of_validB W.vb) hs
  obtain ⟨hcm, hdual⟩ := aligned_cm_dual_w a b xa xb W.va W.vb W.ltA W.ltB W.con
  obtain ⟨hsubA, hsubB⟩ := sectors_dropMisaligned_sub a b xa xb
  have hlen : xa.length = xb.length := commonB_len W.con
  have hcon : contractibleCommonB (dropMisaligned a b xa xb).1 (dropMisaligned a b xa xb).2 xa xb = true := by
    unfold contractibleCommonB
    simp only [Bool.and_eq_true, beq_iff_eq, List.all_eq_true, bne_iff_ne, ne_eq]
    refine ⟨hlen, ?_⟩
    intro p hp
    obtain ⟨t, ht1, ht2⟩ := mem_zip_getElem? hp
    have h1 := congrArg (fun l => l[t]?) hcm
    have h2 := congrArg (fun l => l[t]?) hdual
    simp only [List.getElem?_map, ht1, ht2, Option.map_some, Option.some.injEq] at h1 h2
    have hi : p.1 < (dropMisaligned a b xa xb).1.indices.length := by
      show p.1 < (dropMisaligned a b xa xb).1.ndim
      rw [n1]; exact W.ltA _ (List.mem_of_getElem? ht1)
    constructor
    · rw [← h1]
      apply cmAgree_self
      apply keys_nodup_of_validB v1'
      rw [List.getD_eq_getElem?_getD, List.getElem?_eq_getElem hi]
      exact List.getElem_mem hi
    · rw [h2]
      cases ((dropMisaligned a b xa xb).1.indices.getD p.1 default).dual <;> simp
  refine ⟨⟨v1', v2', W.fa, W.fb, W.sym, hcon, W.nA, W.nB, by rw [n1]; exact W.ltA, by rw [n2]; exact W.ltB⟩,
    hcm, hdual, ?_, adjOk_of_ndim n1 hadjA, adjOk_of_ndim n2 hadjB⟩
  intro K
  have eA : (dropMisaligned a b xa xb).1.blocks.map (fun sb => xa.map (fun ax => sb.1.getD ax (0, 0)))
      = subKeys (dropMisaligned a b xa xb).1 xa := by
    simp only [subKeys, Arr.sectors, List.map_map]
    apply List.map_congr_left
    intro sb hsb
    have hl : sb.1.length = a.ndim := hla _ (hsubA _ (List.mem_map.mpr ⟨sb, hsb, rfl⟩))
    exact (permuted_eq_map _ _ (by rw [hl]; exact W.ltA) (0, 0)).symm
  have eB : (dropMisaligned a b xa xb).2.blocks.map (fun sb => xb.map (fun ax => sb.1.getD ax (0, 0)))
      = subKeys (dropMisaligned a b xa xb).2 xb := by
    simp only [subKeys, Arr.sectors, List.map_map]
    apply List.map_congr_left
    intro sb hsb
    have hl : sb.1.length = b.ndim := hlb _ (hsubB _ (List.mem_map.mpr ⟨sb, hsb, rfl⟩))
    exact (permuted_eq_map _ _ (by rw [hl]; exact W.ltB) (0, 0)).symm
  rw [eA, eB]
  exact aligned_keys a b xa xb K

/-- **C06, first clause, fermionic, public route (blockwise).**  `a`, `b` valid fermionic arrays
    satisfying the weak guard, contracted legs adjacent and in order on each operand.  With
    `(a', b') = drop_misaligned_sectors(a, b)`: both fermionic fuses succeed; the fermionic
    contraction of the fused operands over the single fused pair fails with the error of
    `tensordot_fermionic(a, b, (xa, xb))` when that fails, and otherwise succeeds with the same
    labels, charge, symmetry, kind and rank and with the same element at every address of the free
    legs' table box (tables of the aligned operands). -/
theorem fuse_contracted_fermi [AddCommMonoid R] [Mul R] [Neg R] [SignRing R]
    (hz1 : ∀ x : R, 0 * x = 0) (hz2 : ∀ x : R, x * 0 = 0) (a b : Arr R) (xa xb : List Nat)
    (W : AdmW a b xa xb) (hadjA : AdjOk a xa) (hadjB : AdjOk b xb) (e1 e2 : Bool) :
    ∃ af bf, (dropMisaligned a b xa xb).1.fuseF [xa] .insert e1 = .ok af
      ∧ (dropMisaligned a b xa xb).2.fuseF [xb] .insert e2 = .ok bf
      ∧ AdmW af bf [bondPos a xa] [bondPos b xb]
      ∧ af.ndim + xa.length = a.ndim + 1 ∧ bf.ndim + xb.length = b.ndim + 1
      ∧ (∀ e, a.tensordotF b (.pair (xa.map Int.ofNat) (xb.map Int.ofNat)) .blockwise = .error e →
          af.tensordotF bf (.pair [Int.ofNat (bondPos a xa)] [Int.ofNat (bondPos b xb)]) .blockwise = .error e)
      ∧ ∀ c, a.tensordotF b (.pair (xa.map Int.ofNat) (xb.map Int.ofNat)) .blockwise = .ok c →
        ∃ cf, af.tensordotF bf (.pair [Int.ofNat (bondPos a xa)] [Int.ofNat (bondPos b xb)]) .blockwise = .ok cf
          ∧ cf.oddpos = c.oddpos ∧ cf.charge = c.charge ∧ cf.sym = c.sym ∧ cf.fermi = c.fermi
          ∧ cf.ndim = c.ndim
          ∧ ∀ (Ls Rs : Sector) (oL oR shpL shpR : List Nat),
              Arr.blockShape? (permuted (dropMisaligned a b xa xb).1.indices (freeAxes a.ndim xa)) Ls = some shpL →
              inBox shpL oL = true →
              Arr.blockShape? (permuted (dropMisaligned a b xa xb).2.indices (freeAxes b.ndim xb)) Rs = some shpR →
              inBox shpR oR = true →
              cf.elem (Ls ++ Rs) (oL ++ oR) = c.elem (Ls ++ Rs) (oL ++ oR) := by
  obtain ⟨n1, n2⟩ := dropMisaligned_ndim a b xa xb
  have h := fctx_of_dropMisaligned a b xa xb W hadjA hadjB
  obtain ⟨f1, f2, W', herr, hok⟩ := bond_fuse_fermi hz1 hz2 h e1 e2
  have hbA : bondPos (dropMisaligned a b xa xb).1 xa = bondPos a xa := by
    unfold bondPos
    show (calcFuseGroupInfo [xa] (dropMisaligned a b xa xb).1.duals).position
      = (calcFuseGroupInfo [xa] a.duals).position
    rfl
  have hbB : bondPos (dropMisaligned a b xa xb).2 xb = bondPos b xb := rfl
  rw [hbA, hbB] at W' herr hok
  -- the two calls on the original and on the aligned operands
  have W0 := h.W
  have horig := tensordotF_eq_core_w a b xa xb W
  have halig := tensordotF_eq_core_w _ _ xa xb W0
  have hpar : (dropMisaligned a b xa xb).1.parity = a.parity := rfl
  have hod1 : (dropMisaligned a b xa xb).1.oddpos = a.oddpos := rfl
  have hod2 : (dropMisaligned a b xa xb).2.oddpos = b.oddpos := rfl
  rw [hpar, hod1, hod2] at halig
  have oA := h.adjA.one
  have oB := h.adjB.one
  have nd1 : (FuseP.fusedArrM (FuseP.signAdj (dropMisaligned a b xa xb).1 [xa]) [xa]).ndim + xa.length
      = a.ndim + 1 := by
    obtain ⟨xI, _⟩ := signAdj_adj _ W0.va W0.fa h.adjA
    have hXn : (FuseP.signAdj (dropMisaligned a b xa xb).1 [xa]).ndim = a.ndim := by
      show (FuseP.signAdj (dropMisaligned a b xa xb).1 [xa]).indices.length = _
      rw [xI]; exact n1
    have oAX : OneOk (FuseP.signAdj (dropMisaligned a b xa xb).1 [xa]) xa :=
      ⟨oA.ne, oA.nd, by rw [hXn, ← n1]; exact oA.lt⟩
    rw [one_ndim oAX, one_ndimM oAX]
    have e1 := freeAxes_length W.nA W.ltA
    have e2 := congrArg List.length (one_free oAX)
    rw [hXn] at e2
    simp only [List.length_append, List.length_range] at e2
    omega
  have nd2 : (FuseP.fusedArrM (FuseP.signAdj (dropMisaligned a b xa xb).2 [xb]) [xb]).ndim + xb.length
      = b.ndim + 1 := by
    obtain ⟨yI, _⟩ := signAdj_adj _ W0.vb W0.fb h.adjB
    have hYn : (FuseP.signAdj (dropMisaligned a b xa xb).2 [xb]).ndim = b.ndim := by
      show (FuseP.signAdj (dropMisaligned a b xa xb).2 [xb]).indices.length = _
      rw [yI]; exact n2
    have oBX : OneOk (FuseP.signAdj (dropMisaligned a b xa xb).2 [xb]) xb :=
      ⟨oB.ne, oB.nd, by rw [hYn, ← n2]; exact oB.lt⟩
    rw [one_ndim oBX, one_ndimM oBX]
    have e1 := freeAxes_length W.nB W.ltB
    have e2 := congrArg List.length (one_free oBX)
    rw [hYn] at e2
    simp only [List.length_append, List.length_range] at e2
    omega
  refine ⟨_, _, f1, f2, W', nd1, nd2, ?_, ?_⟩
  · intro e he
    apply herr e
    rw [halig]; rw [horig] at he
    cases hm : OddposP.mergeOddpos a.parity a.oddpos b.oddpos with
    | error e' => rw [hm] at he; simp only [Except.map] at he ⊢; exact he
    | ok r => rw [hm] at he; simp only [Except.map] at he; cases he
  · intro c hc
    rw [horig] at hc
    cases hm : OddposP.mergeOddpos a.parity a.oddpos b.oddpos with
    | error e' => rw [hm] at hc; cases hc
    | ok r =>
    rw [hm] at hc halig
    simp only [Except.map, Except.ok.injEq] at hc
    obtain ⟨cf, k1, k2, k3, k4, k5, k6, kE⟩ := hok _ halig
    have F := coreT_frame_w a b xa xb W
    have F0 := coreT_frame_w _ _ xa xb W0
    obtain ⟨g1, g2, g3, g4, g5, g6⟩ := finish_fields (coreT a b xa xb) r
    obtain ⟨j1, j2, j3, j4, j5, j6⟩ := finish_fields
      (coreT (dropMisaligned a b xa xb).1 (dropMisaligned a b xa xb).2 xa xb) r
    rw [hc] at g1 g2 g3 g4 g5 g6
    refine ⟨cf, k1, ?_, ?_, ?_, ?_, ?_, ?_⟩
    · rw [k2, j6, g6]
    · rw [k3, j1, F0.charge, g1, F.charge]; rfl
    · rw [k4, j2, F0.sym, g2, F.sym]; rfl
    · rw [k5, j3, F0.fermi, g3, F.fermi]; rfl
    · rw [k6]
      show (finish _ r).indices.length = c.indices.length
      rw [j4, g4, F0.indices, F.indices, dropUnused_length, dropUnused_length,
        List.length_append, List.length_append, without_length, without_length, without_length,
        without_length]
      show (freeAxes (dropMisaligned a b xa xb).1.ndim xa).length
        + (freeAxes (dropMisaligned a b xa xb).2.ndim xb).length = _
      rw [n1, n2]; rfl
    · intro Ls Rs oL oR shpL shpR hshpL hboxL hshpR hboxR
      rw [← n1] at hshpL
      rw [← n2] at hshpR
      rw [kE Ls Rs oL oR shpL shpR hshpL hboxL hshpR hboxR]
      obtain ⟨bA, lA⟩ := box_of_parts hshpL hboxL hshpR hboxR
      -- the box of the aligned tables lies in the box of the original tables
      have hfr : List.Forall₂ SizeLe
          (without (dropMisaligned a b xa xb).1.indices xa ++ without (dropMisaligned a b xa xb).2.indices xb)
          (without a.indices xa ++ without b.indices xb) := by
        rw [without_eq_permuted_freeAxes, without_eq_permuted_freeAxes, without_eq_permuted_freeAxes,
          without_eq_permuted_freeAxes]
        have e1 : (dropMisaligned a b xa xb).1.indices.length = a.indices.length := n1
        have e2 : (dropMisaligned a b xa xb).2.indices.length = b.indices.length := n2
        rw [e1, e2]
        exact forall₂_append (forall₂_permuted (dropUnused_sizeLe _ _) _)
          (forall₂_permuted (dropUnused_sizeLe _ _) _)
      have ean : (dropMisaligned a b xa xb).1.indices.length = (dropMisaligned a b xa xb).1.ndim := rfl
      have ebn : (dropMisaligned a b xa xb).2.indices.length = (dropMisaligned a b xa xb).2.ndim := rfl
      have hsh : Arr.blockShape? (without (dropMisaligned a b xa xb).1.indices xa
          ++ without (dropMisaligned a b xa xb).2.indices xb) (Ls ++ Rs) = some (shpL ++ shpR) := by
        rw [without_eq_permuted_freeAxes, without_eq_permuted_freeAxes, ean, ebn]
        exact blockShape?_append hshpL hshpR
      have hsh' := blockShape?_weaken hfr _ _ hsh
      have bA' : inBox (Arr.blockShapeD (without a.indices xa ++ without b.indices xb) (Ls ++ Rs)) (oL ++ oR) = true := by
        unfold Arr.blockShapeD at bA ⊢
        rw [hsh] at bA; rw [hsh']; exact bA
      rw [n1] at lA
      rw [finish_elem _ _ (coreFrame_signOk F0), F0.elem _ _ _ (by rw [n1]; exact lA) bA,
        gradedContract_dropMisaligned a b xa xb W.va W.vb, ← hc, finish_elem _ _ (coreFrame_signOk F),
        F.elem _ _ _ lA bA']

end TdotP
end SymmModel
