/-
  SymmModel.Proofs.FuseCommuteG1 — C06, first clause, fermionic, ARBITRARY contracted groups (any
  positions, any order): the layout `before ++ group ++ after` of `_fuse_core`, the fermionic fuse
  sign of one arbitrary group in terms of the ORIGINAL sector, and the sign identity
    gradedSign A B xa xb sa sb = bondSign · fuseSignF A [xa] sa · fuseSignF B [xb] sb
  (`fuse_signs_compatible_gen`; `fuseSignF` contains the Koszul sign of the fuse's transposition,
  which cancels against the Koszul signs of the contraction).  Namespace `SymmModel.TdotP`.
-/
import SymmModel.Proofs.FuseCommuteF7

namespace SymmModel
namespace TdotP
open SymmModel.KoszulP SymmModel.Lazy SymmModel.GradedP SymmModel.RoutesP SymmModel.AssocP
variable {R : Type}
set_option linter.unusedSectionVars false

/-- positions of the group `g` after the transposition of `_fuse_core` -/
def newG (X : Arr R) (g : List Nat) : List Nat :=
  (List.range g.length).map (fun t => (FuseP.giM X [g]).position + t)

section layout
variable {X : Arr R} {g : List Nat}

theorem one_lengths (h : OneOk X g) :
    (FuseP.giM X [g]).position + g.length + (FuseP.giM X [g]).axesAfter.length = X.ndim := by
  have := FuseP.flatten_le (FuseP.hokD h.groupsOk)
  rw [FuseP.duals_length] at this
  simpa using this

theorem one_newGroupsF (h : OneOk X g) : FuseP.newGroupsF [g] X.duals = [newG X g] := by
  have hok := FuseP.hokD h.groupsOk
  have e : FuseP.newGroupsF [g] X.duals = [(FuseP.newGroupsF [g] X.duals).flatten] := by
    simp [FuseP.newGroupsF]
  rw [e, FuseP.newGroupsF_flatten hok]
  simp [newG]

theorem newG_length : (newG X g).length = g.length := by simp [newG]

theorem newG_lt (h : OneOk X g) : ∀ x ∈ newG X g, x < X.ndim := by
  intro x hx
  obtain ⟨t, ht, rfl⟩ := List.mem_map.mp hx
  have := List.mem_range.mp ht
  have := one_lengths h
  omega

/-- the three parts of a list read through the permutation of `_fuse_core` -/
theorem permuted_perm_parts (h : OneOk X g) {α : Type} (z : List α) (hz : z.length = X.ndim) :
    permuted z (FuseP.giM X [g]).perm
      = (permuted z (List.range (FuseP.giM X [g]).position) ++ permuted z g)
        ++ permuted z (FuseP.giM X [g]).axesAfter
    ∧ (permuted z (List.range (FuseP.giM X [g]).position)).length = (FuseP.giM X [g]).position
    ∧ (permuted z g).length = g.length
    ∧ (permuted z (FuseP.giM X [g]).axesAfter).length = (FuseP.giM X [g]).axesAfter.length := by
  have hl := one_lengths h
  refine ⟨by rw [one_perm h, ValidP.permuted_append, ValidP.permuted_append], ?_, ?_, ?_⟩
  · rw [permuted_length _ _ (by intro x hx; have := List.mem_range.mp hx; omega), List.length_range]
  · rw [permuted_length _ _ (by intro x hx; rw [hz]; exact h.lt x hx)]
  · rw [permuted_length _ _ (by intro x hx; rw [hz]; exact FuseP.afterM_lt x hx)]

/-- reading the new positions of the group gives the group's entries -/
theorem permuted_perm_newG (h : OneOk X g) {α : Type} (z : List α) (hz : z.length = X.ndim) :
    permuted (permuted z (FuseP.giM X [g]).perm) (newG X g) = permuted z g := by
  obtain ⟨e, l1, l2, _⟩ := permuted_perm_parts h z hz
  rw [e]
  generalize permuted z (List.range (FuseP.giM X [g]).position) = u at l1 ⊢
  generalize permuted z g = v at l2 ⊢
  generalize permuted z (FuseP.giM X [g]).axesAfter = w
  unfold newG
  have hf : (fun t => (FuseP.giM X [g]).position + t) = (fun t => u.length + t) := by
    funext t; rw [l1]
  have hr : List.range g.length = List.range v.length := by rw [l2]
  rw [hf, hr, permuted_append_of_lt (u ++ v) w _ (by
    intro i hi
    obtain ⟨t, ht, rfl⟩ := List.mem_map.mp hi
    have := List.mem_range.mp ht
    rw [List.length_append]; omega), permuted_append_map_add]
  exact TdotP.permuted_range v

theorem freeAxes_newG (h : OneOk X g) :
    freeAxes X.ndim (newG X g)
      = List.range (FuseP.giM X [g]).position
        ++ (List.range (FuseP.giM X [g]).axesAfter.length).map
            (fun j => (FuseP.giM X [g]).position + g.length + j) := by
  have hl := one_lengths h
  have hn : X.ndim = (FuseP.giM X [g]).position + (g.length + (FuseP.giM X [g]).axesAfter.length) := by omega
  unfold newG
  rw [hn, AssocP.freeAxes_shift, GradedP.freeAxes_range _ _ (by omega),
    GradedP.drop_range_eq_map _ _ (by omega), List.map_map]
  congr 1
  have : g.length + (FuseP.giM X [g]).axesAfter.length - g.length = (FuseP.giM X [g]).axesAfter.length := by omega
  rw [this]
  apply List.map_congr_left
  intro j _
  simp only [Function.comp]; omega

/-- reading the free positions after the transposition gives the free entries, in order -/
theorem permuted_perm_free (h : OneOk X g) {α : Type} (z : List α) (hz : z.length = X.ndim) :
    permuted (permuted z (FuseP.giM X [g]).perm) (freeAxes X.ndim (newG X g))
      = permuted z (freeAxes X.ndim g) := by
  obtain ⟨e, l1, l2, l3⟩ := permuted_perm_parts h z hz
  rw [freeAxes_newG h, one_free h, ValidP.permuted_append (l := z), e]
  generalize permuted z (List.range (FuseP.giM X [g]).position) = u at l1 ⊢
  generalize permuted z g = v at l2 ⊢
  generalize permuted z (FuseP.giM X [g]).axesAfter = w at l3 ⊢
  rw [ValidP.permuted_append]
  congr 1
  · have hr : List.range (FuseP.giM X [g]).position = List.range u.length := by rw [l1]
    rw [hr, permuted_append_of_lt (u ++ v) w _ (by
      intro i hi; have := List.mem_range.mp hi; rw [List.length_append]; omega),
      permuted_append_of_lt u v _ (by intro i hi; exact List.mem_range.mp hi)]
    exact TdotP.permuted_range u
  · have hf : (fun j => (FuseP.giM X [g]).position + g.length + j) = (fun j => (u ++ v).length + j) := by
      funext j; rw [List.length_append, l1, l2]
    have hr : List.range (FuseP.giM X [g]).axesAfter.length = List.range w.length := by rw [l3]
    rw [hf, hr, permuted_append_map_add]
    exact TdotP.permuted_range w

/-- entry `j` of the group after the transposition -/
theorem getD_perm_newG (h : OneOk X g) {α : Type} (z : List α) (hz : z.length = X.ndim) (j : Nat)
    (hj : j < g.length) (d : α) :
    (permuted z (FuseP.giM X [g]).perm).getD ((FuseP.giM X [g]).position + j) d = z.getD (g.getD j 0) d := by
  have h1 := congrArg (fun l => l.getD j d) (permuted_perm_newG h z hz)
  have hpl : (permuted z (FuseP.giM X [g]).perm).length = X.ndim := by
    rw [permuted_length _ _ (by
      intro x hx; rw [hz]
      exact (perm_range_mem_lt (one_perm_perm h) x hx)), (one_perm_perm h).length_eq, List.length_range]
  rw [getD_permuted_ax _ _ (by rw [hpl]; exact newG_lt h) j (by rw [newG_length]; exact hj),
    getD_permuted_ax z g (by rw [hz]; exact h.lt) j hj] at h1
  have e : (newG X g).getD j 0 = (FuseP.giM X [g]).position + j := by
    unfold newG
    rw [List.getD_eq_getElem?_getD, List.getElem?_map, List.getElem?_range hj]
    rfl
  rw [e] at h1
  exact h1

end layout

/-! ### the fermionic fuse sign of one arbitrary group -/

section sign
variable [Zero R] [Neg R] {X : Arr R} {g : List Nat}

theorem one_trIndices (X : Arr R) (g : List Nat) :
    (X.transposeF (calcFuseGroupInfo [g] X.duals).perm).indices
      = permuted X.indices (FuseP.giM X [g]).perm :=
  (Lazy.transposeF_frame X _).2.2.1

theorem newG_headD (h : OneOk X g) : (newG X g).headD 0 = (FuseP.giM X [g]).position := by
  have := h.ne
  unfold newG
  cases hg : g with
  | nil => exact absurd hg this
  | cons x xs => simp [List.range_succ_eq_map]

theorem one_dualSel (h : OneOk X g) :
    FuseP.dualSel X [g] (newG X g) = (X.indices.getD (g.headD 0) default).dual := by
  unfold FuseP.dualSel
  rw [one_trIndices, newG_headD h]
  have hk : 0 < g.length := by
    have := h.ne
    cases g with
    | nil => exact absurd rfl this
    | cons x xs => simp
  have := getD_perm_newG h X.indices rfl 0 hk default
  rw [Nat.add_zero] at this
  rw [this]
  congr 2
  cases g with
  | nil => simp at hk
  | cons x xs => rfl

/-- **the fermionic fuse sign of an arbitrary group, on the transposed sector of `s`** -/
theorem one_fuseSignT (h : OneOk X g) (s : Sector) (hs : s.length = X.ndim) :
    FuseP.fuseSignT X [g] (permuted s (FuseP.giM X [g]).perm)
      = if (X.indices.getD (g.headD 0) default).dual
        then sgn (ketOdd X g s) * sgn (oddContracted X g s * (oddContracted X g s - 1) / 2)
        else 1 := by
  have hok := h.groupsOk
  have hsel := one_dualSel h
  have hdg : FuseP.dualGroupsF X [g]
      = if (X.indices.getD (g.headD 0) default).dual then [newG X g] else [] := by
    rw [FuseP.dualGroupsF_eq, one_newGroupsF h]
    simp only [List.filter_cons, List.filter_nil, hsel]
  have hfl : FuseP.axesFlipF X [g]
      = if (X.indices.getD (g.headD 0) default).dual
        then (newG X g).filter (fun ax => !((permuted X.indices (FuseP.giM X [g]).perm).getD ax default).dual)
        else [] := by
    unfold FuseP.axesFlipF
    rw [hdg, one_trIndices]
    split <;> simp
  unfold FuseP.fuseSignT
  rw [hfl, hdg]
  by_cases hd : (X.indices.getD (g.headD 0) default).dual = true
  · simp only [hd, if_true, List.isEmpty_cons, Bool.false_eq_true, if_false]
    rw [flipSign_eq_pow, ← sgn_eq_pow, FuseP.koszul_vpermF X [g] hok, one_newGroupsF h]
    simp only [FuseP.revProd, hsel, hd, if_true, Int.mul_one]
    congr 1
    · -- the flipped legs
      congr 1
      unfold ketOdd newG
      conv_rhs => rw [list_eq_map_getD g]
      apply count_two_maps
      intro j hj
      constructor
      · rw [getD_perm_newG h X.indices rfl j hj]
      · rw [getD_perm_newG h s hs j hj]
    · -- the reversal sign
      unfold FuseP.revSign
      have hpl : (permuted s (FuseP.giM X [g]).perm).length = X.ndim := by
        rw [permuted_length _ _ (by
          intro x hx; rw [hs]
          exact (perm_range_mem_lt (one_perm_perm h) x hx)), (one_perm_perm h).length_eq, List.length_range]
      have : oddCount ((permuted s (FuseP.giM X [g]).perm).map X.sym.parity) (newG X g)
          = oddContracted X g s := by
        rw [oddCount_parities X.sym _ _ (by rw [hpl]; exact newG_lt h), permuted_perm_newG h s hs]
        rfl
      rw [this]
  · have hd' : (X.indices.getD (g.headD 0) default).dual = false := by simpa using hd
    simp only [hd', Bool.false_eq_true, if_false, List.isEmpty_nil, if_true, Int.mul_one]
    unfold Lazy.flipSign Lazy.flipOdd
    simp

/-- … and on the original sector: times the Koszul sign of the fuse's transposition -/
theorem one_fuseSignF (h : OneOk X g) (s : Sector) (hs : s.length = X.ndim) :
    FuseP.fuseSignF X [g] s
      = (if (X.indices.getD (g.headD 0) default).dual
          then sgn (ketOdd X g s) * sgn (oddContracted X g s * (oddContracted X g s - 1) / 2)
          else 1)
        * koszul (X.parities s) (some (FuseP.giM X [g]).perm) := by
  unfold FuseP.fuseSignF
  rw [one_fuseSignT h s hs]

end sign

/-! ### the sign identity for arbitrary groups -/

/-- **the fermionic fuse signs are contraction-compatible**, arbitrary contracted groups. -/
theorem fuse_signs_compatible_gen [Zero R] [Neg R] (A B : Arr R) {xa xb : List Nat} (hA : OneOk A xa)
    (hB : OneOk B xb) (hsym : A.sym = B.sym) (hlen : xa.length = xb.length)
    (hdual : (xb.map (fun ax => B.indices.getD ax default)).map Index.dual
      = (xa.map (fun ax => A.indices.getD ax default)).map (fun ix => !ix.dual))
    (sa sb : Sector) (hla : sa.length = A.ndim) (hlb : sb.length = B.ndim)
    (hK : permuted sb xb = permuted sa xa) :
    gradedSign A B xa xb sa sb
      = bondSign A.sym (A.indices.getD (xa.headD 0) default).dual (FuseP.giM A [xa]).position
          (FuseP.giM B [xb]).position (permuted sa (freeAxes A.ndim xa)) (permuted sb (freeAxes B.ndim xb))
          (oddContracted A xa sa)
        * FuseP.fuseSignF A [xa] sa * FuseP.fuseSignF B [xb] sb := by
  have hlA : ∀ i ∈ xa, i < sa.length := by intro i hi; rw [hla]; exact hA.lt i hi
  have hlB : ∀ i ∈ xb, i < sb.length := by intro i hi; rw [hlb]; exact hB.lt i hi
  have hPA := one_pos_lt hA
  have hPB := one_pos_lt hB
  have hAr : ∀ i ∈ List.range (FuseP.giM A [xa]).position, i < sa.length := by
    intro i hi; have := List.mem_range.mp hi; omega
  have hBr : ∀ i ∈ List.range (FuseP.giM B [xb]).position, i < sb.length := by
    intro i hi; have := List.mem_range.mp hi; omega
  have hAa : ∀ i ∈ (FuseP.giM A [xa]).axesAfter, i < sa.length := by
    intro i hi; rw [hla]; exact FuseP.afterM_lt i hi
  have hkk := ketOdd_add A B xa xb sa sb hsym hlen hlA hlB hK hdual
  have hdB : (B.indices.getD (xb.headD 0) default).dual = !(A.indices.getD (xa.headD 0) default).dual := by
    have hxa := hA.ne
    have hxb := hB.ne
    match xa, xb, hxa, hxb, hdual with
    | i :: _, j :: _, _, _, hdual =>
      simp only [List.map_cons, List.cons.injEq] at hdual
      exact hdual.1
  have hmB : oddContracted B xb sb = oddContracted A xa sa := by
    rw [oddContracted_eq, oddContracted_eq, hK, hsym]
  unfold gradedSign
  rw [koszul_left_one hA, koszul_right_one hB, one_fuseSignF hA sa hla, one_fuseSignF hB sb hlb, hdB, hmB,
    ← sgn_eq_pow, ← sgn_eq_pow,
    oddCount_arr A sa xa hlA, oddCount_arr A sa _ hAa, oddCount_arr B sb _ hBr,
    oddCount_arr B sb xb hlB, hK, ← hsym, ← oddContracted_eq A xa sa]
  have eL : (permuted sa (freeAxes A.ndim xa)).drop (FuseP.giM A [xa]).position
      = permuted sa (FuseP.giM A [xa]).axesAfter := by
    rw [one_free hA, ValidP.permuted_append]
    exact List.drop_left' (by rw [permuted_length _ _ hAr, List.length_range])
  have eR : (permuted sb (freeAxes B.ndim xb)).take (FuseP.giM B [xb]).position
      = permuted sb (List.range (FuseP.giM B [xb]).position) := by
    rw [one_free hB, ValidP.permuted_append]
    exact List.take_left' (by rw [permuted_length _ _ hBr, List.length_range])
  unfold bondSign
  rw [eL, eR]
  generalize oddContracted A xa sa = m at hkk ⊢
  generalize ketOdd A xa sa = kA at hkk ⊢
  generalize ketOdd B xb sb = kB at hkk ⊢
  generalize sgn (m * oddIn A.sym (permuted sa (FuseP.giM A [xa]).axesAfter)) = u
  generalize sgn (oddIn A.sym (permuted sb (List.range (FuseP.giM B [xb]).position)) * m) = v
  generalize sgn (m * (m - 1) / 2) = t
  generalize koszul (A.parities sa) (some (FuseP.giM A [xa]).perm) = ka
  generalize koszul (B.parities sb) (some (FuseP.giM B [xb]).perm) = kb
  cases (A.indices.getD (xa.headD 0) default).dual
  · simp only [Bool.false_eq_true, if_false, Bool.not_false, if_true]
    have hs : sgn m * sgn kB = sgn kA := by
      rw [← hkk, sgn_add, Int.mul_assoc, sgn_mul_self, Int.mul_one]
    rw [← hs]; ring
  · simp only [if_true, Bool.not_true, Bool.false_eq_true, if_false]
    ring

end TdotP
end SymmModel
