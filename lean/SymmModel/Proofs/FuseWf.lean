/-
  SymmModel.Proofs.FuseWf — target 3 of property C05: the sub-index table produced by
  `calcFuseBlockInfo` is well formed (`Index.wfB`) and canonical (sub-sectors of every extent in
  strictly increasing `sectorLt` order).
-/
import SymmModel.Proofs.FusePlan
namespace SymmModel
namespace FuseP
set_option linter.unusedSectionVars false

/-- an entry `(ss, c, d)` is consistent with the sub-indices `subs` fused in direction `gdual` -/
def EntryOk (sym : Sym) (gdual : Bool) (subs : List Index) (x : Sector × Charge × Nat) : Prop :=
  x.1.length = subs.length ∧ (∃ shp, Arr.blockShape? subs x.1 = some shp ∧ prod shp = x.2.2)
    ∧ sym.combine (List.zipWith (fun c' (sub : Index) => sym.sign c' (gdual != sub.dual)) x.1 subs) = x.2.1
    ∧ 0 < x.2.2

theorem sumN_pos {l : List Nat} (hne : l ≠ []) (h : ∀ d ∈ l, 0 < d) : 0 < sumN l := by
  cases l with
  | nil => exact absurd rfl hne
  | cons d ds => have := h d (by simp); simp only [sumN]; omega

theorem mem_sel {l : List (Sector × Charge × Nat)} {c : Charge} {ss : Sector} {d : Nat} :
    (ss, d) ∈ sel l c ↔ (ss, c, d) ∈ l := by
  simp only [sel, List.mem_map, List.mem_filter, beq_iff_eq]
  constructor
  · rintro ⟨x, ⟨hx, hc⟩, he⟩
    obtain ⟨a, b, e⟩ := x
    simp only [Prod.mk.injEq] at he hc
    obtain ⟨rfl, rfl⟩ := he; subst hc; exact hx
  · intro h; exact ⟨(ss, c, d), ⟨h, rfl⟩, rfl⟩

theorem sel_keys_nodup {l : List (Sector × Charge × Nat)} (h : (l.map (·.1)).Nodup) (c : Charge) :
    ((sel l c).map (·.1)).Nodup := by
  simp only [sel, List.map_map]
  have : ((fun x : Sector × Nat => x.1) ∘ fun x : Sector × Charge × Nat => (x.1, x.2.2)) = (·.1) := rfl
  rw [this]
  exact h.sublist (List.filter_sublist.map _)

theorem sel_keys_pairwise {l : List (Sector × Charge × Nat)}
    (h : l.Pairwise (fun x y => sectorLt x.1 y.1 = true)) (c : Charge) :
    ((sel l c).map (·.1)).Pairwise (fun a b => sectorLt a b = true) := by
  simp only [sel, List.map_map, List.pairwise_map]
  exact List.Pairwise.filter _ h

/-- what the invariant of `accumExtents` says about one chargemap entry -/
theorem accInv_cm_entry {l : List (Sector × Charge × Nat)} {cmap : List (Charge × Nat)} {ext : Extents}
    (hinv : AccInv l (cmap, ext)) {c : Charge} {d : Nat} (h : (c, d) ∈ cmap) :
    alookup ext c = some (sel l c) ∧ sel l c ≠ [] ∧ sumN ((sel l c).map (·.2)) = d := by
  have hk : (cmap.map (·.1)).Nodup := by have := hinv.keys; simp only at this; rw [this]; exact hinv.nodup
  have h1 := alookup_of_mem_nodup hk h
  have h2 := hinv.cm c
  have h3 := hinv.ext c
  simp only at h2 h3
  rw [h1] at h2
  split at h3
  · rw [h3] at h2; simp at h2
  · rename_i hne
    rw [h3] at h2
    simp only [Option.map_some, Option.some.injEq] at h2
    exact ⟨h3, hne, h2.symm⟩

theorem accInv_ext_entry {l : List (Sector × Charge × Nat)} {cmap : List (Charge × Nat)} {ext : Extents}
    (hinv : AccInv l (cmap, ext)) {c : Charge} {e : Extent} (h : alookup ext c = some e) :
    e = sel l c ∧ e ≠ [] := by
  have h3 := hinv.ext c
  simp only at h3
  rw [h] at h3
  split at h3
  · cases h3
  · rename_i hne; simp only [Option.some.injEq] at h3; subst h3; exact ⟨rfl, hne⟩

section Wf
variable (sym : Sym) (gdual : Bool) (subs : List Index) (entries : List (Sector × Charge × Nat))

/-- the canonical list of entries the table is built from -/
def sortedEntries : List (Sector × Charge × Nat) :=
  isort (fun x y => sectorLt x.1 y.1) (adict entries)

theorem sortedEntries_nodup : ((sortedEntries entries).map (·.1)).Nodup :=
  ((isort_perm _ _).map _).nodup_iff.2 (adict_keys_nodup _)

theorem sortedEntries_pairwise :
    (sortedEntries entries).Pairwise (fun x y => sectorLt x.1 y.1 = true) :=
  isort_pairwise (fun x : Sector × Charge × Nat => x.1) sectorLt sectorLt_trans sectorLt_tri _
    (adict_keys_nodup _)

theorem mem_sortedEntries {x : Sector × Charge × Nat} (h : x ∈ sortedEntries entries) : x ∈ entries :=
  mem_adict (mem_isort.1 h)

theorem mem_keys_sortedEntries {ss : Sector} :
    ss ∈ (sortedEntries entries).map (·.1) ↔ ss ∈ entries.map (·.1) := by
  rw [← mem_keys_adict (ps := entries)]
  exact ((isort_perm _ _).map _).mem_iff

theorem fusedIndexOf_eq :
    fusedIndexOf entries gdual subs = Index.mk (Index.sortCm (accumExtents (sortedEntries entries)).1) gdual
      (some (subs, (accumExtents (sortedEntries entries)).2)) := rfl

/-- **table well-formedness**, generic form: whatever entries are collected, if each is consistent
    with the sub-indices then the fused index is well formed -/
theorem fusedIndexOf_wf (hsubs : Index.wfListB sym subs = true)
    (hE : ∀ x ∈ entries, EntryOk sym gdual subs x) :
    Index.wfB sym (fusedIndexOf entries gdual subs) = true := by
  rw [fusedIndexOf_eq]
  have hnd := sortedEntries_nodup entries
  have hmem : ∀ x ∈ sortedEntries entries, EntryOk sym gdual subs x :=
    fun x hx => hE x (mem_sortedEntries entries hx)
  have hinv := accumExtents_inv _ hnd
  generalize sortedEntries entries = l at hnd hmem hinv ⊢
  generalize hst : accumExtents l = st at hinv ⊢
  obtain ⟨cmap, ext⟩ := st
  simp only
  have hk : (cmap.map (·.1)).Nodup := by have := hinv.keys; simp only at this; rw [this]; exact hinv.nodup
  have hcm : ∀ p ∈ Index.sortCm cmap, p ∈ cmap := fun p hp => mem_isort.1 hp
  rw [Index.wfB.eq_def]
  simp only [Bool.and_eq_true, List.all_eq_true, decide_eq_true_eq]
  refine ⟨⟨?_, ?_⟩, ⟨⟨⟨hsubs, ?_⟩, ?_⟩, ?_⟩⟩
  · apply isSortedStrict_of_pairwise
    rw [List.pairwise_map]
    exact isort_pairwise (fun x : Charge × Nat => x.1) Charge.lt chargeLt_trans chargeLt_tri _ hk
  · intro p hp
    obtain ⟨c, d⟩ := p
    obtain ⟨h1, h2, h3⟩ := accInv_cm_entry hinv (hcm _ hp)
    simp only
    constructor
    · rw [← h3]
      apply sumN_pos (by simpa using h2)
      intro d' hd'
      obtain ⟨⟨ss, d''⟩, hx, rfl⟩ := List.mem_map.1 hd'
      exact (hmem _ (mem_sel.1 hx)).2.2.2
    · cases hs : sel l c with
      | nil => exact absurd hs h2
      | cons x xs =>
        obtain ⟨ss, d'⟩ := x
        have hx : (ss, d') ∈ sel l c := by rw [hs]; simp
        have := (hmem _ (mem_sel.1 hx)).2.2.1
        simp only at this
        rw [← this]; exact Sym.combine_valid _ _
  · exact (allDistinct_iff _).2 hinv.nodup
  · intro p hp
    obtain ⟨c, d⟩ := p
    obtain ⟨h1, h2, h3⟩ := accInv_cm_entry hinv (hcm _ hp)
    simp only [h1, extentOk, Bool.and_eq_true, beq_iff_eq, List.all_eq_true]
    refine ⟨⟨h3, (allDistinct_iff _).2 (sel_keys_nodup hnd c)⟩, ?_⟩
    intro x hx
    obtain ⟨ss, d'⟩ := x
    obtain ⟨e1, ⟨shp, e2, e3⟩, e4, _⟩ := hmem _ (mem_sel.1 hx)
    simp only at e1 e2 e3 e4 ⊢
    simp [e1, e2, e3, e4]
  · intro p hp
    obtain ⟨c, e⟩ := p
    simp only
    rw [alookup_isSome_iff]
    have : c ∈ ext.map (·.1) := List.mem_map.2 ⟨(c, e), hp, rfl⟩
    have hkeys := hinv.keys
    simp only at hkeys
    rw [← hkeys] at this
    exact ((isort_perm _ _).map _).mem_iff.2 this

/-- **canonical order**: every extent of the produced table lists its sub-sectors in strictly
    increasing `sectorLt` order -/
theorem fusedIndexOf_sorted {c : Charge} {e : Extent}
    (h : alookup (accumExtents (sortedEntries entries)).2 c = some e) :
    isSortedStrict sectorLt (e.map (·.1)) = true := by
  have hinv := accumExtents_inv _ (sortedEntries_nodup entries)
  generalize hst : accumExtents (sortedEntries entries) = st at hinv h
  obtain ⟨cmap, ext⟩ := st
  obtain ⟨rfl, _⟩ := accInv_ext_entry hinv h
  exact isSortedStrict_of_pairwise (sel_keys_pairwise (sortedEntries_pairwise entries) c)

/-- every collected entry can be found in the table: under its charge, with its size -/
theorem fusedIndexOf_complete (hfun : ∀ x ∈ entries, ∀ y ∈ entries, x.1 = y.1 → x = y)
    {ss : Sector} {c : Charge} {d : Nat} (h : (ss, c, d) ∈ entries) :
    ∃ e D, alookup (accumExtents (sortedEntries entries)).2 c = some e ∧ (ss, d) ∈ e
      ∧ (e.map (·.1)).Nodup ∧ alookup (Index.sortCm (accumExtents (sortedEntries entries)).1) c = some D
      ∧ sumN (e.map (·.2)) = D := by
  have hnd := sortedEntries_nodup entries
  have hinv := accumExtents_inv _ hnd
  have hin : (ss, c, d) ∈ sortedEntries entries := by
    have hk : ss ∈ (sortedEntries entries).map (·.1) :=
      (mem_keys_sortedEntries entries).2 (List.mem_map.2 ⟨_, h, rfl⟩)
    obtain ⟨y, hy, hy1⟩ := List.mem_map.1 hk
    have := hfun _ (mem_sortedEntries entries hy) _ h hy1
    rw [← this]; exact hy
  generalize hst : accumExtents (sortedEntries entries) = st at hinv
  obtain ⟨cmap, ext⟩ := st
  have hsel : (ss, d) ∈ sel (sortedEntries entries) c := mem_sel.2 hin
  have hne : sel (sortedEntries entries) c ≠ [] := by
    intro h0; rw [h0] at hsel; simp at hsel
  have he := hinv.ext c
  simp only [hne, if_false] at he
  have hc := hinv.cm c
  simp only [he, Option.map_some] at hc
  have hk : (cmap.map (·.1)).Nodup := by have := hinv.keys; simp only at this; rw [this]; exact hinv.nodup
  refine ⟨_, _, he, hsel, sel_keys_nodup hnd c, ?_, rfl⟩
  have hmemc := alookup_some_mem hc
  apply alookup_of_mem_nodup
  · exact ((isort_perm _ _).map _).nodup_iff.2 hk
  · exact mem_isort.2 hmemc

end Wf

end FuseP
end SymmModel
