/-
  SymmModel.Proofs.Fuse5Conj2 — `conj` commutes with `fuse` (insert strategy, arbitrary groups, any
  depth of previously fused indices): `fuse (conj a) groups = conj (fuse a groups)` exactly —
  conjugated blocks, index tables with every direction flipped (recursively), same extents.
-/
import SymmModel.Proofs.Fuse5Conj1
import SymmModel.Proofs.ValidOps
namespace SymmModel
namespace FuseP
set_option linter.unusedSectionVars false
open SymmModel.LinalgLemmas SymmModel.Lazy

variable {R : Type} [Zero R] [Neg R] [Conj R] [LawfulNegConj R]

/-! ### kernels and conjugation -/

theorem conjK_ofFn (s : List Nat) (f : List Nat → R) :
    (Blk.ofFn s f).conjK = Blk.ofFn s (fun i => Conj.conj (f i)) := by
  simp [Blk.conjK, Blk.map, Blk.ofFn, List.map_map, Function.comp]

theorem conjK_shape (b : Blk R) : b.conjK.shape = b.shape := rfl

theorem conjK_zeros (s : List Nat) : (Blk.zeros s : Blk R).conjK = Blk.zeros s := by
  unfold Blk.zeros
  rw [conjK_ofFn]
  exact ofFn_congr (fun _ _ => LawfulNegConj.conj_zero)

theorem conjK_transposeK (b : Blk R) (perm : List Nat) : (b.conjK).transposeK perm = (b.transposeK perm).conjK := by
  unfold Blk.transposeK
  rw [conjK_ofFn, conjK_shape]
  exact ofFn_congr (fun i _ => Blk.get_conjK b _)

theorem conjK_reshapeK (b : Blk R) (s : List Nat) : (b.conjK).reshapeK s = (b.reshapeK s).conjK := rfl

theorem conjK_setSliceK (dest src : Blk R) (starts : List Nat) :
    (dest.conjK).setSliceK starts src.conjK = (dest.setSliceK starts src).conjK := by
  unfold Blk.setSliceK
  rw [conjK_ofFn, conjK_shape, conjK_shape]
  apply ofFn_congr
  intro i _
  simp only
  split
  · exact Blk.get_conjK src _
  · exact Blk.get_conjK dest _

/-! ### the insertion fold -/

def cjBlk (p : Sector × Blk R) : Sector × Blk R := (p.1, p.2.conjK)
def cjItem (it : Item R) : Item R := (it.1, it.2.1, it.2.2.conjK)

theorem alookup_map_cj (l : List (Sector × Blk R)) (k : Sector) :
    alookup (l.map cjBlk) k = (alookup l k).map Blk.conjK := by
  induction l with
  | nil => rfl
  | cons p l ih =>
    obtain ⟨a, b⟩ := p
    simp only [List.map_cons, cjBlk, alookup_cons]
    split
    · rfl
    · exact ih

theorem ainsert_map_cj (l : List (Sector × Blk R)) (k : Sector) (v : Blk R) :
    ainsert (l.map cjBlk) k v.conjK = (ainsert l k v).map cjBlk := by
  induction l with
  | nil => rfl
  | cons p l ih =>
    obtain ⟨a, b⟩ := p
    simp only [List.map_cons, cjBlk, ainsert]
    split
    · rfl
    · simp only [List.map_cons, cjBlk]; rw [← ih]

theorem insStep_cj (shapeOf : Sector → List Nat) (acc : List (Sector × Blk R)) (it : Item R) :
    insStep shapeOf (acc.map cjBlk) (cjItem it) = (insStep shapeOf acc it).map cjBlk := by
  obtain ⟨k, st, src⟩ := it
  simp only [insStep, cjItem, alookup_map_cj]
  rw [← ainsert_map_cj]
  congr 1
  cases alookup acc k with
  | none => simp only [Option.map_none, Option.getD_none]; rw [← conjK_setSliceK, conjK_zeros]
  | some t => simp only [Option.map_some, Option.getD_some]; rw [conjK_setSliceK]

theorem insFold_cj (shapeOf : Sector → List Nat) (items : List (Item R)) :
    insFold shapeOf (items.map cjItem) = (insFold shapeOf items).map cjBlk := by
  unfold insFold
  suffices h : ∀ acc : List (Sector × Blk R),
      (items.map cjItem).foldl (insStep shapeOf) (acc.map cjBlk) = (items.foldl (insStep shapeOf) acc).map cjBlk from
    h []
  induction items with
  | nil => intro acc; rfl
  | cons it items ih =>
    intro acc
    simp only [List.map_cons, List.foldl_cons]
    rw [insStep_cj, ih]

/-! ### the fused array of `conj a` -/

section Arr
variable {a : Arr R} {groups : List (List Nat)}

theorem conjA_fields (a : Arr R) :
    a.conjA.sym = a.sym ∧ a.conjA.indices = a.indices.map Index.conj ∧ a.conjA.blocks = a.blocks.map cjBlk
      ∧ a.conjA.duals = (conjIdx a).duals ∧ a.conjA.ndim = a.ndim := by
  refine ⟨rfl, rfl, ?_, rfl, by simp [Arr.conjA, Arr.ndim]⟩
  simp only [Arr.conjA]
  apply List.map_congr_left
  intro p _; obtain ⟨s, b⟩ := p; rfl

theorem planM_conjA (hok : GroupsOk groups a.ndim) (sb : Sector × Blk R) :
    planM a.conjA groups (cjBlk sb) = planM a groups sb := by
  have := planOf_conj (a := a) hok sb.1 sb.2.shape
  simp only [planM, cjBlk, conjK_shape]
  exact this

theorem blockmapOf_conjA (hok : GroupsOk groups a.ndim) : blockmapOf a.conjA groups = blockmapOf a groups := by
  simp only [blockmapOf, (conjA_fields a).2.2.1, List.map_map]
  apply List.map_congr_left
  intro sb _
  exact congrArg (Prod.mk sb.1) (planOf_conj hok sb.1 sb.2.shape)

theorem newIdxM_conjA (hok : GroupsOk groups a.ndim) :
    newIdxM a.conjA groups = (newIdxM a groups).map Index.conj := by
  rw [← newIdxM_conj hok]
  simp only [newIdxM, fuseInfoOf, newMidOf, blockmapOf_conjA hok, blockmapOf_conj hok]
  rfl

theorem shapeOfM_conjA (hok : GroupsOk groups a.ndim) (ns : Sector) :
    shapeOfM a.conjA groups ns = shapeOfM a groups ns := by
  simp only [shapeOfM, newIdxM_conjA hok, ← conjList_eq_map, blockShape?_conjList]

theorem ixM_conjA (hok : GroupsOk groups a.ndim) {g : Nat} (hg : g < groups.length) :
    ixM a.conjA groups g = (ixM a groups g).conj := by
  have hpos : (giM a.conjA groups).position = (giM a groups).position := (gi_conj (a := a) hok).1
  have hlt : (giM a groups).position + g < (newIdxM a groups).length := by
    rw [newIdxM_length hok]; simp only [ndimM]; omega
  simp only [ixM, newIdxM_conjA hok, hpos]
  exact getD_map_conj _ hlt

theorem extsM_conjA (hok : GroupsOk groups a.ndim) {g : Nat} (hg : g < groups.length) :
    extsM a.conjA groups g = extsM a groups g := by
  simp only [extsM, ixM_conjA hok hg]
  generalize ixM a groups g = ix
  obtain ⟨c, d, s⟩ := ix
  cases s with
  | none => rfl
  | some q => obtain ⟨subs, e⟩ := q; rfl

theorem toItemM_conjA (hok : GroupsOk groups a.ndim) (sb : Sector × Blk R) :
    toItemM a.conjA groups (cjBlk sb) = cjItem (toItemM a groups sb) := by
  have hgi := gi_conj (a := a) hok
  have hpl := planM_conjA hok sb
  have hnd : ndimM a.conjA groups = ndimM a groups := by
    simp only [ndimM]
    rw [show (giM a.conjA groups).position = (giM a groups).position from hgi.1,
      show (giM a.conjA groups).axesAfter = (giM a groups).axesAfter from hgi.2.2.2.1]
  simp only [toItemM, cjItem, hpl]
  refine Prod.ext rfl (Prod.ext ?_ ?_)
  · -- the start offsets
    simp only [startsM, hnd]
    apply List.map_congr_left
    intro ax hax
    simp only [List.mem_range] at hax
    have hpos : (giM a.conjA groups).position = (giM a groups).position := hgi.1
    have hmul : axMulti a.conjA groups ax = axMulti a groups ax := by simp only [axMulti, hpos]
    simp only [startM, hmul]
    split
    · rename_i hm
      obtain ⟨g, hg, rfl, _⟩ := axMulti_cases hm
      simp only [hpos, Nat.add_sub_cancel_left, extsM_conjA hok hg, cM, ssM, hpl]
    · rfl
  · simp only [cjBlk]
    rw [conjK_transposeK, conjK_reshapeK,
      show (giM a.conjA groups).perm = (giM a groups).perm from hgi.2.1]

theorem fusedBlocksM_conjA (hok : GroupsOk groups a.ndim) :
    fusedBlocksM a.conjA groups = (fusedBlocksM a groups).map cjBlk := by
  have hs : shapeOfM a.conjA groups = shapeOfM a groups := funext (shapeOfM_conjA hok)
  simp only [fusedBlocksM, hs, (conjA_fields a).2.2.1, List.map_map]
  rw [← insFold_cj, List.map_map]
  congr 1
  apply List.map_congr_left
  intro sb _
  exact toItemM_conjA hok sb

/-- **fuse ∘ conj = conj ∘ fuse** -/
theorem fusedArrM_conjA (hok : GroupsOk groups a.ndim) :
    fusedArrM a.conjA groups = (fusedArrM a groups).conjA := by
  have h1 := newIdxM_conjA (a := a) hok
  have h2 := fusedBlocksM_conjA (a := a) hok
  unfold fusedArrM
  rw [h1, h2]
  rfl

end Arr

end FuseP
end SymmModel
