/-
  SymmModel.Proofs.Net4Exch — EXCHANGE of two neighbouring operands of a contraction sequence:
  for three pieces `X, Y, Z` with a (possibly empty) bond between every pair,
  `(X·Z)·Y`, fermionically transposed by an explicit permutation, is `Eqv` to `(X·Y)·Z`.
  Proof: S5 (`swap_eqv`) at the root, S7 (`assoc_eqv_w`) for `(Z, X, Y)`, S5 for `Z·X`, congruence,
  S6 as an equivalence (`pre_eqv`), congruence and composition of `transposeF`, S4.
  Namespace `SymmModel.Net4P`.
-/
import SymmModel.Proofs.Net4Pre
import SymmModel.Proofs.Net4K4
import SymmModel.Proofs.NormNet24

namespace SymmModel
namespace Net4P
open TdotP GradedP RoutesP KoszulP OddposP AssocP Assoc2P Assoc3P Assoc4P Assoc5P
open Lazy (sgnI)
set_option linter.unusedSectionVars false

variable {R : Type}

/-- re-listing a two-block axis list along the rotation of the two free blocks -/
theorem permuted_rotB_axes (nR nL : Nat) (u v : List Nat) (hu : ∀ i ∈ u, i < nL)
    (hv : ∀ i ∈ v, i < nR) :
    permuted (rotB nR nL) (u ++ v.map (nL + ·)) = u.map (nR + ·) ++ v := by
  unfold rotB
  have hlen : ((List.range nL).map (nR + ·)).length = nL := by simp
  rw [ValidP.permuted_append]
  congr 1
  · rw [permuted_append_of_lt _ _ u (by rw [hlen]; exact hu), ← permuted_map,
      permuted_range_left nL u hu]
  · have := permuted_append_map_add ((List.range nL).map (nR + ·)) (List.range nR) v
    rw [hlen] at this
    rw [this, permuted_range_left nR v hv]

section
variable [AddCommMonoid R] [Mul R] [Neg R] [SignRing R]

theorem AdmW.comm {a b : Arr R} {x1 x2 y1 y2 : List Nat} (hl : x1.length = y1.length)
    (h : AdmW a b (x1 ++ x2) (y1 ++ y2)) : AdmW a b (x2 ++ x1) (y2 ++ y1) := by
  have hl2 : x2.length = y2.length := by
    have := h.len
    rw [List.length_append, List.length_append] at this
    omega
  have key := AdmW.relist h (π := (List.range x2.length).map (x1.length + ·) ++ List.range x1.length) (by
      rw [List.length_append, List.range_add]
      exact List.perm_append_comm)
  have e1 := Assoc5P.permuted_rotB x1 x2
  have e2 := Assoc5P.permuted_rotB y1 y2
  unfold Assoc5P.rotB at e1 e2
  rw [← hl, ← hl2] at e2
  rw [e1, e2] at key
  exact key

end

/-- the permutation of the exchange: `fX + fZ` the rank of `X·Z`, `xa` the legs of `X·Z` bonded to `Y`
    (listed `Z`'s first), `xa'` the same legs in `Z·X`, `rot2` the rotation `X·Z → Z·X`, `nY` the free rank of `Y`, and `rot1` the
    rotation at the root -/
def exchP (fX fZ nY' nZ' nXY : Nat) (xa xa' : List Nat) : List Nat :=
  compose
    (blockP (positions (freeAxes (fX + fZ) xa) (permuted (rotB fX fZ) (freeAxes (fX + fZ) xa')))
      (freeAxes (fX + fZ) xa).length nY')
    (rotB nZ' nXY)

section
variable [AddCommMonoid R] [Mul R] [Neg R] [SignRing R] [AssocLaws R]

/-- **exchange.**  `X, Y, Z` valid fermionic, bonds `xy ~ yx`, `xz ~ zx`, `yz ~ zy` (weak guards,
    possibly empty), distinct labels, commutative scalars. -/
theorem exchange (hmul : ∀ x y : R, x * y = y * x) (X Y Z : Arr R) (xy xz yx yz zx zy : List Nat)
    (WXY : AdmW X Y xy yx) (WXZ : AdmW X Z xz zx) (WYZ : AdmW Y Z yz zy)
    (mX : Mid X.ndim xy xz) (mY : Mid Y.ndim yx yz) (mZ : Mid Z.ndim zx zy)
    (hd : OddposP.LabelsDistinct (X.oddpos ++ Y.oddpos ++ Z.oddpos)) :
    ∃ XY XZ c1 c : Arr R,
      tdF X Y xy yx = .ok XY
      ∧ tdF XY Z (Assoc2P.axesAB X.ndim Y.ndim xy xz yx yz) (zx ++ zy) = .ok c1
      ∧ tdF X Z xz zx = .ok XZ
      ∧ tdF XZ Y (Assoc2P.axesAB X.ndim Z.ndim xz xy zx zy) (yx ++ yz) = .ok c
      ∧ c1.validB = true ∧ c.validB = true
      ∧ Arr.isPerm (exchP (freeAxes X.ndim xz).length (freeAxes Z.ndim zx).length
            (freeAxes Y.ndim (yz ++ yx)).length (freeAxes Z.ndim (zx ++ zy)).length
            (freeAxes XY.ndim (Assoc2P.axesAB X.ndim Y.ndim xy xz yx yz)).length
            ((positions (freeAxes Z.ndim zx) zy).map ((freeAxes X.ndim xz).length + ·)
              ++ positions (freeAxes X.ndim xz) xy)
            (Assoc2P.axesAB Z.ndim X.ndim zx zy xz xy)) c.ndim = true
      ∧ Eqv (c.transposeF (exchP (freeAxes X.ndim xz).length (freeAxes Z.ndim zx).length
            (freeAxes Y.ndim (yz ++ yx)).length (freeAxes Z.ndim (zx ++ zy)).length
            (freeAxes XY.ndim (Assoc2P.axesAB X.ndim Y.ndim xy xz yx yz)).length
            ((positions (freeAxes Z.ndim zx) zy).map ((freeAxes X.ndim xz).length + ·)
              ++ positions (freeAxes X.ndim xz) xy)
            (Assoc2P.axesAB Z.ndim X.ndim zx zy xz xy))) c1 := by
  -- labels
  have hdXY : OddposP.LabelsDistinct (X.oddpos ++ Y.oddpos) := (List.pairwise_append.1 hd).1
  have hd' : OddposP.LabelsDistinct (X.oddpos ++ (Y.oddpos ++ Z.oddpos)) := by
    rw [← List.append_assoc]; exact hd
  have hdXZ : OddposP.LabelsDistinct (X.oddpos ++ Z.oddpos) :=
    List.Pairwise.sublist ((List.Sublist.refl _).append (List.sublist_append_right _ _)) hd'
  have hdZX : OddposP.LabelsDistinct (Z.oddpos ++ X.oddpos) :=
    OddposP.LabelsDistinct.perm hdXZ List.perm_append_comm
  have hdZXY : OddposP.LabelsDistinct (Z.oddpos ++ X.oddpos ++ Y.oddpos) :=
    OddposP.LabelsDistinct.perm hd (by
      rw [List.append_assoc Z.oddpos]; exact List.perm_append_comm)
  -- triples
  have TXYZ : TriW X Y Z xy xz yx yz zy zx := ⟨WXY, WYZ, mX, mY, mZ.symm, WXZ.con⟩
  have TXZY : TriW X Z Y xz xy zx zy yz yx := ⟨WXZ, admW_swap WYZ, mX.symm, mZ, mY.symm, WXY.con⟩
  have TZXY : TriW Z X Y zx zy xz xy yx yz :=
    ⟨admW_swap WXZ, WXY, mZ, mX.symm, mY, (admW_swap WYZ).con⟩
  -- first-level calls
  obtain ⟨XY, _, eXY, IXY, pXY⟩ := call_pack X Y xy yx WXY hdXY
  obtain ⟨XZ, _, eXZ, IXZ, pXZ⟩ := call_pack X Z xz zx WXZ hdXZ
  obtain ⟨ZX, _, eZX, IZX, pZX⟩ := call_pack Z X zx xz (admW_swap WXZ) hdZX
  -- (X·Y)·Z
  have W1 := admW_left_w IXY TXYZ
  have hd1 : OddposP.LabelsDistinct (XY.oddpos ++ Z.oddpos) :=
    OddposP.LabelsDistinct.perm hd (pXY.symm.append_right _)
  obtain ⟨c1, _, ec1, Ic1, _⟩ := call_pack XY Z _ _ W1 hd1
  -- root swap
  obtain ⟨d1, ed1, vd1, _, hE1⟩ := swap_eqv hmul W1 hd1 c1 ec1
  -- S7 for (Z, X, Y)
  obtain ⟨ZX0, XY0, c1', c2', a1, a2, a3, a4, hA⟩ := assoc_eqv_w Z X Y zx zy xz xy yx yz
    (admW_swap WXZ) WXY (admW_swap WYZ).con mZ.toNodup mX.symm.toNodup mY.toNodup mZ.lt2 mY.lt2
    (Assoc2P.labelRoutes_of_distinct _ _ _ _ _ hdZXY)
  rw [eZX] at a1
  obtain rfl := Except.ok.inj a1
  rw [eXY] at a3
  obtain rfl := Except.ok.inj a3
  have eax : Assoc2P.axesBC X.ndim Y.ndim xz xy yx yz = Assoc2P.axesAB X.ndim Y.ndim xy xz yx yz := rfl
  rw [eax] at a4
  have ed1' := ed1
  unfold tdF at ed1'
  rw [ed1'] at a4
  obtain rfl := Except.ok.inj a4
  -- Z·X against X·Z
  obtain ⟨XZ0, eXZ0, vXZ, vXZr, hE2⟩ := swap_eqv hmul (admW_swap WXZ) hdZX ZX eZX
  unfold tdF at eXZ0
  rw [eXZ] at eXZ0
  obtain rfl := Except.ok.inj eXZ0
  -- congruence: (Z·X)·Y against ((X·Z)ᵗ)·Y
  have W2 := admW_left_w IZX TZXY
  obtain ⟨g, eg, hG⟩ := tdotF_congr W2 hE2.symm (Eqv.refl Y) vXZr WXY.vb c1' a2
  -- S6: ((X·Z)ᵗ)·Y against ((X·Z)·Y)ᵗ
  set fX := (freeAxes X.ndim xz).length with hfX
  set fZ := (freeAxes Z.ndim zx).length with hfZ
  have hnXZ : XZ.ndim = fX + fZ := IXZ.ndim
  have hrot2 : (rotB fX fZ).Perm (List.range XZ.ndim) := by
    rw [hnXZ]; exact KoszulP.perm_of_isPerm (rotB_isPerm fX fZ)
  have hrot2' : Arr.isPerm (rotB fX fZ) XZ.ndim = true := by rw [hnXZ]; exact rotB_isPerm fX fZ
  have WN := admW_left_w IXZ TXZY
  have hN : Assoc2P.axesAB X.ndim Z.ndim xz xy zx zy
      = positions (freeAxes X.ndim xz) xy ++ (positions (freeAxes Z.ndim zx) zy).map (fX + ·) := rfl
  rw [hN] at WN
  have WS := AdmW.comm (by rw [mX.symm.pos_len]; exact WXY.len) WN
  have hxa : permuted (rotB fX fZ) (Assoc2P.axesAB Z.ndim X.ndim zx zy xz xy)
      = (positions (freeAxes Z.ndim zx) zy).map (fX + ·) ++ positions (freeAxes X.ndim xz) xy :=
    permuted_rotB_axes fX fZ _ _ mZ.pos_lt mX.symm.pos_lt
  have hpos : positions (rotB fX fZ) ((positions (freeAxes Z.ndim zx) zy).map (fX + ·)
      ++ positions (freeAxes X.ndim xz) xy) = Assoc2P.axesAB Z.ndim X.ndim zx zy xz xy := by
    rw [← hxa]
    apply NormNet.positions_permuted
    · exact hrot2.nodup_iff.mpr List.nodup_range
    · intro i hi
      have := axesAB_lt mZ mX.symm i hi
      have hl : (rotB fX fZ).length = fX + fZ := by
        have := hrot2.length_eq
        rw [List.length_range, hnXZ] at this
        exact this
      rw [hl]
      omega
  have hT := PreT.canonical (n := XZ.ndim) (p := rotB fX fZ)
    (xa := (positions (freeAxes Z.ndim zx) zy).map (fX + ·) ++ positions (freeAxes X.ndim xz) xy)
    hrot2 WS.nA WS.ltA
  rw [hpos] at hT
  have hdS : OddposP.LabelsDistinct (XZ.oddpos ++ Y.oddpos) :=
    OddposP.LabelsDistinct.perm hd' (((List.perm_append_comm (l₁ := Y.oddpos) (l₂ := Z.oddpos)).append_left
      X.oddpos).trans (by
        rw [← List.append_assoc]; exact pXZ.symm.append_right _))
  obtain ⟨c, _, ec, Ic, _⟩ := call_pack XZ Y _ _ WS hdS
  obtain ⟨g', eg', _, vc, hPB, hE3⟩ := pre_eqv XZ Y (rotB fX fZ) _ _ _ (yz ++ yx) WS hrot2' hT hdS c ec
  have eg'' := eg'
  unfold tdF at eg''
  rw [eg] at eg''
  obtain rfl := Except.ok.inj eg''
  -- the natural listing of (X·Z)·Y
  have ecN : tdF XZ Y (Assoc2P.axesAB X.ndim Z.ndim xz xy zx zy) (yx ++ yz) = .ok c := by
    rw [hN, ← tdotF_axes_comm_w XZ Y _ _ _ _ (by rw [mX.symm.pos_len]; exact WXY.len) WN]
    exact ec
  -- assemble
  have hnd1 : d1.ndim = c1'.ndim := hA.ndim
  have e_cd : Eqv (c.transposeF (blockP _ _ _)) d1 := hE3.trans (hG.symm.trans hA.symm)
  have vcB := transposeF_validB c _ vc Ic.fermi hPB
  have hnB := transposeF_ndim c _ vc Ic.fermi hPB
  have hrot1 : Arr.isPerm (rotB (freeAxes Z.ndim (zx ++ zy)).length
      (freeAxes XY.ndim (Assoc2P.axesAB X.ndim Y.ndim xy xz yx yz)).length) d1.ndim = true := by
    have Id := call_pack Z XY _ _ (admW_swap W1) (OddposP.LabelsDistinct.perm hd1 List.perm_append_comm)
    obtain ⟨d1', _, ed1'', Id1, _⟩ := Id
    rw [ed1'] at ed1''
    obtain rfl := Except.ok.inj ed1''
    rw [Id1.ndim]; exact rotB_isPerm _ _
  have hrot1c : Arr.isPerm (rotB (freeAxes Z.ndim (zx ++ zy)).length
      (freeAxes XY.ndim (Assoc2P.axesAB X.ndim Y.ndim xy xz yx yz)).length) c.ndim = true := by
    rw [← hnB, e_cd.ndim]; exact hrot1
  have cg := transposeF_congr e_cd vcB vd1 Ic.fermi (by rw [hnB]; exact hrot1c)
  have cm := transposeF_comp c _ _ vc Ic.fermi hPB hrot1c
  have hPc : Arr.isPerm (exchP fX fZ (freeAxes Y.ndim (yz ++ yx)).length
      (freeAxes Z.ndim (zx ++ zy)).length
      (freeAxes XY.ndim (Assoc2P.axesAB X.ndim Y.ndim xy xz yx yz)).length
      ((positions (freeAxes Z.ndim zx) zy).map (fX + ·) ++ positions (freeAxes X.ndim xz) xy)
      (Assoc2P.axesAB Z.ndim X.ndim zx zy xz xy))
      c.ndim = true := by
    unfold exchP
    rw [← hnXZ]
    exact KoszulP.isPerm_of_perm (compose_perm (KoszulP.perm_of_isPerm hPB)
      (KoszulP.perm_of_isPerm hrot1c))
  refine ⟨XY, XZ, c1, c, eXY, ec1, eXZ, ecN, Ic1.valid, vc, hPc, ?_⟩
  unfold exchP
  rw [← hnXZ]
  exact (cm.trans cg).trans hE1

end

end Net4P
end SymmModel
