/-
  SymmModel.Proofs.FuseRound — target 5 of property C05: `unfuse (fuse a [gaxes])` restores every
  stored block exactly (as the transposed block under the transposed sector); every other block of
  the result is identically zero.  One multi-axis group, arbitrary position, arbitrary other axes.
-/
import SymmModel.Proofs.FuseUnfuse
namespace SymmModel
namespace FuseP
set_option linter.unusedSectionVars false

variable {R : Type} [Zero R]

section One
variable {a : Arr R} {gaxes : List Nat}

theorem fix1_extent (hv : ValidArr a) (hok : GroupsOk [gaxes] a.ndim) (hlen : gaxes.length ≠ 1)
    {c : Charge} {e : Extent} (he : alookup (exts1 a gaxes) c = some e) :
    ∃ d, alookup (fix1 a gaxes).cm c = some d ∧ ExtentOk a.sym (gdual1 a gaxes) (subs1 a gaxes) c d e :=
  wfB_extent (fix1_wf hv hok hlen) fix1_sub he

theorem cOf_eq_combine (s : Sector) :
    cOf a gaxes s = a.sym.combine (List.zipWith (fun c' (sub : Index) =>
      a.sym.sign c' (gdual1 a gaxes != sub.dual)) (ssOf gaxes s) (subs1 a gaxes)) := by
  simp only [cOf, fusedCharge, ssOf, subs1]
  rw [List.zipWith_map, List.zipWith_self]

theorem replaceWithSeq_ns (hok : GroupsOk [gaxes] a.ndim) (s ss : Sector) :
    replaceWithSeq (nsOf a gaxes s) (gi1 a gaxes).position ss = preOf a gaxes s ++ ss ++ postOf a gaxes s := by
  simp only [nsOf]
  rw [← preOf_length hok s, replaceWithSeq_mid]

/-- a piece whose key is the transposed sector of a stored block belongs to that block -/
theorem key_analysis (hv : ValidArr a) (hok : GroupsOk [gaxes] a.ndim) (hlen : gaxes.length ≠ 1)
    {sb0 sb : Sector × Blk R} (hsb : sb ∈ a.blocks)
    {e : Extent} (he : alookup (exts1 a gaxes) (cOf a gaxes sb0.1) = some e)
    {ss : Sector} {st d : Nat} (hss : startOf e ss = some (st, d))
    (hk : replaceWithSeq (nsOf a gaxes sb0.1) (gi1 a gaxes).position ss = permuted sb.1 (gi1 a gaxes).perm) :
    nsOf a gaxes sb.1 = nsOf a gaxes sb0.1 ∧ ssOf gaxes sb.1 = ss := by
  obtain ⟨D, _, hext⟩ := fix1_extent hv hok hlen he
  obtain ⟨hl, _, hc⟩ := hext.entry ss d (startOf_mem hss)
  rw [replaceWithSeq_ns hok, permuted_sector hok (hv.blk sb hsb).1, List.append_assoc, List.append_assoc] at hk
  have h1 := List.append_inj hk (by rw [preOf_length hok, preOf_length hok])
  have h2 := List.append_inj h1.2 (by rw [hl]; simp [ssOf, subs1])
  have hssq : ssOf gaxes sb.1 = ss := h2.1.symm
  refine ⟨?_, hssq⟩
  have hcc : cOf a gaxes sb.1 = cOf a gaxes sb0.1 := by
    rw [cOf_eq_combine, hssq]; exact hc
  simp only [nsOf, hcc, h1.1, h2.2]

theorem fusedArr_indices_get (hok : GroupsOk [gaxes] a.ndim) :
    (fusedArr a gaxes).indices[(gi1 a gaxes).position]? = some (fix1 a gaxes) := by
  have hlt : (gi1 a gaxes).position < (newIndices1 a gaxes).length := by
    rw [newIndices1_length hok]; omega
  have := newIndices1_getD_pos (a := a) (gaxes := gaxes) hok
  simp only [List.getD_eq_getElem?_getD, List.getElem?_eq_getElem hlt, Option.getD_some] at this
  show (newIndices1 a gaxes)[(gi1 a gaxes).position]? = _
  rw [List.getElem?_eq_getElem hlt, this]

/-- the blocks after unfusing -/
def roundBlocks (a : Arr R) (gaxes : List Nat) : List (Sector × Blk R) :=
  adict ((fusedBlocks a gaxes).flatMap (piecesOf (subs1 a gaxes) (exts1 a gaxes) (gi1 a gaxes).position))

theorem unfuse_fused_eq (hv : ValidArr a) (hok : GroupsOk [gaxes] a.ndim) (hlen : gaxes.length ≠ 1) :
    unfuseA (fusedArr a gaxes) (gi1 a gaxes).position
      = .ok { fusedArr a gaxes with indices := permuted a.indices (gi1 a gaxes).perm,
                                    blocks := roundBlocks a gaxes } := by
  rw [unfuseA_eq (fusedArr a gaxes) _ (fix1 a gaxes) (subs1 a gaxes) (exts1 a gaxes)
    (fusedArr_indices_get hok) fix1_sub]
  · have : replaceWithSeq (fusedArr a gaxes).indices (gi1 a gaxes).position (subs1 a gaxes)
        = permuted a.indices (gi1 a gaxes).perm := by
      show replaceWithSeq (newIndices1 a gaxes) _ _ = _
      simp only [newIndices1]
      rw [← permuted_before_length hok, replaceWithSeq_mid, permuted_indices hok]
    rw [this]; rfl
  · intro nsB hnsB
    obtain ⟨sb0, hsb0, _, _, _, hc⟩ := fusedBlock_info hv hok hlen hnsB
    obtain ⟨e, D, st, h1, _, _, _⟩ := stored_in_table hv hok hlen hsb0
    refine ⟨e, by rw [hc]; exact h1, ?_⟩
    intro q hq
    obtain ⟨_, _, hext⟩ := fix1_extent hv hok hlen h1
    obtain ⟨_, ⟨shp, hshp, _⟩, _⟩ := hext.entry q.1 q.2 hq
    exact ⟨shp, hshp⟩

/-- membership in the list of pieces -/
theorem mem_pieces (hv : ValidArr a) (hok : GroupsOk [gaxes] a.ndim) (hlen : gaxes.length ≠ 1)
    {k : Sector} {V : Blk R} :
    (k, V) ∈ (fusedBlocks a gaxes).flatMap (piecesOf (subs1 a gaxes) (exts1 a gaxes) (gi1 a gaxes).position)
    ↔ ∃ sb0 ∈ a.blocks, ∃ B e ss st d, alookup (fusedBlocks a gaxes) (nsOf a gaxes sb0.1) = some B
        ∧ alookup (exts1 a gaxes) (cOf a gaxes sb0.1) = some e ∧ startOf e ss = some (st, d)
        ∧ k = replaceWithSeq (nsOf a gaxes sb0.1) (gi1 a gaxes).position ss
        ∧ V = (B.sliceK ((List.replicate B.shape.length 0).set (gi1 a gaxes).position st)
                (B.shape.set (gi1 a gaxes).position d)).reshapeK
              (replaceWithSeq B.shape (gi1 a gaxes).position ((Arr.blockShape? (subs1 a gaxes) ss).getD [])) := by
  simp only [List.mem_flatMap, piecesOf, List.mem_map]
  constructor
  · rintro ⟨nsB, hnsB, q, hq, heq⟩
    obtain ⟨sb0, hsb0, hns, hl, _, hc⟩ := fusedBlock_info hv hok hlen hnsB
    obtain ⟨e, D, st0, h1, _, _, _⟩ := stored_in_table hv hok hlen hsb0
    obtain ⟨_, _, hext⟩ := fix1_extent hv hok hlen h1
    rw [hc, h1] at hq
    simp only [Option.getD_some] at hq
    obtain ⟨⟨ss, d⟩, st⟩ := q
    have hst := (mem_zip_offsets hext.nodup).1 hq
    simp only [Prod.mk.injEq] at heq
    refine ⟨sb0, hsb0, nsB.2, e, ss, st, d, by rw [hns]; exact hl, h1, hst, ?_, ?_⟩
    · rw [hns]; exact heq.1.symm
    · exact heq.2.symm
  · rintro ⟨sb0, hsb0, B, e, ss, st, d, hB, he, hst, rfl, rfl⟩
    obtain ⟨_, _, hext⟩ := fix1_extent hv hok hlen he
    refine ⟨(nsOf a gaxes sb0.1, B), alookup_some_mem hB, ((ss, d), st), ?_, rfl⟩
    simp only [nsOf_getD_pos hok, he, Option.getD_some]
    exact (mem_zip_offsets hext.nodup).2 hst

/-- **round trip at block level** -/
theorem round_trip (hv : ValidArr a) (hok : GroupsOk [gaxes] a.ndim) (hlen : gaxes.length ≠ 1) :
    (∀ sb ∈ a.blocks, alookup (roundBlocks a gaxes) (permuted sb.1 (gi1 a gaxes).perm)
        = some (sb.2.transposeK (gi1 a gaxes).perm))
    ∧ (∀ k B', alookup (roundBlocks a gaxes) k = some B' →
        (∃ sb ∈ a.blocks, k = permuted sb.1 (gi1 a gaxes).perm) ∨ AllZero B') := by
  have hinv := fusedBlocks_inv hv hok hlen
  constructor
  · intro sb hsb
    obtain ⟨e, D, st, h1, h2, _, _⟩ := stored_in_table hv hok hlen hsb
    have hst : stOf a gaxes sb.1 = st := by simp [stOf, h1, h2]
    have hkey : nsOf a gaxes sb.1 ∈ (fusedBlocks a gaxes).map (·.1) := by
      rw [hinv.keys]; simp only [List.map_map]; exact List.mem_map.2 ⟨sb, hsb, rfl⟩
    obtain ⟨B, hB⟩ := Option.isSome_iff_exists.1 (alookup_isSome_iff.2 hkey)
    have hperm : permuted sb.1 (gi1 a gaxes).perm
        = replaceWithSeq (nsOf a gaxes sb.1) (gi1 a gaxes).position (ssOf gaxes sb.1) := by
      rw [replaceWithSeq_ns hok, permuted_sector hok (hv.blk sb hsb).1]
    apply alookup_adict_unique
    · rw [mem_pieces hv hok hlen]
      refine ⟨sb, hsb, B, e, ssOf gaxes sb.1, st, _, hB, h1, h2, hperm, ?_⟩
      rw [← hst]; exact (piece_yes hv hok hlen hsb hB).symm
    · intro V' hV'
      rw [mem_pieces hv hok hlen] at hV'
      obtain ⟨sb0, hsb0, B', e', ss', st', d', hB', he', hst', hk', rfl⟩ := hV'
      obtain ⟨hns, hss⟩ := key_analysis hv hok hlen hsb he' hst' hk'.symm
      subst hss
      rw [← hns, hB] at hB'
      simp only [Option.some.injEq] at hB'; subst hB'
      rw [← cOf_of_ns hok hns, h1] at he'
      simp only [Option.some.injEq] at he'; subst he'
      rw [h2] at hst'
      simp only [Option.some.injEq, Prod.mk.injEq] at hst'
      obtain ⟨rfl, rfl⟩ := hst'
      rw [← hst]; exact piece_yes hv hok hlen hsb hB
  · intro k B' hl
    have hmem := mem_adict (alookup_some_mem hl)
    rw [mem_pieces hv hok hlen] at hmem
    obtain ⟨sb0, hsb0, B, e, ss, st, d, hB, he, hst, rfl, rfl⟩ := hmem
    by_cases hex : ∃ sb ∈ a.blocks, nsOf a gaxes sb.1 = nsOf a gaxes sb0.1 ∧ ssOf gaxes sb.1 = ss
    · obtain ⟨sb, hsb, hns, hss⟩ := hex
      left
      refine ⟨sb, hsb, ?_⟩
      rw [permuted_sector hok (hv.blk sb hsb).1, ← hns, ← hss, replaceWithSeq_ns hok]
    · right
      apply piece_no hv hok hlen hsb0 hB he hst
      intro sb hsb hns hss
      exact hex ⟨sb, hsb, hns, hss⟩

end One

end FuseP
end SymmModel
