/-
  SymmModel.Proofs.ValidFuseF — `AbelianArray.fuse` with empty groups, `FermionicArray.unfuse`
  and `FermionicArray.fuse` (insert mode) return valid arrays (property C01, stretch goal).
  Builds on ValidFuse.lean / ValidFuse2.lean (`unfuseA_core`, `fuseCore_insert_core`).
-/
import SymmModel.Proofs.ValidFuse2
import SymmModel.Proofs.ValidTdotF

namespace SymmModel
namespace ValidP
open Sym

variable {R : Type}

/-- a core-preserving operation that keeps the sign fields, applied to an array without
    pending signs -/
theorem valid_of_core_synced {a r : Arr R} (hv : Valid a) (hph : a.phases = []) (hcore : Core r)
    (hfields : r.sym = a.sym ∧ r.fermi = a.fermi ∧ r.charge = a.charge ∧ r.phases = a.phases
      ∧ r.oddpos = a.oddpos) : Valid r := by
  obtain ⟨e1, e2, e3, e4, e5⟩ := hfields
  refine Valid.of hcore ?_
  have := hv.sgn
  unfold SignsOk at this ⊢
  rw [e1, e2, e3, e4, e5, hph]
  rw [hph] at this
  split
  · rename_i hf
    simp only [hf, if_true] at this
    exact ⟨phasesOk_nil, this.2⟩
  · rename_i hf
    simp only [hf, if_false, Bool.false_eq_true] at this
    exact ⟨rfl, this.2⟩

theorem phaseSync_fields [Neg R] (a : Arr R) :
    a.phaseSync.phases = [] ∧ a.phaseSync.fermi = a.fermi ∧ a.phaseSync.indices = a.indices
    ∧ a.phaseSync.sym = a.sym ∧ a.phaseSync.charge = a.charge ∧ a.phaseSync.oddpos = a.oddpos :=
  ⟨rfl, rfl, rfl, rfl, rfl, rfl⟩

theorem bind_ok {α β ε : Type} {x : Except ε α} {f : α → Except ε β} {r : β}
    (h : x >>= f = .ok r) : ∃ a, x = .ok a ∧ f a = .ok r := by
  cases x with
  | error e => cases h
  | ok a => exact ⟨a, rfl, h⟩

/-! ### `AbelianArray.fuse`, empty groups included -/

theorem filter_nonempty_flatten (groups : List (List Nat)) :
    (groups.filter (fun g => !g.isEmpty)).flatten = groups.flatten := by
  induction groups with
  | nil => rfl
  | cons g gs ih =>
    cases g with
    | nil => simpa using ih
    | cons x xs => simp [ih]

theorem expand_fold_valid (a : Arr R) (expand : List Nat) (g0 : Nat) (hv : Valid a) :
    Valid (expand.foldl (fun x ax => x.expandDims (g0 + ax) none none) a) :=
  foldl_inv (fun x : Arr R => Valid x) _ expand a hv
    (fun x ax _ hx => expandDims_none_valid x (g0 + ax) none hx)

/-- the `expand_empty` tail shared by `AbelianArray.fuse` and `FermionicArray.fuse`
    (copy of the model text) -/
def fuseTail (groups : List (List Nat)) (expandEmpty : Bool) (newGroups : List (List Nat))
    (xf : Arr R) : Except Err (Arr R) :=
  let expand := (groups.zipIdx.filter (fun p => p.1.isEmpty)).map (·.2)
  if expandEmpty && !expand.isEmpty then
    match newGroups.flatten with
    | [] => throw Err.value
    | g :: gs =>
      let g0 := gs.foldl min g
      pure (expand.foldl (fun x ax => x.expandDims (g0 + ax) none none) xf)
  else pure xf

theorem fuseTail_valid (groups : List (List Nat)) (expandEmpty : Bool) (newGroups : List (List Nat))
    (xf r : Arr R) (hv : Valid xf) (h : fuseTail groups expandEmpty newGroups xf = .ok r) :
    Valid r := by
  unfold fuseTail at h
  dsimp only at h
  split at h
  · split at h
    · cases h
    · simp only [pure, Except.pure, Except.ok.injEq] at h
      subst h
      exact expand_fold_valid xf _ _ hv
  · simp only [pure, Except.pure, Except.ok.injEq] at h
    subst h; exact hv

/-- `AbelianArray.fuse(*axes_groups, expand_empty, mode="insert")` on an abelian array -/
theorem fuseA_valid [Zero R] (a r : Arr R) (groups : List (List Nat)) (expandEmpty : Bool)
    (hv : Valid a) (hf : a.fermi = false) (hadm : fuseAdmissibleB groups a.ndim = true)
    (h : fuseA a groups .insert expandEmpty = .ok r) : Valid r := by
  have hadm' : fuseAdmissibleB (groups.filter (fun g => !g.isEmpty)) a.ndim = true := by
    unfold fuseAdmissibleB at hadm ⊢
    rw [filter_nonempty_flatten]; exact hadm
  unfold fuseA at h
  dsimp only at h
  split at h
  · rw [pure_bind] at h
    have h' : fuseTail groups expandEmpty (groups.filter (fun g => !g.isEmpty)) a = .ok r := h
    exact fuseTail_valid _ _ _ a r hv h'
  · obtain ⟨xf, hxf, h⟩ := bind_ok h
    have h' : fuseTail groups expandEmpty (groups.filter (fun g => !g.isEmpty)) xf = .ok r := h
    exact fuseTail_valid _ _ _ xf r (fuseCore_insert_valid a xf _ hv hf hadm' hxf) h'

/-! ### `FermionicArray.unfuse` -/

theorem unfuseF_valid' [Zero R] [Neg R] (a r : Arr R) (axis : Nat) (hv : Valid a)
    (hf : a.fermi = true) (h : Arr.unfuseF a axis = .ok r) : Valid r ∧ r.fermi = true := by
  unfold Arr.unfuseF at h
  dsimp only at h
  split at h
  case h_2 => cases h
  rename_i ix _
  simp only [pure_bind] at h
  obtain ⟨new, hnew, h⟩ := bind_ok h
  have hsync := phaseSync_valid a hv
  have hnewv : Valid new :=
    valid_of_core_synced hsync rfl (unfuseA_core _ new axis hsync.core hnew) (unfuseA_fields hnew)
  have hnewf : new.fermi = true := by rw [(unfuseA_fields hnew).2.1]; exact hf
  split at h
  · split at h
    case h_2 => cases h
    rename_i subs _ _
    simp only [pure, Except.pure, Except.ok.injEq] at h
    subst h
    have h1 := phaseFlip_valid new
      ((subs.zipIdx.filter (fun p => !p.1.dual)).map (fun p => axis + p.2)) hnewv hnewf
    have f1 : (new.phaseFlip
        ((subs.zipIdx.filter (fun p => !p.1.dual)).map (fun p => axis + p.2))).fermi = true := by
      rw [(phaseFlip_fields new _).2.2.2.2]; exact hnewf
    exact ⟨phaseTranspose_valid _ _ h1 f1, f1⟩
  · simp only [pure, Except.pure, Except.ok.injEq] at h
    subst h; exact ⟨hnewv, hnewf⟩

theorem unfuseF_valid [Zero R] [Neg R] (a r : Arr R) (axis : Nat) (hv : Valid a)
    (hf : a.fermi = true) (h : Arr.unfuseF a axis = .ok r) : Valid r :=
  (unfuseF_valid' a r axis hv hf h).1

/-- `FermionicArray.unfuse_all` -/
theorem unfuseAllF_valid [Zero R] [Neg R] (a r : Arr R) (hv : Valid a) (hf : a.fermi = true)
    (h : Arr.unfuseAllF a = .ok r) : Valid r := by
  unfold Arr.unfuseAllF unfuseAllWith at h
  refine (foldlM_ok_inv (fun x : Arr R => Valid x ∧ x.fermi = true) _ _ a r ⟨hv, hf⟩ ?_ h).1
  intro x ax x' _ hx hstep
  split at hstep
  · split at hstep
    · exact unfuseF_valid' x x' ax hx.1 hx.2 hstep
    · cases hstep; exact hx
  · cases hstep; exact hx

/-! ### `FermionicArray.fuse` (insert mode) -/

theorem indexOf?_some {l : List Nat} {a k : Nat} (h : indexOf? l a = some k) :
    k < l.length ∧ l[k]? = some a := by
  induction l generalizing k with
  | nil => simp [indexOf?] at h
  | cons x xs ih =>
    simp only [indexOf?] at h
    split at h
    · rename_i hx
      cases h
      exact ⟨by simp, by simpa using hx⟩
    · cases hr : indexOf? xs a with
      | none => rw [hr] at h; cases h
      | some k' =>
        rw [hr] at h
        simp only [Option.map_some, Option.some.injEq] at h
        subst h
        obtain ⟨h1, h2⟩ := ih hr
        exact ⟨by simpa using h1, by simpa using h2⟩

/-- positions of distinct axes in a list are distinct and in range -/
theorem positions_nodup {perm : List Nat} :
    ∀ {L L' : List Nat}, List.Forall₂ (fun ax k => indexOf? perm ax = some k) L L' → L.Nodup →
      L'.Nodup ∧ ∀ k ∈ L', k < perm.length
  | _, _, .nil, _ => ⟨List.nodup_nil, by simp⟩
  | _, _, .cons (a := ax) (b := k) (l₁ := L) (l₂ := L') hk hrest, hn => by
    obtain ⟨hax, hn'⟩ := List.nodup_cons.mp hn
    obtain ⟨ih1, ih2⟩ := positions_nodup hrest hn'
    refine ⟨List.nodup_cons.mpr ⟨?_, ih1⟩, ?_⟩
    · intro hk'
      -- some other axis has the same position
      have : ∀ {M M' : List Nat}, List.Forall₂ (fun ax k => indexOf? perm ax = some k) M M' →
          k ∈ M' → ax ∈ M := by
        intro M M' hf
        induction hf with
        | nil => simp
        | cons h1 _ ih =>
          intro hm
          rcases List.mem_cons.mp hm with rfl | hm
          · have e1 := (indexOf?_some hk).2
            have e2 := (indexOf?_some h1).2
            rw [e1] at e2
            simp only [Option.some.injEq] at e2
            subst e2; simp
          · exact List.mem_cons_of_mem _ (ih hm)
      exact hax (this hrest hk')
    · intro k' hk'
      rcases List.mem_cons.mp hk' with rfl | hk'
      · exact (indexOf?_some hk).1
      · exact ih2 k' hk'

theorem forall₂_flatten {α β : Type} {Q : α → β → Prop} :
    ∀ {l : List (List α)} {r : List (List β)}, List.Forall₂ (List.Forall₂ Q) l r →
      List.Forall₂ Q l.flatten r.flatten
  | _, _, .nil => by simp
  | _, _, .cons h hrest => by
    simp only [List.flatten_cons]
    exact List.rel_append h (forall₂_flatten hrest)

theorem transposeF_fields [Zero R] (a : Arr R) (axes : List Nat) (phase : Bool) :
    (a.transposeF axes phase).fermi = a.fermi
    ∧ (a.transposeF axes phase).indices = permuted a.indices axes := ⟨rfl, rfl⟩

theorem phaseTranspose_fields (a : Arr R) (axes : Option (List Nat)) :
    (a.phaseTranspose axes).fermi = a.fermi ∧ (a.phaseTranspose axes).indices = a.indices :=
  ⟨rfl, rfl⟩

/-- `FermionicArray.fuse(*axes_groups, expand_empty, mode="insert")` -/
theorem fuseF_valid [Zero R] [Neg R] (a r : Arr R) (groups : List (List Nat)) (expandEmpty : Bool)
    (hv : Valid a) (hf : a.fermi = true) (hadm : fuseAdmissibleB groups a.ndim = true)
    (h : Arr.fuseF a groups .insert expandEmpty = .ok r) : Valid r := by
  have hadm' : fuseAdmissibleB (groups.filter (fun g => !g.isEmpty)) a.duals.length = true := by
    unfold fuseAdmissibleB at hadm ⊢
    rw [filter_nonempty_flatten]
    have : a.duals.length = a.ndim := by simp [Arr.duals, Arr.ndim]
    rw [this]; exact hadm
  unfold Arr.fuseF at h
  dsimp only at h
  split at h
  · rw [pure_bind] at h
    have h' : fuseTail groups expandEmpty (groups.filter (fun g => !g.isEmpty)) a = .ok r := h
    exact fuseTail_valid _ _ _ a r hv h'
  · obtain ⟨ng, hng, h⟩ := bind_ok h
    obtain ⟨x5, hx5, h⟩ := bind_ok h
    rw [pure_bind] at h
    have h' : fuseTail groups expandEmpty ng x5 = .ok r := h
    refine fuseTail_valid _ _ _ x5 r ?_ h'
    have goal : Valid x5 := by
      -- the transposed, sign-synchronised operand of `_fuse_core`
      set nonEmpty := groups.filter (fun g => !g.isEmpty) with hne
      have hperm := perm_of_admissible hadm'
      have hisp : Arr.isPerm (calcFuseGroupInfo nonEmpty a.duals).perm a.ndim = true := by
        have : a.duals.length = a.ndim := by simp [Arr.duals, Arr.ndim]
        rw [← this]; exact isPerm_of_perm hperm
      have v1 := transposeF_valid a _ true hv hf hisp
      set x1 := a.transposeF (calcFuseGroupInfo nonEmpty a.duals).perm true with hx1
      have f1 : x1.fermi = true := hf
      have n1 : x1.ndim = a.ndim := by
        show (permuted a.indices _).length = a.ndim
        rw [permuted_length (fun i hi => isPerm_lt hisp i hi)]
        have := hperm.length_eq
        simpa [Arr.duals, Arr.ndim] using this
      -- the new groups are admissible
      have hadmNew : fuseAdmissibleB ng a.ndim = true := by
        have hF := forall₂_flatten ((mapM_ok_forall₂ _ _ _ hng).imp
          (fun g g' hg => mapM_ok_forall₂ _ _ _ hg))
        have hF' : List.Forall₂ (fun ax k =>
            indexOf? (calcFuseGroupInfo nonEmpty a.duals).perm ax = some k)
            nonEmpty.flatten ng.flatten := by
          refine hF.imp ?_
          intro ax k hk
          split at hk
          · rename_i k' hk'
            simp only [pure, Except.pure, Except.ok.injEq] at hk
            subst hk; exact hk'
          · cases hk
        unfold fuseAdmissibleB at hadm' ⊢
        simp only [Bool.and_eq_true, allDistinct_iff, List.all_eq_true,
          decide_eq_true_eq] at hadm' ⊢
        obtain ⟨q1, q2⟩ := positions_nodup hF' hadm'.1
        refine ⟨q1, fun k hk => ?_⟩
        have := q2 k hk
        have hl := hperm.length_eq
        rw [List.length_range] at hl
        rw [hl] at this
        simpa [Arr.duals, Arr.ndim] using this
      -- sign bookkeeping before `_fuse_core`
      generalize hflip : List.flatMap _ _ = axesFlip at hx5
      have v2 := phaseFlip_valid x1 axesFlip v1 f1
      have f2 : (x1.phaseFlip axesFlip).fermi = true := by
        rw [(phaseFlip_fields x1 axesFlip).2.2.2.2]; exact f1
      have i2 : (x1.phaseFlip axesFlip).indices = x1.indices :=
        (phaseFlip_fields x1 axesFlip).1
      have key : ∀ (c : Bool) (p : Option (List Nat)),
          Valid (if c = true then x1.phaseFlip axesFlip
                 else (x1.phaseFlip axesFlip).phaseTranspose p)
          ∧ (if c = true then x1.phaseFlip axesFlip
             else (x1.phaseFlip axesFlip).phaseTranspose p).indices = x1.indices := by
        intro c p
        cases c
        · simp only [Bool.false_eq_true, if_false]
          exact ⟨phaseTranspose_valid _ _ v2 f2, i2⟩
        · simp only [if_true]
          exact ⟨v2, i2⟩
      refine valid_of_core_synced (phaseSync_valid _ (key _ _).1) rfl
        (fuseCore_insert_core _ x5 ng (phaseSync_valid _ (key _ _).1).core ?_ hx5)
        (fuseCore_fields hx5)
      have : ∀ y : Arr R, y.indices = x1.indices → y.phaseSync.ndim = a.ndim := by
        intro y hy
        show y.indices.length = a.ndim
        rw [hy]; exact n1
      rw [this _ (key _ _).2]
      exact hadmNew
    exact goal

end ValidP
end SymmModel
