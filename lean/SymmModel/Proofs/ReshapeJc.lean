/-
  SymmModel.Proofs.ReshapeJc — the "only if" half for FERMIONIC arrays: every stored block of the result
  of a fermionic fuse call of a `reshape` plan contains a whole stored block of the input
  (`src_call_F`), composed over the calls of a plan (`src_chain_F`); both strategies
  (`fuseF_call_modes`).  The sign-adjusted operand `signAdj a G` stores exactly the (transposed)
  sectors of `a` (`signAdj_keys`).
-/
import SymmModel.Proofs.ReshapeJb
namespace SymmModel.ReshapeJ
open SymmModel SymmModel.Reshape SymmModel.C07 SymmModel.Reshape5 SymmModel.ReshapeH SymmModel.ReshapeI
open ReshapeP FuseP SymmModel.Lazy
set_option linter.unusedSectionVars false

variable {R : Type} [Zero R] [Neg R] [LawfulNeg R]

/-- the sign-adjusted operand stores exactly the transposed sectors of `a`, in the same order -/
theorem signAdj_keys {a : Arr R} {groups : List (List Nat)} (h : TrOk a (calcFuseGroupInfo groups a.duals).perm) :
    (signAdj a groups).blocks.map (·.1)
      = a.blocks.map (fun p => permuted p.1 (calcFuseGroupInfo groups a.duals).perm) := by
  have key : ∀ y : Arr R, y.blocks = (a.transposeF (calcFuseGroupInfo groups a.duals).perm).blocks →
      y.phaseSync.blocks.map (·.1)
        = a.blocks.map (fun p => permuted p.1 (calcFuseGroupInfo groups a.duals).perm) := by
    intro y hy
    rw [phaseSync_blocks_eq, hy, transposeF_blocks h]
    simp only [List.map_map]
    rfl
  unfold signAdj
  split
  · exact key _ (phaseFlip_blocks _ _)
  · exact key _ (phaseFlip_blocks _ _)

/-- the fermionic call with either strategy -/
theorem fuseF_call_modes (a : Arr R) (G : List (List Nat)) (P lb : Nat) (hv : a.validB = true)
    (hf : a.fermi = true) (hc : CallOk G P lb a.ndim) (y1 : Arr R) (hy1 : fuseDispatch a G = .ok y1) :
    ∀ (m : FuseMode) (e : Bool), Arr.fuseF a G m e = .ok y1 := by
  have hok := groupsOk_of_call hc.ne hc.two hc.flat hc.le
  have hgok : C05.groupsOkB G a.ndim = true := groupsOk_iff.2 hok
  obtain ⟨h0, _⟩ := fuseF_elemT a G true hv hf hok
  have hy : y1 = fusedArrM (signAdj a G) (newGroupsF G a.duals) := by
    simp only [fuseDispatch, hf, if_true] at hy1
    rw [h0] at hy1; injection hy1 with hy1; exact hy1.symm
  intro m e
  have hins : Arr.fuseF a G .insert e = .ok y1 := by
    rw [hy]; exact (fuseF_elemT a G e hv hf hok).1
  cases m with
  | insert => exact hins
  | concat => rw [C05.fuseF_concat_eq_insert a G e hv hf hgok hc.ne]; exact hins

/-- one fermionic call, the "only if" half: every stored block of `y` contains a whole stored block
    of `a` -/
theorem src_call_F (a : Arr R) (G : List (List Nat)) (P lb : Nat)
    (hv : a.validB = true) (hf : a.fermi = true) (hc : CallOk G P lb a.ndim) :
    ∃ y, fuseDispatch a G = .ok y ∧ SrcStepA a y G P := by
  have hok := groupsOk_of_call hc.ne hc.two hc.flat hc.le
  have hgok : C05.groupsOkB G a.ndim = true := groupsOk_iff.2 hok
  have hdl := FuseP.duals_length a
  obtain ⟨hb, _, hperm⟩ := ValidP.groupInfo_consecutive (groups := G) (duals := a.duals)
    (p := P) (n := G.flatten.length) hc.flat (flatten_pos hc.ne hc.two) (by rw [hdl]; exact hc.le)
  rw [hdl] at hperm
  have hpos0 : (calcFuseGroupInfo G a.duals).position = P := by
    obtain ⟨_, _, _, _, _, hb', _⟩ := C05.calcFuseGroupInfo_perm G a.duals (by rw [hdl]; exact hgok)
    have := congrArg List.length (hb'.symm.trans hb)
    simpa using this
  obtain ⟨h0, hT⟩ := fuseF_elemT a G true hv hf hok
  have hfld := signAdj_fields a G
  have hva := validArr_of_validB hv
  have hva4 : ValidArr (signAdj a G) := validArr_of_core (signAdj_valid a G hv hf hok).core
  have hnd4 : (signAdj a G).ndim = a.ndim := by
    show (signAdj a G).indices.length = a.ndim
    rw [hfld.2.1]; exact permutedM_length hok a.indices rfl
  have hd4 : (signAdj a G).duals.length = a.duals.length := by
    rw [duals_length, duals_length, hnd4]
  have hok4 : GroupsOk (newGroupsF G a.duals) (signAdj a G).ndim := by
    rw [hnd4, ← duals_length]; exact newGroupsF_ok (hokD hok)
  obtain ⟨hpos, hperm4, _⟩ := newGroups_plan (hokD hok) hd4
  rw [hdl] at hperm4
  have hlen : (newGroupsF G a.duals).length = G.length := newGroupsF_length _ _
  have hfull := Full.of_valid hv hf
  have hisp : Arr.isPerm (calcFuseGroupInfo G a.duals).perm a.ndim = true := by
    have := perm_isPerm (hokD hok); rwa [duals_length] at this
  have htr := hfull.trOk hisp
  refine ⟨_, by simp only [fuseDispatch, hf, if_true]; exact h0, ?_⟩
  intro ns B hB
  have hB' : alookup (fusedBlocksM (signAdj a G) (newGroupsF G a.duals)) ns = some B := hB
  obtain ⟨sb4, hsb4, hns0, _⟩ := fusedBlockM_info hva4 hok4 hB'
  -- the stored sector of the sign-adjusted operand is a stored sector of `a`
  have hk : sb4.1 ∈ (signAdj a G).blocks.map (·.1) := List.mem_map.2 ⟨sb4, hsb4, rfl⟩
  rw [signAdj_keys htr, hperm] at hk
  obtain ⟨⟨s, b⟩, hsb, hs4⟩ := List.mem_map.1 hk
  have hbs : alookup a.blocks s = some b := ValidP.alookup_of_mem_nodup hva.nodup hsb
  have hsl : s.length = a.ndim := (hva.blk (s, b) hsb).1
  have hbl : b.shape.length = a.ndim := ShapeLen.of_valid hv (s, b) hsb
  have e1 : permuted s (List.range a.ndim) = s := by rw [← hsl]; exact Lazy.permuted_range s
  have e2 : permuted b.shape (List.range a.ndim) = b.shape := by rw [← hbl]; exact Lazy.permuted_range _
  simp only [e1] at hs4
  obtain ⟨b4, hb4, hsh⟩ := signAdj_block (groups := G) htr hbs
  rw [hperm] at hb4 hsh
  rw [e1] at hb4
  rw [e2] at hsh
  have hsb4' : sb4 = (s, b4) := by
    obtain ⟨s4, b4'⟩ := sb4
    simp only at hs4; subst hs4
    have := ValidP.alookup_of_mem_nodup hva4.nodup hsb4
    rw [hb4] at this; injection this with this; rw [this]
  subst hsb4'
  subst hns0
  refine ⟨s, b, hbs, ?_⟩
  intro offs ho
  have hol : offs.length = a.ndim := by rw [inBox_length ho, hbl]
  have e3 : permuted offs (List.range a.ndim) = offs := by rw [← hol]; exact Lazy.permuted_range _
  obtain ⟨B', hBn, hiB, _, hK, hJ⟩ := fused_ontoM hva4 hok4 (sb := (s, b4)) hsb4
    (offs := offs) (by rw [hsh]; exact ho)
  have hBB : B' = B := by rw [hB'] at hBn; injection hBn with hBn; exact hBn.symm
  subst hBB
  rw [hperm4] at hK hJ
  simp only [e1] at hK
  rw [e3] at hJ
  obtain ⟨h1, _, _, _, _⟩ := hT _ B' hB _ hiB
  have eK : ∀ ns i, expandK (signAdj a G) (newGroupsF G a.duals) ns i
      = ns.take P
        ++ (((List.range G.length).map (segM (signAdj a G) (newGroupsF G a.duals) ns i)).map (·.1)).flatten
        ++ ns.drop (P + G.length) := by
    intro ns i
    simp only [expandK, hpos, hpos0, hlen, List.map_map]
    rfl
  have eJ : ∀ ns i, expandJ (signAdj a G) (newGroupsF G a.duals) ns i
      = i.take P
        ++ (((List.range G.length).map (segM (signAdj a G) (newGroupsF G a.duals) ns i)).map (·.2)).flatten
        ++ i.drop (P + G.length) := by
    intro ns i
    simp only [expandJ, hpos, hpos0, hlen, List.map_map]
    rfl
  refine ⟨_, (List.range G.length).map (segM (signAdj a G) (newGroupsF G a.duals) _ _), hiB,
    by simp, ?_, by rw [← eK]; exact hK, by rw [← eJ]; exact hJ⟩
  intro g gaxes hgg
  have hgl := getElem?_lt hgg
  have h2 := hc.two gaxes (List.mem_of_getElem? hgg)
  have hm : multiB G g = true := multiB_iff.2 ⟨_, hgg, by omega⟩
  rw [List.getElem?_map, List.getElem?_range hgl]
  have := h1 g hgl hm
  rw [hpos0] at this
  show splitAddr ((newIdxM (signAdj a G) (newGroupsF G a.duals)).getD _ default) _ _ = _
  have hix : (newIdxM (signAdj a G) (newGroupsF G a.duals)).getD (P + g) default
      = ixM (signAdj a G) (newGroupsF G a.duals) g := by
    simp only [ixM]; rw [hpos, hpos0]
  rw [hix]; exact this

/-- **every stored block of the result of a fermionic plan of fuse calls contains a whole stored block
    of the input**; the plan gives the same result with either strategy -/
theorem src_chain_F : ∀ (calls : List (List (List Nat))) (a : Arr R) (lb : Nat), a.validB = true →
    a.fermi = true → CallsOk calls lb a.ndim → ∀ y, calls.foldlM fuseDispatch a = .ok y →
    (∀ (m : FuseMode) (e : Bool), calls.foldlM (fun x G => Arr.fuseF x G m e) a = .ok y)
    ∧ ∀ ns B, alookup y.blocks ns = some B →
      ∃ s b, alookup a.blocks s = some b ∧ ∀ o, inBox b.shape o = true →
        ∃ i σ, inBox B.shape i = true ∧ Pulled a calls lb y ns i s o σ := by
  intro calls
  induction calls with
  | nil =>
    intro a lb _ _ _ y hy
    simp only [List.foldlM_nil, pure, Except.pure] at hy
    injection hy with hy; subst hy
    exact ⟨fun _ _ => rfl, fun ns B hB => ⟨ns, B, hB, fun o ho => ⟨o, 1, ho, rfl, rfl, rfl⟩⟩⟩
  | cons G rest ih =>
    intro a lb hv hf hc y hy
    obtain ⟨P, hc1, hc2⟩ := hc
    obtain ⟨y1, hy1, hv1, hf1, hnd, _⟩ := elem_step a G P lb hv hf hc1
    obtain ⟨y1', hy1', hsrc⟩ := src_call_F a G P lb hv hf hc1
    rw [hy1] at hy1'; injection hy1' with hy1'; subst hy1'
    rw [← hnd] at hc2
    rw [List.foldlM_cons, hy1] at hy
    obtain ⟨hmodes, hih⟩ := ih y1 (P + G.length) hv1 hf1 hc2 y hy
    refine ⟨?_, ?_⟩
    · intro m e
      rw [List.foldlM_cons, fuseF_call_modes a G P lb hv hf hc1 y1 hy1 m e]
      exact hmodes m e
    · intro ns B hB
      obtain ⟨s1, B1, hB1, hall⟩ := hih ns B hB
      obtain ⟨s, b, hb, hall1⟩ := hsrc s1 B1 hB1
      refine ⟨s, b, hb, ?_⟩
      intro o ho
      obtain ⟨o1, segs, hin, hsl, hsp, hs, hoe⟩ := hall1 o ho
      obtain ⟨i, σ1, hi, hpr⟩ := hall o1 hin
      have hsl' : s.length = a.ndim := ((validArr_of_validB hv).blk (s, b) (Lazy.alookup_mem hb)).1
      have hbl : b.shape.length = a.ndim := ShapeLen.of_valid hv (s, b) (Lazy.alookup_mem hb)
      have hol : o.length = a.ndim := by rw [inBox_length ho, hbl]
      exact ⟨i, _, hi, P, y1, s1, o1, σ1, B1, segs, hc1, hy1, hpr, hB1, hin, hsl, hsp, hsl', hol, hs, hoe, rfl⟩

end SymmModel.ReshapeJ
