/-
  SymmModel.Proofs.NormNet14 — network form of the norm (property C10), part 14:
  the four sequential bracketings WITHOUT the guard `netFullB` (S7 under the weak guard), from a
  `NetSetup`; the six bracketings in one statement.
-/
import SymmModel.Proofs.NormNet13
namespace SymmModel.NormNet
open SymmModel SymmModel.Lazy SymmModel.Norm SymmModel.TdotP SymmModel.GradedP SymmModel.RoutesP
open SymmModel.AssocP
set_option linter.unusedSectionVars false

section frame
variable {R : Type} [AddMonoid R] [Mul R] [Neg R] [SignRing R]

/-- the index tables of a contraction result: the frame pruned to its sectors -/
theorem tdot_indices_pruned {a b K : Arr R} {xa xb : List Nat} (h : Adm a b xa xb)
    (eK : a.tensordotF b (.pair (xa.map Int.ofNat) (xb.map Int.ofNat)) .blockwise = .ok K) :
    ∃ S, K.indices = dropUnused (without a.indices xa ++ without b.indices xb) S := by
  have e := tensordotF_eq_core a b xa xb h
  rw [eK] at e
  have F := coreT_frame a b xa xb h
  cases hm : OddposP.mergeOddpos a.parity a.oddpos b.oddpos with
  | error err => rw [hm] at e; cases e
  | ok r =>
    rw [hm] at e
    have e' : K = finish (coreT a b xa xb) r := Except.ok.inj e
    obtain ⟨_, _, k3, _, _, _⟩ := finish_frame (coreT a b xa xb) r
    exact ⟨(coreT a b xa xb).sectors, by rw [e', k3, F.indices]⟩

end frame

section routes
variable {R : Type} [AddCommMonoid R] [Mul R] [Neg R] [Conj R] [NetLaws R] [AssocLaws R]

/-- the four sequential bracketings from a `NetSetup` (no guard) -/
theorem sequential_of_setup {a b K Kb r r' : Arr R} {xa xb : List Nat}
    (ha : a.validB = true) (hb : b.validB = true) (hfa : a.fermi = true) (hfb : b.fermi = true)
    (hadm : ValidP.tdotAdmissibleB a b xa xb = true) (S : NetSetup a b K Kb r r' xa xb) :
    (∃ T c, Kb.tensordotF a (.pair ((List.range (freeAxes a.ndim xa).length).map Int.ofNat)
          ((freeAxes a.ndim xa).map Int.ofNat)) .blockwise = .ok T
      ∧ T.tensordotF b (.pair ((axesTW a.ndim b.ndim xa xb).map Int.ofNat)
          ((freeAxes b.ndim xb ++ xb).map Int.ofNat)) .blockwise = .ok c
      ∧ c.ndim = 0 ∧ c.oddpos = [] ∧ c.elem [] [] = normSq K)
    ∧ (∃ T c, (braOf b xb).tensordotF K (.pair ((freeAxes b.ndim xb).map Int.ofNat)
          (((List.range (freeAxes b.ndim xb).length).map ((freeAxes a.ndim xa).length + ·)).map
            Int.ofNat)) .blockwise = .ok T
      ∧ (braOf a xa).tensordotF T (.pair ((xa ++ freeAxes a.ndim xa).map Int.ofNat)
          ((axesTWr a.ndim b.ndim xa xb).map Int.ofNat)) .blockwise = .ok c
      ∧ c.ndim = 0 ∧ c.oddpos = [] ∧ c.elem [] [] = normSq K)
    ∧ (∃ T c, K.tensordotF (braOf a xa) (.pair ((List.range (freeAxes a.ndim xa).length).map Int.ofNat)
          ((freeAxes a.ndim xa).map Int.ofNat)) .blockwise = .ok T
      ∧ T.tensordotF (braOf b xb) (.pair ((axesTW a.ndim b.ndim xa xb).map Int.ofNat)
          ((freeAxes b.ndim xb ++ xb).map Int.ofNat)) .blockwise = .ok c
      ∧ c.ndim = 0 ∧ c.oddpos = [] ∧ c.elem [] [] = normSq' K)
    ∧ (∃ T c, b.tensordotF Kb (.pair ((freeAxes b.ndim xb).map Int.ofNat)
          (((List.range (freeAxes b.ndim xb).length).map ((freeAxes a.ndim xa).length + ·)).map
            Int.ofNat)) .blockwise = .ok T
      ∧ a.tensordotF T (.pair ((xa ++ freeAxes a.ndim xa).map Int.ofNat)
          ((axesTWr a.ndim b.ndim xa xb).map Int.ofNat)) .blockwise = .ok c
      ∧ c.ndim = 0 ∧ c.oddpos = [] ∧ c.elem [] [] = normSq' K) := by
  have h := Adm.of ha hb hfa hfb hadm
  have hB := braOf_adm h
  obtain ⟨S0, hK0⟩ := tdot_indices_pruned h S.eK
  have hXi : Kb.indices
      = (dropUnused (without a.indices xa ++ without b.indices xb) S0).map Index.conj := by
    rw [S.Kbi, hK0]
  have hKi : K.indices = (dropUnused (without (braOf a xa).indices xa
      ++ without (braOf b xb).indices xb) S0).map Index.conj := by
    rw [(braOf_frame a xa).2.2.1, (braOf_frame b xb).2.2.1, without_map, without_map,
      ← List.map_append, dropUnused_conj, Lazy.Index.map_conj_conj, hK0]
  have hrK : K.tensordotF Kb (allAxes Kb.ndim) .blockwise = .ok r' := by rw [S.nd]; exact S.hr'
  have hrKb : Kb.tensordotF K (allAxes Kb.ndim) .blockwise = .ok r := by rw [S.nd]; exact S.hr
  refine ⟨?_, ?_, ?_, ?_⟩
  · obtain ⟨T, c, e1, e2, q1, q2, q3⟩ := tw_left_w a b Kb K r xa xb S0 ha hb S.Kbv hfa hfb S.Kbf hadm
      S.eK S.Kbs hXi S.nd.symm (by rw [S.Kbp, S.Kbo]; exact S.lr.2.2.2) S.hr
    exact ⟨T, c, e1, e2, ndim0_of q1 S.r0.1, q2.trans S.r0.2.1, q3.trans S.r0.2.2⟩
  · obtain ⟨T, c, e1, e2, q1, q2, q3⟩ := tw_right_w (braOf a xa) (braOf b xb) K Kb r xa xb S0 hB.va
      hB.vb S.Kv hB.fa hB.fb S.Kf (admB_of_adm hB) S.eKb (S.Ks.trans (braOf_frame a xa).1.symm) hKi
      S.nd
      (by rw [braOf_parity, braOf_parity, (braOf_frame a xa).2.2.2.2.1,
        (braOf_frame b xb).2.2.2.2.1]; exact S.lr.2.2.1) hrKb
    simp only [braOf_ndim] at e1 e2
    exact ⟨T, c, e1, e2, ndim0_of q1 S.r0.1, q2.trans S.r0.2.1, q3.trans S.r0.2.2⟩
  · obtain ⟨T, c, e1, e2, q1, q2, q3⟩ := tw_left_w (braOf a xa) (braOf b xb) K Kb r' xa xb S0 hB.va
      hB.vb S.Kv hB.fa hB.fb S.Kf (admB_of_adm hB) S.eKb (S.Ks.trans (braOf_frame a xa).1.symm) hKi
      S.nd
      (by rw [S.Kp, braOf_parity, (braOf_frame a xa).2.2.2.2.1,
        (braOf_frame b xb).2.2.2.2.1]; exact S.lr.1) hrK
    simp only [braOf_ndim] at e1 e2
    exact ⟨T, c, e1, e2, ndim0_of q1 S.r0'.1, q2.trans S.r0'.2.1, q3.trans S.r0'.2.2⟩
  · obtain ⟨T, c, e1, e2, q1, q2, q3⟩ := tw_right_w a b Kb K r' xa xb S0 ha hb S.Kbv hfa hfb S.Kbf hadm
      S.eK S.Kbs hXi S.nd.symm (by rw [S.Kbo]; exact S.lr.2.1) S.hr'
    exact ⟨T, c, e1, e2, ndim0_of q1 S.r0'.1, q2.trans S.r0'.2.1, q3.trans S.r0'.2.2⟩

end routes

end SymmModel.NormNet
