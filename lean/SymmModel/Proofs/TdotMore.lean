/-
  SymmModel.Proofs.TdotMore — second layer for C02 (namespace `SymmModel.TdotP`):

  * sums over dense positions = sums over (charge tuple, offset) addresses (`sum_locate`,
    `sum_locateAll`);
  * `Located`: the pointwise form of `Arr.locateAll`, stable under `permuted`, `++` and under
    assembling a multi-index from its contracted and free parts;
  * `tensordotBlockwise_toDense`: densifying the blockwise contraction (with the un-pruned result
    tables) gives `Blk.tensordotK` of the densified operands;
  * block shapes of the result; `traceA`; `einsumA`; `matmulA`; outer products.
-/
import SymmModel.Proofs.TdotDense
import SymmModel.Proofs.DenseLemmas
import SymmModel.Proofs.ValidTdot

namespace SymmModel
namespace TdotP
variable {R : Type}

/-! ### list sums -/

theorem sum_map_flatMap [AddMonoid R] {α β : Type} (l : List α) (f : α → List β) (g : β → R) :
    ((l.flatMap f).map g).sum = (l.map (fun x => ((f x).map g).sum)).sum := by
  induction l with
  | nil => rfl
  | cons x xs ih => simp [List.flatMap_cons, ih]

theorem sum_swap [AddCommMonoid R] {α β : Type} (l : List α) (m : List β) (f : α → β → R) :
    (l.map (fun x => (m.map (fun y => f x y)).sum)).sum =
      (m.map (fun y => (l.map (fun x => f x y)).sum)).sum := by
  induction l with
  | nil => simp
  | cons x xs ih =>
    simp only [List.map_cons, List.sum_cons, ih]
    rw [← List.sum_map_add]

theorem sum_map_congr [AddMonoid R] {α : Type} {l : List α} {f g : α → R}
    (h : ∀ x ∈ l, f x = g x) : (l.map f).sum = (l.map g).sum := by
  rw [List.map_congr_left h]

/-! ### positions ↔ addresses: one axis -/

/-- summing over the positions of an axis = summing over its charges and the offsets inside
    each charge -/
theorem sum_locate [AddMonoid R] (cm : List (Charge × Nat)) (G : Option (Charge × Nat) → R) :
    ((List.range (sumN (cm.map (·.2)))).map (fun q => G (Arr.locate cm q))).sum =
      (cm.map (fun cd => ((List.range cd.2).map (fun o => G (some (cd.1, o)))).sum)).sum := by
  induction cm with
  | nil => simp [sumN]
  | cons kd rest ih =>
    obtain ⟨k, d⟩ := kd
    simp only [List.map_cons, sumN, List.sum_cons]
    rw [List.range_add, List.map_append, List.sum_append, List.map_map, ← ih]
    congr 1
    · apply sum_map_congr
      intro q hq
      have : q < d := List.mem_range.mp hq
      simp [Arr.locate, this]
    · apply sum_map_congr
      intro q _
      have : ¬ (d + q < d) := by omega
      simp [Arr.locate, this]

/-! ### positions ↔ addresses: all axes -/

/-- the charges of an index in the order `to_dense` lays them out -/
def sortedCharges (ix : Index) : List Charge := (Index.sortCm ix.cm).map (·.1)

theorem blockShape?_isSome_of_mem_cartesian {idx : List Index} {K : Sector}
    (h : K ∈ cartesian (idx.map sortedCharges)) : ∃ shp, Arr.blockShape? idx K = some shp := by
  induction idx generalizing K with
  | nil =>
    simp only [List.map_nil, cartesian, List.mem_singleton] at h
    subst h; exact ⟨[], rfl⟩
  | cons ix idx ih =>
    simp only [List.map_cons, cartesian, List.mem_flatMap, List.mem_map] at h
    obtain ⟨c, hc, K', hK', rfl⟩ := h
    obtain ⟨shp, hs⟩ := ih hK'
    obtain ⟨cd, hcd, rfl⟩ := List.mem_map.mp hc
    have : (alookup ix.cm cd.1).isSome = true :=
      alookup_isSome_iff.mpr (List.mem_map.mpr ⟨cd, mem_sortCm.mp hcd, rfl⟩)
    obtain ⟨d, hd⟩ := Option.isSome_iff_exists.mp this
    exact ⟨d :: shp, by rw [Arr.blockShape?_cons, Index.sizeOf?, hd, hs]; rfl⟩

theorem blockShapeD_cons {ix : Index} {idx : List Index} (hnd : (ix.cm.map (·.1)).Nodup)
    {c : Charge} {d : Nat} (hcd : (c, d) ∈ Index.sortCm ix.cm) {K : Sector}
    (hK : K ∈ cartesian (idx.map sortedCharges)) :
    Arr.blockShapeD (ix :: idx) (c :: K) = d :: Arr.blockShapeD idx K := by
  obtain ⟨shp, hs⟩ := blockShape?_isSome_of_mem_cartesian hK
  have hd : ix.sizeOf? c = some d := alookup_of_mem_nodup hnd (mem_sortCm.mp hcd)
  simp [Arr.blockShapeD, Arr.blockShape?_cons, hd, hs]

/-- **positions ↔ addresses.**  Summing `H ∘ locateAll` over the dense box of a list of indices
    = summing `H` over all charge tuples and all offsets in the block box of each tuple. -/
theorem sum_locateAll [AddCommMonoid R] (idx : List Index)
    (hnd : ∀ ix ∈ idx, (ix.cm.map (·.1)).Nodup) (H : Option (Sector × List Nat) → R) :
    ((allIdx (idx.map Index.sizeTotal)).map (fun p => H (Arr.locateAll idx p))).sum =
      ((cartesian (idx.map sortedCharges)).map (fun K =>
        ((allIdx (Arr.blockShapeD idx K)).map (fun k => H (some (K, k)))).sum)).sum := by
  induction idx generalizing H with
  | nil => simp [allIdx, cartesian, Arr.blockShapeD, Arr.blockShape?_nil_nil]
  | cons ix idx ih =>
    have hnd' : ∀ ix' ∈ idx, (ix'.cm.map (·.1)).Nodup := fun ix' h => hnd ix' (by simp [h])
    have hsz : ix.sizeTotal = sumN ((Index.sortCm ix.cm).map (·.2)) := (sumN_sortCm ix.cm).symm
    simp only [List.map_cons, allIdx, cartesian]
    rw [sum_map_flatMap, sum_map_flatMap, hsz]
    simp only [List.map_map, Function.comp_def, Arr.locateAll_cons]
    rw [sum_locate (Index.sortCm ix.cm)
      (fun x => ((allIdx (idx.map Index.sizeTotal)).map (fun p' =>
        H (x.bind (fun co => (Arr.locateAll idx p').map (fun sf => (co.1 :: sf.1, co.2 :: sf.2)))))).sum)]
    simp only [sortedCharges, List.map_map, Function.comp_def]
    apply sum_map_congr
    rintro ⟨c, d⟩ hcd
    simp only [Option.bind_some]
    -- inner: apply the induction hypothesis for every offset, then swap the two sums
    have e1 : ∀ o, ((allIdx (idx.map Index.sizeTotal)).map (fun p' =>
          H ((Arr.locateAll idx p').map (fun sf => (c :: sf.1, o :: sf.2))))).sum =
        ((cartesian (idx.map sortedCharges)).map (fun K =>
          ((allIdx (Arr.blockShapeD idx K)).map (fun k => H (some (c :: K, o :: k)))).sum)).sum :=
      fun o => ih hnd' (fun x => H (x.map (fun sf => (c :: sf.1, o :: sf.2))))
    simp only [e1]
    rw [sum_swap]
    apply sum_map_congr
    intro K hK
    rw [blockShapeD_cons (hnd ix (by simp)) hcd hK]
    simp only [allIdx]
    rw [sum_map_flatMap]
    simp only [List.map_map, Function.comp_def]

/-! ### `Located`: the pointwise form of `locateAll` -/

/-- position `p` of the dense box of `idx` has the address `(sec, off)`: axis by axis,
    `locate (sorted chargemap) p[t] = (sec[t], off[t])` -/
def Located (idx : List Index) (p : List Nat) (sec : Sector) (off : List Nat) : Prop :=
  p.length = idx.length ∧ sec.length = idx.length ∧ off.length = idx.length ∧
  ∀ (t : Nat) (ix : Index) (q : Nat) (c : Charge) (o : Nat),
    idx[t]? = some ix → p[t]? = some q → sec[t]? = some c → off[t]? = some o →
      Arr.locate (Index.sortCm ix.cm) q = some (c, o)

theorem located_iff_locateAll {idx : List Index} {p : List Nat} {sec : Sector} {off : List Nat}
    (hp : p.length = idx.length) :
    Arr.locateAll idx p = some (sec, off) ↔ Located idx p sec off := by
  induction idx generalizing p sec off with
  | nil =>
    cases p with
    | cons _ _ => simp at hp
    | nil =>
      simp only [Arr.locateAll_nil_nil, Option.some.injEq, Prod.mk.injEq, Located, List.length_nil,
        List.length_eq_zero_iff, true_and]
      constructor
      · rintro ⟨rfl, rfl⟩; exact ⟨rfl, rfl, by simp⟩
      · rintro ⟨rfl, rfl, _⟩; exact ⟨rfl, rfl⟩
  | cons ix idx ih =>
    cases p with
    | nil => simp at hp
    | cons q p =>
      have hp' : p.length = idx.length := by simpa using hp
      rw [Arr.locateAll_cons]
      constructor
      · intro h
        cases hco : Arr.locate (Index.sortCm ix.cm) q with
        | none => simp [hco] at h
        | some co =>
          cases hso : Arr.locateAll idx p with
          | none => simp [hco, hso] at h
          | some sf =>
            simp only [hco, hso, Option.bind_some, Option.map_some, Option.some.injEq,
              Prod.mk.injEq] at h
            obtain ⟨rfl, rfl⟩ := h
            obtain ⟨h1, h2, h3, h4⟩ := (ih hp').mp hso
            refine ⟨hp, by simp [h2], by simp [h3], ?_⟩
            intro t ix' q' c o hix hq hc ho
            cases t with
            | zero =>
              simp only [List.getElem?_cons_zero, Option.some.injEq] at hix hq hc ho
              subst hix hq hc ho; exact hco
            | succ t =>
              simp only [List.getElem?_cons_succ] at hix hq hc ho
              exact h4 t ix' q' c o hix hq hc ho
      · rintro ⟨_, h2, h3, h4⟩
        cases sec with
        | nil => simp at h2
        | cons c sec =>
          cases off with
          | nil => simp at h3
          | cons o off =>
            have h0 := h4 0 ix q c o (by simp) (by simp) (by simp) (by simp)
            have hrest : Located idx p sec off :=
              ⟨hp', by simpa using h2, by simpa using h3, fun t ix' q' c' o' hix hq hc ho =>
                h4 (t + 1) ix' q' c' o' (by simpa using hix) (by simpa using hq) (by simpa using hc)
                  (by simpa using ho)⟩
            rw [h0, (ih hp').mpr hrest]; rfl

theorem Located.append {X Y : List Index} {p p' : List Nat} {s s' : Sector} {o o' : List Nat}
    (h : Located X p s o) (h' : Located Y p' s' o') :
    Located (X ++ Y) (p ++ p') (s ++ s') (o ++ o') := by
  obtain ⟨h1, h2, h3, h4⟩ := h
  obtain ⟨h1', h2', h3', h4'⟩ := h'
  refine ⟨by simp [h1, h1'], by simp [h2, h2'], by simp [h3, h3'], ?_⟩
  intro t ix q c oo hix hq hc ho
  by_cases ht : t < X.length
  · rw [List.getElem?_append_left ht] at hix
    rw [List.getElem?_append_left (by omega)] at hq hc ho
    exact h4 t ix q c oo hix hq hc ho
  · rw [List.getElem?_append_right (by omega)] at hix
    rw [List.getElem?_append_right (by omega)] at hq hc ho
    rw [h1] at hq; rw [h2] at hc; rw [h3] at ho
    exact h4' _ ix q c oo hix hq hc ho

/-- `Located` only looks at the chargemaps -/
theorem Located.congr_cm {idx idx' : List Index} (hcm : idx.map Index.cm = idx'.map Index.cm)
    {p : List Nat} {s : Sector} {o : List Nat} (h : Located idx p s o) : Located idx' p s o := by
  obtain ⟨h1, h2, h3, h4⟩ := h
  have hl : idx.length = idx'.length := by simpa using congrArg List.length hcm
  refine ⟨by omega, by omega, by omega, ?_⟩
  intro t ix' q c oo hix hq hc ho
  have e : (idx.map Index.cm)[t]? = some ix'.cm := by rw [hcm, List.getElem?_map, hix]; rfl
  rw [List.getElem?_map] at e
  cases hix0 : idx[t]? with
  | none => simp [hix0] at e
  | some ix =>
    simp only [hix0, Option.map_some, Option.some.injEq] at e
    rw [← e]; exact h4 t ix q c oo hix0 hq hc ho

theorem permuted_getElem?_of {α : Type} (X : List α) {ax : List Nat} {j t : Nat}
    (hax : ∀ x ∈ ax, x < X.length) (hj : ax[j]? = some t) : (permuted X ax)[j]? = X[t]? := by
  rw [permuted_getElem? _ _ hax, hj]; rfl

/-- a multi-index whose contracted part and free part are located is located -/
theorem Located.of_parts {idx : List Index} {P : List Nat} {S : Sector} {O : List Nat} {n : Nat}
    {xa l : List Nat} (hn : idx.length = n) (hP : P.length = n) (hS : S.length = n) (hO : O.length = n)
    (hxa : ∀ x ∈ xa, x < n) (hl : ∀ x ∈ l, x < n) (hcov : ∀ t, t < n → t ∈ xa ∨ t ∈ l)
    (h1 : Located (permuted idx xa) (permuted P xa) (permuted S xa) (permuted O xa))
    (h2 : Located (permuted idx l) (permuted P l) (permuted S l) (permuted O l)) :
    Located idx P S O := by
  refine ⟨by omega, by omega, by omega, ?_⟩
  intro t ix q c o hix hq hc ho
  have ht : t < n := by
    by_contra hc'; rw [List.getElem?_eq_none (by omega)] at hix; cases hix
  have key : ∀ ax : List Nat, (∀ x ∈ ax, x < n) → t ∈ ax →
      Located (permuted idx ax) (permuted P ax) (permuted S ax) (permuted O ax) →
      Arr.locate (Index.sortCm ix.cm) q = some (c, o) := by
    intro ax hax hmem hloc
    obtain ⟨j, hj⟩ := List.mem_iff_getElem?.mp hmem
    exact hloc.2.2.2 j ix q c o
      (by rw [permuted_getElem?_of idx (by simpa [hn] using hax) hj]; exact hix)
      (by rw [permuted_getElem?_of P (by simpa [hP] using hax) hj]; exact hq)
      (by rw [permuted_getElem?_of S (by simpa [hS] using hax) hj]; exact hc)
      (by rw [permuted_getElem?_of O (by simpa [hO] using hax) hj]; exact ho)
  rcases hcov t ht with h | h
  · exact key xa hxa h h1
  · exact key l hl h h2

theorem forall₂_of_parts {α β : Type} {Q : α → β → Prop} {X : List α} {Y : List β} {n : Nat}
    {xa l : List Nat} (hX : X.length = n) (hY : Y.length = n)
    (hxa : ∀ x ∈ xa, x < n) (hl : ∀ x ∈ l, x < n) (hcov : ∀ t, t < n → t ∈ xa ∨ t ∈ l)
    (h1 : List.Forall₂ Q (permuted X xa) (permuted Y xa))
    (h2 : List.Forall₂ Q (permuted X l) (permuted Y l)) : List.Forall₂ Q X Y := by
  rw [List.forall₂_iff_get]
  refine ⟨by omega, ?_⟩
  intro t ht1 ht2
  have key : ∀ ax : List Nat, (∀ x ∈ ax, x < n) → t ∈ ax →
      List.Forall₂ Q (permuted X ax) (permuted Y ax) → Q (X.get ⟨t, ht1⟩) (Y.get ⟨t, ht2⟩) := by
    intro ax hax hmem hfa
    obtain ⟨j, hj⟩ := List.mem_iff_getElem?.mp hmem
    obtain ⟨_, hg⟩ := List.forall₂_iff_get.mp hfa
    have eX := permuted_getElem?_of X (by simpa [hX] using hax) hj
    have eY := permuted_getElem?_of Y (by simpa [hY] using hax) hj
    rw [List.getElem?_eq_getElem ht1] at eX
    rw [List.getElem?_eq_getElem ht2] at eY
    obtain ⟨hjX, eX'⟩ := List.getElem?_eq_some_iff.mp eX
    obtain ⟨hjY, eY'⟩ := List.getElem?_eq_some_iff.mp eY
    have := hg j hjX hjY
    simp only [List.get_eq_getElem] at this ⊢
    rw [eX', eY'] at this
    exact this
  rcases hcov t (hX ▸ ht1) with h | h
  · exact key xa hxa h h1
  · exact key l hl h h2

/-- the sector of a located position has a block shape -/
theorem blockShape?_of_locateAll {idx : List Index} {p : List Nat} {sec : Sector} {off : List Nat}
    (hp : p.length = idx.length) (h : Arr.locateAll idx p = some (sec, off)) :
    ∃ shp, Arr.blockShape? idx sec = some shp := by
  induction idx generalizing p sec off with
  | nil =>
    cases p with
    | cons _ _ => simp at hp
    | nil =>
      simp only [Arr.locateAll_nil_nil, Option.some.injEq, Prod.mk.injEq] at h
      obtain ⟨rfl, rfl⟩ := h; exact ⟨[], rfl⟩
  | cons ix idx ih =>
    cases p with
    | nil => simp at hp
    | cons q p =>
      rw [Arr.locateAll_cons] at h
      cases hco : Arr.locate (Index.sortCm ix.cm) q with
      | none => simp [hco] at h
      | some co =>
        cases hso : Arr.locateAll idx p with
        | none => simp [hco, hso] at h
        | some sf =>
          simp only [hco, hso, Option.bind_some, Option.map_some, Option.some.injEq,
            Prod.mk.injEq] at h
          obtain ⟨rfl, rfl⟩ := h
          obtain ⟨shp, hs⟩ := ih (by simpa using hp) hso
          have hk := Arr.locate_mem_keys hco
          have : (alookup ix.cm co.1).isSome = true := by
            rw [alookup_isSome_iff]
            obtain ⟨cd, hcd, e⟩ := List.mem_map.mp hk
            exact List.mem_map.mpr ⟨cd, mem_sortCm.mp hcd, e⟩
          obtain ⟨d, hd⟩ := Option.isSome_iff_exists.mp this
          exact ⟨d :: shp, by rw [Arr.blockShape?_cons, Index.sizeOf?, hd, hs]; rfl⟩

/-- a sector all of whose charges are in the tables has a block shape -/
theorem blockShape?_of_charges {idx : List Index} {S : Sector}
    (h : List.Forall₂ (fun c (ix : Index) => c ∈ ix.charges) S idx) :
    ∃ shp, Arr.blockShape? idx S = some shp := by
  induction h with
  | nil => exact ⟨[], rfl⟩
  | @cons c ix S idx hc _ ih =>
    obtain ⟨shp, hs⟩ := ih
    have : (alookup ix.cm c).isSome = true := alookup_isSome_iff.mpr hc
    obtain ⟨d, hd⟩ := Option.isSome_iff_exists.mp this
    exact ⟨d :: shp, by rw [Arr.blockShape?_cons, Index.sizeOf?, hd, hs]; rfl⟩

/-! ### densifying the blockwise contraction -/

/-- the blockwise contraction with the UN-PRUNED result index tables (the free indices of the
    operands as they are; `tensordotBlockwise` additionally drops the charges no block uses) -/
def tensordotUnpruned [Zero R] [Add R] [Mul R] (a b : Arr R) (xa xb : List Nat) : Arr R :=
  { tensordotBlockwise a b (freeAxes a.ndim xa) xa xb (freeAxes b.ndim xb) with
    indices := without a.indices xa ++ without b.indices xb }

theorem tensordotUnpruned_elem [Zero R] [Add R] [Mul R] [Neg R] (a b : Arr R) (xa xb : List Nat)
    (s : Sector) (o : List Nat) :
    (tensordotUnpruned a b xa xb).elem s o =
      (tensordotBlockwise a b (freeAxes a.ndim xa) xa xb (freeAxes b.ndim xb)).elem s o := rfl

theorem mem_permuted {α : Type} {X : List α} {p : List Nat} {x : α} (h : x ∈ permuted X p) : x ∈ X := by
  obtain ⟨j, _, hj⟩ := List.mem_filterMap.mp h
  exact List.mem_of_getElem? hj

theorem mem_sortedCharges {ix : Index} {c : Charge} : c ∈ sortedCharges ix ↔ c ∈ ix.charges := by
  simp only [sortedCharges, Index.charges, List.mem_map]
  constructor
  · rintro ⟨cd, h, rfl⟩; exact ⟨cd, mem_sortCm.mp h, rfl⟩
  · rintro ⟨cd, h, rfl⟩; exact ⟨cd, mem_sortCm.mpr h, rfl⟩

/-- the hypotheses of `tensordotBlockwise_elem_dense'` for the tuples of sorted charges -/
theorem sortedTuples_ok {a : Arr R} (hsa : a.shapesOk)
    (hnda : ∀ ix ∈ a.indices, (ix.cm.map (·.1)).Nodup) (xa : List Nat) (hxa' : ∀ x ∈ xa, x < a.ndim) :
    (cartesian ((permuted a.indices xa).map sortedCharges)).Nodup ∧
    (∀ K ∈ cartesian ((permuted a.indices xa).map sortedCharges), K.length = xa.length) ∧
    (∀ sa ∈ a.sectors, permuted sa xa ∈ cartesian ((permuted a.indices xa).map sortedCharges)) := by
  refine ⟨?_, ?_, ?_⟩
  · apply cartesian_nodup
    intro l hl
    obtain ⟨ix, hix, rfl⟩ := List.mem_map.mp hl
    exact nodup_keys_sortCm (hnda ix (mem_permuted hix))
  · intro K hK
    have := (mem_cartesian.mp hK).length_eq
    rw [this, List.length_map, permuted_length _ _ hxa']
  · intro sa hsa'
    obtain ⟨p, hp, rfl⟩ := List.mem_map.mp hsa'
    rw [mem_cartesian, List.forall₂_map_right_iff]
    exact (forall₂_permuted (charges_of_blockShape? (hsa p hp)) xa).imp
      (fun _ _ h => mem_sortedCharges.mpr h)

theorem Blk.ofFn_congr {s : List Nat} {f g : List Nat → R}
    (h : ∀ i, inBox s i = true → f i = g i) : Blk.ofFn s f = Blk.ofFn s g := by
  unfold Blk.ofFn
  congr 2
  apply List.map_congr_left
  intro i hi
  exact h i (mem_allIdx_iff.mp hi)

theorem mergeSec_length (n : Nat) (axes : List Nat) (K F : Sector) :
    (mergeSec n axes K F).length = n := mergeIdx_length _ _ _ _ _ _

theorem permuted_mergeSec_axes {n : Nat} {axes : List Nat} {K F : Sector}
    (hn : axes.Nodup) (hr : ∀ x ∈ axes, x < n) (hk : K.length = axes.length) :
    permuted (mergeSec n axes K F) axes = K := permuted_mergeIdx_axes _ hn hr hk

theorem permuted_mergeSec_free {n : Nat} {axes : List Nat} {K F : Sector}
    (hf : F.length = (freeAxes n axes).length) :
    permuted (mergeSec n axes K F) (freeAxes n axes) = F :=
  permuted_mergeIdx_free _ (freeAxes_nodup _ _) mem_freeAxes_lt (fun _ hx => (mem_freeAxes.mp hx).2) hf

/-- **sum form.**  With matching contracted charge tables, the dense entry of the un-pruned
    blockwise contraction at `pL ++ pR` is the dense contraction of the densified operands. -/
theorem tensordotUnpruned_dense_get [AddCommMonoid R] [Mul R] [Neg R]
    (hz1 : ∀ x : R, 0 * x = 0) (hz2 : ∀ x : R, x * 0 = 0) (a b : Arr R) (xa xb : List Nat)
    (hpa : a.phases = []) (hpb : b.phases = [])
    (hda : allDistinct a.sectors = true) (hdb : allDistinct b.sectors = true)
    (hsa : a.shapesOk) (hsb : b.shapesOk)
    (hnda : ∀ ix ∈ a.indices, (ix.cm.map (·.1)).Nodup)
    (hndb : ∀ ix ∈ b.indices, (ix.cm.map (·.1)).Nodup)
    (hxa : xa.Nodup) (hxa' : ∀ x ∈ xa, x < a.ndim) (hxb : xb.Nodup) (hxb' : ∀ x ∈ xb, x < b.ndim)
    (hlen : xa.length = xb.length)
    (hcm : (permuted a.indices xa).map Index.cm = (permuted b.indices xb).map Index.cm)
    (dA dB dC : Blk R)
    (hA : ∀ p, inBox a.shape p = true →
      ∃ sec off, Arr.locateAll a.indices p = some (sec, off) ∧ dA.get p = a.elem sec off)
    (hB : ∀ p, inBox b.shape p = true →
      ∃ sec off, Arr.locateAll b.indices p = some (sec, off) ∧ dB.get p = b.elem sec off)
    (hC : ∀ p, inBox (tensordotUnpruned a b xa xb).shape p = true →
      ∃ sec off, Arr.locateAll (tensordotUnpruned a b xa xb).indices p = some (sec, off) ∧
        dC.get p = (tensordotUnpruned a b xa xb).elem sec off)
    (pL pR : List Nat) (hpL : inBox (permuted a.shape (freeAxes a.ndim xa)) pL = true)
    (hpR : inBox (permuted b.shape (freeAxes b.ndim xb)) pR = true) :
    dC.get (pL ++ pR) =
      ((allIdx (permuted a.shape xa)).map (fun pK =>
        dA.get (mergeIdx 0 a.ndim xa (freeAxes a.ndim xa) pK pL) *
        dB.get (mergeIdx 0 b.ndim xb (freeAxes b.ndim xb) pK pR))).sum := by
  -- notation
  have ean : a.indices.length = a.ndim := rfl
  have ebn : b.indices.length = b.ndim := rfl
  have easl : a.shape.length = a.ndim := by simp [Arr.shape, Arr.ndim]
  have ebsl : b.shape.length = b.ndim := by simp [Arr.shape, Arr.ndim]
  have hlr : ∀ x ∈ freeAxes a.ndim xa, x < a.ndim := mem_freeAxes_lt
  have hrr : ∀ x ∈ freeAxes b.ndim xb, x < b.ndim := mem_freeAxes_lt
  have cov : ∀ (n : Nat) (axes : List Nat) y, y < n → y ∈ axes ∨ y ∈ freeAxes n axes := by
    intro n axes y hy
    by_cases h : y ∈ axes
    · exact Or.inl h
    · exact Or.inr (mem_freeAxes.mpr ⟨hy, h⟩)
  have hdisj : ∀ (n : Nat) (axes : List Nat), ∀ x ∈ freeAxes n axes, x ∉ axes :=
    fun n axes x hx => (mem_freeAxes.mp hx).2
  have eshK : permuted a.shape xa = (permuted a.indices xa).map Index.sizeTotal := by
    rw [Arr.shape, permuted_map]
  have eshL : permuted a.shape (freeAxes a.ndim xa) =
      (permuted a.indices (freeAxes a.ndim xa)).map Index.sizeTotal := by rw [Arr.shape, permuted_map]
  have eshR : permuted b.shape (freeAxes b.ndim xb) =
      (permuted b.indices (freeAxes b.ndim xb)).map Index.sizeTotal := by rw [Arr.shape, permuted_map]
  have eCidx : (tensordotUnpruned a b xa xb).indices =
      permuted a.indices (freeAxes a.ndim xa) ++ permuted b.indices (freeAxes b.ndim xb) := by
    show without a.indices xa ++ without b.indices xb = _
    rw [without_eq_permuted_freeAxes, without_eq_permuted_freeAxes]
    rfl
  have hlenL : pL.length = (permuted a.indices (freeAxes a.ndim xa)).length := by
    rw [inBox_length hpL, eshL, List.length_map]
  have hlenR : pR.length = (permuted b.indices (freeAxes b.ndim xb)).length := by
    rw [inBox_length hpR, eshR, List.length_map]
  -- addresses of the free parts
  obtain ⟨L, oL, hLoc⟩ := Arr.locateAll_isSome (idx := permuted a.indices (freeAxes a.ndim xa)) (p := pL)
    (by rw [← eshL]; exact hpL)
  obtain ⟨Rr, oR, hRoc⟩ := Arr.locateAll_isSome (idx := permuted b.indices (freeAxes b.ndim xb)) (p := pR)
    (by rw [← eshR]; exact hpR)
  have hLL := (located_iff_locateAll hlenL).mp hLoc
  have hRL := (located_iff_locateAll hlenR).mp hRoc
  have hLlen : L.length = (freeAxes a.ndim xa).length := by
    rw [hLL.2.1, permuted_length _ _ (by simpa [ean] using hlr)]
  have hRlen : Rr.length = (freeAxes b.ndim xb).length := by
    rw [hRL.2.1, permuted_length _ _ (by simpa [ebn] using hrr)]
  have hoLlen : oL.length = (freeAxes a.ndim xa).length := by
    rw [hLL.2.2.1, permuted_length _ _ (by simpa [ean] using hlr)]
  have hoRlen : oR.length = (freeAxes b.ndim xb).length := by
    rw [hRL.2.2.1, permuted_length _ _ (by simpa [ebn] using hrr)]
  have hpLlen : pL.length = (freeAxes a.ndim xa).length := by
    rw [hlenL, permuted_length _ _ (by simpa [ean] using hlr)]
  have hpRlen : pR.length = (freeAxes b.ndim xb).length := by
    rw [hlenR, permuted_length _ _ (by simpa [ebn] using hrr)]
  -- left-hand side: the value view of the result at the located address
  have hCloc : Arr.locateAll (tensordotUnpruned a b xa xb).indices (pL ++ pR) =
      some (L ++ Rr, oL ++ oR) := by
    rw [eCidx]
    exact (located_iff_locateAll (by simp [hlenL, hlenR])).mpr (hLL.append hRL)
  have hCbox : inBox (tensordotUnpruned a b xa xb).shape (pL ++ pR) = true := by
    show inBox ((tensordotUnpruned a b xa xb).indices.map Index.sizeTotal) (pL ++ pR) = true
    rw [eCidx, List.map_append, ← eshL, ← eshR, inBox_append (by rw [hpLlen, permuted_length _ _ (by simpa [easl] using hlr)]), hpL, hpR]
    rfl
  obtain ⟨sec, off, hso, hget⟩ := hC (pL ++ pR) hCbox
  rw [hCloc] at hso
  simp only [Option.some.injEq, Prod.mk.injEq] at hso
  obtain ⟨rfl, rfl⟩ := hso
  rw [hget, tensordotUnpruned_elem]
  -- the value view is the sum over all charge tuples of the contracted tables
  obtain ⟨hKn, hKl, hKc⟩ := sortedTuples_ok hsa hnda xa hxa'
  have hndC : ∀ ix ∈ permuted a.indices (freeAxes a.ndim xa) ++ permuted b.indices (freeAxes b.ndim xb),
      (ix.cm.map (·.1)).Nodup := by
    intro ix hix
    rcases List.mem_append.mp hix with h | h
    · exact hnda ix (mem_permuted h)
    · exact hndb ix (mem_permuted h)
  obtain ⟨shpC, hshpC⟩ := blockShape?_of_locateAll (idx := (tensordotUnpruned a b xa xb).indices)
    (by rw [eCidx]; simp [hlenL, hlenR]) hCloc
  have hoBox : inBox (Arr.blockShapeD (without a.indices xa ++ without b.indices xb) (L ++ Rr))
      (oL ++ oR) = true := by
    have e : without a.indices xa ++ without b.indices xb = (tensordotUnpruned a b xa xb).indices := rfl
    rw [e, Arr.blockShapeD, hshpC]
    refine Arr.locateAll_inBox (idx := (tensordotUnpruned a b xa xb).indices) ?_ ?_ hCloc hshpC
    · rw [eCidx]; exact hndC
    · rw [eCidx]; simp [hlenL, hlenR]
  rw [tensordotBlockwise_elem_dense' hz1 hz2 a b xa xb hpa hpb hda hdb hsa hsb hxa hxa' hxb hxb' hlen
    _ hKn hKl hKc L Rr hLlen hRlen _ hoBox]
  have etake : (oL ++ oR).take (freeAxes a.ndim xa).length = oL := by rw [← hoLlen]; simp
  have edrop : (oL ++ oR).drop (freeAxes a.ndim xa).length = oR := by rw [← hoLlen]; simp
  rw [etake, edrop]
  -- right-hand side: every dense operand entry is the value view at the merged address
  let H : Option (Sector × List Nat) → R := fun x =>
    match x with
    | some (K, k) =>
      a.elem (mergeSec a.ndim xa K L) (mergeIdx 0 a.ndim xa (freeAxes a.ndim xa) k oL) *
      b.elem (mergeSec b.ndim xb K Rr) (mergeIdx 0 b.ndim xb (freeAxes b.ndim xb) k oR)
    | none => 0
  have hterm : ∀ pK ∈ allIdx (permuted a.shape xa),
      dA.get (mergeIdx 0 a.ndim xa (freeAxes a.ndim xa) pK pL) *
        dB.get (mergeIdx 0 b.ndim xb (freeAxes b.ndim xb) pK pR) =
      H (Arr.locateAll (permuted a.indices xa) pK) := by
    intro pK hpK
    have hpKbox : inBox (permuted a.shape xa) pK = true := mem_allIdx_iff.mp hpK
    have hpKlen : pK.length = (permuted a.indices xa).length := by
      rw [inBox_length hpKbox, eshK, List.length_map]
    have hpKlen' : pK.length = xa.length := by
      rw [hpKlen, permuted_length _ _ (by simpa [ean] using hxa')]
    obtain ⟨K, k, hKloc⟩ := Arr.locateAll_isSome (idx := permuted a.indices xa) (p := pK)
      (by rw [← eshK]; exact hpKbox)
    have hKL := (located_iff_locateAll hpKlen).mp hKloc
    have hKL' : Located (permuted b.indices xb) pK K k := hKL.congr_cm hcm
    have hKlen : K.length = xa.length := by
      rw [hKL.2.1, permuted_length _ _ (by simpa [ean] using hxa')]
    have hklen : k.length = xa.length := by
      rw [hKL.2.2.1, permuted_length _ _ (by simpa [ean] using hxa')]
    -- operand a
    have hLa : Located a.indices (mergeIdx 0 a.ndim xa (freeAxes a.ndim xa) pK pL)
        (mergeSec a.ndim xa K L) (mergeIdx 0 a.ndim xa (freeAxes a.ndim xa) k oL) := by
      apply Located.of_parts (n := a.ndim) (xa := xa) (l := freeAxes a.ndim xa) ean
        (mergeIdx_length _ _ _ _ _ _) (mergeSec_length _ _ _ _) (mergeIdx_length _ _ _ _ _ _)
        hxa' hlr (cov _ _)
      · rw [permuted_mergeIdx_axes _ hxa hxa' hpKlen', permuted_mergeSec_axes hxa hxa' hKlen,
          permuted_mergeIdx_axes _ hxa hxa' hklen]
        exact hKL
      · rw [permuted_mergeIdx_free _ (freeAxes_nodup _ _) hlr (hdisj _ _) hpLlen,
          permuted_mergeSec_free hLlen,
          permuted_mergeIdx_free _ (freeAxes_nodup _ _) hlr (hdisj _ _) hoLlen]
        exact hLL
    have hLb : Located b.indices (mergeIdx 0 b.ndim xb (freeAxes b.ndim xb) pK pR)
        (mergeSec b.ndim xb K Rr) (mergeIdx 0 b.ndim xb (freeAxes b.ndim xb) k oR) := by
      apply Located.of_parts (n := b.ndim) (xa := xb) (l := freeAxes b.ndim xb) ebn
        (mergeIdx_length _ _ _ _ _ _) (mergeSec_length _ _ _ _) (mergeIdx_length _ _ _ _ _ _)
        hxb' hrr (cov _ _)
      · rw [permuted_mergeIdx_axes _ hxb hxb' (hpKlen'.trans hlen),
          permuted_mergeSec_axes hxb hxb' (hKlen.trans hlen),
          permuted_mergeIdx_axes _ hxb hxb' (hklen.trans hlen)]
        exact hKL'
      · rw [permuted_mergeIdx_free _ (freeAxes_nodup _ _) hrr (hdisj _ _) hpRlen,
          permuted_mergeSec_free hRlen,
          permuted_mergeIdx_free _ (freeAxes_nodup _ _) hrr (hdisj _ _) hoRlen]
        exact hRL
    have hboxA : inBox a.shape (mergeIdx 0 a.ndim xa (freeAxes a.ndim xa) pK pL) = true := by
      have := inBox_mergeIdx (shape := a.shape) (axes := xa) (k := pK) (f := pL)
        (by simpa [easl] using hxa') hpKbox (by rw [easl]; exact hpL)
      rw [easl] at this; exact this
    have hpKboxb : inBox (permuted b.shape xb) pK = true := by
      have e : permuted b.shape xb = permuted a.shape xa := by
        rw [eshK, Arr.shape, permuted_map]
        have h1 : ∀ l : List Index, l.map Index.sizeTotal =
            (l.map Index.cm).map (fun cm => sumN (cm.map (·.2))) := by
          intro l; rw [List.map_map]; rfl
        rw [h1, h1, hcm]
      rw [e]; exact hpKbox
    have hboxB : inBox b.shape (mergeIdx 0 b.ndim xb (freeAxes b.ndim xb) pK pR) = true := by
      have := inBox_mergeIdx (shape := b.shape) (axes := xb) (k := pK) (f := pR)
        (by simpa [ebsl] using hxb') hpKboxb (by rw [ebsl]; exact hpR)
      rw [ebsl] at this; exact this
    obtain ⟨sA, oA, hsA, hgA⟩ := hA _ hboxA
    obtain ⟨sB, oB, hsB, hgB⟩ := hB _ hboxB
    rw [(located_iff_locateAll (by simp [ean])).mpr hLa] at hsA
    rw [(located_iff_locateAll (by simp [ebn])).mpr hLb] at hsB
    simp only [Option.some.injEq, Prod.mk.injEq] at hsA hsB
    obtain ⟨rfl, rfl⟩ := hsA
    obtain ⟨rfl, rfl⟩ := hsB
    rw [hgA, hgB, hKloc]
  rw [sum_map_congr hterm, eshK,
    sum_locateAll (permuted a.indices xa) (fun ix hix => hnda ix (mem_permuted hix)) H]
  apply sum_map_congr
  intro K hK
  -- the contracted box of the tuple `K`
  have hKlen : K.length = xa.length := hKl K hK
  have hKch : List.Forall₂ (fun c (ix : Index) => c ∈ ix.charges) K (permuted a.indices xa) := by
    have := mem_cartesian.mp hK
    rw [List.forall₂_map_right_iff] at this
    exact this.imp (fun _ _ h => mem_sortedCharges.mp h)
  obtain ⟨shpL, hshpL⟩ := blockShape?_of_locateAll hlenL hLoc
  have hLch := charges_of_blockShape? hshpL
  have hSch : List.Forall₂ (fun c (ix : Index) => c ∈ ix.charges) (mergeSec a.ndim xa K L) a.indices := by
    apply forall₂_of_parts (n := a.ndim) (xa := xa) (l := freeAxes a.ndim xa)
      (mergeSec_length _ _ _ _) ean hxa' hlr (cov _ _)
    · rw [permuted_mergeSec_axes hxa hxa' hKlen]; exact hKch
    · rw [permuted_mergeSec_free hLlen]; exact hLch
  obtain ⟨shpS, hshpS⟩ := blockShape?_of_charges hSch
  have hbox : Arr.blockShapeD (permuted a.indices xa) K =
      permuted (Arr.blockShapeD a.indices (mergeSec a.ndim xa K L)) xa := by
    have := blockShape?_permuted hshpS xa (by simpa [ean] using hxa')
    rw [permuted_mergeSec_axes hxa hxa' hKlen] at this
    rw [Arr.blockShapeD, this, Arr.blockShapeD, hshpS]
    rfl
  rw [hbox]
  rfl

theorem Blk.ofFn_get_self [Zero R] (s : List Nat) (f : List Nat → R) :
    Blk.ofFn s (fun i => (Blk.ofFn s f).get i) = Blk.ofFn s f :=
  Blk.ofFn_congr (fun _ hi => Blk.get_ofFn f hi)

theorem Blk.tensordotK_eq_ofFn_get [Zero R] [Add R] [Mul R] (x y : Blk R) (xa xb : List Nat) :
    x.tensordotK y xa xb =
      Blk.ofFn (x.tensordotK y xa xb).shape (fun i => (x.tensordotK y xa xb).get i) := by
  unfold Blk.tensordotK
  exact (Blk.ofFn_get_self _ _).symm

/-- `NoEmpty` of C08 as a plain statement -/
theorem noEmpty_iff (idx : List Index) :
    idx.any (fun ix => ix.cm.isEmpty) = false ↔ ∀ ix ∈ idx, ix.cm.isEmpty = false := by
  simp [List.any_eq_false]

/-- **tensordotBlockwise_toDense.**  `to_dense(tensordot(a, b)) = np.tensordot(to_dense a,
    to_dense b)` for the blockwise contraction with un-pruned result tables. -/
theorem tensordotUnpruned_toDense [AddCommMonoid R] [Mul R] [Neg R]
    (hz1 : ∀ x : R, 0 * x = 0) (hz2 : ∀ x : R, x * 0 = 0) (a b : Arr R) (xa xb : List Nat)
    (hpa : a.phases = []) (hpb : b.phases = [])
    (hda : allDistinct a.sectors = true) (hdb : allDistinct b.sectors = true)
    (hsa : a.shapesOk) (hsb : b.shapesOk)
    (hnda : ∀ ix ∈ a.indices, (ix.cm.map (·.1)).Nodup)
    (hndb : ∀ ix ∈ b.indices, (ix.cm.map (·.1)).Nodup)
    (hxa : xa.Nodup) (hxa' : ∀ x ∈ xa, x < a.ndim) (hxb : xb.Nodup) (hxb' : ∀ x ∈ xb, x < b.ndim)
    (hlen : xa.length = xb.length)
    (hcm : (permuted a.indices xa).map Index.cm = (permuted b.indices xb).map Index.cm)
    (hea : a.indices.any (fun ix => ix.cm.isEmpty) = false)
    (heb : b.indices.any (fun ix => ix.cm.isEmpty) = false) :
    ∃ dA dB, a.toDenseA = .ok dA ∧ b.toDenseA = .ok dB ∧ dA.shape = a.shape ∧ dB.shape = b.shape ∧
      (tensordotUnpruned a b xa xb).toDenseA = .ok (dA.tensordotK dB xa xb) := by
  have easl : a.shape.length = a.ndim := by simp [Arr.shape, Arr.ndim]
  have ebsl : b.shape.length = b.ndim := by simp [Arr.shape, Arr.ndim]
  have eCidx : (tensordotUnpruned a b xa xb).indices =
      permuted a.indices (freeAxes a.ndim xa) ++ permuted b.indices (freeAxes b.ndim xb) := by
    show without a.indices xa ++ without b.indices xb = _
    rw [without_eq_permuted_freeAxes, without_eq_permuted_freeAxes]
    rfl
  have hec : (tensordotUnpruned a b xa xb).indices.any (fun ix => ix.cm.isEmpty) = false := by
    rw [noEmpty_iff, eCidx]
    intro ix hix
    rcases List.mem_append.mp hix with h | h
    · exact (noEmpty_iff _).mp hea ix (mem_permuted h)
    · exact (noEmpty_iff _).mp heb ix (mem_permuted h)
  obtain ⟨dA, hAok, hAsh, hA⟩ := Arr.toDenseA_get a hea
  obtain ⟨dB, hBok, hBsh, hB⟩ := Arr.toDenseA_get b heb
  obtain ⟨dC, hCok, hCsh, hC⟩ := Arr.toDenseA_get (tensordotUnpruned a b xa xb) hec
  refine ⟨dA, dB, hAok, hBok, hAsh, hBsh, ?_⟩
  rw [hCok]
  congr 1
  -- `dC` is a tabulation over the result shape
  have hCeq := Arr.toDenseA_eq (tensordotUnpruned a b xa xb) false hec
  rw [hCok] at hCeq
  obtain ⟨F, hdC⟩ : ∃ F, dC = Blk.ofFn (tensordotUnpruned a b xa xb).shape F := ⟨_, Except.ok.inj hCeq⟩
  clear hCeq
  have eshape : (dA.tensordotK dB xa xb).shape = (tensordotUnpruned a b xa xb).shape := by
    rw [Blk.tensordotK_shape, hAsh, hBsh, easl, ebsl]
    show _ = (tensordotUnpruned a b xa xb).indices.map Index.sizeTotal
    rw [eCidx, List.map_append, Arr.shape, Arr.shape, permuted_map, permuted_map]
  rw [Blk.tensordotK_eq_ofFn_get dA dB xa xb, eshape, hdC]
  apply Blk.ofFn_congr
  intro i hi
  rw [← Blk.get_ofFn F hi, ← hdC]
  -- split the index
  have hshapeC : (tensordotUnpruned a b xa xb).shape =
      permuted a.shape (freeAxes a.ndim xa) ++ permuted b.shape (freeAxes b.ndim xb) := by
    show (tensordotUnpruned a b xa xb).indices.map Index.sizeTotal = _
    rw [eCidx, List.map_append, Arr.shape, Arr.shape, permuted_map, permuted_map]
  have hnl : (permuted a.shape (freeAxes a.ndim xa)).length = (freeAxes a.ndim xa).length :=
    permuted_length _ _ (by rw [easl]; exact mem_freeAxes_lt)
  have hil := inBox_length hi
  rw [hshapeC, List.length_append, hnl] at hil
  have hsplit : i = i.take (freeAxes a.ndim xa).length ++ i.drop (freeAxes a.ndim xa).length :=
    (List.take_append_drop _ _).symm
  have htl : (i.take (freeAxes a.ndim xa).length).length = (freeAxes a.ndim xa).length := by
    rw [List.length_take]; omega
  have hi' := hi
  rw [hshapeC, hsplit, inBox_append (by rw [htl, hnl]), Bool.and_eq_true] at hi'
  rw [hsplit]
  rw [tensordotUnpruned_dense_get hz1 hz2 a b xa xb hpa hpb hda hdb hsa hsb hnda hndb hxa hxa' hxb hxb'
    hlen hcm dA dB dC hA hB hC _ _ hi'.1 hi'.2]
  rw [Blk.tensordotK_get dA dB xa xb (by rw [hAsh, easl]; exact htl)
    (by rw [eshape, ← hsplit]; exact hi)]
  simp only [Blk.tdTerm, hAsh, hBsh, easl, ebsl]

/-! ### from `validB` to the hypotheses used here -/

theorem keys_nodup_of_validB {a : Arr R} (h : a.validB = true) :
    ∀ ix ∈ a.indices, (ix.cm.map (·.1)).Nodup := fun ix hix =>
  ValidP.sortedCharges_nodup (ValidP.wfB_cmOk (((ValidP.validB_iff a).mp h).idx ix hix)).1

theorem phases_nil_of_validB {a : Arr R} (h : a.validB = true) (hf : a.fermi = false) :
    a.phases = [] := by
  have := ((ValidP.validB_iff a).mp h).sgn
  unfold ValidP.SignsOk at this
  rw [hf] at this
  simpa using this.1

theorem map_eq_map_of_zip {β : Type} (f g : Nat → β) :
    ∀ (xa xb : List Nat), xa.length = xb.length → (∀ p ∈ xa.zip xb, f p.1 = g p.2) →
      xa.map f = xb.map g
  | [], [], _, _ => rfl
  | [], _ :: _, h, _ => by simp at h
  | _ :: _, [], h, _ => by simp at h
  | x :: xa, y :: xb, h, hz => by
    simp only [List.map_cons]
    rw [hz (x, y) (by simp), map_eq_map_of_zip f g xa xb (by simpa using h)
      (fun p hp => hz p (by simp [hp]))]

/-- `contractibleB` gives equal charge tables on the contracted axes -/
theorem cm_eq_of_contractibleB {a b : Arr R} {xa xb : List Nat}
    (hc : ValidP.contractibleB a b xa xb = true) (hxa' : ∀ x ∈ xa, x < a.ndim)
    (hxb' : ∀ x ∈ xb, x < b.ndim) :
    xa.length = xb.length ∧
      (permuted a.indices xa).map Index.cm = (permuted b.indices xb).map Index.cm := by
  unfold ValidP.contractibleB at hc
  simp only [Bool.and_eq_true, beq_iff_eq, List.all_eq_true, bne_iff_ne, ne_eq] at hc
  refine ⟨hc.1, ?_⟩
  rw [permuted_eq_map _ _ hxa' default, permuted_eq_map _ _ hxb' default, List.map_map, List.map_map]
  exact map_eq_map_of_zip _ _ xa xb hc.1 (fun p hp => (hc.2 p hp).1)

/-! ### block shapes of the result -/

/-- every stored block of the result has the shape that the un-pruned result tables give to its
    sector (so the box in `tensordotBlockwise_elem` is the block's own box) -/
theorem tensordotBlockwise_block_shape [Zero R] [Add R] [Mul R] {a b : Arr R} {xa xb : List Nat}
    (hsa : a.shapesOk) (hsb : b.shapesOk) {s : Sector} {blk : Blk R}
    (h : (s, blk) ∈ (tensordotBlockwise a b (freeAxes a.ndim xa) xa xb (freeAxes b.ndim xb)).blocks) :
    blk.shape = Arr.blockShapeD (without a.indices xa ++ without b.indices xb) s := by
  rw [tensordotBlockwise_blocks] at h
  have hl := alookup_of_mem (allDistinct_akeys_accum _ _) h
  rw [alookup_accum] at hl
  have hf := filter_tdTerms a b (freeAxes a.ndim xa) xa xb (freeAxes b.ndim xb) s
  cases hp : pairsAt a b (freeAxes a.ndim xa) xa xb (freeAxes b.ndim xb) s with
  | nil => rw [hf, hp] at hl; simp at hl
  | cons q qs =>
    rw [hf, hp] at hl
    simp only [List.map_cons, Option.some.injEq] at hl
    rw [← hl, foldl_zipWith_shape]
    obtain ⟨hA, hB, _, hs⟩ := mem_pairsAt.mp (show q ∈ pairsAt a b _ xa xb _ s by rw [hp]; simp)
    rw [tensordotK_shape_of_pair hsa hsb hA hB, hs]

/-! ### trace -/

theorem Blk.traceK_eq_sum [AddMonoid R] (b : Blk R) :
    b.traceK = ((List.range (min (b.shape.getD 0 0) (b.shape.getD 1 0))).map
      (fun i => b.get [i, i])).sum := by
  unfold Blk.traceK
  rw [Blk.foldl_add_eq_sum, zero_add]

/-- length of the diagonal of the block of sector `s` (from the index tables) -/
def diagLen (a : Arr R) (s : Sector) : Nat :=
  min ((Arr.blockShapeD a.indices s).getD 0 0) ((Arr.blockShapeD a.indices s).getD 1 0)

/-- the diagonal of one stored sector, at the level of addresses -/
def diagSum [AddMonoid R] [Neg R] (a : Arr R) (s : Sector) : R :=
  ((List.range (diagLen a s)).map (fun i => a.elem s [i, i])).sum

/-- **traceA_elem.**  `trace` of a rank-2 abelian array = sum over the stored sectors `[c, c']`
    with `c = c'` of the diagonal of that block, read through `elem`. -/
theorem traceA_elem' [AddMonoid R] [Neg R] (a : Arr R) (h2 : a.ndim = 2) (hpa : a.phases = [])
    (hda : allDistinct a.sectors = true) (hsa : a.shapesOk) :
    traceA a = .ok (((a.sectors.filter (fun s => s[0]? == s[1]?)).map (diagSum a)).sum) := by
  unfold traceA
  simp only [h2, bne_self_eq_false, Bool.false_eq_true, if_false]
  congr 1
  have e1 : ∀ l : List (Sector × Blk R),
      l.foldl (fun acc (x : Sector × Blk R) => match x with | (_, b) => acc + b.traceK) 0 =
        (l.map (fun p => p.2.traceK)).sum := by
    intro l
    rw [← zero_add (List.sum _), ← Blk.foldl_add_eq_sum]
  show (a.blocks.filter _).foldl _ 0 = _
  rw [e1, Arr.sectors, List.filter_map, List.map_map]
  apply sum_map_congr
  intro p hp
  have hpm : p ∈ a.blocks := (List.mem_filter.mp hp).1
  have esh : Arr.blockShapeD a.indices p.1 = p.2.shape := by rw [Arr.blockShapeD, hsa p hpm]; rfl
  simp only [Function.comp, diagSum, diagLen, esh, Blk.traceK_eq_sum, Arr.elem_of_mem hda hpa hpm]

theorem locateAll_pair (ix0 ix1 : Index) (p q : Nat) :
    Arr.locateAll [ix0, ix1] [p, q] =
      (Arr.locate (Index.sortCm ix0.cm) p).bind (fun co =>
        (Arr.locate (Index.sortCm ix1.cm) q).map (fun co' => ([co.1, co'.1], [co.2, co'.2]))) := by
  rw [Arr.locateAll_cons, Arr.locateAll_cons]
  cases Arr.locate (Index.sortCm ix0.cm) p with
  | none => rfl
  | some co =>
    cases Arr.locate (Index.sortCm ix1.cm) q with
    | none => rfl
    | some co' => rfl

/-- **trace, dense form.**  When the two indices have the same sorted charge table, the trace of
    the array is the trace of its dense form: `a.trace() = np.trace(a.to_dense())`. -/
theorem traceA_toDense' [AddCommMonoid R] [Neg R] (a : Arr R) (ix0 ix1 : Index)
    (hidx : a.indices = [ix0, ix1]) (hcm : Index.sortCm ix0.cm = Index.sortCm ix1.cm)
    (hpa : a.phases = []) (hda : allDistinct a.sectors = true) (hsa : a.shapesOk)
    (hnda : ∀ ix ∈ a.indices, (ix.cm.map (·.1)).Nodup)
    (hea : a.indices.any (fun ix => ix.cm.isEmpty) = false) :
    ∃ dA, a.toDenseA = .ok dA ∧ traceA a = .ok dA.traceK := by
  have h2 : a.ndim = 2 := by simp [Arr.ndim, hidx]
  obtain ⟨dA, hAok, hAsh, hA⟩ := Arr.toDenseA_get a hea
  refine ⟨dA, hAok, ?_⟩
  rw [traceA_elem' a h2 hpa hda hsa]
  congr 1
  have hnd0 : (ix0.cm.map (·.1)).Nodup := hnda ix0 (by simp [hidx])
  have hnd1 : (ix1.cm.map (·.1)).Nodup := hnda ix1 (by simp [hidx])
  have hN : ix1.sizeTotal = ix0.sizeTotal := by
    rw [Index.sizeTotal, Index.sizeTotal, ← sumN_sortCm ix0.cm, ← sumN_sortCm ix1.cm, hcm]
  have eshape : dA.shape = [ix0.sizeTotal, ix0.sizeTotal] := by
    rw [hAsh, Arr.shape, hidx]; simp [hN]
  -- dense side
  let G : Option (Charge × Nat) → R := fun x =>
    match x with
    | some (c, o) => a.elem [c, c] [o, o]
    | none => 0
  have hdense : dA.traceK =
      ((List.range (sumN ((Index.sortCm ix0.cm).map (·.2)))).map
        (fun p => G (Arr.locate (Index.sortCm ix0.cm) p))).sum := by
    rw [Blk.traceK_eq_sum, eshape]
    simp only [List.getD_cons_zero, List.getD_cons_succ, Nat.min_self]
    rw [show ix0.sizeTotal = sumN ((Index.sortCm ix0.cm).map (·.2)) from (sumN_sortCm ix0.cm).symm]
    apply sum_map_congr
    intro p hp
    have hp' : p < ix0.sizeTotal := by
      rw [show ix0.sizeTotal = sumN ((Index.sortCm ix0.cm).map (·.2)) from (sumN_sortCm ix0.cm).symm]
      exact List.mem_range.mp hp
    have hbox : inBox a.shape [p, p] = true := by
      rw [Arr.shape, hidx]; simp [inBox, hp', hN]
    obtain ⟨sec, off, hso, hget⟩ := hA [p, p] hbox
    rw [hidx, locateAll_pair, ← hcm] at hso
    rw [hget]
    cases hl : Arr.locate (Index.sortCm ix0.cm) p with
    | none => simp [hl] at hso
    | some co =>
      simp only [hl, Option.bind_some, Option.map_some, Option.some.injEq, Prod.mk.injEq] at hso
      obtain ⟨rfl, rfl⟩ := hso
      rfl
  rw [hdense, sum_locate]
  -- restrict to the charges whose diagonal sector is stored
  let P : Charge × Nat → Bool := fun cd => a.sectors.contains [cd.1, cd.1]
  rw [← sum_filter_of_zero P _ (Index.sortCm ix0.cm) (by
    intro cd _ hP
    apply List.sum_eq_zero
    intro x hx
    obtain ⟨o, _, rfl⟩ := List.mem_map.mp hx
    simp only [P, List.contains_eq_mem, decide_eq_false_iff_not] at hP
    exact Arr.elem_of_not_mem hP _)]
  -- each remaining charge contributes the diagonal of its stored sector
  have hkeys : ((Index.sortCm ix0.cm).map (·.1)).Nodup := nodup_keys_sortCm hnd0
  have hterm : ∀ cd ∈ (Index.sortCm ix0.cm).filter P,
      ((List.range cd.2).map (fun o => G (some (cd.1, o)))).sum = diagSum a [cd.1, cd.1] := by
    rintro ⟨c, d⟩ hcd
    have hmem := (List.mem_filter.mp hcd).1
    have h0 : ix0.sizeOf? c = some d := alookup_of_mem_nodup hnd0 (mem_sortCm.mp hmem)
    have h1 : ix1.sizeOf? c = some d := alookup_of_mem_nodup hnd1 (mem_sortCm.mp (hcm ▸ hmem))
    have : Arr.blockShapeD a.indices [c, c] = [d, d] := by
      rw [Arr.blockShapeD, hidx, Arr.blockShape?_cons, Arr.blockShape?_cons, h0, h1,
        Arr.blockShape?_nil_nil]
      rfl
    simp only [diagSum, diagLen, this, List.getD_cons_zero, List.getD_cons_succ, Nat.min_self]
    rfl
  rw [sum_map_congr hterm,
    show (fun cd : Charge × Nat => diagSum a [cd.1, cd.1]) = diagSum a ∘ (fun cd => [cd.1, cd.1]) from rfl,
    ← List.map_map]
  apply List.Perm.sum_eq
  apply List.Perm.map
  rw [List.perm_ext_iff_of_nodup]
  · intro s
    simp only [List.mem_map, List.mem_filter, P, List.contains_eq_mem, decide_eq_true_eq,
      beq_iff_eq]
    constructor
    · rintro ⟨hs, hdiag⟩
      obtain ⟨p, hp, rfl⟩ := List.mem_map.mp hs
      have hsh := hsa p hp
      rw [hidx] at hsh
      have hch := charges_of_blockShape? hsh
      match hps : p.1, hch with
      | [c, c'], .cons hc (.cons hc' .nil) =>
        rw [hps] at hdiag hs
        simp only [List.getElem?_cons_zero, List.getElem?_cons_succ, Option.some.injEq] at hdiag
        subst hdiag
        obtain ⟨cd, hcd, rfl⟩ := List.mem_map.mp hc
        exact ⟨cd, ⟨mem_sortCm.mpr hcd, hs⟩, rfl⟩
    · rintro ⟨⟨c, d⟩, ⟨_, hs⟩, rfl⟩
      exact ⟨hs, rfl⟩
  · exact (allDistinct_iff_nodup.mp hda).filter _
  · refine List.Nodup.map_on ?_ ((List.Nodup.of_map _ hkeys).filter _)
    intro x hx y hy hxy
    have h1 : x.1 = y.1 := by simpa using (List.cons.inj hxy).1
    exact (List.inj_on_of_nodup_map hkeys (List.mem_filter.mp hx).1 (List.mem_filter.mp hy).1 h1)

/-! ### single-operand einsum -/

/-- traced labels of an einsum `lhs -> rhs`, in the order the kernel enumerates them -/
def einTraced (lhs rhs : List Nat) : List Nat := (lhs.filter (fun q => !rhs.contains q)).eraseDups

/-- size of a label: size of the first axis that carries it -/
def einSize (shape : List Nat) (lhs : List Nat) (q : Nat) : Nat :=
  match indexOf? lhs q with
  | some j => shape.getD j 0
  | none => 0

/-- operand index assembled from the output index `i` and the traced index `t` -/
def einIdx (lhs rhs : List Nat) (i t : List Nat) : List Nat :=
  lhs.map (fun q =>
    match indexOf? rhs q with
    | some j => i.getD j 0
    | none => match indexOf? (einTraced lhs rhs) q with
              | some j => t.getD j 0
              | none => 0)

theorem Blk.einsumK_shape [Zero R] [Add R] (b : Blk R) (lhs rhs : List Nat) :
    (b.einsumK lhs rhs).shape = rhs.map (einSize b.shape lhs) := rfl

/-- `einsumK` entry = left fold of `+` over the traced box -/
theorem Blk.einsumK_get_foldl [Zero R] [Add R] (b : Blk R) (lhs rhs : List Nat) {i : List Nat}
    (h : inBox (b.einsumK lhs rhs).shape i = true) :
    (b.einsumK lhs rhs).get i =
      (allIdx ((einTraced lhs rhs).map (einSize b.shape lhs))).foldl
        (fun acc t => acc + b.get (einIdx lhs rhs i t)) 0 := by
  rw [Blk.einsumK_shape] at h
  unfold Blk.einsumK
  exact Blk.get_ofFn _ h

/-- **einsumK_get.**  `einsumK` is the finite sum over the box of the traced labels. -/
theorem Blk.einsumK_get [AddMonoid R] (b : Blk R) (lhs rhs : List Nat) {i : List Nat}
    (h : inBox (b.einsumK lhs rhs).shape i = true) :
    (b.einsumK lhs rhs).get i =
      ((allIdx ((einTraced lhs rhs).map (einSize b.shape lhs))).map
        (fun t => b.get (einIdx lhs rhs i t))).sum := by
  rw [Blk.einsumK_get_foldl b lhs rhs h, Blk.foldl_add_eq_sum, zero_add]

example : ((⟨[2, 2], #[1, 2, 3, 4]⟩ : Blk Int).einsumK [0, 0] []).data = #[5] := by decide +kernel
example : ((⟨[2, 3], #[1, 2, 3, 4, 5, 6]⟩ : Blk Int).einsumK [0, 1] [1, 0]).data = #[1, 4, 2, 5, 3, 6] := by
  decide +kernel

/-- positions of each traced label in `lhs` -/
def einTracedPos (lhs rhs : List Nat) : List (List Nat) :=
  (einTraced lhs rhs).map (fun q => (lhs.zipIdx.filter (fun p => p.1 == q)).map (·.2))

/-- a sector contributes iff every traced pair of axes carries equal charges -/
def einKeep (lhs rhs : List Nat) (s : Sector) : Bool :=
  (einTracedPos lhs rhs).all (fun js => s[js.getD 0 0]? == s[js.getD 1 0]?)

/-- the output permutation: first position in `lhs` of every output label -/
def einPerm? (lhs rhs : List Nat) : Except Err (List Nat) :=
  rhs.mapM (fun q => match indexOf? lhs q with
    | some j => pure j
    | none => throw Err.value)

/-- the `(result sector, einsum of the block)` list that is accumulated -/
def einTerms [Zero R] [Add R] (a : Arr R) (lhs rhs perm : List Nat) : List (Sector × Blk R) :=
  (a.blocks.filter (fun p => einKeep lhs rhs p.1)).map
    (fun p => (permuted p.1 perm, p.2.einsumK lhs rhs))

theorem foldl_ite_eq_filter_map {α β γ : Type} (p : α → Bool) (f : α → β) (g : γ → β → γ)
    (l : List α) (init : γ) :
    l.foldl (fun acc x => if p x then g acc (f x) else acc) init =
      ((l.filter p).map f).foldl g init := by
  induction l generalizing init with
  | nil => rfl
  | cons x xs ih =>
    rw [List.foldl_cons, List.filter_cons]
    cases hp : p x with
    | true => simp [ih]
    | false => simp [ih]

/-- `einsumA` as an accumulation: when every output label occurs in `lhs` and every traced label
    occurs exactly twice, the result is `a` with permuted indices and accumulated blocks -/
theorem einsumA_eq [Zero R] [Add R] (a : Arr R) (lhs rhs perm : List Nat)
    (hperm : einPerm? lhs rhs = .ok perm)
    (h2 : (einTracedPos lhs rhs).any (fun js => js.length != 2) = false) :
    einsumA a lhs rhs = .ok { a with indices := permuted a.indices perm,
                                     blocks := accum (Blk.zipWith (· + ·)) (einTerms a lhs rhs perm) } := by
  unfold einsumA
  unfold einPerm? at hperm
  unfold einTracedPos einTraced at h2
  simp only [bind, Except.bind]
  generalize hg : (List.mapM _ rhs : Except Err (List Nat)) = e
  have he : e = .ok perm := by rw [← hg]; exact hperm
  subst he
  simp only [h2, Bool.false_eq_true, if_false, pure, Except.pure]
  congr 2
  unfold accum einTerms
  rw [← foldl_ite_eq_filter_map (fun p : Sector × Blk R => einKeep lhs rhs p.1)
    (fun p => (permuted p.1 perm, p.2.einsumK lhs rhs)) (accStep (Blk.zipWith (· + ·)))]
  congr 1
  funext acc sb
  obtain ⟨sector, array⟩ := sb
  show (if einKeep lhs rhs sector = true then
      (match alookup acc (permuted sector perm) with
        | some cur => ainsert acc (permuted sector perm) (Blk.zipWith (· + ·) cur (array.einsumK lhs rhs))
        | none => acc ++ [(permuted sector perm, array.einsumK lhs rhs)])
      else acc) = _
  by_cases hk : einKeep lhs rhs sector = true
  · simp only [hk, if_true, accStep]
    cases alookup acc (permuted sector perm) <;> rfl
  · simp only [hk, Bool.false_eq_true, if_false]

/-- the accumulate lemma in the form used for value views: what the dictionary holds for `k`,
    read at `i` (0 if nothing is stored) -/
theorem accum_lookup_get_sum [AddMonoid R] {κ : Type} [BEq κ] [LawfulBEq κ] (ps : List (κ × Blk R))
    (k : κ) (i : List Nat)
    (hi : ∀ p ∈ ps.filter (fun p => p.1 == k), inBox p.2.shape i = true) :
    (match alookup (accum (Blk.zipWith (· + ·)) ps) k with
      | none => 0
      | some blk => blk.get i) =
    ((ps.filter (fun p => p.1 == k)).map (fun p => p.2.get i)).sum := by
  cases hf : ps.filter (fun p => p.1 == k) with
  | nil => rw [accum_none _ _ _ hf]; rfl
  | cons q qs =>
    have hv : (ps.filter (fun p => p.1 == k)).map (·.2) = q.2 :: qs.map (·.2) := by rw [hf]; rfl
    obtain ⟨blk, h1, _, h3⟩ := accum_get_sum ps k _ _ hv (hi q (by rw [hf]; simp))
    rw [h1]
    show blk.get i = _
    rw [h3, hf]

theorem einsumA_sectors [Zero R] [Add R] (a : Arr R) (lhs rhs perm : List Nat) :
    akeys (accum (Blk.zipWith (· + ·)) (einTerms a lhs rhs perm)) =
      ((a.sectors.filter (einKeep lhs rhs)).map (fun s => permuted s perm)).eraseDups := by
  rw [akeys_accum]
  congr 1
  simp only [akeys, einTerms, Arr.sectors, List.map_map, List.filter_map]
  rfl

/-- **einsumA_elem.**  Value view of the single-operand einsum: the element at `(s', o')` is the
    sum over the stored sectors `s` that pass the trace test and whose kept part is `s'` of the
    sum over the traced box of `a.elem s (assembled offsets)`. -/
theorem einsumA_elem' [AddMonoid R] [Neg R] (a : Arr R) (lhs rhs perm : List Nat)
    (hperm : einPerm? lhs rhs = .ok perm)
    (h2 : (einTracedPos lhs rhs).any (fun js => js.length != 2) = false)
    (hpa : a.phases = []) (hda : allDistinct a.sectors = true) (hsa : a.shapesOk)
    (s' : Sector) (o' : List Nat)
    (ho : ∀ s ∈ a.sectors, einKeep lhs rhs s = true → permuted s perm = s' →
      inBox (rhs.map (einSize (Arr.blockShapeD a.indices s) lhs)) o' = true) :
    ∃ c, einsumA a lhs rhs = .ok c ∧ c.indices = permuted a.indices perm ∧
      c.sectors = ((a.sectors.filter (einKeep lhs rhs)).map (fun s => permuted s perm)).eraseDups ∧
      c.elem s' o' =
        ((a.sectors.filter (fun s => einKeep lhs rhs s && permuted s perm == s')).map (fun s =>
          ((allIdx ((einTraced lhs rhs).map (einSize (Arr.blockShapeD a.indices s) lhs))).map
            (fun t => a.elem s (einIdx lhs rhs o' t))).sum)).sum := by
  refine ⟨_, einsumA_eq a lhs rhs perm hperm h2, rfl, einsumA_sectors a lhs rhs perm, ?_⟩
  rw [Arr.elem_of_phases_nil (by exact hpa)]
  show (match alookup (accum (Blk.zipWith (· + ·)) (einTerms a lhs rhs perm)) s' with
    | none => 0
    | some blk => blk.get o') = _
  have hfilt : (einTerms a lhs rhs perm).filter (fun p => p.1 == s') =
      (a.blocks.filter (fun p => einKeep lhs rhs p.1 && permuted p.1 perm == s')).map
        (fun p => (permuted p.1 perm, p.2.einsumK lhs rhs)) := by
    unfold einTerms
    rw [List.filter_map, List.filter_filter]
    congr 1
    apply List.filter_congr
    intro p _
    simp only [Function.comp]
    rw [Bool.and_comm]
  have esh : ∀ p ∈ a.blocks, Arr.blockShapeD a.indices p.1 = p.2.shape := by
    intro p hp; rw [Arr.blockShapeD, hsa p hp]; rfl
  rw [accum_lookup_get_sum _ _ _ (by
    intro p hp
    rw [hfilt] at hp
    obtain ⟨q, hq, rfl⟩ := List.mem_map.mp hp
    obtain ⟨hqm, hqc⟩ := List.mem_filter.mp hq
    simp only [Bool.and_eq_true, beq_iff_eq] at hqc
    rw [Blk.einsumK_shape, ← esh q hqm]
    exact ho q.1 (List.mem_map.mpr ⟨q, hqm, rfl⟩) hqc.1 hqc.2), hfilt, List.map_map, Arr.sectors,
    List.filter_map, List.map_map]
  apply sum_map_congr
  intro p hp
  obtain ⟨hpm, hpc⟩ := List.mem_filter.mp hp
  simp only [Function.comp, Bool.and_eq_true, beq_iff_eq] at hpc ⊢
  rw [Blk.einsumK_get p.2 lhs rhs (by
    rw [Blk.einsumK_shape, ← esh p hpm]
    exact ho p.1 (List.mem_map.mpr ⟨p, hpm, rfl⟩) hpc.1 hpc.2)]
  simp only [esh p hpm, Arr.elem_of_mem hda hpa hpm]

/-- every output label occurring in `lhs` gives the permutation of first positions -/
theorem einPerm?_ok (lhs rhs : List Nat) (h : ∀ q ∈ rhs, q ∈ lhs) :
    einPerm? lhs rhs = .ok (rhs.map (fun q => (indexOf? lhs q).getD 0)) := by
  unfold einPerm?
  induction rhs with
  | nil => rfl
  | cons q qs ih =>
    rw [List.mapM_cons, ih (fun x hx => h x (by simp [hx]))]
    cases hq : indexOf? lhs q with
    | none => exact absurd (h q (by simp)) (indexOf?_eq_none_iff.mp hq)
    | some j => simp [hq, bind, Except.bind, pure, Except.pure]

/-! ### outer product (no contracted axes) -/

theorem freeAxes_nil (n : Nat) : freeAxes n [] = List.range n := by
  simp [freeAxes]

theorem permuted_range {α : Type} (x : List α) : permuted x (List.range x.length) = x := by
  apply List.ext_getElem?
  intro j
  rw [permuted_getElem? _ _ (by simp)]
  by_cases hj : j < x.length
  · simp [List.getElem?_range hj]
  · rw [List.getElem?_eq_none (by simpa using hj), List.getElem?_eq_none (by omega)]; rfl

theorem without_nil {α : Type} (x : List α) : without x [] = x := by
  rw [without_eq_permuted_freeAxes, freeAxes_nil, permuted_range]

theorem mergeIdx_nil_axes {α : Type} (d : α) {n : Nat} {x : List α} (h : x.length = n) :
    mergeIdx d n [] (freeAxes n []) [] x = x := by
  have := mergeIdx_permuted d (axes := []) (free := freeAxes n []) h (by simp) mem_freeAxes_lt
    (fun y hy => Or.inr (mem_freeAxes.mpr ⟨hy, by simp⟩))
  rw [freeAxes_nil, ← h, permuted_range] at this
  rw [freeAxes_nil, ← h]
  exact this

/-- **tensordot_outer.**  With no contracted axes the element at `(sa ++ sb, oa ++ ob)` is the
    product of the operands' elements. -/
theorem tensordot_outer' [AddCommMonoid R] [Mul R] [Neg R]
    (hz1 : ∀ x : R, 0 * x = 0) (hz2 : ∀ x : R, x * 0 = 0) (a b : Arr R)
    (hpa : a.phases = []) (hpb : b.phases = [])
    (hda : allDistinct a.sectors = true) (hdb : allDistinct b.sectors = true)
    (hsa : a.shapesOk) (hsb : b.shapesOk) (sa sb : Sector) (oa ob : List Nat)
    (hsal : sa.length = a.ndim) (hsbl : sb.length = b.ndim)
    (hoal : oa.length = a.ndim) (hobl : ob.length = b.ndim)
    (ho : inBox (Arr.blockShapeD (a.indices ++ b.indices) (sa ++ sb)) (oa ++ ob) = true) :
    (tensordotBlockwise a b (freeAxes a.ndim []) [] [] (freeAxes b.ndim [])).elem (sa ++ sb) (oa ++ ob) =
      a.elem sa oa * b.elem sb ob := by
  have hfa : (freeAxes a.ndim []).length = a.ndim := by simp [freeAxes_nil]
  have hfb : (freeAxes b.ndim []).length = b.ndim := by simp [freeAxes_nil]
  rw [tensordotBlockwise_elem_dense' hz1 hz2 a b [] [] hpa hpb hda hdb hsa hsb List.nodup_nil (by simp)
    List.nodup_nil (by simp) rfl [[]] (by simp) (by simp) (by simp [permuted]) sa sb
    (by rw [hfa]; exact hsal) (by rw [hfb]; exact hsbl) (oa ++ ob)
    (by rw [without_nil, without_nil]; exact ho)]
  have etake : (oa ++ ob).take (freeAxes a.ndim []).length = oa := by rw [hfa, ← hoal]; simp
  have edrop : (oa ++ ob).drop (freeAxes a.ndim []).length = ob := by rw [hfa, ← hoal]; simp
  rw [etake, edrop]
  simp only [List.map_cons, List.map_nil, List.sum_cons, List.sum_nil, add_zero, contractPair,
    contractTerm, permuted, List.filterMap_nil, allIdx, mergeSec]
  rw [mergeIdx_nil_axes _ hsal, mergeIdx_nil_axes _ hsbl, mergeIdx_nil_axes _ hoal,
    mergeIdx_nil_axes _ hobl]

end TdotP
end SymmModel
