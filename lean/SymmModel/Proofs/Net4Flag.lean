/-
  SymmModel.Proofs.Net4Flag — the five bracketings of a four-tensor network (K4 bonds) as programs
  of three calls, each call with a Boolean flag: a flagged call is made with the operands
  EXCHANGED and followed by the `transposeF` that rotates the two free blocks back (`callS`).
  For any assignment of the fifteen flags the five routes succeed and are `Eqv` to the unflagged
  left-nested route.  Namespace `SymmModel.Net4P`.
-/
import SymmModel.Proofs.Net4K4

namespace SymmModel
namespace Net4P
open TdotP GradedP RoutesP KoszulP AssocP Assoc2P Assoc3P Assoc5P
set_option linter.unusedSectionVars false

variable {R : Type}

/-- a call `X·Y` on `xa ~ xb`; with `sw = true` it is made as `Y·X` on `xb ~ xa` and the result is
    rotated back (free legs of `X` first) by `transposeF` -/
def callS [Zero R] [Add R] [Mul R] [Neg R] (sw : Bool) (X Y : Arr R) (xa xb : List Nat) :
    Except Err (Arr R) :=
  match sw with
  | false => tdF X Y xa xb
  | true => (tdF Y X xb xa).map (fun z =>
      z.transposeF (rotB (freeAxes Y.ndim xb).length (freeAxes X.ndim xa).length))

section routes
variable [Zero R] [Add R] [Mul R] [Neg R]
variable (A B C D : Arr R) (ab ac ad ba bc bd ca cb cd da db dc : List Nat)

/-- the legs of `A·B·C` bonded to `D`: images of `ad` and `bd` in `A·B`, then these and `cd` in
    `(A·B)·C` -/
def axesABC_D : List Nat :=
  Assoc2P.axesAB ((freeAxes A.ndim ab).length + (freeAxes B.ndim ba).length) C.ndim
    (Assoc2P.axesAB A.ndim B.ndim ab ac ba bc) (Assoc2P.axesAB A.ndim B.ndim ab ad ba bd) (ca ++ cb) cd

/-- the legs of `B·C·D` bonded to `A` -/
def axesBCD_A : List Nat :=
  Assoc2P.axesBC B.ndim ((freeAxes C.ndim cd).length + (freeAxes D.ndim dc).length) ba (bc ++ bd)
    (Assoc2P.axesBC C.ndim D.ndim cb cd dc db) (Assoc2P.axesBC C.ndim D.ndim ca cd dc da)

/-- `((A·B)·C)·D` -/
def routeS1 (f1 f2 f3 : Bool) : Except Err (Arr R) :=
  (callS f1 A B ab ba).bind fun AB =>
  (callS f2 AB C (Assoc2P.axesAB A.ndim B.ndim ab ac ba bc) (ca ++ cb)).bind fun ABC =>
  callS f3 ABC D (axesABC_D A B C ab ac ad ba bc bd ca cb cd) ((da ++ db) ++ dc)

/-- `(A·(B·C))·D` -/
def routeS2 (f1 f2 f3 : Bool) : Except Err (Arr R) :=
  (callS f1 B C bc cb).bind fun BC =>
  (callS f2 A BC (ab ++ ac) (Assoc2P.axesBC B.ndim C.ndim ba bc cb ca)).bind fun ABC =>
  callS f3 ABC D (axesABC_D A B C ab ac ad ba bc bd ca cb cd) ((da ++ db) ++ dc)

/-- `(A·B)·(C·D)` -/
def routeS3 (f1 f2 f3 : Bool) : Except Err (Arr R) :=
  (callS f1 A B ab ba).bind fun AB =>
  (callS f2 C D cd dc).bind fun CD =>
  callS f3 AB CD
    (Assoc2P.axesAB A.ndim B.ndim ab ac ba bc ++ Assoc2P.axesAB A.ndim B.ndim ab ad ba bd)
    (Assoc2P.axesBC C.ndim D.ndim (ca ++ cb) cd dc (da ++ db))

/-- `A·((B·C)·D)` -/
def routeS4 (f1 f2 f3 : Bool) : Except Err (Arr R) :=
  (callS f1 B C bc cb).bind fun BC =>
  (callS f2 BC D (Assoc2P.axesAB B.ndim C.ndim bc bd cb cd) (db ++ dc)).bind fun BCD =>
  callS f3 A BCD (ab ++ (ac ++ ad)) (axesBCD_A B C D ba bc bd ca cb cd da db dc)

/-- `A·(B·(C·D))` -/
def routeS5 (f1 f2 f3 : Bool) : Except Err (Arr R) :=
  (callS f1 C D cd dc).bind fun CD =>
  (callS f2 B CD (bc ++ bd) (Assoc2P.axesBC C.ndim D.ndim cb cd dc db)).bind fun BCD =>
  callS f3 A BCD (ab ++ (ac ++ ad)) (axesBCD_A B C D ba bc bd ca cb cd da db dc)

end routes

section
variable [AddCommMonoid R] [Mul R] [Neg R] [SignRing R] [AssocLaws R]

/-- one (possibly flagged) call on operands equivalent to those of a successful plain call -/
theorem step (hmul : ∀ x y : R, x * y = y * x) (sw : Bool) {X X' Y Y' : Arr R} {xa xb : List Nat}
    (W : AdmW X Y xa xb) (hd : OddposP.LabelsDistinct (X.oddpos ++ Y.oddpos))
    (eX : Eqv X X') (eY : Eqv Y Y') (vX' : X'.validB = true) (vY' : Y'.validB = true)
    (Z : Arr R) (e : tdF X Y xa xb = .ok Z) :
    ∃ Z', callS sw X' Y' xa xb = .ok Z' ∧ Eqv Z Z' ∧ Z'.validB = true := by
  obtain ⟨Z1, e1, h1⟩ := tdotF_congr W eX eY vX' vY' Z e
  have W' : AdmW X' Y' xa xb := admW_congr W eX eY vX' vY'
  have hd' : OddposP.LabelsDistinct (X'.oddpos ++ Y'.oddpos) := by
    rw [← eX.oddpos, ← eY.oddpos]; exact hd
  cases sw with
  | false =>
    obtain ⟨Z2, _, e2, I2, _⟩ := call_pack X' Y' xa xb W' hd'
    rw [e1] at e2
    obtain rfl := Except.ok.inj e2
    exact ⟨Z1, e1, h1, I2.valid⟩
  | true =>
    obtain ⟨c', ec', _, hval, hE⟩ := swap_eqv hmul W' hd' Z1 e1
    refine ⟨_, ?_, h1.trans hE.symm, hval⟩
    unfold callS
    simp only []
    rw [ec']
    rfl

/-- **K4 with operand order**: any assignment of the fifteen flags -/
theorem k4_flagged (hmul : ∀ x y : R, x * y = y * x) (A B C D : Arr R)
    (ab ac ad ba bc bd ca cb cd da db dc : List Nat)
    (WAB : AdmW A B ab ba) (WAC : AdmW A C ac ca) (WAD : AdmW A D ad da)
    (WBC : AdmW B C bc cb) (WBD : AdmW B D bd db) (WCD : AdmW C D cd dc)
    (hnA : (ab ++ ac ++ ad).Nodup) (hnB : (ba ++ bc ++ bd).Nodup)
    (hnC : (ca ++ cb ++ cd).Nodup) (hnD : (da ++ db ++ dc).Nodup)
    (hd : OddposP.LabelsDistinct (A.oddpos ++ B.oddpos ++ C.oddpos ++ D.oddpos)) :
    ∃ T1 : Arr R, routeS1 A B C D ab ac ad ba bc bd ca cb cd da db dc false false false = .ok T1
      ∧ T1.validB = true
      ∧ ∀ f : Fin 15 → Bool, ∃ U1 U2 U3 U4 U5 : Arr R,
        routeS1 A B C D ab ac ad ba bc bd ca cb cd da db dc (f 0) (f 1) (f 2) = .ok U1
        ∧ routeS2 A B C D ab ac ad ba bc bd ca cb cd da db dc (f 3) (f 4) (f 5) = .ok U2
        ∧ routeS3 A B C D ab ac ad ba bc bd ca cb cd da db dc (f 6) (f 7) (f 8) = .ok U3
        ∧ routeS4 A B C D ab ac ad ba bc bd ca cb cd da db dc (f 9) (f 10) (f 11) = .ok U4
        ∧ routeS5 A B C D ab ac ad ba bc bd ca cb cd da db dc (f 12) (f 13) (f 14) = .ok U5
        ∧ Eqv U1 T1 ∧ Eqv U2 T1 ∧ Eqv U3 T1 ∧ Eqv U4 T1 ∧ Eqv U5 T1
        ∧ U1.validB = true ∧ U2.validB = true ∧ U3.validB = true ∧ U4.validB = true
        ∧ U5.validB = true := by
  obtain ⟨AB, BC, CD, ABC1, ABC2, BCD1, BCD2, T1, T2, T3, T4, T5, eAB, eBC, eCD, eABC1, eABC2, eBCD1,
    eBCD2, eT1, eT2, eT3, eT4, eT5, q2, q3, q4, q5, hv, X⟩ :=
    k4x A B C D ab ac ad ba bc bd ca cb cd da db dc WAB WAC WAD WBC WBD WCD hnA hnB hnC hnD hd
  -- label bookkeeping
  have LD : ∀ {M : List (Int × Bool)} (l : List (Int × Bool)), M.Perm l →
      l.Sublist (A.oddpos ++ (B.oddpos ++ (C.oddpos ++ D.oddpos))) → OddposP.LabelsDistinct M := by
    intro M l hp hs
    have hd' : OddposP.LabelsDistinct (A.oddpos ++ (B.oddpos ++ (C.oddpos ++ D.oddpos))) := by
      simpa only [List.append_assoc] using hd
    exact dist_of hd' l hp.symm hs
  have sAB : (A.oddpos ++ B.oddpos).Sublist (A.oddpos ++ (B.oddpos ++ (C.oddpos ++ D.oddpos))) :=
    (List.Sublist.refl _).append (List.sublist_append_left _ _)
  have sBC : (B.oddpos ++ C.oddpos).Sublist (A.oddpos ++ (B.oddpos ++ (C.oddpos ++ D.oddpos))) :=
    (((List.Sublist.refl _).append (List.sublist_append_left _ _))).trans
      (List.sublist_append_right _ _)
  have sCD : (C.oddpos ++ D.oddpos).Sublist (A.oddpos ++ (B.oddpos ++ (C.oddpos ++ D.oddpos))) :=
    (List.sublist_append_right _ _).trans (List.sublist_append_right _ _)
  have sABC : (A.oddpos ++ (B.oddpos ++ C.oddpos)).Sublist
      (A.oddpos ++ (B.oddpos ++ (C.oddpos ++ D.oddpos))) :=
    (List.Sublist.refl _).append ((List.Sublist.refl _).append (List.sublist_append_left _ _))
  have sBCD : (B.oddpos ++ (C.oddpos ++ D.oddpos)).Sublist
      (A.oddpos ++ (B.oddpos ++ (C.oddpos ++ D.oddpos))) := List.sublist_append_right _ _
  have h_ab := LD _ (List.Perm.refl (A.oddpos ++ B.oddpos)) sAB
  have h_bc := LD _ (List.Perm.refl (B.oddpos ++ C.oddpos)) sBC
  have h_cd := LD _ (List.Perm.refl (C.oddpos ++ D.oddpos)) sCD
  have h_ABc : OddposP.LabelsDistinct (AB.oddpos ++ C.oddpos) :=
    LD _ (by simpa only [List.append_assoc] using X.pAB.append_right C.oddpos) sABC
  have h_aBC : OddposP.LabelsDistinct (A.oddpos ++ BC.oddpos) :=
    LD _ (X.pBC.append_left A.oddpos) sABC
  have h_BCd : OddposP.LabelsDistinct (BC.oddpos ++ D.oddpos) :=
    LD _ (by simpa only [List.append_assoc] using X.pBC.append_right D.oddpos) sBCD
  have h_bCD : OddposP.LabelsDistinct (B.oddpos ++ CD.oddpos) :=
    LD _ (X.pCD.append_left B.oddpos) sBCD
  have h_T1 : OddposP.LabelsDistinct (ABC1.oddpos ++ D.oddpos) :=
    LD _ (by simpa only [List.append_assoc] using
      ((X.pABC1.trans (X.pAB.append_right _)).append_right D.oddpos)) (List.Sublist.refl _)
  have h_T2 : OddposP.LabelsDistinct (ABC2.oddpos ++ D.oddpos) :=
    LD _ (by simpa only [List.append_assoc] using
      ((X.pABC2.trans (X.pBC.append_left _)).append_right D.oddpos)) (List.Sublist.refl _)
  have h_T3 : OddposP.LabelsDistinct (AB.oddpos ++ CD.oddpos) :=
    LD _ (by simpa only [List.append_assoc] using
      ((X.pAB.append_right _).trans (X.pCD.append_left _))) (List.Sublist.refl _)
  have h_T4 : OddposP.LabelsDistinct (A.oddpos ++ BCD1.oddpos) :=
    LD _ (by simpa only [List.append_assoc] using
      ((X.pBCD1.trans (X.pBC.append_right _)).append_left A.oddpos)) (List.Sublist.refl _)
  have h_T5 : OddposP.LabelsDistinct (A.oddpos ++ BCD2.oddpos) :=
    LD _ ((X.pBCD2.trans (X.pCD.append_left _)).append_left A.oddpos) (List.Sublist.refl _)
  refine ⟨T1, ?_, hv, ?_⟩
  · unfold routeS1 callS axesABC_D
    simp only []
    rw [eAB]; simp only [Except.bind]; rw [eABC1]; exact eT1
  intro f
  -- route 1
  obtain ⟨AB1, a11, b11, v11⟩ := step hmul (f 0) WAB h_ab (Eqv.refl A) (Eqv.refl B) WAB.va WAB.vb AB eAB
  obtain ⟨ABC1', a12, b12, v12⟩ := step hmul (f 1) X.wABc h_ABc b11 (Eqv.refl C) v11 WBC.vb ABC1 eABC1
  obtain ⟨U1, a13, b13, v13⟩ := step hmul (f 2) X.wT1 h_T1 b12 (Eqv.refl D) v12 WCD.vb T1 eT1
  -- route 2
  obtain ⟨BC2, a21, b21, v21⟩ := step hmul (f 3) WBC h_bc (Eqv.refl B) (Eqv.refl C) WBC.va WBC.vb BC eBC
  obtain ⟨ABC2', a22, b22, v22⟩ := step hmul (f 4) X.waBC h_aBC (Eqv.refl A) b21 WAB.va v21 ABC2 eABC2
  obtain ⟨U2, a23, b23, v23⟩ := step hmul (f 5) X.wT2 h_T2 b22 (Eqv.refl D) v22 WCD.vb T2 eT2
  -- route 3
  obtain ⟨AB3, a31, b31, v31⟩ := step hmul (f 6) WAB h_ab (Eqv.refl A) (Eqv.refl B) WAB.va WAB.vb AB eAB
  obtain ⟨CD3, a32, b32, v32⟩ := step hmul (f 7) WCD h_cd (Eqv.refl C) (Eqv.refl D) WCD.va WCD.vb CD eCD
  obtain ⟨U3, a33, b33, v33⟩ := step hmul (f 8) X.wT3 h_T3 b31 b32 v31 v32 T3 eT3
  -- route 4
  obtain ⟨BC4, a41, b41, v41⟩ := step hmul (f 9) WBC h_bc (Eqv.refl B) (Eqv.refl C) WBC.va WBC.vb BC eBC
  obtain ⟨BCD4, a42, b42, v42⟩ := step hmul (f 10) X.wBCd h_BCd b41 (Eqv.refl D) v41 WCD.vb BCD1 eBCD1
  obtain ⟨U4, a43, b43, v43⟩ := step hmul (f 11) X.wT4 h_T4 (Eqv.refl A) b42 WAB.va v42 T4 eT4
  -- route 5
  obtain ⟨CD5, a51, b51, v51⟩ := step hmul (f 12) WCD h_cd (Eqv.refl C) (Eqv.refl D) WCD.va WCD.vb CD eCD
  obtain ⟨BCD5, a52, b52, v52⟩ := step hmul (f 13) X.wbCD h_bCD (Eqv.refl B) b51 WBC.va v51 BCD2 eBCD2
  obtain ⟨U5, a53, b53, v53⟩ := step hmul (f 14) X.wT5 h_T5 (Eqv.refl A) b52 WAB.va v52 T5 eT5
  refine ⟨U1, U2, U3, U4, U5, ?_, ?_, ?_, ?_, ?_, b13.symm, b23.symm.trans q2, b33.symm.trans q3,
    b43.symm.trans q4, b53.symm.trans q5, v13, v23, v33, v43, v53⟩
  · unfold routeS1 axesABC_D; rw [a11]; simp only [Except.bind]; rw [a12]; exact a13
  · unfold routeS2 axesABC_D; rw [a21]; simp only [Except.bind]; rw [a22]; exact a23
  · unfold routeS3; rw [a31]; simp only [Except.bind]; rw [a32]; exact a33
  · unfold routeS4 axesBCD_A; rw [a41]; simp only [Except.bind]; rw [a42]; exact a43
  · unfold routeS5 axesBCD_A; rw [a51]; simp only [Except.bind]; rw [a52]; exact a53

end

end Net4P
end SymmModel
