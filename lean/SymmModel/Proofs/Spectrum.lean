/-
  SymmModel.Proofs.Spectrum — pure linear algebra for C12b: the characteristic polynomial of a
  block-diagonal matrix is the product of the blocks' characteristic polynomials.

  From Mathlib (cited, not reproved):
    `Matrix.BlockTriangular.charpoly`   M block triangular w.r.t. a labelling `b` ⟹
                                        `M.charpoly = ∏ a ∈ image b univ, (M.toSquareBlock b a).charpoly`
    `Matrix.blockTriangular_blockDiagonal'`, `Matrix.charpoly_reindex`, `Matrix.charpoly_zero`,
    `Matrix.charpoly_monic`, `Polynomial.roots_prod`, `Polynomial.roots_list_prod`.
  Proved here: the glue (`charpoly_of_blockDiag`, `charpoly_blockDiagonal'`, the multiset-of-
  eigenvalues corollaries).
-/
import Mathlib.LinearAlgebra.Matrix.Charpoly.Basic
import Mathlib.LinearAlgebra.Matrix.Charpoly.Coeff
import Mathlib.LinearAlgebra.Matrix.Block
import Mathlib.Algebra.Polynomial.Roots

namespace SymmModel
namespace Spectrum

open Matrix Polynomial Finset

variable {R : Type} [CommRing R]

/-- a square matrix that vanishes between positions of different labels is block triangular
    for every linear order on the labels -/
theorem blockTriangular_of_blockDiag {n α : Type} [LinearOrder α] (M : Matrix n n R) (b : n → α)
    (h : ∀ i j, b i ≠ b j → M i j = 0) : M.BlockTriangular b :=
  fun i j hlt => h i j (ne_of_gt hlt)

/-- **charpoly of a labelled block-diagonal matrix**: product over the labels that occur of the
    characteristic polynomials of the diagonal blocks -/
theorem charpoly_of_blockDiag {n α : Type} [Fintype n] [DecidableEq n] [LinearOrder α]
    (M : Matrix n n R) (b : n → α) (h : ∀ i j, b i ≠ b j → M i j = 0) :
    M.charpoly = ∏ a ∈ image b univ, (M.toSquareBlock b a).charpoly :=
  (blockTriangular_of_blockDiag M b h).charpoly

/-- the diagonal block of `blockDiagonal' M` at label `k` is `M k` up to the canonical
    reindexing of the fibre -/
theorem toSquareBlock_blockDiagonal' {o : Type} [DecidableEq o] {n' : o → Type}
    (M : ∀ i, Matrix (n' i) (n' i) R) (k : o) :
    reindex (Equiv.sigmaSubtype k) (Equiv.sigmaSubtype k)
      ((blockDiagonal' M).toSquareBlock Sigma.fst k) = M k := by
  ext i j
  simp only [reindex_apply, submatrix_apply, toSquareBlock_def, of_apply]
  exact blockDiagonal'_apply_eq M k i j

/-- **`charpoly_blockDiagonal'`**: blocks of possibly different sizes over a finite linearly
    ordered index -/
theorem charpoly_blockDiagonal' {o : Type} [Fintype o] [LinearOrder o] {n' : o → Type}
    [∀ i, Fintype (n' i)] [∀ i, DecidableEq (n' i)] (M : ∀ i, Matrix (n' i) (n' i) R) :
    (blockDiagonal' M).charpoly = ∏ k, (M k).charpoly := by
  rw [(blockTriangular_blockDiagonal' M).charpoly]
  have hblk : ∀ k, ((blockDiagonal' M).toSquareBlock Sigma.fst k).charpoly = (M k).charpoly := by
    intro k
    rw [← toSquareBlock_blockDiagonal' M k, charpoly_reindex]
  simp only [hblk]
  apply Finset.prod_subset (Finset.subset_univ _)
  intro k _ hk
  have : IsEmpty (n' k) := by
    constructor
    intro x
    exact hk (Finset.mem_image.mpr ⟨⟨k, x⟩, Finset.mem_univ _, rfl⟩)
  exact charpoly_isEmpty

/-- eigenvalues (roots of the characteristic polynomial, with multiplicity) of a block-diagonal
    matrix over a domain: the union of those of the blocks -/
theorem roots_charpoly_blockDiagonal' [IsDomain R] {o : Type} [Fintype o] [LinearOrder o]
    {n' : o → Type} [∀ i, Fintype (n' i)] [∀ i, DecidableEq (n' i)]
    (M : ∀ i, Matrix (n' i) (n' i) R) :
    (blockDiagonal' M).charpoly.roots = (univ : Finset o).val.bind (fun k => (M k).charpoly.roots) := by
  rw [charpoly_blockDiagonal']
  apply roots_prod
  rw [Finset.prod_ne_zero_iff]
  exact fun k _ => (charpoly_monic (M k)).ne_zero

/-- roots of a product of characteristic polynomials given as a list -/
theorem roots_list_prod_charpoly [IsDomain R] (L : List R[X]) (hL : ∀ p ∈ L, p.Monic) :
    L.prod.roots = (L : Multiset R[X]).bind roots := by
  apply roots_list_prod
  intro h0
  exact (hL 0 h0).ne_zero rfl

end Spectrum
end SymmModel
