/-
  SymmModel.Proofs.Assoc4Swap — S5 of property C04 (operand swap) under the WEAK guard
  `contractibleCommonB`, so that it applies to contracted pieces of a chain (pruned tables).
  Statements and proofs are those of `Proofs/Routes3.lean` with `Adm` replaced by `AdmW`.
  Namespace `SymmModel.Assoc4P`.
-/
import SymmModel.Proofs.Assoc4Tree

namespace SymmModel
namespace Assoc4P
open TdotP GradedP RoutesP KoszulP OddposP AssocP Assoc3P
set_option linter.unusedSectionVars false

variable {R : Type}

/-- the weak guard is symmetric (on operands with well-formed tables) -/
theorem commonB_swap {a b : Arr R} {xa xb : List Nat} (hb : b.validB = true)
    (hB : ∀ i ∈ xb, i < b.ndim) (hc : contractibleCommonB a b xa xb = true) :
    contractibleCommonB b a xb xa = true := by
  rw [commonB_iff] at hc ⊢
  refine ⟨hc.1.symm, fun j hj => ?_⟩
  have hj' : j < xa.length := by rw [hc.1]; exact hj
  obtain ⟨h1, h2⟩ := hc.2 j hj'
  refine ⟨?_, by rw [h2]; simp⟩
  have hxb : xb.getD j 0 < b.indices.length := by
    rw [List.getD_eq_getElem?_getD, List.getElem?_eq_getElem hj]
    exact hB _ (List.getElem_mem hj)
  have hnd : ((b.indices.getD (xb.getD j 0) default).cm.map (·.1)).Nodup := by
    rw [List.getD_eq_getElem?_getD, List.getElem?_eq_getElem hxb]
    exact keys_nodup_of_validB hb _ (List.getElem_mem hxb)
  unfold cmAgree
  rw [List.all_eq_true]
  rintro ⟨k, d⟩ hp
  have hl : alookup (b.indices.getD (xb.getD j 0) default).cm k = some d :=
    alookup_of_mem (allDistinct_iff_nodup.mpr hnd) hp
  cases hq : alookup (a.indices.getD (xa.getD j 0) default).cm k with
  | none => rfl
  | some d' =>
    have := cmAgree_lookup h1 hq hl
    simp [this]

section
variable [AddMonoid R] [Mul R] [Neg R] [SignRing R]
theorem admW_swap {a b : Arr R} {xa xb : List Nat} (h : AdmW a b xa xb) : AdmW b a xb xa :=
  ⟨h.vb, h.va, h.fb, h.fa, h.sym.symm, commonB_swap h.vb h.ltB h.con, h.nB, h.nA, h.ltB, h.ltA⟩
end

/-- every odd contracted charge sits on a ket leg of exactly one of the two operands -/
theorem ket_sum_w (a b : Arr R) (xa xb : List Nat) (hsym : a.sym = b.sym)
    (hc : contractibleCommonB a b xa xb = true)
    (hA : ∀ i ∈ xa, i < a.ndim) (hB : ∀ i ∈ xb, i < b.ndim)
    (sa sb : Sector) (hla : sa.length = a.ndim) (hlb : sb.length = b.ndim)
    (hal : permuted sb xb = permuted sa xa) :
    ketOdd b xb sb + ketOdd a xa sa = oddIn a.sym (permuted sa xa) := by
  have hlen := commonB_len hc
  unfold ketOdd
  rw [filter2_range xb, filter2_range xa, ← hlen]
  have hK : oddIn a.sym (permuted sa xa)
      = ((List.range xa.length).filter (fun j => a.sym.parity (sa.getD (xa.getD j 0) (0, 0)))).length := by
    unfold oddIn
    rw [permuted_eq_map sa xa (by rw [hla]; exact hA) (0, 0), List.filter_map, List.length_map]
    conv => lhs; rw [list_eq_map_getD xa]
    rw [List.filter_map, List.length_map]
    rfl
  rw [hK, ← Lazy.filter_and_add_not (fun j => (a.indices.getD (xa.getD j 0) default).dual)
    (fun j => a.sym.parity (sa.getD (xa.getD j 0) (0, 0))) (List.range xa.length)]
  congr 1
  apply congrArg List.length
  apply List.filter_congr
  intro j hj
  have hj' := List.mem_range.mp hj
  have hjb : j < xb.length := by omega
  have hat := commonB_at hc j hj'
  have h1 := getD_permuted_ax sb xb (by rw [hlb]; exact hB) j hjb (0, 0)
  have h2 := getD_permuted_ax sa xa (by rw [hla]; exact hA) j hj' (0, 0)
  rw [hat.2, ← h1, ← h2, hal, hsym]
  simp

theorem gradedSign_swap_w (a b : Arr R) (xa xb : List Nat) (hsym : a.sym = b.sym)
    (hc : contractibleCommonB a b xa xb = true)
    (hnA : xa.Nodup) (hA : ∀ i ∈ xa, i < a.ndim) (hnB : xb.Nodup) (hB : ∀ i ∈ xb, i < b.ndim)
    (sa sb : Sector) (hla : sa.length = a.ndim) (hlb : sb.length = b.ndim)
    (hal : permuted sb xb = permuted sa xa) :
    gradedSign b a xb xa sb sa
      = gradedSign a b xa xb sa sb
        * sgn (oddIn a.sym (permuted sa xa) * oddIn a.sym (permuted sb (freeAxes b.ndim xb))
            + oddIn a.sym (permuted sa (freeAxes a.ndim xa)) * oddIn a.sym (permuted sa xa)
            + oddIn a.sym (permuted sa xa)) := by
  have hfreeA : ∀ i ∈ freeAxes a.ndim xa, i < sa.length := by
    intro i hi; rw [hla]; exact (mem_freeAxes.mp hi).1
  have hfreeB : ∀ i ∈ freeAxes b.ndim xb, i < sb.length := by
    intro i hi; rw [hlb]; exact (mem_freeAxes.mp hi).1
  -- the two operand transposes
  have kb := koszul_block_move (b.parities sb) [] xb (freeAxes b.ndim xb) [] b.ndim
    (by simpa using perm_right hnB hB)
  have ka := koszul_block_move (a.parities sa) [] (freeAxes a.ndim xa) xa [] a.ndim
    (by simpa using perm_left hnA hA)
  simp only [List.nil_append, List.append_nil] at kb ka
  have cb1 : oddCount (b.parities sb) xb = oddIn a.sym (permuted sa xa) := by
    unfold Arr.parities
    rw [oddCount_parities b.sym sb xb (by rw [hlb]; exact hB), hal, hsym]
  have cb2 : oddCount (b.parities sb) (freeAxes b.ndim xb)
      = oddIn a.sym (permuted sb (freeAxes b.ndim xb)) := by
    unfold Arr.parities
    rw [oddCount_parities b.sym sb _ hfreeB, hsym]
  have ca1 : oddCount (a.parities sa) xa = oddIn a.sym (permuted sa xa) := by
    unfold Arr.parities
    rw [oddCount_parities a.sym sa xa (by rw [hla]; exact hA)]
  have ca2 : oddCount (a.parities sa) (freeAxes a.ndim xa)
      = oddIn a.sym (permuted sa (freeAxes a.ndim xa)) := by
    unfold Arr.parities
    rw [oddCount_parities a.sym sa _ hfreeA]
  rw [cb1, cb2] at kb
  rw [ca1, ca2] at ka
  have hodd : oddContracted b xb sb = oddContracted a xa sa := by
    unfold oddContracted; rw [hal, hsym]
  have hK : oddContracted a xa sa = oddIn a.sym (permuted sa xa) := rfl
  have hket := ket_sum_w a b xa xb hsym hc hA hB sa sb hla hlb hal
  have hketsgn : (-1 : Int) ^ ketOdd b xb sb
      = (-1 : Int) ^ ketOdd a xa sa * sgn (oddIn a.sym (permuted sa xa)) := by
    rw [← sgn_eq_pow, ← sgn_eq_pow, ← sgn_add]
    apply sgn_congr
    omega
  unfold gradedSign
  rw [kb, ka, hodd, hketsgn, sgn_add, sgn_add]
  ring

section s5
variable [AddCommMonoid R] [Mul R] [Neg R] [SignRing R]
open Lazy (sgnI)

theorem contractPair_swap_w (a b : Arr R) (xa xb : List Nat) (hmul : ∀ x y : R, x * y = y * x)
    (hsa : a.shapesOk) (hsb : b.shapesOk) (hc : contractibleCommonB a b xa xb = true)
    (hA : ∀ i ∈ xa, i < a.ndim) (hB : ∀ i ∈ xb, i < b.ndim) (oL oR : List Nat) (sa sb : Sector)
    (h1 : sa ∈ a.sectors) (h2 : sb ∈ b.sectors) (hal : permuted sb xb = permuted sa xa) :
    contractPair b a xb xa oR oL (sb, sa) = contractPair a b xa xb oL oR (sa, sb) := by
  unfold contractPair
  simp only []
  rw [shapes_match_w hsa hsb hc hA hB sa h1 sb h2 hal]
  congr 1
  apply List.map_congr_left
  intro k _
  unfold contractTerm
  exact hmul _ _

/-- **S5, specification level.** -/
theorem gradedContract_swap_w (a b : Arr R) (xa xb : List Nat) (hmul : ∀ x y : R, x * y = y * x)
    (h : AdmW a b xa xb) (L Rr : Sector) (hL : L.length = (freeAxes a.ndim xa).length)
    (oL oR : List Nat) :
    gradedContract b a xb xa (Rr ++ L) oR oL
      = sgnI (sgn (a.parity.toNat * b.parity.toNat + oddIn a.sym L * oddIn a.sym Rr))
          (gradedContract a b xa xb (L ++ Rr) oL oR) := by
  have hsa := Arr.shapesOk_of_validB h.va
  have hsb := Arr.shapesOk_of_validB h.vb
  have fa := Lazy.Full.of_valid h.va h.fa
  have fb := Lazy.Full.of_valid h.vb h.fb
  unfold gradedContract
  rw [((storedPairs_swap_perm a b xa xb fa.sign.sectors fb.sign.sectors hsa L Rr hL).map _).sum_eq,
    List.map_map, ← sgnI_sum]
  congr 1
  apply List.map_congr_left
  rintro ⟨sa, sb⟩ hp
  obtain ⟨m1, m2, m3, m4⟩ := mem_storedPairs.mp hp
  have hla := Arr.sector_length hsa m1
  have hlb := Arr.sector_length hsb m2
  simp only [Function.comp, Prod.swap]
  rw [contractPair_swap_w a b xa xb hmul hsa hsb h.con h.ltA h.ltB oL oR sa sb m1 m2 m3,
    sgnI_comp (sgn_cases _) (gradedSign_pm _ _ _ _ _ _),
    gradedSign_swap_w a b xa xb h.sym h.con h.nA h.ltA h.nB h.ltB sa sb hla hlb m3]
  congr 1
  rw [Int.mul_comm]
  congr 1
  apply sgn_congr
  -- the free parts of the pair are `L` and `Rr`
  have hl1 : (permuted sa (freeAxes a.ndim xa)).length = L.length := by
    rw [permuted_length _ _ (by intro x hx; rw [hla]; exact (mem_freeAxes.mp hx).1), hL]
  obtain ⟨e1, e2⟩ := List.append_inj m4 hl1
  rw [e1, e2]
  have pa := parity_split a xa h.nA h.ltA sa hla (Lazy.SecValid.of_valid h.va sa m1)
  have pb := parity_split b xb h.nB h.ltB sb hlb (Lazy.SecValid.of_valid h.vb sb m2)
  rw [e1] at pa
  rw [e2, m3, ← h.sym] at pb
  have := swap_parity (oddIn a.sym L) (oddIn a.sym (permuted sa xa)) (oddIn a.sym Rr) a.parity b.parity
    pa (by rw [pb, Nat.add_comm])
  omega

/-- **S5.**  Passing the operands in the other order (with pairwise-distinct labels) gives a
    result with the same labels and charge whose value, at the address with the two free parts
    exchanged, is the original value times the Koszul sign of the rotation `rot` that moves `b`'s
    free legs in front — i.e. the value of `transposeF c rot`. -/
theorem tdotF_swap_w (a b c : Arr R) (xa xb : List Nat) (hmul : ∀ x y : R, x * y = y * x)
    (h : AdmW a b xa xb) (hd : (a.oddpos ++ b.oddpos).Pairwise (fun x y => x.1 ≠ y.1))
    (hc : a.tensordotF b (.pair (xa.map Int.ofNat) (xb.map Int.ofNat)) .blockwise = .ok c) :
    ∃ c', b.tensordotF a (.pair (xb.map Int.ofNat) (xa.map Int.ofNat)) .blockwise = .ok c'
      ∧ c'.oddpos = c.oddpos ∧ c'.charge = c.charge ∧ c'.sym = c.sym ∧ c'.fermi = c.fermi
      ∧ ∀ (L Rr : Sector) (oL oR : List Nat), L.length = (freeAxes a.ndim xa).length →
          Rr.length = (freeAxes b.ndim xb).length → oL.length = (freeAxes a.ndim xa).length →
          oR.length = (freeAxes b.ndim xb).length →
          inBox (Arr.blockShapeD (without a.indices xa ++ without b.indices xb) (L ++ Rr))
            (oL ++ oR) = true →
          c'.elem (Rr ++ L) (oR ++ oL)
            = sgnI (koszul ((L ++ Rr).map a.sym.parity)
                (some ((List.range Rr.length).map (L.length + ·) ++ List.range L.length)))
                (c.elem (L ++ Rr) (oL ++ oR)) := by
  have h' := admW_swap h
  rw [tensordotF_eq_core_w a b xa xb h] at hc
  rw [tensordotF_eq_core_w b a xb xa h']
  obtain ⟨out, sab, sba, m1, m2, m3⟩ := mergeOddpos_swap a.parity b.parity a.oddpos b.oddpos hd
  rw [m1] at hc
  rw [m2]
  simp only [Except.map, Except.ok.injEq] at hc ⊢
  subst hc
  have F := coreT_frame_w a b xa xb h
  have F' := coreT_frame_w b a xb xa h'
  have hsign : ∀ (T : Arr R) (r : List (Int × Bool) × Int), Lazy.SignOk T → ∀ s o,
      (finish T r).elem s o = sgnI r.2 (T.elem s o) := by
    intro T r hTs s o
    show (if (r.2 == -1) = true then T.phaseGlobal else T).elem s o = _
    by_cases hph : r.2 = -1
    · rw [hph]
      simp only [beq_self_eq_true, if_true]
      rw [Lazy.phaseGlobal_elem _ hTs, Lazy.sgnI_neg_one]
    · have : (r.2 == -1) = false := by simpa using hph
      simp only [this, Bool.false_eq_true, if_false]
      unfold sgnI
      rw [if_neg hph]
  have hok : ∀ (a0 b0 : Arr R) (x0 y0 : List Nat), CoreFrame a0 b0 x0 y0 (coreT a0 b0 x0 y0) →
      Lazy.SignOk (coreT a0 b0 x0 y0) := by
    intro a0 b0 x0 y0 F0
    refine ⟨by rw [F0.sectors]; exact nodup_eraseDups _, ?_⟩
    rw [F0.phases]; exact Lazy.PhOk.nil
  have hfield : ∀ (T : Arr R) (r : List (Int × Bool) × Int),
      (finish T r).charge = T.charge ∧ (finish T r).sym = T.sym ∧ (finish T r).fermi = T.fermi := by
    intro T r
    unfold finish
    split <;> exact ⟨rfl, rfl, rfl⟩
  refine ⟨_, rfl, rfl, ?_, ?_, ?_, ?_⟩
  · rw [(hfield _ _).1, (hfield _ _).1, F.charge, F'.charge, ← h.sym]
    exact C17.combine_comm a.sym b.charge a.charge
  · rw [(hfield _ _).2.1, (hfield _ _).2.1, F.sym, F'.sym, h.sym]
  · rw [(hfield _ _).2.2, (hfield _ _).2.2, F.fermi, F'.fermi, h.fa, h.fb]
  · intro L Rr oL oR hL hR hoL hoR ho
    have ho' := box_swap a b xa xb L Rr hL hR oL oR hoL hoR ho
    rw [hsign _ _ (hok _ _ _ _ F'), hsign _ _ (hok _ _ _ _ F), F'.elem _ _ _ hoR ho',
      F.elem _ _ _ hoL ho, gradedContract_swap_w a b xa xb hmul h L Rr hL oL oR]
    have hrot : koszul ((L ++ Rr).map a.sym.parity)
        (some ((List.range Rr.length).map (L.length + ·) ++ List.range L.length))
        = sgn (oddIn a.sym L * oddIn a.sym Rr) := by
      have := koszul_rot (L.map a.sym.parity) (Rr.map a.sym.parity)
      rw [List.length_map, List.length_map, oddIn_eq_filter, oddIn_eq_filter, ← List.map_append] at this
      exact this
    rw [hrot]
    simp only []
    rw [m3]
    have hlab := label_swap_parity a.parity b.parity a.oddpos.length b.oddpos.length
      (oddpos_parity h.va h.fa) (oddpos_parity h.vb h.fb)
    have hsab : sab = 1 ∨ sab = -1 := by
      obtain ⟨o', _, _, q3⟩ := mergeOddpos_spec a.parity a.oddpos b.oddpos hd
      rw [q3] at m1
      simp only [Except.ok.injEq, Prod.mk.injEq] at m1
      rw [← m1.2]; exact sgn_cases _
    rw [sgnI_comp (Lazy.mul_pm hsab (sgn_cases _)) (sgn_cases _),
      sgnI_comp (sgn_cases _) hsab]
    congr 1
    rw [Int.mul_assoc, ← sgn_add, Int.mul_comm]
    congr 1
    apply sgn_congr
    generalize a.parity.toNat * b.oddpos.length + b.parity.toNat * a.oddpos.length
      + a.oddpos.length * b.oddpos.length = E at hlab
    generalize a.parity.toNat * b.parity.toNat = P at hlab ⊢
    generalize oddIn a.sym L * oddIn a.sym Rr = Q
    omega

/-! ### operand order at the root of a bracketing -/

/-- **the root of a bracketing with its operands passed in the other order** (commutative scalars):
    `a.eval = Ta`, `b.eval = Tb`; the call `Tb · Ta` succeeds, has the labels and charge of
    `T = Ta ∘ Tb = (node a b).eval`, and its value at the address with the two free parts exchanged
    is the Koszul sign of the rotation times the value of `T` (S5 for contracted pieces). -/
theorem root_swap [AssocLaws R] (hmul : ∀ x y : R, x * y = y * x) (a b : STree R)
    (hok : (STree.node a b).OK) (hd : OddposP.LabelsDistinct (a.labels ++ b.labels)) :
    ∃ Ta Tb T c', a.eval = .ok Ta ∧ b.eval = .ok Tb ∧ (STree.node a b).eval = .ok T
      ∧ tdF Ta.arr Tb.arr Ta.r Tb.l = .ok T.arr
      ∧ tdF Tb.arr Ta.arr Tb.l Ta.r = .ok c'
      ∧ c'.oddpos = T.arr.oddpos ∧ c'.charge = T.arr.charge ∧ c'.sym = T.arr.sym
      ∧ ∀ (L Rr : Sector) (oL oR : List Nat), L.length = (freeAxes Ta.arr.ndim Ta.r).length →
          Rr.length = (freeAxes Tb.arr.ndim Tb.l).length →
          oL.length = (freeAxes Ta.arr.ndim Ta.r).length →
          oR.length = (freeAxes Tb.arr.ndim Tb.l).length →
          inBox (Arr.blockShapeD (without Ta.arr.indices Ta.r ++ without Tb.arr.indices Tb.l) (L ++ Rr))
            (oL ++ oR) = true →
          c'.elem (Rr ++ L) (oR ++ oL)
            = sgnI (koszul ((L ++ Rr).map Ta.arr.sym.parity)
                (some ((List.range Rr.length).map (L.length + ·) ++ List.range L.length)))
                (T.arr.elem (L ++ Rr) (oL ++ oR)) := by
  obtain ⟨oa, ob, lk⟩ := hok
  have hda : OddposP.LabelsDistinct a.labels :=
    dist_of hd _ (List.Perm.refl _) (List.sublist_append_left _ _)
  have hdb : OddposP.LabelsDistinct b.labels :=
    dist_of hd _ (List.Perm.refl _) (List.sublist_append_right _ _)
  obtain ⟨Ta, _, ea, ga, _, _, _⟩ := tree_eqv_leftnested a oa hda
  obtain ⟨Tb, _, eb, gb, _, _, _⟩ := tree_eqv_leftnested b ob hdb
  obtain ⟨T, eT, gT⟩ := comp_good ga gb lk hd
  have W := admW_of_good ga gb lk
  have hcall : tdF Ta.arr Tb.arr Ta.r Tb.l = .ok T.arr := by
    unfold Seg.comp at eT
    cases hz : tdF Ta.arr Tb.arr Ta.r Tb.l with
    | error err => rw [hz] at eT; cases eT
    | ok Z =>
      rw [hz] at eT
      simp only [Except.map, Except.ok.injEq] at eT
      rw [← eT]
  have hd' : (Ta.arr.oddpos ++ Tb.arr.oddpos).Pairwise (fun x y => x.1 ≠ y.1) :=
    OddposP.LabelsDistinct.perm hd (ga.perm.symm.append gb.perm.symm)
  obtain ⟨c', e', q1, q2, q3, _, q5⟩ := tdotF_swap_w Ta.arr Tb.arr T.arr Ta.r Tb.l hmul W hd' hcall
  refine ⟨Ta, Tb, T, c', ea, eb, ?_, hcall, e', q1, q2, q3, q5⟩
  show (match a.eval, b.eval with
    | .ok s1, .ok s2 => s1.comp s2
    | .error e, _ => .error e
    | .ok _, .error e => .error e) = _
  rw [ea, eb]
  exact eT

end s5

end Assoc4P
end SymmModel
