/-
  SymmModel.Proofs.TwoStepOrder — the axis order of the fermionic einsum that traces the remaining
  pairs in the intermediate of a two-step contraction (helper for C04).
-/
import SymmModel.Proofs.TwoStepDefs
import SymmModel.Proofs.FuseAssoc

namespace SymmModel
namespace TwoStepP
open TdotP GradedP Lazy

/-! ## 0. positions of the remaining legs in the intermediate -/

/-- the traced positions: two lists of the same length `m`, jointly duplicate free, below `N` -/
structure Geo (N m : Nat) (PA PB : List Nat) : Prop where
  lenA : PA.length = m
  lenB : PB.length = m
  nd : (PA ++ PB).Nodup
  lt : ∀ x ∈ PA ++ PB, x < N

theorem posIn_lt_get {l : List Nat} {ax : Nat} (h : ax ∈ l) :
    posIn l ax < l.length ∧ l[posIn l ax]? = some ax := by
  obtain ⟨k, hk, hk'⟩ := indexOf?_of_mem h
  have : posIn l ax = k := by unfold posIn; rw [hk]; rfl
  rw [this]
  refine ⟨?_, hk'⟩
  by_contra hlt
  rw [List.getElem?_eq_none (by omega)] at hk'
  cases hk'

theorem posIn_inj {l : List Nat} {x y : Nat} (hx : x ∈ l) (hy : y ∈ l) (h : posIn l x = posIn l y) :
    x = y := by
  have h1 := (posIn_lt_get hx).2
  have h2 := (posIn_lt_get hy).2
  rw [h, h2] at h1
  exact (Option.some.inj h1).symm

theorem mem_free_of {n : Nat} {x y : List Nat} (hn : (x ++ y).Nodup) (hlt : ∀ i ∈ x ++ y, i < n)
    {ax : Nat} (h : ax ∈ y) : ax ∈ freeAxes n x := by
  rw [mem_freeAxes]
  refine ⟨hlt ax (List.mem_append_right _ h), fun hx => ?_⟩
  exact (List.disjoint_of_nodup_append hn) hx h

theorem geo_ts {na nb : Nat} {xa xb ya yb : List Nat}
    (hnA : (xa ++ ya).Nodup) (hA : ∀ i ∈ xa ++ ya, i < na)
    (hnB : (xb ++ yb).Nodup) (hB : ∀ i ∈ xb ++ yb, i < nb) (hly : ya.length = yb.length) :
    Geo (tsN na nb xa xb) ya.length (tsPA na xa ya) (tsPB na nb xa xb yb) := by
  have hPA : ∀ p ∈ tsPA na xa ya, p < (freeAxes na xa).length := by
    intro p hp
    obtain ⟨ax, hax, rfl⟩ := List.mem_map.1 hp
    exact (posIn_lt_get (mem_free_of hnA hA hax)).1
  have hPB : ∀ p ∈ tsPB na nb xa xb yb,
      (freeAxes na xa).length ≤ p ∧ p < tsN na nb xa xb := by
    intro p hp
    obtain ⟨ax, hax, rfl⟩ := List.mem_map.1 hp
    have := (posIn_lt_get (mem_free_of hnB hB hax)).1
    unfold tsN
    omega
  refine ⟨by simp [tsPA], by simp [tsPB, hly], ?_, ?_⟩
  · rw [List.nodup_append]
    refine ⟨?_, ?_, ?_⟩
    · refine List.Nodup.map_on ?_ (List.Nodup.of_append_right hnA)
      intro x hx y hy h
      exact posIn_inj (mem_free_of hnA hA hx) (mem_free_of hnA hA hy) h
    · refine List.Nodup.map_on ?_ (List.Nodup.of_append_right hnB)
      intro x hx y hy h
      exact posIn_inj (mem_free_of hnB hB hx) (mem_free_of hnB hB hy) (by omega)
    · intro p hp q hq e
      have := hPA p hp
      have := (hPB q hq).1
      omega
  · intro x hx
    rcases List.mem_append.1 hx with h | h
    · have := hPA x h
      unfold tsN
      omega
    · exact (hPB x h).2

/-! ## 1. the labels, generically in the positions -/

def gLhs (N : Nat) (PA PB : List Nat) : List Nat :=
  (List.range N).map (fun p =>
    match indexOf? PA p with
    | some i => N + i
    | none => match indexOf? PB p with
      | some i => N + i
      | none => p)

def gRhs (N : Nat) (PA PB : List Nat) : List Nat :=
  (List.range N).filter (fun p => !PA.contains p && !PB.contains p)

def gFront (d : Nat → Bool) (PA PB : List Nat) (m : Nat) : List Nat :=
  (List.range m).flatMap (fun i =>
    if d i then [PA.getD i 0, PB.getD i 0] else [PB.getD i 0, PA.getD i 0])

theorem tsLhs_eq_gLhs (na nb : Nat) (xa xb ya yb : List Nat) :
    tsLhs na nb xa xb ya yb = gLhs (tsN na nb xa xb) (tsPA na xa ya) (tsPB na nb xa xb yb) := rfl

theorem tsRhs_eq_gRhs (na nb : Nat) (xa xb ya yb : List Nat) :
    tsRhs na nb xa xb ya yb = gRhs (tsN na nb xa xb) (tsPA na xa ya) (tsPB na nb xa xb yb) := rfl

theorem tsOrder_eq_gOrder {R : Type} (a : Arr R) (nb : Nat) (xa xb ya yb : List Nat) :
    tsOrder a nb xa xb ya yb =
      gFront (fun i => (a.indices.getD (ya.getD i 0) default).dual) (tsPA a.ndim xa ya)
        (tsPB a.ndim nb xa xb yb) ya.length
      ++ gRhs (tsN a.ndim nb xa xb) (tsPA a.ndim xa ya) (tsPB a.ndim nb xa xb yb) := rfl

theorem mem_gRhs {N : Nat} {PA PB : List Nat} {p : Nat} :
    p ∈ gRhs N PA PB ↔ p < N ∧ p ∉ PA ∧ p ∉ PB := by
  simp [gRhs, List.mem_filter]

theorem gRhs_nodup (N : Nat) (PA PB : List Nat) : (gRhs N PA PB).Nodup :=
  List.Nodup.sublist List.filter_sublist List.nodup_range

theorem gLhs_length (N : Nat) (PA PB : List Nat) : (gLhs N PA PB).length = N := by
  simp [gLhs]

theorem gLhs_getD {N : Nat} (PA PB : List Nat) {p : Nat} (hp : p < N) :
    (gLhs N PA PB).getD p 0 =
      match indexOf? PA p with
      | some i => N + i
      | none => match indexOf? PB p with
        | some i => N + i
        | none => p := by
  simp [gLhs, List.getD_eq_getElem?_getD, hp]

section geo
variable {N m : Nat} {PA PB : List Nat} (g : Geo N m PA PB)
include g

theorem Geo.ndA : PA.Nodup := List.Nodup.of_append_left g.nd
theorem Geo.ndB : PB.Nodup := List.Nodup.of_append_right g.nd

theorem Geo.getA {i : Nat} (hi : i < m) :
    PA.getD i 0 ∈ PA ∧ indexOf? PA (PA.getD i 0) = some i := by
  have h : i < PA.length := by rw [g.lenA]; exact hi
  have e : PA.getD i 0 = PA[i] := by simp [List.getD_eq_getElem?_getD, h]
  rw [e]
  exact ⟨List.getElem_mem h, indexOf?_getElem g.ndA h⟩

theorem Geo.getB {i : Nat} (hi : i < m) :
    PB.getD i 0 ∈ PB ∧ indexOf? PB (PB.getD i 0) = some i := by
  have h : i < PB.length := by rw [g.lenB]; exact hi
  have e : PB.getD i 0 = PB[i] := by simp [List.getD_eq_getElem?_getD, h]
  rw [e]
  exact ⟨List.getElem_mem h, indexOf?_getElem g.ndB h⟩

theorem Geo.ltA {p : Nat} (h : p ∈ PA) : p < N := g.lt p (List.mem_append_left _ h)
theorem Geo.ltB {p : Nat} (h : p ∈ PB) : p < N := g.lt p (List.mem_append_right _ h)

theorem Geo.lhsA {i : Nat} (hi : i < m) : (gLhs N PA PB).getD (PA.getD i 0) 0 = N + i := by
  rw [gLhs_getD PA PB (g.ltA (g.getA hi).1), (g.getA hi).2]

theorem Geo.lhsB {i : Nat} (hi : i < m) : (gLhs N PA PB).getD (PB.getD i 0) 0 = N + i := by
  have hn : indexOf? PA (PB.getD i 0) = none :=
    indexOf?_eq_none_iff.2 (fun h => (List.disjoint_of_nodup_append g.nd) h (g.getB hi).1)
  rw [gLhs_getD PA PB (g.ltB (g.getB hi).1), hn, (g.getB hi).2]

omit g in
theorem lhsR {p : Nat} (h : p ∈ gRhs N PA PB) : (gLhs N PA PB).getD p 0 = p := by
  obtain ⟨h1, h2, h3⟩ := mem_gRhs.1 h
  rw [gLhs_getD PA PB h1, indexOf?_eq_none_iff.2 h2, indexOf?_eq_none_iff.2 h3]

end geo

/-! ## 2. the sort key of `einOrder` -/

def klt (x y : Int × Nat × Bool) : Bool :=
  x.1 < y.1 || (x.1 == y.1 && (x.2.1 < y.2.1 || (x.2.1 == y.2.1 && (!x.2.2 && y.2.2))))

theorem klt_iff (x y : Int × Nat × Bool) : klt x y = true ↔
    x.1 < y.1 ∨ (x.1 = y.1 ∧ (x.2.1 < y.2.1 ∨ (x.2.1 = y.2.1 ∧ x.2.2 = false ∧ y.2.2 = true))) := by
  simp [klt]

theorem klt_trans (a b c : Int × Nat × Bool) (h1 : klt a b = true) (h2 : klt b c = true) :
    klt a c = true := by
  rw [klt_iff] at *
  obtain ⟨a1, a2, a3⟩ := a
  obtain ⟨b1, b2, b3⟩ := b
  obtain ⟨c1, c2, c3⟩ := c
  simp only at *
  cases a3 <;> cases b3 <;> cases c3 <;>
    simp only [and_true, and_false, or_false, reduceCtorEq] at * <;> omega

theorem klt_tri (a b : Int × Nat × Bool) : klt a b = true ∨ a = b ∨ klt b a = true := by
  rw [klt_iff, klt_iff]
  obtain ⟨a1, a2, a3⟩ := a
  obtain ⟨b1, b2, b3⟩ := b
  simp only [Prod.mk.injEq]
  cases a3 <;> cases b3 <;>
    simp only [and_true, and_false, or_false, reduceCtorEq] <;> omega

theorem klt_irrefl (a : Int × Nat × Bool) : klt a a = false := by
  cases h : klt a a with
  | false => rfl
  | true =>
    rw [klt_iff] at h
    rcases h with h | ⟨_, h | ⟨_, h1, h2⟩⟩
    · omega
    · omega
    · rw [h1] at h2; cases h2

section key
variable {R : Type}

def ekey (D : Nat → Bool) (lhs rhs : List Nat) (i : Nat) : Int × Nat × Bool :=
  let q := lhs.getD i 0
  ((match indexOf? rhs q with | some j => (j : Int) | none => -1), q,
    !(D i))

theorem einOrder_eq_isort [Zero R] [Neg R] (c : Arr R) (lhs rhs : List Nat) :
    einOrder c lhs rhs =
      isort (fun i j => klt (ekey (fun i => (c.indices.getD i default).dual) lhs rhs i)
        (ekey (fun i => (c.indices.getD i default).dual) lhs rhs j)) (List.range c.ndim) := rfl

variable {N m : Nat} {PA PB : List Nat} (g : Geo N m PA PB) (D : Nat → Bool) (d : Nat → Bool)
  (hdA : ∀ i, i < m → D (PA.getD i 0) = d i)
  (hdB : ∀ i, i < m → D (PB.getD i 0) = !d i)

theorem not_mem_gRhs_ge {N : Nat} {PA PB : List Nat} {q : Nat} (h : N ≤ q) : q ∉ gRhs N PA PB := by
  intro hq
  have := (mem_gRhs.1 hq).1
  omega

include g hdA in
theorem keyA {i : Nat} (hi : i < m) :
    ekey D (gLhs N PA PB) (gRhs N PA PB) (PA.getD i 0) = (-1, N + i, !d i) := by
  unfold ekey
  simp only
  rw [g.lhsA hi, hdA i hi, indexOf?_eq_none_iff.2 (not_mem_gRhs_ge (Nat.le_add_right _ _))]

include g hdB in
theorem keyB {i : Nat} (hi : i < m) :
    ekey D (gLhs N PA PB) (gRhs N PA PB) (PB.getD i 0) = (-1, N + i, d i) := by
  unfold ekey
  simp only
  rw [g.lhsB hi, hdB i hi, indexOf?_eq_none_iff.2 (not_mem_gRhs_ge (Nat.le_add_right _ _)),
    Bool.not_not]

theorem keyR {j : Nat} (hj : j < (gRhs N PA PB).length) :
    ekey D (gLhs N PA PB) (gRhs N PA PB) (gRhs N PA PB)[j] =
      ((j : Int), (gRhs N PA PB)[j], !(D (gRhs N PA PB)[j])) := by
  unfold ekey
  simp only
  rw [lhsR (List.getElem_mem hj), indexOf?_getElem (gRhs_nodup N PA PB) hj]

theorem mem_gFront {d : Nat → Bool} {PA PB : List Nat} {m x : Nat} :
    x ∈ gFront d PA PB m ↔ ∃ i, i < m ∧ (x = PA.getD i 0 ∨ x = PB.getD i 0) := by
  unfold gFront
  rw [List.mem_flatMap]
  constructor
  · rintro ⟨i, hi, hx⟩
    refine ⟨i, List.mem_range.1 hi, ?_⟩
    split at hx <;> simp only [List.mem_cons, List.not_mem_nil, or_false] at hx
    · exact hx
    · exact hx.symm
  · rintro ⟨i, hi, hx⟩
    refine ⟨i, List.mem_range.2 hi, ?_⟩
    split <;> simp only [List.mem_cons, List.not_mem_nil, or_false]
    · exact hx
    · exact hx.symm

/-- the order relation of the sort -/
def ordS (D : Nat → Bool) (N : Nat) (PA PB : List Nat) (x y : Nat) : Prop :=
  klt (ekey D (gLhs N PA PB) (gRhs N PA PB) x) (ekey D (gLhs N PA PB) (gRhs N PA PB) y) = true

include g hdA hdB in
theorem gOrder_pairwise :
    (gFront d PA PB m ++ gRhs N PA PB).Pairwise (ordS D N PA PB) := by
  have kA := fun {i} (hi : i < m) => keyA g D d hdA hi
  have kB := fun {i} (hi : i < m) => keyB g D d hdB hi
  rw [List.pairwise_append]
  refine ⟨?_, ?_, ?_⟩
  · unfold gFront
    rw [List.pairwise_flatMap]
    refine ⟨?_, ?_⟩
    · intro i hi
      have hi := List.mem_range.1 hi
      cases hd : d i <;>
        simp only [Bool.false_eq_true, if_false, if_true, List.pairwise_cons, List.mem_cons,
          List.not_mem_nil, or_false, forall_eq, false_imp_iff, implies_true, List.Pairwise.nil,
          and_true] <;>
        unfold ordS <;> rw [kA hi, kB hi, klt_iff] <;> simp [hd]
    · refine List.Pairwise.imp_of_mem ?_ (List.pairwise_lt_range (n := m))
      intro i j hi hj hij x hx y hy
      have hi := List.mem_range.1 hi
      have hj := List.mem_range.1 hj
      have ex : ∃ b, ekey D (gLhs N PA PB) (gRhs N PA PB) x = (-1, N + i, b) := by
        split at hx <;> simp only [List.mem_cons, List.not_mem_nil, or_false] at hx <;>
          rcases hx with rfl | rfl
        · exact ⟨_, kA hi⟩
        · exact ⟨_, kB hi⟩
        · exact ⟨_, kB hi⟩
        · exact ⟨_, kA hi⟩
      have ey : ∃ b, ekey D (gLhs N PA PB) (gRhs N PA PB) y = (-1, N + j, b) := by
        split at hy <;> simp only [List.mem_cons, List.not_mem_nil, or_false] at hy <;>
          rcases hy with rfl | rfl
        · exact ⟨_, kA hj⟩
        · exact ⟨_, kB hj⟩
        · exact ⟨_, kB hj⟩
        · exact ⟨_, kA hj⟩
      obtain ⟨bx, ex⟩ := ex
      obtain ⟨by', ey⟩ := ey
      unfold ordS
      rw [ex, ey, klt_iff]
      right
      exact ⟨rfl, Or.inl (by simp only; omega)⟩
  · rw [List.pairwise_iff_getElem]
    intro i j hi hj hij
    unfold ordS
    rw [keyR D hi, keyR D hj, klt_iff]
    left
    simp only
    omega
  · intro x hx y hy
    obtain ⟨i, hi, hx⟩ := mem_gFront.1 hx
    obtain ⟨j, hj, rfl⟩ := List.getElem_of_mem hy
    unfold ordS
    rw [keyR D hj, klt_iff]
    left
    rcases hx with rfl | rfl
    · rw [kA hi]; simp only; omega
    · rw [kB hi]; simp only; omega

include g hdA hdB in
theorem gOrder_perm : (gFront d PA PB m ++ gRhs N PA PB).Perm (List.range N) := by
  have hp := gOrder_pairwise g D d hdA hdB
  have hnd : (gFront d PA PB m ++ gRhs N PA PB).Nodup := by
    refine List.Pairwise.imp ?_ hp
    intro x y h e
    subst e
    unfold ordS at h
    rw [klt_irrefl] at h
    cases h
  rw [List.perm_ext_iff_of_nodup hnd List.nodup_range]
  intro x
  rw [List.mem_append, mem_gFront, mem_gRhs, List.mem_range]
  constructor
  · rintro (⟨i, hi, rfl | rfl⟩ | h)
    · exact g.ltA (g.getA hi).1
    · exact g.ltB (g.getB hi).1
    · exact h.1
  · intro hx
    by_cases hA : x ∈ PA
    · obtain ⟨i, hi, rfl⟩ := List.getElem_of_mem hA
      left
      refine ⟨i, by rw [← g.lenA]; exact hi, Or.inl ?_⟩
      simp [List.getD_eq_getElem?_getD, hi]
    · by_cases hB : x ∈ PB
      · obtain ⟨i, hi, rfl⟩ := List.getElem_of_mem hB
        left
        refine ⟨i, by rw [← g.lenB]; exact hi, Or.inr ?_⟩
        simp [List.getD_eq_getElem?_getD, hi]
      · exact Or.inr ⟨hx, hA, hB⟩

include g hdA hdB in
theorem einOrder_eq_gOrder [Zero R] [Neg R] (c : Arr R) (hn : c.ndim = N)
    (hD : D = fun i => (c.indices.getD i default).dual) :
    einOrder c (gLhs N PA PB) (gRhs N PA PB) = gFront d PA PB m ++ gRhs N PA PB := by
  have hp := gOrder_pairwise g D d hdA hdB
  have hperm := gOrder_perm g D d hdA hdB
  have hkn : ((List.range N).map (ekey D (gLhs N PA PB) (gRhs N PA PB))).Nodup := by
    rw [← (hperm.map _).nodup_iff]
    have : ((gFront d PA PB m ++ gRhs N PA PB).map
        (ekey D (gLhs N PA PB) (gRhs N PA PB))).Pairwise (fun a b => klt a b = true) :=
      List.pairwise_map.2 hp
    refine List.Pairwise.imp ?_ this
    intro x y h e
    subst e
    rw [klt_irrefl] at h
    cases h
  have hs := FuseP.isort_pairwise (ekey D (gLhs N PA PB) (gRhs N PA PB)) klt klt_trans klt_tri
    (List.range N) hkn
  rw [einOrder_eq_isort, hn, ← hD]
  refine List.Perm.eq_of_pairwise (le := ordS D N PA PB) ?_ hs hp
    ((FuseP.isort_perm _ _).trans hperm.symm)
  intro x y _ _ h1 h2
  unfold ordS at h1 h2
  have := klt_trans _ _ _ h1 h2
  rw [klt_irrefl] at this
  cases this

theorem gFront_length (d : Nat → Bool) (PA PB : List Nat) (m : Nat) :
    (gFront d PA PB m).length = 2 * m := by
  unfold gFront
  induction m with
  | zero => rfl
  | succ m ih =>
    rw [List.range_succ, List.flatMap_append, List.length_append, ih]
    simp only [List.flatMap_cons, List.flatMap_nil, List.append_nil]
    split <;> simp <;> omega

include g in
theorem permuted_gLhs_gOrder :
    permuted (gLhs N PA PB) (gFront d PA PB m ++ gRhs N PA PB) =
      (List.range m).flatMap (fun i => [N + i, N + i]) ++ gRhs N PA PB := by
  have hlt : ∀ x ∈ gFront d PA PB m ++ gRhs N PA PB, x < (gLhs N PA PB).length := by
    intro x hx
    rw [gLhs_length]
    rcases List.mem_append.1 hx with h | h
    · obtain ⟨i, hi, rfl | rfl⟩ := mem_gFront.1 h
      · exact g.ltA (g.getA hi).1
      · exact g.ltB (g.getB hi).1
    · exact (mem_gRhs.1 h).1
  rw [permuted_eq_map _ _ hlt 0, List.map_append]
  congr 1
  · unfold gFront
    rw [List.map_flatMap]
    apply List.flatMap_congr
    intro i hi
    have hi := List.mem_range.1 hi
    split <;> simp only [List.map_cons, List.map_nil, g.lhsA hi, g.lhsB hi]
  · conv => rhs; rw [← List.map_id (gRhs N PA PB)]
    apply List.map_congr_left
    intro p hp
    exact lhsR hp

end key

/-- the permutation property needs no array: some assignment of duals is always consistent -/
theorem gOrder_perm' {N m : Nat} {PA PB : List Nat} (g : Geo N m PA PB) (d : Nat → Bool) :
    (gFront d PA PB m ++ gRhs N PA PB).Perm (List.range N) := by
  refine gOrder_perm g
    (fun p => match indexOf? PA p with
      | some i => d i
      | none => !d ((indexOf? PB p).getD 0)) d ?_ ?_
  · intro i hi
    simp only [(g.getA hi).2]
  · intro i hi
    have hn : indexOf? PA (PB.getD i 0) = none :=
      indexOf?_eq_none_iff.2 (fun h => (List.disjoint_of_nodup_append g.nd) h (g.getB hi).1)
    simp only [hn, (g.getB hi).2, Option.getD_some]

/-! ## 3. the statements for the two-step contraction -/

section main
variable {R : Type}

/-- **G4 (a)**: the order is a permutation of the axes of the intermediate -/
theorem tsOrder_permH (a : Arr R) (nb : Nat) (xa xb ya yb : List Nat)
    (hnA : (xa ++ ya).Nodup) (hA : ∀ i ∈ xa ++ ya, i < a.ndim)
    (hnB : (xb ++ yb).Nodup) (hB : ∀ i ∈ xb ++ yb, i < nb) (hly : ya.length = yb.length) :
    (tsOrder a nb xa xb ya yb).Perm (List.range (tsN a.ndim nb xa xb)) := by
  rw [tsOrder_eq_gOrder]
  exact gOrder_perm' (geo_ts hnA hA hnB hB hly) _

/-- **G4 (b)**: behind the `2 * |ya|` traced legs come the untraced legs, in order -/
theorem tsOrder_drop (a : Arr R) (nb : Nat) (xa xb ya yb : List Nat) :
    (tsOrder a nb xa xb ya yb).drop (2 * ya.length) = tsRhs a.ndim nb xa xb ya yb := by
  rw [tsOrder_eq_gOrder, tsRhs_eq_gRhs]
  exact List.drop_left' (gFront_length _ _ _ _)

/-- the first `2 * |ya|` entries are the traced pairs -/
theorem tsOrder_take (a : Arr R) (nb : Nat) (xa xb ya yb : List Nat) :
    (tsOrder a nb xa xb ya yb).take (2 * ya.length) =
      (List.range ya.length).flatMap (fun i =>
        if (a.indices.getD (ya.getD i 0) default).dual
        then [(tsPA a.ndim xa ya).getD i 0, (tsPB a.ndim nb xa xb yb).getD i 0]
        else [(tsPB a.ndim nb xa xb yb).getD i 0, (tsPA a.ndim xa ya).getD i 0]) := by
  rw [tsOrder_eq_gOrder]
  exact List.take_left' (gFront_length _ _ _ _)

/-- **G1**: the fermionic einsum of the intermediate transposes to `tsOrder` -/
theorem einOrder_eq_tsOrder [Zero R] [Neg R] (a c : Arr R) (nb : Nat) (xa xb ya yb : List Nat)
    (hnA : (xa ++ ya).Nodup) (hA : ∀ i ∈ xa ++ ya, i < a.ndim)
    (hnB : (xb ++ yb).Nodup) (hB : ∀ i ∈ xb ++ yb, i < nb) (hly : ya.length = yb.length)
    (hn : c.ndim = tsN a.ndim nb xa xb)
    (hdA : ∀ i, i < ya.length →
      (c.indices.getD ((tsPA a.ndim xa ya).getD i 0) default).dual
        = (a.indices.getD (ya.getD i 0) default).dual)
    (hdB : ∀ i, i < ya.length →
      (c.indices.getD ((tsPB a.ndim nb xa xb yb).getD i 0) default).dual
        = !(a.indices.getD (ya.getD i 0) default).dual) :
    einOrder c (tsLhs a.ndim nb xa xb ya yb) (tsRhs a.ndim nb xa xb ya yb)
      = tsOrder a nb xa xb ya yb := by
  rw [tsOrder_eq_gOrder, tsLhs_eq_gLhs, tsRhs_eq_gRhs]
  exact einOrder_eq_gOrder (geo_ts hnA hA hnB hB hly) _ _ hdA hdB c hn rfl

/-- **G2**: the labels of the intermediate, in the order `tsOrder` -/
theorem permuted_tsLhs_tsOrder (a : Arr R) (nb : Nat) (xa xb ya yb : List Nat)
    (hnA : (xa ++ ya).Nodup) (hA : ∀ i ∈ xa ++ ya, i < a.ndim)
    (hnB : (xb ++ yb).Nodup) (hB : ∀ i ∈ xb ++ yb, i < nb) (hly : ya.length = yb.length) :
    permuted (tsLhs a.ndim nb xa xb ya yb) (tsOrder a nb xa xb ya yb) =
      (List.range ya.length).flatMap
          (fun i => [tsN a.ndim nb xa xb + i, tsN a.ndim nb xa xb + i])
        ++ tsRhs a.ndim nb xa xb ya yb := by
  rw [tsOrder_eq_gOrder, tsLhs_eq_gLhs, tsRhs_eq_gRhs]
  exact permuted_gLhs_gOrder (geo_ts hnA hA hnB hB hly) _

/-- entries of `tsRhs` are axes of the intermediate, without repetition -/
theorem tsRhs_lt (na nb : Nat) (xa xb ya yb : List Nat) :
    ∀ p ∈ tsRhs na nb xa xb ya yb, p < tsN na nb xa xb := by
  intro p hp
  rw [tsRhs_eq_gRhs] at hp
  exact (mem_gRhs.1 hp).1

theorem tsRhs_nodup (na nb : Nat) (xa xb ya yb : List Nat) : (tsRhs na nb xa xb ya yb).Nodup :=
  gRhs_nodup _ _ _

end main

/-- the counting form: `2 * |ya|` traced legs and the untraced ones make up the intermediate -/
theorem tsRhs_length {R : Type} (a : Arr R) (nb : Nat) (xa xb ya yb : List Nat)
    (hnA : (xa ++ ya).Nodup) (hA : ∀ i ∈ xa ++ ya, i < a.ndim)
    (hnB : (xb ++ yb).Nodup) (hB : ∀ i ∈ xb ++ yb, i < nb) (hly : ya.length = yb.length) :
    2 * ya.length + (tsRhs a.ndim nb xa xb ya yb).length = tsN a.ndim nb xa xb := by
  have h := (tsOrder_permH a nb xa xb ya yb hnA hA hnB hB hly).length_eq
  rw [tsOrder_eq_gOrder, List.length_append, gFront_length, List.length_range] at h
  exact h

/-! ## 4. the abelian einsum data of the canonical labels `N+0 N+0 N+1 N+1 … ++ rhs` -/

/-- the traced labels in front: `N+0, N+0, N+1, N+1, …` -/
def dblFront (N m : Nat) : List Nat := (List.range m).flatMap (fun i => [N + i, N + i])

theorem dblFront_succ (N m : Nat) : dblFront N (m + 1) = dblFront N m ++ [N + m, N + m] := by
  unfold dblFront
  rw [List.range_succ, List.flatMap_append]
  rfl

theorem dblFront_length (N m : Nat) : (dblFront N m).length = 2 * m := by
  induction m with
  | zero => rfl
  | succ m ih => rw [dblFront_succ, List.length_append, ih]; simp; omega

theorem mem_dblFront {N m x : Nat} : x ∈ dblFront N m ↔ ∃ i, i < m ∧ x = N + i := by
  unfold dblFront
  simp only [List.mem_flatMap, List.mem_range, List.mem_cons, List.not_mem_nil, or_false, or_self]

theorem eraseDups_dbl {ks : List Nat} (h : ks.Nodup) :
    (ks.flatMap (fun k => [k, k])).eraseDups = ks := by
  induction ks with
  | nil => simp
  | cons k ks ih =>
    rw [List.nodup_cons] at h
    have hf : (ks.flatMap (fun k => [k, k])).filter (fun b => !b == k) =
        ks.flatMap (fun k => [k, k]) := by
      rw [List.filter_eq_self]
      intro x hx
      obtain ⟨y, hy, hxy⟩ := List.mem_flatMap.1 hx
      simp only [List.mem_cons, List.not_mem_nil, or_false, or_self] at hxy
      subst hxy
      have : x ≠ k := fun e => h.1 (e ▸ hy)
      simp [this]
    simp only [List.flatMap_cons, List.cons_append, List.nil_append]
    rw [List.eraseDups_cons, List.filter_cons]
    simp only [beq_self_eq_true, Bool.not_true, Bool.false_eq_true, if_false]
    rw [hf, ih h.2]

section canon
variable {N m : Nat} {rhs : List Nat} (hlt : ∀ q ∈ rhs, q < N)
include hlt

theorem dblFront_not_mem_rhs {x : Nat} (hx : x ∈ dblFront N m) : x ∉ rhs := by
  obtain ⟨i, _, rfl⟩ := mem_dblFront.1 hx
  intro h
  have := hlt _ h
  omega

theorem rhs_not_mem_dblFront {x : Nat} (hx : x ∈ rhs) : x ∉ dblFront N m :=
  fun h => dblFront_not_mem_rhs hlt h hx

/-- **G3 (a)** -/
theorem einTraced_canon :
    einTraced (dblFront N m ++ rhs) rhs = (List.range m).map (N + ·) := by
  unfold einTraced
  rw [List.filter_append]
  have h1 : (dblFront N m).filter (fun q => !rhs.contains q) = dblFront N m := by
    rw [List.filter_eq_self]
    intro x hx
    simp [dblFront_not_mem_rhs hlt hx]
  have h2 : rhs.filter (fun q => !rhs.contains q) = [] := by
    rw [List.filter_eq_nil_iff]
    intro x hx
    simp [hx]
  rw [h1, h2, List.append_nil]
  have : dblFront N m = ((List.range m).map (N + ·)).flatMap (fun k => [k, k]) := by
    rw [List.flatMap_map]; rfl
  rw [this]
  apply eraseDups_dbl
  exact List.Nodup.map_on (fun x _ y _ h => by omega) List.nodup_range

omit hlt in
/-- positions (counted from `k`) of the label `q` in `l` -/
theorem posOf_append (l1 l2 : List Nat) (k q : Nat) :
    (((l1 ++ l2).zipIdx k).filter (fun p => p.1 == q)).map (·.2) =
      ((l1.zipIdx k).filter (fun p => p.1 == q)).map (·.2) ++
        ((l2.zipIdx (k + l1.length)).filter (fun p => p.1 == q)).map (·.2) := by
  rw [List.zipIdx_append, List.filter_append, List.map_append]

omit hlt in
theorem posOf_not_mem {l : List Nat} {q : Nat} (h : q ∉ l) (k : Nat) :
    ((l.zipIdx k).filter (fun p => p.1 == q)).map (·.2) = [] := by
  induction l generalizing k with
  | nil => rfl
  | cons x xs ih =>
    have hx : ¬ (x == q) = true := by
      intro e; exact h (by rw [beq_iff_eq.mp e]; simp)
    rw [List.zipIdx_cons, List.filter_cons]
    simp only [hx]
    exact ih (fun hq => h (List.mem_cons_of_mem _ hq)) _

omit hlt in
theorem posOf_dblFront (tail : List Nat) {i : Nat} (hi : i < m) (ht : N + i ∉ tail) :
    (((dblFront N m ++ tail).zipIdx 0).filter (fun p => p.1 == N + i)).map (·.2)
      = [2 * i, 2 * i + 1] := by
  induction m generalizing tail with
  | zero => omega
  | succ m ih =>
    rw [dblFront_succ, List.append_assoc]
    by_cases him : i < m
    · apply ih _ him
      intro h
      rcases List.mem_append.1 h with h | h
      · simp only [List.mem_cons, List.not_mem_nil, or_false, or_self] at h
        omega
      · exact ht h
    · have e : i = m := by omega
      subst e
      have hnf : N + i ∉ dblFront N i := by
        intro h
        obtain ⟨j, hj, e⟩ := mem_dblFront.1 h
        omega
      rw [posOf_append, posOf_not_mem hnf, List.nil_append, dblFront_length, Nat.zero_add]
      rw [posOf_append, posOf_not_mem ht, List.append_nil]
      simp [List.zipIdx_cons]

/-- **G3 (b)** -/
theorem einTracedPos_canon :
    einTracedPos (dblFront N m ++ rhs) rhs = (List.range m).map (fun i => [2 * i, 2 * i + 1]) := by
  unfold einTracedPos
  rw [einTraced_canon hlt, List.map_map]
  apply List.map_congr_left
  intro i hi
  have hi := List.mem_range.1 hi
  simp only [Function.comp]
  apply posOf_dblFront rhs hi
  intro h
  have := hlt _ h
  omega

omit hlt in
theorem indexOf?_append_notMem (L G : List Nat) (x : Nat) (h : x ∉ L) :
    indexOf? (L ++ G) x = (indexOf? G x).map (L.length + ·) := by
  induction L with
  | nil => simp
  | cons y ys ih =>
    have hy : ¬ (y == x) = true := by
      intro e; exact h (by rw [beq_iff_eq.mp e]; simp)
    simp only [List.cons_append, indexOf?, hy, Bool.false_eq_true, if_false,
      ih (fun hx => h (List.mem_cons_of_mem _ hx)), List.length_cons, Option.map_map]
    congr 1
    funext k
    simp only [Function.comp]; omega

omit hlt in
theorem mapM_ok {α β ε : Type} (f : α → Except ε β) (g : α → β) (l : List α)
    (h : ∀ x ∈ l, f x = .ok (g x)) : l.mapM f = .ok (l.map g) := by
  induction l with
  | nil => rfl
  | cons x xs ih =>
    rw [List.mapM_cons, h x (by simp), ih (fun y hy => h y (List.mem_cons_of_mem _ hy))]
    rfl

/-- **G3 (c)** -/
theorem einPerm?_canon (hnd : rhs.Nodup) :
    einPerm? (dblFront N m ++ rhs) rhs = .ok ((List.range rhs.length).map (2 * m + ·)) := by
  unfold einPerm?
  rw [mapM_ok _ (fun q => 2 * m + (indexOf? rhs q).getD 0)]
  · congr 1
    apply List.ext_getElem
    · simp
    · intro n h1 h2
      have hn : n < rhs.length := by simpa using h1
      simp only [List.getElem_map, List.getElem_range, indexOf?_getElem hnd hn, Option.getD_some]
  · intro q hq
    obtain ⟨k, hk, _⟩ := indexOf?_of_mem hq
    rw [indexOf?_append_notMem _ _ _ (rhs_not_mem_dblFront hlt hq), hk, dblFront_length]
    rfl

/-- **G3 (d)** -/
theorem einIdx_canon (hnd : rhs.Nodup) (o t : List Nat) (ho : o.length = rhs.length) :
    einIdx (dblFront N m ++ rhs) rhs o t =
      (List.range m).flatMap (fun i => [t.getD i 0, t.getD i 0]) ++ o := by
  unfold einIdx
  rw [einTraced_canon hlt, List.map_append]
  congr 1
  · unfold dblFront
    rw [List.map_flatMap]
    apply List.flatMap_congr
    intro i hi
    have hi := List.mem_range.1 hi
    have h1 : indexOf? rhs (N + i) = none :=
      indexOf?_eq_none_iff.2 (fun h => by have := hlt _ h; omega)
    have h2 : indexOf? ((List.range m).map (N + ·)) (N + i) = some i := by
      have hnd' : ((List.range m).map (N + ·)).Nodup :=
        List.Nodup.map_on (fun x _ y _ h => by omega) List.nodup_range
      have hl : i < ((List.range m).map (N + ·)).length := by simpa using hi
      have := indexOf?_getElem hnd' hl
      simpa using this
    simp only [List.map_cons, List.map_nil, h1, h2]
  · apply List.ext_getElem
    · simp [ho]
    · intro n h1 h2
      have hn : n < rhs.length := by simpa using h1
      simp only [List.getElem_map, indexOf?_getElem hnd hn]
      simp [List.getD_eq_getElem?_getD, h2]

end canon

/-! ### G3 with the labels written out -/

theorem dblFront_eq (N m : Nat) :
    dblFront N m = (List.range m).flatMap (fun i => [N + i, N + i]) := rfl

theorem einTraced_canon' {N m : Nat} {rhs : List Nat} (hlt : ∀ q ∈ rhs, q < N) :
    einTraced ((List.range m).flatMap (fun i => [N + i, N + i]) ++ rhs) rhs
      = (List.range m).map (N + ·) := einTraced_canon hlt

theorem einTracedPos_canon' {N m : Nat} {rhs : List Nat} (hlt : ∀ q ∈ rhs, q < N) :
    einTracedPos ((List.range m).flatMap (fun i => [N + i, N + i]) ++ rhs) rhs
      = (List.range m).map (fun i => [2 * i, 2 * i + 1]) := einTracedPos_canon hlt

theorem einPerm?_canon' {N m : Nat} {rhs : List Nat} (hlt : ∀ q ∈ rhs, q < N) (hnd : rhs.Nodup) :
    einPerm? ((List.range m).flatMap (fun i => [N + i, N + i]) ++ rhs) rhs
      = .ok ((List.range rhs.length).map (2 * m + ·)) := einPerm?_canon hlt hnd

theorem einIdx_canon' {N m : Nat} {rhs : List Nat} (hlt : ∀ q ∈ rhs, q < N) (hnd : rhs.Nodup)
    (o t : List Nat) (ho : o.length = rhs.length) :
    einIdx ((List.range m).flatMap (fun i => [N + i, N + i]) ++ rhs) rhs o t
      = (List.range m).flatMap (fun i => [t.getD i 0, t.getD i 0]) ++ o :=
  einIdx_canon hlt hnd o t ho

end TwoStepP
end SymmModel
