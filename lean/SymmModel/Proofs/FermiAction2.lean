/-
  SymmModel.Proofs.FermiAction2 — applying a one-site local operator array to a state tensor
  (property C18, action clause, n = 1): the graded contraction of C03 specialised to an operator
  array `G[ket, bra]` and a state `ψ[ket, …]` is the matrix–vector product with the Fock matrix.
-/
import SymmModel.Proofs.FermiAction1
import SymmModel.Proofs.Graded
import Mathlib.Algebra.BigOperators.Group.List.Basic
import Mathlib.Algebra.Ring.Basic

namespace SymmModel
namespace FermiActP
open FermiOpsP GradedP TdotP
open Lazy (sgnI)

/-- a ring has the sign laws of the graded contraction -/
instance signRingOfRing {R : Type} [Ring R] : SignRing R :=
  ⟨neg_neg, neg_zero, neg_add, neg_mul, mul_neg⟩

/-! ### sums over lists -/
section sums
variable {R : Type} [AddCommMonoid R]

theorem sum_map_eq_zero {β : Type} (l : List β) (f : β → R) (h : ∀ x ∈ l, f x = 0) :
    (l.map f).sum = 0 := by
  induction l with
  | nil => rfl
  | cons a l ih =>
    rw [List.map_cons, List.sum_cons, h a List.mem_cons_self,
      ih (fun x hx => h x (List.mem_cons_of_mem _ hx)), add_zero]

theorem sum_flatMap_map {β γ : Type} (l : List β) (f : β → List γ) (g : γ → R) :
    ((l.flatMap f).map g).sum = (l.map (fun a => ((f a).map g).sum)).sum := by
  induction l with
  | nil => rfl
  | cons a l ih => rw [List.flatMap_cons, List.map_append, List.sum_append, ih, List.map_cons, List.sum_cons]

/-- re-indexing a sum along an injective map into a larger duplicate-free list on whose
    remaining elements the summand vanishes -/
theorem sum_reindex {π κ : Type} [DecidableEq κ] (P : List π) (K : List κ) (g : π → κ)
    (F : π → R) (F' : κ → R) (hP : P.Nodup) (hK : K.Nodup)
    (hinj : ∀ p ∈ P, ∀ q ∈ P, g p = g q → p = q) (hsub : ∀ p ∈ P, g p ∈ K)
    (hF : ∀ p ∈ P, F p = F' (g p)) (hz : ∀ k ∈ K, k ∉ P.map g → F' k = 0) :
    (P.map F).sum = (K.map F').sum := by
  have hQ : (P.map g).Nodup := by
    rw [List.nodup_map_iff_inj_on hP]
    intro x hx y hy e; exact hinj x hx y hy e
  have hperm : (K.filter (fun k => decide (k ∈ P.map g))).Perm (P.map g) := by
    rw [List.perm_ext_iff_of_nodup (hK.filter _) hQ]
    intro k
    simp only [List.mem_filter, decide_eq_true_eq]
    constructor
    · exact fun h => h.2
    · intro h
      obtain ⟨p, hp, rfl⟩ := List.mem_map.mp h
      exact ⟨hsub p hp, h⟩
  have hsplit := (List.filter_append_perm (fun k => decide (k ∈ P.map g)) K).symm
  have hzero : ((K.filter (fun x => !decide (x ∈ P.map g))).map F').sum = 0 :=
    sum_map_eq_zero _ F' (fun k hk => by
      simp only [List.mem_filter, Bool.not_eq_true', decide_eq_false_iff_not] at hk
      exact hz k hk.1 hk.2)
  rw [(hsplit.map F').sum_eq, List.map_append, List.sum_append, hzero, add_zero,
    (hperm.map F').sum_eq, List.map_map]
  congr 1
  apply List.map_congr_left
  intro p hp
  exact hF p hp

end sums

/-! ### positions in canonical layout -/

theorem permuted_append_left {α : Type} (A B : List α) :
    permuted (A ++ B) (List.range A.length) = A := by
  unfold permuted
  apply List.ext_getElem?
  intro i
  by_cases hi : i < A.length
  · have : ((List.range A.length).filterMap (fun p => (A ++ B)[p]?))
        = (List.range A.length).filterMap (fun p => A[p]?) := by
      apply List.filterMap_congr
      intro p hp
      rw [List.getElem?_append_left (List.mem_range.mp hp)]
    rw [this]
    have := ValidP.permuted_range A
    unfold permuted at this
    rw [this]
  · have h1 : ((List.range A.length).filterMap (fun p => (A ++ B)[p]?)).length ≤ A.length := by
      calc _ ≤ (List.range A.length).length := List.length_filterMap_le _ _
        _ = A.length := List.length_range
    rw [List.getElem?_eq_none (by omega), List.getElem?_eq_none (by omega)]

theorem permuted_append_right {α : Type} (A B : List α) :
    permuted (A ++ B) ((List.range (A.length + B.length)).drop A.length) = B := by
  have hd : (List.range (A.length + B.length)).drop A.length
      = (List.range B.length).map (A.length + ·) := by
    rw [List.range_add, List.drop_left' (by simp)]
  rw [hd]
  unfold permuted
  rw [List.filterMap_map]
  have : (List.range B.length).filterMap ((fun p => (A ++ B)[p]?) ∘ (A.length + ·))
      = (List.range B.length).filterMap (fun p => B[p]?) := by
    apply List.filterMap_congr
    intro p _
    simp only [Function.comp]
    rw [List.getElem?_append_right (by omega)]
    congr 1; omega
  rw [this]
  have := ValidP.permuted_range B
  unfold permuted at this
  exact this

theorem range_split (m k : Nat) (hk : k ≤ m) :
    List.range k ++ (List.range m).drop k = List.range m := by
  have : (List.range m).take k = List.range k := by
    rw [List.take_range]; congr 1; omega
  rw [← this, List.take_append_drop]

theorem freeAxes_zero (m : Nat) (hm : 1 ≤ m) : freeAxes m [0] = (List.range m).drop 1 :=
  freeAxes_range m 1 hm

theorem without_head {α : Type} (x : α) (l : List α) : without (x :: l) [0] = l := by
  rw [without_eq_permuted_freeAxes, freeAxes_zero _ (by simp)]
  have := permuted_append_right [x] l
  simpa [Nat.add_comm] using this

theorem allIdx_single (d : Nat) : allIdx [d] = (List.range d).map (fun k => [k]) := by
  simp only [allIdx, List.map_cons, List.map_nil]
  induction List.range d with
  | nil => rfl
  | cons a l ih => simp [List.flatMap_cons, ih]

/-! ### a two-leg operator array applied to the first leg of a state -/
section apply1
variable {R : Type} [Ring R]

theorem elem_eq_zero_of_not_mem (a : Arr R) (s : Sector) (off : List Nat) (h : s ∉ a.sectors) :
    a.elem s off = 0 := by
  unfold Arr.elem
  have : alookup a.blocks s = none := alookup_eq_none_iff.mpr h
  rw [this]

/-- no sign: identity layouts, one contracted pair, which is bra-then-ket -/
theorem gradedSign_op1 (G ψ : Arr R) (hG : G.ndim = 2)
    (hdual : (G.indices.getD 1 default).dual = true) (hm : 1 ≤ ψ.ndim) (sa sb : Sector) :
    gradedSign G ψ [1] [0] sa sb = 1 := by
  unfold gradedSign
  rw [hG]
  have e1 : freeAxes 2 [1] ++ [1] = List.range 2 := by decide
  have e2 : [0] ++ freeAxes ψ.ndim [0] = List.range ψ.ndim := by
    rw [freeAxes_zero _ hm]; exact range_split ψ.ndim 1 hm
  rw [e1, e2, KoszulP.koszul_id', KoszulP.koszul_id', oddContracted_le_one]
  have : ketOdd G [1] sa = 0 := by
    unfold ketOdd
    have : [1].filter (fun ax => !(G.indices.getD ax default).dual) = [] := by
      simp only [List.filter, hdual]
      rfl
    rw [this]; rfl
  rw [this]; rfl

theorem mergeIdx_state (m : Nat) (k : Nat) (oR : List Nat) (h : oR.length + 1 = m) :
    mergeIdx 0 m [0] (freeAxes m [0]) [k] oR = k :: oR := by
  have hm : 1 ≤ m := by omega
  have hx : (k :: oR).length = m := by simpa using h
  have := mergeIdx_permuted (d := 0) (n := m) (axes := [0]) (free := freeAxes m [0]) (x := k :: oR) hx
    (by intro y hy; simp only [List.mem_singleton] at hy; omega)
    (fun y hy => (mem_freeAxes.mp hy).1)
    (fun y hy => by
      by_cases h0 : y = 0
      · left; simp [h0]
      · right; exact mem_freeAxes.mpr ⟨hy, by simpa using h0⟩)
  have e1 : permuted (k :: oR) [0] = [k] := rfl
  have e2 : permuted (k :: oR) (freeAxes m [0]) = oR := by
    rw [freeAxes_zero m hm, ← h]
    have := permuted_append_right [k] oR
    simpa [Nat.add_comm] using this
  rw [e1, e2] at this
  exact this

end apply1

section apply1b
variable {R : Type} [Ring R]

/-- **a two-leg operator array applied to the first leg of a state** (any valid fermionic
    `G[ket, bra]`, not only a built one): the result at the address `(ci :: Rr, oi :: oR)` is the
    label sign times `Σ_{(c₂, d₂) ∈ bra table} Σ_{k < d₂} G[(ci, oi), (c₂, k)] · ψ[(c₂, k), …]`
    — a plain matrix–vector product, no further sign. -/
theorem apply_one (G ψ c : Arr R) (ik ib : Index) (hidx : G.indices = [ik, ib])
    (hdual : ib.dual = true)
    (hG : G.validB = true) (hψ : ψ.validB = true) (hfG : G.fermi = true) (hfψ : ψ.fermi = true)
    (hadm : ValidP.tdotAdmissibleB G ψ [1] [0] = true)
    (h : G.tensordotF ψ (.pair ([1].map Int.ofNat) ([0].map Int.ofNat)) .blockwise = .ok c) :
    ∃ out ph, OddposP.mergeOddpos G.parity G.oddpos ψ.oddpos = .ok (out, ph) ∧ c.oddpos = out
      ∧ c.charge = G.sym.combine [G.charge, ψ.charge]
      ∧ ∀ (ci : Charge) (Rr : Sector) (oi : Nat) (oR : List Nat) (shp : List Nat),
          Arr.blockShape? (ik :: ψ.indices.drop 1) (ci :: Rr) = some shp →
          inBox shp (oi :: oR) = true →
          c.elem (ci :: Rr) (oi :: oR) = sgnI ph
            ((ib.cm.map (fun cd => ((List.range cd.2).map (fun k =>
                G.elem [ci, cd.1] [oi, k] * ψ.elem (cd.1 :: Rr) (k :: oR))).sum)).sum) := by
  obtain ⟨out, ph, h1, h2, h3, h4⟩ := tensordotF_graded G ψ c [1] [0] hG hψ hfG hfψ hadm h
  refine ⟨out, ph, h1, h2, h3, ?_⟩
  intro ci Rr oi oR shp hshp hbox
  -- basic facts
  have hGn : G.ndim = 2 := by simp [Arr.ndim, hidx]
  have hadm' := hadm
  unfold ValidP.tdotAdmissibleB at hadm'
  simp only [Bool.and_eq_true, decide_eq_true_eq, List.all_eq_true] at hadm'
  have hm : 1 ≤ ψ.ndim := by
    have := hadm'.2 0 (by simp); omega
  obtain ⟨_, hGnd, hGlen, _, hGsorted, _⟩ := validB_facts G hG
  obtain ⟨_, hψnd, hψlen, _, _, _⟩ := validB_facts ψ hψ
  have hGshape := Arr.shapesOk_of_validB hG
  have hibnd : (ib.cm.map (·.1)).Nodup := by
    have := hGsorted ib (by rw [hidx]; simp)
    exact nodup_of_pairwise_lt this
  obtain ⟨x, rest, hψidx⟩ : ∃ x rest, ψ.indices = x :: rest := by
    cases hi : ψ.indices with
    | nil => simp [Arr.ndim, hi] at hm
    | cons x rest => exact ⟨x, rest, rfl⟩
  have hdrop : ψ.indices.drop 1 = rest := by rw [hψidx]; rfl
  have hoR : oR.length + 1 = ψ.ndim := by
    have := inBox_length hbox
    have h2 := Arr.blockShape?_shape_length hshp
    rw [hdrop] at h2
    simp only [List.length_cons] at this h2
    simp only [Arr.ndim, hψidx, List.length_cons]; omega
  have hwG : without G.indices [1] = [ik] := by rw [hidx]; rfl
  have hwψ : without ψ.indices [0] = ψ.indices.drop 1 := by rw [hψidx, without_head]; rfl
  have key := h4 (ci :: Rr) [oi] oR (by rw [hGn]; rfl)
    (by rw [hwG, hwψ]; show inBox (Arr.blockShapeD (ik :: ψ.indices.drop 1) (ci :: Rr)) (oi :: oR) = true
        unfold Arr.blockShapeD; rw [hshp]; exact hbox)
  show c.elem (ci :: Rr) ([oi] ++ oR) = _
  rw [key]
  congr 1
  unfold gradedContract
  rw [hGn]
  have hf2 : freeAxes 2 [1] = [0] := by decide
  rw [hf2, freeAxes_zero _ hm]
  -- membership in the pair list
  have hmemP : ∀ sa sb, (sa, sb) ∈ storedPairs G ψ [0] [1] [0] ((List.range ψ.ndim).drop 1) (ci :: Rr) ↔
      ∃ c2, sa = [ci, c2] ∧ sb = c2 :: Rr ∧ sa ∈ G.sectors ∧ sb ∈ ψ.sectors := by
    intro sa sb
    rw [mem_storedPairs]
    constructor
    · rintro ⟨hA, hB, hal, hs⟩
      have la := hGlen sa hA
      have lb := hψlen sb hB
      rw [hGn] at la
      match sa, la with
      | [c1, c2], _ =>
        cases sb with
        | nil => simp only [List.length_nil] at lb; omega
        | cons cb tb =>
          have e1 : permuted (cb :: tb) [0] = [cb] := rfl
          have e2 : permuted [c1, c2] [1] = [c2] := rfl
          have e3 : permuted [c1, c2] [0] = [c1] := rfl
          have e4 : permuted (cb :: tb) ((List.range ψ.ndim).drop 1) = tb := by
            have := permuted_append_right [cb] tb
            simp only [List.length_cons] at lb
            rw [← lb]
            simpa [Nat.add_comm] using this
          rw [e1, e2] at hal
          rw [e3, e4] at hs
          simp only [List.cons.injEq, and_true] at hal
          simp only [List.singleton_append, List.cons.injEq] at hs
          obtain ⟨rfl, rfl⟩ := hs
          subst hal
          exact ⟨cb, rfl, rfl, hA, hB⟩
    · rintro ⟨c2, rfl, rfl, hA, hB⟩
      have lb := hψlen _ hB
      refine ⟨hA, hB, rfl, ?_⟩
      have e4 : permuted (c2 :: Rr) ((List.range ψ.ndim).drop 1) = Rr := by
        have := permuted_append_right [c2] Rr
        simp only [List.length_cons] at lb
        rw [← lb]
        simpa [Nat.add_comm] using this
      rw [e4]; rfl
  -- the shape of a stored operator sector
  have hshapeG : ∀ c1 c2, [c1, c2] ∈ G.sectors → ∃ d1 d2, Arr.blockShapeD G.indices [c1, c2] = [d1, d2]
      ∧ (c2, d2) ∈ ib.cm := by
    intro c1 c2 hA
    obtain ⟨⟨s', b⟩, hb, hs'⟩ := List.mem_map.mp hA
    simp only at hs'; subst hs'
    have := hGshape (_, b) hb
    simp only at this
    rw [hidx, Arr.blockShape?_cons] at this
    cases hk : ik.sizeOf? c1 with
    | none => rw [hk] at this; cases this
    | some d1 =>
      rw [hk, Option.bind_some, Arr.blockShape?_cons] at this
      cases hb2 : ib.sizeOf? c2 with
      | none => rw [hb2] at this; cases this
      | some d2 =>
        refine ⟨d1, d2, ?_, alookup_eq_some_mem hb2⟩
        unfold Arr.blockShapeD
        rw [hidx, Arr.blockShape?_cons, hk, Option.bind_some, Arr.blockShape?_cons, hb2]
        rfl
  apply sum_reindex _ ib.cm (fun p => (p.1.getD 1 (0, 0), (alookup ib.cm (p.1.getD 1 (0, 0))).getD 0))
  · exact storedPairs_nodup _ _ _ _ _ hGnd hψnd
  · exact List.Nodup.of_map _ hibnd
  · rintro ⟨sa, sb⟩ hp ⟨sa', sb'⟩ hq e
    obtain ⟨c2, rfl, rfl, _, _⟩ := (hmemP sa sb).mp hp
    obtain ⟨c2', rfl, rfl, _, _⟩ := (hmemP sa' sb').mp hq
    simp only [Prod.mk.injEq] at e
    have : c2 = c2' := e.1
    subst this; rfl
  · rintro ⟨sa, sb⟩ hp
    obtain ⟨c2, rfl, rfl, hA, _⟩ := (hmemP sa sb).mp hp
    obtain ⟨d1, d2, _, hmem⟩ := hshapeG ci c2 hA
    show (c2, (alookup ib.cm c2).getD 0) ∈ ib.cm
    rw [alookup_of_mem_nodup hibnd hmem]; exact hmem
  · rintro ⟨sa, sb⟩ hp
    obtain ⟨c2, rfl, rfl, hA, _⟩ := (hmemP sa sb).mp hp
    obtain ⟨d1, d2, hsh, hmem⟩ := hshapeG ci c2 hA
    show sgnI (gradedSign G ψ [1] [0] [ci, c2] (c2 :: Rr)) (contractPair G ψ [1] [0] [oi] oR ([ci, c2], c2 :: Rr)) = _
    rw [gradedSign_op1 G ψ hGn (by rw [hidx]; exact hdual) hm, Lazy.sgnI_one]
    show _ = ((List.range ((alookup ib.cm c2).getD 0)).map _).sum
    rw [alookup_of_mem_nodup hibnd hmem]
    unfold contractPair
    simp only
    rw [hsh]
    have e2 : permuted [d1, d2] [1] = [d2] := rfl
    rw [e2, allIdx_single, List.map_map]
    congr 1
    apply List.map_congr_left
    intro k _
    simp only [Function.comp, contractTerm]
    rw [hGn, hf2, mergeIdx_state ψ.ndim k oR hoR]
    rfl
  · rintro ⟨c2, d2⟩ hK hnot
    apply sum_map_eq_zero
    intro k _
    by_cases hA : [ci, c2] ∈ G.sectors
    · by_cases hB : (c2 :: Rr) ∈ ψ.sectors
      · exfalso
        apply hnot
        refine List.mem_map.mpr ⟨([ci, c2], c2 :: Rr), (hmemP _ _).mpr ⟨c2, rfl, rfl, hA, hB⟩, ?_⟩
        show (c2, (alookup ib.cm c2).getD 0) = (c2, d2)
        rw [alookup_of_mem_nodup hibnd hK]; rfl
      · rw [elem_eq_zero_of_not_mem ψ _ _ hB, mul_zero]
    · rw [elem_eq_zero_of_not_mem G _ _ hA, zero_mul]

end apply1b

/-! ### basis index ↔ (charge, offset inside the charge block) along one axis -/

/-- offset of basis state `j` inside the block of its charge: its rank among the positions
    carrying the same label -/
def rankIn (m : List Charge) (j : Nat) : Nat :=
  ((alookup (chargeGroups m) (m.getD j (0, 0))).getD []).idxOf j

/-- the `k`-th basis state carrying charge `c` -/
def posIn (m : List Charge) (c : Charge) (k : Nat) : Nat :=
  ((alookup (chargeGroups m) c).getD []).getD k 0

theorem group_nodup {m : List Charge} {c : Charge} {l : List Nat}
    (hl : alookup (chargeGroups m) c = some l) : l.Nodup :=
  ((chargeGroups_inv m).sorted c l hl).imp (fun h => Nat.ne_of_lt h)

theorem pos_of_group (m : List Charge) (c : Charge) (l : List Nat)
    (hl : alookup (chargeGroups m) c = some l) (k : Nat) (hk : k < l.length) :
    posIn m c k = l[k] ∧ l[k] < m.length ∧ m.getD l[k] (0, 0) = c ∧ rankIn m l[k] = k := by
  have hlab := ((chargeGroups_inv m).label c l hl l[k] (List.getElem_mem hk)).1
  have hlt : l[k] < m.length := by
    by_contra hn; rw [List.getElem?_eq_none (by omega)] at hlab; cases hlab
  have hget : m.getD l[k] (0, 0) = c := by rw [List.getD_eq_getElem?_getD, hlab]; rfl
  refine ⟨?_, hlt, hget, ?_⟩
  · simp [posIn, hl, List.getD_eq_getElem?_getD, List.getElem?_eq_getElem hk]
  · unfold rankIn
    rw [hget, hl]
    exact (group_nodup hl).idxOf_getElem k hk

theorem group_of_pos (m : List Charge) (j : Nat) (hj : j < m.length) :
    ∃ l, alookup (chargeGroups m) (m.getD j (0, 0)) = some l ∧ j ∈ l
      ∧ ∃ hr : rankIn m j < l.length, l[rankIn m j] = j := by
  have hlab : m[j]? = some (m.getD j (0, 0)) := by
    rw [List.getD_eq_getElem?_getD, List.getElem?_eq_getElem hj]; rfl
  obtain ⟨l, hl, hmem⟩ := (chargeGroups_inv m).cover j _ hj hlab
  have hr : rankIn m j < l.length := by
    unfold rankIn; rw [hl]; exact List.idxOf_lt_length_of_mem hmem
  refine ⟨l, hl, hmem, hr, ?_⟩
  have e : rankIn m j = l.idxOf j := by unfold rankIn; rw [hl]; rfl
  have := List.getElem_idxOf (x := j) (xs := l) (List.idxOf_lt_length_of_mem hmem)
  simp only [e]; exact this

theorem groups_perm (m : List Charge) :
    ((chargeGroups m).flatMap (·.2)).Perm (List.range m.length) := by
  have inv := chargeGroups_inv m
  have hnd : ((chargeGroups m).flatMap (·.2)).Nodup := by
    rw [List.nodup_flatMap]
    constructor
    · rintro ⟨c, l⟩ hcl
      exact group_nodup ((mem_iff_alookup inv.nodup).mp hcl)
    · have := inv.nodup
      rw [List.Nodup, List.pairwise_map] at this
      refine List.Pairwise.imp_of_mem ?_ this
      rintro ⟨c, l⟩ ⟨c', l'⟩ h1 h2 hne
      simp only [Function.onFun]
      intro j hj hj'
      have e1 := (inv.label c l ((mem_iff_alookup inv.nodup).mp h1) j hj).1
      have e2 := (inv.label c' l' ((mem_iff_alookup inv.nodup).mp h2) j hj').1
      rw [e1] at e2
      exact hne (Option.some.inj e2)
  rw [List.perm_ext_iff_of_nodup hnd List.nodup_range]
  intro j
  simp only [List.mem_flatMap, List.mem_range]
  constructor
  · rintro ⟨⟨c, l⟩, hcl, hj⟩
    have := (inv.label c l ((mem_iff_alookup inv.nodup).mp hcl) j hj).1
    by_contra hn; rw [List.getElem?_eq_none (by omega)] at this; cases this
  · intro hj
    obtain ⟨l, hl, hmem, _⟩ := group_of_pos m j hj
    exact ⟨(_, l), (mem_iff_alookup inv.nodup).mpr hl, hmem⟩

theorem sum_range_getElem {R : Type} [AddCommMonoid R] (l : List Nat) (h : Nat → R) :
    ((List.range l.length).map (fun k => h (l.getD k 0))).sum = (l.map h).sum := by
  congr 1
  apply List.ext_getElem
  · simp
  · intro i h1 h2
    simp only [List.length_map, List.length_range] at h1
    simp [List.getD_eq_getElem?_getD, List.getElem?_eq_getElem h1]

/-- summing block by block over the sorted charge table of an axis = summing over the basis -/
theorem sum_groups {R : Type} [AddCommMonoid R] (m : List Charge) (h : Nat → R) :
    ((Index.sortCm (gsizes m)).map (fun cd =>
        ((List.range cd.2).map (fun k => h (posIn m cd.1 k))).sum)).sum
      = ((List.range m.length).map h).sum := by
  rw [((sortCm_perm (gsizes m)).map _).sum_eq, ← ((groups_perm m).map h).sum_eq, sum_flatMap_map]
  unfold gsizes
  rw [List.map_map]
  congr 1
  apply List.map_congr_left
  rintro ⟨c, l⟩ hcl
  have hl := (mem_iff_alookup (chargeGroups_inv m).nodup).mp hcl
  simp only [Function.comp, posIn, hl, Option.getD_some]
  exact sum_range_getElem l h

/-! ### the one-site operator array applied to a state -/
section action1
variable {R : Type} [Ring R] [DecidableEq R]

/-- entry of the operator array at a basis multi-index `(i…, j…)`: the specified element, masked
    by charge conservation of the labels (the mask is vacuous for neutral terms, see
    `opEntry_eq_specAt`) -/
def opEntry (terms : List (R × Word)) (bases : List (List Word)) (sym : Sym)
    (maps : List (List Charge)) (idx : List Nat) : R :=
  if Arr.sectorCharge sym (opDuals bases.length) (labelsAt (maps ++ maps) idx) == sym.zero
  then specAt terms bases idx else 0

theorem key_of_lookup {m : List Charge} {c : Charge} {l : List Nat}
    (hl : alookup (chargeGroups m) c = some l) : c ∈ (chargeGroups m).map (·.1) := by
  rw [← alookup_isSome_iff, hl]; rfl

theorem opArray_elem_one (terms : List (R × Word)) (b : List Word) (sym : Sym) (m : List Charge)
    (hm : m.length = b.length) (c1 c2 : Charge) (l1 l2 : List Nat)
    (h1 : alookup (chargeGroups m) c1 = some l1) (h2 : alookup (chargeGroups m) c2 = some l2)
    (o1 o2 : Nat) (ho1 : o1 < l1.length) (ho2 : o2 < l2.length) :
    (opArray terms [b] sym [m]).elem [c1, c2] [o1, o2]
      = opEntry terms [b] sym [m] [l1[o1], l2[o2]] := by
  have hs : SectorOf ([m] ++ [m]) [c1, c2] :=
    List.Forall₂.cons (key_of_lookup h1) (List.Forall₂.cons (key_of_lookup h2) List.Forall₂.nil)
  have hpos : fdPos ([m] ++ [m]) [c1, c2] = [l1, l2] := by
    show [(alookup (chargeGroups m) c1).getD [], (alookup (chargeGroups m) c2).getD []] = _
    rw [h1, h2]; rfl
  have hbox : inBox ((fdPos ([m] ++ [m]) [c1, c2]).map List.length) [o1, o2] = true := by
    rw [hpos]; simp [inBox, ho1, ho2]
  have horig : fdOrig ([m] ++ [m]) [c1, c2] [o1, o2] = [l1[o1], l2[o2]] := by
    unfold fdOrig; rw [hpos]
    simp [List.getD_eq_getElem?_getD, List.getElem?_eq_getElem ho1, List.getElem?_eq_getElem ho2]
  rw [(opArray_elem terms [b] sym [m] (by simp [hm]) [c1, c2] [o1, o2]).1 hs hbox, horig]
  unfold opEntry
  have hlab : labelsAt ([m] ++ [m]) [l1[o1], l2[o2]] = [c1, c2] := by
    have e1 := (pos_of_group m c1 l1 h1 o1 ho1).2.2.1
    have e2 := (pos_of_group m c2 l2 h2 o2 ho2).2.2.1
    show [m.getD l1[o1] (0, 0), m.getD l2[o2] (0, 0)] = _
    rw [e1, e2]
  rw [hlab]

theorem opArray_indices_one (terms : List (R × Word)) (b : List Word) (sym : Sym) (m : List Charge) :
    (opArray terms [b] sym [m]).indices
      = [Index.plain (gsizes m) false, Index.plain (gsizes m) true] := rfl

/-- **action of a one-site operator array.**  `tensordot(G, ψ, axes=([1], [0]))` for
    `G = build_local_fermionic_array(terms, [b], sym, [m])` and a valid fermionic state `ψ` whose
    first leg matches `G`'s bra leg: at the address of basis state `i` (charge `m[i]`, offset
    `rankIn m i`) and any address `(Rr, oR)` of the remaining legs, the result is the label sign
    times `Σ_j G⟨i, j⟩ · ψ⟨j, Rr, oR⟩` over ALL basis states `j` of the site. -/
theorem action_one (terms : List (R × Word)) (b : List Word) (sym : Sym) (m : List Charge)
    (hm : m.length = b.length) (hv : ∀ c ∈ m, sym.valid c = true)
    (ψ c : Arr R) (hψ : ψ.validB = true) (hfψ : ψ.fermi = true)
    (hadm : ValidP.tdotAdmissibleB (opArray terms [b] sym [m]) ψ [1] [0] = true)
    (h : (opArray terms [b] sym [m]).tensordotF ψ (.pair ([1].map Int.ofNat) ([0].map Int.ofNat))
        .blockwise = .ok c) :
    ∃ out ph, OddposP.mergeOddpos false [] ψ.oddpos = .ok (out, ph) ∧ c.oddpos = out
      ∧ c.charge = sym.combine [sym.zero, ψ.charge]
      ∧ ∀ (i : Nat) (Rr : Sector) (oR shpR : List Nat), i < b.length →
          Arr.blockShape? (ψ.indices.drop 1) Rr = some shpR → inBox shpR oR = true →
          c.elem (m.getD i (0, 0) :: Rr) (rankIn m i :: oR) = sgnI ph
            (((List.range b.length).map (fun j =>
                opEntry terms [b] sym [m] [i, j]
                  * ψ.elem (m.getD j (0, 0) :: Rr) (rankIn m j :: oR))).sum) := by
  have hG := opArray_valid terms [b] sym [m] (by simp [hm])
    (by intro m' hm'; simp only [List.mem_singleton] at hm'; subst hm'; exact hv)
  obtain ⟨out, ph, h1, h2, h3, h4⟩ := apply_one (opArray terms [b] sym [m]) ψ c
    (Index.plain (gsizes m) false) (Index.plain (gsizes m) true)
    (opArray_indices_one terms b sym m) rfl hG hψ rfl hfψ hadm h
  have hpar : (opArray terms [b] sym [m]).parity = false := parity_zero sym
  rw [hpar] at h1
  refine ⟨out, ph, h1, h2, h3, ?_⟩
  intro i Rr oR shpR hi hshp hbox
  have hi' : i < m.length := by omega
  obtain ⟨l, hl, hmem, hr, hli⟩ := group_of_pos m i hi'
  have hshape : Arr.blockShape? (Index.plain (gsizes m) false :: ψ.indices.drop 1)
      (m.getD i (0, 0) :: Rr) = some (l.length :: shpR) := by
    rw [Arr.blockShape?_cons, sizeOf_plain_gsizes, hl, hshp]; rfl
  have hbox' : inBox (l.length :: shpR) (rankIn m i :: oR) = true := by
    simp [inBox, hr, hbox]
  rw [h4 _ Rr _ oR _ hshape hbox']
  congr 1
  rw [← hm, ← sum_groups m (fun j => opEntry terms [b] sym [m] [i, j]
      * ψ.elem (m.getD j (0, 0) :: Rr) (rankIn m j :: oR))]
  show ((Index.sortCm (gsizes m)).map _).sum = _
  congr 1
  apply List.map_congr_left
  rintro ⟨c2, d2⟩ hcd
  obtain ⟨l2, hl2, hd2⟩ := mem_gsizes.mp (mem_sortCm.mp hcd)
  simp only
  congr 1
  apply List.map_congr_left
  intro k hk
  have hk' : k < l2.length := by rw [hd2]; exact List.mem_range.mp hk
  obtain ⟨p1, p2, p3, p4⟩ := pos_of_group m c2 l2 hl2 k hk'
  rw [p1, p3, p4, opArray_elem_one terms b sym m hm _ c2 l l2 hl hl2 _ k hr hk', hli]

end action1

end FermiActP
end SymmModel
