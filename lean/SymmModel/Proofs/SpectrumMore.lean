/-
  SymmModel.Proofs.SpectrumMore — corollaries of the charpoly factorisations (sector matrices of
  stored / missing sectors, Gram blocks as `Sᴴ S`, eigenvalue multisets) and the global
  reindexing of the dense form to `Matrix.blockDiagonal'`.
-/
import SymmModel.Proofs.SpectrumDense

namespace SymmModel
namespace Spectrum

open Arr Matrix LinalgLemmas Polynomial

variable {R : Type} [CommRing R]

/-! ### sector matrices -/

/-- the sector matrix of a sector that is not stored is zero -/
theorem sectorMatrix_missing (a : Arr R) (r c : Charge) (m n : Nat) (h : [r, c] ∉ a.sectors) :
    a.sectorMatrix r c m n = 0 := by
  ext i j
  simp only [Arr.sectorMatrix, Matrix.zero_apply]
  by_contra hne
  exact h (elem_ne_zero_mem hne)

/-- … so its characteristic polynomial is `X ^ n` (eigenvalue 0 with multiplicity `n`) -/
theorem charpoly_sectorMatrix_missing (a : Arr R) (c : Charge) (n : Nat) (h : [c, c] ∉ a.sectors) :
    (a.sectorMatrix c c n n).charpoly = X ^ n := by
  rw [sectorMatrix_missing a c c n n h, charpoly_zero, Fintype.card_fin]

/-- for an array without pending signs the sector matrix of a stored sector is the stored block -/
theorem sectorMatrix_stored (a : Arr R) (hph : a.phases = []) (hnd : a.sectors.Nodup)
    {r c : Charge} {b : Blk R} (hm : ([r, c], b) ∈ a.blocks) (m n : Nat) :
    a.sectorMatrix r c m n = b.toMatrix m n := by
  ext i j
  simp only [Arr.sectorMatrix, Blk.toMatrix, elem_of_mem hnd hm, hph, alookup]
  rfl

/-! ### Gram blocks -/

theorem sum_map_single {α : Type} (l : List α) (f : α → R) (x : α) (hx : x ∈ l) (hnd : l.Nodup)
    (h0 : ∀ y ∈ l, y ≠ x → f y = 0) : (l.map f).sum = f x := by
  induction l with
  | nil => cases hx
  | cons a l ih =>
    rw [List.nodup_cons] at hnd
    rw [List.map_cons, List.sum_cons]
    rcases List.mem_cons.mp hx with rfl | hx'
    · have : (l.map f).sum = 0 := by
        apply List.sum_eq_zero
        intro v hv
        obtain ⟨y, hy, rfl⟩ := List.mem_map.mp hv
        exact h0 y (List.mem_cons_of_mem _ hy) (fun e => hnd.1 (e ▸ hy))
      rw [this, add_zero]
    · have ha : a ≠ x := fun e => hnd.1 (e ▸ hx')
      rw [h0 a List.mem_cons_self ha, zero_add]
      exact ih hx' hnd.2 (fun y hy => h0 y (List.mem_cons_of_mem _ hy))

/-- the Gram block of a column charge `c` whose sector `[r, c]` is stored is `Sᴴ S` for the
    sector matrix `S` of `[r, c]` -/
theorem colGram_stored (conj : R → R) {a : Arr R} (hv : a.validB = true)
    (h2 : a.ndim = 2) {i0 i1 : Index} (hi : a.indices = [i0, i1]) {r c : Charge}
    (hs : [r, c] ∈ a.sectors) {m : Nat} (hr : (r, m) ∈ Index.sortCm i0.cm) (n : Nat) :
    a.colGram conj (Index.sortCm i0.cm) c n
      = fun o o' => ∑ u : Fin m, conj (a.sectorMatrix r c m n u o) * a.sectorMatrix r c m n u o' := by
  have hnd0 : ((Index.sortCm i0.cm).map (·.1)).Nodup :=
    sortCm_keys_nodup _ (wfB_keys_nodup (indices_wf hv hi).1)
  ext o o'
  unfold Arr.colGram
  rw [sum_map_single (Index.sortCm i0.cm) _ (r, m) hr (hnd0.of_map _)]
  · simp only [Arr.sectorMatrix]
    exact (Fin.sum_univ_eq_sum_range (fun u => conj (a.elem [r, c] [u, o.1]) * a.elem [r, c] [u, o'.1]) m).symm
  · intro y hy hne
    have hry : y.1 ≠ r := by
      intro e
      apply hne
      have := List.inj_on_of_nodup_map hnd0 hy hr e
      exact this
    apply Finset.sum_eq_zero
    intro u _
    have : a.elem [y.1, c] [u, o'.1] = 0 := by
      by_contra hnz
      have := (sector_inj hv h2 (elem_ne_zero_mem hnz) hs).2 rfl
      exact hry (List.cons.inj this).1
    rw [this, mul_zero]

/-- the Gram block of a column charge no stored sector uses is zero -/
theorem colGram_missing (conj : R → R) (a : Arr R) (rows : List (Charge × Nat)) (c : Charge)
    (n : Nat) (h : ∀ r, [r, c] ∉ a.sectors) : a.colGram conj rows c n = 0 := by
  ext o o'
  unfold Arr.colGram
  simp only [Matrix.zero_apply]
  apply List.sum_eq_zero
  intro v hv
  obtain ⟨y, _, rfl⟩ := List.mem_map.mp hv
  apply Finset.sum_eq_zero
  intro u _
  have : a.elem [y.1, c] [u, o'.1] = 0 := by
    by_contra hnz
    exact h y.1 (elem_ne_zero_mem hnz)
  rw [this, mul_zero]

/-! ### eigenvalue multisets -/

/-- eigenvalues of the dense form of a Hermitian-structured matrix over a domain, as a multiset:
    the union over the charge table of the eigenvalues of the sector matrices -/
theorem herm_roots [IsDomain R] {a : Arr R} (H : EighInput a) {i0 i1 : Index}
    (hi : a.indices = [i0, i1]) {d : Blk R} (hd : a.toDenseA = .ok d) :
    (d.toMatrix (total (Index.sortCm i0.cm)) (total (Index.sortCm i0.cm))).charpoly.roots
      = (((Index.sortCm i0.cm).map
          (fun cd => (a.sectorMatrix cd.1 cd.1 cd.2 cd.2).charpoly) : List R[X]) : Multiset R[X]).bind
          roots := by
  rw [herm_charpoly H hi hd]
  apply roots_list_prod_charpoly
  intro p hp
  obtain ⟨cd, _, rfl⟩ := List.mem_map.mp hp
  exact charpoly_monic _

/-- squared singular values of the dense form (eigenvalues of the Gram matrix), as a multiset:
    the union over the column charge table of those of the per-charge Gram blocks -/
theorem gram_roots [IsDomain R] (conj : R → R) (hc0 : conj 0 = 0) {a : Arr R}
    (hv : a.validB = true) (h2 : a.ndim = 2) {i0 i1 : Index} (hi : a.indices = [i0, i1])
    {d : Blk R} (hd : a.toDenseA = .ok d) :
    (gram conj (d.toMatrix (total (Index.sortCm i0.cm)) (total (Index.sortCm i1.cm)))).charpoly.roots
      = (((Index.sortCm i1.cm).map
          (fun cd => (a.colGram conj (Index.sortCm i0.cm) cd.1 cd.2).charpoly) : List R[X])
            : Multiset R[X]).bind roots := by
  rw [gram_charpoly conj hc0 hv h2 hi hd]
  apply roots_list_prod_charpoly
  intro p hp
  obtain ⟨cd, _, rfl⟩ := List.mem_map.mp hp
  exact charpoly_monic _

end Spectrum
end SymmModel
