/-
  SymmModel.Proofs.Net4Moves — three moves between the ORDERINGS of a four-tensor network (K4 bonds):
    `move34`   `((A·B)·C)·D`  ↔  `((A·B)·D)·C`          (exchange with `X = A·B`)
    `moveR2`   `(A·B)·(C·D)`  ↔  `(C·D)·(A·B)`          (S5 at the root, S4)
    `move3c`   `(A·(B·C))·D`  ↔  `(A·D)·(B·C)`          (exchange with `Y = B·C`, star identity, S4)
  each as "`T'` is a fermionic transpose of `T`" (`TEq`).  Together with the five bracketings of every
  ordering (`k4x`) they connect all 24 orderings (Net4Orders).  Namespace `SymmModel.Net4P`.
-/
import SymmModel.Proofs.Net4Exch
import SymmModel.Proofs.Net4Star
import SymmModel.Proofs.Net4Flag

namespace SymmModel
namespace Net4P
open TdotP GradedP RoutesP KoszulP OddposP AssocP Assoc2P Assoc3P Assoc4P Assoc5P
set_option linter.unusedSectionVars false

variable {R : Type}

section
variable [AddCommMonoid R] [Mul R] [Neg R] [SignRing R] [AssocLaws R]

/-- the hypotheses of the K4 theorems -/
structure K4H (A B C D : Arr R) (ab ac ad ba bc bd ca cb cd da db dc : List Nat) : Prop where
  WAB : AdmW A B ab ba
  WAC : AdmW A C ac ca
  WAD : AdmW A D ad da
  WBC : AdmW B C bc cb
  WBD : AdmW B D bd db
  WCD : AdmW C D cd dc
  hnA : (ab ++ ac ++ ad).Nodup
  hnB : (ba ++ bc ++ bd).Nodup
  hnC : (ca ++ cb ++ cd).Nodup
  hnD : (da ++ db ++ dc).Nodup
  hd : OddposP.LabelsDistinct (A.oddpos ++ B.oddpos ++ C.oddpos ++ D.oddpos)

/-- a successful call under the weak guard with distinct labels is valid and fermionic -/
theorem call_ok {X Y Z : Arr R} {xa xb : List Nat} (W : AdmW X Y xa xb)
    (hd : OddposP.LabelsDistinct (X.oddpos ++ Y.oddpos)) (e : tdF X Y xa xb = .ok Z) :
    Z.validB = true ∧ Z.fermi = true := by
  obtain ⟨Z', _, e', I, _⟩ := call_pack X Y xa xb W hd
  unfold tdF at e
  rw [e] at e'
  obtain rfl := Except.ok.inj e'
  exact ⟨I.valid, I.fermi⟩

/-- the routes `1, 2, 3` of one ordering: success, validity, equivalence -/
theorem routes_ok {A B C D : Arr R} {ab ac ad ba bc bd ca cb cd da db dc : List Nat}
    (H : K4H A B C D ab ac ad ba bc bd ca cb cd da db dc) :
    ∃ T1 T2 T3 : Arr R,
      routeS1 A B C D ab ac ad ba bc bd ca cb cd da db dc false false false = .ok T1
      ∧ routeS2 A B C D ab ac ad ba bc bd ca cb cd da db dc false false false = .ok T2
      ∧ routeS3 A B C D ab ac ad ba bc bd ca cb cd da db dc false false false = .ok T3
      ∧ Eqv T2 T1 ∧ Eqv T3 T1
      ∧ T1.validB = true ∧ T1.fermi = true ∧ T2.validB = true ∧ T2.fermi = true
      ∧ T3.validB = true ∧ T3.fermi = true := by
  obtain ⟨AB, BC, CD, ABC1, ABC2, BCD1, BCD2, T1, T2, T3, T4, T5, eAB, eBC, eCD, eABC1, eABC2, eBCD1,
    eBCD2, eT1, eT2, eT3, eT4, eT5, q2, q3, q4, q5, hv, X⟩ :=
    k4x A B C D ab ac ad ba bc bd ca cb cd da db dc H.WAB H.WAC H.WAD H.WBC H.WBD H.WCD
      H.hnA H.hnB H.hnC H.hnD H.hd
  have hd' : OddposP.LabelsDistinct (A.oddpos ++ (B.oddpos ++ (C.oddpos ++ D.oddpos))) := by
    simpa only [List.append_assoc] using H.hd
  have LD : ∀ {M : List (Int × Bool)}, M.Perm (A.oddpos ++ (B.oddpos ++ (C.oddpos ++ D.oddpos))) →
      OddposP.LabelsDistinct M := fun hp => OddposP.LabelsDistinct.perm hd' hp.symm
  have h_T1 : OddposP.LabelsDistinct (ABC1.oddpos ++ D.oddpos) :=
    LD (by simpa only [List.append_assoc] using
      ((X.pABC1.trans (X.pAB.append_right _)).append_right D.oddpos))
  have h_T2 : OddposP.LabelsDistinct (ABC2.oddpos ++ D.oddpos) :=
    LD (by simpa only [List.append_assoc] using
      ((X.pABC2.trans (X.pBC.append_left _)).append_right D.oddpos))
  have h_T3 : OddposP.LabelsDistinct (AB.oddpos ++ CD.oddpos) :=
    LD (by simpa only [List.append_assoc] using
      ((X.pAB.append_right _).trans (X.pCD.append_left _)))
  obtain ⟨v1, f1⟩ := call_ok X.wT1 h_T1 eT1
  obtain ⟨v2, f2⟩ := call_ok X.wT2 h_T2 eT2
  obtain ⟨v3, f3⟩ := call_ok X.wT3 h_T3 eT3
  refine ⟨T1, T2, T3, ?_, ?_, ?_, q2, q3, v1, f1, v2, f2, v3, f3⟩
  · unfold routeS1 callS axesABC_D; simp only []
    rw [eAB]; simp only [Except.bind]; rw [eABC1]; exact eT1
  · unfold routeS2 callS axesABC_D; simp only []
    rw [eBC]; simp only [Except.bind]; rw [eABC2]; exact eT2
  · unfold routeS3 callS; simp only []
    rw [eAB]; simp only [Except.bind]; rw [eCD]; exact eT3

/-- **move34**: exchange of the last two tensors of the sequence -/
theorem move34 (hmul : ∀ x y : R, x * y = y * x) {A B C D : Arr R}
    {ab ac ad ba bc bd ca cb cd da db dc : List Nat}
    (H : K4H A B C D ab ac ad ba bc bd ca cb cd da db dc) :
    ∃ T T' : Arr R,
      routeS1 A B C D ab ac ad ba bc bd ca cb cd da db dc false false false = .ok T
      ∧ routeS1 A B D C ab ad ac ba bd bc da db dc ca cb cd false false false = .ok T'
      ∧ T'.validB = true ∧ T'.fermi = true ∧ T.validB = true ∧ TEq T' T := by
  obtain ⟨mA_bc, mA_bd, mA_cd, mA_b_cd, _⟩ := mid3 H.hnA H.WAB.ltA H.WAC.ltA H.WAD.ltA
  obtain ⟨mB_ac, mB_ad, mB_cd, mB_a_cd, _⟩ := mid3 H.hnB H.WAB.ltB H.WBC.ltA H.WBD.ltA
  obtain ⟨mC_ab, mC_ad, mC_bd, _, mC_ab_d⟩ := mid3 H.hnC H.WAC.ltB H.WBC.ltB H.WCD.ltA
  obtain ⟨mD_ab, mD_ac, mD_bc, _, mD_ab_c⟩ := mid3 H.hnD H.WAD.ltB H.WBD.ltB H.WCD.ltB
  have TABC : TriW A B C ab ac ba bc cb ca := ⟨H.WAB, H.WBC, mA_bc, mB_ac, mC_ab.symm, H.WAC.con⟩
  have TABD : TriW A B D ab ad ba bd db da := ⟨H.WAB, H.WBD, mA_bd, mB_ad, mD_ab.symm, H.WAD.con⟩
  have h_ab : OddposP.LabelsDistinct (A.oddpos ++ B.oddpos) :=
    (List.pairwise_append.1 (List.pairwise_append.1 H.hd).1).1
  obtain ⟨AB, _, eAB, IAB, pAB⟩ := call_pack A B ab ba H.WAB h_ab
  have WABc := admW_left_w IAB TABC
  have WABd := admW_left_w IAB TABD
  have mAB : Mid AB.ndim (Assoc2P.axesAB A.ndim B.ndim ab ac ba bc)
      (Assoc2P.axesAB A.ndim B.ndim ab ad ba bd) := by
    rw [IAB.ndim]; exact mid_axesAB mA_b_cd mB_a_cd
  have hdX : OddposP.LabelsDistinct (AB.oddpos ++ C.oddpos ++ D.oddpos) :=
    OddposP.LabelsDistinct.perm H.hd ((pAB.symm.append_right _).append_right _)
  obtain ⟨XY, XZ, c1, c, e1, e2, e3, e4, v1, v, hP, hE⟩ := exchange hmul AB C D _ _ _ _ _ _
    WABc WABd H.WCD mAB mC_ab_d mD_ab_c hdX
  have TABDC : TriW AB D C (Assoc2P.axesAB A.ndim B.ndim ab ad ba bd)
      (Assoc2P.axesAB A.ndim B.ndim ab ac ba bc) (da ++ db) dc cd (ca ++ cb) :=
    ⟨WABd, admW_swap H.WCD, mAB.symm, mD_ab_c, mC_ab_d.symm, WABc.con⟩
  have hdX' : OddposP.LabelsDistinct (AB.oddpos ++ (C.oddpos ++ D.oddpos)) := by
    rw [← List.append_assoc]; exact hdX
  obtain ⟨XZ', _, e3', IXZ, pXZ⟩ := call_pack AB D _ _ WABd
      (List.Pairwise.sublist ((List.Sublist.refl _).append (List.sublist_append_right _ _)) hdX')
  have e3'' := e3
  unfold tdF at e3''
  rw [e3''] at e3'
  obtain rfl := Except.ok.inj e3'
  have hdc : OddposP.LabelsDistinct (XZ.oddpos ++ C.oddpos) :=
    OddposP.LabelsDistinct.perm hdX'
      (((List.perm_append_comm (l₁ := C.oddpos) (l₂ := D.oddpos)).append_left AB.oddpos).trans (by
        rw [← List.append_assoc]; exact pXZ.symm.append_right _))
  have Wc := admW_left_w IXZ TABDC
  obtain ⟨_, fc⟩ := call_ok Wc hdc e4
  rw [IAB.ndim] at e2 e4
  have eAB' : tdF A B ab ba = .ok AB := eAB
  refine ⟨c1, c, ?_, ?_, v, fc, v1, ⟨_, hP, hE⟩⟩
  · unfold routeS1 callS axesABC_D; simp only []
    rw [eAB']; simp only [Except.bind]
    rw [e1]; exact e2
  · unfold routeS1 callS axesABC_D; simp only []
    rw [eAB']; simp only [Except.bind]
    rw [e3]; exact e4

/-- **moveR2**: the two halves of `(A·B)·(C·D)` exchanged -/
theorem moveR2 (hmul : ∀ x y : R, x * y = y * x) {A B C D : Arr R}
    {ab ac ad ba bc bd ca cb cd da db dc : List Nat}
    (H : K4H A B C D ab ac ad ba bc bd ca cb cd da db dc) :
    ∃ T T' : Arr R,
      routeS3 A B C D ab ac ad ba bc bd ca cb cd da db dc false false false = .ok T
      ∧ routeS3 C D A B cd ca cb dc da db ac ad ab bc bd ba false false false = .ok T'
      ∧ T'.validB = true ∧ T'.fermi = true ∧ T.validB = true ∧ TEq T' T := by
  obtain ⟨mA_bc, mA_bd, mA_cd, mA_b_cd, _⟩ := mid3 H.hnA H.WAB.ltA H.WAC.ltA H.WAD.ltA
  obtain ⟨mB_ac, mB_ad, mB_cd, mB_a_cd, _⟩ := mid3 H.hnB H.WAB.ltB H.WBC.ltA H.WBD.ltA
  obtain ⟨mC_ab, mC_ad, mC_bd, _, mC_ab_d⟩ := mid3 H.hnC H.WAC.ltB H.WBC.ltB H.WCD.ltA
  obtain ⟨mD_ab, mD_ac, mD_bc, _, mD_ab_c⟩ := mid3 H.hnD H.WAD.ltB H.WBD.ltB H.WCD.ltB
  obtain ⟨AB, BC, CD, ABC1, ABC2, BCD1, BCD2, T1, T2, T3, T4, T5, eAB, eBC, eCD, eABC1, eABC2, eBCD1,
    eBCD2, eT1, eT2, eT3, eT4, eT5, q2, q3, q4, q5, hv, X⟩ :=
    k4x A B C D ab ac ad ba bc bd ca cb cd da db dc H.WAB H.WAC H.WAD H.WBC H.WBD H.WCD
      H.hnA H.hnB H.hnC H.hnD H.hd
  have h_T3 : OddposP.LabelsDistinct (AB.oddpos ++ CD.oddpos) :=
    OddposP.LabelsDistinct.perm H.hd (by
      simpa only [List.append_assoc] using ((X.pAB.append_right _).trans (X.pCD.append_left _)).symm)
  obtain ⟨v3, _⟩ := call_ok X.wT3 h_T3 eT3
  obtain ⟨T', eT', vT', _, hE⟩ := swap_eqv hmul X.wT3 h_T3 T3 eT3
  have WS := admW_swap X.wT3
  have h_T3' : OddposP.LabelsDistinct (CD.oddpos ++ AB.oddpos) :=
    OddposP.LabelsDistinct.perm h_T3 List.perm_append_comm
  obtain ⟨_, fT'⟩ := call_ok WS h_T3' eT'
  have hrot : Arr.isPerm (rotB (freeAxes CD.ndim (Assoc2P.axesBC C.ndim D.ndim (ca ++ cb) cd dc (da ++ db))).length
      (freeAxes AB.ndim (Assoc2P.axesAB A.ndim B.ndim ab ac ba bc
        ++ Assoc2P.axesAB A.ndim B.ndim ab ad ba bd)).length) T'.ndim = true := by
    obtain ⟨T'', _, e'', I'', _⟩ := call_pack CD AB _ _ WS h_T3'
    unfold tdF at eT'
    rw [eT'] at e''
    obtain rfl := Except.ok.inj e''
    rw [I''.ndim]; exact rotB_isPerm _ _
  have eq33 : tdF CD AB
        (Assoc2P.axesAB C.ndim D.ndim cd ca dc da ++ Assoc2P.axesAB C.ndim D.ndim cd cb dc db)
        (Assoc2P.axesBC A.ndim B.ndim (ac ++ ad) ab ba (bc ++ bd))
      = tdF CD AB (Assoc2P.axesBC C.ndim D.ndim (ca ++ cb) cd dc (da ++ db))
        (Assoc2P.axesAB A.ndim B.ndim ab ac ba bc ++ Assoc2P.axesAB A.ndim B.ndim ab ad ba bd) := by
    have W' := WS
    unfold Assoc2P.axesAB Assoc2P.axesBC at W' ⊢
    simp only [positions_append, List.map_append, List.append_assoc] at W' ⊢
    refine tdotF_axes_mid_w CD AB _ _ _ _ _ _ _ _ ?_ ?_ ?_ ?_ W'
    · rw [mC_ad.symm.pos_len, mA_bc.pos_len]; exact H.WAC.len.symm
    · rw [mC_bd.symm.pos_len, List.length_map, mB_ac.pos_len]; exact H.WBC.len.symm
    · rw [List.length_map, mD_ac.symm.pos_len, mA_bd.pos_len]; exact H.WAD.len.symm
    · rw [List.length_map, List.length_map, mD_bc.symm.pos_len, mB_ad.pos_len]; exact H.WBD.len.symm
  refine ⟨T3, T', ?_, ?_, vT', fT', v3, ⟨_, hrot, hE⟩⟩
  · unfold routeS3 callS; simp only []
    rw [eAB]; simp only [Except.bind]; rw [eCD]; exact eT3
  · unfold routeS3 callS; simp only []
    rw [eCD]; simp only [Except.bind]; rw [eAB]
    show tdF CD AB _ _ = _
    rw [eq33]; exact eT'

/-- **move3c**: `(A·(B·C))·D` against `(A·D)·(B·C)` -/
theorem move3c (hmul : ∀ x y : R, x * y = y * x) {A B C D : Arr R}
    {ab ac ad ba bc bd ca cb cd da db dc : List Nat}
    (H : K4H A B C D ab ac ad ba bc bd ca cb cd da db dc) :
    ∃ T T' : Arr R,
      routeS2 A B C D ab ac ad ba bc bd ca cb cd da db dc false false false = .ok T
      ∧ routeS3 A D B C ad ab ac da db dc ba bd bc ca cd cb false false false = .ok T'
      ∧ T'.validB = true ∧ T'.fermi = true ∧ T.validB = true ∧ TEq T' T := by
  obtain ⟨mA_bc, mA_bd, mA_cd, mA_b_cd, mA_bc_d⟩ := mid3 H.hnA H.WAB.ltA H.WAC.ltA H.WAD.ltA
  have hnB' : (bc ++ ba ++ bd).Nodup :=
    ((List.perm_append_comm (l₁ := ba) (l₂ := bc)).append_right bd).nodup_iff.mp H.hnB
  have hnC' : (cb ++ ca ++ cd).Nodup :=
    ((List.perm_append_comm (l₁ := ca) (l₂ := cb)).append_right cd).nodup_iff.mp H.hnC
  obtain ⟨mB_ca, mB_cd, mB_ad, mB_c_ad, _⟩ := mid3 hnB' H.WBC.ltA H.WAB.ltB H.WBD.ltA
  obtain ⟨mC_ba, mC_bd, mC_ad, mC_b_ad, _⟩ := mid3 hnC' H.WBC.ltB H.WAC.ltB H.WCD.ltA
  obtain ⟨mD_ab, mD_ac, mD_bc, mD_a_bc, _⟩ := mid3 H.hnD H.WAD.ltB H.WBD.ltB H.WCD.ltB
  obtain ⟨AB, BC, CD, ABC1, ABC2, BCD1, BCD2, T1, T2, T3, T4, T5, eAB, eBC, eCD, eABC1, eABC2, eBCD1,
    eBCD2, eT1, eT2, eT3, eT4, eT5, q2, q3, q4, q5, hv, X⟩ :=
    k4x A B C D ab ac ad ba bc bd ca cb cd da db dc H.WAB H.WAC H.WAD H.WBC H.WBD H.WCD
      H.hnA H.hnB H.hnC H.hnD H.hd
  have hd' : OddposP.LabelsDistinct (A.oddpos ++ (B.oddpos ++ (C.oddpos ++ D.oddpos))) := by
    simpa only [List.append_assoc] using H.hd
  have LD : ∀ {M : List (Int × Bool)}, M.Perm (A.oddpos ++ (B.oddpos ++ (C.oddpos ++ D.oddpos))) →
      OddposP.LabelsDistinct M := fun hp => OddposP.LabelsDistinct.perm hd' hp.symm
  have h_bc : OddposP.LabelsDistinct (B.oddpos ++ C.oddpos) :=
    List.Pairwise.sublist (((List.Sublist.refl _).append (List.sublist_append_left _ _)).trans
      (List.sublist_append_right _ _)) hd'
  obtain ⟨BC', _, eBC', IBC, _⟩ := call_pack B C bc cb H.WBC h_bc
  have eBC'' := eBC
  unfold tdF at eBC''
  rw [eBC''] at eBC'
  obtain rfl := Except.ok.inj eBC'
  have mY : Mid BC.ndim (Assoc2P.axesBC B.ndim C.ndim ba bc cb ca)
      (Assoc2P.axesAB B.ndim C.ndim bc bd cb cd) := by
    rw [IBC.ndim]
    exact mid_axesAB (xa1 := bc) (u := ba) (v := bd) (xb1 := cb) (s := ca) (t := cd) mB_c_ad mC_b_ad
  have hdX : OddposP.LabelsDistinct (A.oddpos ++ BC.oddpos ++ D.oddpos) :=
    LD (by simpa only [List.append_assoc] using ((X.pBC.append_left A.oddpos).append_right D.oddpos))
  obtain ⟨XY, XZ, c1, c, e1, e2, e3, e4, v1, v, hP, hE⟩ := exchange hmul A BC D (ab ++ ac) ad
    (Assoc2P.axesBC B.ndim C.ndim ba bc cb ca) (Assoc2P.axesAB B.ndim C.ndim bc bd cb cd) da (db ++ dc)
    X.waBC H.WAD X.wBCd mA_bc_d mY mD_a_bc hdX
  rw [eABC2] at e1
  obtain rfl := Except.ok.inj e1
  -- (A·(B·C))·D is route 2
  have star := axes_star A.ndim B.ndim C.ndim ab ac ad ba bc bd ca cb cd mA_bc mA_b_cd mB_ca.symm
    mB_ca mB_c_ad mC_ba
  rw [IBC.ndim, ← star, ← List.append_assoc] at e2
  rw [eT2] at e2
  obtain rfl := Except.ok.inj e2
  -- (A·D)·(B·C) is route 3 of the ordering A, D, B, C
  have h_ad : OddposP.LabelsDistinct (A.oddpos ++ D.oddpos) :=
    List.Pairwise.sublist ((List.Sublist.refl _).append
      ((List.sublist_append_right _ _).trans (List.sublist_append_right _ _))) hd'
  obtain ⟨AD, _, eAD, IAD, pAD⟩ := call_pack A D ad da H.WAD h_ad
  have e3' := e3
  unfold tdF at e3'
  rw [eAD] at e3'
  obtain rfl := Except.ok.inj e3'
  have TADBC : TriW A D BC ad (ab ++ ac) da (db ++ dc) (Assoc2P.axesAB B.ndim C.ndim bc bd cb cd)
      (Assoc2P.axesBC B.ndim C.ndim ba bc cb ca) :=
    ⟨H.WAD, admW_swap X.wBCd, mA_bc_d.symm, mD_a_bc, mY.symm, X.waBC.con⟩
  have Wc := admW_left_w IAD TADBC
  have hdc : OddposP.LabelsDistinct (AD.oddpos ++ BC.oddpos) :=
    LD (by
      have p1 : (AD.oddpos ++ BC.oddpos).Perm ((A.oddpos ++ D.oddpos) ++ (B.oddpos ++ C.oddpos)) :=
        (pAD.append_right _).trans (X.pBC.append_left _)
      refine p1.trans ?_
      rw [List.append_assoc]
      refine List.Perm.append_left _ ?_
      have : (D.oddpos ++ (B.oddpos ++ C.oddpos)).Perm ((B.oddpos ++ C.oddpos) ++ D.oddpos) :=
        List.perm_append_comm
      simpa only [List.append_assoc] using this)
  obtain ⟨_, fc⟩ := call_ok Wc hdc e4
  have eq33 : tdF AD BC
        (Assoc2P.axesAB A.ndim D.ndim ad ab da db ++ Assoc2P.axesAB A.ndim D.ndim ad ac da dc)
        (Assoc2P.axesBC B.ndim C.ndim (ba ++ bd) bc cb (ca ++ cd))
      = tdF AD BC (Assoc2P.axesAB A.ndim D.ndim ad (ab ++ ac) da (db ++ dc))
        (Assoc2P.axesBC B.ndim C.ndim ba bc cb ca ++ Assoc2P.axesAB B.ndim C.ndim bc bd cb cd) := by
    have W' := Wc
    unfold Assoc2P.axesAB Assoc2P.axesBC at W' ⊢
    simp only [positions_append, List.map_append, List.append_assoc] at W' ⊢
    refine tdotF_axes_mid_w AD BC _ _ _ _ _ _ _ _ ?_ ?_ ?_ ?_ W'
    · rw [mA_bd.symm.pos_len, mB_ca.pos_len]; exact H.WAB.len
    · rw [mA_cd.symm.pos_len, List.length_map, mC_ba.pos_len]; exact H.WAC.len
    · rw [List.length_map, mD_ab.pos_len, mB_cd.pos_len]; exact H.WBD.len.symm
    · rw [List.length_map, List.length_map, mD_ac.pos_len, mC_bd.pos_len]; exact H.WCD.len.symm
  have hv2 : T2.validB = true := v1
  refine ⟨T2, c, ?_, ?_, v, fc, hv2, ⟨_, hP, hE⟩⟩
  · unfold routeS2 callS axesABC_D; simp only []
    rw [eBC]; simp only [Except.bind]; rw [eABC2]; exact eT2
  · unfold routeS3 callS; simp only []
    have eAD' : tdF A D ad da = .ok AD := eAD
    rw [eAD']; simp only [Except.bind]; rw [eBC]
    show tdF AD BC _ _ = _
    rw [eq33]; exact e4

end

end Net4P
end SymmModel
