/-
  SymmModel.Proofs.FuseCommuteG2 — `GradedP.contract_transport` for an ARBITRARY layout: if `X`, `Y`
  are re-indexed (by permutations `p`, `q`), sign-twisted, synchronised copies of `a`, `b`
  (`GradedP.Prepared`), and the contracted axes `xa`, `xb` sit at the positions `xa'`, `xb'` after the
  re-indexing while the free axes keep their order (`Lay`), then the abelian blockwise contraction of
  `X`, `Y` over `(xa', xb')` is, address by address, the sum over the stored sector pairs of `a`, `b`
  of the sign-twisted pair contractions.  And: the operand of `_fuse_core` inside the fermionic fuse
  of one arbitrary group is such a copy (`prepared_signAdj`).  Namespace `SymmModel.TdotP`.
-/
import SymmModel.Proofs.FuseCommuteG1

namespace SymmModel
namespace TdotP
open SymmModel.KoszulP SymmModel.Lazy SymmModel.GradedP SymmModel.RoutesP SymmModel.AssocP
variable {R : Type}
set_option linter.unusedSectionVars false

/-- the contracted axes `ax` of an operand of rank `n` sit at the positions `ax'` after re-indexing
    by the permutation `p`, and the free axes keep their order -/
structure Lay (n : Nat) (ax p ax' : List Nat) : Prop where
  perm : p.Perm (List.range n)
  nd : ax.Nodup
  lt : ∀ i ∈ ax, i < n
  nd' : ax'.Nodup
  lt' : ∀ i ∈ ax', i < n
  axes : ∀ {α : Type} (z : List α), z.length = n → permuted (permuted z p) ax' = permuted z ax
  free : ∀ {α : Type} (z : List α), z.length = n →
    permuted (permuted z p) (freeAxes n ax') = permuted z (freeAxes n ax)

theorem Lay.plt {n : Nat} {ax p ax' : List Nat} (h : Lay n ax p ax') : ∀ x ∈ p, x < n :=
  perm_range_mem_lt h.perm

theorem Lay.plen {n : Nat} {ax p ax' : List Nat} (h : Lay n ax p ax') {α : Type} (z : List α)
    (hz : z.length = n) : (permuted z p).length = n := by
  rw [permuted_length _ _ (by rw [hz]; exact h.plt), h.perm.length_eq, List.length_range]

/-- the layout of `_fuse_core` for one group -/
theorem lay_one {X : Arr R} {g : List Nat} (h : OneOk X g) :
    Lay X.ndim g (FuseP.giM X [g]).perm (newG X g) := by
  refine ⟨one_perm_perm h, h.nd, h.lt, ?_, newG_lt h, fun z hz => permuted_perm_newG h z hz,
    fun z hz => permuted_perm_free h z hz⟩
  unfold newG
  exact (List.nodup_range).map_on (by intro x _ y _ e; omega)

section transport
variable [AddMonoid R] [Mul R] [Neg R] [SignRing R]

theorem storedPairs_transport_gen (a b X Y : Arr R) (xa xb p q xa' xb' : List Nat)
    (hsa : a.shapesOk) (hsb : b.shapesOk) (LA : Lay a.ndim xa p xa') (LB : Lay b.ndim xb q xb')
    (hX : X.sectors = a.sectors.map (fun s => permuted s p))
    (hY : Y.sectors = b.sectors.map (fun s => permuted s q)) (s : Sector) :
    storedPairs X Y (freeAxes a.ndim xa') xa' xb' (freeAxes b.ndim xb') s
      = (storedPairs a b (freeAxes a.ndim xa) xa xb (freeAxes b.ndim xb) s).map
          (fun t => (permuted t.1 p, permuted t.2 q)) := by
  unfold storedPairs
  rw [hX, hY]
  simp only [List.flatMap_map, List.filter_map, List.map_flatMap, List.map_map]
  apply flatMap_congr_mem
  intro sa hsa'
  have hla := Arr.sector_length hsa hsa'
  congr 1
  apply List.filter_congr
  intro sb hsb'
  have hlb := Arr.sector_length hsb hsb'
  simp only [Function.comp]
  rw [LA.axes sa hla, LA.free sa hla, LB.axes sb hlb, LB.free sb hlb]

theorem pair_transport_gen (a b X Y : Arr R) (xa xb p q xa' xb' : List Nat) (τA τB : Sector → Int)
    (hsa : a.shapesOk) (hsb : b.shapesOk) (LA : Lay a.ndim xa p xa') (LB : Lay b.ndim xb q xb')
    (hmatch : ∀ sa ∈ a.sectors, ∀ sb ∈ b.sectors, permuted sb xb = permuted sa xa →
      permuted (Arr.blockShapeD b.indices sb) xb = permuted (Arr.blockShapeD a.indices sa) xa)
    (PX : Prepared a X p τA) (PY : Prepared b Y q τB)
    (s : Sector) (oL oR : List Nat) (hoL : oL.length = (freeAxes a.ndim xa).length)
    (ho : inBox (Arr.blockShapeD (without a.indices xa ++ without b.indices xb) s) (oL ++ oR) = true)
    (sa sb : Sector)
    (hp : (sa, sb) ∈ storedPairs a b (freeAxes a.ndim xa) xa xb (freeAxes b.ndim xb) s) :
    contractPair X Y xa' xb' oL oR (permuted sa p, permuted sb q)
      = sgnI (τA sa * τB sb) (contractPair a b xa xb oL oR (sa, sb)) := by
  obtain ⟨hsa', hsb', hal, hs⟩ := mem_storedPairs.mp hp
  obtain ⟨shpA, hA1, hA2, hA3, hA4⟩ := shape_of_mem hsa hsa'
  obtain ⟨shpB, hB1, hB2, hB3, hB4⟩ := shape_of_mem hsb hsb'
  have hA := LA.lt
  have hB := LB.lt
  have hXn : X.ndim = a.ndim := by
    show X.indices.length = _
    rw [PX.indices]; exact LA.plen a.indices rfl
  have hYn : Y.ndim = b.ndim := by
    show Y.indices.length = _
    rw [PY.indices]; exact LB.plen b.indices rfl
  have hleftlt : ∀ x ∈ freeAxes a.ndim xa, x < a.ndim := fun x hx => (mem_freeAxes.mp hx).1
  have hrightlt : ∀ x ∈ freeAxes b.ndim xb, x < b.ndim := fun x hx => (mem_freeAxes.mp hx).1
  have hboxX : permuted (Arr.blockShapeD X.indices (permuted sa p)) xa' = permuted shpA xa := by
    rw [PX.indices, Arr.blockShapeD, blockShape?_permuted hA1 _ LA.plt]
    exact LA.axes shpA hA3
  have hmatch' : permuted shpB xb = permuted shpA xa := by
    have := hmatch sa hsa' sb hsb' hal
    rwa [hA2, hB2] at this
  have hfree : inBox (permuted shpA (freeAxes a.ndim xa)) oL = true
      ∧ inBox (permuted shpB (freeAxes b.ndim xb)) oR = true := by
    have e : Arr.blockShapeD (without a.indices xa ++ without b.indices xb) s
        = permuted shpA (freeAxes a.ndim xa) ++ permuted shpB (freeAxes b.ndim xb) := by
      have ea : a.indices.length = a.ndim := rfl
      have eb : b.indices.length = b.ndim := rfl
      rw [← hs, without_eq_permuted_freeAxes, without_eq_permuted_freeAxes, ea, eb, Arr.blockShapeD,
        blockShape?_append (blockShape?_permuted hA1 _ hleftlt) (blockShape?_permuted hB1 _ hrightlt)]
      rfl
    rw [e, inBox_append (by
      rw [hoL, permuted_length _ _ (by intro x hx; rw [hA3]; exact hleftlt x hx)])] at ho
    simpa using ho
  unfold contractPair
  rw [hboxX, hA2, ← sgnI_sum]
  congr 1
  apply List.map_congr_left
  intro k hk
  have hkbox : inBox (permuted shpA xa) k = true := mem_allIdx_iff.mp hk
  have hklen : k.length = xa.length := by
    rw [inBox_length hkbox, permuted_length _ _ (by intro x hx; rw [hA3]; exact hA x hx)]
  unfold contractTerm
  -- left operand
  have hM : inBox shpA (mergeIdx 0 a.ndim xa (freeAxes a.ndim xa) k oL) = true := by
    have := inBox_mergeIdx (shape := shpA) (axes := xa) (k := k) (f := oL)
      (by intro x hx; rw [hA3]; exact hA x hx) hkbox (by rw [hA3]; exact hfree.1)
    rwa [hA3] at this
  have hMperm : mergeIdx 0 X.ndim xa' (freeAxes X.ndim xa') k oL
      = permuted (mergeIdx 0 a.ndim xa (freeAxes a.ndim xa) k oL) p := by
    rw [hXn]
    have hml : (mergeIdx 0 a.ndim xa (freeAxes a.ndim xa) k oL).length = a.ndim := mergeIdx_length _ _ _ _ _ _
    have e1 := LA.axes (mergeIdx 0 a.ndim xa (freeAxes a.ndim xa) k oL) hml
    have e2 := LA.free (mergeIdx 0 a.ndim xa (freeAxes a.ndim xa) k oL) hml
    rw [permuted_mergeIdx_axes 0 LA.nd hA hklen] at e1
    rw [permuted_mergeIdx_free 0 (freeAxes_nodup _ _) hleftlt
      (fun x hx => (mem_freeAxes.mp hx).2) hoL] at e2
    have := mergeIdx_permuted 0
      (x := permuted (mergeIdx 0 a.ndim xa (freeAxes a.ndim xa) k oL) p)
      (n := a.ndim) (axes := xa') (free := freeAxes a.ndim xa')
      (LA.plen _ hml) LA.lt' (fun y hy => (mem_freeAxes.mp hy).1)
      (by
        intro y hy
        by_cases h : y ∈ xa'
        · exact Or.inl h
        · exact Or.inr (mem_freeAxes.mpr ⟨hy, h⟩))
    rw [e1, e2] at this
    exact this
  -- right operand
  have hN : inBox shpB (mergeIdx 0 b.ndim xb (freeAxes b.ndim xb) k oR) = true := by
    have := inBox_mergeIdx (shape := shpB) (axes := xb) (k := k) (f := oR)
      (by intro x hx; rw [hB3]; exact hB x hx) (by rw [hmatch']; exact hkbox)
      (by rw [hB3]; exact hfree.2)
    rwa [hB3] at this
  have hoR : oR.length = (freeAxes b.ndim xb).length := by
    rw [inBox_length hfree.2, permuted_length _ _ (by intro x hx; rw [hB3]; exact hrightlt x hx)]
  have hklen' : k.length = xb.length := by
    have h1 := congrArg List.length hmatch'
    rw [permuted_length _ _ (by intro x hx; rw [hB3]; exact hB x hx),
      permuted_length _ _ (by intro x hx; rw [hA3]; exact hA x hx)] at h1
    rw [hklen, h1]
  have hNperm : mergeIdx 0 Y.ndim xb' (freeAxes Y.ndim xb') k oR
      = permuted (mergeIdx 0 b.ndim xb (freeAxes b.ndim xb) k oR) q := by
    rw [hYn]
    have hml : (mergeIdx 0 b.ndim xb (freeAxes b.ndim xb) k oR).length = b.ndim := mergeIdx_length _ _ _ _ _ _
    have e1 := LB.axes (mergeIdx 0 b.ndim xb (freeAxes b.ndim xb) k oR) hml
    have e2 := LB.free (mergeIdx 0 b.ndim xb (freeAxes b.ndim xb) k oR) hml
    rw [permuted_mergeIdx_axes 0 LB.nd hB hklen'] at e1
    rw [permuted_mergeIdx_free 0 (freeAxes_nodup _ _) hrightlt
      (fun x hx => (mem_freeAxes.mp hx).2) hoR] at e2
    have := mergeIdx_permuted 0
      (x := permuted (mergeIdx 0 b.ndim xb (freeAxes b.ndim xb) k oR) q)
      (n := b.ndim) (axes := xb') (free := freeAxes b.ndim xb')
      (LB.plen _ hml) LB.lt' (fun y hy => (mem_freeAxes.mp hy).1)
      (by
        intro y hy
        by_cases h : y ∈ xb'
        · exact Or.inl h
        · exact Or.inr (mem_freeAxes.mpr ⟨hy, h⟩))
    rw [e1, e2] at this
    exact this
  rw [hMperm, hNperm, PX.elem sa hsa' _ (by rw [hA2]; exact hM), PY.elem sb hsb' _ (by rw [hB2]; exact hN),
    sgnI_mul_mul (PX.pm sa) (PY.pm sb)]

/-- **transport, arbitrary layout.** -/
theorem contract_transport_gen (a b X Y : Arr R) (xa xb p q xa' xb' : List Nat) (τA τB : Sector → Int)
    (hsa : a.shapesOk) (hsb : b.shapesOk) (LA : Lay a.ndim xa p xa') (LB : Lay b.ndim xb q xb')
    (hmatch : ∀ sa ∈ a.sectors, ∀ sb ∈ b.sectors, permuted sb xb = permuted sa xa →
      permuted (Arr.blockShapeD b.indices sb) xb = permuted (Arr.blockShapeD a.indices sa) xa)
    (PX : Prepared a X p τA) (PY : Prepared b Y q τB)
    (s : Sector) (oL oR : List Nat) (hoL : oL.length = (freeAxes a.ndim xa).length)
    (ho : inBox (Arr.blockShapeD (without a.indices xa ++ without b.indices xb) s) (oL ++ oR) = true) :
    (tensordotBlockwise X Y (freeAxes X.ndim xa') xa' xb' (freeAxes Y.ndim xb')).elem s (oL ++ oR)
      = ((storedPairs a b (freeAxes a.ndim xa) xa xb (freeAxes b.ndim xb) s).map (fun t =>
          sgnI (τA t.1 * τB t.2) (contractPair a b xa xb oL oR t))).sum := by
  have hXn : X.ndim = a.ndim := by
    show X.indices.length = _
    rw [PX.indices]; exact LA.plen a.indices rfl
  have hYn : Y.ndim = b.ndim := by
    show Y.indices.length = _
    rw [PY.indices]; exact LB.plen b.indices rfl
  have e1 : without X.indices xa' = without a.indices xa := by
    rw [without_eq_permuted_freeAxes, without_eq_permuted_freeAxes]
    have : X.indices.length = a.ndim := hXn
    rw [this, PX.indices]
    exact LA.free a.indices rfl
  have e2 : without Y.indices xb' = without b.indices xb := by
    rw [without_eq_permuted_freeAxes, without_eq_permuted_freeAxes]
    have : Y.indices.length = b.ndim := hYn
    rw [this, PY.indices]
    exact LB.free b.indices rfl
  have ho' : inBox (Arr.blockShapeD (without X.indices xa' ++ without Y.indices xb') s) (oL ++ oR) = true := by
    rw [e1, e2]; exact ho
  have hfl : (freeAxes a.ndim xa').length = (freeAxes a.ndim xa).length := by
    have h1 := congrArg List.length (LA.free (List.range a.ndim) List.length_range)
    rw [permuted_length _ _ (by
        intro x hx
        rw [LA.plen _ List.length_range]; exact (mem_freeAxes.mp hx).1),
      permuted_length _ _ (by intro x hx; rw [List.length_range]; exact (mem_freeAxes.mp hx).1)] at h1
    exact h1
  rw [tensordotBlockwise_elem_pairs X Y _ _ PX.phases PY.phases PX.distinct PY.distinct PX.shapes
    PY.shapes s (oL ++ oR) ho', hXn, hYn]
  have hl' : (freeAxes a.ndim xa').length = oL.length := by rw [hfl, hoL]
  rw [hl', List.take_left' rfl, List.drop_left' rfl,
    storedPairs_transport_gen a b X Y xa xb p q xa' xb' hsa hsb LA LB PX.sectors PY.sectors s,
    List.map_map]
  congr 1
  apply List.map_congr_left
  rintro ⟨sa, sb⟩ hp
  exact pair_transport_gen a b X Y xa xb p q xa' xb' τA τB hsa hsb LA LB hmatch PX PY s oL oR hoL ho sa sb hp

/-- the operand of `_fuse_core` inside the fermionic fuse of one arbitrary group is a prepared
    copy of the array: layout `before ++ group ++ after`, every sector multiplied by `fuseSignF` -/
theorem prepared_signAdj (a : Arr R) {g : List Nat} (hv : a.validB = true) (hf : a.fermi = true)
    (h : OneOk a g) :
    Prepared a (FuseP.signAdj a [g]) (FuseP.giM a [g]).perm (FuseP.fuseSignF a [g]) := by
  have hok := h.groupsOk
  have hfull := Lazy.Full.of_valid hv hf
  have hisp : Arr.isPerm (calcFuseGroupInfo [g] a.duals).perm a.ndim = true := by
    have := FuseP.perm_isPerm (FuseP.hokD hok); rwa [FuseP.duals_length] at this
  have htr := hfull.trOk hisp
  obtain ⟨f1, f2, _, _, _, _⟩ := FuseP.signAdj_fields a [g]
  have hVB := (ValidP.validB_iff _).mpr (FuseP.signAdj_valid a [g] hv hf hok)
  have hsa := Arr.shapesOk_of_validB hv
  refine ⟨f1, ?_, f2, Arr.allDistinct_of_validB hVB, Arr.shapesOk_of_validB hVB, ?_, ?_⟩
  · unfold FuseP.signAdj
    rw [Lazy.phaseSync_sectors]
    split
    · show ((a.transposeF _).phaseFlip _).blocks.map (·.1) = _
      rw [Lazy.phaseFlip_blocks]; exact Lazy.transposeF_sectors htr
    · show ((a.transposeF _).phaseFlip _).blocks.map (·.1) = _
      rw [Lazy.phaseFlip_blocks]; exact Lazy.transposeF_sectors htr
  · intro s
    exact Lazy.mul_pm (FuseP.fuseSignT_pm _ _ _) (Lazy.koszul_pm _ _)
  · intro s hs off hoff
    obtain ⟨shp, h1, h2, h3, h4⟩ := shape_of_mem hsa hs
    have ho : off.length = a.ndim := by rw [inBox_length hoff, h2, h3]
    rw [FuseP.signAdj_elem, FuseP.transposeF_elem_orig htr (Lazy.ShapeLen.of_valid hv) h4 ho]
    · unfold FuseP.fuseSignF
      rw [Lazy.sgnI_mul (FuseP.fuseSignT_pm _ _ _) (Lazy.koszul_pm _ _)]
    · intro b hb
      have hmem := Lazy.alookup_mem hb
      have hshape := hsa (s, b) hmem
      simp only at hshape
      rw [h1] at hshape
      have hbs : b.shape = shp := (Option.some.inj hshape).symm
      rw [hbs]
      rw [h2] at hoff
      exact KoszulP.inBox_permuted shp off _ a.ndim (one_perm_perm h) h3 hoff

end transport

end TdotP
end SymmModel
