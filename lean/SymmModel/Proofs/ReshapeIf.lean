/-
  SymmModel.Proofs.ReshapeIf — the pull-back of addresses through a plan of fuse calls is INJECTIVE on
  stored addresses: two stored addresses of the result with the same pulled-back source address are
  equal (`pulled_inj`).  One call: the fused charge is the signed combination of the sub-charges and
  the fused offset is `joinAddr` of the sub-offsets (`FuseP.joinAddr_splitAddr`), so the split
  address determines the address (`inj_call`).
-/
import SymmModel.Proofs.ReshapeIc
namespace SymmModel.ReshapeI
open SymmModel SymmModel.Reshape SymmModel.C07 SymmModel.Reshape5 SymmModel.ReshapeH ReshapeP FuseP
open SymmModel.Lazy
set_option linter.unusedSectionVars false

theorem length_le_flatten : ∀ (G : List (List Nat)), (∀ g ∈ G, 2 ≤ g.length) → G.length ≤ G.flatten.length := by
  intro G
  induction G with
  | nil => intro _; simp
  | cons g G ih =>
    intro h
    have h1 := h g (by simp)
    have h2 := ih (fun g' hg' => h g' (by simp [hg']))
    simp only [List.length_cons, List.flatten_cons, List.length_append]
    omega

theorem flatten_append_inj {α : Type} : ∀ (L L' : List (List α)) (X X' : List α), L.length = L'.length →
    (∀ g, g < L.length → (L.getD g []).length = (L'.getD g []).length) →
    L.flatten ++ X = L'.flatten ++ X' → L = L' ∧ X = X' := by
  intro L
  induction L with
  | nil =>
    intro L' X X' hl _ h
    have : L' = [] := List.length_eq_zero_iff.mp hl.symm
    subst this
    exact ⟨rfl, by simpa using h⟩
  | cons l L ih =>
    intro L' X X' hl hg h
    cases L' with
    | nil => simp at hl
    | cons l' L' =>
      have h0 : l.length = l'.length := by simpa using hg 0 (by simp)
      simp only [List.flatten_cons, List.append_assoc] at h
      obtain ⟨e1, e2⟩ := List.append_inj h h0
      obtain ⟨e3, e4⟩ := ih L' X X' (by simpa using hl) (fun g hgl => by
        have := hg (g + 1) (by simp; omega)
        simpa using this) e2
      exact ⟨by rw [e1, e3], e4⟩

theorem splice_ext {α : Type} (d : α) (x x' : List α) (P n : Nat) (hl : x.length = x'.length)
    (ht : x.take P = x'.take P) (hd : x.drop (P + n) = x'.drop (P + n))
    (hm : ∀ g, g < n → x.getD (P + g) d = x'.getD (P + g) d) : x = x' := by
  apply List.ext_getElem?
  intro k
  by_cases h1 : k < P
  · have := congrArg (fun l => l[k]?) ht
    simpa [List.getElem?_take_of_lt h1] using this
  · by_cases h2 : k < P + n
    · by_cases h3 : k < x.length
      · have := hm (k - P) (by omega)
        have e : P + (k - P) = k := by omega
        rw [e, List.getD_eq_getElem?_getD, List.getD_eq_getElem?_getD, List.getElem?_eq_getElem h3,
          List.getElem?_eq_getElem (by omega : k < x'.length)] at this
        rw [List.getElem?_eq_getElem h3, List.getElem?_eq_getElem (by omega : k < x'.length)]
        simpa using this
      · rw [List.getElem?_eq_none (by omega), List.getElem?_eq_none (by omega)]
    · have := congrArg (fun l => l[k - (P + n)]?) hd
      simp only [List.getElem?_drop] at this
      have e : P + n + (k - (P + n)) = k := by omega
      rwa [e] at this

variable {R : Type} [Zero R] [Neg R] [LawfulNeg R]

/-- what a split says about the address it came from -/
theorem split_facts {sym : Sym} {ix : Index} (hw : Index.wfB sym ix = true) {c : Charge} {o : Nat}
    {ss : Sector} {offs : List Nat} (h : splitAddr ix c o = some (ss, offs)) :
    ss.length = (subsOf ix).length ∧ offs.length = (subsOf ix).length
      ∧ c = sym.combine (List.zipWith (fun c' (sub : Index) => sym.sign c' (ix.dual != sub.dual)) ss (subsOf ix))
      ∧ joinAddr ix c ss offs = some o := by
  obtain ⟨hj, subs, exts, shp, hsub, hbs, hbox, hcomb⟩ := joinAddr_splitAddr hw h
  have hs : subsOf ix = subs := by simp [subsOf, hsub]
  obtain ⟨l1, l2⟩ := FuseP.blockShape?_length hbs
  rw [hs]
  refine ⟨l1.symm, ?_, hcomb.symm, hj⟩
  rw [FuseP.inBox_length hbox, l2, l1]

/-- **one call: the split address determines the address** -/
theorem inj_call (y1 : Arr R) (hv : y1.validB = true) (G : List (List Nat)) (P : Nat)
    (hle : P + G.length ≤ y1.ndim)
    (s1 s1' : Sector) (o1 o1' : List Nat) (B1 B1' : Blk R)
    (hB : alookup y1.blocks s1 = some B1) (hi : inBox B1.shape o1 = true)
    (hB' : alookup y1.blocks s1' = some B1') (hi' : inBox B1'.shape o1' = true)
    (segs segs' : List (Sector × List Nat)) (hsl : segs.length = G.length) (hsl' : segs'.length = G.length)
    (hsp : ∀ g gaxes, G[g]? = some gaxes →
      splitAddr (y1.indices.getD (P + g) default) (s1.getD (P + g) (0, 0)) (o1.getD (P + g) 0) = segs[g]?)
    (hsp' : ∀ g gaxes, G[g]? = some gaxes →
      splitAddr (y1.indices.getD (P + g) default) (s1'.getD (P + g) (0, 0)) (o1'.getD (P + g) 0) = segs'[g]?)
    (hs : s1.take P ++ (segs.map (·.1)).flatten ++ s1.drop (P + G.length)
        = s1'.take P ++ (segs'.map (·.1)).flatten ++ s1'.drop (P + G.length))
    (ho : o1.take P ++ (segs.map (·.2)).flatten ++ o1.drop (P + G.length)
        = o1'.take P ++ (segs'.map (·.2)).flatten ++ o1'.drop (P + G.length)) :
    s1 = s1' ∧ o1 = o1' := by
  have hva := validArr_of_validB hv
  have hnd : y1.indices.length = y1.ndim := rfl
  have l1 : s1.length = y1.ndim := (hva.blk (s1, B1) (Lazy.alookup_mem hB)).1
  have l1' : s1'.length = y1.ndim := (hva.blk (s1', B1') (Lazy.alookup_mem hB')).1
  have l2 : o1.length = y1.ndim := by
    rw [FuseP.inBox_length hi]; exact ShapeLen.of_valid hv (s1, B1) (Lazy.alookup_mem hB)
  have l2' : o1'.length = y1.ndim := by
    rw [FuseP.inBox_length hi']; exact ShapeLen.of_valid hv (s1', B1') (Lazy.alookup_mem hB')
  -- per group facts
  have hwf : ∀ g, g < G.length → Index.wfB y1.sym (y1.indices.getD (P + g) default) = true := by
    intro g hg
    have hlt : P + g < y1.indices.length := by omega
    rw [List.getD_eq_getElem?_getD, List.getElem?_eq_getElem hlt]
    exact hva.idx _ (List.getElem_mem hlt)
  have hf : ∀ g, g < G.length → ∃ q, segs[g]? = some q
      ∧ splitAddr (y1.indices.getD (P + g) default) (s1.getD (P + g) (0, 0)) (o1.getD (P + g) 0) = some q := by
    intro g hg
    have h1 := hsp g G[g] (List.getElem?_eq_getElem hg)
    have h2 : segs[g]? = some segs[g] := List.getElem?_eq_getElem (by omega)
    exact ⟨_, h2, by rw [h1, h2]⟩
  have hf' : ∀ g, g < G.length → ∃ q, segs'[g]? = some q
      ∧ splitAddr (y1.indices.getD (P + g) default) (s1'.getD (P + g) (0, 0)) (o1'.getD (P + g) 0) = some q := by
    intro g hg
    have h1 := hsp' g G[g] (List.getElem?_eq_getElem hg)
    have h2 : segs'[g]? = some segs'[g] := List.getElem?_eq_getElem (by omega)
    exact ⟨_, h2, by rw [h1, h2]⟩
  -- lengths of the segments agree
  have hlen1 : ∀ g, g < (segs.map (·.1)).length →
      ((segs.map (·.1)).getD g []).length = ((segs'.map (·.1)).getD g []).length := by
    intro g hg
    have hg' : g < G.length := by simpa [hsl] using hg
    obtain ⟨q, hq, hsq⟩ := hf g hg'
    obtain ⟨q', hq', hsq'⟩ := hf' g hg'
    simp only [List.getD_eq_getElem?_getD, List.getElem?_map, hq, hq', Option.map_some, Option.getD_some]
    rw [(split_facts (hwf g hg') hsq).1, (split_facts (hwf g hg') hsq').1]
  have hlen2 : ∀ g, g < (segs.map (·.2)).length →
      ((segs.map (·.2)).getD g []).length = ((segs'.map (·.2)).getD g []).length := by
    intro g hg
    have hg' : g < G.length := by simpa [hsl] using hg
    obtain ⟨q, hq, hsq⟩ := hf g hg'
    obtain ⟨q', hq', hsq'⟩ := hf' g hg'
    simp only [List.getD_eq_getElem?_getD, List.getElem?_map, hq, hq', Option.map_some, Option.getD_some]
    rw [(split_facts (hwf g hg') hsq).2.1, (split_facts (hwf g hg') hsq').2.1]
  -- split the two equations
  have htl : (s1.take P).length = (s1'.take P).length := by simp [l1, l1']
  have htl2 : (o1.take P).length = (o1'.take P).length := by simp [l2, l2']
  rw [List.append_assoc, List.append_assoc] at hs ho
  obtain ⟨hst, hs2⟩ := List.append_inj hs htl
  obtain ⟨hot, ho2⟩ := List.append_inj ho htl2
  obtain ⟨hF1, hsd⟩ := flatten_append_inj _ _ _ _ (by simp [hsl, hsl']) hlen1 hs2
  obtain ⟨hF2, hod⟩ := flatten_append_inj _ _ _ _ (by simp [hsl, hsl']) hlen2 ho2
  have hsegs : segs = segs' := by
    apply List.ext_getElem?
    intro g
    have e1 := congrArg (fun l => l[g]?) hF1
    have e2 := congrArg (fun l => l[g]?) hF2
    simp only [List.getElem?_map] at e1 e2
    cases hq : segs[g]? with
    | none =>
      cases hq' : segs'[g]? with
      | none => rfl
      | some q' => rw [hq, hq'] at e1; cases e1
    | some q =>
      cases hq' : segs'[g]? with
      | none => rw [hq, hq'] at e1; cases e1
      | some q' =>
        rw [hq, hq'] at e1 e2
        simp only [Option.map_some, Option.some.injEq] at e1 e2
        rw [Prod.ext e1 e2]
  subst hsegs
  -- the group positions
  have hmid : ∀ g, g < G.length → s1.getD (P + g) (0, 0) = s1'.getD (P + g) (0, 0)
      ∧ o1.getD (P + g) 0 = o1'.getD (P + g) 0 := by
    intro g hg
    obtain ⟨q, hq, hsq⟩ := hf g hg
    obtain ⟨q', hq', hsq'⟩ := hf' g hg
    rw [hq] at hq'; injection hq' with hq'; subst hq'
    obtain ⟨_, _, c1, j1⟩ := split_facts (hwf g hg) hsq
    obtain ⟨_, _, c2, j2⟩ := split_facts (hwf g hg) hsq'
    have hc : s1.getD (P + g) (0, 0) = s1'.getD (P + g) (0, 0) := by rw [c1, c2]
    refine ⟨hc, ?_⟩
    rw [hc, j2] at j1
    injection j1 with j1
    exact j1.symm
  exact ⟨splice_ext (0, 0) s1 s1' P G.length (by rw [l1, l1']) hst hsd (fun g hg => (hmid g hg).1),
    splice_ext 0 o1 o1' P G.length (by rw [l2, l2']) hot hod (fun g hg => (hmid g hg).2)⟩

/-- **the pull-back is injective on stored addresses** -/
theorem pulled_inj : ∀ (calls : List (List (List Nat))) (a y : Arr R) (lb : Nat),
    ElemChainB a calls lb y → ∀ ns i ns' i' s o σ σ', Stored y ns i → Stored y ns' i' →
    Pulled a calls lb y ns i s o σ → Pulled a calls lb y ns' i' s o σ' → ns = ns' ∧ i = i' := by
  intro calls
  induction calls with
  | nil =>
    intro a y lb _ ns i ns' i' s o σ σ' _ _ h h'
    obtain ⟨rfl, rfl, _⟩ := h
    obtain ⟨rfl, rfl, _⟩ := h'
    exact ⟨rfl, rfl⟩
  | cons G rest ih =>
    intro a y lb hch ns i ns' i' s o σ σ' hst hst' h h'
    obtain ⟨P0, y0, hc0, hy0, hv0, _, hnd0, _, hrest⟩ := hch
    obtain ⟨P, y1, s1, o1, σ1, B1, segs, hc, hy1, hpr, hB1, hin, hsl, hsp, _, _, hse, hoe, _⟩ := h
    obtain ⟨P', y1', s1', o1', σ1', B1', segs', hc', hy1', hpr', hB1', hin', hsl', hsp', _, _, hse', hoe', _⟩ := h'
    rw [hy0] at hy1 hy1'
    injection hy1 with hy1; subst hy1
    injection hy1' with hy1'; subst hy1'
    have hPP : ∀ {Q lbq}, CallOk G Q lbq a.ndim → P0 = Q := by
      intro Q lbq hq
      have h1 := hc0.flat
      have h2 := hq.flat
      rw [h1] at h2
      exact range'_inj_start (flatten_pos hc0.ne hc0.two) h2
    have e1 := hPP hc
    have e2 := hPP hc'
    subst e1; subst e2
    have hle : P0 + G.length ≤ y0.ndim := by
      have := hc0.le
      have h3 : G.length ≤ G.flatten.length := length_le_flatten G hc0.two
      omega
    obtain ⟨es, eo⟩ := inj_call y0 hv0 G P0 hle s1 s1' o1 o1' B1 B1' hB1 hin hB1' hin' segs segs' hsl hsl'
      hsp hsp' (by rw [← hse, ← hse']) (by rw [← hoe, ← hoe'])
    subst es; subst eo
    exact ih y0 y _ hrest ns i ns' i' s1 o1 σ1 σ1' hst hst' hpr hpr'

end SymmModel.ReshapeI
