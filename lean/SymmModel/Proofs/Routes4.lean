/-
  SymmModel.Proofs.Routes4 — towards S7 of property C04: the sign identity for the middle operand
  of a chain `A–B–C`.  Namespace `SymmModel.RoutesP`.
-/
import SymmModel.Proofs.Routes3

namespace SymmModel
namespace RoutesP
open TdotP GradedP KoszulP
set_option linter.unusedSectionVars false

/-- re-listing the FREE axes of the right operand along `q` -/
theorem koszul_relist_free_right (par : List Bool) (n : Nat) (hpar : par.length = n) (xb q : List Nat)
    (hn : xb.Nodup) (hlt : ∀ i ∈ xb, i < n) (hq : q.Perm (List.range (freeAxes n xb).length)) :
    koszul par (some (xb ++ permuted (freeAxes n xb) q))
      = koszul par (some (xb ++ freeAxes n xb)) * koszul (permuted par (freeAxes n xb)) (some q) := by
  have hp := perm_right hn hlt
  have hfl := freeAxes_length hn hlt
  have hq' : (List.range xb.length ++ q.map (xb.length + ·)).Perm (List.range n) := by
    have : n = xb.length + (freeAxes n xb).length := by omega
    conv => rhs; rw [this, List.range_add]
    exact List.Perm.append_left _ (hq.map _)
  have hc : compose (xb ++ freeAxes n xb) (List.range xb.length ++ q.map (xb.length + ·))
      = xb ++ permuted (freeAxes n xb) q := by
    unfold compose
    rw [ValidP.permuted_append, ValidP.permuted_range_take, List.take_left' rfl,
      permuted_append_map_add]
  have hco := koszul_cocycle' par _ _ n hpar hp hq'
  rw [hc] at hco
  rw [hco, ValidP.permuted_append]
  congr 1
  have hl : (permuted par (freeAxes n xb)).length = (freeAxes n xb).length :=
    permuted_length _ _ (by intro x hx; rw [hpar]; exact (mem_freeAxes.mp hx).1)
  have hk : (permuted par xb).length = xb.length :=
    permuted_length _ _ (by intro x hx; rw [hpar]; exact hlt x hx)
  have := koszul_id_block_left (permuted par xb) (permuted par (freeAxes n xb)) q (by rw [hl]; exact hq)
  rw [hk] at this
  exact this

/-- **assoc_sign_identity** (the sign part of S7 for the middle operand `B` of a chain `A–B–C`).
    `B` has `m` legs with parities `par`; `xb1` are its legs bonded to `A`, `xb2` those bonded to
    `C` (disjoint).  Route `(A·B)·C`: `B` is brought to `(xb1, rest)` order and then, inside the
    intermediate result, its remaining legs are re-listed (`ρ₁`) so that `xb2` comes last.
    Route `A·(B·C)`: `B` is brought to `(rest, xb2)` order and then its remaining legs are
    re-listed (`ρ₂`) so that `xb1` comes first.  Both products of Koszul signs equal the sign of
    bringing `B` to `(xb1, M, xb2)` order directly, `M` the legs that stay free. -/
theorem assoc_sign_identity (par : List Bool) (m : Nat) (hpar : par.length = m) (xb1 xb2 : List Nat)
    (hn : (xb1 ++ xb2).Nodup) (hlt : ∀ i ∈ xb1 ++ xb2, i < m) :
    let M := freeAxes m (xb1 ++ xb2)
    let ρ1 := positions (freeAxes m xb1) (M ++ xb2)
    let ρ2 := positions (freeAxes m xb2) (xb1 ++ M)
    koszul par (some (xb1 ++ freeAxes m xb1)) * koszul (permuted par (freeAxes m xb1)) (some ρ1)
        = koszul par (some (xb1 ++ M ++ xb2))
      ∧ koszul par (some (freeAxes m xb2 ++ xb2)) * koszul (permuted par (freeAxes m xb2)) (some ρ2)
        = koszul par (some (xb1 ++ M ++ xb2)) := by
  intro M ρ1 ρ2
  have hn1 : xb1.Nodup := (List.nodup_append.mp hn).1
  have hn2 : xb2.Nodup := (List.nodup_append.mp hn).2.1
  have hdisj : ∀ x ∈ xb1, ∀ y ∈ xb2, x ≠ y := (List.nodup_append.mp hn).2.2
  have hlt1 : ∀ i ∈ xb1, i < m := fun i hi => hlt i (List.mem_append_left _ hi)
  have hlt2 : ∀ i ∈ xb2, i < m := fun i hi => hlt i (List.mem_append_right _ hi)
  have hMnd : M.Nodup := freeAxes_nodup _ _
  -- `M ++ xb2` is a re-listing of the free axes w.r.t. `xb1`
  have hP1 : (M ++ xb2).Perm (freeAxes m xb1) := by
    rw [List.perm_ext_iff_of_nodup ?_ (freeAxes_nodup _ _)]
    · intro y
      simp only [List.mem_append, M, mem_freeAxes, not_or]
      constructor
      · rintro (⟨h1, h2, _⟩ | h)
        · exact ⟨h1, h2⟩
        · exact ⟨hlt2 y h, fun h' => hdisj y h' y h rfl⟩
      · rintro ⟨h1, h2⟩
        by_cases h3 : y ∈ xb2
        · exact Or.inr h3
        · exact Or.inl ⟨h1, h2, h3⟩
    · rw [List.nodup_append]
      refine ⟨hMnd, hn2, ?_⟩
      intro x hx y hy e
      subst e
      exact (mem_freeAxes.mp hx).2 (List.mem_append_right _ hy)
  have hP2 : (xb1 ++ M).Perm (freeAxes m xb2) := by
    rw [List.perm_ext_iff_of_nodup ?_ (freeAxes_nodup _ _)]
    · intro y
      simp only [List.mem_append, M, mem_freeAxes, not_or]
      constructor
      · rintro (h | ⟨h1, _, h3⟩)
        · exact ⟨hlt1 y h, fun h' => hdisj y h y h' rfl⟩
        · exact ⟨h1, h3⟩
      · rintro ⟨h1, h2⟩
        by_cases h3 : y ∈ xb1
        · exact Or.inl h3
        · exact Or.inr ⟨h1, h3, h2⟩
    · rw [List.nodup_append]
      refine ⟨hn1, hMnd, ?_⟩
      intro x hx y hy e
      subst e
      exact (mem_freeAxes.mp hy).2 (List.mem_append_left _ hx)
  have hq1 := positions_perm (freeAxes m xb1) (M ++ xb2) hP1 (freeAxes_nodup _ _)
  have hq2 := positions_perm (freeAxes m xb2) (xb1 ++ M) hP2 (freeAxes_nodup _ _)
  have hs1 := (positions_spec (freeAxes m xb1) (M ++ xb2) (fun y hy => hP1.mem_iff.mp hy)).1
  have hs2 := (positions_spec (freeAxes m xb2) (xb1 ++ M) (fun y hy => hP2.mem_iff.mp hy)).1
  constructor
  · have := koszul_relist_free_right par m hpar xb1 ρ1 hn1 hlt1 hq1
    rw [hs1] at this
    rw [← this, List.append_assoc]
  · have := koszul_relist_free_left par m hpar xb2 ρ2 hn2 hlt2 hq2
    rw [hs2] at this
    rw [← this]

end RoutesP
end SymmModel
