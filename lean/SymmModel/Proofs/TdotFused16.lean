/-
  SymmModel.Proofs.TdotFused16 — matrix · vector and vector · matrix products of fused operands,
  entry by entry.  Namespace `SymmModel.TdotP`.
-/
import SymmModel.Proofs.TdotFused15

namespace SymmModel
namespace TdotP
variable {R : Type}

/-- blockwise product of a rank-2 with a rank-1 array: the element at `([cL],[iL])` is the sum
    over the charges `c` of `X`'s second index and the positions `k` inside `c` of
    `X[(cL,c),(iL,k)] · Y[c,k]` -/
theorem mv_elem [AddCommMonoid R] [Mul R] [Neg R]
    (hz1 : ∀ x : R, 0 * x = 0) (hz2 : ∀ x : R, x * 0 = 0) (X Y : Arr R) (x0 xK yK : Index)
    (hXi : X.indices = [x0, xK]) (hYi : Y.indices = [yK])
    (hpX : X.phases = []) (hpY : Y.phases = [])
    (hdX : allDistinct X.sectors = true) (hdY : allDistinct Y.sectors = true)
    (hsX : X.shapesOk) (hsY : Y.shapesOk) (hndK : (xK.cm.map (·.1)).Nodup)
    {cL : Charge} {iL dL : Nat} (hzL : x0.sizeOf? cL = some dL) (hiL : iL < dL) :
    (tensordotBlockwise X Y [0] [1] [0] []).elem [cL] [iL] =
      (xK.cm.map (fun cd => ((List.range cd.2).map (fun k =>
        X.elem [cL, cd.1] [iL, k] * Y.elem [cd.1] [k])).sum)).sum := by
  have hX2 : X.ndim = 2 := by simp [Arr.ndim, hXi]
  have hY1 : Y.ndim = 1 := by simp [Arr.ndim, hYi]
  have hcover : ∀ sa ∈ X.sectors, permuted sa [1] ∈ xK.cm.map (fun cd => [cd.1]) := by
    intro sa hsa
    obtain ⟨p, hp, rfl⟩ := List.mem_map.mp hsa
    have hsh := hsX p hp
    rw [hXi] at hsh
    match hps : p.1, charges_of_blockShape? hsh with
    | [c1, c2], .cons _ (.cons hc2 .nil) =>
      obtain ⟨cd, hcd, rfl⟩ := List.mem_map.mp hc2
      exact List.mem_map.mpr ⟨cd, hcd, by simp [permuted]⟩
  have hbox : inBox (Arr.blockShapeD (without X.indices [1] ++ without Y.indices [0]) ([cL] ++ []))
      [iL] = true := by
    have e1 : without X.indices [1] = [x0] := by rw [hXi]; rfl
    have e2 : without Y.indices [0] = [] := by rw [hYi]; rfl
    rw [e1, e2]
    simp only [List.append_nil, Arr.blockShapeD, Arr.blockShape?_cons,
      Arr.blockShape?_nil_nil, hzL, Option.bind_some, Option.map_some, Option.getD_some, inBox,
      hiL, decide_true, Bool.and_self]
  have h := tensordotBlockwise_elem_dense' hz1 hz2 X Y [1] [0] hpX hpY hdX hdY hsX hsY
    (by simp) (by simp [hX2]) (by simp) (by simp [hY1]) rfl
    (xK.cm.map (fun cd => [cd.1]))
    (by
      have : xK.cm.map (fun cd => [cd.1]) = (xK.cm.map (·.1)).map (fun c => [c]) := by
        rw [List.map_map]; rfl
      rw [this]; exact hndK.map (fun x y h => by simpa using h))
    (by intro K hK; obtain ⟨cd, _, rfl⟩ := List.mem_map.mp hK; rfl)
    hcover [cL] [] (by rw [hX2, freeAxes_2_1]; rfl) (by rw [hY1, freeAxes_1_0]; rfl) [iL] hbox
  rw [hX2, hY1, freeAxes_2_1, freeAxes_1_0] at h
  rw [show ([cL] : Sector) = [cL] ++ [] from rfl, h, List.map_map]
  apply sum_map_congr
  rintro ⟨c, D⟩ hcd
  have hzK : xK.sizeOf? c = some D := alookup_of_mem_nodup hndK hcd
  have hshape : Arr.blockShapeD X.indices [cL, c] = [dL, D] := by
    rw [hXi]
    simp only [Arr.blockShapeD, Arr.blockShape?_cons, Arr.blockShape?_nil_nil, hzL, hzK,
      Option.bind_some, Option.map_some, Option.getD_some]
  have e1 : mergeSec 2 [1] [c] [cL] = [cL, c] := by
    simp [mergeSec, mergeIdx, freeAxes_2_1, indexOf?, List.range_succ]
  have e2 : mergeSec 1 [0] [c] [] = [c] := by
    simp [mergeSec, mergeIdx, freeAxes_1_0, indexOf?, List.range_succ]
  simp only [Function.comp, contractPair, e1, e2, hshape, List.take_succ_cons, List.take_zero,
    List.drop_succ_cons, List.drop_zero, List.length_cons, List.length_nil]
  have e3 : permuted [dL, D] [1] = [D] := rfl
  rw [e3, allIdx_single, List.map_map]
  apply sum_map_congr
  intro k _
  simp only [Function.comp, contractTerm, hX2, hY1, freeAxes_2_1, freeAxes_1_0]
  have e4 : mergeIdx 0 2 [1] [0] [k] [iL] = [iL, k] := by
    simp [mergeIdx, indexOf?, List.range_succ]
  have e5 : mergeIdx 0 1 [0] [] [k] [] = [k] := by
    simp [mergeIdx, indexOf?, List.range_succ]
  rw [e4, e5]

/-- blockwise product of a rank-1 with a rank-2 array: the element at `([cR],[iR])` is the sum
    over the charges `c` of `X`'s index and the positions `k` inside `c` of
    `X[c,k] · Y[(c,cR),(k,iR)]` -/
theorem vm_elem [AddCommMonoid R] [Mul R] [Neg R]
    (hz1 : ∀ x : R, 0 * x = 0) (hz2 : ∀ x : R, x * 0 = 0) (X Y : Arr R) (xK yK y1 : Index)
    (hXi : X.indices = [xK]) (hYi : Y.indices = [yK, y1])
    (hpX : X.phases = []) (hpY : Y.phases = [])
    (hdX : allDistinct X.sectors = true) (hdY : allDistinct Y.sectors = true)
    (hsX : X.shapesOk) (hsY : Y.shapesOk) (hndK : (xK.cm.map (·.1)).Nodup)
    {cR : Charge} {iR dR : Nat} (hzR : y1.sizeOf? cR = some dR) (hiR : iR < dR) :
    (tensordotBlockwise X Y [] [0] [0] [1]).elem [cR] [iR] =
      (xK.cm.map (fun cd => ((List.range cd.2).map (fun k =>
        X.elem [cd.1] [k] * Y.elem [cd.1, cR] [k, iR])).sum)).sum := by
  have hX1 : X.ndim = 1 := by simp [Arr.ndim, hXi]
  have hY2 : Y.ndim = 2 := by simp [Arr.ndim, hYi]
  have hcover : ∀ sa ∈ X.sectors, permuted sa [0] ∈ xK.cm.map (fun cd => [cd.1]) := by
    intro sa hsa
    obtain ⟨p, hp, rfl⟩ := List.mem_map.mp hsa
    have hsh := hsX p hp
    rw [hXi] at hsh
    match hps : p.1, charges_of_blockShape? hsh with
    | [c1], .cons hc1 .nil =>
      obtain ⟨cd, hcd, rfl⟩ := List.mem_map.mp hc1
      exact List.mem_map.mpr ⟨cd, hcd, by simp [permuted]⟩
  have hbox : inBox (Arr.blockShapeD (without X.indices [0] ++ without Y.indices [0]) ([] ++ [cR]))
      [iR] = true := by
    have e1 : without X.indices [0] = [] := by rw [hXi]; rfl
    have e2 : without Y.indices [0] = [y1] := by rw [hYi]; rfl
    rw [e1, e2]
    simp only [List.nil_append, Arr.blockShapeD, Arr.blockShape?_cons,
      Arr.blockShape?_nil_nil, hzR, Option.bind_some, Option.map_some, Option.getD_some, inBox,
      hiR, decide_true, Bool.and_self]
  have h := tensordotBlockwise_elem_dense' hz1 hz2 X Y [0] [0] hpX hpY hdX hdY hsX hsY
    (by simp) (by simp [hX1]) (by simp) (by simp [hY2]) rfl
    (xK.cm.map (fun cd => [cd.1]))
    (by
      have : xK.cm.map (fun cd => [cd.1]) = (xK.cm.map (·.1)).map (fun c => [c]) := by
        rw [List.map_map]; rfl
      rw [this]; exact hndK.map (fun x y h => by simpa using h))
    (by intro K hK; obtain ⟨cd, _, rfl⟩ := List.mem_map.mp hK; rfl)
    hcover [] [cR] (by rw [hX1, freeAxes_1_0]; rfl) (by rw [hY2, freeAxes_2_0]; rfl) [iR] hbox
  rw [hX1, hY2, freeAxes_1_0, freeAxes_2_0] at h
  rw [show ([cR] : Sector) = [] ++ [cR] from rfl, h, List.map_map]
  apply sum_map_congr
  rintro ⟨c, D⟩ hcd
  have hzK : xK.sizeOf? c = some D := alookup_of_mem_nodup hndK hcd
  have hshape : Arr.blockShapeD X.indices [c] = [D] := by
    rw [hXi]
    simp only [Arr.blockShapeD, Arr.blockShape?_cons, Arr.blockShape?_nil_nil, hzK,
      Option.bind_some, Option.map_some, Option.getD_some]
  have e1 : mergeSec 1 [0] [c] [] = [c] := by
    simp [mergeSec, mergeIdx, freeAxes_1_0, indexOf?, List.range_succ]
  have e2 : mergeSec 2 [0] [c] [cR] = [c, cR] := by
    simp [mergeSec, mergeIdx, freeAxes_2_0, indexOf?, List.range_succ]
  simp only [Function.comp, contractPair, e1, e2, hshape, List.take_zero,
    List.drop_zero, List.length_nil]
  have e3 : permuted [D] [0] = [D] := rfl
  rw [e3, allIdx_single, List.map_map]
  apply sum_map_congr
  intro k _
  simp only [Function.comp, contractTerm, hX1, hY2, freeAxes_1_0, freeAxes_2_0]
  have e4 : mergeIdx 0 1 [0] [] [k] [] = [k] := by
    simp [mergeIdx, indexOf?, List.range_succ]
  have e5 : mergeIdx 0 2 [0] [1] [k] [iR] = [k, iR] := by
    simp [mergeIdx, indexOf?, List.range_succ]
  rw [e4, e5]
  rfl

end TdotP
end SymmModel
