/-
  SymmModel.Proofs.NetNorm4 — network form of the norm (property C10), continuation part 4:
  tools for three-tensor chains `a – b – c`:
  * sparing ket-like bond legs does not change the bra tensor (`braOf_spare`);
  * `conj(phase_dual=True)` is observationally the bra tensor `braOf K x` when the legs `x` are
    ket-like (`conjF_obs_braOf`);
  * the legs of `a·b` that come from ket-like legs of `b` are ket-like (`link_dual`);
  * the norm from an observational copy of the conjugate (`norm_of_obs`).
-/
import SymmModel.Proofs.NetNorm3
namespace SymmModel.NormNet
open SymmModel SymmModel.Lazy SymmModel.Norm SymmModel.TdotP SymmModel.GradedP SymmModel.RoutesP
open SymmModel.AssocP
set_option linter.unusedSectionVars false

section spare
variable {R : Type} [Zero R] [Neg R] [Conj R]

/-- ket-like legs are never flipped: excluding them from the dangling legs changes nothing -/
theorem dangDual_spare (a : Arr R) (x y : List Nat)
    (hy : ∀ ax ∈ y, (a.indices.getD ax default).dual = false) :
    dangDual a (x ++ y) = dangDual a x := by
  unfold dangDual freeAxes
  rw [List.filter_filter, List.filter_filter]
  apply List.filter_congr
  intro ax _
  by_cases h : ax ∈ y
  · have hd := hy ax h
    rw [List.getD_eq_getElem?_getD] at hd
    simp [hd, h]
  · simp [h]

theorem braOf_spare (a : Arr R) (x y : List Nat)
    (hy : ∀ ax ∈ y, (a.indices.getD ax default).dual = false) :
    braOf a (x ++ y) = braOf a x := by
  unfold braOf; rw [dangDual_spare a x y hy]

/-- if the legs `x` are ket-like, the dangling bra-like legs are ALL bra-like legs -/
theorem dangDual_all (K : Arr R) (x : List Nat)
    (hx : ∀ ax ∈ x, (K.indices.getD ax default).dual = false) :
    dangDual K x = (List.range K.indices.length).filter
      (fun ax => (fun i : Index => i.dual) (K.indices.getD ax default)) := by
  unfold dangDual freeAxes
  rw [List.filter_filter]
  apply List.filter_congr
  intro ax _
  by_cases h : ax ∈ x
  · have hd := hx ax h
    rw [List.getD_eq_getElem?_getD] at hd
    simp [hd, h]
  · simp [h]

/-- the sign of `conj(phase_dual=True)` = flip of all bra-like legs × sign of `conj()` -/
theorem conjTotSign_dual (K : Arr R) (s : Sector) :
    conjTotSign K true true s
      = flipSign K.sym ((List.range K.indices.length).filter
          (fun ax => (fun i : Index => i.dual) (K.indices.getD ax default))) s
        * conjTotSign K true false s := by
  have hflip := flipOdd_filter K.sym K.indices (fun i => i.dual) s
  have e : dualOdd K s = flipOdd K.sym ((List.range K.indices.length).filter
      (fun ax => (fun i : Index => i.dual) (K.indices.getD ax default))) s := by
    rw [dualOdd_eq]; unfold Arr.parities; rw [← hflip]
  unfold conjTotSign conjSign flipSign
  rw [e]
  generalize flipOdd K.sym _ s = f
  generalize koszul (K.parities s) none = k
  generalize conjGlob K true = g
  cases f <;> cases g <;> simp

end spare

section obs
variable {R : Type} [AddMonoid R] [Mul R] [Neg R] [Conj R] [NetLaws R]

/-- **`conj(phase_dual=True)` is the bra tensor with ket-like bond legs.** -/
theorem conjF_obs_braOf (K : Arr R) (x : List Nat) (hS : SignOk K)
    (hx : ∀ ax ∈ x, (K.indices.getD ax default).dual = false) :
    ObsEq (K.conjF true true) (braOf K x) := by
  obtain ⟨c1, c2, c3, c4, c5, c6⟩ := conjF_frame K true true
  obtain ⟨b1, b2, b3, b4, b5, b6⟩ := braOf_frame K x
  refine ⟨c1.trans b1.symm, c2.trans b2.symm, c3.trans b3.symm, c4.trans b4.symm,
    c5.trans b5.symm, c6.trans b6.symm, fun s off => ?_⟩
  rw [conjF_elem K true true hS, braOf_elem K x hS]
  unfold braSign
  rw [dangDual_all K x hx, conjTotSign_dual]

end obs

section link
variable {R : Type}

/-- the legs of `a·b` (any mode) that come from ket-like legs `xb2` of `b` are ket-like -/
theorem link_dual {a b K2 : Arr R} {xa xb1 xb2 : List Nat} (I : InterW a b xa xb1 K2)
    (hM : Mid b.ndim xb1 xb2)
    (hb2 : ∀ ax ∈ xb2, (b.indices.getD ax default).dual = false) :
    ∀ ax ∈ AssocP.axesAB a.ndim b.ndim xa xb1 xb2, (K2.indices.getD ax default).dual = false := by
  intro ax hax
  obtain ⟨j, hj, rfl⟩ := List.mem_iff_getElem.mp hax
  have hj' : j < xb2.length := by rw [← AssocP.axesAB_len (nA := a.ndim) (xa := xa) hM]; exact hj
  obtain ⟨e1, e2, e3⟩ := AssocP.axesAB_getD (nA := a.ndim) (xa := xa) hM j hj'
  have hg : (AssocP.axesAB a.ndim b.ndim xa xb1 xb2)[j]
      = (AssocP.axesAB a.ndim b.ndim xa xb1 xb2).getD j 0 := by
    rw [List.getD_eq_getElem?_getD, List.getElem?_eq_getElem hj]; rfl
  have := I.leg_right _ e2
  rw [e3, ← e1, ← hg] at this
  rw [this.1]
  apply hb2
  rw [List.getD_eq_getElem?_getD, List.getElem?_eq_getElem hj']
  exact List.getElem_mem hj'

end link

section norm
variable {R : Type} [AddMonoid R] [Mul R] [Neg R] [Conj R] [NetLaws R]

/-- **the norm from an observational copy of the conjugate**: `Kb ≈ K.conj(phase_dual=True)`,
    `K` with sorted distinct ket labels: `Kb·K = Σ|K|²`, `K·Kb` likewise, no labels left -/
theorem norm_of_obs {K Kb : Arr R} (hKv : K.validB = true) (hKf : K.fermi = true)
    (hKbv : Kb.validB = true) (hKbf : Kb.fermi = true) (hobs : ObsEq Kb (K.conjF true true))
    (hk : ∀ x ∈ K.oddpos, x.2 = false) (hs : K.oddpos.Pairwise (fun x y => oddLt x y = true))
    (hdl : K.oddpos.Pairwise (fun x y => x.1 ≠ y.1)) :
    ∃ r r', Kb.ndim = K.ndim
      ∧ Kb.tensordotF K (allAxes K.ndim) .blockwise = .ok r
      ∧ r.ndim = 0 ∧ r.oddpos = [] ∧ r.elem [] [] = normSq K
      ∧ K.tensordotF Kb (allAxes K.ndim) .blockwise = .ok r'
      ∧ r'.ndim = 0 ∧ r'.oddpos = [] ∧ r'.elem [] [] = normSq' K := by
  have hN := NormOk.of_valid hKv hKf
  have fK : Full K := Full.of_valid hKv hKf
  have fKb : Full Kb := Full.of_valid hKbv hKbf
  have fC : Full (K.conjF true true) := Full.conjF' fK true true
  have hnd : Kb.ndim = K.ndim := by
    unfold Arr.ndim; rw [hobs.indices]; exact conjF_ndim K true true
  obtain ⟨r, h1, h2, h3, h4⟩ := norm_left_labels hN true (Or.inl rfl) hk hs hdl
  obtain ⟨r', g1, g2, g3, g4⟩ := norm_right_labels hN true (Or.inl rfl) hk hs hdl
  refine ⟨r, r', hnd, ?_, h2, h3, h4, ?_, g2, g3, g4⟩
  · rw [← h1]
    exact tensordotF_congr hobs (ObsEq.refl K) fKb fC fK fK _ _
      (by rw [hnd]; exact full_guard K.ndim)
  · rw [← g1]
    exact tensordotF_congr (ObsEq.refl K) hobs fK fK fKb fC _ _
      (by rw [hnd]; exact full_guard K.ndim)

/-- the guard of `tensordotF_congr` for a call with natural-number axes -/
theorem congr_guard (n m : Nat) (x y : List Nat) (hl : x.length = y.length)
    (hnx : x.Nodup) (hny : y.Nodup) (hx : ∀ i ∈ x, i < n) (hy : ∀ i ∈ y, i < m) :
    ∀ axesA axesB, parseAxes n m (.pair (x.map Int.ofNat) (y.map Int.ofNat)) = .ok (axesA, axesB) →
      Arr.isPerm (without (List.range n) axesA ++ axesA) n = true
      ∧ Arr.isPerm (axesB ++ without (List.range m) axesB) m = true := by
  intro axesA axesB hp
  rw [ValidP.parseAxes_nat n m x y hl hx hy] at hp
  simp only [Except.ok.injEq, Prod.mk.injEq] at hp
  obtain ⟨rfl, rfl⟩ := hp
  rw [without_range, without_range]
  exact ⟨ValidP.isPerm_of_perm (perm_left hnx hx), ValidP.isPerm_of_perm (perm_right hny hy)⟩

end norm

end SymmModel.NormNet
