/-
  SymmModel.Proofs.FuseCommuteG3 — C06, first clause, FERMIONIC, ARBITRARY contracted groups,
  blockwise level: for aligned fermionic operands `A`, `B` (`FCtxG`), the graded contraction of the
  two fermionically fused operands over the single fused pair equals the graded contraction over the
  original pairs at every address of the free legs' table box (`gradedContract_bond_fuse_gen`).
  Namespace `SymmModel.TdotP`.
-/
import SymmModel.Proofs.FuseCommuteG2

namespace SymmModel
namespace TdotP
open SymmModel.KoszulP SymmModel.Lazy SymmModel.GradedP SymmModel.RoutesP SymmModel.AssocP
variable {R : Type}
set_option linter.unusedSectionVars false

/-- aligned fermionic operands (what `dropMisaligned` produces from a pair satisfying the weak
    guard), at least one contracted pair; no condition on the positions of the contracted legs -/
structure FCtxG (A B : Arr R) (xa xb : List Nat) : Prop where
  W : AdmW A B xa xb
  ne : xa ≠ []
  cm : (xa.map (fun ax => A.indices.getD ax default)).map Index.cm
      = (xb.map (fun ax => B.indices.getD ax default)).map Index.cm
  dual : (xb.map (fun ax => B.indices.getD ax default)).map Index.dual
      = (xa.map (fun ax => A.indices.getD ax default)).map (fun ix => !ix.dual)
  keys : ∀ K, K ∈ A.blocks.map (fun sb => xa.map (fun ax => sb.1.getD ax (0, 0))) ↔
      K ∈ B.blocks.map (fun sb => xb.map (fun ax => sb.1.getD ax (0, 0)))

section
variable [AddCommMonoid R] [Mul R] [Neg R] [SignRing R]

theorem FCtxG.oneA {A B : Arr R} {xa xb : List Nat} (h : FCtxG A B xa xb) : OneOk A xa :=
  ⟨h.ne, h.W.nA, h.W.ltA⟩

theorem FCtxG.oneB {A B : Arr R} {xa xb : List Nat} (h : FCtxG A B xa xb) : OneOk B xb :=
  ⟨by intro e; have := h.W.len; rw [e] at this; exact h.ne (List.eq_nil_of_length_eq_zero this),
    h.W.nB, h.W.ltB⟩

end

theorem headD_eq_getD (l : List Nat) : l.headD 0 = l.getD 0 0 := by cases l <;> rfl

/-- the consecutive positions of a group, as a group of an array of the same rank -/
theorem newG_one {X X' : Arr R} {g : List Nat} (h : OneOk X g) (hn : X'.ndim = X.ndim) :
    OneOk X' (newG X g) ∧ (FuseP.giM X' [newG X g]).position = (FuseP.giM X [g]).position := by
  have hl := one_lengths h
  have hk : 0 < g.length := by
    have := h.ne
    cases g with
    | nil => exact absurd rfl this
    | cons x xs => simp
  have hone : OneOk X' (newG X g) := by
    refine ⟨?_, ?_, by rw [hn]; exact newG_lt h⟩
    · intro e
      have := congrArg List.length e
      rw [newG_length] at this
      simp only [List.length_nil] at this; omega
    · unfold newG
      exact (List.nodup_range).map_on (by intro x _ y _ e; omega)
  refine ⟨hone, ?_⟩
  have h1 := one_pos_mem hone
  have h2 := one_pos_le hone ((FuseP.giM X [g]).position + 0) (by
    unfold newG; exact List.mem_map.mpr ⟨0, List.mem_range.mpr hk, rfl⟩)
  generalize (FuseP.giM X' [newG X g]).position = P at h1 h2 ⊢
  unfold newG at h1
  obtain ⟨j, _, hj⟩ := List.mem_map.mp h1
  omega

/-- reading a list of rank `n` through the new positions, as a `map` -/
theorem map_getD_newG {X : Arr R} {g : List Nat} (h : OneOk X g) {α : Type} (z : List α)
    (hz : z.length = X.ndim) (d : α) :
    (newG X g).map (fun ax => (permuted z (FuseP.giM X [g]).perm).getD ax d) = g.map (fun ax => z.getD ax d) := by
  have hpl : (permuted z (FuseP.giM X [g]).perm).length = X.ndim := (lay_one h).plen z hz
  rw [← permuted_eq_map _ _ (by rw [hpl]; exact newG_lt h) d, permuted_perm_newG h z hz,
    permuted_eq_map _ _ (by rw [hz]; exact h.lt) d]

/-- `bond_fuse_core` for two synchronised arrays of any kind (kind flag and labels are not read) -/
theorem bond_fuse_core_ab [AddCommMonoid R] [Mul R] [Neg R]
    (hz1 : ∀ x : R, 0 * x = 0) (hz2 : ∀ x : R, x * 0 = 0) {X Y : Arr R} {g h : List Nat}
    (H0 : Ctx0 (ab X) (ab Y) g h) (hne : g ≠ [])
    {Ls Rs : Sector} {oL oR shpL shpR : List Nat}
    (hshpL : Arr.blockShape? (permuted X.indices (freeAxes X.ndim g)) Ls = some shpL)
    (hboxL : inBox shpL oL = true)
    (hshpR : Arr.blockShape? (permuted Y.indices (freeAxes Y.ndim h)) Rs = some shpR)
    (hboxR : inBox shpR oR = true) :
    (tensordotBlockwise (FuseP.fusedArrM X [g]) (FuseP.fusedArrM Y [h])
        (freeAxes (FuseP.fusedArrM X [g]).ndim [bondPos X g]) [bondPos X g] [bondPos Y h]
        (freeAxes (FuseP.fusedArrM Y [h]).ndim [bondPos Y h])).elem (Ls ++ Rs) (oL ++ oR)
      = (tensordotBlockwise X Y (freeAxes X.ndim g) g h (freeAxes Y.ndim h)).elem (Ls ++ Rs) (oL ++ oR) :=
  bond_fuse_core hz1 hz2 H0 hne (A := ab X) (B := ab Y)
    (show Arr.blockShape? (permuted (ab X).indices (freeAxes (ab X).ndim g)) Ls = some shpL from hshpL) hboxL
    (show Arr.blockShape? (permuted (ab Y).indices (freeAxes (ab Y).ndim h)) Rs = some shpR from hshpR) hboxR

section main
variable [AddCommMonoid R] [Mul R] [Neg R] [SignRing R]

/-- the two `_fuse_core` operands of the fermionic fuses (kind flag and labels erased) form an
    aligned abelian pair with respect to the NEW positions of the contracted groups -/
theorem ctx0_of_fctxG {A B X Y : Arr R} {xa xb : List Nat} (h : FCtxG A B xa xb)
    (PX : Prepared A X (FuseP.giM A [xa]).perm (FuseP.fuseSignF A [xa]))
    (PY : Prepared B Y (FuseP.giM B [xb]).perm (FuseP.fuseSignF B [xb]))
    (xS : X.sym = A.sym) (yS : Y.sym = B.sym) (xV : X.validB = true) (yV : Y.validB = true) :
    Ctx0 (ab X) (ab Y) (newG A xa) (newG B xb) := by
  have W := h.W
  have oA := h.oneA
  have oB := h.oneB
  have LA := lay_one oA
  have LB := lay_one oB
  have hXn : X.ndim = A.ndim := by
    show X.indices.length = _; rw [PX.indices]; exact LA.plen A.indices rfl
  have hYn : Y.ndim = B.ndim := by
    show Y.indices.length = _; rw [PY.indices]; exact LB.plen B.indices rfl
  have hsa := Arr.shapesOk_of_validB W.va
  have hsb := Arr.shapesOk_of_validB W.vb
  refine ⟨ab_validB ((ValidP.validB_iff X).mp xV) PX.phases, ab_validB ((ValidP.validB_iff Y).mp yV) PY.phases,
    rfl, rfl, xS.trans (W.sym.trans yS.symm), LA.nd', LB.nd',
    by intro x hx; show x < X.ndim; rw [hXn]; exact LA.lt' x hx,
    by intro x hx; show x < Y.ndim; rw [hYn]; exact LB.lt' x hx,
    by rw [newG_length, newG_length]; exact W.len, ?_, ?_, ?_⟩
  · show ((newG A xa).map (fun ax => X.indices.getD ax default)).map Index.cm
      = ((newG B xb).map (fun ax => Y.indices.getD ax default)).map Index.cm
    rw [PX.indices, PY.indices, map_getD_newG oA A.indices rfl, map_getD_newG oB B.indices rfl]
    exact h.cm
  · show ((newG B xb).map (fun ax => Y.indices.getD ax default)).map Index.dual
      = ((newG A xa).map (fun ax => X.indices.getD ax default)).map (fun ix => !ix.dual)
    rw [PX.indices, PY.indices, map_getD_newG oA A.indices rfl, map_getD_newG oB B.indices rfl]
    exact h.dual
  · intro K
    have e : ∀ (Z Z' : Arr R) (zs : List Nat) (hz : OneOk Z zs), Z.shapesOk →
        Z'.sectors = Z.sectors.map (fun s => permuted s (FuseP.giM Z [zs]).perm) →
        Z'.blocks.map (fun sb => (newG Z zs).map (fun ax => sb.1.getD ax (0, 0)))
          = Z.blocks.map (fun sb => zs.map (fun ax => sb.1.getD ax (0, 0))) := by
      intro Z Z' zs hz hsh hsec
      have e1 : Z'.blocks.map (fun sb => (newG Z zs).map (fun ax => sb.1.getD ax (0, 0)))
          = Z'.sectors.map (fun s => (newG Z zs).map (fun ax => s.getD ax (0, 0))) := by
        unfold Arr.sectors; rw [List.map_map]; rfl
      have e2 : Z.blocks.map (fun sb => zs.map (fun ax => sb.1.getD ax (0, 0)))
          = Z.sectors.map (fun s => zs.map (fun ax => s.getD ax (0, 0))) := by
        unfold Arr.sectors; rw [List.map_map]; rfl
      rw [e1, e2, hsec, List.map_map]
      apply List.map_congr_left
      intro s hs
      simp only [Function.comp]
      exact map_getD_newG hz s (Arr.sector_length hsh hs) (0, 0)
    show K ∈ X.blocks.map _ ↔ K ∈ Y.blocks.map _
    rw [e A X xa oA hsa PX.sectors, e B Y xb oB hsb PY.sectors]
    exact h.keys K

/-- **the graded contraction over the single fused pair = the graded contraction over the
    original pairs** — aligned fermionic operands, ARBITRARY contracted groups.  `X`, `Y` are the
    operands of `_fuse_core` inside the two fermionic fuses. -/
theorem gradedContract_bond_fuse_gen
    (hz1 : ∀ x : R, 0 * x = 0) (hz2 : ∀ x : R, x * 0 = 0) {A B X Y : Arr R} {xa xb : List Nat}
    (h : FCtxG A B xa xb)
    (PX : Prepared A X (FuseP.giM A [xa]).perm (FuseP.fuseSignF A [xa]))
    (PY : Prepared B Y (FuseP.giM B [xb]).perm (FuseP.fuseSignF B [xb]))
    (xS : X.sym = A.sym) (yS : Y.sym = B.sym) (xV : X.validB = true) (yV : Y.validB = true)
    (xCh : X.charge = A.charge)
    (hvAF : (FuseP.fusedArrM X [newG A xa]).validB = true)
    (hvBF : (FuseP.fusedArrM Y [newG B xb]).validB = true)
    {Ls Rs : Sector} {oL oR shpL shpR : List Nat}
    (hshpL : Arr.blockShape? (permuted A.indices (freeAxes A.ndim xa)) Ls = some shpL)
    (hboxL : inBox shpL oL = true)
    (hshpR : Arr.blockShape? (permuted B.indices (freeAxes B.ndim xb)) Rs = some shpR)
    (hboxR : inBox shpR oR = true) :
    gradedContract (FuseP.fusedArrM X [newG A xa]) (FuseP.fusedArrM Y [newG B xb])
        [bondPos A xa] [bondPos B xb] (Ls ++ Rs) oL oR
      = gradedContract A B xa xb (Ls ++ Rs) oL oR := by
  have W := h.W
  have hlen := W.len
  have oA := h.oneA
  have oB := h.oneB
  have LA := lay_one oA
  have LB := lay_one oB
  have ean : A.indices.length = A.ndim := rfl
  have ebn : B.indices.length = B.ndim := rfl
  have hXn : X.ndim = A.ndim := by
    show X.indices.length = _; rw [PX.indices]; exact LA.plen A.indices rfl
  have hYn : Y.ndim = B.ndim := by
    show Y.indices.length = _; rw [PY.indices]; exact LB.plen B.indices rfl
  obtain ⟨oAX, hposA⟩ := newG_one (X' := X) oA hXn
  obtain ⟨oBX, hposB⟩ := newG_one (X' := Y) oB hYn
  have hne : newG A xa ≠ [] := oAX.ne
  have xPh := PX.phases
  have yPh := PY.phases
  have H0 : Ctx0 (ab X) (ab Y) (newG A xa) (newG B xb) := ctx0_of_fctxG h PX PY xS yS xV yV
  -- the fused operands
  have hpAF : (FuseP.fusedArrM X [newG A xa]).phases = [] := xPh
  have hpBF : (FuseP.fusedArrM Y [newG B xb]).phases = [] := yPh
  have hafterA : (FuseP.giM X [newG A xa]).axesAfter.length = (FuseP.giM A [xa]).axesAfter.length := by
    have l1 := one_lengths oAX
    have l2 := one_lengths oA
    rw [newG_length, hposA, hXn] at l1
    omega
  have hafterB : (FuseP.giM Y [newG B xb]).axesAfter.length = (FuseP.giM B [xb]).axesAfter.length := by
    have l1 := one_lengths oBX
    have l2 := one_lengths oB
    rw [newG_length, hposB, hYn] at l1
    omega
  have nFA : (FuseP.fusedArrM X [newG A xa]).ndim
      = (FuseP.giM A [xa]).position + 1 + (FuseP.giM A [xa]).axesAfter.length := by
    rw [one_ndim oAX, one_ndimM oAX, hposA, hafterA]
  have nFB : (FuseP.fusedArrM Y [newG B xb]).ndim
      = (FuseP.giM B [xb]).position + 1 + (FuseP.giM B [xb]).axesAfter.length := by
    rw [one_ndim oBX, one_ndimM oBX, hposB, hafterB]
  have hbA : bondPos X (newG A xa) = bondPos A xa := hposA
  have hbB : bondPos Y (newG B xb) = bondPos B xb := hposB
  have hbA' : bondPos A xa = (FuseP.giM A [xa]).position := rfl
  have hbB' : bondPos B xb = (FuseP.giM B [xb]).position := rfl
  have hsymF : (FuseP.fusedArrM X [newG A xa]).sym = (FuseP.fusedArrM Y [newG B xb]).sym :=
    xS.trans (W.sym.trans yS.symm)
  have hflA : (freeAxes A.ndim (newG A xa)).length = (freeAxes A.ndim xa).length := by
    have h1 := congrArg List.length (LA.free (List.range A.ndim) List.length_range)
    rw [permuted_length _ _ (by
        intro x hx
        rw [LA.plen _ List.length_range]; exact (mem_freeAxes.mp hx).1),
      permuted_length _ _ (by intro x hx; rw [List.length_range]; exact (mem_freeAxes.mp hx).1)] at h1
    exact h1
  have hflB : (freeAxes B.ndim (newG B xb)).length = (freeAxes B.ndim xb).length := by
    have h1 := congrArg List.length (LB.free (List.range B.ndim) List.length_range)
    rw [permuted_length _ _ (by
        intro x hx
        rw [LB.plen _ List.length_range]; exact (mem_freeAxes.mp hx).1),
      permuted_length _ _ (by intro x hx; rw [List.length_range]; exact (mem_freeAxes.mp hx).1)] at h1
    exact h1
  have hLlen : Ls.length = (freeAxes A.ndim xa).length := by
    rw [(blockShape?_length hshpL).1, permuted_length _ _ (by simpa [ean] using mem_freeAxes_lt)]
  have hRlen : Rs.length = (freeAxes B.ndim xb).length := by
    rw [(blockShape?_length hshpR).1, permuted_length _ _ (by simpa [ebn] using mem_freeAxes_lt)]
  have hoLlen : oL.length = (freeAxes A.ndim xa).length := by
    rw [inBox_length hboxL, (blockShape?_length hshpL).2,
      permuted_length _ _ (by simpa [ean] using mem_freeAxes_lt)]
  have hFreeA : (freeAxes (FuseP.fusedArrM X [newG A xa]).ndim [bondPos X (newG A xa)]).length
      = (freeAxes A.ndim xa).length := by
    rw [one_ndim oAX]; unfold bondPos; rw [one_free_length oAX, hXn, hflA]
  have hFreeB : (freeAxes (FuseP.fusedArrM Y [newG B xb]).ndim [bondPos Y (newG B xb)]).length
      = (freeAxes B.ndim xb).length := by
    rw [one_ndim oBX]; unfold bondPos; rw [one_free_length oBX, hYn, hflB]
  -- the free tables of `X`, `Y` (new positions) and of the fused operands are those of `A`, `B`
  have hXfree : permuted X.indices (freeAxes X.ndim (newG A xa)) = permuted A.indices (freeAxes A.ndim xa) := by
    rw [hXn, PX.indices]; exact LA.free A.indices rfl
  have hYfree : permuted Y.indices (freeAxes Y.ndim (newG B xb)) = permuted B.indices (freeAxes B.ndim xb) := by
    rw [hYn, PY.indices]; exact LB.free B.indices rfl
  have hshpLX : Arr.blockShape? (permuted X.indices (freeAxes X.ndim (newG A xa))) Ls = some shpL := by
    rw [hXfree]; exact hshpL
  have hshpRY : Arr.blockShape? (permuted Y.indices (freeAxes Y.ndim (newG B xb))) Rs = some shpR := by
    rw [hYfree]; exact hshpR
  have hLf := fused_free_shape oAX hshpLX
  have hRf := fused_free_shape oBX hshpRY
  obtain ⟨hboxF, _⟩ := box_of_parts hLf hboxL hRf hboxR
  obtain ⟨hboxAB, _⟩ := box_of_parts hshpL hboxL hshpR hboxR
  have etakeF : (oL ++ oR).take (freeAxes (FuseP.fusedArrM X [newG A xa]).ndim [bondPos X (newG A xa)]).length = oL := by
    rw [hFreeA, ← hoLlen]; simp
  have edropF : (oL ++ oR).drop (freeAxes (FuseP.fusedArrM X [newG A xa]).ndim [bondPos X (newG A xa)]).length = oR := by
    rw [hFreeA, ← hoLlen]; simp
  -- the constant sign of the fused pair
  obtain ⟨σ, hσ⟩ : ∃ σ : Int, σ = bondSign A.sym (A.indices.getD (xa.headD 0) default).dual
      (FuseP.giM A [xa]).position (FuseP.giM B [xb]).position Ls Rs
      ((if A.parity then 1 else 0) + oddIn A.sym Ls) := ⟨_, rfl⟩
  have hσpm : σ = 1 ∨ σ = -1 := by rw [hσ]; exact bondSign_pm _ _ _ _ _ _ _
  have hk0 : 0 < xa.length := by
    have := h.ne
    cases xa with
    | nil => exact absurd rfl this
    | cons x xs => simp
  have hdualF : ((FuseP.fusedArrM X [newG A xa]).indices.getD (bondPos X (newG A xa)) default).dual
      = (A.indices.getD (xa.headD 0) default).dual := by
    show (FuseP.ixM X [newG A xa] 0).dual = _
    rw [one_fused_dual oAX, PX.indices, newG_headD oA]
    have := getD_perm_newG oA A.indices rfl 0 hk0 default
    rw [Nat.add_zero] at this
    rw [this, headD_eq_getD]
  have hparF : (FuseP.fusedArrM X [newG A xa]).parity = A.parity := by
    show X.sym.parity X.charge = A.sym.parity A.charge
    rw [xS, xCh]
  have hsF : ∀ q ∈ storedPairs (FuseP.fusedArrM X [newG A xa]) (FuseP.fusedArrM Y [newG B xb])
      (freeAxes (FuseP.fusedArrM X [newG A xa]).ndim [bondPos X (newG A xa)]) [bondPos X (newG A xa)]
      [bondPos Y (newG B xb)]
      (freeAxes (FuseP.fusedArrM Y [newG B xb]).ndim [bondPos Y (newG B xb)]) (Ls ++ Rs),
      gradedSign (FuseP.fusedArrM X [newG A xa]) (FuseP.fusedArrM Y [newG B xb]) [bondPos X (newG A xa)]
        [bondPos Y (newG B xb)] q.1 q.2 = σ := by
    rintro ⟨sa', sb'⟩ hq
    obtain ⟨hA1, hB1, hK, hs⟩ := mem_storedPairs.mp hq
    have hla := Arr.sector_length (Arr.shapesOk_of_validB hvAF) hA1
    have hlb := Arr.sector_length (Arr.shapesOk_of_validB hvBF) hB1
    have hr1A : ∀ x ∈ freeAxes (FuseP.fusedArrM X [newG A xa]).ndim [bondPos X (newG A xa)], x < sa'.length := by
      intro x hx; rw [hla]; exact mem_freeAxes_lt x hx
    have hl1 : (permuted sa' (freeAxes (FuseP.fusedArrM X [newG A xa]).ndim [bondPos X (newG A xa)])).length
        = Ls.length := by
      rw [permuted_length _ _ hr1A, hFreeA, hLlen]
    obtain ⟨hsL, hsR⟩ := List.append_inj hs hl1
    have hn1 : ([bondPos X (newG A xa)] : List Nat).Nodup := by simp
    have hlt1 : ∀ i ∈ ([bondPos X (newG A xa)] : List Nat), i < (FuseP.fusedArrM X [newG A xa]).ndim := by
      intro i hi
      simp only [List.mem_cons, List.not_mem_nil, or_false] at hi
      rw [hi, one_ndim oAX]; exact one_pos_lt_ndimM oAX
    have hps := parity_split (FuseP.fusedArrM X [newG A xa]) [bondPos X (newG A xa)] hn1 hlt1 sa' hla
      (Lazy.SecValid.of_valid hvAF sa' hA1)
    have eS : (FuseP.fusedArrM X [newG A xa]).sym = A.sym := xS
    rw [hsL, hparF, eS] at hps
    have hm := parity_m _ _ _ hps
    have key := gradedSign_fusedpair (FuseP.fusedArrM X [newG A xa]) (FuseP.fusedArrM Y [newG B xb])
      (FuseP.giM A [xa]).position (FuseP.giM A [xa]).axesAfter.length
      (FuseP.giM B [xb]).position (FuseP.giM B [xb]).axesAfter.length nFA nFB hsymF sa' sb' hla hlb
      (by rw [← hbA', ← hbB', ← hbA, ← hbB]; exact hK) ((if A.parity then 1 else 0) + oddIn A.sym Ls)
      (by rw [← hbA', ← hbA, eS]; exact hm)
    have hdualF' := hdualF
    rw [hbA, hbA'] at hsL hdualF'
    rw [hbB, hbB'] at hsR
    show gradedSign _ _ [bondPos X (newG A xa)] [bondPos Y (newG B xb)] sa' sb' = σ
    rw [hbA, hbB, hbA', hbB', key, hsL, hsR, hdualF', eS, hσ]
  -- step 1
  have step1 : gradedContract (FuseP.fusedArrM X [newG A xa]) (FuseP.fusedArrM Y [newG B xb])
      [bondPos X (newG A xa)] [bondPos Y (newG B xb)] (Ls ++ Rs) oL oR
      = sgnI σ ((tensordotBlockwise (FuseP.fusedArrM X [newG A xa]) (FuseP.fusedArrM Y [newG B xb])
          (freeAxes (FuseP.fusedArrM X [newG A xa]).ndim [bondPos X (newG A xa)]) [bondPos X (newG A xa)]
          [bondPos Y (newG B xb)]
          (freeAxes (FuseP.fusedArrM Y [newG B xb]).ndim [bondPos Y (newG B xb)])).elem (Ls ++ Rs) (oL ++ oR)) := by
    rw [tensordotBlockwise_elem_pairs _ _ _ _ hpAF hpBF (Arr.allDistinct_of_validB hvAF)
      (Arr.allDistinct_of_validB hvBF) (Arr.shapesOk_of_validB hvAF) (Arr.shapesOk_of_validB hvBF) _ _ hboxF,
      etakeF, edropF, ← sgnI_sum]
    unfold gradedContract
    apply sum_map_congr
    intro q hq
    rw [hsF q hq]
  -- step 2: the abelian theorem
  have step2 : (tensordotBlockwise (FuseP.fusedArrM X [newG A xa]) (FuseP.fusedArrM Y [newG B xb])
          (freeAxes (FuseP.fusedArrM X [newG A xa]).ndim [bondPos X (newG A xa)]) [bondPos X (newG A xa)]
          [bondPos Y (newG B xb)]
          (freeAxes (FuseP.fusedArrM Y [newG B xb]).ndim [bondPos Y (newG B xb)])).elem (Ls ++ Rs) (oL ++ oR)
      = (tensordotBlockwise X Y (freeAxes X.ndim (newG A xa)) (newG A xa) (newG B xb)
          (freeAxes Y.ndim (newG B xb))).elem (Ls ++ Rs) (oL ++ oR) :=
    bond_fuse_core_ab hz1 hz2 H0 hne hshpLX hboxL hshpRY hboxR
  -- step 3: the contraction of the re-indexed, twisted operands as a pair sum over `A`, `B`
  have step3 := contract_transport_gen A B X Y xa xb _ _ (newG A xa) (newG B xb) _ _
    (Arr.shapesOk_of_validB W.va) (Arr.shapesOk_of_validB W.vb) LA LB
    (shapes_match_w (Arr.shapesOk_of_validB W.va) (Arr.shapesOk_of_validB W.vb) W.con W.ltA W.ltB)
    PX PY (Ls ++ Rs) oL oR hoLlen hboxAB
  rw [← hbA, ← hbB, step1, step2, step3, ← sgnI_sum]
  unfold gradedContract
  apply sum_map_congr
  rintro ⟨sa, sb⟩ hp
  obtain ⟨hA1, hB1, hK, hs⟩ := mem_storedPairs.mp hp
  have hla := Arr.sector_length (Arr.shapesOk_of_validB W.va) hA1
  have hlb := Arr.sector_length (Arr.shapesOk_of_validB W.vb) hB1
  have hrA : ∀ x ∈ freeAxes A.ndim xa, x < sa.length := by
    intro x hx; rw [hla]; exact mem_freeAxes_lt x hx
  have hl1 : (permuted sa (freeAxes A.ndim xa)).length = Ls.length := by
    rw [permuted_length _ _ hrA, hLlen]
  obtain ⟨hsL, hsR⟩ := List.append_inj hs hl1
  have hps := parity_split A xa W.nA W.ltA sa hla (Lazy.SecValid.of_valid W.va sa hA1)
  rw [hsL] at hps
  have hm := parity_m _ _ _ hps
  have hid := fuse_signs_compatible_gen A B oA oB W.sym hlen h.dual sa sb hla hlb hK
  rw [hsL, hsR, bondSign_congr A.sym _ _ _ Ls Rs (show oddContracted A xa sa % 2 = _ from hm), ← hσ] at hid
  simp only
  rw [hid, GradedP.sgnI_comp hσpm (Lazy.mul_pm (PX.pm sa) (PY.pm sb)), Int.mul_assoc]

end main

end TdotP
end SymmModel
