/-
  SymmModel.Proofs.Dense4c — single-operand einsum at dense level, permutation case (property
  C08, fourth part): for an equation `lhs -> rhs` without repeated labels in which `rhs` uses
  every label of `lhs`, the dense form of `einsum` is the transposed dense form.
  Lifted from `TdotP.einsumA_elem'` (C02).

  New names live in `SymmModel.Dense4`.
-/
import SymmModel.Proofs.Dense4a
import SymmModel.Proofs.TdotMore

namespace SymmModel
namespace Dense4
open TdotP DenseP

variable {R : Type}

theorem einTraced_nil {lhs rhs : List Nat} (h : ∀ q ∈ lhs, q ∈ rhs) : einTraced lhs rhs = [] := by
  have : lhs.filter (fun q => !rhs.contains q) = [] := by
    rw [List.filter_eq_nil_iff]
    intro q hq
    simp [h q hq]
  rw [einTraced, this]; rfl

theorem einTracedPos_nil {lhs rhs : List Nat} (h : ∀ q ∈ lhs, q ∈ rhs) : einTracedPos lhs rhs = [] := by
  simp [einTracedPos, einTraced_nil h]

/-- the output permutation of an einsum equation -/
def einPermOf (lhs rhs : List Nat) : List Nat := rhs.map (fun q => (indexOf? lhs q).getD 0)

theorem einPermOf_lt {lhs rhs : List Nat} (h : ∀ q ∈ rhs, q ∈ lhs) :
    ∀ p ∈ einPermOf lhs rhs, p < lhs.length := by
  intro p hp
  obtain ⟨q, hq, rfl⟩ := List.mem_map.mp hp
  obtain ⟨k, hk1, hk2⟩ := FuseP.indexOf?_of_mem (h q hq)
  rw [hk1]
  exact FuseP.getElem?_lt hk2

/-- the operand index assembled from a permuted index is the index itself -/
theorem einIdx_permuted {lhs rhs : List Nat} (hnd : lhs.Nodup) (h1 : ∀ q ∈ lhs, q ∈ rhs)
    (h2 : ∀ q ∈ rhs, q ∈ lhs) (off : List Nat) (hl : off.length = lhs.length) (t : List Nat) :
    einIdx lhs rhs (permuted off (einPermOf lhs rhs)) t = off := by
  have hlt := einPermOf_lt h2
  apply List.ext_getElem (by simp [einIdx, hl])
  intro k hk1 hk2
  simp only [einIdx, List.length_map] at hk1
  simp only [einIdx, List.getElem_map]
  obtain ⟨j, hj1, hj2⟩ := FuseP.indexOf?_of_mem (h1 lhs[k] (List.getElem_mem hk1))
  have hjl := FuseP.getElem?_lt hj2
  rw [hj1]
  simp only
  rw [FuseP.permuted_eq_map off 0 _ (by rw [hl]; exact hlt)]
  simp only [einPermOf, List.getD_eq_getElem?_getD, List.getElem?_map, hj2, Option.map_some,
    Option.getD_some, FuseP.indexOf?_getElem_nodup hnd hk1, List.getElem?_eq_getElem hk2]

theorem einPermOf_isPerm {lhs rhs : List Nat} (hnd : lhs.Nodup) (hndr : rhs.Nodup)
    (h1 : ∀ q ∈ lhs, q ∈ rhs) (h2 : ∀ q ∈ rhs, q ∈ lhs) :
    Arr.isPerm (einPermOf lhs rhs) lhs.length = true := by
  have hlen : rhs.length = lhs.length := by
    have p : rhs.Perm lhs := (List.perm_ext_iff_of_nodup hndr hnd).mpr
      (fun q => ⟨h2 q, h1 q⟩)
    exact p.length_eq
  simp only [Arr.isPerm, Bool.and_eq_true, beq_iff_eq, List.all_eq_true, List.mem_range,
    List.contains_eq_mem, decide_eq_true_eq]
  refine ⟨by simp [einPermOf, hlen], fun k hk => ?_⟩
  refine List.mem_map.mpr ⟨lhs[k], h1 _ (List.getElem_mem hk), ?_⟩
  rw [FuseP.indexOf?_getElem_nodup hnd hk]; rfl

theorem sum_filter_unique {M : Type} [AddMonoid M] (l : List Sector) (hnd : l.Nodup)
    (P : Sector → Bool) (s : Sector) (hP : ∀ x ∈ l, P x = true ↔ x = s) (f : Sector → M) :
    ((l.filter P).map f).sum = if s ∈ l then f s else 0 := by
  induction l with
  | nil => simp
  | cons x xs ih =>
    rw [List.nodup_cons] at hnd
    have ih' := ih hnd.2 (fun y hy => hP y (List.mem_cons_of_mem _ hy))
    by_cases hx : x = s
    · subst hx
      have hpx : P x = true := (hP x (by simp)).mpr rfl
      rw [List.filter_cons_of_pos hpx, List.map_cons, List.sum_cons, ih', if_neg hnd.1]
      simp
    · have hpx : ¬ P x = true := fun h => hx ((hP x (by simp)).mp h)
      rw [List.filter_cons_of_neg hpx, ih']
      have : (s ∈ x :: xs) ↔ s ∈ xs := by
        simp only [List.mem_cons]
        exact ⟨fun h => h.resolve_left (fun e => hx e.symm), Or.inr⟩
      simp only [this]

/-- **einsum, permutation case, dense form.** -/
theorem einsum_perm_toDense_main [AddMonoid R] [Neg R] (a : Arr R) (lhs rhs : List Nat)
    (hnd : lhs.Nodup) (hndr : rhs.Nodup) (h1 : ∀ q ∈ lhs, q ∈ rhs) (h2 : ∀ q ∈ rhs, q ∈ lhs)
    (hl : lhs.length = a.ndim) (hv : a.validB = true) (hf : a.fermi = false)
    (hne : a.indices.any (fun ix => ix.cm.isEmpty) = false) :
    ∃ c dA dC, einsumA a lhs rhs = .ok c ∧ c.indices = permuted a.indices (einPermOf lhs rhs)
      ∧ Arr.toDenseA a = .ok dA ∧ Arr.toDenseA c = .ok dC ∧ dA.shape = a.shape
      ∧ dC.shape = permuted a.shape (einPermOf lhs rhs)
      ∧ ∀ p, inBox a.shape p = true → dC.get (permuted p (einPermOf lhs rhs)) = dA.get p := by
  have hperm : einPerm? lhs rhs = .ok (einPermOf lhs rhs) := einPerm?_ok lhs rhs h2
  have hany : (einTracedPos lhs rhs).any (fun js => js.length != 2) = false := by
    rw [einTracedPos_nil h1]; rfl
  obtain ⟨hsh, hnds, hlens, _, _, hph⟩ := validB_facts a hv
  have hpa : a.phases = [] := hph hf
  have hda : allDistinct a.sectors = true := by
    simp only [Arr.validB, Bool.and_eq_true] at hv
    exact hv.1.1.2
  have hsa : a.shapesOk := Arr.shapesOk_of_validB hv
  have hisp := einPermOf_isPerm hnd hndr h1 h2
  rw [hl] at hisp
  have hlt : ∀ q ∈ einPermOf lhs rhs, q < a.indices.length := by
    intro q hq; have := einPermOf_lt h2 q hq; rw [hl] at this; exact this
  -- the array
  obtain ⟨C, hc0, hCi⟩ : ∃ C : Arr R, einsumA a lhs rhs = .ok C
      ∧ C.indices = permuted a.indices (einPermOf lhs rhs) :=
    ⟨_, TdotP.einsumA_eq a lhs rhs (einPermOf lhs rhs) hperm hany, rfl⟩
  have hCne : C.indices.any (fun ix => ix.cm.isEmpty) = false := by
    rw [hCi]
    rw [List.any_eq_false] at hne ⊢
    exact fun ix hix => hne ix (mem_of_mem_permuted hix)
  have hCsh : C.shape = permuted a.shape (einPermOf lhs rhs) := by
    simp only [Arr.shape, hCi, permuted_map]
  obtain ⟨dA, hdA, hsA, hgA⟩ := Arr.toDenseA_get a hne
  obtain ⟨dC, hdC, hsC, hgC⟩ := Arr.toDenseA_get C hCne
  refine ⟨C, dA, dC, hc0, hCi, hdA, hdC, hsA, hsC.trans hCsh, fun p hp => ?_⟩
  have hpl : p.length = a.indices.length := by simpa [Arr.shape] using inBox_length hp
  obtain ⟨s, off, hlp, hvA⟩ := hgA p hp
  obtain ⟨hsl, hol⟩ := Arr.locateAll_length hlp hpl
  have hlq := Arr.locateAll_permuted hlp hpl (einPermOf lhs rhs) hlt
  obtain ⟨s', o', hl', hvC⟩ := hgC (permuted p (einPermOf lhs rhs))
    (by rw [hCsh]; exact inBox_permuted hp _ (by simpa [Arr.shape] using hlt))
  rw [hCi, hlq] at hl'
  simp only [Option.some.injEq, Prod.mk.injEq] at hl'
  obtain ⟨rfl, rfl⟩ := hl'
  rw [hvC, hvA]
  -- the value view from C02
  have hkeep : ∀ t : Sector, einKeep lhs rhs t = true := by
    intro t; simp [einKeep, einTracedPos_nil h1]
  have hinj : ∀ t ∈ a.sectors, permuted t (einPermOf lhs rhs) = permuted s (einPermOf lhs rhs) → t = s :=
    fun t ht h => permuted_inj hisp (hlens t ht) (by rw [hsl]; rfl) h
  obtain ⟨c, hc, _, _, hval⟩ := einsumA_elem' a lhs rhs (einPermOf lhs rhs) hperm hany hpa hda hsa
    (permuted s (einPermOf lhs rhs)) (permuted off (einPermOf lhs rhs)) (by
      intro t ht _ hpt
      have hts := hinj t ht hpt
      subst hts
      obtain ⟨b, hb⟩ := Option.isSome_iff_exists.mp (alookup_isSome_iff.mpr ht)
      have hbs := hsh.2 t b hb
      have hbox : inBox b.shape off = true := hsh.inBox hp hlp hb
      have hbl : b.shape.length = a.indices.length := Arr.blockShape?_shape_length hbs
      have hmap : rhs.map (einSize (Arr.blockShapeD a.indices t) lhs)
          = permuted b.shape (einPermOf lhs rhs) := by
        rw [FuseP.permuted_eq_map b.shape 0 _ (by rw [hbl]; exact hlt)]
        simp only [einPermOf, List.map_map]
        apply List.map_congr_left
        intro q hq
        obtain ⟨k, hk1, _⟩ := FuseP.indexOf?_of_mem (h2 q hq)
        simp [einSize, Arr.blockShapeD, hbs, hk1]
      rw [hmap]
      exact inBox_permuted hbox _ (by rw [hbl]; exact hlt))
  rw [hc0] at hc; injection hc with hc; subst hc
  rw [hval]
  have hinner : ∀ t : Sector,
      ((allIdx ((einTraced lhs rhs).map (einSize (Arr.blockShapeD a.indices t) lhs))).map
        (fun u => a.elem t (einIdx lhs rhs (permuted off (einPermOf lhs rhs)) u))).sum
        = a.elem t off := by
    intro t
    rw [einTraced_nil h1]
    simp only [List.map_nil, allIdx, List.map_cons, List.sum_cons, List.sum_nil, add_zero]
    rw [einIdx_permuted hnd h1 h2 off (by rw [hol, hl]; rfl)]
  simp only [hinner]
  rw [sum_filter_unique a.sectors hnds _ s (fun t ht => by
    simp only [hkeep t, Bool.true_and, beq_iff_eq]
    exact ⟨hinj t ht, fun h => by rw [h]⟩)]
  split
  · rfl
  · rename_i hns
    rw [Arr.elem_abelian a hpa, alookup_eq_none_iff.mpr hns]

end Dense4
end SymmModel
