import SymmModel.Proofs.TdotFuseC4
import SymmModel.Proofs.FuseFermi5
import SymmModel.Proofs.Fuse4Sign2
import SymmModel.Proofs.NormLemmas

/-!
# C06 — the fermionic fuse of the leading legs: its operand, its sign, and the twisted contraction

For the group `[0 … k-1]` the fermionic `fuse` does not move any leg; its sign at a sector depends
only on the first `k` charges and the duals of the first `k` legs.  A sector-wise sign on the left
operand that is constant on the contributing sectors factors out of the graded contraction.
-/

namespace SymmModel.TdotP
open SymmModel SymmModel.GradedP SymmModel.Lazy

variable {R : Type}

theorem getD_of_take_eq {α : Type} {l l' : List α} {k : Nat} (h : l.take k = l'.take k) {ax : Nat}
    (hax : ax < k) (d : α) : l.getD ax d = l'.getD ax d := by
  have := congrArg (fun z => z[ax]?) h
  simp only [List.getElem?_take, hax, if_true] at this
  rw [List.getD_eq_getElem?_getD, List.getD_eq_getElem?_getD, this]

/-! ### the group `[0 … k-1]` in the fermionic fuse -/

section lead
variable [Zero R] [Neg R]

theorem lead_permF (a : Arr R) {k : Nat} (h1 : 1 ≤ k) (h2 : k ≤ a.ndim) :
    (calcFuseGroupInfo [List.range k] a.duals).perm = List.range a.ndim :=
  lead_perm (X := a) h1 h2

theorem lead_newGroupsF (a : Arr R) {k : Nat} (h1 : 1 ≤ k) (h2 : k ≤ a.ndim) :
    FuseP.newGroupsF [List.range k] a.duals = [List.range k] := by
  have hok := FuseP.hokD (lead_groupsOk (X := a) h1 h2)
  have e : FuseP.newGroupsF [List.range k] a.duals = [(FuseP.newGroupsF [List.range k] a.duals).flatten] := by
    simp [FuseP.newGroupsF]
  rw [e, FuseP.newGroupsF_flatten hok]
  have hp : (calcFuseGroupInfo [List.range k] a.duals).position = 0 := lead_position (X := a) h1 h2
  rw [hp]
  simp

theorem lead_trIndices (a : Arr R) {k : Nat} (h1 : 1 ≤ k) (h2 : k ≤ a.ndim) :
    (a.transposeF (calcFuseGroupInfo [List.range k] a.duals).perm).indices = a.indices := by
  rw [(Lazy.transposeF_frame a _).2.2.1, lead_permF a h1 h2]
  exact Lazy.permuted_range a.indices

theorem lead_dualGroupsF (a : Arr R) {k : Nat} (h1 : 1 ≤ k) (h2 : k ≤ a.ndim) :
    FuseP.dualGroupsF a [List.range k]
      = if (a.indices.getD 0 default).dual then [List.range k] else [] := by
  unfold FuseP.dualGroupsF
  rw [lead_newGroupsF a h1 h2, lead_trIndices a h1 h2]
  have hh : (List.range k).headD 0 = 0 := by
    cases k with
    | zero => omega
    | succ m => simp [List.range_succ_eq_map]
  simp only [List.filter_cons, List.filter_nil, hh]

theorem lead_axesFlipF (a : Arr R) {k : Nat} (h1 : 1 ≤ k) (h2 : k ≤ a.ndim) :
    FuseP.axesFlipF a [List.range k]
      = if (a.indices.getD 0 default).dual
        then (List.range k).filter (fun ax => !(a.indices.getD ax default).dual) else [] := by
  unfold FuseP.axesFlipF
  rw [lead_dualGroupsF a h1 h2, lead_trIndices a h1 h2]
  split <;> simp

/-- the fermionic fuse sign of the leading group sees only the duals of the first `k` legs and the
    first `k` charges -/
theorem fuseSignT_lead_congr (a a' : Arr R) {k : Nat} (h1 : 1 ≤ k) (h2 : k ≤ a.ndim) (h2' : k ≤ a'.ndim)
    (hsym : a.sym = a'.sym)
    (hix : ∀ ax, ax < k → (a.indices.getD ax default).dual = (a'.indices.getD ax default).dual) {T T' : Sector}
    (hT : T.take k = T'.take k) :
    FuseP.fuseSignT a [List.range k] T = FuseP.fuseSignT a' [List.range k] T' := by
  have hok := lead_groupsOk (X := a) h1 h2
  have hok' := lead_groupsOk (X := a') h1 h2'
  have hd0 : (a.indices.getD 0 default).dual = (a'.indices.getD 0 default).dual :=
    hix 0 (by omega)
  have hfl : FuseP.axesFlipF a [List.range k] = FuseP.axesFlipF a' [List.range k] := by
    rw [lead_axesFlipF a h1 h2, lead_axesFlipF a' h1 h2', hd0]
    split
    · apply List.filter_congr
      intro ax hax
      rw [hix ax (List.mem_range.mp hax)]
    · rfl
  have hdg : FuseP.dualGroupsF a [List.range k] = FuseP.dualGroupsF a' [List.range k] := by
    rw [lead_dualGroupsF a h1 h2, lead_dualGroupsF a' h1 h2', hd0]
  have hflt : ∀ ax ∈ FuseP.axesFlipF a [List.range k], ax < k := by
    intro ax hax
    rw [lead_axesFlipF a h1 h2] at hax
    split at hax
    · exact List.mem_range.mp (List.mem_filter.mp hax).1
    · cases hax
  unfold FuseP.fuseSignT
  congr 1
  · rw [← hfl, ← hsym]
    unfold Lazy.flipSign Lazy.flipOdd
    have : (FuseP.axesFlipF a [List.range k]).filter (fun ax => a.sym.parity (T.getD ax (0, 0)))
        = (FuseP.axesFlipF a [List.range k]).filter (fun ax => a.sym.parity (T'.getD ax (0, 0))) := by
      apply List.filter_congr
      intro ax hax
      rw [getD_of_take_eq hT (hflt ax hax)]
    rw [this]
  · rw [← hdg]
    split
    · rfl
    · rw [FuseP.koszul_vpermF a _ hok, FuseP.koszul_vpermF a' _ hok', lead_newGroupsF a h1 h2,
        lead_newGroupsF a' h1 h2']
      have hsel : FuseP.dualSel a [List.range k] (List.range k)
          = FuseP.dualSel a' [List.range k] (List.range k) := by
        unfold FuseP.dualSel
        rw [lead_trIndices a h1 h2, lead_trIndices a' h1 h2']
        have hh : (List.range k).headD 0 = 0 := by
          cases k with
          | zero => omega
          | succ m => simp [List.range_succ_eq_map]
        rw [hh, hd0]
      simp only [FuseP.revProd, hsel]
      congr 2
      unfold FuseP.revSign KoszulP.oddCount
      have : (List.range k).filter (isOdd (T.map a.sym.parity))
          = (List.range k).filter (isOdd (T'.map a'.sym.parity)) := by
        apply List.filter_congr
        intro ax hax
        have hax' := List.mem_range.mp hax
        unfold isOdd
        rw [← hsym]
        have e : (T.map a.sym.parity).take k = (T'.map a.sym.parity).take k := by
          rw [← List.map_take, ← List.map_take, hT]
        exact getD_of_take_eq e hax' false
      rw [this]

end lead

/-- the operand of `_fuse_core` inside the fermionic fuse of the leading group: `a` itself, every
    stored sector multiplied by the fuse sign -/
theorem signAdj_lead [Zero R] [Neg R] [LawfulNeg R] (a : Arr R) {k : Nat} (hv : a.validB = true)
    (hf : a.fermi = true) (h1 : 1 ≤ k) (h2 : k ≤ a.ndim) :
    (FuseP.signAdj a [List.range k]).indices = a.indices
    ∧ (FuseP.signAdj a [List.range k]).sym = a.sym
    ∧ (FuseP.signAdj a [List.range k]).sectors = a.sectors
    ∧ (FuseP.signAdj a [List.range k]).phases = []
    ∧ (FuseP.signAdj a [List.range k]).validB = true
    ∧ (FuseP.signAdj a [List.range k]).fermi = a.fermi
    ∧ (FuseP.signAdj a [List.range k]).charge = a.charge
    ∧ (FuseP.signAdj a [List.range k]).oddpos = a.oddpos
    ∧ ∀ S J, (FuseP.signAdj a [List.range k]).elem S J
        = sgnI (FuseP.fuseSignT a [List.range k] S) (a.elem S J) := by
  have hok := lead_groupsOk (X := a) h1 h2
  obtain ⟨f1, f2, f3, f4, f5, f6⟩ := FuseP.signAdj_fields a [List.range k]
  have hobs := Norm.transposeF_id_obsEq (Lazy.Full.of_valid hv hf) (Lazy.ShapeLen.of_valid hv)
  have hsecT : (a.transposeF (calcFuseGroupInfo [List.range k] a.duals).perm).sectors = a.sectors := by
    rw [lead_permF a h1 h2, ← Lazy.skel_sectors, ← Lazy.skel_sectors, hobs.skel]
  refine ⟨?_, f3, ?_, f1, (ValidP.validB_iff _).2 (FuseP.signAdj_valid a _ hv hf hok), f4, f5, f6, ?_⟩
  · rw [f2, lead_permF a h1 h2]; exact Lazy.permuted_range a.indices
  · unfold FuseP.signAdj
    rw [Lazy.phaseSync_sectors]
    split
    · show ((a.transposeF _).phaseFlip _).blocks.map (·.1) = _
      rw [Lazy.phaseFlip_blocks]; exact hsecT
    · show ((a.transposeF _).phaseFlip _).blocks.map (·.1) = _
      rw [Lazy.phaseFlip_blocks]; exact hsecT
  · intro S J
    rw [FuseP.signAdj_elem]
    congr 1
    rw [lead_permF a h1 h2]
    exact hobs.elem S J

/-- a sector-wise sign on the left operand that is constant on the contributing sectors factors
    out of the graded contraction -/
theorem gradedContract_twist [AddCommMonoid R] [Mul R] [Neg R] [SignRing R] (X a b : Arr R)
    (xa xb : List Nat) (τ : Sector → Int) (hτ : ∀ s, τ s = 1 ∨ τ s = -1)
    (hidx : X.indices = a.indices) (hsym : X.sym = a.sym) (hsec : X.sectors = a.sectors)
    (helem : ∀ s o, X.elem s o = sgnI (τ s) (a.elem s o))
    (s : Sector) (σ : Int)
    (hσ : ∀ p ∈ storedPairs a b (freeAxes a.ndim xa) xa xb (freeAxes b.ndim xb) s, τ p.1 = σ)
    (oL oR : List Nat) :
    gradedContract X b xa xb s oL oR = sgnI σ (gradedContract a b xa xb s oL oR) := by
  have hnd : X.ndim = a.ndim := by
    show X.indices.length = a.indices.length
    rw [hidx]
  have hsp : storedPairs X b (freeAxes X.ndim xa) xa xb (freeAxes b.ndim xb) s
      = storedPairs a b (freeAxes a.ndim xa) xa xb (freeAxes b.ndim xb) s := by
    unfold storedPairs
    rw [hsec, hnd]
  unfold gradedContract
  rw [hsp, ← sgnI_sum]
  apply sum_map_congr
  intro p hp
  have hgs : gradedSign X b xa xb p.1 p.2 = gradedSign a b xa xb p.1 p.2 := by
    unfold gradedSign oddContracted ketOdd Arr.parities
    rw [hidx, hsym, hnd]
  have hcp : contractPair X b xa xb oL oR p = sgnI (τ p.1) (contractPair a b xa xb oL oR p) := by
    unfold contractPair
    rw [hidx, ← sgnI_sum]
    apply sum_map_congr
    intro kk _
    unfold contractTerm
    rw [helem, hnd]
    have := GradedP.sgnI_mul_mul (hτ p.1) (Or.inl rfl)
      (a.elem p.1 (mergeIdx 0 a.ndim xa (freeAxes a.ndim xa) kk oL))
      (b.elem p.2 (mergeIdx 0 b.ndim xb (freeAxes b.ndim xb) kk oR))
    rwa [Lazy.sgnI_one, Int.mul_one] at this
  have hσ' : σ = 1 ∨ σ = -1 := by rw [← hσ p hp]; exact hτ p.1
  rw [hgs, hcp, hσ p hp, GradedP.sgnI_comp (gradedSign_pm _ _ _ _ _ _) hσ',
    GradedP.sgnI_comp hσ' (gradedSign_pm _ _ _ _ _ _), Int.mul_comm]

end SymmModel.TdotP
