/-
  SymmModel.Proofs.Fuse5Cache — bridge between `fuseCore` (which, in the model, recomputes its plan)
  and the cached plan of property C15.
-/
import SymmModel.Props.C15
namespace SymmModel
namespace FuseP
open FuseCache

variable {R : Type}

/-- `_fuse_core` with the plan handed in (the result of `cached_fuse_block_info`, whatever produced
    it) instead of recomputed -/
def fuseCoreWithPlan [Zero R] (plan : Except Err FuseInfo) (a : Arr R) (mode : FuseMode) : Except Err (Arr R) := do
  let fi ← plan
  let newBlocks ← match mode with
    | .insert => fuseInsert a.blocks fi
    | .concat => fuseConcat a.indices a.blocks fi
  pure { a with indices := fi.newIndices, blocks := newBlocks }

/-- the model's `fuseCore` is `fuseCoreWithPlan` on the recomputed plan -/
theorem fuseCore_eq_withPlan [Zero R] (a : Arr R) (groups : List (List Nat)) (mode : FuseMode) :
    fuseCore a groups mode = fuseCoreWithPlan (calcFuseBlockInfo a groups) a mode := rfl

/-- the answer of the last call of a history of cache calls -/
def lastAnswer {β : Type} (rs : List (Option β)) : Option β := rs.getLast?.bind id

/-- after ANY history of calls (any policy, cache size, sector limit), the cache answers the call
    for `(a, groups)` with the plan of `(a, groups)` -/
theorem cached_plan_eq (P : Policy) (maxsize : Int) (maxsectors : Nat)
    (history : List (Arr R × List (List Nat))) (a : Arr R) (groups : List (List Nat)) :
    lastAnswer (runCallsP P (fuseSpec R maxsectors) (FuseCache.empty maxsize) (history ++ [(a, groups)])).1
      = some (calcFuseBlockInfo a groups) := by
  rw [C15.fuse_cache_history_independent]
  simp [lastAnswer]

end FuseP
end SymmModel
