/-
  SymmModel.Proofs.TwoStepDefs — vocabulary for "several pairs at once or one after another" (C04):
  the canonical einsum labels that trace, in the intermediate `c = a ·_{xa~xb} b`, the images of the
  remaining pairs `ya ~ yb`, and the axis order the fermionic einsum brings `c` to.
  Namespace `SymmModel.TwoStepP`.  Definitions only (+ sanity instances).
-/
import SymmModel.Proofs.LazyMore
import SymmModel.Proofs.Graded

namespace SymmModel
namespace TwoStepP
open TdotP GradedP

/-- position of the axis `ax` in the axis list `l` (0 if absent) -/
def posIn (l : List Nat) (ax : Nat) : Nat := (indexOf? l ax).getD 0

/-- rank of the intermediate `c`: free legs of `a` (w.r.t. `xa`), then free legs of `b` -/
def tsN (na nb : Nat) (xa xb : List Nat) : Nat := (freeAxes na xa).length + (freeAxes nb xb).length

/-- positions in `c` of `a`'s legs `ya` -/
def tsPA (na : Nat) (xa ya : List Nat) : List Nat := ya.map (posIn (freeAxes na xa))

/-- positions in `c` of `b`'s legs `yb` -/
def tsPB (na nb : Nat) (xa xb yb : List Nat) : List Nat :=
  yb.map (fun ax => (freeAxes na xa).length + posIn (freeAxes nb xb) ax)

/-- einsum input labels on `c`: the two legs of the `i`-th remaining pair get the label `N + i`,
    every other leg `p` its own position `p` -/
def tsLhs (na nb : Nat) (xa xb ya yb : List Nat) : List Nat :=
  (List.range (tsN na nb xa xb)).map (fun p =>
    match indexOf? (tsPA na xa ya) p with
    | some i => tsN na nb xa xb + i
    | none => match indexOf? (tsPB na nb xa xb yb) p with
      | some i => tsN na nb xa xb + i
      | none => p)

/-- einsum output labels: the untraced legs of `c`, in order -/
def tsRhs (na nb : Nat) (xa xb ya yb : List Nat) : List Nat :=
  (List.range (tsN na nb xa xb)).filter (fun p =>
    !(tsPA na xa ya).contains p && !(tsPB na nb xa xb yb).contains p)

/-- the axis order of `c` the fermionic einsum transposes to: each traced pair adjacent, in front,
    bra (dual leg) first — `a`'s leg `ya[i]` is dual iff the `c`-leg `PA[i]` is —, then the
    untraced legs in order -/
def tsOrder {R : Type} (a : Arr R) (nb : Nat) (xa xb ya yb : List Nat) : List Nat :=
  ((List.range ya.length).flatMap (fun i =>
    if (a.indices.getD (ya.getD i 0) default).dual
    then [(tsPA a.ndim xa ya).getD i 0, (tsPB a.ndim nb xa xb yb).getD i 0]
    else [(tsPB a.ndim nb xa xb yb).getD i 0, (tsPA a.ndim xa ya).getD i 0]))
  ++ tsRhs a.ndim nb xa xb ya yb

/-- sanity: `gA`, `gB` of C03 (rank 3 each), `xa = [1] ~ xb = [1]`, then `ya = [2] ~ yb = [0]`:
    `c` has legs `a0 a2 b0 b2`; the traced pair sits at positions `1, 2` -/
example : tsLhs 3 3 [1] [1] [2] [0] = [0, 4, 4, 3] ∧ tsRhs 3 3 [1] [1] [2] [0] = [0, 3]
    ∧ tsPA 3 [1] [2] = [1] ∧ tsPB 3 3 [1] [1] [0] = [2] := by decide

end TwoStepP
end SymmModel
