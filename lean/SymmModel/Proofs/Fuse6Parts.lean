/-
  SymmModel.Proofs.Fuse6Parts — lists cut into front / segment / rest, the three look-ups of an
  unfuse step as one function (`look`), and `unfVal` on lists given in parts.
-/
import SymmModel.Proofs.Fuse5Veq
namespace SymmModel
namespace FuseP
set_option linter.unusedSectionVars false
open SymmModel.Lazy

/-! ### front / segment / rest -/

theorem seg_parts {α : Type} {A S X : List α} {p L : Nat} (hA : A.length = p) (hS : S.length = L) :
    ((A ++ S ++ X).drop p).take L = S := by
  subst hA; subst hS
  exact (three_split A S X).2.1

theorem col_parts {α : Type} {A S X : List α} {p L : Nat} (hA : A.length = p) (hS : S.length = L)
    (seq : List α) :
    (A ++ S ++ X).take p ++ seq ++ (A ++ S ++ X).drop (p + L) = A ++ seq ++ X := by
  subst hA; subst hS
  rw [(three_split A S X).1, (three_split A S X).2.2]

theorem take_parts {α : Type} {A S X : List α} {p : Nat} (hA : A.length = p) : (A ++ S ++ X).take p = A := by
  subst hA; exact (three_split A S X).1

theorem drop_parts {α : Type} {A S X : List α} {p L : Nat} (hA : A.length = p) (hS : S.length = L) :
    (A ++ S ++ X).drop (p + L) = X := by
  subst hA; subst hS; exact (three_split A S X).2.2

/-- every list that is long enough is front ++ segment ++ rest -/
theorem exists_parts {α : Type} (K : List α) (p L : Nat) (h : p + L ≤ K.length) :
    ∃ A S X, K = A ++ S ++ X ∧ A.length = p ∧ S.length = L := by
  refine ⟨K.take p, (K.drop p).take L, K.drop (p + L), list_split3 K p L, ?_, ?_⟩
  · rw [List.length_take]; omega
  · rw [List.length_take, List.length_drop]; omega

/-- … and front ++ segment ++ middle ++ segment ++ rest -/
theorem exists_parts5 {α : Type} (K : List α) (p Lp m Lq : Nat) (h : p + Lp + m + Lq ≤ K.length) :
    ∃ A S M T C, K = A ++ S ++ M ++ T ++ C ∧ A.length = p ∧ S.length = Lp ∧ M.length = m ∧ T.length = Lq := by
  obtain ⟨A, S, X, rfl, hA, hS⟩ := exists_parts K p Lp (by omega)
  have hX : m + Lq ≤ X.length := by
    simp only [List.length_append] at h; omega
  obtain ⟨M, T, C, rfl, hM, hT⟩ := exists_parts X m Lq hX
  exact ⟨A, S, M, T, C, by simp only [List.append_assoc], hA, hS, hM, hT⟩

/-! ### the look-ups of one unfuse step -/

/-- fused charge of a segment -/
def cmb (sym : Sym) (ix : Index) (subs : List Index) (S : Sector) : Charge :=
  sym.combine (List.zipWith (fun c' (sub : Index) => sym.sign c' (ix.dual != sub.dual)) S subs)

/-- the three look-ups: extent of the fused charge, start of the sub-sector in it, sub-shape -/
def look (sym : Sym) (ix : Index) (subs : List Index) (exts : Extents) (S : Sector) :
    Option (Nat × List Nat) :=
  match alookup exts (cmb sym ix subs S) with
  | none => none
  | some e => match startOf e S with
    | none => none
    | some (st, _) => match Arr.blockShape? subs S with
      | none => none
      | some sub => some (st, sub)

theorem look_some {sym : Sym} {ix : Index} {subs : List Index} {exts : Extents} {S : Sector} {st : Nat}
    {sub : List Nat} (h : look sym ix subs exts S = some (st, sub)) :
    ∃ e d, alookup exts (cmb sym ix subs S) = some e ∧ startOf e S = some (st, d)
      ∧ Arr.blockShape? subs S = some sub := by
  unfold look at h
  cases he : alookup exts (cmb sym ix subs S) with
  | none => rw [he] at h; cases h
  | some e =>
    rw [he] at h
    simp only at h
    cases hs : startOf e S with
    | none => rw [hs] at h; cases h
    | some q =>
      obtain ⟨st', d⟩ := q
      rw [hs] at h
      simp only at h
      cases hb : Arr.blockShape? subs S with
      | none => rw [hb] at h; cases h
      | some sub' =>
        rw [hb] at h
        simp only [Option.some.injEq, Prod.mk.injEq] at h
        obtain ⟨rfl, rfl⟩ := h
        exact ⟨e, d, rfl, hs, rfl⟩

/-- `unfVal` on lists given in parts -/
theorem unfVal_parts {R : Type} [Zero R] [Neg R] (sym : Sym) (ix : Index) (subs : List Index) (exts : Extents)
    (sgn : Sector → Int) (v : Sector → List Nat → R) {p : Nat} {A S X : Sector} {A' S' X' : List Nat}
    (hA : A.length = p) (hS : S.length = subs.length) (hA' : A'.length = p) (hS' : S'.length = subs.length) :
    unfVal sym ix subs exts p sgn v (A ++ S ++ X) (A' ++ S' ++ X')
      = match look sym ix subs exts S with
        | none => 0
        | some (st, sub) => sgnI (sgn (A ++ S ++ X))
            (v (A ++ [cmb sym ix subs S] ++ X) (A' ++ [st + ravel sub S'] ++ X')) := by
  unfold unfVal look
  rw [seg_parts hA hS, seg_parts hA' hS', take_parts hA, take_parts hA', drop_parts hA hS, drop_parts hA' hS']
  unfold cmb
  cases alookup exts (sym.combine (List.zipWith (fun c' (sub : Index) => sym.sign c' (ix.dual != sub.dual)) S subs)) with
  | none => rfl
  | some e =>
    simp only
    cases startOf e S with
    | none => rfl
    | some q =>
      obtain ⟨st, d⟩ := q
      simp only
      cases Arr.blockShape? subs S with
      | none => rfl
      | some sub => rfl

end FuseP
end SymmModel
